/-
  The wallet ledger of the farm world (`Core/FarmLedger.lean`): exact point-wise description of what one
  ledger step does to every wallet (`stepL_op_spec`, `stepL_fund_spec`) and the conservation invariant
  `LInv` over all histories (`runL_inv`).
-/
import MxModel.Lemmas.FarmLedgerFlow

namespace Mx.FarmLedger
open Mx.Farm
open Mx.Weekly (upd)

/-- sum of a wallet column over the accounts of the world -/
def sumU (users : List Nat) (f : Nat → Nat) : Nat := (users.map f).sum

theorem sumU_congr {users : List Nat} {f g : Nat → Nat} (h : ∀ u ∈ users, g u = f u) :
    sumU users g = sumU users f := by
  unfold sumU; rw [List.map_congr_left h]

theorem sumU_point {users : List Nat} (hnd : users.Nodup) {f g : Nat → Nat} {a : Nat} (ha : a ∈ users)
    (h : ∀ u, u ≠ a → g u = f u) : sumU users g + f a = sumU users f + g a :=
  PV.sum_map_point hnd ha h

/-- a caller pays `pay` and gets `get` back -/
theorem sumU_payer {users : List Nat} (hnd : users.Nodup) {f g : Nat → Nat} {a pay get : Nat}
    (hp : a ∈ users ∨ (pay = 0 ∧ get = 0)) (hle : pay ≤ f a)
    (hg : ∀ j, g j = if j = a then f j - pay + get else f j) :
    sumU users g + pay = sumU users f + get := by
  by_cases ha : a ∈ users
  · have := sumU_point hnd ha (f := f) (g := g) (fun u hu => by rw [hg u, if_neg hu])
    have e := hg a
    rw [if_pos rfl] at e
    omega
  · rcases hp with hp | ⟨rfl, rfl⟩
    · exact absurd hp ha
    · rw [sumU_congr (f := f) (g := g)]
      intro u _
      rw [hg u]; split
      · omega
      · rfl

/-- a receiver is credited `x`; what goes to an address outside the world is counted in `out` -/
theorem sumU_credit {users : List Nat} (hnd : users.Nodup) {f g : Nat → Nat} {a x out : Nat}
    (hg : ∀ j, g j = f j + (if j = a then x else 0)) :
    sumU users g + (if a ∈ users then out else out + x) = sumU users f + out + x := by
  by_cases ha : a ∈ users
  · have := sumU_point hnd ha (f := f) (g := g) (fun u hu => by rw [hg u, if_neg hu]; rfl)
    have e := hg a
    rw [if_pos rfl] at e
    rw [if_pos ha]; omega
  · rw [if_neg ha, sumU_congr (f := f) (g := g)]
    · omega
    · intro u hu
      rw [hg u, if_neg (fun (e : u = a) => ha (e ▸ hu))]; rfl

/-! ### what one step does to every wallet -/

/-- a successful call: the farm steps; the caller's farming-token wallet loses what it sends (it must
    hold it) and gains what is sent back; the receiver of the reward payment gains exactly `Out.rew`
    (per `moveF`); every other wallet entry is untouched; the faucet total is untouched. -/
theorem stepL_op_spec {l l' : L} {op : Op} {o : Out} (h : stepL l (.op op) = some (l', o)) :
    step l.f op = some (l'.f, o) ∧
    (moveF l.f op o).payFarming ≤ l.w.getF (sameCol l.f) (moveF l.f op o).payer ∧
    l'.funded = l.funded ∧
    l'.outside = (if (moveF l.f op o).rewTo ∈ l.f.users then l.outside else l.outside + (moveF l.f op o).rew) ∧
    (∀ j, l'.w.farming j =
      if sameCol l.f = false ∧ j = (moveF l.f op o).payer
      then l.w.farming j - (moveF l.f op o).payFarming + (moveF l.f op o).getFarming else l.w.farming j) ∧
    (∀ j, l'.w.rew j =
      (if sameCol l.f = true ∧ j = (moveF l.f op o).payer
       then l.w.rew j - (moveF l.f op o).payFarming + (moveF l.f op o).getFarming else l.w.rew j)
      + (if j = (moveF l.f op o).rewTo then (moveF l.f op o).rew else 0)) := by
  simp only [stepL, applyMove, Option.bind_eq_bind, Option.bind_eq_some_iff, Option.pure_def,
    Option.some.injEq, Prod.mk.injEq, sub?_eq_some] at h
  obtain ⟨⟨s1, o1⟩, hs, w1, ⟨v, ⟨hle, rfl⟩, rfl⟩, rfl, rfl⟩ := h
  dsimp only at hle ⊢
  refine ⟨hs, hle, rfl, rfl, ?_, ?_⟩
  · intro j
    by_cases hj : j = (moveF l.f op o1).payer
    · subst hj
      cases hsame : sameCol l.f <;> simp [Wal.setF, Wal.credit, Wal.getF, upd]
    · cases hsame : sameCol l.f <;> simp [Wal.setF, Wal.credit, Wal.getF, upd, hj]
  · intro j
    by_cases hj : j = (moveF l.f op o1).payer
    · subst hj
      cases hsame : sameCol l.f <;>
        by_cases hr : (moveF l.f op o1).payer = (moveF l.f op o1).rewTo <;>
        simp [Wal.setF, Wal.credit, Wal.getF, upd, hr]
    · by_cases hr : j = (moveF l.f op o1).rewTo
      · subst hr
        cases hsame : sameCol l.f <;> simp [Wal.setF, Wal.credit, Wal.getF, upd, hj]
      · cases hsame : sameCol l.f <;> simp [Wal.setF, Wal.credit, Wal.getF, upd, hj, hr]

/-- the faucet: only the farming-token wallet of `who` (an account of the world) grows, up to `x`;
    exactly the amount created is added to `funded`; the farm is not touched -/
theorem stepL_fund_spec {l l' : L} {who x : Nat} {o : Out} (h : stepL l (.fund who x) = some (l', o)) :
    who ∈ l.f.users ∧ l'.f = l.f ∧ l'.outside = l.outside ∧
    l'.funded = l.funded + (x - l.w.getF (sameCol l.f) who) ∧
    (∀ j, l'.w.farming j = if sameCol l.f = false ∧ j = who then max (l.w.farming j) x else l.w.farming j) ∧
    (∀ j, l'.w.rew j = if sameCol l.f = true ∧ j = who then max (l.w.rew j) x else l.w.rew j) := by
  simp only [stepL, Option.bind_eq_bind, Option.bind_eq_some_iff, Option.pure_def,
    Option.some.injEq, Prod.mk.injEq, req_eq_some] at h
  obtain ⟨_, hw, rfl, _⟩ := h
  refine ⟨hw, rfl, rfl, rfl, ?_, ?_⟩
  · intro j
    by_cases hj : j = who
    · subst hj
      cases hsame : sameCol l.f <;> simp [Wal.setF, Wal.getF, upd]
    · cases hsame : sameCol l.f <;> simp [Wal.setF, Wal.getF, upd, hj]
  · intro j
    by_cases hj : j = who
    · subst hj
      cases hsame : sameCol l.f <;> simp [Wal.setF, Wal.getF, upd]
    · cases hsame : sameCol l.f <;> simp [Wal.setF, Wal.getF, upd, hj]

/-! ### conservation -/

/-- the conservation invariant of the ledger -/
structure LInv (l : L) : Prop where
  nodup : l.f.users.Nodup
  /-- all fungible tokens of the world: what the accounts hold + what left the world + the farm's
      principal + burned penalties = what the faucet created + what the farm paid out -/
  total : sumU l.f.users l.w.farming + sumU l.f.users l.w.rew + l.outside + l.f.balFarming + l.f.penaltyBurned
      = l.funded + l.f.paid
  /-- separate tokens: the reward wallets hold exactly what the farm booked as paid -/
  rew : sameCol l.f = false → sumU l.f.users l.w.rew + l.outside = l.f.paid
  /-- one token: the farming column is not used -/
  unused : sameCol l.f = true → ∀ u, l.w.farming u = 0
  /-- the farm's own accounting invariant (C05) -/
  acct : Acct l.f

theorem initL_inv (kind : Kind) (sameTok : Bool) (dsc perBlock : Nat) (produce : Bool) (users : List Nat)
    (e0 : Nat) (hnd : users.Nodup) : LInv (initL kind sameTok dsc perBlock produce users e0) := by
  have hz : sumU users (fun _ => 0) = 0 := by
    unfold sumU; exact PV.sum_map_zero (fun _ _ => rfl)
  refine ⟨hnd, ?_, fun _ => ?_, fun _ _ => rfl, init_acct ..⟩
  · show sumU users (fun _ => 0) + sumU users (fun _ => 0) + 0 + 0 + 0 = 0 + 0
    rw [hz]
  · show sumU users (fun _ => 0) + 0 = 0
    rw [hz]

theorem stepL_inv {l l' : L} {lop : LOp} {o : Out} (hI : LInv l) (h : stepL l lop = some (l', o)) :
    LInv l' := by
  obtain ⟨hnd, htot, hrew, hun, hacct⟩ := hI
  cases lop with
  | fund who x =>
    obtain ⟨hw, hf, ho, hfd, hfar, hrw⟩ := stepL_fund_spec h
    have hnd' : l'.f.users.Nodup := by rw [hf]; exact hnd
    have hacct' : Acct l'.f := by rw [hf]; exact hacct
    cases hsame : sameCol l.f
    · simp only [hsame, true_and, Bool.false_eq_true, false_and, if_false] at hfar hrw hfd
      have e1 := sumU_point hnd hw (f := l.w.farming) (g := l'.w.farming)
        (fun u hu => by rw [hfar u, if_neg hu])
      have e2 : sumU l.f.users l'.w.rew = sumU l.f.users l.w.rew := sumU_congr (fun u _ => hrw u)
      have e3 := hfar who
      rw [if_pos rfl] at e3
      simp only [Wal.getF, Bool.false_eq_true, if_false] at hfd
      have hr := hrew hsame
      refine ⟨hnd', ?_, fun _ => ?_, (fun hh => by rw [hf, hsame] at hh; cases hh), hacct'⟩
      · rw [hf, e2, ho, hfd]; omega
      · rw [hf, e2, ho]; exact hr
    · simp only [hsame, true_and, Bool.true_eq_false, false_and, if_false] at hfar hrw hfd
      have e1 := sumU_point hnd hw (f := l.w.rew) (g := l'.w.rew)
        (fun u hu => by rw [hrw u, if_neg hu])
      have e2 : sumU l.f.users l'.w.farming = sumU l.f.users l.w.farming := sumU_congr (fun u _ => hfar u)
      have e3 := hrw who
      rw [if_pos rfl] at e3
      simp only [Wal.getF, if_true] at hfd
      refine ⟨hnd', ?_, (fun hh => by rw [hf, hsame] at hh; cases hh),
        (fun _ u => by rw [hfar u]; exact hun hsame u), hacct'⟩
      rw [hf, e2, ho, hfd]; omega
  | op op =>
    obtain ⟨hs, hle, hfd, ho, hfar, hrw⟩ := stepL_op_spec h
    obtain ⟨fu, fp, fb, ff, fpay, fc⟩ := step_flow hs
    have hsc := step_sameCol hs
    have hacct' := step_acct hacct hs
    have hnd' : l'.f.users.Nodup := by rw [fu]; exact hnd
    generalize moveF l.f op o = m at *
    cases hsame : sameCol l.f
    · simp only [hsame, true_and, Bool.false_eq_true, false_and, if_false] at hfar hrw hle
      have hc0 : compAmt op o = 0 := by
        by_contra hne
        have := fc hne
        rw [hsame] at this; cases this
      simp only [Wal.getF, Bool.false_eq_true, if_false] at hle
      have e1 := sumU_payer hnd fpay hle hfar
      have e2 := sumU_credit hnd (out := l.outside) hrw
      rw [← ho] at e2
      have hr := hrew hsame
      refine ⟨hnd', ?_, fun _ => ?_, (fun hh => by rw [hsc, hsame] at hh; cases hh), hacct'⟩
      · rw [fu, hfd]; omega
      · rw [fu]; omega
    · simp only [hsame, true_and, Bool.true_eq_false, false_and, if_false] at hfar hrw hle
      simp only [Wal.getF, if_true] at hle
      -- the reward column: first the farming-token movement of the caller, then the reward credit
      have e1 := sumU_payer hnd fpay hle
        (g := fun j => if j = m.payer then l.w.rew j - m.payFarming + m.getFarming else l.w.rew j)
        (fun _ => rfl)
      have e2 := sumU_credit hnd (out := l.outside)
        (f := fun j => if j = m.payer then l.w.rew j - m.payFarming + m.getFarming else l.w.rew j)
        (g := l'.w.rew) hrw
      rw [← ho] at e2
      have e3 : sumU l.f.users l'.w.farming = sumU l.f.users l.w.farming := sumU_congr (fun u _ => hfar u)
      refine ⟨hnd', ?_, (fun hh => by rw [hsc, hsame] at hh; cases hh),
        (fun _ u => by rw [hfar u]; exact hun hsame u), hacct'⟩
      rw [fu, e3, hfd]; omega

theorem runL_inv (ops : List LOp) {l : L} (hI : LInv l) : LInv (runL l ops) := by
  induction ops generalizing l with
  | nil => exact hI
  | cons op rest ih =>
    simp only [runL, List.foldl_cons]
    cases hs : stepL l op with
    | none => exact ih hI
    | some r => exact ih (stepL_inv hI (o := r.2) (by rw [hs]))

theorem runL_cons (l : L) (op : LOp) (ops : List LOp) :
    runL l (op :: ops) = runL (match stepL l op with | some (l', _) => l' | none => l) ops := rfl

/-- the `Farm.Op`s of the successful calls of a ledger history -/
def farmOps : L → List LOp → List Op
  | _, [] => []
  | l, op :: ops =>
    match stepL l op with
    | none => farmOps l ops
    | some (l', _) =>
      match op with
      | .op o => o :: farmOps l' ops
      | .fund _ _ => farmOps l' ops

/-- the farm inside the ledger after a ledger history is the farm after the history of its successful
    calls (a call the ledger rejects because the caller's wallet is short is a failed transaction) -/
theorem runL_f (ops : List LOp) (l : L) : (runL l ops).f = Farm.run l.f (farmOps l ops) := by
  induction ops generalizing l with
  | nil => rfl
  | cons op ops ih =>
    rw [runL_cons]
    cases h : stepL l op with
    | none =>
      simp only [farmOps, h]
      exact ih l
    | some r =>
      obtain ⟨l1, o⟩ := r
      cases op with
      | fund who x =>
        obtain ⟨_, e1, _⟩ := stepL_fund_spec h
        simp only [farmOps, h]
        rw [ih l1, e1]
      | op op =>
        obtain ⟨hs, _⟩ := stepL_op_spec h
        simp only [farmOps, h]
        rw [ih l1]
        simp [Farm.run, hs]

end Mx.FarmLedger
