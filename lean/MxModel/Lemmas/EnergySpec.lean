/-
  Characterisation ("spec") lemmas of the energy-world endpoints: what a successful call implies.
  Property theorems (Props/C08, C09) are proved from these, never by unfolding `step`.
-/
import MxModel.Lemmas.EnergyInv

namespace Mx.Energy

/-! projections through the small state helpers -/
@[simp] theorem credit_epoch (s : St) (a n x : Nat) : (s.credit a n x).epoch = s.epoch := rfl
@[simp] theorem credit_nonces (s : St) (a n x : Nat) : (s.credit a n x).nonces = s.nonces := rfl
@[simp] theorem credit_energy (s : St) (a n x : Nat) : (s.credit a n x).energy = s.energy := rfl
@[simp] theorem credit_bal (s : St) (a n x : Nat) :
    (s.credit a n x).bal = upd2 s.bal a n (s.bal a n + x) := rfl
@[simp] theorem setEnergy_epoch (s : St) (a : Nat) (e : Entry) : (s.setEnergy a e).epoch = s.epoch := rfl
@[simp] theorem setEnergy_nonces (s : St) (a : Nat) (e : Entry) : (s.setEnergy a e).nonces = s.nonces := rfl
@[simp] theorem setEnergy_bal (s : St) (a : Nat) (e : Entry) : (s.setEnergy a e).bal = s.bal := rfl
@[simp] theorem setEnergy_energy (s : St) (a : Nat) (e : Entry) :
    (s.setEnergy a e).energy = updO s.energy a (some e) := rfl

/-- the unlock epoch `lockTokens` / `lockVirtual` assign -/
def lockUnlock (s : St) (epochs : Nat) : Nat := startOfMonth (s.epoch + epochs)

theorem lockTokens_spec {s s' : St} {c amt epochs dest : Nat} {o : Out}
    (h : lockTokens s c amt epochs dest = some (s', o)) :
    s.paused = false ∧ s.opts ≠ [] ∧ isListed s.opts epochs = true ∧
    s.epoch < lockUnlock s epochs ∧ 0 < amt ∧ amt ≤ s.base c ∧ amt ≤ s.baseSupply ∧
    o = ⟨s.nonceFor (lockUnlock s epochs), amt, 0⟩ ∧
    s' = (({ (s.ensureNonce (lockUnlock s epochs)) with
              base := upd s.base c (s.base c - amt), baseSupply := s.baseSupply - amt,
              burnLock := s.burnLock + amt, circ := s.circ + amt }.credit
            (if dest = 0 then c else dest) (s.nonceFor (lockUnlock s epochs)) amt).setEnergy
          (if dest = 0 then c else dest)
          ((s.view (if dest = 0 then c else dest)).addAfterLock amt (lockUnlock s epochs) s.epoch)) := by
  simp only [lockTokens, Option.bind_eq_bind, Option.bind_eq_some_iff, req_eq_some, sub?_eq_some,
    Option.pure_def, Option.some.injEq, Prod.mk.injEq] at h
  obtain ⟨_, h1, _, h2, _, h3, _, h4, _, h5, b, ⟨h6, rfl⟩, bs, ⟨h7, rfl⟩, rfl, rfl⟩ := h
  exact ⟨h1, h2, h3, h4, h5, h6, h7, rfl, rfl⟩

theorem lockTokens_inv {s s' : St} {c amt epochs dest : Nat} {o : Out} (hi : Inv s)
    (hd : (if dest = 0 then c else dest) < SCBASE)
    (h : lockTokens s c amt epochs dest = some (s', o)) : Inv s' := by
  obtain ⟨_, _, _, hlt, _, _, _, _, rfl⟩ := lockTokens_spec h
  generalize (if dest = 0 then c else dest) = d at *
  have hN := ensureNonce_isNonce s (lockUnlock s epochs)
  have hns := ensureNonce_nonces s (lockUnlock s epochs)
  have hns' : (s.ensureNonce (lockUnlock s epochs)).nonces = s.nonces ∨
      ∃ u, (s.ensureNonce (lockUnlock s epochs)).nonces = s.nonces ++ [u] := by
    rcases hns with h | h
    · exact Or.inl h
    · exact Or.inr ⟨_, h⟩
  have hlen : s.nonces.length ≤ (s.ensureNonce (lockUnlock s epochs)).nonces.length := by
    rcases hns with h | h <;> (rw [h]; try simp)
  have hb := ensureNonce_bal s (lockUnlock s epochs) hd
  clear h
  refine inv_user_update hi hd (e' := (s.view d).addAfterLock amt (lockUnlock s epochs) s.epoch)
    (by simp) (by simpa using hns') ?_ ?_ ?_ ?_ ?_
  · intro x hx
    simp [updO_other _ _ hx]
  · intro x hx hxd
    simp only [setEnergy_bal, credit_bal]
    rw [upd2_other _ _ _ hxd]
    exact ensureNonce_bal s _ hx
  · simp [updO_same]
  · simp only [setEnergy_bal, credit_bal, setEnergy_nonces, credit_nonces, upd2_same, hb]
    exact (tracks_of_nonces (hi.track d hd) hns' (hi.dom d _ hd (Or.inr (by omega)))).addAfterLock hN
      (Nat.le_of_lt hlt) amt
  · simp only [setEnergy_bal, credit_bal, setEnergy_nonces, credit_nonces, upd2_same, hb]
    exact dom_upd hN (fun m hm => hi.dom d m hd (by omega))

end Mx.Energy
