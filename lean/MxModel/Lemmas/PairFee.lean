/-
  What fee routing (`send_fee`, `send_fee_slice`) can do to a pair: the relation `FeeRel`.
-/
import MxModel.Lemmas.PairArith

namespace Mx.Pair

/-- fields that fee routing never touches (nor does the credit of simple-lock's holdings that
    follows it in a swap: `slk1/slk2` are deliberately not listed, see `swapIn_spec`) -/
def SameCfg (s s' : St) : Prop :=
  s'.S = s.S ∧ s'.lpCirc = s.lpCirc ∧ s'.lpOwn = s.lpOwn ∧ s'.status = s.status ∧
  s'.total = s.total ∧ s'.special = s.special ∧ s'.dests = s.dests ∧ s'.cut = s.cut ∧
  s'.adder = s.adder ∧ s'.wl = s.wl ∧ s'.round = s.round ∧ s'.sp = s.sp ∧
  s'.lockDeadline = s.lockDeadline ∧ s'.lockUnlockEpoch = s.lockUnlockEpoch ∧
  s'.lockSc = s.lockSc ∧ s'.epoch = s.epoch

theorem SameCfg.refl (s : St) : SameCfg s s := by simp [SameCfg]

theorem SameCfg.trans {a b c : St} (h1 : SameCfg a b) (h2 : SameCfg b c) : SameCfg a c := by
  simp only [SameCfg] at *
  obtain ⟨a1, a2, a3, a4, a5, a6, a7, a8, a9, a10, a11, a12, a13, a14, a15, a16⟩ := h1
  obtain ⟨b1, b2, b3, b4, b5, b6, b7, b8, b9, b10, b11, b12, b13, b14, b15, b16⟩ := h2
  simp [*]

/-- Effect of routing `spent` units of the input token of direction `d` away from the
    slack between balance and reserve: either the balance drops (burn / collector / trusted
    pair) or the reserve rises (local swap, whose output leaves balance and reserve alike). -/
structure FeeRel (d : Dir) (s s' : St) (spent : Nat) : Prop where
  inSide : s.balIn d + s'.rin d = s'.balIn d + s.rin d + spent
  outSide : s.balOut d + s'.rout d = s'.balOut d + s.rout d
  rinMono : s.rin d ≤ s'.rin d
  routAnti : s'.rout d ≤ s.rout d
  routPos : 0 < s.rout d → 0 < s'.rout d
  balInLe : s'.balIn d ≤ s.balIn d
  balOutLe : s'.balOut d ≤ s.balOut d
  kMono : s.rin d * s.rout d ≤ s'.rin d * s'.rout d
  same : SameCfg s s'

theorem FeeRel.refl (d : Dir) (s : St) : FeeRel d s s 0 :=
  ⟨by omega, by omega, Nat.le_refl _, Nat.le_refl _, id, Nat.le_refl _, Nat.le_refl _,
   Nat.le_refl _, SameCfg.refl s⟩

theorem FeeRel.trans {d : Dir} {a b c : St} {x y : Nat}
    (h1 : FeeRel d a b x) (h2 : FeeRel d b c y) : FeeRel d a c (x + y) := by
  have i1 := h1.inSide; have i2 := h2.inSide
  have o1 := h1.outSide; have o2 := h2.outSide
  have r1 := h1.rinMono; have r2 := h2.rinMono
  have t1 := h1.routAnti; have t2 := h2.routAnti
  have b1 := h1.balInLe; have b2 := h2.balInLe
  have c1 := h1.balOutLe; have c2 := h2.balOutLe
  exact ⟨by omega, by omega, by omega, by omega, fun h => h2.routPos (h1.routPos h),
         by omega, by omega, Nat.le_trans h1.kMono h2.kMono, h1.same.trans h2.same⟩

/-! one slice -/

theorem localSwap_spec {s s' : St} {d : Dir} {a out : Nat}
    (h : s.localSwap d a = some (s', out)) :
    out = amountOutNoFee a (s.rin d) (s.rout d) ∧ out < s.rout d ∧ out ≠ 0 ∧
    s' = s.setR d (s.rin d + a) (s.rout d - out) := by
  simp only [St.localSwap, Option.bind_eq_bind, Option.bind_eq_some_iff, req_eq_some,
    Option.pure_def, Option.some.injEq, Prod.mk.injEq] at h
  obtain ⟨_, _, _, ⟨h1, h2⟩, h3, h4⟩ := h
  subst h4
  exact ⟨rfl, h1, h2, h3.symm⟩

theorem feeSlice_spec {s s' : St} {d : Dir} {slice : Nat} {w : Want}
    (h : s.feeSlice d slice w = some s') : FeeRel d s s' slice := by
  unfold St.feeSlice at h
  split at h
  · -- burn
    simp only [St.debitIn, Option.bind_eq_bind, Option.bind_eq_some_iff, sub?_eq_some,
      Option.pure_def, Option.some.injEq] at h
    obtain ⟨s1, ⟨b, ⟨hb, rfl⟩, rfl⟩, rfl⟩ := h
    cases d <;>
      refine ⟨?_, ?_, ?_, ?_, ?_, ?_, ?_, ?_, ?_⟩ <;>
      simp [St.balIn, St.balOut, St.rin, St.rout, St.setBal, St.addBurnIn, SameCfg] at * <;> omega
  · split at h
    · -- local swap, burn the output
      simp only [Option.bind_eq_bind, Option.bind_eq_some_iff, St.debitOut, sub?_eq_some,
        Option.pure_def, Option.some.injEq] at h
      obtain ⟨⟨s1, out⟩, hl, s2, ⟨b, ⟨hb, rfl⟩, rfl⟩, rfl⟩ := h
      obtain ⟨ho, hlt, hne, rfl⟩ := localSwap_spec hl
      have hk := noFee_k slice (s.rin d) (s.rout d) (by omega)
      rw [← ho] at hk
      cases d <;>
        refine ⟨?_, ?_, ?_, ?_, ?_, ?_, ?_, ?_, ?_⟩ <;>
        simp [St.balIn, St.balOut, St.rin, St.rout, St.setBal, St.setR, St.addBurnOut,
          St.addBurnIn, Dir.flip, SameCfg] at * <;> first | omega | (try nlinarith)
    · split at h
      · -- trusted pair for the input token
        simp only [Option.bind_eq_bind, Option.bind_eq_some_iff, St.debitIn, sub?_eq_some,
          Option.pure_def, Option.some.injEq] at h
        obtain ⟨x', _, s1, ⟨b, ⟨hb, rfl⟩, rfl⟩, rfl⟩ := h
        cases d <;>
          refine ⟨?_, ?_, ?_, ?_, ?_, ?_, ?_, ?_, ?_⟩ <;>
          simp [St.balIn, St.balOut, St.rin, St.rout, St.setBal, St.setXIn, St.addExtIn,
            SameCfg] at * <;> omega
      · split at h
        · -- local swap then trusted pair for the output token
          simp only [Option.bind_eq_bind, Option.bind_eq_some_iff, St.debitOut, sub?_eq_some,
            Option.pure_def, Option.some.injEq] at h
          obtain ⟨⟨s1, out⟩, hl, x', _, s2, ⟨b, ⟨hb, rfl⟩, rfl⟩, rfl⟩ := h
          obtain ⟨ho, hlt, hne, rfl⟩ := localSwap_spec hl
          have hk := noFee_k slice (s.rin d) (s.rout d) (by omega)
          rw [← ho] at hk
          cases d <;>
            refine ⟨?_, ?_, ?_, ?_, ?_, ?_, ?_, ?_, ?_⟩ <;>
            simp [St.balIn, St.balOut, St.rin, St.rout, St.setBal, St.setR, St.setXOut,
              St.setXIn, St.addExtOut, St.addExtIn, Dir.flip, SameCfg] at * <;>
            first | omega | (try nlinarith)
        · simp at h

theorem feeSlices_spec {d : Dir} {slice : Nat} (ws : List Want) {s s' : St}
    (h : s.feeSlices d slice ws = some s') : FeeRel d s s' (slice * ws.length) := by
  induction ws generalizing s with
  | nil =>
    simp only [St.feeSlices, Option.some.injEq] at h
    subst h
    simpa using FeeRel.refl d s
  | cons w ws ih =>
    simp only [St.feeSlices, Option.bind_eq_bind, Option.bind_eq_some_iff] at h
    obtain ⟨s1, h1, h2⟩ := h
    have := (feeSlice_spec h1).trans (ih h2)
    simpa [Nat.mul_succ, Nat.add_comm] using this

/-! ### fee routing never touches simple-lock's holdings -/

/-- simple-lock's holdings of both pool tokens are the same in `s` and `s'` -/
def SameSlk (s s' : St) : Prop := s'.slk1 = s.slk1 ∧ s'.slk2 = s.slk2

theorem SameSlk.refl (s : St) : SameSlk s s := ⟨rfl, rfl⟩

theorem SameSlk.trans {a b c : St} (h1 : SameSlk a b) (h2 : SameSlk b c) : SameSlk a c :=
  ⟨h2.1.trans h1.1, h2.2.trans h1.2⟩

theorem feeSlice_slk {s s' : St} {d : Dir} {slice : Nat} {w : Want}
    (h : s.feeSlice d slice w = some s') : SameSlk s s' := by
  unfold St.feeSlice at h
  split at h
  · simp only [St.debitIn, Option.bind_eq_bind, Option.bind_eq_some_iff, sub?_eq_some,
      Option.pure_def, Option.some.injEq] at h
    obtain ⟨s1, ⟨b, ⟨hb, rfl⟩, rfl⟩, rfl⟩ := h
    cases d <;> exact ⟨rfl, rfl⟩
  · split at h
    · simp only [Option.bind_eq_bind, Option.bind_eq_some_iff, St.debitOut, sub?_eq_some,
        Option.pure_def, Option.some.injEq] at h
      obtain ⟨⟨s1, out⟩, hl, s2, ⟨b, ⟨hb, rfl⟩, rfl⟩, rfl⟩ := h
      obtain ⟨_, _, _, rfl⟩ := localSwap_spec hl
      cases d <;> exact ⟨rfl, rfl⟩
    · split at h
      · simp only [Option.bind_eq_bind, Option.bind_eq_some_iff, St.debitIn, sub?_eq_some,
          Option.pure_def, Option.some.injEq] at h
        obtain ⟨x', _, s1, ⟨b, ⟨hb, rfl⟩, rfl⟩, rfl⟩ := h
        cases d <;> exact ⟨rfl, rfl⟩
      · split at h
        · simp only [Option.bind_eq_bind, Option.bind_eq_some_iff, St.debitOut, sub?_eq_some,
            Option.pure_def, Option.some.injEq] at h
          obtain ⟨⟨s1, out⟩, hl, x', _, s2, ⟨b, ⟨hb, rfl⟩, rfl⟩, rfl⟩ := h
          obtain ⟨_, _, _, rfl⟩ := localSwap_spec hl
          cases d <;> exact ⟨rfl, rfl⟩
        · simp at h

theorem feeSlices_slk {d : Dir} {slice : Nat} (ws : List Want) {s s' : St}
    (h : s.feeSlices d slice ws = some s') : SameSlk s s' := by
  induction ws generalizing s with
  | nil =>
    simp only [St.feeSlices, Option.some.injEq] at h
    subst h
    exact SameSlk.refl s
  | cons w ws ih =>
    simp only [St.feeSlices, Option.bind_eq_bind, Option.bind_eq_some_iff] at h
    obtain ⟨s1, h1, h2⟩ := h
    exact (feeSlice_slk h1).trans (ih h2)

end Mx.Pair
