/-
  The accounting invariant of the staking model and its preservation by every transaction
  (hence by every history).  Everything here follows from `Eff` (Lemmas/StakingEff.lean).
-/
import MxModel.Lemmas.StakingEff

namespace Mx.Staking

open Mx.Weekly

/-- Accounting invariant.
    * `acc_le`   accrued rewards never exceed the capacity the admin topped up;
    * `bal_eq`   the contract's staking-token balance = (supply − proxy-virtual stake)
                 + outstanding unbond amounts + (capacity − accumulated) + reserve
                 (written additively over `Int`, `virt` and `unbondOut` are signed ledgers);
    * `res_eq`   reserve = generated (= `accumulated`) − paid;
    * `budget`   every accrual was split into a base share and a boosted cut;
    * `pct_le`, `time`, `last_le`  side conditions (sane percentage, monotone time). -/
structure Inv (s : St) : Prop where
  acc_le : s.accumulated ≤ s.capacity
  bal_eq : (s.bal : Int) + s.virt + s.accumulated = s.supply + s.unbondOut + s.capacity + s.reserve
  res_eq : s.reserve + s.paidBase + s.paidBoosted = s.accumulated
  budget : s.baseBudget + s.boostedBudget = s.accumulated
  pct_le : s.boostedPct ≤ MAX_PERCENT
  time : s.firstWeek ≤ s.epoch
  last_le : s.lastBlock ≤ s.block

theorem inv_init (epoch block dsc maxApr minUnbond perBlock : Nat) (accts wl : List Nat) :
    Inv (init epoch block dsc maxApr minUnbond perBlock accts wl) := by
  constructor <;> simp [init, MAX_PERCENT]

theorem inv_of_eff {s s' : St} (hi : Inv s) (h : Eff s s') : Inv s' := by
  obtain ⟨tot, cut, inc, pb, pbo, up, down, hgen, hcut, e1, e2, e3, e4, e5, e6, e7, hdown, e8, hp, e9, e10,
    e11, e12, e13⟩ := h
  obtain ⟨a1, a2, a3, a4, a5, a6, a7⟩ := hi
  have htot : tot ≤ s.capacity - s.accumulated := by
    rcases hgen with ⟨rfl, _⟩ | ⟨_, rfl, _⟩
    · exact Nat.zero_le _
    · exact genTot_le_room s
  constructor
  · rcases hdown with rfl | ⟨rfl, hd⟩ <;> omega
  · omega
  · omega
  · omega
  · exact hp a5
  · omega
  · rcases hgen with ⟨_, _, _, hl | hl⟩ | ⟨_, _, _, _, hl⟩ <;> omega

theorem step_inv {s s' : St} {op : Op} {o : Out} (hi : Inv s) (h : step s op = some (s', o)) :
    Inv s' :=
  inv_of_eff hi (step_eff h)

theorem run_inv (ops : List Op) {s : St} (hi : Inv s) : Inv (run s ops) := by
  induction ops generalizing s with
  | nil => simpa [run] using hi
  | cons op ops ih =>
    simp only [run, List.foldl_cons]
    cases hst : step s op with
    | none => exact ih hi
    | some r =>
      obtain ⟨s1, o⟩ := r
      exact ih (step_inv hi hst)

theorem run_append (s : St) (a b : List Op) : run s (a ++ b) = run (run s a) b := by
  simp [run, List.foldl_append]

end Mx.Staking
