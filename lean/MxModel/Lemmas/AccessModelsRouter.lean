/-
  Access / pause facts about the EXECUTABLE router world model (Core/Router.lean: the router, the
  pair contracts it deployed, the users' direct calls to those pairs), proved from the spec lemmas
  of Lemmas/Router{Spec,User,Pause}.lean (helper lemmas for Props/C19Models.lean).
-/
import MxModel.Lemmas.RouterPause
import MxModel.Lemmas.RouterUser

namespace Mx.Router

/-! ### a user's direct call to pair `a` runs the pair's own endpoint on the pair's state -/

theorem addInitial_pair {s : St} {u a : Addr} {a1 a2 : Nat} {r : St × Out}
    (h : addInitial s u a a1 a2 = some r) :
    ∃ p, s.pairs a = some p ∧ p.st.status = .inactive ∧ p.st.S = 0 ∧
      (p.st.adder = none ∨ p.st.adder = some u) := by
  simp only [addInitial, Option.bind_eq_bind, Option.bind_eq_some_iff] at h
  obtain ⟨p, hp, _, _, _, _, q, hq, _⟩ := h
  obtain ⟨h1, _, _, h4, h5, _⟩ := Mx.Pair.addInitial_spec (s' := q.1) (o := q.2) hq
  exact ⟨p, hp, h4, h5, h1⟩

theorem addLiq_pair {s : St} {u a : Addr} {a1 a2 m1 m2 : Nat} {r : St × Out}
    (h : addLiq s u a a1 a2 m1 m2 = some r) :
    ∃ p, s.pairs a = some p ∧ (p.st.status = .active ∨ p.st.status = .partialActive) := by
  simp only [addLiq, Option.bind_eq_bind, Option.bind_eq_some_iff] at h
  obtain ⟨p, hp, _, _, q, hq, _⟩ := h
  exact ⟨p, hp, pair_addLiq_status hq⟩

theorem removeLiq_pair {s : St} {u a : Addr} {lp m1 m2 : Nat} {r : St × Out}
    (h : removeLiq s u a lp m1 m2 = some r) :
    ∃ p, s.pairs a = some p ∧ (p.st.status = .active ∨ p.st.status = .partialActive) := by
  simp only [removeLiq, Option.bind_eq_bind, Option.bind_eq_some_iff] at h
  obtain ⟨p, hp, _, _, q, hq, _⟩ := h
  exact ⟨p, hp, pair_removeLiq_status hq⟩

theorem swapIn_pair {s : St} {u a : Addr} {ti : Tok} {x : Nat} {tout : Tok} {m : Nat} {r : St × Out}
    (h : swapIn s u a ti x tout m = some r) :
    ∃ p, s.pairs a = some p ∧ p.st.status = .active := by
  simp only [swapIn, Option.bind_eq_bind, Option.bind_eq_some_iff] at h
  obtain ⟨p, hp, _, _, _, _, q, hq, _⟩ := h
  exact ⟨p, hp, pair_swapIn_status hq⟩

theorem swapOut_pair {s : St} {u a : Addr} {ti : Tok} {mx : Nat} {tout : Tok} {out : Nat} {r : St × Out}
    (h : swapOut s u a ti mx tout out = some r) :
    ∃ p, s.pairs a = some p ∧ p.st.status = .active := by
  simp only [swapOut, Option.bind_eq_bind, Option.bind_eq_some_iff] at h
  obtain ⟨p, hp, _, _, _, _, q, hq, _⟩ := h
  exact ⟨p, hp, pair_swapOut_status hq⟩

end Mx.Router
