/-
  Characterisation ("spec") lemmas of the staking model: what `generate` does, and — for every
  endpoint — how a successful call moves the ACCOUNTING cells (capacity, accumulated, reserve,
  supply, the contract's balance, the ghost ledgers).  Property theorems (Props/C12, C05Staking,
  C06Staking, …) are proved from these, never by unfolding `step`.
-/
import MxModel.Core.Staking
import Mathlib.Tactic.Linarith

namespace Mx.Staking

open Mx.Weekly

/-! ### generate -/

/-- the storage after `generate_aggregated_rewards` -/
def genSt (s : St) : St :=
  { s with lastBlock := max s.lastBlock s.block,
           accumulated := s.accumulated + genTot s,
           b := { s.b with accumulated := upd s.b.accumulated s.week (s.b.accumulated s.week + genCut s (genTot s)) },
           baseBudget := s.baseBudget + (genTot s - genCut s (genTot s)),
           boostedBudget := s.boostedBudget + genCut s (genTot s) }

/-- the cache after `generate_aggregated_rewards` -/
def genCache (s : St) (c : Cache) : Cache :=
  { c with reserve := c.reserve + genTot s,
           rps := c.rps + rpsInc s.dsc (genTot s - genCut s (genTot s)) c.supply }

theorem generate_spec {s s1 : St} {c c1 : Cache} (h : generate s c = some (s1, c1)) :
    s.accumulated ≤ s.capacity ∧ genCut s (genTot s) ≤ genTot s ∧ s1 = genSt s ∧ c1 = genCache s c := by
  simp only [generate, Option.bind_eq_bind, Option.bind_eq_some_iff, req_eq_some,
    Option.pure_def, Option.some.injEq, Prod.mk.injEq] at h
  obtain ⟨_, h1, _, h2, rfl, rfl⟩ := h
  exact ⟨h1, h2, rfl, rfl⟩

/-- `generate` succeeds exactly when `accumulated ≤ capacity` and the boosted percentage is sane -/
theorem generate_ok {s : St} (c : Cache) (h1 : s.accumulated ≤ s.capacity)
    (h2 : s.boostedPct ≤ MAX_PERCENT) : generate s c = some (genSt s, genCache s c) := by
  have hcut : genCut s (genTot s) ≤ genTot s := by
    unfold genCut cutOf
    have hM : MAX_PERCENT = 10000 := rfl
    rw [hM] at h2 ⊢
    apply Nat.div_le_of_le_mul
    calc genTot s * s.boostedPct ≤ genTot s * 10000 := Nat.mul_le_mul_left _ h2
      _ = 10000 * genTot s := Nat.mul_comm _ _
  have e1 : req (s.accumulated ≤ s.capacity) = some () := (req_eq_some ()).2 h1
  have e2 : req (genCut s (genTot s) ≤ genTot s) = some () := (req_eq_some ()).2 hcut
  simp only [generate, e1, e2, Option.bind_eq_bind, Option.bind_some, Option.pure_def]
  rfl

theorem genTot_le_room (s : St) : genTot s ≤ s.capacity - s.accumulated := by
  unfold genTot genTotOf; exact Nat.min_le_right _ _

theorem genTot_le_mint (s : St) : genTot s ≤ mintAmount s := by
  unfold genTot genTotOf mintAmount; exact Nat.min_le_left _ _

/-- projections of `genSt` used everywhere -/
@[simp] theorem genSt_capacity (s : St) : (genSt s).capacity = s.capacity := rfl
@[simp] theorem genSt_accumulated (s : St) : (genSt s).accumulated = s.accumulated + genTot s := rfl
@[simp] theorem genSt_bal (s : St) : (genSt s).bal = s.bal := rfl
@[simp] theorem genSt_virt (s : St) : (genSt s).virt = s.virt := rfl
@[simp] theorem genSt_unbondOut (s : St) : (genSt s).unbondOut = s.unbondOut := rfl
@[simp] theorem genSt_supply (s : St) : (genSt s).supply = s.supply := rfl
@[simp] theorem genSt_reserve (s : St) : (genSt s).reserve = s.reserve := rfl
@[simp] theorem genSt_rps (s : St) : (genSt s).rps = s.rps := rfl
@[simp] theorem genSt_paidBase (s : St) : (genSt s).paidBase = s.paidBase := rfl
@[simp] theorem genSt_paidBoosted (s : St) : (genSt s).paidBoosted = s.paidBoosted := rfl
@[simp] theorem genSt_baseBudget (s : St) :
    (genSt s).baseBudget = s.baseBudget + (genTot s - genCut s (genTot s)) := rfl
@[simp] theorem genSt_boostedBudget (s : St) :
    (genSt s).boostedBudget = s.boostedBudget + genCut s (genTot s) := rfl
@[simp] theorem genSt_boostedPct (s : St) : (genSt s).boostedPct = s.boostedPct := rfl
@[simp] theorem genSt_firstWeek (s : St) : (genSt s).firstWeek = s.firstWeek := rfl
@[simp] theorem genSt_epoch (s : St) : (genSt s).epoch = s.epoch := rfl
@[simp] theorem genSt_block (s : St) : (genSt s).block = s.block := rfl
@[simp] theorem genSt_lastBlock (s : St) : (genSt s).lastBlock = max s.lastBlock s.block := rfl
@[simp] theorem genSt_dsc (s : St) : (genSt s).dsc = s.dsc := rfl
@[simp] theorem genSt_maxApr (s : St) : (genSt s).maxApr = s.maxApr := rfl
@[simp] theorem genSt_perBlock (s : St) : (genSt s).perBlock = s.perBlock := rfl
@[simp] theorem genSt_produce (s : St) : (genSt s).produce = s.produce := rfl
@[simp] theorem genSt_minUnbond (s : St) : (genSt s).minUnbond = s.minUnbond := rfl
@[simp] theorem genSt_active (s : St) : (genSt s).active = s.active := rfl
@[simp] theorem genSt_userTotal (s : St) : (genSt s).userTotal = s.userTotal := rfl
@[simp] theorem genSt_nonce (s : St) : (genSt s).nonce = s.nonce := rfl
@[simp] theorem genSt_md (s : St) : (genSt s).md = s.md := rfl
@[simp] theorem genSt_hold (s : St) : (genSt s).hold = s.hold := rfl
@[simp] theorem genSt_accts (s : St) : (genSt s).accts = s.accts := rfl
@[simp] theorem genSt_w (s : St) : (genSt s).w = s.w := rfl
@[simp] theorem genSt_energy (s : St) : (genSt s).energy = s.energy := rfl
@[simp] theorem genSt_undistributed (s : St) : (genSt s).undistributed = s.undistributed := rfl
@[simp] theorem genSt_lastCollectWeek (s : St) : (genSt s).lastCollectWeek = s.lastCollectWeek := rfl
@[simp] theorem genSt_whitelist (s : St) : (genSt s).whitelist = s.whitelist := rfl
@[simp] theorem genSt_hub (s : St) : (genSt s).hub = s.hub := rfl
@[simp] theorem genSt_week (s : St) : (genSt s).week = s.week := rfl
@[simp] theorem genCache_reserve (s : St) (c : Cache) : (genCache s c).reserve = c.reserve + genTot s := rfl
@[simp] theorem genCache_supply (s : St) (c : Cache) : (genCache s c).supply = c.supply := rfl
@[simp] theorem genCache_rps (s : St) (c : Cache) :
    (genCache s c).rps = c.rps + rpsInc s.dsc (genTot s - genCut s (genTot s)) c.supply := rfl

/-! ### the boosted claim without a config (repaired `None` branch of `claim_boosted_yields_rewards`, F6) -/

/-- no boosted-yields config: nothing is paid, the boosted storage is untouched, and the weekly
    storage is the one `update_energy_and_progress(user)` leaves -/
theorem claimBoostedYields_none_spec {s : St} {user farmAmt : Nat} {r : Weekly.St × B × Nat}
    (hc : s.b.cfg = none) (h : claimBoostedYields s user farmAmt = some r) :
    r.2.1 = s.b ∧ r.2.2 = 0 ∧
      updateEnergyAndProgress s.w user s.week (Energy.queried (s.energy user) s.epoch) = some r.1 := by
  unfold claimBoostedYields at h
  rw [hc] at h
  simp only [Option.map_eq_some_iff] at h
  obtain ⟨w, hw, rfl⟩ := h
  exact ⟨rfl, rfl, hw⟩

end Mx.Staking
