/-
  Merge / increase-energy operations of the proxy-dex model: how the totals recorded in the wrapped
  tokens move, for ARBITRARY callee answers (the factory's merged amount `t.amt` and the farm's
  merged amount `mf.2` appear on the right-hand side).
-/
import MxModel.Lemmas.ProxyDexNetOps

namespace Mx.ProxyDex

theorem mergeLp_delta {s s' : St} {l : List (Nat × Nat)} {t : LkTok} {o : Out}
    (h : mergeLp s l t = some (s', o)) :
    RT s' + lockedWs s l = RT s + t.amt ∧ FT s' = FT s ∧ C s' = C s ∧ s'.lp = s.lp ∧ Scal s s' ∧
    s'.aw = s.aw ++ [(sumX l, t.k, t.amt)] ∧ s'.af = s.af ∧ o.wOut = (s.wl.length, sumX l) := by
  simp only [mergeLp, Option.bind_eq_bind, Option.bind_eq_some_iff, req_eq_some,
    Option.pure_def, Option.some.injEq, Prod.mk.injEq] at h
  obtain ⟨_, _, ⟨s1, sx⟩, h1, rfl, rfl⟩ := h
  obtain ⟨hR1, hF1, hA, hS⟩ := takeWs_net h1
  obtain ⟨hC, hlp, _, hsx⟩ := takeWs_lp h1
  obtain ⟨hR, hF, haw, haf, hS2⟩ := newW_net (learn s1 t) sx t.k t.amt true
  obtain ⟨hC2, hlp2, _⟩ := newW_C (learn s1 t) sx t.k t.amt true
  have hlen : s1.wl.length = s.wl.length := by
    have := congrArg List.length hA.1
    simpa [St.aw] using this
  refine ⟨?_, hF.trans hF1, ?_, hlp2.trans hlp, hS.trans (a := s) (b := s1) hS2, ?_, haf.trans hA.2, ?_⟩
  · rw [hR]; show RT s1 + t.amt + _ = _; omega
  · rw [hC2]; show C s1 + (if true = true then sx else 0) = C s; simp only [if_true]; omega
  · rw [haw]; show s1.aw ++ _ = _; rw [hA.1, hsx]
  · show (s1.wl.length, sx) = _; rw [hlen, hsx]

theorem incLp_delta {s s' : St} {w x : Nat} {t : LkTok} {o : Out}
    (h : incLp s w x t = some (s', o)) :
    RT s' + lockedA s.aw w x = RT s + t.amt ∧ FT s' = FT s ∧ C s' = C s ∧ s'.lp = s.lp ∧
    Scal s s' ∧ s'.aw = s.aw ++ [(x, t.k, t.amt)] ∧ s'.af = s.af := by
  simp only [incLp, Option.bind_eq_bind, Option.bind_eq_some_iff,
    Option.pure_def, Option.some.injEq, Prod.mk.injEq] at h
  obtain ⟨⟨s1, r, p⟩, h1, rfl, _⟩ := h
  obtain ⟨hR1, hF1, hp, hA, hS⟩ := takeW_net h1
  obtain ⟨hC, _, _, _, _, _, _, _, hlp, _⟩ := takeW_delta h1
  obtain ⟨hR, hF, haw, haf, hS2⟩ := newW_net (learn s1 t) x t.k t.amt true
  obtain ⟨hC2, hlp2, _⟩ := newW_C (learn s1 t) x t.k t.amt true
  refine ⟨?_, hF.trans hF1, ?_, hlp2.trans hlp, hS.trans (a := s) (b := s1) hS2, ?_, haf.trans hA.2⟩
  · rw [hR]; show RT s1 + t.amt + _ = _; omega
  · rw [hC2]; show C s1 + (if true = true then x else 0) = C s; simp only [if_true]; omega
  · rw [haw]; show s1.aw ++ _ = _; rw [hA.1]

theorem mergeFarmCore_delta {s s' : St} {farm : Nat} {l : List (Nat × Nat)} {mf : Nat × Nat}
    {t : LkTok} {stray : List LkTok} {o : Out}
    (h : mergeFarmCore s farm l mf t stray = some (s', o)) :
    RT s' + lockedFs s l = RT s + t.amt ∧ FT s' + sumX l = FT s + mf.2 ∧ Scal s s' := by
  simp only [mergeFarmCore, Option.bind_eq_bind, Option.bind_eq_some_iff, req_eq_some,
    Option.pure_def] at h
  obtain ⟨_, _, ⟨f0, x0⟩, _, r0, hr0, ⟨s1, sp⟩, h1, h⟩ := h
  obtain ⟨hR1, hF1, hA, hS, _⟩ := takeFs_net h1
  dsimp only at h
  cases hkind : r0.kind with
  | locked =>
    simp only [hkind, Option.some.injEq, Prod.mk.injEq] at h
    obtain ⟨rfl, _⟩ := h
    obtain ⟨hR, hF, _, _, hS2⟩ := newF_net
      { learn s1 t with lk := s1.lk.add t.k t.amt } r0.farm mf.1 mf.2 .locked t.k t.amt
    obtain ⟨a1, a2, _, a4⟩ := addStray_net
      (newF { learn s1 t with lk := s1.lk.add t.k t.amt } r0.farm mf.1 mf.2 .locked t.k t.amt).1 stray
    refine ⟨?_, ?_, ?_⟩
    · rw [a1, hR, if_pos rfl]; show RT s1 + t.amt + _ = _; omega
    · rw [a2, hF]; show FT s1 + mf.2 + _ = _; omega
    · exact (hS.trans (a := s) (b := s1) hS2).trans a4
  | wlp =>
    simp only [hkind, Option.some.injEq, Prod.mk.injEq] at h
    obtain ⟨rfl, _⟩ := h
    obtain ⟨hRw, hFw, _, _, hSw⟩ := newW_net (learn s1 t) sp t.k t.amt false
    obtain ⟨hR, hF, _, _, hS2⟩ := newF_net (newW (learn s1 t) sp t.k t.amt false).1
      r0.farm mf.1 mf.2 .wlp (newW (learn s1 t) sp t.k t.amt false).2 sp
    obtain ⟨a1, a2, _, a4⟩ := addStray_net
      (newF (newW (learn s1 t) sp t.k t.amt false).1 r0.farm mf.1 mf.2 .wlp
        (newW (learn s1 t) sp t.k t.amt false).2 sp).1 stray
    refine ⟨?_, ?_, ?_⟩
    · rw [a1, hR, if_neg (by simp), hRw]; show RT s1 + t.amt + 0 + _ = _; omega
    · rw [a2, hF, hFw]; show FT s1 + mf.2 + _ = _; omega
    · exact ((hS.trans (a := s) (b := s1) hSw).trans hS2).trans a4

theorem mergeFarm_delta {s s' : St} {farm : Nat} {l : List (Nat × Nat)} {mf : Nat × Nat}
    {t : LkTok} {rew : Option LkTok} {stray : List LkTok} {o : Out}
    (h : mergeFarm s farm l mf t rew stray = some (s', o)) :
    RT s' + lockedFs s l = RT s + t.amt ∧ FT s' + sumX l = FT s + mf.2 ∧ Scal s s' := by
  simp only [mergeFarm, Option.bind_eq_bind, Option.bind_eq_some_iff, Option.pure_def,
    Option.some.injEq, Prod.mk.injEq] at h
  obtain ⟨⟨s1, o1⟩, h1, rfl, _⟩ := h
  obtain ⟨l1, l2, l3, l4⟩ := learnOpt_net s rew
  obtain ⟨d1, d2, d3⟩ := mergeFarmCore_delta h1
  rw [l1, lockedFs_congr l3 l] at d1
  rw [l2] at d2
  exact ⟨d1, d2, l4.trans d3⟩

theorem incFarm_delta {s s' : St} {f x : Nat} {t : LkTok} {o : Out}
    (h : incFarm s f x t = some (s', o)) :
    RT s' + lockedFA s.aw s.af f x = RT s + t.amt ∧ FT s' = FT s ∧ Scal s s' := by
  simp only [incFarm, Option.bind_eq_bind, Option.bind_eq_some_iff, Option.pure_def] at h
  obtain ⟨⟨s1, tk⟩, h1, h⟩ := h
  obtain ⟨hR1, hF1, hA, hS, hr, hp, hql, hqd, _⟩ := takeF_net (by simp) h1
  have hq := hqd false rfl
  dsimp only at h
  cases hkind : tk.r.kind with
  | locked =>
    simp only [hkind, Option.some.injEq, Prod.mk.injEq] at h
    obtain ⟨rfl, _⟩ := h
    obtain ⟨hR, hF, _, _, hS2⟩ := newF_net
      { learn s1 t with lk := s1.lk.add t.k t.amt } tk.r.farm tk.r.fn x .locked t.k t.amt
    refine ⟨?_, ?_, hS.trans (a := s) (b := s1) hS2⟩
    · rw [hR, if_pos rfl]; show RT s1 + t.amt + _ = _; omega
    · rw [hF]; show FT s1 + x = _; omega
  | wlp =>
    simp only [hkind, Option.some.injEq, Prod.mk.injEq] at h
    obtain ⟨rfl, _⟩ := h
    obtain ⟨hRw, hFw, _, _, hSw⟩ := newW_net (learn s1 t) tk.p t.k t.amt false
    obtain ⟨hR, hF, _, _, hS2⟩ := newF_net (newW (learn s1 t) tk.p t.k t.amt false).1
      tk.r.farm tk.r.fn x .wlp (newW (learn s1 t) tk.p t.k t.amt false).2 tk.p
    refine ⟨?_, ?_, (hS.trans (a := s) (b := s1) hSw).trans hS2⟩
    · rw [hR, if_neg (by simp), hRw]; show RT s1 + t.amt + 0 + _ = _; omega
    · rw [hF, hFw]; show FT s1 + x = _; omega

theorem sumOf_eq_zero {α : Type} (f : α → Nat) (l : List α) (h : ∀ a ∈ l, f a = 0) :
    sumOf f l = 0 := by
  induction l with
  | nil => rfl
  | cons a l ih =>
    rw [sumOf_cons, h a (List.mem_cons_self ..), ih (fun b hb => h b (List.mem_cons_of_mem _ hb))]

theorem RT_eq_zero {s : St} (hw : ∀ r ∈ s.wl, r.rem = 0)
    (hf : ∀ q ∈ s.wf, q.kind = .locked → q.remP = 0) : RT s = 0 := by
  unfold RT
  rw [sumOf_eq_zero _ _ hw, sumOf_eq_zero lkF s.wf]
  intro q hq
  unfold lkF
  split
  · rename_i hk; exact hf q hq hk
  · rfl

theorem net_of_scal {s s' : St} (h : Scal s s') : s'.net = s.net := by
  unfold St.net; rw [h.1, h.2.1, h.2.2]

theorem NetInv.net_eq {s : St} (h : NetInv s) : s.net = (RT s : Int) := by
  have := h.sup
  unfold St.net; omega

end Mx.ProxyDex
