/-
  The reward reserve COVERS everything that can still be claimed (C05 `reserve_covers`) and the
  reserve-side checked subtractions of claim / exit / compound / claimBoosted / enter / merge cannot
  underflow (C05 `no_underflow`, the part that is true).

  Assembled from the four state invariants proved elsewhere:
    `Acct`    (FarmAcct)  reserve + paid = generated, paid = paidBase + paidBoosted, balances
    `PosInv`  (FarmPos)   supply = Σ outstanding, userTotal = Σ owned
    `PotInv`  (FarmPot)   Σ_n outstanding(n)·(rps − entryRps(n)) + dsc·paidBase ≤ dsc·baseBudget
    `PoolInv` (FarmPool)  per-week pool life cycle and the three ghost sums

  The exact decomposition (no subtraction, so no side condition):
      reserve + paidBase = baseBudget + Σ_{w ≤ W} (accum w + remaining w) + undist.
-/
import MxModel.Lemmas.FarmPot
import MxModel.Lemmas.FarmPool
import MxModel.Lemmas.FarmSafe

namespace Mx.Farm

open Mx.Weekly (upd Energy)

/-! ### definitions used by the property statements -/

/-- what is still in week `w`'s boosted pool: accumulated (not frozen yet) + remaining (frozen, unpaid) -/
def poolOf (s : St) (w : Nat) : Nat := s.b.accum w + s.b.remaining w

/-- Σ over the weeks `0 … W` of the boosted pools -/
def poolsUpTo (s : St) (W : Nat) : Nat := weekSum (poolOf s) W

/-- Σ over outstanding nonces of `⌊outstanding(n)·(rps − entryRps(n))/dsc⌋`: the base rewards all
    outstanding positions could claim right now (without a further settlement) -/
def claimableBase (s : St) : Nat :=
  ((nonceList s).map fun n => baseReward s.dsc s.rps (heldBy s n) (rpsOf s n)).sum

theorem weekSum_le {f g : Nat → Nat} {W : Nat} (h : ∀ w, w ≤ W → f w ≤ g w) :
    weekSum f W ≤ weekSum g W := by
  induction W with
  | zero => rw [weekSum_zero, weekSum_zero]; exact h 0 (Nat.le_refl _)
  | succ W ih =>
    rw [weekSum_succ, weekSum_succ]
    have h1 := h (W + 1) (Nat.le_refl _)
    have h2 := ih (fun w hw => h w (Nat.le_succ_of_le hw))
    omega

/-! ### the exact decomposition of the reserve -/

/-- `res` (the reserve, in storage or in a live cache) together with the ghosts of `s` obeys the
    decomposition -/
def Cov (res : Nat) (s : St) : Prop :=
  ∀ W, s.week = some W → res + s.paidBase = s.baseBudget + poolsUpTo s W + s.undist

theorem cov_of_gen {s : St} {res : Nat} (hI : PoolInv s) (hres : res + s.paid = s.generated)
    (hsplit : s.paid = s.paidBase + s.paidBoosted) : Cov res s := by
  intro W hW
  have h := pools_eq hI hW
  show res + s.paidBase = s.baseBudget + weekSum (fun w => s.b.accum w + s.b.remaining w) W + s.undist
  omega

/-- **exact decomposition**: `reserve + paidBase = baseBudget + Σ_w (accum w + remaining w) + undist` -/
theorem reserve_decomp {s : St} (hA : Acct s) (hI : PoolInv s) : Cov s.reserve s :=
  cov_of_gen hI hA.res hA.split

/-- weeks after the current one hold nothing -/
theorem pool_future_zero {s : St} (hI : PoolInv s) {W w : Nat} (hW : s.week = some W) (hw : W < w) :
    poolOf s w = 0 := by
  have h1 := hI.week w
  have h2 := hI.fut W w hW hw
  unfold poolOf
  omega

/-- so the sum may run up to any later week -/
theorem poolsUpTo_extend {s : St} (hI : PoolInv s) {W W' : Nat} (hW : s.week = some W) (h : W ≤ W') :
    poolsUpTo s W' = poolsUpTo s W :=
  weekSum_extend (fun _ hw => pool_future_zero hI hW hw) h

/-! ### the base part: state-level `claimable_le` -/

theorem PotInv.claimable_le {s : St} (hK : PotInv s) (hd : s.dsc ≠ 0) :
    claimableBase s + s.paidBase ≤ s.baseBudget := by
  have hK' : potential s + s.dsc * s.paidBase ≤ s.dsc * s.baseBudget := hK
  have hsum : s.dsc * claimableBase s ≤ potential s := by
    have := PV.sum_map_add_mul (nonceList s) (fun _ => 0)
      (fun n => baseReward s.dsc s.rps (heldBy s n) (rpsOf s n)) s.dsc
    rw [PV.sum_map_zero (fun _ _ => rfl), Nat.zero_add] at this
    unfold claimableBase
    rw [← this]
    unfold potential
    apply PV.sum_map_le
    intro n _
    rw [Nat.zero_add, Nat.mul_comm]
    exact baseReward_mul_le' _ _ _ _
  apply Nat.le_of_mul_le_mul_left _ (Nat.pos_of_ne_zero hd)
  rw [Nat.mul_add]
  omega

theorem PotInv.paidBase_le {s : St} (hK : PotInv s) (hd : s.dsc ≠ 0) : s.paidBase ≤ s.baseBudget := by
  have := hK.claimable_le hd
  omega

/-- **reserve_covers**, state level -/
theorem reserve_covers_state {s : St} (hA : Acct s) (hK : PotInv s) (hI : PoolInv s) (hd : s.dsc ≠ 0)
    {W : Nat} (hW : s.week = some W) :
    claimableBase s + poolsUpTo s W + s.undist ≤ s.reserve ∧
    s.reserve = (s.baseBudget - s.paidBase) + poolsUpTo s W + s.undist ∧ s.paidBase ≤ s.baseBudget := by
  have h1 := reserve_decomp hA hI W hW
  have h2 := hK.claimable_le hd
  omega

/-! ### what one position can claim is part of the potential -/

theorem held_pot_le {s : St} (hP : PosInv s) {u n a : Nat} {att : Attr} (ha : a ≠ 0)
    (h : a ≤ s.hold u n) (hat : s.attrs n = some att) (R : Nat) :
    a * (R - att.rps) ≤ (pv s).pot R := by
  have hne : s.hold u n ≠ 0 := by omega
  obtain ⟨hu, hn, _⟩ := hP.dom u n hne
  have h1 : a ≤ heldBy s n := Nat.le_trans h (hold_le_heldBy s hu n)
  have h2 : heldBy s n * (R - rpsA s.attrs n) ≤ (pv s).pot R :=
    le_sum_map_of_mem (fun m => heldBy s m * (R - rpsA s.attrs m)) (nonceList s) n (mem_nonceList hn)
  rw [rpsA_some hat] at h2
  exact Nat.le_trans (Nat.mul_le_mul_right _ h1) h2

/-- after a settlement on a live cache (`generate`), the potential at the NEW index plus what was paid
    is still within the NEW base budget -/
theorem pot_after_generate {s s0 s1 : St} {c1 : Cache} (hP : PosInv s) (hK : PotInv s)
    (hcv : cv s0 = cv s) (h1 : generate s0 (Cache.read s0) = some (s1, c1)) :
    (pv s).pot c1.rps + s.dsc * s1.paidBase ≤ s.dsc * s1.baseBudget ∧ s1.dsc = s.dsc := by
  obtain ⟨B, δ, k1, hr, _, hδ⟩ := generate_cv h1
  have hr' : c1.rps = (cv s0).rps + δ := hr
  have hδ' : δ * (cv s0).supply ≤ B * (cv s0).dsc := hδ
  rw [hcv] at k1 hr' hδ'
  have e1 : s1.paidBase = s.paidBase := congrArg CV.paidBase k1
  have e2 : s1.baseBudget = s.baseBudget + B := congrArg CV.baseBudget k1
  have e3 : s1.dsc = s.dsc := congrArg CV.dsc k1
  refine ⟨?_, e3⟩
  have hr'' : c1.rps = s.rps + δ := hr'
  have hδ'' : δ * s.supply ≤ B * s.dsc := hδ'
  rw [hr'', e1, e2]
  have hT : (pv s).totalHeld = s.supply := hP.sup.symm
  have hK' : (pv s).pot s.rps + s.dsc * s.paidBase ≤ s.dsc * s.baseBudget := hK
  have hm := PV.pot_mono (pv s) s.rps δ
  rw [hT] at hm
  rw [Nat.mul_add, Nat.mul_comm s.dsc B]
  omega

/-- the base reward of a held (part of a) position, computed after a settlement, fits into the base
    budget that is left -/
theorem base_le_budget {s s0 s1 : St} {c1 : Cache} {u n a : Nat} {att : Attr}
    (hP : PosInv s) (hK : PotInv s) (hd : s.dsc ≠ 0) (hcv : cv s0 = cv s)
    (h1 : generate s0 (Cache.read s0) = some (s1, c1))
    (ha : a ≠ 0) (h : a ≤ s.hold u n) (hat : s.attrs n = some att) :
    baseReward s1.dsc c1.rps a att.rps + s1.paidBase ≤ s1.baseBudget := by
  obtain ⟨h2, h3⟩ := pot_after_generate hP hK hcv h1
  have h4 := held_pot_le hP ha h hat c1.rps
  have h5 := baseReward_mul_le' s1.dsc c1.rps a att.rps
  rw [h3] at h5 ⊢
  apply Nat.le_of_mul_le_mul_left _ (Nat.pos_of_ne_zero hd)
  rw [Nat.mul_add, Nat.mul_comm s.dsc (baseReward _ _ _ _)]
  omega

/-! ### the boosted part: a claim takes exactly what the pools lose -/

theorem claimBoostedYields_pools {s s' : St} {u r W : Nat} (hI : PoolInv s)
    (h : claimBoostedYields s u = some (s', r)) (hW : s.week = some W) :
    poolsUpTo s' W + r = poolsUpTo s W ∧ s'.week = some W := by
  have e := claimBoostedYields_spec h
  have i1 := claimBoostedYields_poolInvD hI.toD h
  obtain ⟨w', b', hs'⟩ := e.struct
  have hwk : s'.week = s.week := by rw [hs']; rfl
  have hpb : s'.paidBoosted = s.paidBoosted := by rw [hs']
  have hW' : s'.week = some W := hwk.trans hW
  refine ⟨?_, hW'⟩
  have p1 := i1.paid W hW'
  have p0 := hI.paid W hW
  rw [hpb] at p1
  have hsum : poolsUpTo s' W + weekSum s'.b.paidW W = poolsUpTo s W + weekSum s.b.paidW W := by
    unfold poolsUpTo
    rw [← weekSum_add, ← weekSum_add]
    apply weekSum_congr
    intro w _
    have a1 := i1.week w
    have a0 := hI.week w
    rw [e.cutW, e.collW] at a1
    unfold poolOf
    omega
  omega

theorem claimBoostedYields_le_pools {s s' : St} {u r W : Nat} (hI : PoolInv s)
    (h : claimBoostedYields s u = some (s', r)) (hW : s.week = some W) : r ≤ poolsUpTo s W := by
  have := (claimBoostedYields_pools hI h hW).1
  omega

/-! ### the reserve-side subtractions -/

/-- a boosted claim on a state whose reserve value `res` obeys the decomposition never asks for more
    than `res` -/
theorem boosted_le_of_cov {s s' : St} {u r res : Nat} (hI : PoolInv s) (hC : Cov res s)
    (hb : s.paidBase ≤ s.baseBudget) (h : claimBoostedYields s u = some (s', r)) : r ≤ res := by
  obtain ⟨W, hW⟩ := week_of_time hI.time
  have h1 := claimBoostedYields_le_pools hI h hW
  have h2 := hC W hW
  omega

/-- `claim_only_boosted_payment` (enter, merge): `reward_reserve −= boosted` cannot underflow -/
theorem claimOnly_reserve_ok {s s' : St} {u r : Nat} (hA : Acct s) (hK : PotInv s) (hI : PoolInv s)
    (hd : s.dsc ≠ 0) (h : claimBoostedYields s u = some (s', r)) : r ≤ s.reserve :=
  boosted_le_of_cov hI (reserve_decomp hA hI) (hK.paidBase_le hd) h

theorem takePayments_cons {s s0 : St} {c n a : Nat} {l : List (Nat × Nat)}
    (h : takePayments s c ((n, a) :: l) = some s0) :
    a ≠ 0 ∧ (s.attrs n).isSome ∧ a ≤ s.hold c n := by
  simp only [takePayments, Option.bind_eq_bind, Option.bind_eq_some_iff, req_eq_some,
    sub?_eq_some] at h
  obtain ⟨_, h1, _, h2, _, ⟨h3, _⟩, _⟩ := h
  exact ⟨h1, h2, h3⟩

/-- the cache after `generate` on a hold-only variant `s0` of an invariant state `s` -/
theorem cov_after_generate {s s0 s1 : St} {c1 : Cache} (hA : Acct s) (hI : PoolInv s)
    (hav : av s0 = av s) (hpl : poolView s0 = poolView s)
    (h1 : generate s0 (Cache.read s0) = some (s1, c1)) : Cov c1.reserve s1 ∧ PoolInv s1 := by
  have i0 : PoolInvD s0 0 := hI.toD.of_view hpl
  have i1 := (generate_poolInvD i0 h1).toInv
  obtain ⟨e1, hc1⟩ := generate_av h1
  refine ⟨cov_of_gen i1 ?_ ?_, i1⟩
  · have hr : c1.reserve = s0.reserve + minted s0 := by rw [hc1]; rfl
    simp only [av, AV.mk.injEq] at e1 hav
    have := hA.res
    omega
  · simp only [av, AV.mk.injEq] at e1 hav
    have := hA.split
    omega

/-- **claim / compound / exit**: `reward_reserve − (base + boosted)` cannot underflow.
    `s0` = the state after the payments were taken, `(s1, c1)` = after the settlement,
    `(n, a)` = the first payment, `att` its attributes. -/
theorem reward_le_reserve {s s0 s1 s2 : St} {c1 : Cache} {caller orig n a boosted : Nat}
    {l : List (Nat × Nat)} {att : Attr}
    (hA : Acct s) (hP : PosInv s) (hK : PotInv s) (hI : PoolInv s) (hd : s.dsc ≠ 0)
    (h0 : takePayments s caller ((n, a) :: l) = some s0)
    (h1 : generate s0 (Cache.read s0) = some (s1, c1))
    (hat : s.attrs n = some att)
    (h2 : claimBoostedYields s1 orig = some (s2, boosted)) :
    baseReward s1.dsc c1.rps a att.rps + boosted ≤ c1.reserve := by
  obtain ⟨ha, _, hle⟩ := takePayments_cons h0
  have hb := base_le_budget hP hK hd (takePayments_cv h0) h1 ha hle hat
  obtain ⟨hC, i1⟩ := cov_after_generate hA hI (takePayments_av h0) (takePayments_plv h0) h1
  obtain ⟨W, hW⟩ := week_of_time i1.time
  have h3 := claimBoostedYields_le_pools i1 h2 hW
  have h4 := hC W hW
  omega

/-- **claimBoostedRewards**: `reward_reserve − boosted` (on the live cache) cannot underflow -/
theorem boosted_le_reserve {s s1 s2 : St} {c1 : Cache} {u boosted : Nat}
    (hA : Acct s) (hP : PosInv s) (hK : PotInv s) (hI : PoolInv s) (hd : s.dsc ≠ 0)
    (h1 : generate s (Cache.read s) = some (s1, c1))
    (h2 : claimBoostedYields s1 u = some (s2, boosted)) : boosted ≤ c1.reserve := by
  obtain ⟨hC, i1⟩ := cov_after_generate hA hI rfl rfl h1
  obtain ⟨h3, h4⟩ := pot_after_generate hP hK rfl h1
  have hb : s1.paidBase ≤ s1.baseBudget := by
    apply Nat.le_of_mul_le_mul_left _ (Nat.pos_of_ne_zero hd)
    omega
  exact boosted_le_of_cov i1 hC hb h2

/-! ### every reachable state -/

/-- the four state invariants (and the constant `dsc`) in every reachable state -/
theorem reachable_invs (kind : Kind) (same : Bool) (dsc pb : Nat) (produce : Bool) (users : List Nat)
    (e0 : Nat) (hnd : users.Nodup) (ops : List Op) :
    let s := run (init kind same dsc pb produce users e0) ops
    Acct s ∧ PosInv s ∧ PotInv s ∧ PoolInv s ∧ s.dsc = dsc := by
  intro s
  obtain ⟨hP, hK, hd⟩ := run_potInv' ops (init_posInv kind same dsc pb produce users e0 hnd)
    (init_potInv kind same dsc pb produce users e0)
  exact ⟨run_acct ops (init_acct kind same dsc pb produce users e0), hP, hK,
    reachable_poolInv kind same dsc pb produce users e0 ops, hd⟩

end Mx.Farm
