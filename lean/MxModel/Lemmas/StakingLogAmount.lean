/-
  Farm-staking: every logged boosted payment IS the boosted formula.

    * `boostedRewards_amount`        one call of the weekly reward hook books `payOf …` for its week
    * `claimLoop_amounts`            the claim loop books, for every week it walks, `payOf …` with the
                                     week's frozen pool read AFTER the loop, the start entry's energy
                                     decayed to that week, and the week's total energy / farm supply
    * `claimMulti_amounts`           … lifted through `claim_multi` (the global update leaves the four
                                     claimable weeks' energy totals alone)
    * `claimBoostedYields_amounts`   … and through `claim_boosted_yields_rewards`, with the factors in
                                     force for the week (`facOf`: stored config updated to the current
                                     week; no config = nothing is paid)
    * `step_via`                     every endpoint with a claimer runs that claim for the claimer's
                                     total position BEFORE the operation, in the entry state or in the
                                     entry state after reward generation (which does not touch what the
                                     formula reads)
    * `step_paid_exact`              for every successful operation and EVERY week: `paid` grows by
                                     `payOf …` inside the claimer's window and not at all outside
    * `stepLog_amount`               hence every log entry is `boostedAmount …`, and none is logged
                                     below the minimum energy / minimum position or without totals
-/
import MxModel.Lemmas.StakingLog
import MxModel.Lemmas.WeeklyClose
import MxModel.Lemmas.FeesLedger

namespace Mx.Staking

open Mx.Weekly

/-! ### the energy of a progress entry, decayed to week `w` -/

/-- energy a progress entry is paid with for week `w` (0 if the entry is already past `w`) -/
def entryE (p : ClaimProgress) (w : Nat) : Nat :=
  if p.week ≤ w then (p.energy.after (w - p.week)).getEnergyAmount else 0

theorem eForP_some' {prog : Nat → Option ClaimProgress} {u : Nat} {p : ClaimProgress}
    (h : prog u = some p) (w : Nat) : eForP prog u w = entryE p w := by
  unfold eForP entryE; rw [h]

theorem entryE_self (p : ClaimProgress) : entryE p p.week = p.energy.getEnergyAmount := by
  simp [entryE]

theorem entryE_advanceWeek (p : ClaimProgress) (w : Nat) :
    entryE p.advanceWeek w = if p.week + 1 ≤ w then entryE p w else 0 := by
  rw [ClaimProgress.advanceWeek_eq]
  unfold entryE
  simp only
  by_cases h : p.week + 1 ≤ w
  · have h' : p.week ≤ w := by omega
    simp only [h, h', if_true, Energy.after_after]
    congr 2; omega
  · simp [h]

/-- the loop's start entry carries, for the weeks it walks, the stored entry's energy -/
theorem entryE_loopStart_eq (p : ClaimProgress) (W w : Nat) (h : (loopStart p W).week ≤ w) :
    entryE (loopStart p W) w = entryE p w := by
  unfold loopStart at h ⊢
  split
  · rename_i hb
    simp only [hb, if_true, ClaimProgress.advanceMultipleWeeks_eq] at h
    rw [ClaimProgress.advanceMultipleWeeks_eq]
    unfold entryE
    simp only
    have h' : p.week ≤ w := by omega
    simp only [h, h', if_true, Energy.after_after]
    congr 2; omega
  · rfl

/-! ### what one hook call pays -/

/-- the frozen pool of a week, read off `totalRewardsForWeek` (one entry; 0 when nothing is frozen) -/
def rOf (l : List (Tok × Nat)) : Nat :=
  match l with
  | [p] => p.2
  | _ => 0

/-- the boosted payment for one week: nothing without energy total or farm supply, nothing without
    factors, nothing below the minimum energy or the minimum position, else the boosted formula -/
def payOf (fa : Option Factors) (R f F e E : Nat) : Nat :=
  if E = 0 ∨ F = 0 then 0
  else match fa with
    | none => 0
    | some x => if e < x.minE ∨ f < x.minF then 0 else boostedAmount x R f F e E

theorem boostedAmount_zero (x : Factors) (f F e E : Nat) : boostedAmount x 0 f F e E = 0 := by
  simp [boostedAmount]

/-- a positive payment is the boosted formula, and all its conditions hold -/
theorem payOf_pos {fa : Option Factors} {R f F e E : Nat} (h : 0 < payOf fa R f F e E) :
    ∃ x, fa = some x ∧ E ≠ 0 ∧ F ≠ 0 ∧ x.minE ≤ e ∧ x.minF ≤ f ∧ R ≠ 0 ∧
      payOf fa R f F e E = boostedAmount x R f F e E := by
  unfold payOf at h ⊢
  split at h
  · omega
  · rename_i hEF
    cases fa with
    | none => simp at h
    | some x =>
      simp only at h ⊢
      split at h
      · omega
      · rename_i hmin
        refine ⟨x, rfl, fun h0 => hEF (Or.inl h0), fun h0 => hEF (Or.inr h0), by omega, by omega, ?_, ?_⟩
        · intro hR; rw [hR, boostedAmount_zero] at h; omega
        · rw [if_neg hEF, if_neg hmin]

theorem collectAndGet_rewards_same {σ : Type} (collect : CollectFn σ) (g : Weekly.St) (c : σ) (week : Nat) :
    (collectAndGet collect g c week).1.totalRewards week = (collectAndGet collect g c week).2.2 := by
  unfold collectAndGet
  split
  · simp
  · rfl

theorem collectAndGet_rewards_other {σ : Type} (collect : CollectFn σ) (g : Weekly.St) (c : σ)
    (week : Nat) {k : Nat} (hk : k ≠ week) :
    (collectAndGet collect g c week).1.totalRewards k = g.totalRewards k := by
  unfold collectAndGet
  split
  · simp [upd_other _ _ hk]
  · rfl

theorem collectAndGet_boosted_paid (c' : BCfg) (g : Weekly.St) (b : B) (week : Nat) :
    (collectAndGet (collectBoosted c') g b week).2.1.paid = b.paid := by
  unfold collectAndGet
  split <;> rfl

/-- **one call of the reward hook**: no other week's frozen pool is touched, and `paid(week)` grows
    by exactly `payOf` of the week's factors, the week's frozen pool (read after the call), the
    position passed in, the week's farm supply, the energy passed in and the total energy -/
theorem boostedRewards_amount {c' : BCfg} {f : Nat} {g g' : Weekly.St} {b b' : B}
    {week e E : Nat} {r : List (Tok × Nat)}
    (h : boostedRewards c' f g b week e E = some (g', b', r)) :
    (∀ k, k ≠ week → g'.totalRewards k = g.totalRewards k) ∧
    b'.paid week = b.paid week +
      payOf (c'.factorsForWeek week) (rOf (g'.totalRewards week)) f (b.farmSupply week) e E := by
  unfold boostedRewards at h
  simp only at h
  split at h
  · rename_i hEF
    simp only [Option.some.injEq, Prod.mk.injEq] at h
    obtain ⟨rfl, rfl, _⟩ := h
    exact ⟨fun _ _ => rfl, by simp [payOf, hEF]⟩
  · rename_i hEF
    simp only [Option.bind_eq_bind, Option.bind_eq_some_iff] at h
    obtain ⟨fac, hfac, h⟩ := h
    rw [hfac]
    split at h
    · rename_i hmin
      simp only [Option.pure_def, Option.some.injEq, Prod.mk.injEq] at h
      obtain ⟨rfl, rfl, _⟩ := h
      exact ⟨fun _ _ => rfl, by simp [payOf, hEF, hmin]⟩
    · rename_i hmin
      have hsame := collectAndGet_rewards_same (collectBoosted c') g b week
      have hoth := fun k (hk : k ≠ week) => collectAndGet_rewards_other (collectBoosted c') g b week hk
      have hpd := collectAndGet_boosted_paid c' g b week
      generalize collectAndGet (collectBoosted c') g b week = cg at h hsame hoth hpd
      obtain ⟨g1, b1, lst⟩ := cg
      simp only at h hsame hoth hpd
      have hpay : ∀ R, payOf (some fac) R f (b.farmSupply week) e E =
          boostedAmount fac R f (b.farmSupply week) e E := by
        intro R; simp [payOf, hEF, hmin]
      match lst, h, hsame with
      | [], h, hsame =>
        simp only [Option.pure_def, Option.some.injEq, Prod.mk.injEq] at h
        obtain ⟨rfl, rfl, _⟩ := h
        refine ⟨hoth, ?_⟩
        rw [hsame, hpay, hpd]
        simp [rOf, boostedAmount_zero]
      | [p], h, hsame =>
        simp only at h
        split at h
        · rename_i hR
          simp only [Option.pure_def, Option.some.injEq, Prod.mk.injEq] at h
          obtain ⟨rfl, rfl, _⟩ := h
          refine ⟨hoth, ?_⟩
          rw [hsame, hpay, hpd]
          simp [rOf, hR, boostedAmount_zero]
        · rename_i hR
          simp only [Option.bind_eq_some_iff, req_eq_some] at h
          obtain ⟨_, hc, h⟩ := h
          split at h
          · rename_i hx
            simp only [Option.pure_def, Option.some.injEq, Prod.mk.injEq] at h
            obtain ⟨rfl, rfl, _⟩ := h
            refine ⟨hoth, ?_⟩
            rw [hsame, hpay, hpd]
            simp only [rOf]
            omega
          · rename_i hx
            simp only [Option.bind_eq_some_iff, sub?_eq_some, Option.pure_def,
              Option.some.injEq, Prod.mk.injEq] at h
            obtain ⟨rem, _, rfl, rfl, _⟩ := h
            refine ⟨hoth, ?_⟩
            rw [hsame, hpay]
            simp only [rOf, upd_same, hpd]
      | _ :: _ :: _, h, _ => simp at h

/-! ### the claim loop -/

/-- the claim loop touches the frozen pools only of the weeks it walks over -/
theorem claimLoop_rewards_outside (c' : BCfg) (f : Nat) : ∀ (n : Nat) {a a' : ClaimAcc B},
    claimLoop (boostedRewards c' f) n a = some a' →
    ∀ w, (w < a.p.week ∨ a.p.week + n ≤ w) → a'.g.totalRewards w = a.g.totalRewards w := by
  intro n
  induction n with
  | zero =>
    intro a a' h w _
    simp only [claimLoop, Option.some.injEq] at h
    subst h; rfl
  | succ n ih =>
    intro a a' h w hw
    simp only [claimLoop, Option.bind_eq_some_iff] at h
    obtain ⟨a1, h1, h2⟩ := h
    obtain ⟨r, hr, hp, _⟩ := claimSingle_spec h1
    have hw1 : a1.p.week = a.p.week + 1 := by rw [hp]; rfl
    rw [ih h2 w (by omega)]
    exact (boostedRewards_amount hr).1 w (by omega)

/-- **the loop books, for every week `w` it walks, exactly `payOf`** of the week's factors, the
    week's frozen pool (read after the loop), the position `f`, the week's recorded farm supply,
    the energy the start entry has in week `w`, and the week's total energy -/
theorem claimLoop_amounts (c' : BCfg) (f : Nat) : ∀ (n : Nat) {a a' : ClaimAcc B},
    claimLoop (boostedRewards c' f) n a = some a' →
    ∀ w, a.p.week ≤ w → w < a.p.week + n →
      a'.c.paid w = a.c.paid w +
        payOf (c'.factorsForWeek w) (rOf (a'.g.totalRewards w)) f (a.c.farmSupply w)
          (entryE a.p w) (a.g.totalEnergy w) := by
  intro n
  induction n with
  | zero => intro a a' _ w h1 h2; omega
  | succ n ih =>
    intro a a' h w hlo hhi
    simp only [claimLoop, Option.bind_eq_some_iff] at h
    obtain ⟨a1, h1, h2⟩ := h
    obtain ⟨r, hr, hp, _⟩ := claimSingle_spec h1
    have hfr := boostedRewards_frame c' f _ _ _ _ _ _ _ _ hr
    have hw1 : a1.p.week = a.p.week + 1 := by rw [hp]; rfl
    by_cases hw : w = a.p.week
    · -- the week claimed by this very step; the rest of the loop leaves it alone
      subst hw
      have hrest := (claimLoop_other c' f n h2 a.p.week (Or.inl (by omega))).1
      have hrw := claimLoop_rewards_outside c' f n h2 a.p.week (Or.inl (by omega))
      rw [hrest, hrw, entryE_self]
      exact (boostedRewards_amount hr).2
    · have hlo' : a1.p.week ≤ w := by omega
      have := ih h2 w hlo' (by omega)
      rw [this, hfr.totalEnergy, (boostedRewards_spec hr).1]
      have he : entryE a1.p w = entryE a.p w := by
        rw [hp, entryE_advanceWeek]; simp [show a.p.week + 1 ≤ w by omega]
      have hpd : a1.c.paid w = a.c.paid w := (boostedRewards_other hr hw).1
      rw [he, hpd]

/-! ### `claim_multi` and `claim_boosted_yields_rewards` -/

/-- **`claim_multi`** books, for every week `w` of the user's claim window, `payOf` with the
    user's STORED progress energy decayed to `w` and the week's total energy as stored BEFORE the
    call (the global update does not touch the four claimable weeks) -/
theorem claimMulti_amounts {c' : BCfg} {f : Nat} {g g' : Weekly.St} {b b' : B} {user W : Nat}
    {cur : Energy} {r : List (Tok × Nat)}
    (h : claimMulti (boostedRewards c' f) g b user W cur = some (g', b', r)) {w : Nat}
    (hin : InWindow (g.progress user) W w) :
    b'.paid w = b.paid w +
      payOf (c'.factorsForWeek w) (rOf (g'.totalRewards w)) f (b.farmSupply w)
        (eForP g.progress user w) (g.totalEnergy w) := by
  obtain ⟨g1, a, h1, hle, ha, rfl, rfl, _⟩ := claimMulti_spec h
  obtain ⟨p, hp, hpw, hwW, hW4⟩ := hin
  rw [hp] at ha hle h1
  have hsp : startProgress (some p) cur W = p := rfl
  rw [hsp] at ha hle
  obtain ⟨w1, w2, w3⟩ := loop_window p W hle
  have hstart : (loopStart p W).week ≤ w := by
    unfold loopLen at w1
    simp only [USER_MAX_CLAIM_WEEKS] at w1
    omega
  have key := claimLoop_amounts c' f _ ha w hstart
    (by show w < (loopStart p W).week + loopLen p W; omega)
  simp only at key
  rw [key, entryE_loopStart_eq p W w hstart, eForP_some' hp,
    updateUser_energy_window h1 w (by omega) hW4]
  rfl

/-- the factors in force for week `w` when the stored configuration is `cfg` and the current week
    is `W`: the configuration updated (in memory) to the current week, read at `w`; none without a
    configuration -/
def facOf (cfg : Option BCfg) (W w : Nat) : Option Factors :=
  match cfg with
  | none => none
  | some c => (c.update W none).bind fun c' => c'.factorsForWeek w

/-- **`claim_boosted_yields_rewards(u, f)`** books, for every week of `u`'s claim window, `payOf`
    of the factors in force, the week's frozen pool (read afterwards), `f`, the week's recorded
    farm supply, `u`'s stored energy decayed to the week and the week's total energy -/
theorem claimBoostedYields_amounts {s : St} {u f : Nat} {r : Weekly.St × B × Nat}
    (h : claimBoostedYields s u f = some r) {w : Nat}
    (hin : InWindow (s.w.progress u) s.week w) :
    r.2.1.paid w = s.b.paid w +
      payOf (facOf s.b.cfg s.week w) (rOf (r.1.totalRewards w)) f (s.b.farmSupply w)
        (eForP s.w.progress u w) (s.w.totalEnergy w) := by
  have h0 := h
  unfold claimBoostedYields at h
  split at h
  · rename_i hc
    rw [(claimBoostedYields_none_spec hc h0).1, hc]
    simp [facOf, payOf]
  · rename_i c hc
    simp only [Option.bind_eq_bind, Option.bind_eq_some_iff, Option.pure_def, Option.some.injEq] at h
    obtain ⟨c', hc', r', hr, rfl⟩ := h
    rw [hc]
    simp only [facOf, hc', Option.bind_some]
    exact claimMulti_amounts hr hin

/-! ### every endpoint with a claimer -/

/-- the user update only ever CLEARS one old week's frozen pool (week `W − 5`) -/
theorem updateUser_rewards_frame {g g' : Weekly.St} {W : Nat} {cur : Energy} {o : Option ClaimProgress}
    (h : updateUserEnergyForCurrentWeek g W cur o = some g') :
    ∀ w, (W ≤ w + 4 → g'.totalRewards w = g.totalRewards w) ∧
      (g'.totalRewards w = g.totalRewards w ∨ g'.totalRewards w = []) := by
  rw [updateUserEnergyForCurrentWeek_eq] at h
  exact Fees.updateGlobal_rewards_frame h

theorem updateEnergyAndProgress_rewards_frame {g g' : Weekly.St} {u W : Nat} {cur : Energy}
    (h : updateEnergyAndProgress g u W cur = some g') :
    ∀ w, (W ≤ w + 4 → g'.totalRewards w = g.totalRewards w) ∧
      (g'.totalRewards w = g.totalRewards w ∨ g'.totalRewards w = []) := by
  simp only [updateEnergyAndProgress, Option.bind_eq_bind, Option.bind_eq_some_iff, Option.pure_def,
    Option.some.injEq] at h
  obtain ⟨g1, h1, rfl⟩ := h
  have := updateUser_rewards_frame h1
  exact this

theorem clearEnergyIfNeeded_rewards_frame {s : St} {g g' : Weekly.St} {u : Nat}
    (h : clearEnergyIfNeeded s g u = some g') :
    ∀ w, (s.week ≤ w + 4 → g'.totalRewards w = g.totalRewards w) ∧
      (g'.totalRewards w = g.totalRewards w ∨ g'.totalRewards w = []) := by
  unfold clearEnergyIfNeeded at h
  split at h
  · simp only [Option.some.injEq] at h; subst h; exact fun _ => ⟨fun _ => rfl, Or.inl rfl⟩
  · simp only [Option.bind_eq_bind, Option.bind_eq_some_iff] at h
    obtain ⟨_, _, _, _, h⟩ := h
    unfold clearUserEnergy at h
    split at h
    · simp only [Option.some.injEq] at h; subst h; exact fun _ => ⟨fun _ => rfl, Or.inl rfl⟩
    · simp only [Option.bind_eq_bind, Option.bind_eq_some_iff, Option.pure_def, Option.some.injEq] at h
      obtain ⟨g1, h1, rfl⟩ := h
      have := updateUser_rewards_frame h1
      exact this

/-- the boosted part of the operation IS `claim_boosted_yields_rewards(u, total position of u
    BEFORE the operation)`, run in the entry state (`t = s`: stake, merge) or in the entry state
    after reward generation (`t = genSt s`: claim, compound, unstake, claimBoostedRewards); the
    operation's `paid` / `collected` ghosts are the ones that call leaves, and so are the frozen
    pools of the four claimable weeks (an older week's frozen pool may be cleared afterwards) -/
def Via (s s' : St) (u : Nat) : Prop :=
  ∃ t r, (t = s ∨ t = genSt s) ∧ claimBoostedYields t u (s.userTotal u) = some r ∧
    s'.b.paid = r.2.1.paid ∧ s'.b.collected = r.2.1.collected ∧
    ∀ w, (s.week ≤ w + 4 → s'.w.totalRewards w = r.1.totalRewards w) ∧
      (s'.w.totalRewards w = r.1.totalRewards w ∨ s'.w.totalRewards w = [])

theorem stakeCore_via {s s' : St} {c orig amount : Nat} {v : Bool} {adds : List Pay} {o : Out}
    (h : stakeCore s c orig amount v adds = some (s', o)) : Via s s' orig := by
  cases v <;>
  · simp only [stakeCore, Option.bind_eq_bind, Option.bind_eq_some_iff, req_eq_some,
      sub?_eq_some, Option.pure_def, Option.some.injEq, Prod.mk.injEq] at h
    obtain ⟨_, _, hold0, hd, r, hr, res1, _, _, _, ut1, hk, ⟨s3, c3⟩, hg, merged, hm, w2, hw2,
      bal1, _, rfl, _⟩ := h
    obtain ⟨_, _, rfl, rfl⟩ := generate_spec hg
    have hfr := updateEnergyAndProgress_rewards_frame hw2
    exact ⟨s, r, Or.inl rfl, hr, rfl, rfl, hfr⟩

theorem claimCore_via {s s' : St} {c orig : Nat} {pays : List Pay} {nv : Option Nat} {o : Out}
    (h : claimCore s c orig pays nv = some (s', o)) : Via s s' orig := by
  simp only [claimCore, Option.bind_eq_bind, Option.bind_eq_some_iff] at h
  obtain ⟨m, hm, h⟩ := h
  obtain ⟨_, _, _, r, _, _, _, hr, _, hw1, hb1, _, _, hs1, _⟩ := claimBase_reward hm
  simp only [claimFinish, Option.bind_eq_bind, Option.bind_eq_some_iff, req_eq_some,
    sub?_eq_some, Option.pure_def, Option.some.injEq, Prod.mk.injEq] at h
  obtain ⟨res1, _, sup1, _, ut2, _, _, _, w2, hw2, bal1, _, rfl, _⟩ := h
  have hfr := updateEnergyAndProgress_rewards_frame hw2
  rw [hs1, hw1] at hfr
  refine ⟨genSt s, r, Or.inr rfl, hr, ?_, ?_, hfr⟩
  · show m.b1.paid = _; rw [hb1]
  · show m.b1.collected = _; rw [hb1]

theorem compound_via {s s' : St} {c : Nat} {pays : List Pay} {o : Out}
    (h : compound s c pays = some (s', o)) : Via s s' c := by
  simp only [compound, Option.bind_eq_bind, Option.bind_eq_some_iff, req_eq_some,
    sub?_eq_some, Option.pure_def, Option.some.injEq, Prod.mk.injEq] at h
  obtain ⟨hold0, _, _, _, p, _, first, _, ⟨s1, c1⟩, hg, tok, _, r, hr, res1, _, ut1, _,
    merged, _, rfl, _⟩ := h
  obtain ⟨_, _, rfl, rfl⟩ := generate_spec hg
  exact ⟨genSt s, r, Or.inr rfl, hr, rfl, rfl, fun _ => ⟨fun _ => rfl, Or.inl rfl⟩⟩

theorem unstakeCore_via {s s' : St} {c orig : Nat} {pay : Pay} {x : Option Nat} {o : Out}
    (h : unstakeCore s c orig pay x = some (s', o)) : Via s s' orig := by
  cases x <;>
  · simp only [unstakeCore, Option.bind_eq_bind, Option.bind_eq_some_iff, req_eq_some,
      sub?_eq_some, Option.pure_def, Option.some.injEq, Prod.mk.injEq] at h
    obtain ⟨_, _, hold0, _, _, _, attrs, _, ⟨s1, c1⟩, hg, tok, _, r, hr, res1, _,
      sup1, _, w2, hw2, bal1, _, rfl, _⟩ := h
    obtain ⟨_, _, rfl, rfl⟩ := generate_spec hg
    have hfr := clearEnergyIfNeeded_rewards_frame hw2
    exact ⟨genSt s, r, Or.inr rfl, hr, rfl, rfl, hfr⟩

theorem mergeTokens_via {s s' : St} {c : Nat} {pays : List Pay} {o : Out}
    (h : mergeTokens s c pays = some (s', o)) : Via s s' c := by
  simp only [mergeTokens, Option.bind_eq_bind, Option.bind_eq_some_iff, req_eq_some,
    sub?_eq_some, Option.pure_def, Option.some.injEq, Prod.mk.injEq] at h
  obtain ⟨hold0, _, _, _, r, hr, res1, _, p, _, ut1, _, first, _, part, _, merged, _,
    bal1, _, rfl, _⟩ := h
  exact ⟨s, r, Or.inl rfl, hr, rfl, rfl, fun _ => ⟨fun _ => rfl, Or.inl rfl⟩⟩

theorem claimBoostedRewards_via {s s' : St} {c : Nat} {u : Option Nat} {o : Out}
    (h : claimBoostedRewards s c u = some (s', o)) : Via s s' c := by
  simp only [claimBoostedRewards, Option.bind_eq_bind, Option.bind_eq_some_iff, req_eq_some,
    sub?_eq_some, Option.pure_def, Option.some.injEq, Prod.mk.injEq] at h
  obtain ⟨_, _, _, _, _, _, ⟨s1, c1⟩, hg, r, hr, res1, _, bal1, _, rfl, _⟩ := h
  obtain ⟨_, _, rfl, rfl⟩ := generate_spec hg
  exact ⟨genSt s, r, Or.inr rfl, hr, rfl, rfl, fun _ => ⟨fun _ => rfl, Or.inl rfl⟩⟩

/-- **every successful operation with a claimer `u` runs `u`'s boosted claim with `u`'s total
    position before the operation** -/
theorem stepCore_via {s s' : St} {op : Op} {o : Out} (h : stepCore s op = some (s', o)) :
    ∀ u, claimerOf s op = some u → Via s s' u := by
  cases op <;> simp only [stepCore] at h <;> intro u hu
  case stake c orig a adds =>
    have hu' : orig.getD c = u := Option.some.inj hu
    subst hu'
    cases orig <;> simp only [stakeFarm, Option.bind_eq_bind, Option.bind_eq_some_iff] at h
    · exact stakeCore_via h
    · obtain ⟨_, _, h⟩ := h; exact stakeCore_via h
  case stakeProxy c orig a adds =>
    have hu' : orig = u := Option.some.inj hu
    subst hu'
    simp only [stakeProxy, Option.bind_eq_bind, Option.bind_eq_some_iff] at h
    obtain ⟨_, _, h⟩ := h; exact stakeCore_via h
  case stakeBehalf c x a adds =>
    have hu' : x = u := Option.some.inj hu
    subst hu'
    simp only [stakeOnBehalf, Option.bind_eq_bind, Option.bind_eq_some_iff] at h
    obtain ⟨_, _, _, _, h⟩ := h; exact stakeCore_via h
  case claim c orig p =>
    have hu' : orig.getD c = u := Option.some.inj hu
    subst hu'
    cases orig <;> simp only [claimRewards, Option.bind_eq_bind, Option.bind_eq_some_iff] at h
    · exact claimCore_via h
    · obtain ⟨_, _, h⟩ := h; exact claimCore_via h
  case claimNew c orig nv p =>
    have hu' : orig = u := Option.some.inj hu
    subst hu'
    simp only [claimNewValue, Option.bind_eq_bind, Option.bind_eq_some_iff] at h
    obtain ⟨_, _, h⟩ := h; exact claimCore_via h
  case claimBehalf c ps =>
    simp only [claimOnBehalf, Option.bind_eq_bind, Option.bind_eq_some_iff] at h
    obtain ⟨user, hu2, _, _, h⟩ := h
    have hu3 : claimOwner s.md ps = some u := hu
    rw [hu3] at hu2
    cases hu2
    exact claimCore_via h
  case compound c ps =>
    have hu' : c = u := Option.some.inj hu
    subst hu'
    exact compound_via h
  case unstake c orig p =>
    have hu' : orig.getD c = u := Option.some.inj hu
    subst hu'
    cases orig <;> simp only [unstakeFarm, Option.bind_eq_bind, Option.bind_eq_some_iff] at h
    · exact unstakeCore_via h
    · obtain ⟨_, _, h⟩ := h; exact unstakeCore_via h
  case unstakeProxy c orig x p =>
    have hu' : orig = u := Option.some.inj hu
    subst hu'
    simp only [unstakeProxy, Option.bind_eq_bind, Option.bind_eq_some_iff] at h
    obtain ⟨_, _, h⟩ := h; exact unstakeCore_via h
  case merge c ps =>
    have hu' : c = u := Option.some.inj hu
    subst hu'
    exact mergeTokens_via h
  case claimBoosted c x =>
    have hu' : c = u := Option.some.inj hu
    subst hu'
    exact claimBoostedRewards_via h
  all_goals cases hu

theorem step_via {s s' : St} {op : Op} {o : Out} (h : step s op = some (s', o)) {u : Nat}
    (hu : claimerOf s op = some u) : Via s s' u := by
  simp only [step, Option.bind_eq_bind, Option.bind_eq_some_iff] at h
  obtain ⟨_, _, h⟩ := h
  exact stepCore_via h u hu

/-! ### the exact per-operation characterisation of `paid` -/

/-- what user `u` is due for week `w` in state `s`, given the week's frozen pool `R`: `payOf` of the
    factors in force for `w`, `R`, `u`'s total position, the week's recorded farm supply, `u`'s
    stored progress energy decayed to `w`, and the week's total energy -/
def dueOf (s : St) (u w R : Nat) : Nat :=
  payOf (facOf s.b.cfg s.week w) R (s.userTotal u) (s.b.farmSupply w)
    (eForP s.w.progress u w) (s.w.totalEnergy w)

/-- **every successful operation, every week**: inside the claimer's claim window `paid(w)` grows by
    exactly what the claimer is due for `w` (with the week's frozen pool read after the operation,
    everything else read BEFORE it); outside the window — and under operations without a claimer —
    `paid(w)` does not move -/
theorem step_paid_exact {s s' : St} {op : Op} {o : Out} (h : step s op = some (s', o)) (w : Nat) :
    (∀ u, claimerOf s op = some u → InWindow (s.w.progress u) s.week w →
      s'.b.paid w = s.b.paid w + dueOf s u w (rOf (s'.w.totalRewards w))) ∧
    ((∀ u, claimerOf s op = some u → ¬ InWindow (s.w.progress u) s.week w) →
      s'.b.paid w = s.b.paid w) := by
  constructor
  · intro u hu hin
    obtain ⟨t, r, ht, hr, hpaid, _, hrew⟩ := step_via h hu
    have hw4 : s.week ≤ w + 4 := by
      obtain ⟨_, _, _, _, h4⟩ := hin
      exact h4
    rw [hpaid, (hrew w).1 hw4]
    rcases ht with rfl | rfl
    · exact claimBoostedYields_amounts hr hin
    · exact claimBoostedYields_amounts hr (w := w) hin
  · intro hno
    by_contra hne
    obtain ⟨u, p, hc, hp, h1, h2, h3, _⟩ := (step_fx h).paid_gate hne
    exact hno u hc ⟨p, hp, h1, h2, h3⟩

/-! ### the log -/

/-- **every log entry is the boosted formula**: an entry `(u, w, amount)` logged by `op` in state
    `s` has `amount = boostedAmount fa R f F eU E` with `fa` the factors in force for `w` (stored
    configuration updated to the current week), `R` the week's frozen pool after the operation,
    `f` the user's total position BEFORE the operation, `F` the week's recorded farm supply, `eU`
    the user's stored progress energy decayed to `w`, `E` the week's total energy; and nothing is
    logged without totals, below the minimum energy or below the minimum position -/
theorem stepLog_amount {s : St} {op : Op} {e : Entry} (h : e ∈ stepLog s op) :
    ∃ fa, facOf s.b.cfg s.week e.week = some fa ∧
      e.amount = boostedAmount fa (rOf ((next s op).w.totalRewards e.week)) (s.userTotal e.user)
        (s.b.farmSupply e.week) (eForP s.w.progress e.user e.week) (s.w.totalEnergy e.week) ∧
      s.w.totalEnergy e.week ≠ 0 ∧ s.b.farmSupply e.week ≠ 0 ∧
      fa.minE ≤ eForP s.w.progress e.user e.week ∧ fa.minF ≤ s.userTotal e.user ∧
      rOf ((next s op).w.totalRewards e.week) ≠ 0 := by
  have hpos := stepLog_pos h
  obtain ⟨hcu, h4, hlt, p, hp, hple⟩ := stepLog_window h
  obtain ⟨u, r, hu, hs, hm⟩ := stepLog_cases h
  obtain ⟨_, _, _, hamt⟩ := mem_entriesOf hm
  rw [next_of_some hs]
  have hex := (step_paid_exact (s := s) (s' := r.1) (o := r.2) hs e.week).1 e.user hcu
    ⟨p, hp, hple, hlt, h4⟩
  have hdue : e.amount = dueOf s e.user e.week (rOf (r.1.w.totalRewards e.week)) := by
    rw [hamt, hex]; omega
  rw [hdue] at hpos
  obtain ⟨fa, hfa, hE, hF, hme, hmf, hR, heq⟩ := payOf_pos hpos
  exact ⟨fa, hfa, hdue.trans heq, hE, hF, hme, hmf, hR⟩

end Mx.Staking
