/-
  C13 helpers, part 3: the ring invariant holds after every history of pair operations.
-/
import MxModel.Lemmas.SafePriceRing

namespace Mx.SafePrice
open Mx Mx.Pair

/-- what a successful transaction does to the observation buffer: it records from the
    PRE-operation values (`touched`), or it changes neither buffer nor reserves (`quiet`:
    configuration, clock), or it is the very first deposit into an empty pool (`first`). -/
def StepKind (s s' : St) : Prop :=
  (s'.round = s.round ∧ s'.sp = s.sp.update s.round s.r1 s.r2 s.S) ∨
  (s.round ≤ s'.round ∧ s'.sp = s.sp ∧ s'.r1 = s.r1 ∧ s'.r2 = s.r2 ∧ s'.S = s.S) ∨
  (s'.round = s.round ∧ s'.sp = s.sp ∧ s.S = 0)

theorem step_kind {s s' : St} {op : Op} {o : Out} (h : step s op = some (s', o)) :
    StepKind s s' := by
  cases op <;> simp only [step] at h
  case addInitial =>
    obtain ⟨_, _, _, _, h4, _, _, rfl⟩ := addInitial_spec h
    exact Or.inr (Or.inr ⟨rfl, rfl, h4⟩)
  case addLiq =>
    by_cases hS : s.S = 0
    · obtain ⟨_, _, _, _, _, _, rfl⟩ := addLiq_first_spec hS h
      exact Or.inl ⟨rfl, rfl⟩
    · obtain ⟨o1, o2, _, _, _, _, _, _, _, _, _, _, _, rfl⟩ := addLiq_spec hS h
      exact Or.inl ⟨rfl, rfl⟩
  case removeLiq =>
    obtain ⟨_, _, _, _, _, _, _, _, _, _, _, _, _, _, _, rfl⟩ := removeLiq_spec h
    exact Or.inl ⟨rfl, rfl⟩
  case swapIn d a m =>
    obtain ⟨s3, spent, _, _, _, _, _, _, _, _, _, _, _, h12, _, rfl⟩ := swapIn_spec h
    have e := h12.same
    simp only [SameCfg] at e
    obtain ⟨_, _, _, _, _, _, _, _, _, _, e11, e12, _⟩ := e
    refine Or.inl ⟨?_, ?_⟩
    · cases d <;> simpa [St.setBal, swapMid, St.touch, St.setR] using e11
    · cases d <;> simpa [St.setBal, swapMid, St.touch, St.setR] using e12
  case swapOut d mx out =>
    obtain ⟨s3, spent, _, _, _, _, _, _, _, _, _, _, _, h12, _, rfl⟩ := swapOut_spec h
    have e := h12.same
    simp only [SameCfg] at e
    obtain ⟨_, _, _, _, _, _, _, _, _, _, e11, e12, _⟩ := e
    refine Or.inl ⟨?_, ?_⟩
    · cases d <;> simpa [St.setBal, swapMid, St.touch, St.setR] using e11
    · cases d <;> simpa [St.setBal, swapMid, St.touch, St.setR] using e12
  case swapNoFee c d a =>
    obtain ⟨_, _, _, _, _, _, _, _, rfl⟩ := swapNoFee_spec h
    refine Or.inl ⟨?_, ?_⟩ <;>
      cases d <;> simp [St.touch, St.setR, St.setBal, St.addBurnOut, St.addBurnIn, Dir.flip]
  case buyback =>
    obtain ⟨s2, _, _, _, _, _, _, _, _, _, r1, r2⟩ := buyback_spec h
    have e1 := r1.same
    have e2 := r2.same
    simp only [SameCfg] at e1 e2
    obtain ⟨_, _, _, _, _, _, _, _, _, _, a11, a12, _⟩ := e1
    obtain ⟨_, _, _, _, _, _, _, _, _, _, b11, b12, _⟩ := e2
    refine Or.inl ⟨?_, ?_⟩
    · rw [b11, a11]; rfl
    · rw [b12, a12]; rfl
  case cfg op =>
    simp only [Option.map_eq_some_iff, Prod.mk.injEq] at h
    obtain ⟨s1, h1, rfl, _⟩ := h
    refine Or.inr (Or.inl ?_)
    cases op <;>
      simp only [cfg, Option.bind_eq_bind, Option.bind_eq_some_iff, req_eq_some,
        Option.pure_def, Option.some.injEq] at h1
    case setFee => obtain ⟨_, _, rfl⟩ := h1; exact ⟨Nat.le_refl _, rfl, rfl, rfl, rfl⟩
    case addDest => subst h1; exact ⟨Nat.le_refl _, rfl, rfl, rfl, rfl⟩
    case removeDest => obtain ⟨_, _, rfl⟩ := h1; exact ⟨Nat.le_refl _, rfl, rfl, rfl, rfl⟩
    case setCollector => obtain ⟨_, _, rfl⟩ := h1; exact ⟨Nat.le_refl _, rfl, rfl, rfl, rfl⟩
    case setState => subst h1; exact ⟨Nat.le_refl _, rfl, rfl, rfl, rfl⟩
    case whitelist => obtain ⟨_, _, rfl⟩ := h1; exact ⟨Nat.le_refl _, rfl, rfl, rfl, rfl⟩
    case removeWhitelist => obtain ⟨_, _, rfl⟩ := h1; exact ⟨Nat.le_refl _, rfl, rfl, rfl, rfl⟩
    case setTrusted f x =>
      cases f <;> simp only [Option.some.injEq] at h1 <;> subst h1 <;>
        exact ⟨Nat.le_refl _, rfl, rfl, rfl, rfl⟩
  case advance r =>
    split at h
    · rename_i hr
      simp only [Option.some.injEq, Prod.mk.injEq] at h
      obtain ⟨rfl, _⟩ := h
      exact Or.inr (Or.inl ⟨hr, rfl, rfl, rfl, rfl⟩)
    · simp at h
  case lock =>
    simp only [Option.map_eq_some_iff, Prod.mk.injEq] at h
    obtain ⟨s1, h1, rfl, _⟩ := h
    obtain ⟨_, dl, ul, sc, rfl⟩ := lockCfg_spec h1
    exact Or.inr (Or.inl ⟨Nat.le_refl _, rfl, rfl, rfl, rfl⟩)
  case epoch =>
    split at h
    · simp only [Option.some.injEq, Prod.mk.injEq] at h
      obtain ⟨rfl, _⟩ := h
      exact Or.inr (Or.inl ⟨Nat.le_refl _, rfl, rfl, rfl, rfl⟩)
    · simp at h

theorem next_round (o : Obs) (now r1 r2 S : Nat) : (o.next now r1 r2 S).round = now := rfl

theorem ginit_inv (t sp : Nat) (ad : Option Nat) (cap : Nat) (hc : 1 ≤ cap) :
    RingInv (ginit t sp ad cap) := by
  refine ⟨inv_init t sp ad cap, ⟨hc, by simp [ginit, init], by simp [ginit, init],
    fun h => absurd rfl h, fun _ => rfl⟩, trivial, ?_, ?_, ?_, ?_, ?_⟩
  · intro o ho; simp [ginit, init] at ho
  · intro o ho; simp [ginit, init] at ho
  · simp [ginit, init, SP.last, Obs.zero]
  · intro h; exact absurd rfl h
  · intro h; exact absurd rfl h

/-- one transaction preserves the ring invariant -/
theorem gstep_inv {g : G} (op : Op) (hi : RingInv g) : RingInv (gstep g op) := by
  unfold gstep
  cases hst : step g.s op with
  | none => exact hi
  | some r =>
    obtain ⟨s', o⟩ := r
    simp only []
    obtain ⟨hpair, hshape, hlinked, hbnd, hacc, hlast, hlive, hcur⟩ := hi
    have hpair' := step_inv hpair hst
    have hSpos : 0 < g.s.S → 0 < s'.S := fun h => step_S_pos hpair h hst
    have hlive' : 0 < s'.S → 0 < s'.r1 ∧ 0 < s'.r2 ∧ 0 < s'.S := fun h =>
      ⟨(hpair'.pos h).1, (hpair'.pos h).2.1, h⟩
    -- an empty buffer satisfies every clause
    have hempty : ∀ (log' : Log), s'.sp = g.s.sp → g.s.sp.obs = [] →
        RingInv ⟨s', log'⟩ := by
      intro log' hsp he
      refine ⟨hpair', by simpa only [hsp] using hshape, ?_, ?_, ?_, ?_, ?_, ?_⟩
      · simp only [hsp, logical_empty he]; trivial
      · intro o ho; simp only [hsp, he] at ho; simp at ho
      · intro o ho; simp only [hsp, he] at ho; simp at ho
      · simp only [hsp, last_empty he]; simp [Obs.zero]
      · intro h; simp only [hsp] at h; exact absurd he h
      · intro h; simp only [hsp] at h; exact absurd he h
    rcases step_kind hst with ⟨hr, hsp⟩ | ⟨hr, hsp, e1, e2, e3⟩ | ⟨hr, hsp, hS0⟩
    · -- touched
      have hlog : (fun k => if g.s.round < k ∧ k ≤ s'.round then (⟨g.s.r1, g.s.r2, g.s.S⟩ : Res)
          else g.log k) = g.log := by
        funext k
        rw [if_neg (by omega)]
      rw [hlog]
      by_cases hpos : 0 < g.s.r1 ∧ 0 < g.s.r2 ∧ 0 < g.s.S
      · rcases update_cases hshape g.s.round g.s.r1 g.s.r2 g.s.S hpos with
          ⟨hsame, hup⟩ | ⟨hne, hsh', _, hl', hne', hlg', hmem'⟩
        · -- an observation of this round already exists
          rw [hup] at hsp
          refine ⟨hpair', by simpa only [hsp] using hshape, by simpa only [hsp] using hlinked,
            ?_, ?_, ?_, ?_, ?_⟩
          · intro o ho; simp only [hsp] at ho; simp only [hr]; exact hbnd o ho
          · intro o ho; simp only [hsp] at ho; exact hacc o ho
          · simp only [hsp, hr]; exact hlast
          · intro h; exact hlive' (hSpos hpos.2.2)
          · intro _ k h1 h2
            simp only [hsp, hsame, hr] at h1 h2
            omega
        · -- a new observation is recorded
          have hnow : 1 ≤ g.s.round := by omega
          refine ⟨hpair', by simpa only [hsp] using hsh', ?_, ?_, ?_, ?_, ?_, ?_⟩
          · simp only [hsp, hlg']
            have key : ∀ a, (logical g.s.sp).getLast? = some a →
                Link g.log a (g.s.sp.last.next g.s.round g.s.r1 g.s.r2 g.s.S) := by
              intro a ha
              have hne0 : g.s.sp.obs ≠ [] := by
                intro he; rw [logical_empty he] at ha; simp at ha
              rw [logical_getLast hshape hne0] at ha
              simp only [Option.some.injEq] at ha
              subst ha
              have hb := hbnd _ (last_mem hshape hne0)
              have hr0 : g.s.sp.last.round ≠ 0 := by omega
              refine ⟨by simp only [next_round]; omega, ?_, ?_⟩
              · simp only [Obs.next, hr0, if_false]
              · intro k hk1 hk2
                simp only [next_round] at hk2
                rw [hcur hne0 k hk1 hk2]
                simp only [Obs.next, hr0, if_false, and_self, and_true]
                exact hpos
            split
            · refine Linked.snoc _ hlinked.tail (fun a ha => key a ?_)
              rw [List.getLast?_tail] at ha
              split at ha
              · simp at ha
              · exact ha
            · exact Linked.snoc _ hlinked key
          · intro o ho
            simp only [hsp] at ho
            simp only [hr]
            rcases hmem' o ho with h | h
            · exact hbnd o h
            · subst h; simp only [next_round]; omega
          · intro o ho
            simp only [hsp] at ho
            rcases hmem' o ho with h | h
            · exact hacc o h
            · subst h
              simp only [Obs.next]
              have : 0 < (if g.s.sp.last.round = 0 then 1 else g.s.round - g.s.sp.last.round) := by
                split <;> omega
              have := Nat.mul_pos this hpos.2.2
              omega
          · simp only [hsp, hl', next_round, hr]; exact Nat.le_refl _
          · intro _; exact hlive' (hSpos hpos.2.2)
          · intro _ k h1 h2
            simp only [hsp, hl', next_round, hr] at h1 h2
            omega
      · -- nothing to observe: the buffer must be empty
        have he : g.s.sp.obs = [] := by
          by_contra hne
          exact hpos (hlive hne)
        have hup : g.s.sp.update g.s.round g.s.r1 g.s.r2 g.s.S = g.s.sp := by
          unfold SP.update
          rw [if_pos (by omega)]
        rw [hup] at hsp
        exact hempty _ hsp he
    · -- quiet: clock or configuration
      refine ⟨hpair', by simpa only [hsp] using hshape, ?_, ?_, ?_, ?_, ?_, ?_⟩
      · simp only [hsp]
        refine Linked.congr g.s.round (fun k hk => ?_) (fun o ho => ?_) hlinked
        · rw [if_neg (by omega)]
        · exact (hbnd o (mem_logical.mp ho)).2
      · intro o ho
        simp only [hsp] at ho
        have := hbnd o ho
        show 1 ≤ o.round ∧ o.round ≤ s'.round
        exact ⟨this.1, by omega⟩
      · intro o ho; simp only [hsp] at ho; exact hacc o ho
      · simp only [hsp]; omega
      · intro h; simp only [hsp] at h; simp only [e1, e2, e3]; exact hlive h
      · intro h k h1 h2
        simp only [hsp] at h h1
        simp only [e1, e2, e3]
        by_cases hk : k ≤ g.s.round
        · rw [if_neg (by omega)]; exact hcur h k h1 hk
        · rw [if_pos ⟨by omega, h2⟩]
    · -- first deposit: no observation can exist yet
      have he : g.s.sp.obs = [] := by
        by_contra hne
        have := (hlive hne).2.2
        omega
      exact hempty _ hsp he

theorem grun_inv (ops : List Op) {g : G} (hi : RingInv g) : RingInv (grun g ops) := by
  induction ops generalizing g with
  | nil => exact hi
  | cons op ops ih =>
    simp only [grun, List.foldl_cons]
    exact ih (gstep_inv op hi)

end Mx.SafePrice
