/-
  The inductive invariant of the router world and its consequences for reachable states.
-/
import MxModel.Lemmas.RouterAdmin

namespace Mx.Router

/-- what holds in every state reachable from a freshly deployed router -/
structure Inv (s : St) : Prop where
  /-- at most one registry entry per unordered token pair -/
  uniq : Uniq s.pairMap
  /-- no two entries share an address -/
  addrUniq : AddrUniq s.pairMap
  pos : 0 < s.nextAddr
  /-- registered addresses are non-zero and were handed out by the router's own deploys -/
  lt : ∀ e ∈ s.pairMap, 0 < e.2 ∧ e.2 < s.nextAddr
  /-- every entry points to a pair contract that reports exactly the tokens of its key -/
  toks : ∀ e ∈ s.pairMap, tokOf s.pairs e.2 = some e.1
  /-- keys are made of two distinct valid token ids -/
  keys : ∀ e ∈ s.pairMap, e.1.1 ≠ e.1.2 ∧ validTok e.1.1 ∧ validTok e.1.2
  /-- the router holds nothing between transactions -/
  rb0 : ∀ t, s.rbal t = 0

theorem Inv.nonZero {s : St} (hi : Inv s) : NonZero s.pairMap := fun e he =>
  Nat.ne_of_gt (hi.lt e he).1

theorem inv_init (owner self : Addr) (template : Bool) (foreign : List PairRec)
    (funds : Addr → Nat → Nat) : Inv (init owner self template foreign funds) where
  uniq := List.Pairwise.nil
  addrUniq := List.Pairwise.nil
  pos := by simp [init, PAIR_BASE]
  lt := by intro e he; cases he
  toks := by intro e he; cases he
  keys := by intro e he; cases he
  rb0 := fun _ => rfl

theorem Frame.inv {s s' : St} (hi : Inv s) (f : Frame s s') : Inv s' where
  uniq := by rw [f.pairMap]; exact hi.uniq
  addrUniq := by rw [f.pairMap]; exact hi.addrUniq
  pos := by rw [f.nextAddr]; exact hi.pos
  lt := by rw [f.pairMap, f.nextAddr]; exact hi.lt
  toks := by
    rw [f.pairMap]
    intro e he
    rw [f.tok]; exact hi.toks e he
  keys := by rw [f.pairMap]; exact hi.keys
  rb0 := fun t => by rw [f.rbal]; exact hi.rb0 t

theorem createPair_inv {s s' : St} {c : Addr} {t1 t2 : Tok} {adder : Addr}
    {fees : Option (Nat × Nat)} {o : Out} (hi : Inv s)
    (h : createPair s c t1 t2 adder fees = some (s', o)) : Inv s' := by
  obtain ⟨fp, _, _, h3, h4, h5, h6, _, _, _, _, _, rfl⟩ := createPair_spec h
  obtain ⟨hn1, hn2⟩ := (getPair_eq_zero_iff hi.nonZero).mp h6
  have hk1 := lookup_none_iff.mp hn1
  have hk2 := lookup_none_iff.mp hn2
  refine ⟨?_, ?_, ?_, ?_, ?_, ?_, hi.rb0⟩
  · -- uniq
    show Uniq (s.pairMap ++ [((t1, t2), s.nextAddr)])
    unfold Uniq
    rw [List.pairwise_append]
    refine ⟨hi.uniq, List.pairwise_singleton _ _, ?_⟩
    intro e he f hf
    simp only [List.mem_singleton] at hf
    subst hf
    rintro (hs | hs)
    · exact hk1 e he hs
    · exact hk2 e he hs
  · show AddrUniq (s.pairMap ++ [((t1, t2), s.nextAddr)])
    unfold AddrUniq
    rw [List.pairwise_append]
    refine ⟨hi.addrUniq, List.pairwise_singleton _ _, ?_⟩
    intro e he f hf
    simp only [List.mem_singleton] at hf
    subst hf
    exact Nat.ne_of_lt (hi.lt e he).2
  · exact Nat.succ_pos _
  · intro e he
    show 0 < e.2 ∧ e.2 < s.nextAddr + 1
    rcases List.mem_append.mp he with he | he
    · exact ⟨(hi.lt e he).1, Nat.lt_succ_of_lt (hi.lt e he).2⟩
    · simp only [List.mem_singleton] at he
      subst he
      exact ⟨hi.pos, Nat.lt_succ_self _⟩
  · intro e he
    show tokOf (upd s.pairs s.nextAddr _) e.2 = some e.1
    rcases List.mem_append.mp he with he | he
    · have hne : e.2 ≠ s.nextAddr := Nat.ne_of_lt (hi.lt e he).2
      unfold tokOf
      rw [upd_other _ _ hne]
      exact hi.toks e he
    · simp only [List.mem_singleton] at he
      subst he
      simp [tokOf, newPair]
  · intro e he
    rcases List.mem_append.mp he with he | he
    · exact hi.keys e he
    · simp only [List.mem_singleton] at he
      subst he
      exact ⟨h3, h4, h5⟩

theorem removePair_inv {s s' : St} {c : Addr} {t1 t2 : Tok} {o : Out} (hi : Inv s)
    (h : removePair s c t1 t2 = some (s', o)) : Inv s' := by
  obtain ⟨_, _, _, _, _, _, _, rfl⟩ := removePair_spec h
  have hsub := removed_sublist s.pairMap t1 t2
  have hmem : ∀ e, e ∈ removed s.pairMap t1 t2 → e ∈ s.pairMap := fun e he => hsub.subset he
  exact ⟨hi.uniq.sublist hsub, hi.addrUniq.sublist hsub, hi.pos,
    fun e he => hi.lt e (hmem e he), fun e he => hi.toks e (hmem e he),
    fun e he => hi.keys e (hmem e he), hi.rb0⟩

theorem setCreation_frame {s s' : St} {c : Addr} {b : Bool} {o : Out}
    (h : setCreation s c b = some (s', o)) : c = s.owner ∧ s' = { s with creationEnabled := b } := by
  simp only [setCreation, Option.bind_eq_bind, Option.bind_eq_some_iff, req_eq_some,
    Option.pure_def, Option.some.injEq, Prod.mk.injEq] at h
  obtain ⟨_, h1, rfl, _⟩ := h
  exact ⟨h1, rfl⟩

theorem setTemplate_frame {s s' : St} {c : Addr} {o : Out}
    (h : setTemplate s c = some (s', o)) : c = s.owner ∧ s' = { s with templateSet := true } := by
  simp only [setTemplate, Option.bind_eq_bind, Option.bind_eq_some_iff, req_eq_some,
    Option.pure_def, Option.some.injEq, Prod.mk.injEq] at h
  obtain ⟨_, h1, rfl, _⟩ := h
  exact ⟨h1, rfl⟩

/-- the operations that are neither `createPair` nor `removePair` leave the registry alone -/
theorem step_frame {s s' : St} {op : Op} {o : Out} (h : step s op = some (s', o))
    (h1 : ∀ c t1 t2 ad f, op ≠ .createPair c t1 t2 ad f) (h2 : ∀ c t1 t2, op ≠ .removePair c t1 t2) :
    Frame s s' := by
  cases op with
  | createPair c t1 t2 ad f => exact absurd rfl (h1 c t1 t2 ad f)
  | removePair c t1 t2 => exact absurd rfl (h2 c t1 t2)
  | setCreation c b =>
    obtain ⟨_, rfl⟩ := setCreation_frame h
    exact ⟨rfl, rfl, rfl, rfl, rfl, fun _ => rfl, fun _ => rfl⟩
  | setTemplate c =>
    obtain ⟨_, rfl⟩ := setTemplate_frame h
    exact ⟨rfl, rfl, rfl, rfl, rfl, fun _ => rfl, fun _ => rfl⟩
  | pause c a => exact setState_frame h
  | resume c a => exact setState_frame h
  | setFeeOn c a tok => exact setFeeOn_frame h
  | setFeeOff c a i tok => exact setFeeOff_frame h
  | multi c tokIn amount hops => exact multiPairSwap_frame h
  | addInitial u a a1 a2 => exact addInitial_frame h
  | addLiq u a a1 a2 m1 m2 => exact addLiq_frame h
  | removeLiq u a lp m1 m2 => exact removeLiq_frame h
  | swapIn u a ti x to m => exact swapIn_frame h
  | swapOut u a ti mx to out => exact swapOut_frame h
  | configEnable c common locked mv mp => exact configEnable_frame h
  | addCommon c toks => exact addCommon_frame h
  | removeCommon c toks => exact removeCommon_frame h
  | enableByUser c a k amount => exact enableByUser_frame h
  | enablePlain c a tok amount => cases h
  | lock u coll orig amount unlock => exact lockTokens_frame h
  | unlock u k amount => exact unlockTokens_frame h
  | advance e => exact advance_frame h
  | setTmpPeriod c n => exact setTmpPeriod_frame h
  | clearTmp c => exact clearTmp_frame h
  | issueLp c a => exact issueLp_frame h
  | setLocalRoles c a => exact setLocalRoles_frame (c := c) h
  | upgradePair c t1 t2 => exact upgradePair_frame h
  | advanceBlock n => exact advanceBlock_frame h
  | bareNext b => exact setBareNext_frame h

theorem step_inv {s s' : St} {op : Op} {o : Out} (hi : Inv s) (h : step s op = some (s', o)) :
    Inv s' := by
  cases op with
  | createPair c t1 t2 ad f => exact createPair_inv hi h
  | removePair c t1 t2 => exact removePair_inv hi h
  | setCreation c b => exact (step_frame h (by intros; simp) (by intros; simp)).inv hi
  | setTemplate c => exact (step_frame h (by intros; simp) (by intros; simp)).inv hi
  | pause c a => exact (step_frame h (by intros; simp) (by intros; simp)).inv hi
  | resume c a => exact (step_frame h (by intros; simp) (by intros; simp)).inv hi
  | setFeeOn c a tok => exact (step_frame h (by intros; simp) (by intros; simp)).inv hi
  | setFeeOff c a i tok => exact (step_frame h (by intros; simp) (by intros; simp)).inv hi
  | multi c tokIn amount hops => exact (step_frame h (by intros; simp) (by intros; simp)).inv hi
  | addInitial u a a1 a2 => exact (step_frame h (by intros; simp) (by intros; simp)).inv hi
  | addLiq u a a1 a2 m1 m2 => exact (step_frame h (by intros; simp) (by intros; simp)).inv hi
  | removeLiq u a lp m1 m2 => exact (step_frame h (by intros; simp) (by intros; simp)).inv hi
  | swapIn u a ti x to m => exact (step_frame h (by intros; simp) (by intros; simp)).inv hi
  | swapOut u a ti mx to out => exact (step_frame h (by intros; simp) (by intros; simp)).inv hi
  | configEnable c common locked mv mp => exact (step_frame h (by intros; simp) (by intros; simp)).inv hi
  | addCommon c toks => exact (step_frame h (by intros; simp) (by intros; simp)).inv hi
  | removeCommon c toks => exact (step_frame h (by intros; simp) (by intros; simp)).inv hi
  | enableByUser c a k amount => exact (step_frame h (by intros; simp) (by intros; simp)).inv hi
  | enablePlain c a tok amount => exact (step_frame h (by intros; simp) (by intros; simp)).inv hi
  | lock u coll orig amount unlock => exact (step_frame h (by intros; simp) (by intros; simp)).inv hi
  | unlock u k amount => exact (step_frame h (by intros; simp) (by intros; simp)).inv hi
  | advance e => exact (step_frame h (by intros; simp) (by intros; simp)).inv hi
  | setTmpPeriod c n => exact (step_frame h (by intros; simp) (by intros; simp)).inv hi
  | clearTmp c => exact (step_frame h (by intros; simp) (by intros; simp)).inv hi
  | issueLp c a => exact (step_frame h (by intros; simp) (by intros; simp)).inv hi
  | setLocalRoles c a => exact (step_frame h (by intros; simp) (by intros; simp)).inv hi
  | upgradePair c t1 t2 => exact (step_frame h (by intros; simp) (by intros; simp)).inv hi
  | advanceBlock n => exact (step_frame h (by intros; simp) (by intros; simp)).inv hi
  | bareNext b => exact (step_frame h (by intros; simp) (by intros; simp)).inv hi

theorem step_owner {s s' : St} {op : Op} {o : Out} (h : step s op = some (s', o)) :
    s'.owner = s.owner ∧ s'.self = s.self := by
  cases op with
  | createPair c t1 t2 ad f =>
    obtain ⟨fp, _, _, _, _, _, _, _, _, _, _, _, rfl⟩ := createPair_spec h
    exact ⟨rfl, rfl⟩
  | removePair c t1 t2 =>
    obtain ⟨_, _, _, _, _, _, _, rfl⟩ := removePair_spec h
    exact ⟨rfl, rfl⟩
  | setCreation c b => exact (fun f : Frame s s' => ⟨f.owner, f.self⟩) (step_frame h (by intros; simp) (by intros; simp))
  | setTemplate c => exact (fun f : Frame s s' => ⟨f.owner, f.self⟩) (step_frame h (by intros; simp) (by intros; simp))
  | pause c a => exact (fun f : Frame s s' => ⟨f.owner, f.self⟩) (step_frame h (by intros; simp) (by intros; simp))
  | resume c a => exact (fun f : Frame s s' => ⟨f.owner, f.self⟩) (step_frame h (by intros; simp) (by intros; simp))
  | setFeeOn c a tok => exact (fun f : Frame s s' => ⟨f.owner, f.self⟩) (step_frame h (by intros; simp) (by intros; simp))
  | setFeeOff c a i tok => exact (fun f : Frame s s' => ⟨f.owner, f.self⟩) (step_frame h (by intros; simp) (by intros; simp))
  | multi c tokIn amount hops => exact (fun f : Frame s s' => ⟨f.owner, f.self⟩) (step_frame h (by intros; simp) (by intros; simp))
  | addInitial u a a1 a2 => exact (fun f : Frame s s' => ⟨f.owner, f.self⟩) (step_frame h (by intros; simp) (by intros; simp))
  | addLiq u a a1 a2 m1 m2 => exact (fun f : Frame s s' => ⟨f.owner, f.self⟩) (step_frame h (by intros; simp) (by intros; simp))
  | removeLiq u a lp m1 m2 => exact (fun f : Frame s s' => ⟨f.owner, f.self⟩) (step_frame h (by intros; simp) (by intros; simp))
  | swapIn u a ti x to m => exact (fun f : Frame s s' => ⟨f.owner, f.self⟩) (step_frame h (by intros; simp) (by intros; simp))
  | swapOut u a ti mx to out => exact (fun f : Frame s s' => ⟨f.owner, f.self⟩) (step_frame h (by intros; simp) (by intros; simp))
  | configEnable c common locked mv mp => exact (fun f : Frame s s' => ⟨f.owner, f.self⟩) (step_frame h (by intros; simp) (by intros; simp))
  | addCommon c toks => exact (fun f : Frame s s' => ⟨f.owner, f.self⟩) (step_frame h (by intros; simp) (by intros; simp))
  | removeCommon c toks => exact (fun f : Frame s s' => ⟨f.owner, f.self⟩) (step_frame h (by intros; simp) (by intros; simp))
  | enableByUser c a k amount => exact (fun f : Frame s s' => ⟨f.owner, f.self⟩) (step_frame h (by intros; simp) (by intros; simp))
  | enablePlain c a tok amount => exact (fun f : Frame s s' => ⟨f.owner, f.self⟩) (step_frame h (by intros; simp) (by intros; simp))
  | lock u coll orig amount unlock => exact (fun f : Frame s s' => ⟨f.owner, f.self⟩) (step_frame h (by intros; simp) (by intros; simp))
  | unlock u k amount => exact (fun f : Frame s s' => ⟨f.owner, f.self⟩) (step_frame h (by intros; simp) (by intros; simp))
  | advance e => exact (fun f : Frame s s' => ⟨f.owner, f.self⟩) (step_frame h (by intros; simp) (by intros; simp))
  | setTmpPeriod c n => exact (fun f : Frame s s' => ⟨f.owner, f.self⟩) (step_frame h (by intros; simp) (by intros; simp))
  | clearTmp c => exact (fun f : Frame s s' => ⟨f.owner, f.self⟩) (step_frame h (by intros; simp) (by intros; simp))
  | issueLp c a => exact (fun f : Frame s s' => ⟨f.owner, f.self⟩) (step_frame h (by intros; simp) (by intros; simp))
  | setLocalRoles c a => exact (fun f : Frame s s' => ⟨f.owner, f.self⟩) (step_frame h (by intros; simp) (by intros; simp))
  | upgradePair c t1 t2 => exact (fun f : Frame s s' => ⟨f.owner, f.self⟩) (step_frame h (by intros; simp) (by intros; simp))
  | advanceBlock n => exact (fun f : Frame s s' => ⟨f.owner, f.self⟩) (step_frame h (by intros; simp) (by intros; simp))
  | bareNext b => exact (fun f : Frame s s' => ⟨f.owner, f.self⟩) (step_frame h (by intros; simp) (by intros; simp))

theorem run_inv (ops : List Op) {s : St} (hi : Inv s) : Inv (run s ops) := by
  induction ops generalizing s with
  | nil => exact hi
  | cons op ops ih =>
    simp only [run, List.foldl_cons]
    cases h : step s op with
    | none => exact ih hi
    | some r => exact ih (step_inv hi (o := r.2) (by rw [h]))

theorem run_owner (ops : List Op) (s : St) : (run s ops).owner = s.owner := by
  induction ops generalizing s with
  | nil => rfl
  | cons op ops ih =>
    simp only [run, List.foldl_cons]
    cases h : step s op with
    | none => exact ih s
    | some r =>
      have := (step_owner (o := r.2) (by rw [h])).1
      exact (ih r.1).trans this

theorem run_append (s : St) (a b : List Op) : run s (a ++ b) = run (run s a) b := by
  simp [run, List.foldl_append]

/-! ### `check_is_pair_sc` on reachable states -/

/-- on a reachable state, `check_is_pair_sc` accepts exactly the addresses in the registry -/
theorem checkIsPairSc_iff_mem {s : St} (hi : Inv s) (a : Addr) :
    checkIsPairSc s.pairMap s.pairs a = some () ↔ a ∈ s.pairMap.map Prod.snd := by
  rw [checkIsPairSc_iff]
  constructor
  · rintro ⟨k, _, h | ⟨_, h⟩⟩
    · exact List.mem_map.mpr ⟨_, lookup_some_mem h, rfl⟩
    · exact List.mem_map.mpr ⟨_, lookup_some_mem h, rfl⟩
  · intro h
    obtain ⟨e, he, rfl⟩ := List.mem_map.mp h
    exact ⟨e.1, hi.toks e he, Or.inl (hi.uniq.lookup_iff.mpr he)⟩

/-- … which is to say: the address is the registry entry (`getPair`) for the tokens the pair
    contract itself reports -/
theorem checkIsPairSc_iff_getPair {s : St} (hi : Inv s) (a : Addr) :
    checkIsPairSc s.pairMap s.pairs a = some () ↔
      ∃ k, tokOf s.pairs a = some k ∧ a ≠ 0 ∧ getPair s.pairMap k.1 k.2 = a := by
  rw [checkIsPairSc_iff]
  constructor
  · rintro ⟨k, hk, h | ⟨_, h⟩⟩
    · have hm := lookup_some_mem h
      have hz := hi.nonZero _ hm
      exact ⟨k, hk, hz, getPair_eq_of_mem hi.uniq hi.nonZero hm⟩
    · have hm := lookup_some_mem h
      have hz := hi.nonZero _ hm
      refine ⟨k, hk, hz, ?_⟩
      rw [getPair_comm hi.uniq hi.nonZero]
      exact getPair_eq_of_mem hi.uniq hi.nonZero hm
  · rintro ⟨⟨k1, k2⟩, hk, hz, hg⟩
    refine ⟨(k1, k2), hk, ?_⟩
    unfold getPair at hg
    simp only at hg ⊢
    cases h1 : lookup s.pairMap (k1, k2) with
    | some x =>
      have hx : x ≠ 0 := hi.nonZero _ (lookup_some_mem h1)
      rw [h1] at hg
      simp only [Option.getD_some, hx, if_false] at hg
      subst hg
      exact Or.inl rfl
    | none =>
      rw [h1] at hg
      simp only [Option.getD_none, if_true] at hg
      refine Or.inr ⟨rfl, ?_⟩
      cases h2 : lookup s.pairMap (k2, k1) with
      | some y =>
        rw [h2] at hg
        simp only [Option.getD_some] at hg
        rw [hg]
      | none =>
        rw [h2] at hg
        simp only [Option.getD_none] at hg
        exact absurd hg.symm hz

end Mx.Router
