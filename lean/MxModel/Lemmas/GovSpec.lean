/-
  Governance: characterisation ("spec") lemmas of propose / vote / cancel / withdrawDeposit —
  what a successful call implies — and bookkeeping about the proposal list.
  Property theorems (Props/C18) are proved from these, never by unfolding `step`.
-/
import MxModel.Core.Governance
import Mathlib.Data.Nat.Sqrt

set_option linter.unusedSimpArgs false

namespace Mx.Gov

/-! ### the proposal list -/

theorem get?_eq_some {s : St} {id : Nat} {p : Proposal} (h : s.get? id = some p) :
    1 ≤ id ∧ id ≤ s.props.length ∧ s.props[id - 1]? = some p := by
  unfold St.get? at h
  split at h
  · simp at h
  · rename_i h0
    have hlt : id - 1 < s.props.length := by
      rcases Nat.lt_or_ge (id - 1) s.props.length with hl | hl
      · exact hl
      · rw [List.getElem?_eq_none hl] at h; simp at h
    exact ⟨by omega, by omega, h⟩

theorem get?_of_valid {s : St} {id : Nat} (h1 : 1 ≤ id) (h2 : id ≤ s.props.length) :
    ∃ p, s.get? id = some p := by
  unfold St.get?
  rw [if_neg (by omega)]
  exact ⟨s.props[id - 1]'(by omega), List.getElem?_eq_getElem (by omega)⟩

@[simp] theorem set_props (s : St) (id : Nat) (q : Proposal) :
    (s.set id q).props = s.props.set (id - 1) q := rfl
@[simp] theorem set_block (s : St) (id : Nat) (q : Proposal) : (s.set id q).block = s.block := rfl
@[simp] theorem set_bal (s : St) (id : Nat) (q : Proposal) : (s.set id q).bal = s.bal := rfl
@[simp] theorem set_burned (s : St) (id : Nat) (q : Proposal) : (s.set id q).burned = s.burned := rfl
@[simp] theorem set_wallet (s : St) (id : Nat) (q : Proposal) : (s.set id q).wallet = s.wallet := rfl
@[simp] theorem set_energy (s : St) (id : Nat) (q : Proposal) : (s.set id q).energy = s.energy := rfl
@[simp] theorem set_total (s : St) (id : Nat) (q : Proposal) : (s.set id q).total = s.total := rfl
@[simp] theorem set_n (s : St) (id : Nat) (q : Proposal) : (s.set id q).n = s.n := rfl

theorem get?_set_same {s : St} {id : Nat} {p : Proposal} (q : Proposal) (h : s.get? id = some p) :
    (s.set id q).get? id = some q := by
  obtain ⟨h1, h2, _⟩ := get?_eq_some h
  unfold St.get?
  rw [if_neg (by omega), set_props, List.getElem?_set_self (by omega)]

theorem get?_set_ne {s : St} {id id' : Nat} (q : Proposal) (h1 : 1 ≤ id) (hne : id' ≠ id) :
    (s.set id q).get? id' = s.get? id' := by
  unfold St.get?
  split
  · rfl
  · rw [set_props, List.getElem?_set_ne (by omega)]

@[simp] theorem upd_same (f : Nat → Nat) (c v : Nat) : upd f c v c = v := by simp [upd]
theorem upd_ne (f : Nat → Nat) {c u : Nat} (v : Nat) (h : u ≠ c) : upd f c v u = f u := by
  simp [upd, h]

/-! ### status -/

theorem status_of_get {s : St} {id : Nat} {p : Proposal} (h : s.get? id = some p) :
    s.status id = if p.cleared then .none else p.statusAt s.block := by
  simp [St.status, h]

theorem status_none_of_get_none {s : St} {id : Nat} (h : s.get? id = none) : s.status id = .none := by
  simp [St.status, h]

theorem statusAt_ne_none (p : Proposal) (b : Nat) : p.statusAt b ≠ .none := by
  unfold Proposal.statusAt
  repeat' split
  all_goals simp

/-- a status other than `none` means the proposal is stored and not cleared -/
theorem get_of_status {s : St} {id : Nat} (h : s.status id ≠ .none) :
    ∃ p, s.get? id = some p ∧ p.cleared = false ∧ s.status id = p.statusAt s.block := by
  cases hg : s.get? id with
  | none => exact absurd (status_none_of_get_none hg) h
  | some p =>
    rw [status_of_get hg] at h ⊢
    cases hc : p.cleared with
    | true => simp [hc] at h
    | false => exact ⟨p, rfl, hc, by simp [hc]⟩

/-! ### result states -/

/-- `amt` of the fee token moved from the contract to `to` -/
def refunded (s : St) (to amt : Nat) : St :=
  { s with bal := s.bal - amt, wallet := upd s.wallet to (s.wallet to + amt) }

theorem refund_eq_some {s s1 : St} {to amt : Nat} :
    s.refund to amt = some s1 ↔ amt ≤ s.bal ∧ s1 = refunded s to amt := by
  simp only [St.refund, Option.bind_eq_bind, Option.bind_eq_some_iff, sub?_eq_some,
    Option.pure_def, Option.some.injEq]
  constructor
  · rintro ⟨b, ⟨h, rfl⟩, rfl⟩; exact ⟨h, rfl⟩
  · rintro ⟨h, rfl⟩; exact ⟨_, ⟨h, rfl⟩, rfl⟩

/-- the proposal `propose` stores -/
def newProposal (s : St) (c fee : Nat) : Proposal :=
  { proposer := c, fee := fee, minQuorum := s.quorumPct, delay := s.delay, period := s.period,
    wpct := s.wpct, totalQuorum := 0, start := s.block, withdrawn := false,
    up := 0, down := 0, veto := 0, abstain := 0, quorum := 0, voters := [], cleared := false }

/-- the proposal after user `c` with energy `e` cast vote `v` while the fees collector reported
    `total` -/
def voted (p : Proposal) (total : Nat) (v : Vote) (e c : Nat) : Proposal :=
  let p1 := if p.quorum = 0 then { p with totalQuorum := total } else p
  { p1.addVote v (Nat.sqrt e) e with voters := p1.voters ++ [c] }

/-! ### specs -/

theorem propose_spec {s s' : St} {c fee : Nat} {o : Out} (h : propose s c fee = some (s', o)) :
    s.isUser c ∧ s.minEnergy ≤ s.energy c ∧ 0 < fee ∧ fee ≤ s.wallet c ∧ s.minFee = fee ∧
    o = ⟨s.props.length + 1, 0, 0⟩ ∧
    s' = { s with props := s.props ++ [newProposal s c fee],
                  wallet := upd s.wallet c (s.wallet c - fee), bal := s.bal + fee } := by
  simp only [propose, Option.bind_eq_bind, Option.bind_eq_some_iff, req_eq_some, sub?_eq_some,
    Option.pure_def, Option.some.injEq, Prod.mk.injEq] at h
  obtain ⟨_, h1, _, h2, _, h3, w, ⟨h4, rfl⟩, _, h5, rfl, rfl⟩ := h
  exact ⟨h1, h2, h3, h4, h5, rfl, rfl⟩

theorem vote_spec {s s' : St} {c id : Nat} {v : Vote} {o : Out}
    (h : vote s c id v = some (s', o)) :
    ∃ p, s.isUser c ∧ 1 ≤ id ∧ id ≤ s.props.length ∧ s.status id = .active ∧
      s.get? id = some p ∧ c ∉ p.voters ∧ 0 < s.energy c ∧
      o = ⟨Nat.sqrt (s.energy c), s.energy c, 0⟩ ∧
      s' = s.set id (voted p s.total v (s.energy c) c) := by
  simp only [vote, Option.bind_eq_bind, Option.bind_eq_some_iff, req_eq_some,
    Option.pure_def, Option.some.injEq, Prod.mk.injEq] at h
  obtain ⟨_, h1, _, h2, _, h3, p, h4, _, h5, _, h6, rfl, rfl⟩ := h
  exact ⟨p, h1, h2.1, h2.2, h3, h4, h5, h6, rfl, rfl⟩

theorem cancel_spec {s s' : St} {c id : Nat} {o : Out} (h : cancel s c id = some (s', o)) :
    ∃ p, s.isUser c ∧ s.status id = .pending ∧ s.get? id = some p ∧ c = p.proposer ∧
      p.fee ≤ s.bal ∧ o = ⟨p.fee, 0, 0⟩ ∧
      s' = (refunded s p.proposer p.fee).set id { p with cleared := true } := by
  simp only [cancel, Option.bind_eq_bind, Option.bind_eq_some_iff, req_eq_some,
    Option.pure_def, Option.some.injEq, Prod.mk.injEq] at h
  obtain ⟨_, h1, _, h2, p, h3, _, h4, s1, h5, rfl, rfl⟩ := h
  obtain ⟨h6, rfl⟩ := refund_eq_some.1 h5
  exact ⟨p, h1, h2, h3, h4, h6, rfl, rfl⟩

/-- the state after the burn of `rest` in the veto branch -/
def burnedSt (s : St) (rest : Nat) : St := { s with bal := s.bal - rest, burned := s.burned + rest }

theorem withdraw_spec {s s' : St} {c id : Nat} {o : Out} (h : withdraw s c id = some (s', o)) :
    ∃ p, s.isUser c ∧ s.get? id = some p ∧ p.withdrawn = false ∧
      (((s.status id = .succeeded ∨ s.status id = .defeated) ∧ c = p.proposer ∧ p.fee ≤ s.bal ∧
          o = ⟨p.fee, 0, 0⟩ ∧
          s' = (refunded s p.proposer p.fee).set id { p with withdrawn := true }) ∨
       (s.status id = .vetoed ∧ p.wpct * p.fee / FULL ≤ p.fee ∧
          p.fee - p.wpct * p.fee / FULL ≤ s.bal ∧
          p.wpct * p.fee / FULL ≤ s.bal - (p.fee - p.wpct * p.fee / FULL) ∧
          o = ⟨p.wpct * p.fee / FULL, p.fee - p.wpct * p.fee / FULL, 0⟩ ∧
          s' = (refunded (burnedSt s (p.fee - p.wpct * p.fee / FULL)) p.proposer
                  (p.wpct * p.fee / FULL)).set id { p with withdrawn := true })) := by
  simp only [withdraw, Option.bind_eq_bind, Option.bind_eq_some_iff, req_eq_some] at h
  obtain ⟨_, h1, p, h2, h⟩ := h
  split at h
  · rename_i hst
    simp only [Option.bind_eq_bind, Option.bind_eq_some_iff, req_eq_some,
      Option.pure_def, Option.some.injEq, Prod.mk.injEq] at h
    obtain ⟨_, h3, _, h4, s1, h5, rfl, rfl⟩ := h
    obtain ⟨h6, rfl⟩ := refund_eq_some.1 h5
    exact ⟨p, h1, h2, h4, .inl ⟨.inl hst, h3, h6, rfl, rfl⟩⟩
  · rename_i hst
    simp only [Option.bind_eq_bind, Option.bind_eq_some_iff, req_eq_some,
      Option.pure_def, Option.some.injEq, Prod.mk.injEq] at h
    obtain ⟨_, h3, _, h4, s1, h5, rfl, rfl⟩ := h
    obtain ⟨h6, rfl⟩ := refund_eq_some.1 h5
    exact ⟨p, h1, h2, h4, .inl ⟨.inr hst, h3, h6, rfl, rfl⟩⟩
  · rename_i hst
    simp only [Option.bind_eq_bind, Option.bind_eq_some_iff, req_eq_some, sub?_eq_some,
      Option.pure_def, Option.some.injEq, Prod.mk.injEq] at h
    obtain ⟨_, h4, rest, ⟨h5, rfl⟩, b, ⟨h6, rfl⟩, s2, h7, rfl, rfl⟩ := h
    obtain ⟨h8, rfl⟩ := refund_eq_some.1 h7
    exact ⟨p, h1, h2, h4, .inr ⟨hst, h5, h6, h8, rfl, rfl⟩⟩
  · simp at h

theorem cfg_spec {s s1 : St} {o : CfgOp} (h : cfg s o = some s1) :
    s1.props = s.props ∧ s1.block = s.block ∧ s1.bal = s.bal ∧ s1.burned = s.burned ∧
    s1.wallet = s.wallet ∧ s1.energy = s.energy ∧ s1.total = s.total ∧ s1.n = s.n := by
  cases o <;>
    simp only [cfg, Option.bind_eq_bind, Option.bind_eq_some_iff, req_eq_some,
      Option.pure_def, Option.some.injEq] at h
  case minEnergy => subst h; simp
  all_goals (obtain ⟨_, _, rfl⟩ := h; simp)

/-- every operation, split by kind -/
theorem step_cases {s s' : St} {op : Op} {o : Out} (h : step s op = some (s', o)) :
    (∃ c fee, op = .propose c fee ∧ propose s c fee = some (s', o)) ∨
    (∃ c id v, op = .vote c id v ∧ vote s c id v = some (s', o)) ∨
    (∃ c id, op = .cancel c id ∧ cancel s c id = some (s', o)) ∨
    (∃ c id, op = .withdraw c id ∧ withdraw s c id = some (s', o)) ∨
    (s'.props = s.props ∧ s'.bal = s.bal ∧ s'.burned = s.burned ∧ s'.wallet = s.wallet ∧
      s.block ≤ s'.block ∧ s'.n = s.n ∧
      (∀ c fee, op ≠ .propose c fee) ∧ (∀ c id v, op ≠ .vote c id v) ∧
      (∀ c id, op ≠ .cancel c id) ∧ (∀ c id, op ≠ .withdraw c id)) := by
  cases op with
  | propose c fee => exact .inl ⟨c, fee, rfl, h⟩
  | vote c id v => exact .inr (.inl ⟨c, id, v, rfl, h⟩)
  | cancel c id => exact .inr (.inr (.inl ⟨c, id, rfl, h⟩))
  | withdraw c id => exact .inr (.inr (.inr (.inl ⟨c, id, rfl, h⟩)))
  | cfg o' =>
    simp only [step, Option.map_eq_some_iff, Prod.mk.injEq] at h
    obtain ⟨s1, h1, rfl, _⟩ := h
    obtain ⟨a, b, c, d, e, _, _, f⟩ := cfg_spec h1
    refine .inr (.inr (.inr (.inr ⟨a, c, d, e, by omega, f, ?_, ?_, ?_, ?_⟩))) <;> intros <;> simp
  | setEnergy u e =>
    simp only [step] at h
    split at h
    · simp only [Option.some.injEq, Prod.mk.injEq] at h
      obtain ⟨rfl, _⟩ := h
      refine .inr (.inr (.inr (.inr ⟨rfl, rfl, rfl, rfl, Nat.le_refl _, rfl, ?_, ?_, ?_, ?_⟩))) <;>
        intros <;> simp
    · simp at h
  | setTotal x =>
    simp only [step, Option.some.injEq, Prod.mk.injEq] at h
    obtain ⟨rfl, _⟩ := h
    refine .inr (.inr (.inr (.inr ⟨rfl, rfl, rfl, rfl, Nat.le_refl _, rfl, ?_, ?_, ?_, ?_⟩))) <;>
      intros <;> simp
  | claim u =>
    simp only [step, Option.bind_eq_bind, Option.bind_eq_some_iff, req_eq_some, sub?_eq_some,
      Option.pure_def, Option.some.injEq, Prod.mk.injEq] at h
    obtain ⟨_, _, t, ⟨_, rfl⟩, rfl, _⟩ := h
    refine .inr (.inr (.inr (.inr ⟨rfl, rfl, rfl, rfl, Nat.le_refl _, rfl, ?_, ?_, ?_, ?_⟩))) <;>
      intros <;> simp
  | advance b =>
    simp only [step] at h
    split at h
    · rename_i hb
      simp only [Option.some.injEq, Prod.mk.injEq] at h
      obtain ⟨rfl, _⟩ := h
      refine .inr (.inr (.inr (.inr ⟨rfl, rfl, rfl, rfl, hb, rfl, ?_, ?_, ?_, ?_⟩))) <;>
        intros <;> simp
    · simp at h

end Mx.Gov
