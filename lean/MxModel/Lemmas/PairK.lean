/-
  K/S² monotonicity of every pair operation (C02), from the spec lemmas.
-/
import MxModel.Lemmas.PairInv

namespace Mx.Pair

/-- `r₁r₂/S²` of `s` is at most that of `s'` (cross-multiplied, so no division) -/
def ShareLe (s s' : St) : Prop := s.r1 * s.r2 * s'.S ^ 2 ≤ s'.r1 * s'.r2 * s.S ^ 2

theorem ShareLe.refl (s : St) : ShareLe s s := Nat.le_refl _

theorem ShareLe.trans {a b c : St} (hb : 0 < b.S) (h1 : ShareLe a b) (h2 : ShareLe b c) :
    ShareLe a c := by
  unfold ShareLe at *
  have hb2 : 0 < b.S ^ 2 := Nat.pow_pos hb
  apply Nat.le_of_mul_le_mul_right _ hb2
  calc a.r1 * a.r2 * c.S ^ 2 * b.S ^ 2 = (a.r1 * a.r2 * b.S ^ 2) * c.S ^ 2 := by ring
    _ ≤ (b.r1 * b.r2 * a.S ^ 2) * c.S ^ 2 := Nat.mul_le_mul_right _ h1
    _ = (b.r1 * b.r2 * c.S ^ 2) * a.S ^ 2 := by ring
    _ ≤ (c.r1 * c.r2 * b.S ^ 2) * a.S ^ 2 := Nat.mul_le_mul_right _ h2
    _ = c.r1 * c.r2 * a.S ^ 2 * b.S ^ 2 := by ring

/-- same LP supply and a product of reserves that did not fall -/
theorem ShareLe.of_k {s s' : St} (hS : s'.S = s.S) (hk : s.r1 * s.r2 ≤ s'.r1 * s'.r2) :
    ShareLe s s' := by
  unfold ShareLe
  rw [hS]
  exact Nat.mul_le_mul_right _ hk

theorem k_of_dir (s : St) (d : Dir) : s.rin d * s.rout d = s.r1 * s.r2 := by
  cases d <;> simp [St.rin, St.rout, Nat.mul_comm]

theorem swap_share {s s3 s' : St} {d : Dir} {charged fee out spent : Nat}
    (hk : s.r1 * s.r2 ≤ (swapMid s d charged fee out).r1 * (swapMid s d charged fee out).r2)
    (hrel : FeeRel d (swapMid s d charged fee out) s3 spent)
    (hs' : s' = s3.setBal d (s3.balIn d) (s3.balOut d - out)) : ShareLe s s' := by
  have h1 := hrel.kMono
  rw [k_of_dir, k_of_dir] at h1
  have hS : s3.S = s.S := by
    have := hrel.same.1
    cases d <;> simpa [swapMid, St.touch, St.setR, St.setBal] using this
  subst hs'
  apply ShareLe.of_k
  · cases d <;> simpa [St.setBal] using hS
  · have : (s3.setBal d (s3.balIn d) (s3.balOut d - out)).r1 = s3.r1 ∧
        (s3.setBal d (s3.balIn d) (s3.balOut d - out)).r2 = s3.r2 := by
      cases d <;> simp [St.setBal]
    rw [this.1, this.2]
    exact Nat.le_trans hk h1

theorem step_share {s s' : St} {op : Op} {o : Out} (hi : Inv s) (hS : 0 < s.S)
    (h : step s op = some (s', o)) : ShareLe s s' := by
  have hpos := hi.pos hS
  cases op <;> simp only [step] at h
  case addInitial =>
    obtain ⟨_, _, _, _, h4, _⟩ := addInitial_spec h
    omega
  case addLiq a1 a2 m1 m2 =>
    obtain ⟨o1, o2, _, _, _, _, _, _, _, _, rfl, _, _, rfl⟩ := addLiq_spec (by omega) h
    simp only [ShareLe, St.touch]
    exact addLiq_share s.r1 s.r2 s.S o1 o2 _ hpos.1 hpos.2.1 (Nat.min_le_left _ _) (Nat.min_le_right _ _)
  case removeLiq lp m1 m2 =>
    obtain ⟨_, _, _, _, h5, rfl, _, _, _, _, _, _, _, _, _, rfl⟩ := removeLiq_spec h
    simp only [ShareLe, St.touch]
    exact removeLiq_share s.r1 s.r2 s.S lp hS (by omega)
  case swapIn d a m =>
    obtain ⟨s3, spent, _, _, _, _, _, _, _, _, _, h10, _, h12, _, h14⟩ := swapIn_spec h
    exact swap_share h10 h12 h14
  case swapOut d mx out =>
    obtain ⟨s3, spent, _, _, _, _, _, _, _, _, _, h10, _, h12, _, h14⟩ := swapOut_spec h
    exact swap_share h10 h12 h14
  case swapNoFee c d a =>
    obtain ⟨_, _, _, _, rfl, h6, _, _, rfl⟩ := swapNoFee_spec h
    have hk := noFee_k a (s.rin d) (s.rout d) (by simp only at h6; omega)
    apply ShareLe.of_k
    · cases d <;> simp [St.touch, St.setR, St.setBal, St.addBurnOut, St.addBurnIn, Dir.flip]
    · rw [← k_of_dir s d]
      cases d <;>
        simpa [St.touch, St.setR, St.setBal, St.addBurnOut, St.addBurnIn, Dir.flip, St.rin,
          St.rout, Nat.mul_comm] using hk
  case buyback c lp w =>
    obtain ⟨s2, _, _, h3, rfl, _, _, _, _, _, r1, r2⟩ := buyback_spec h
    have hM : MINLIQ = 1000 := rfl
    have k1 := r1.kMono
    have k2 := r2.kMono
    have e1 := r1.same.1
    have e2 := r2.same.1
    simp only [St.rin, St.rout, St.touch] at k1 k2 e1
    have hrem := removeLiq_share s.r1 s.r2 s.S lp hS (by omega)
    have hk : (s.r1 - lp * s.r1 / s.S) * (s.r2 - lp * s.r2 / s.S) ≤ s'.r1 * s'.r2 := by
      calc (s.r1 - lp * s.r1 / s.S) * (s.r2 - lp * s.r2 / s.S) ≤ s2.r1 * s2.r2 := k1
        _ = s2.r2 * s2.r1 := Nat.mul_comm _ _
        _ ≤ s'.r2 * s'.r1 := k2
        _ = s'.r1 * s'.r2 := Nat.mul_comm _ _
    have hS' : s'.S = s.S - lp := by rw [e2, e1]
    unfold ShareLe
    rw [hS']
    exact Nat.le_trans hrem (Nat.mul_le_mul_right _ hk)
  case cfg op =>
    simp only [Option.map_eq_some_iff, Prod.mk.injEq] at h
    obtain ⟨s1, h1, rfl, _⟩ := h
    cases op <;>
      simp only [cfg, Option.bind_eq_bind, Option.bind_eq_some_iff, req_eq_some,
        Option.pure_def, Option.some.injEq] at h1
    case setFee => obtain ⟨_, _, rfl⟩ := h1; exact ShareLe.refl _
    case addDest => subst h1; exact ShareLe.refl _
    case removeDest => obtain ⟨_, _, rfl⟩ := h1; exact ShareLe.refl _
    case setCollector => obtain ⟨_, _, rfl⟩ := h1; exact ShareLe.refl _
    case setState => subst h1; exact ShareLe.refl _
    case whitelist => obtain ⟨_, _, rfl⟩ := h1; exact ShareLe.refl _
    case removeWhitelist => obtain ⟨_, _, rfl⟩ := h1; exact ShareLe.refl _
    case setTrusted f x =>
      cases f <;> simp only [cfg, Option.pure_def, Option.some.injEq] at h1 <;> subst h1 <;>
        exact ShareLe.refl _
  case advance =>
    split at h
    · simp only [Option.some.injEq, Prod.mk.injEq] at h
      obtain ⟨rfl, _⟩ := h
      exact ShareLe.refl _
    · simp at h
  case lock =>
    simp only [Option.map_eq_some_iff, Prod.mk.injEq] at h
    obtain ⟨s1, h1, rfl, _⟩ := h
    obtain ⟨_, dl, ul, sc, rfl⟩ := lockCfg_spec h1
    exact ShareLe.refl _
  case epoch =>
    split at h
    · simp only [Option.some.injEq, Prod.mk.injEq] at h
      obtain ⟨rfl, _⟩ := h
      exact ShareLe.refl _
    · simp at h

theorem run_share (ops : List Op) {s : St} (hi : Inv s) (hS : 0 < s.S) : ShareLe s (run s ops) := by
  induction ops generalizing s with
  | nil => exact ShareLe.refl _
  | cons op ops ih =>
    simp only [run, List.foldl_cons]
    cases hst : step s op with
    | none => exact ih hi hS
    | some r =>
      obtain ⟨s1, o⟩ := r
      have h1 := step_share hi hS hst
      have hS1 := step_S_pos hi hS hst
      exact ShareLe.trans hS1 h1 (ih (step_inv hi hst) hS1)

end Mx.Pair

namespace Mx.Pair

/-! ### what swapping users collectively gain (for the no-round-trip-profit statement) -/

def isSwap : Op → Bool
  | .swapIn .. => true
  | .swapOut .. => true
  | _ => false

/-- signed amounts of (first, second) token the caller of a successful swap nets -/
def flowOf (op : Op) (o : Out) : Int × Int :=
  match op with
  | .swapIn .ab a _ => (-(a : Int), (o.v1 : Int))
  | .swapIn .ba a _ => ((o.v1 : Int), -(a : Int))
  | .swapOut .ab _ _ => (-(o.v2 : Int), (o.v1 : Int))
  | .swapOut .ba _ _ => ((o.v1 : Int), -(o.v2 : Int))
  | _ => (0, 0)

/-- run a history, accumulating what the swappers netted; failed transactions net nothing -/
def runFlow : St → List Op → St × Int × Int
  | s, [] => (s, 0, 0)
  | s, op :: ops =>
    match step s op with
    | some (s1, o) =>
      ((runFlow s1 ops).1, (flowOf op o).1 + (runFlow s1 ops).2.1,
        (flowOf op o).2 + (runFlow s1 ops).2.2)
    | none => runFlow s ops

theorem runFlow_fst (s : St) (ops : List Op) : (runFlow s ops).1 = run s ops := by
  induction ops generalizing s with
  | nil => rfl
  | cons op ops ih =>
    simp only [runFlow, run, List.foldl_cons]
    cases h : step s op with
    | none => simpa [run] using ih s
    | some r => obtain ⟨s1, o⟩ := r; simpa [run] using ih s1

/-- one swap: what the caller nets of each token is at most what the reserves lose -/
theorem swap_flow_step {s s' : St} {op : Op} {o : Out} (hsw : isSwap op = true)
    (h : step s op = some (s', o)) :
    (flowOf op o).1 ≤ (s.r1 : Int) - s'.r1 ∧ (flowOf op o).2 ≤ (s.r2 : Int) - s'.r2 := by
  cases op <;> simp only [isSwap] at hsw <;> try contradiction
  case swapIn d a m =>
    simp only [step] at h
    obtain ⟨s3, spent, _, _, _, _, rfl, _, h7, _, h9, _, h11, h12, _, rfl⟩ := swapIn_spec h
    obtain ⟨i1, _, _, a1, _, b1, _, _, _⟩ := h12
    cases d <;>
      simp only [flowOf, swapMid, St.touch, St.setR, St.setBal, St.rin, St.rout, St.balIn,
        St.balOut] at * <;> omega
  case swapOut d mx out =>
    simp only [step] at h
    obtain ⟨s3, spent, _, _, _, h4, _, rfl, _, _, h9, _, h11, h12, _, rfl⟩ := swapOut_spec h
    obtain ⟨i1, _, _, a1, _, b1, _, _, _⟩ := h12
    cases d <;>
      simp only [flowOf, swapMid, St.touch, St.setR, St.setBal, St.rin, St.rout, St.balIn,
        St.balOut] at * <;> omega

theorem swap_flow_run (ops : List Op) (hall : ∀ op ∈ ops, isSwap op = true) (s : St) :
    (runFlow s ops).2.1 ≤ (s.r1 : Int) - (runFlow s ops).1.r1 ∧
    (runFlow s ops).2.2 ≤ (s.r2 : Int) - (runFlow s ops).1.r2 := by
  induction ops generalizing s with
  | nil => simp [runFlow]
  | cons op ops ih =>
    have hop := hall op (List.mem_cons_self ..)
    have hrest : ∀ op' ∈ ops, isSwap op' = true := fun o' ho' => hall o' (List.mem_cons_of_mem _ ho')
    simp only [runFlow]
    cases h : step s op with
    | none => exact ih hrest s
    | some r =>
      obtain ⟨s1, o⟩ := r
      have h1 := swap_flow_step hop h
      have h2 := ih hrest s1
      simp only []
      omega

end Mx.Pair
