/-
  Every unlock epoch the energy factory model ever hands out is a month start (a multiple of
  `EPOCHS_PER_MONTH` = 30): nonces are only created by `lockTokens` / `lockVirtual` / the period
  extension (`unlock_epoch_to_start_of_month`), by `mergeTokens`
  (`unlock_epoch_to_start_of_month_upper_estimate`) and by `reduceLockPeriod`
  (`now + epochs − (now + epochs) mod 30`).  Inductive over `step`, for all operations and arguments.
  Used by Props/C16Compose.lean: the merged epoch lies between the earliest and the latest input.
-/
import MxModel.Lemmas.EnergyMerge

namespace Mx.Energy

/-- all unlock epochs of existing locked-token nonces are month starts -/
def MonthAligned (ns : List Nat) : Prop := ∀ u ∈ ns, u % MONTH = 0

theorem MonthAligned.of_eq {ns ms : List Nat} (h : ms = ns) (ha : MonthAligned ns) : MonthAligned ms := by
  rw [h]; exact ha

theorem MonthAligned.ensure {s : St} (ha : MonthAligned s.nonces) {u : Nat} (hu : u % MONTH = 0) :
    MonthAligned (s.ensureNonce u).nonces := by
  rcases ensureNonce_nonces s u with e | e <;> rw [e]
  · exact ha
  · intro v hv
    rcases List.mem_append.mp hv with hv | hv
    · exact ha v hv
    · simp only [List.mem_singleton] at hv; rw [hv]; exact hu

theorem MonthAligned.unlockOf {s : St} (ha : MonthAligned s.nonces) {n u : Nat}
    (h : s.unlockOf n = some u) : u % MONTH = 0 :=
  ha u (List.mem_of_getElem? (unlockOf_isNonce h).2)

theorem cfg_nonces {s s1 : St} {o : CfgOp} (h : cfg s o = some s1) : s1.nonces = s.nonces := by
  cases o <;>
    simp only [cfg, Option.bind_eq_bind, Option.bind_eq_some_iff, req_eq_some, Option.pure_def,
      Option.some.injEq] at h
  case addOptions => obtain ⟨_, _, _, _, _, _, _, _, _, _, rfl⟩ := h; rfl
  case setBurnPct => obtain ⟨_, _, rfl⟩ := h; rfl
  case pause => rw [← h]
  case whitelist => obtain ⟨_, _, rfl⟩ := h; rfl
  case unwhitelist => obtain ⟨_, _, rfl⟩ := h; rfl

theorem ensureWNonce_nonces (s : St) (u : Nat) : (s.ensureWNonce u).nonces = s.nonces := by
  unfold St.ensureWNonce; split <;> rfl

theorem unlockPays_nonces (ps : List (Nat × Nat)) {s s2 : St} {c : Nat} {e e2 : Entry} {tot : Nat}
    (h : unlockPays s c e ps = some (s2, e2, tot)) : s2.nonces = s.nonces := by
  induction ps generalizing s e tot with
  | nil =>
    simp only [unlockPays, Option.some.injEq, Prod.mk.injEq] at h
    obtain ⟨rfl, _⟩ := h; rfl
  | cons p ps ih =>
    obtain ⟨n, amt⟩ := p
    simp only [unlockPays, Option.bind_eq_bind, Option.bind_eq_some_iff, req_eq_some,
      Option.pure_def, Option.some.injEq, Prod.mk.injEq] at h
    obtain ⟨u, _, s1, hdeb, _, _, _, _, e1, _, ⟨s2', e2', tot'⟩, hrec, rfl, rfl, rfl⟩ := h
    have h1 := ih hrec
    have h2 := (debit_nonces hdeb).1
    exact h1.trans h2

theorem mergePays_nonces (ps : List (Nat × Nat)) {s s2 : St} {c : Nat} {e e2 : Entry}
    {accE accW accE' accW' : Nat}
    (h : mergePays s c e accE accW ps = some (s2, e2, accE', accW')) : s2.nonces = s.nonces := by
  induction ps generalizing s e accE accW with
  | nil =>
    simp only [mergePays, Option.some.injEq, Prod.mk.injEq] at h
    obtain ⟨rfl, _⟩ := h; rfl
  | cons p ps ih =>
    obtain ⟨n, amt⟩ := p
    simp only [mergePays, Option.bind_eq_bind, Option.bind_eq_some_iff, req_eq_some] at h
    obtain ⟨u, _, s1, hdeb, _, _, e1, _, _, _, hrec⟩ := h
    have h1 := ih hrec
    have h2 := (debit_nonces hdeb).1
    exact h1.trans h2

theorem deductPays_nonces (ps : List (Nat × Nat)) {s s2 : St} {esc c : Nat} {e e2 : Entry}
    (h : deductPays s esc c e ps = some (s2, e2)) : s2.nonces = s.nonces := by
  induction ps generalizing s e with
  | nil =>
    simp only [deductPays, Option.some.injEq, Prod.mk.injEq] at h
    obtain ⟨rfl, _⟩ := h; rfl
  | cons p ps ih =>
    obtain ⟨n, amt⟩ := p
    simp only [deductPays, Option.bind_eq_bind, Option.bind_eq_some_iff, req_eq_some] at h
    obtain ⟨u, _, s1, hdeb, _, _, e1, _, hrec⟩ := h
    have h1 := ih hrec
    have h2 := (debit_nonces hdeb).1
    exact h1.trans h2

theorem addPays_nonces (ps : List (Nat × Nat)) {s s2 : St} {esc c : Nat} {e e2 : Entry}
    (h : addPays s esc c e ps = some (s2, e2)) : s2.nonces = s.nonces := by
  induction ps generalizing s e with
  | nil =>
    simp only [addPays, Option.some.injEq, Prod.mk.injEq] at h
    obtain ⟨rfl, _⟩ := h; rfl
  | cons p ps ih =>
    obtain ⟨n, amt⟩ := p
    simp only [addPays, Option.bind_eq_bind, Option.bind_eq_some_iff] at h
    obtain ⟨u, _, s1, hdeb, hrec⟩ := h
    have h1 := ih hrec
    have h2 := (debit_nonces hdeb).1
    exact h1.trans h2

theorem claimEntries_nonces (qs : List UEntry) {s s2 : St} {paid : Nat}
    (h : claimEntries s qs = some (s2, paid)) : s2.nonces = s.nonces := by
  induction qs generalizing s paid with
  | nil =>
    simp only [claimEntries, Option.some.injEq, Prod.mk.injEq] at h
    obtain ⟨rfl, _⟩ := h; rfl
  | cons q qs ih =>
    simp only [claimEntries, Option.bind_eq_bind, Option.bind_eq_some_iff, sub?_eq_some,
      Option.pure_def, Option.some.injEq, Prod.mk.injEq] at h
    obtain ⟨s1, hdeb, pen, _, b, _, pp, _, ⟨s2', paid'⟩, hrec, rfl, _⟩ := h
    have h1 := ih hrec
    have h2 := (debit_nonces hdeb).1
    exact h1.trans h2

theorem cancelEntries_nonces (qs : List UEntry) {s s2 : St} {c : Nat} {e e2 : Entry}
    (h : cancelEntries s c e qs = some (s2, e2)) : s2.nonces = s.nonces := by
  induction qs generalizing s e with
  | nil =>
    simp only [cancelEntries, Option.some.injEq, Prod.mk.injEq] at h
    obtain ⟨rfl, _⟩ := h; rfl
  | cons q qs ih =>
    simp only [cancelEntries, Option.bind_eq_bind, Option.bind_eq_some_iff, sub?_eq_some] at h
    obtain ⟨u, _, s1, hdeb, b, _, bs, _, pen, _, pp, _, hrec⟩ := h
    have h1 := ih hrec
    have h2 := (debit_nonces hdeb).1
    exact h1.trans h2

/-- one transaction keeps every unlock epoch a month start -/
theorem step_nonces {s s' : St} {op : Op} {o : Out} (ha : MonthAligned s.nonces)
    (h : step s op = some (s', o)) : MonthAligned s'.nonces := by
  cases op <;> simp only [step] at h
  case lock =>
    obtain ⟨_, _, _, _, _, _, _, _, rfl⟩ := lockTokens_spec h
    show MonthAligned (s.ensureNonce _).nonces
    exact ha.ensure (startOfMonth_facts _).1
  case extend c n amt epochs dest =>
    simp only [extendLock, Option.bind_eq_bind, Option.bind_eq_some_iff, req_eq_some,
      Option.pure_def, Option.some.injEq, Prod.mk.injEq] at h
    obtain ⟨_, _, _, _, _, _, _, _, _, _, old, _, s0, hdeb, _, _, e0, _, _, _, rfl, _⟩ := h
    show MonthAligned (s0.ensureNonce _).nonces
    exact (ha.of_eq (debit_nonces hdeb).1).ensure (startOfMonth_facts _).1
  case unlock =>
    simp only [unlockTokens, Option.bind_eq_bind, Option.bind_eq_some_iff, req_eq_some, sub?_eq_some,
      Option.pure_def, Option.some.injEq, Prod.mk.injEq] at h
    obtain ⟨_, _, _, _, ⟨s1, e, tot⟩, hp, circ, _, rfl, _⟩ := h
    show MonthAligned s1.nonces
    exact ha.of_eq (unlockPays_nonces _ hp)
  case merge c orig ps =>
    cases ps with
    | nil => simp [mergeTokens] at h
    | cons p rest =>
      obtain ⟨n1, a1⟩ := p
      simp only [mergeTokens, Option.bind_eq_bind, Option.bind_eq_some_iff, req_eq_some,
        Option.pure_def, Option.some.injEq, Prod.mk.injEq] at h
      obtain ⟨_, _, _, _, _, _, u1, _, s1, hdeb, _, _, e1, _, ⟨s2, e2, accE, accW⟩, hp, _, _, _, _,
        rfl, _⟩ := h
      show MonthAligned (s2.ensureNonce _).nonces
      exact (ha.of_eq ((mergePays_nonces _ hp).trans (debit_nonces hdeb).1)).ensure
        (upperEstimate_cases _ _ _).2.2
  case unlockEarly =>
    simp only [unlockEarly, Option.bind_eq_bind, Option.bind_eq_some_iff, req_eq_some, sub?_eq_some,
      Option.pure_def, Option.some.injEq, Prod.mk.injEq] at h
    obtain ⟨_, _, u, _, s1, hdeb, _, _, e, _, pen, _, _, _, _, _, circ, _, rfl, _⟩ := h
    show MonthAligned s1.nonces
    exact ha.of_eq (debit_nonces hdeb).1
  case reduce =>
    simp only [reduceLock, Option.bind_eq_bind, Option.bind_eq_some_iff, req_eq_some, sub?_eq_some,
      Option.pure_def, Option.some.injEq, Prod.mk.injEq] at h
    obtain ⟨_, _, _, _, _, _, u, _, s1, hdeb, _, _, newEp, ⟨hle, rfl⟩, _, _, e, _, pen, _, _, _, _, _, _, _,
      circ, _, rfl, _⟩ := h
    show MonthAligned (s1.ensureNonce _).nonces
    refine (ha.of_eq (debit_nonces hdeb).1).ensure ?_
    have hM : MONTH = 30 := rfl
    rw [hM] at hle ⊢
    omega
  case lockVirtual =>
    simp only [lockVirtual, Option.bind_eq_bind, Option.bind_eq_some_iff, req_eq_some,
      Option.pure_def, Option.some.injEq, Prod.mk.injEq] at h
    obtain ⟨_, _, _, _, _, _, _, _, _, _, _, _, rfl, _⟩ := h
    show MonthAligned (s.ensureNonce _).nonces
    exact ha.ensure (startOfMonth_facts _).1
  case claim =>
    simp only [claimUnlocked, Option.bind_eq_bind, Option.bind_eq_some_iff, req_eq_some,
      Option.pure_def, Option.some.injEq, Prod.mk.injEq] at h
    obtain ⟨_, _, ⟨s1, paid⟩, hp, rfl, _⟩ := h
    show MonthAligned s1.nonces
    exact ha.of_eq (claimEntries_nonces _ hp)
  case cancel =>
    simp only [cancelUnbond, Option.bind_eq_bind, Option.bind_eq_some_iff, req_eq_some,
      Option.pure_def, Option.some.injEq, Prod.mk.injEq] at h
    obtain ⟨_, _, ⟨s1, e⟩, hp, _, _, rfl, _⟩ := h
    show MonthAligned s1.nonces
    exact ha.of_eq (cancelEntries_nonces _ hp)
  case lockFunds =>
    simp only [lockFunds, Option.bind_eq_bind, Option.bind_eq_some_iff, req_eq_some,
      Option.pure_def, Option.some.injEq, Prod.mk.injEq] at h
    obtain ⟨_, _, _, _, ⟨s1, e⟩, hp, _, _, rfl, _⟩ := h
    show MonthAligned s1.nonces
    exact ha.of_eq (deductPays_nonces _ hp)
  case withdraw =>
    simp only [withdraw, Option.bind_eq_bind, Option.bind_eq_some_iff, req_eq_some,
      Option.pure_def, Option.some.injEq, Prod.mk.injEq] at h
    obtain ⟨_, _, x, _, _, _, ⟨s1, e⟩, hp, _, _, rfl, _⟩ := h
    show MonthAligned s1.nonces
    exact ha.of_eq (addPays_nonces _ hp)
  case cancelTransfer =>
    simp only [cancelTransfer, Option.bind_eq_bind, Option.bind_eq_some_iff, req_eq_some,
      Option.pure_def, Option.some.injEq, Prod.mk.injEq] at h
    obtain ⟨x, _, ⟨s1, e⟩, hp, _, _, rfl, _⟩ := h
    show MonthAligned s1.nonces
    exact ha.of_eq (addPays_nonces _ hp)
  case wrap c n amt =>
    simp only [wrap, Option.bind_eq_bind, Option.bind_eq_some_iff, req_eq_some,
      Option.pure_def, Option.some.injEq, Prod.mk.injEq] at h
    obtain ⟨⟨s1, e⟩, hp, _, _, rfl, _⟩ := h
    show MonthAligned (s1.ensureWNonce n).nonces
    exact ha.of_eq ((ensureWNonce_nonces _ _).trans (deductPays_nonces _ hp))
  case unwrap =>
    simp only [unwrap, Option.bind_eq_bind, Option.bind_eq_some_iff, req_eq_some, sub?_eq_some,
      Option.pure_def, Option.some.injEq, Prod.mk.injEq] at h
    obtain ⟨n, _, wb, _, ⟨s1, e⟩, hp, _, _, rfl, _⟩ := h
    show MonthAligned s1.nonces
    exact ha.of_eq (addPays_nonces _ hp)
  case xferWrapped =>
    simp only [xferWrapped, Option.bind_eq_bind, Option.bind_eq_some_iff, req_eq_some, sub?_eq_some,
      Option.pure_def, Option.some.injEq, Prod.mk.injEq] at h
    obtain ⟨_, _, _, _, wb, _, rfl, _⟩ := h
    exact ha
  case cfg op =>
    simp only [Option.map_eq_some_iff, Prod.mk.injEq] at h
    obtain ⟨s1, h1, rfl, _⟩ := h
    exact ha.of_eq (cfg_nonces h1)
  case advance e =>
    split at h
    · simp only [Option.some.injEq, Prod.mk.injEq] at h
      obtain ⟨rfl, _⟩ := h
      exact ha
    · simp at h


/-- **in every reachable state of the factory model all unlock epochs are month starts** -/
theorem run_aligned (ops : List Op) {s : St} (ha : MonthAligned s.nonces) :
    MonthAligned (run s ops).nonces := by
  induction ops generalizing s with
  | nil => simpa [run] using ha
  | cons op ops ih =>
    simp only [run, List.foldl_cons]
    cases hst : step s op with
    | none => exact ih ha
    | some r =>
      obtain ⟨s1, o⟩ := r
      exact ih (step_nonces ha hst)

theorem init_aligned (c : Cfg) : MonthAligned (init c).nonces := by
  intro u hu; cases hu

end Mx.Energy
