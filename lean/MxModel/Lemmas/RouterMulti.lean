/-
  `multiPairSwap`, generically in what a hop does (`Resp σ`): the router's ledger is a pure
  pass-through.  Nothing here looks inside a pair.
-/
import MxModel.Lemmas.RouterReg

namespace Mx.Router

/-! ### payment lists -/

/-- amount of token `t` in a payment list -/
def sumTok : List (Tok × Nat) → Tok → Nat
  | [], _ => 0
  | p :: ps, t => (if p.1 = t then p.2 else 0) + sumTok ps t

theorem sumTok_append (a b : List (Tok × Nat)) (t : Tok) :
    sumTok (a ++ b) t = sumTok a t + sumTok b t := by
  induction a with
  | nil => simp [sumTok]
  | cons p a ih => simp [sumTok, ih, Nat.add_assoc]

theorem sumTok_single (tok : Tok) (x : Nat) (t : Tok) :
    sumTok [(tok, x)] t = if t = tok then x else 0 := by
  by_cases h : t = tok
  · subst h; simp [sumTok]
  · have h' : ¬ tok = t := fun e => h e.symm
    simp [sumTok, h, h']

theorem sumTok_resid (tok : Tok) (r : Nat) (t : Tok) :
    sumTok (if 0 < r then [(tok, r)] else []) t = if t = tok then r else 0 := by
  by_cases h : 0 < r
  · simp only [h, if_true]; exact sumTok_single tok r t
  · have : r = 0 := by omega
    subst this
    simp [sumTok]

/-- crediting a balance, pointwise -/
theorem upd_add (f : Nat → Nat) (a x t : Nat) :
    upd f a (f a + x) t = f t + (if t = a then x else 0) := by
  simp only [upd]
  split
  · subst_vars; rfl
  · rfl

/-- debiting a balance, pointwise -/
theorem upd_sub (f : Nat → Nat) (a x t : Nat) (h : x ≤ f a) :
    upd f a (f a - x) t + (if t = a then x else 0) = f t := by
  simp only [upd]
  split
  · subst_vars; omega
  · rfl

/-- the router's ledger over one hop: forward `amt` of token `a`, get residual `x` of `a` and
    output `y` of token `b` back -/
theorem ledger_hop (f : Nat → Nat) (a b x y amt t : Nat) (hle : amt ≤ f a) :
    upd (upd f a (f a - amt + x)) b (upd f a (f a - amt + x) b + y) t + (if t = a then amt else 0)
      = f t + (if t = a then x else 0) + (if t = b then y else 0) := by
  simp only [upd]
  by_cases h1 : t = a
  · by_cases h2 : t = b
    · subst h1; subst h2; simp only [if_true]; omega
    · subst h1
      have h3 : ¬ b = t := fun e => h2 e.symm
      simp only [if_true, h2, h3, if_false]; omega
  · by_cases h2 : t = b
    · subst h2
      have h3 : ¬ t = a := h1
      simp only [if_true, h3, if_false]; omega
    · simp only [h1, h2, if_false] <;> omega

/-! ### the chain of hops without any ledger: which responses are received -/

/-- thread the pair world through the hop list; returns the final world and each hop's
    `(output, residual)`.  `none` iff some hop fails. -/
def hopTrace {σ : Type} (resp : Resp σ) : List Hop → σ → Tok → Nat → Option (σ × List (Nat × Nat))
  | [], w, _, _ => some (w, [])
  | h :: hs, w, tok, amt => do
      let r ← resp w h tok amt
      let t ← hopTrace resp hs r.1 h.tokOut r.2.1
      pure (t.1, (r.2.1, r.2.2) :: t.2)

/-- the non-zero fixed-output residuals, each in the token that was forwarded to that hop -/
def residuals : Tok → List Hop → List (Nat × Nat) → List (Tok × Nat)
  | tok, h :: hs, r :: rs => (if 0 < r.2 then [(tok, r.2)] else []) ++ residuals h.tokOut hs rs
  | _, [], _ => []
  | _, _ :: _, [] => []

/-- the last hop's output (the incoming payment itself for an empty chain) -/
def lastPay : Tok → Nat → List Hop → List (Nat × Nat) → Tok × Nat
  | _, _, h :: hs, r :: rs => lastPay h.tokOut r.1 hs rs
  | tok, amt, [], _ => (tok, amt)
  | tok, amt, _ :: _, [] => (tok, amt)

/-- a hop that fails anywhere in the chain makes the whole chain fail -/
theorem hopTrace_fail_at {σ : Type} {resp : Resp σ} (pre : List Hop) (h : Hop) (post : List Hop)
    {w w1 : σ} {tok : Tok} {amt : Nat} {rs1 : List (Nat × Nat)}
    (hpre : hopTrace resp pre w tok amt = some (w1, rs1))
    (hfail : resp w1 h (lastPay tok amt pre rs1).1 (lastPay tok amt pre rs1).2 = none) :
    hopTrace resp (pre ++ h :: post) w tok amt = none := by
  induction pre generalizing w tok amt rs1 with
  | nil =>
    simp only [hopTrace, Option.some.injEq, Prod.mk.injEq] at hpre
    obtain ⟨rfl, rfl⟩ := hpre
    simp only [lastPay] at hfail
    simp [hopTrace, hfail]
  | cons g pre ih =>
    simp only [hopTrace, Option.bind_eq_bind, Option.bind_eq_some_iff, Option.pure_def,
      Option.some.injEq, Prod.mk.injEq] at hpre
    obtain ⟨r, hr, t, ht, rfl, rfl⟩ := hpre
    simp only [lastPay] at hfail
    have := ih (w := r.1) (tok := g.tokOut) (amt := r.2.1) (rs1 := t.2) (by simpa using ht) hfail
    simp [hopTrace, hr, this]

/-! ### the router's loop -/

theorem hopLoop_spec {σ : Type} {resp : Resp σ} (hops : List Hop) {l l' : Loop σ}
    (h : hopLoop resp hops l = some l') :
    ∃ rs, hopTrace resp hops l.w l.tok l.amt = some (l'.w, rs) ∧
      l'.acc = l.acc ++ residuals l.tok hops rs ∧
      (l'.tok, l'.amt) = lastPay l.tok l.amt hops rs ∧
      ∀ t, l'.rb t + (if t = l.tok then l.amt else 0) =
        l.rb t + sumTok (residuals l.tok hops rs) t + (if t = l'.tok then l'.amt else 0) := by
  induction hops generalizing l with
  | nil =>
    simp only [hopLoop, Option.some.injEq] at h
    subst h
    exact ⟨[], rfl, by simp [residuals], rfl, by intro t; simp [residuals, sumTok]⟩
  | cons g hs ih =>
    simp only [hopLoop, Option.bind_eq_bind, Option.bind_eq_some_iff] at h
    obtain ⟨l1, hstep, hrest⟩ := h
    simp only [hopStep, Option.bind_eq_bind, Option.bind_eq_some_iff, sub?_eq_some,
      Option.pure_def, Option.some.injEq] at hstep
    obtain ⟨r, hr, b, ⟨hb, rfl⟩, rfl⟩ := hstep
    obtain ⟨rs, htr, hacc, hlast, hled⟩ := ih hrest
    refine ⟨(r.2.1, r.2.2) :: rs, ?_, ?_, ?_, ?_⟩
    · simp only at htr
      simp [hopTrace, hr, htr]
    · rw [hacc]
      simp only [residuals]
      split <;> simp
    · simpa [lastPay] using hlast
    · intro t
      have h1 := hled t
      have h2 := ledger_hop l.rb l.tok g.tokOut r.2.2 r.2.1 l.amt t hb
      simp only [residuals, sumTok_append, sumTok_resid]
      dsimp only at h1
      omega

theorem hopLoop_complete {σ : Type} {resp : Resp σ} (hops : List Hop) {l : Loop σ} {w' : σ}
    {rs : List (Nat × Nat)} (htr : hopTrace resp hops l.w l.tok l.amt = some (w', rs))
    (hle : l.amt ≤ l.rb l.tok) : ∃ l', hopLoop resp hops l = some l' := by
  induction hops generalizing l rs with
  | nil => exact ⟨l, rfl⟩
  | cons g hs ih =>
    simp only [hopTrace, Option.bind_eq_bind, Option.bind_eq_some_iff, Option.pure_def,
      Option.some.injEq, Prod.mk.injEq] at htr
    obtain ⟨r, hr, t, ht, rfl, rfl⟩ := htr
    let l1 : Loop σ :=
      { w := r.1,
        rb := upd (upd l.rb l.tok (l.rb l.tok - l.amt + r.2.2)) g.tokOut
          (upd l.rb l.tok (l.rb l.tok - l.amt + r.2.2) g.tokOut + r.2.1),
        tok := g.tokOut, amt := r.2.1,
        acc := if 0 < r.2.2 then l.acc ++ [(l.tok, r.2.2)] else l.acc }
    have hs1 : hopStep resp l g = some l1 := by
      simp [hopStep, hr, sub?, hle, l1]
    have hle1 : l1.amt ≤ l1.rb l1.tok := by simp [l1]
    obtain ⟨l', hl'⟩ := ih (l := l1) (rs := t.2) (by simpa [l1] using ht) hle1
    exact ⟨l', by simp [hopLoop, hs1, hl']⟩

/-! ### paying out -/

theorem payAll_spec (ps : List (Tok × Nat)) {rb rb' : Tok → Nat} {cb cb' : Nat → Nat}
    (h : payAll ps rb cb = some (rb', cb')) :
    (∀ t, rb' t + sumTok ps t = rb t) ∧ (∀ t, cb' t = cb t + sumTok ps t) := by
  induction ps generalizing rb cb with
  | nil =>
    simp only [payAll, Option.some.injEq, Prod.mk.injEq] at h
    obtain ⟨rfl, rfl⟩ := h
    simp [sumTok]
  | cons p ps ih =>
    simp only [payAll, Option.bind_eq_bind, Option.bind_eq_some_iff, sub?_eq_some] at h
    obtain ⟨b, ⟨hb, rfl⟩, hrest⟩ := h
    obtain ⟨h1, h2⟩ := ih hrest
    constructor
    · intro t
      have := h1 t
      simp only [upd_apply, sumTok] at this ⊢
      by_cases ht : t = p.1
      · subst ht; simp only [if_true] at this ⊢; omega
      · have ht' : ¬ p.1 = t := fun e => ht e.symm
        simp only [ht, ht', if_false] at this ⊢; omega
    · intro t
      have := h2 t
      simp only [upd_apply, sumTok] at this ⊢
      by_cases ht : t = p.1
      · subst ht; simp only [if_true] at this ⊢; omega
      · have ht' : ¬ p.1 = t := fun e => ht e.symm
        simp only [ht, ht', if_false] at this ⊢; omega

theorem payAll_total (ps : List (Tok × Nat)) {rb : Tok → Nat} (cb : Nat → Nat)
    (h : ∀ t, sumTok ps t ≤ rb t) : ∃ r, payAll ps rb cb = some r := by
  induction ps generalizing rb cb with
  | nil => exact ⟨_, rfl⟩
  | cons p ps ih =>
    have hp : p.2 ≤ rb p.1 := by
      have := h p.1
      simp only [sumTok, if_true] at this
      omega
    have hrest : ∀ t, sumTok ps t ≤ upd rb p.1 (rb p.1 - p.2) t := by
      intro t
      have := h t
      simp only [sumTok, upd_apply] at this ⊢
      by_cases ht : t = p.1
      · subst ht; simp only [if_true] at this ⊢; omega
      · have ht' : ¬ p.1 = t := fun e => ht e.symm
        simp only [ht, ht', if_false] at this ⊢; omega
    obtain ⟨r, hr⟩ := ih (cb := upd cb p.1 (cb p.1 + p.2)) hrest
    exact ⟨r, by simp [payAll, sub?, hp, hr]⟩

/-! ### the whole endpoint -/

/-- what a successful `multiPairSwap` did, for ANY hop behaviour `resp` -/
theorem multiG_spec {σ : Type} {resp : Resp σ} {w : σ} {rb : Tok → Nat} {cb : Nat → Nat}
    {tokIn : Tok} {amount : Nat} {hops : List Hop} {r : MultiRes σ}
    (h : multiG resp w rb cb tokIn amount hops = some r) :
    ∃ rs, 0 < amount ∧ hops ≠ [] ∧ amount ≤ cb tokIn ∧
      hopTrace resp hops w tokIn amount = some (r.w, rs) ∧
      r.pays = residuals tokIn hops rs ++ [lastPay tokIn amount hops rs] ∧
      (∀ t, r.rb t = rb t) ∧
      (∀ t, r.cb t + (if t = tokIn then amount else 0) = cb t + sumTok r.pays t) := by
  simp only [multiG, Option.bind_eq_bind, Option.bind_eq_some_iff, req_eq_some, sub?_eq_some,
    Option.pure_def, Option.some.injEq] at h
  obtain ⟨_, h1, _, h2, c0, ⟨h3, rfl⟩, l, hl, p, hp, rfl⟩ := h
  obtain ⟨rs, htr, hacc, hlast, hled⟩ := hopLoop_spec hops hl
  obtain ⟨hp1, hp2⟩ := payAll_spec _ hp
  simp only [List.nil_append] at hacc
  have hpays : l.acc ++ [(l.tok, l.amt)] = residuals tokIn hops rs ++ [lastPay tokIn amount hops rs] := by
    rw [hacc, hlast]
  refine ⟨rs, h1, h2, h3, htr, hpays, ?_, ?_⟩
  · intro t
    have a := hp1 t
    have b := hled t
    rw [sumTok_append, sumTok_single, hacc] at a
    dsimp only at b
    rw [upd_add] at b
    show p.1 t = rb t
    omega
  · intro t
    have a := hp2 t
    have b := upd_sub cb tokIn amount t h3
    dsimp only
    omega

/-- the router adds no failure of its own: if the payment is valid and every hop answers,
    the endpoint succeeds -/
theorem multiG_complete {σ : Type} {resp : Resp σ} {w w' : σ} {rb : Tok → Nat} {cb : Nat → Nat}
    {tokIn : Tok} {amount : Nat} {hops : List Hop} {rs : List (Nat × Nat)}
    (h1 : 0 < amount) (h2 : hops ≠ []) (h3 : amount ≤ cb tokIn)
    (htr : hopTrace resp hops w tokIn amount = some (w', rs)) :
    ∃ r, multiG resp w rb cb tokIn amount hops = some r := by
  obtain ⟨l, hl⟩ := hopLoop_complete (resp := resp) hops
    (l := { w := w, rb := upd rb tokIn (rb tokIn + amount), tok := tokIn, amt := amount, acc := [] })
    htr (by simp)
  obtain ⟨rs', _, hacc, _, hled⟩ := hopLoop_spec hops hl
  have hpay : ∀ t, sumTok (l.acc ++ [(l.tok, l.amt)]) t ≤ l.rb t := by
    intro t
    have b := hled t
    dsimp only at b hacc
    rw [upd_add] at b
    rw [sumTok_append, sumTok_single, hacc, List.nil_append]
    omega
  obtain ⟨p, hp⟩ := payAll_total _ (upd cb tokIn (cb tokIn - amount)) hpay
  exact ⟨{ w := l.w, rb := p.1, cb := p.2, pays := l.acc ++ [(l.tok, l.amt)] },
    by simp [multiG, req, h1, h2, sub?, h3, hl, hp]⟩

/-- any hop error makes the whole call fail -/
theorem multiG_none_of_trace_none {σ : Type} {resp : Resp σ} {w : σ} {rb : Tok → Nat}
    {cb : Nat → Nat} {tokIn : Tok} {amount : Nat} {hops : List Hop}
    (h : hopTrace resp hops w tokIn amount = none) :
    multiG resp w rb cb tokIn amount hops = none := by
  cases hm : multiG resp w rb cb tokIn amount hops with
  | none => rfl
  | some r =>
    obtain ⟨rs, _, _, _, htr, _⟩ := multiG_spec hm
    rw [h] at htr
    cases htr

end Mx.Router
