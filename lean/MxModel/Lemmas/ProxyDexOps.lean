/-
  Every operation of the proxy-dex model preserves the backing invariant `Backed`, for
  arbitrary callee responses; hence every reachable state is backed.
-/
import MxModel.Lemmas.ProxyDexInv

namespace Mx.ProxyDex

theorem addLiq_backed {s s' : St} {k la oa lp ul uo : Nat} {merge : List (Nat × Nat)}
    {mk : Option LkTok} {o : Out} (hb : Backed s)
    (h : addLiq s k la oa merge lp ul uo mk = some (s', o)) : Backed s' := by
  simp only [addLiq, Option.bind_eq_bind, Option.bind_eq_some_iff, req_eq_some, sub?_eq_some,
    Option.pure_def] at h
  obtain ⟨_, _, lb, _, ob, _, h⟩ := h
  have hb0 : Backed { s with minted := s.minted + la, burnB := s.burnB + lb, lp := s.lp + lp } :=
    Backed.congr (s := s) rfl rfl rfl rfl hb
  cases merge with
  | nil =>
    simp only [Option.some.injEq, Prod.mk.injEq] at h
    obtain ⟨rfl, _⟩ := h
    exact newW_backed _ _ _ _ hb0
  | cons a l =>
    simp only [Option.bind_eq_bind, Option.bind_eq_some_iff, req_eq_some, Option.pure_def,
      Option.some.injEq, Prod.mk.injEq] at h
    obtain ⟨t, _, _, _, ⟨s1, sx⟩, h1, rfl, _⟩ := h
    exact newW_backed _ _ _ _ (learn_backed t (takeWs_backed hb0 h1))

theorem removeLiq_backed {s s' : St} {w x rb ro : Nat} {o : Out} (hb : Backed s)
    (h : removeLiq s w x rb ro = some (s', o)) : Backed s' := by
  simp only [removeLiq, Option.bind_eq_bind, Option.bind_eq_some_iff, sub?_eq_some,
    Option.pure_def] at h
  obtain ⟨⟨s1, r, p⟩, h1, lp, _, h⟩ := h
  have hb1 := takeW_backed hb h1
  dsimp only at h
  split at h
  · simp only [Option.some.injEq, Prod.mk.injEq] at h
    obtain ⟨rfl, _⟩ := h
    exact Backed.congr (s := s1) rfl rfl rfl rfl hb1
  · simp only [Option.some.injEq, Prod.mk.injEq] at h
    obtain ⟨rfl, _⟩ := h
    split
    · exact Backed.congr (s := s1) rfl rfl rfl rfl hb1
    · exact Backed.congr (s := s1) rfl rfl rfl rfl hb1

theorem enterL_backed {s s' : St} {farm k a : Nat} {merge : List (Nat × Nat)} {ft : Nat × Nat}
    {rew : Option LkTok} {m : Option ((Nat × Nat) × LkTok)} {stray : List LkTok} {o : Out}
    (hb : Backed s) (h : enterL s farm k a merge ft rew m stray = some (s', o)) : Backed s' := by
  simp only [enterL, Option.bind_eq_bind, Option.bind_eq_some_iff, req_eq_some,
    Option.pure_def] at h
  obtain ⟨_, _, h⟩ := h
  have hb0 : Backed (learnOpt { s with minted := s.minted + a } rew) :=
    learnOpt_backed rew (Backed.congr (s := s) rfl rfl rfl rfl hb)
  cases merge with
  | nil =>
    simp only [Option.some.injEq, Prod.mk.injEq] at h
    obtain ⟨rfl, _⟩ := h
    exact newF_locked_backed farm ft.1 ft.2 k a hb0
  | cons x l =>
    simp only [Option.bind_eq_bind, Option.bind_eq_some_iff, Option.pure_def,
      Option.some.injEq, Prod.mk.injEq] at h
    obtain ⟨⟨mf, t⟩, _, ⟨s1, sp⟩, h1, rfl, _⟩ := h
    apply addStray_backed
    exact newF_locked_backed farm mf.1 mf.2 t.k t.amt (learn_backed t (takeFs_backed hb0 h1))

/-- wrapped LP moved from the user's hands into the proxy together with the wrapped farm token
    that records it -/
theorem enterW_plain_backed {s : St} {w a : Nat} {r : WLp} (farm fn fa : Nat) (hb : Backed s)
    (hr : s.wl[w]? = some r) (ha : a ≤ r.circ) :
    Backed (newF (setW s w { r with circ := r.circ - a, held := r.held + a }) farm fn fa .wlp w a).1 := by
  obtain ⟨_, hR2, hheld2, hpt2⟩ := setW_delta s w r
    { r with circ := r.circ - a, held := r.held + a } hr rfl
  obtain ⟨_, hR, hH, hF, hhf, hwl, hlk, _, hpt⟩ :=
    newF_delta (setW s w { r with circ := r.circ - a, held := r.held + a }) farm fn fa .wlp w a
  have hb1pt : Pt (setW s w { r with circ := r.circ - a, held := r.held + a }) := by
    apply hpt2 _ hb.pt
    have h0 : WOk r := hb.pt.1 r (List.mem_of_getElem? hr)
    unfold WOk at *; simp only
    have : r.circ - a + (r.held + a) = r.circ + r.held := by omega
    rw [this]; exact h0
  refine ⟨?_, ?_, ?_, hpt hb1pt⟩
  · intro κ; rw [hR, hlk]; have := hR2 κ; have := hb.lk κ
    show R (setW s w _) κ + (if Kind.wlp = Kind.locked ∧ w = κ then a else 0) ≤ s.lk κ
    simp only [reduceCtorEq, false_and, if_false] at *; omega
  · intro g φ; rw [hF, hhf]; have := hb.hf g φ
    show F s g φ + _ ≤ s.hf g φ + _
    omega
  · intro v; rw [hH]
    have e2 : heldOf (newF (setW s w { r with circ := r.circ - a, held := r.held + a })
        farm fn fa .wlp w a).1 v = heldOf (setW s w { r with circ := r.circ - a, held := r.held + a }) v := by
      simp only [heldOf, hwl]
    rw [e2, hheld2]
    have e : H (setW s w { r with circ := r.circ - a, held := r.held + a }) v = H s v := rfl
    rw [e]
    have h0 := hb.hw v
    by_cases hv : v = w
    · subst hv
      have := heldOf_of_get hr
      simp only [true_and, if_true]; omega
    · simp only [hv, Ne.symm hv, and_false, if_false]; omega

theorem enterW_backed {s s' : St} {farm w a : Nat} {merge : List (Nat × Nat)} {ft : Nat × Nat}
    {rew : Option LkTok} {m : Option ((Nat × Nat) × LkTok)} {stray : List LkTok} {o : Out}
    (hb : Backed s) (h : enterW s farm w a merge ft rew m stray = some (s', o)) : Backed s' := by
  simp only [enterW, Option.bind_eq_bind, Option.bind_eq_some_iff, req_eq_some, sub?_eq_some,
    Option.pure_def] at h
  obtain ⟨r, hr, _, _, c, ⟨hc, rfl⟩, q, _, lp, _, h⟩ := h
  cases merge with
  | nil =>
    simp only [Option.some.injEq, Prod.mk.injEq] at h
    obtain ⟨rfl, _⟩ := h
    have := enterW_plain_backed farm ft.1 ft.2 hb hr hc
    refine Backed.congr ?_ ?_ ?_ ?_ this <;> cases rew <;> rfl
  | cons x l =>
    simp only [Option.bind_eq_bind, Option.bind_eq_some_iff, Option.pure_def,
      Option.some.injEq, Prod.mk.injEq] at h
    obtain ⟨⟨mf, t⟩, _, ⟨s0, r0, q0⟩, h0, ⟨s1, sp⟩, h1, rfl, _⟩ := h
    apply addStray_backed
    have hb0 := takeW_backed hb h0
    have hb0' : Backed (learnOpt { s0 with lp := lp } rew) :=
      learnOpt_backed rew (Backed.congr (s := s0) rfl rfl rfl rfl hb0)
    exact newW_newF_backed (a + sp) t.k t.amt farm mf.1 mf.2 (learn_backed t (takeFs_backed hb0' h1))

theorem exitFarm_backed {s s' : St} {farm f x farming : Nat} {rew : Option LkTok} {o : Out}
    (hb : Backed s) (h : exitFarm s farm f x farming rew = some (s', o)) : Backed s' := by
  simp only [exitFarm, Option.bind_eq_bind, Option.bind_eq_some_iff, req_eq_some,
    Option.pure_def] at h
  obtain ⟨_, _, ⟨s1, t⟩, h1, h⟩ := h
  have hb1 := takeF_backed hb h1
  dsimp only at h
  have hb2 : Backed (if farmIsBase t.r.farm = true then { s1 with burnB := s1.burnB + farming }
      else { s1 with lp := s1.lp + farming }) := by
    split
    · exact Backed.congr (s := s1) rfl rfl rfl rfl hb1
    · exact Backed.congr (s := s1) rfl rfl rfl rfl hb1
  split at h
  · split at h
    · simp only [Option.some.injEq, Prod.mk.injEq] at h
      obtain ⟨rfl, _⟩ := h; exact learnOpt_backed rew hb2
    · simp only [Option.some.injEq, Prod.mk.injEq] at h
      obtain ⟨rfl, _⟩ := h; exact learnOpt_backed rew hb2
  · simp only [Option.bind_eq_bind, Option.bind_eq_some_iff, sub?_eq_some] at h
    obtain ⟨remaining, _, h⟩ := h
    split at h
    · simp only [Option.some.injEq, Prod.mk.injEq] at h
      obtain ⟨rfl, _⟩ := h
      exact learnOpt_backed rew (burnLocked_backed _ _ hb2)
    · simp only [Option.bind_eq_bind, Option.bind_eq_some_iff, sub?_eq_some, Option.pure_def,
        Option.some.injEq, Prod.mk.injEq] at h
      obtain ⟨rw, _, qN, _, extra, _, rfl, _⟩ := h
      apply learnOpt_backed
      apply newW_backed
      split
      · exact hb2
      · exact burnLocked_backed _ _ hb2

/-- claim: the proxy-farming part stays where it is and is recorded again by the new token -/
theorem claim_backed {s s' : St} {farm f x : Nat} {ft : Nat × Nat} {rew : Option LkTok} {o : Out}
    (hb : Backed s) (h : claim s farm f x ft rew = some (s', o)) : Backed s' := by
  simp only [claim, takeF, Option.bind_eq_bind, Option.bind_eq_some_iff, Option.pure_def,
    Option.some.injEq, Prod.mk.injEq] at h
  obtain ⟨⟨s2, t⟩, ⟨⟨s1, r, p⟩, h0, ⟨s2', k, q⟩, hs, rfl, rfl⟩, rfl, _⟩ := h
  dsimp only at hs
  obtain ⟨rfl, _, _⟩ := settle_keep hs
  dsimp only
  obtain ⟨hR1, hH1, hF1, hhf1, hwl1, hlk1, _, hpt1⟩ := takeF0_delta h0
  have hcg : ∀ κ, R (learnOpt s2' rew) κ = R s2' κ := fun κ => by cases rew <;> rfl
  obtain ⟨_, hR, hH, hF, hhf, hwl, hlk, _, hpt⟩ :=
    newF_delta (learnOpt s2' rew) r.farm ft.1 ft.2 r.kind r.pn p
  have hl : Backed (learnOpt s2' rew) := learnOpt_backed rew (takeF0_backed hb h0)
  refine ⟨?_, ?_, ?_, hpt hl.pt⟩
  · intro κ; rw [hR, hlk]
    have e : (learnOpt s2' rew).lk = s.lk := by cases rew <;> exact hlk1
    have e' : R (learnOpt s2' rew) κ = R s2' κ := by cases rew <;> rfl
    rw [e, e']; have := hR1 κ; have := hb.lk κ; omega
  · intro g φ; rw [hF, hhf]
    have e : (learnOpt s2' rew).hf = s2'.hf := by cases rew <;> rfl
    have e' : F (learnOpt s2' rew) g φ = F s2' g φ := by cases rew <;> rfl
    rw [e, e']; have := hF1 g φ; have := hhf1 g φ; have := hb.hf g φ; omega
  · intro v; rw [hH]
    have e2 : heldOf (newF (learnOpt s2' rew) r.farm ft.1 ft.2 r.kind r.pn p).1 v = heldOf s v := by
      simp only [heldOf, hwl]
      have : (learnOpt s2' rew).wl = s.wl := by cases rew <;> exact hwl1
      rw [this]
    have e' : H (learnOpt s2' rew) v = H s2' v := by cases rew <;> rfl
    rw [e2, e']; have := hH1 v; have := hb.hw v; omega

theorem mergeLp_backed {s s' : St} {l : List (Nat × Nat)} {t : LkTok} {o : Out}
    (hb : Backed s) (h : mergeLp s l t = some (s', o)) : Backed s' := by
  simp only [mergeLp, Option.bind_eq_bind, Option.bind_eq_some_iff, req_eq_some,
    Option.pure_def, Option.some.injEq, Prod.mk.injEq] at h
  obtain ⟨_, _, ⟨s1, sx⟩, h1, rfl, _⟩ := h
  exact newW_backed _ _ _ _ (learn_backed t (takeWs_backed hb h1))

theorem mergeFarmCore_backed {s s' : St} {farm : Nat} {l : List (Nat × Nat)} {mf : Nat × Nat}
    {t : LkTok} {stray : List LkTok} {o : Out}
    (hb : Backed s) (h : mergeFarmCore s farm l mf t stray = some (s', o)) : Backed s' := by
  simp only [mergeFarmCore, Option.bind_eq_bind, Option.bind_eq_some_iff, req_eq_some,
    Option.pure_def] at h
  obtain ⟨_, _, ⟨f0, x0⟩, _, r0, _, ⟨s1, sp⟩, h1, h⟩ := h
  have hb1 := takeFs_backed hb h1
  dsimp only at h
  split at h
  · simp only [Option.some.injEq, Prod.mk.injEq] at h
    obtain ⟨rfl, _⟩ := h
    apply addStray_backed
    exact newF_locked_backed r0.farm mf.1 mf.2 t.k t.amt (learn_backed t hb1)
  · simp only [Option.some.injEq, Prod.mk.injEq] at h
    obtain ⟨rfl, _⟩ := h
    apply addStray_backed
    exact newW_newF_backed sp t.k t.amt r0.farm mf.1 mf.2 (learn_backed t hb1)

theorem mergeFarm_backed {s s' : St} {farm : Nat} {l : List (Nat × Nat)} {mf : Nat × Nat}
    {t : LkTok} {rew : Option LkTok} {stray : List LkTok} {o : Out}
    (hb : Backed s) (h : mergeFarm s farm l mf t rew stray = some (s', o)) : Backed s' := by
  simp only [mergeFarm, Option.bind_eq_bind, Option.bind_eq_some_iff, Option.pure_def,
    Option.some.injEq, Prod.mk.injEq] at h
  obtain ⟨⟨s1, o1⟩, h1, rfl, _⟩ := h
  exact mergeFarmCore_backed (learnOpt_backed rew hb) h1

theorem incLp_backed {s s' : St} {w x : Nat} {t : LkTok} {o : Out}
    (hb : Backed s) (h : incLp s w x t = some (s', o)) : Backed s' := by
  simp only [incLp, Option.bind_eq_bind, Option.bind_eq_some_iff,
    Option.pure_def, Option.some.injEq, Prod.mk.injEq] at h
  obtain ⟨⟨s1, r, p⟩, h1, rfl, _⟩ := h
  exact newW_backed _ _ _ _ (learn_backed t (takeW_backed hb h1))

theorem incFarm_backed {s s' : St} {f x : Nat} {t : LkTok} {o : Out}
    (hb : Backed s) (h : incFarm s f x t = some (s', o)) : Backed s' := by
  simp only [incFarm, Option.bind_eq_bind, Option.bind_eq_some_iff, Option.pure_def] at h
  obtain ⟨⟨s1, tk⟩, h1, h⟩ := h
  have hb1 := takeF_backed hb h1
  dsimp only at h
  split at h
  · simp only [Option.some.injEq, Prod.mk.injEq] at h
    obtain ⟨rfl, _⟩ := h
    exact newF_locked_backed tk.r.farm tk.r.fn x t.k t.amt (learn_backed t hb1)
  · simp only [Option.some.injEq, Prod.mk.injEq] at h
    obtain ⟨rfl, _⟩ := h
    exact newW_newF_backed tk.p t.k t.amt tk.r.farm tk.r.fn x (learn_backed t hb1)

/-- one transaction preserves the backing invariant, whatever the callees answer -/
theorem step_backed {s s' : St} {op : Op} {o : Out} (hb : Backed s)
    (h : step s op = some (s', o)) : Backed s' := by
  cases op with
  | lock t =>
    simp only [step, Option.some.injEq, Prod.mk.injEq] at h
    obtain ⟨rfl, _⟩ := h; exact learn_backed t hb
  | advance e =>
    simp only [step, Option.some.injEq, Prod.mk.injEq] at h
    obtain ⟨rfl, _⟩ := h; exact Backed.congr (s := s) rfl rfl rfl rfl hb
  | noop =>
    simp only [step, Option.some.injEq, Prod.mk.injEq] at h
    obtain ⟨rfl, _⟩ := h; exact hb
  | addLiq k la oa merge lp ul uo mk => exact addLiq_backed hb h
  | removeLiq w x rb ro => exact removeLiq_backed hb h
  | enterL farm k a merge ft rew m stray => exact enterL_backed hb h
  | enterW farm w a merge ft rew m stray => exact enterW_backed hb h
  | exitFarm farm f x farming rew => exact exitFarm_backed (farm := farm) hb h
  | claim farm f x ft rew => exact claim_backed (farm := farm) hb h
  | mergeLp l t => exact mergeLp_backed hb h
  | mergeFarm farm l mf t rew stray => exact mergeFarm_backed (farm := farm) hb h
  | incLp w x t => exact incLp_backed hb h
  | incFarm f x t => exact incFarm_backed hb h

theorem run_backed {s : St} (ops : List Op) (hb : Backed s) : Backed (run s ops) := by
  induction ops generalizing s with
  | nil => exact hb
  | cons op ops ih =>
    simp only [run, List.foldl_cons]
    cases h : step s op with
    | none => exact ih hb
    | some r => obtain ⟨s', o⟩ := r; exact ih (step_backed hb h)

end Mx.ProxyDex
