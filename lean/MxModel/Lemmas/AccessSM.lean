/-
  Helper lemmas about the access-control state machines of Core/Access.lean
  (permission bit-set, pausable, sc-whitelist, permissions hub).  Core Lean only.
-/
import MxModel.Core.Access

namespace Mx.Access

theorem setAt_same {α} (f : Addr → α) (a : Addr) (v : α) : setAt f a v a = v := by simp [setAt]
theorem setAt_other {α} (f : Addr → α) (a x : Addr) (v : α) (h : x ≠ a) : setAt f a v x = f x := by
  simp [setAt, h]

-- ---------------- permissions ------------------------------------------------------------

/-- what a successful permission operation proves about its caller -/
theorem PermSt.step_authority {s s' : PermSt} {o : PermOp} (h : s.step o = some s') :
    s.holds o.caller Perm.OWNER = true ∨ o.caller = s.scOwner := by
  cases o <;> simp only [PermSt.step] at h <;> split at h <;> simp_all [PermOp.caller]

/-- the blockchain-level owner never changes -/
theorem PermSt.step_scOwner {s s' : PermSt} {o : PermOp} (h : s.step o = some s') : s'.scOwner = s.scOwner := by
  cases o <;> simp only [PermSt.step] at h <;> split at h <;> simp_all <;> (subst h; rfl)

/-- a failed operation leaves the state as it was (`run` skips it) -/
theorem PermSt.run_cons (s : PermSt) (o : PermOp) (ops : List PermOp) :
    s.run (o :: ops) = (match s.step o with | some s' => s' | none => s).run ops := rfl

/-- add/remove of ADMIN or PAUSE never touches anybody's OWNER bit -/
theorem PermSt.step_owner_bit {s s' : PermSt} {o : PermOp} (h : s.step o = some s')
    (hno : ∀ c p, o ≠ .updateOwnerOrAdmin c p) (x : Addr) : (s'.perms x).owner = (s.perms x).owner := by
  cases o with
  | updateOwnerOrAdmin c p => exact absurd rfl (hno c p)
  | addAdmin c a | removeAdmin c a | addPause c a | removePause c a =>
    simp only [PermSt.step] at h
    split at h
    · cases h
      by_cases hx : x = a
      · subst hx; simp [setAt, Perm.union, Perm.diff, Perm.ADMIN, Perm.PAUSE]
      · simp [setAt, hx]
    · cases h

theorem PermSt.removeAdmin_effective {s s' : PermSt} {c a : Addr} (h : s.step (.removeAdmin c a) = some s') :
    (s'.perms a).admin = false := by
  simp only [PermSt.step] at h
  split at h
  · cases h; simp [setAt, Perm.diff, Perm.ADMIN]
  · cases h

theorem PermSt.removePause_effective {s s' : PermSt} {c a : Addr} (h : s.step (.removePause c a) = some s') :
    (s'.perms a).pause = false := by
  simp only [PermSt.step] at h
  split at h
  · cases h; simp [setAt, Perm.diff, Perm.PAUSE]
  · cases h

/-- a history whose callers all lack the OWNER permission and are not the contract owner
    changes nothing — whatever they try, in whatever order -/
theorem PermSt.run_unauthorised (s : PermSt) (ops : List PermOp)
    (h : ∀ o ∈ ops, s.holds o.caller Perm.OWNER = false ∧ o.caller ≠ s.scOwner) : s.run ops = s := by
  induction ops with
  | nil => rfl
  | cons o ops ih =>
    have ho := h o (List.mem_cons_self ..)
    have hs : s.step o = none := by
      cases hst : s.step o with
      | none => rfl
      | some s' =>
        rcases PermSt.step_authority hst with h1 | h1
        · rw [ho.1] at h1; cases h1
        · exact absurd h1 ho.2
    rw [PermSt.run_cons, hs]
    exact ih (fun o' ho' => h o' (List.mem_cons_of_mem _ ho'))

-- ---------------- pausable ---------------------------------------------------------------

theorem PauseSt.run_cons (s : PauseSt) (o : PauseOp) (ops : List PauseOp) :
    s.run (o :: ops) = (match s.step o with | some s' => s' | none => s).run ops := rfl

/-- the kill switch moves only for a caller holding PAUSE (pause/resume) or OWNER (no-swaps) -/
theorem PauseSt.step_state {s s' : PauseSt} {o : PauseOp} (h : s.step o = some s') (hne : s'.state ≠ s.state) :
    (∃ c, (o = .pause c ∨ o = .resume c) ∧ s.perm.holds c Perm.PAUSE = true) ∨
    (∃ c, o = .setActiveNoSwaps c ∧ s.perm.holds c Perm.OWNER = true) := by
  cases o with
  | pause c =>
    simp only [PauseSt.step] at h
    split at h
    · exact Or.inl ⟨c, Or.inl rfl, by assumption⟩
    · cases h
  | resume c =>
    simp only [PauseSt.step] at h
    split at h
    · exact Or.inl ⟨c, Or.inr rfl, by assumption⟩
    · cases h
  | setActiveNoSwaps c =>
    simp only [PauseSt.step] at h
    split at h
    · exact Or.inr ⟨c, rfl, by assumption⟩
    · cases h
  | perm o =>
    simp only [PauseSt.step, Option.map_eq_some_iff] at h
    obtain ⟨p, _, hp⟩ := h
    subst hp
    exact absurd rfl hne

-- ---------------- whitelist --------------------------------------------------------------

theorem WlSt.run_cons (s : WlSt) (o : WlOp) (ops : List WlOp) :
    s.run (o :: ops) = (match s.step o with | some s' => s' | none => s).run ops := rfl

theorem WlSt.step_owner {s s' : WlSt} {o : WlOp} (h : s.step o = some s') :
    (∃ a, o = .add s.scOwner a ∨ o = .remove s.scOwner a) ∧ s'.scOwner = s.scOwner := by
  cases o with
  | add c a =>
    simp only [WlSt.step] at h
    split at h
    · rename_i hc; cases h; exact ⟨⟨a, Or.inl (by rw [hc.1])⟩, rfl⟩
    · cases h
  | remove c a =>
    simp only [WlSt.step] at h
    split at h
    · rename_i hc; cases h; exact ⟨⟨a, Or.inr (by rw [hc.1])⟩, rfl⟩
    · cases h

theorem WlSt.remove_effective {s s' : WlSt} {c a : Addr} (h : s.step (.remove c a) = some s') : a ∉ s'.members := by
  simp only [WlSt.step] at h
  split at h
  · cases h; simp [List.mem_filter]
  · cases h

theorem WlSt.step_nodup {s s' : WlSt} {o : WlOp} (h : s.step o = some s') (hn : s.members.Nodup) : s'.members.Nodup := by
  cases o with
  | add c a =>
    simp only [WlSt.step] at h
    split at h
    · rename_i hc; cases h; exact List.nodup_cons.mpr ⟨hc.2, hn⟩
    · cases h
  | remove c a =>
    simp only [WlSt.step] at h
    split at h
    · cases h; exact hn.filter _
    · cases h

/-- membership after any history: it was there at the start, or the owner added it -/
theorem WlSt.run_mem (s : WlSt) (ops : List WlOp) (a : Addr) (h : a ∈ (s.run ops).members) :
    a ∈ s.members ∨ WlOp.add s.scOwner a ∈ ops := by
  induction ops generalizing s with
  | nil => exact Or.inl h
  | cons o ops ih =>
    rw [WlSt.run_cons] at h
    cases hst : s.step o with
    | none =>
      rw [hst] at h
      rcases ih s h with h1 | h1
      · exact Or.inl h1
      · exact Or.inr (List.mem_cons_of_mem _ h1)
    | some s' =>
      rw [hst] at h
      have hown := (WlSt.step_owner hst).2
      rcases ih s' h with h1 | h1
      · cases o with
        | add c b =>
          simp only [WlSt.step] at hst
          split at hst
          · rename_i hc
            cases hst
            rcases List.mem_cons.mp h1 with h2 | h2
            · subst h2; exact Or.inr (by rw [hc.1]; exact List.mem_cons_self ..)
            · exact Or.inl h2
          · cases hst
        | remove c b =>
          simp only [WlSt.step] at hst
          split at hst
          · cases hst; exact Or.inl (List.mem_filter.mp h1).1
          · cases hst
      · rw [hown] at h1; exact Or.inr (List.mem_cons_of_mem _ h1)

-- ---------------- permissions hub --------------------------------------------------------

theorem HubSt.run_cons (s : HubSt) (o : HubOp) (ops : List HubOp) :
    s.run (o :: ops) = (match s.step o with | some s' => s' | none => s).run ops := rfl

def HubOp.caller : HubOp → Addr
  | .whitelist c _ | .removeWhitelist c _ | .blacklist c _ | .removeBlacklist c _ => c

theorem HubSt.step_scOwner {s s' : HubSt} {o : HubOp} (h : s.step o = some s') : s'.scOwner = s.scOwner := by
  cases o <;> simp only [HubSt.step] at h <;> split at h <;> simp_all <;> (subst h; rfl)

/-- nobody but `u` changes `u`'s whitelist -/
theorem HubSt.step_wl_other {s s' : HubSt} {o : HubOp} (h : s.step o = some s') (u : Addr) (hu : o.caller ≠ u) :
    s'.wl u = s.wl u := by
  cases o with
  | whitelist c a =>
    simp only [HubSt.step] at h
    split at h
    · cases h; exact setAt_other _ _ _ _ (fun e => hu (by simp [HubOp.caller, e]))
    · cases h
  | removeWhitelist c a =>
    simp only [HubSt.step] at h
    split at h
    · cases h; exact setAt_other _ _ _ _ (fun e => hu (by simp [HubOp.caller, e]))
    · cases h
  | blacklist c a =>
    simp only [HubSt.step] at h
    split at h
    · cases h; rfl
    · cases h
  | removeBlacklist c a =>
    simp only [HubSt.step] at h
    split at h
    · cases h; rfl
    · cases h

/-- the blacklist changes only for the hub owner -/
theorem HubSt.step_bl {s s' : HubSt} {o : HubOp} (h : s.step o = some s') (hne : s'.bl ≠ s.bl) :
    o.caller = s.scOwner := by
  cases o with
  | whitelist c a =>
    simp only [HubSt.step] at h
    split at h
    · cases h; exact absurd rfl hne
    · cases h
  | removeWhitelist c a =>
    simp only [HubSt.step] at h
    split at h
    · cases h; exact absurd rfl hne
    · cases h
  | blacklist c a =>
    simp only [HubSt.step] at h
    split at h
    · assumption
    · cases h
  | removeBlacklist c a =>
    simp only [HubSt.step] at h
    split at h
    · assumption
    · cases h

theorem HubSt.revoke_effective {s s' : HubSt} {u a : Addr} (h : s.step (.removeWhitelist u a) = some s') :
    s'.isWhitelisted u a = false := by
  simp only [HubSt.step] at h
  split at h
  · cases h
    simp [HubSt.isWhitelisted, setAt, List.mem_filter]
  · cases h

theorem HubSt.blacklist_effective {s s' : HubSt} {c a : Addr} (h : s.step (.blacklist c a) = some s') (u : Addr) :
    s'.isWhitelisted u a = false := by
  simp only [HubSt.step] at h
  split at h
  · cases h
    by_cases hm : a ∈ s.bl <;> simp [HubSt.isWhitelisted, hm]
  · cases h

/-- after any history: an address on `u`'s whitelist was there at the start or was put there
    by `u` in person -/
theorem HubSt.run_wl (s : HubSt) (ops : List HubOp) (u a : Addr) (h : a ∈ (s.run ops).wl u) :
    a ∈ s.wl u ∨ HubOp.whitelist u a ∈ ops := by
  induction ops generalizing s with
  | nil => exact Or.inl h
  | cons o ops ih =>
    rw [HubSt.run_cons] at h
    cases hst : s.step o with
    | none =>
      rw [hst] at h
      rcases ih s h with h1 | h1
      · exact Or.inl h1
      · exact Or.inr (List.mem_cons_of_mem _ h1)
    | some s' =>
      rw [hst] at h
      rcases ih s' h with h1 | h1
      · by_cases hc : o.caller = u
        · cases o with
          | whitelist c b =>
            simp only [HubSt.step] at hst
            split at hst
            · cases hst
              simp only [HubOp.caller] at hc
              subst hc
              have h1 : a ∈ setAt s.wl c (b :: s.wl c) c := h1
              rw [setAt_same] at h1
              rcases List.mem_cons.mp h1 with h2 | h2
              · subst h2; exact Or.inr (List.mem_cons_self ..)
              · exact Or.inl h2
            · cases hst
          | removeWhitelist c b =>
            simp only [HubSt.step] at hst
            split at hst
            · cases hst
              simp only [HubOp.caller] at hc
              subst hc
              have h1 : a ∈ setAt s.wl c ((s.wl c).filter (· ≠ b)) c := h1
              rw [setAt_same] at h1
              exact Or.inl (List.mem_filter.mp h1).1
            · cases hst
          | blacklist c b =>
            simp only [HubSt.step] at hst
            split at hst
            · cases hst; exact Or.inl h1
            · cases hst
          | removeBlacklist c b =>
            simp only [HubSt.step] at hst
            split at hst
            · cases hst; exact Or.inl h1
            · cases hst
        · rw [HubSt.step_wl_other hst u hc] at h1; exact Or.inl h1
      · exact Or.inr (List.mem_cons_of_mem _ h1)

/-- after any history: a blacklisted address was blacklisted at the start or by the hub owner -/
theorem HubSt.run_bl (s : HubSt) (ops : List HubOp) (a : Addr) (h : a ∈ (s.run ops).bl) :
    a ∈ s.bl ∨ HubOp.blacklist s.scOwner a ∈ ops := by
  induction ops generalizing s with
  | nil => exact Or.inl h
  | cons o ops ih =>
    rw [HubSt.run_cons] at h
    cases hst : s.step o with
    | none =>
      rw [hst] at h
      rcases ih s h with h1 | h1
      · exact Or.inl h1
      · exact Or.inr (List.mem_cons_of_mem _ h1)
    | some s' =>
      rw [hst] at h
      have hown := HubSt.step_scOwner hst
      rcases ih s' h with h1 | h1
      · cases o with
        | whitelist c b =>
          simp only [HubSt.step] at hst
          split at hst
          · cases hst; exact Or.inl h1
          · cases hst
        | removeWhitelist c b =>
          simp only [HubSt.step] at hst
          split at hst
          · cases hst; exact Or.inl h1
          · cases hst
        | blacklist c b =>
          simp only [HubSt.step] at hst
          split at hst
          · rename_i hc
            cases hst
            by_cases hm : b ∈ s.bl
            · simp only [hm, if_true] at h1; exact Or.inl h1
            · simp only [hm, if_false] at h1
              rcases List.mem_cons.mp h1 with h2 | h2
              · subst h2; exact Or.inr (by rw [hc]; exact List.mem_cons_self ..)
              · exact Or.inl h2
          · cases hst
        | removeBlacklist c b =>
          simp only [HubSt.step] at hst
          split at hst
          · cases hst; exact Or.inl (List.mem_filter.mp h1).1
          · cases hst
      · rw [hown] at h1; exact Or.inr (List.mem_cons_of_mem _ h1)

end Mx.Access
