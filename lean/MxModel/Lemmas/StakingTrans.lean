/-
  Every endpoint of the farm-staking model characterised on the position view (`PTrans`, see
  Lemmas/StakingPos.lean), hence: every transaction and every history keeps the position-token
  invariant `PosInv` (C07: supply = Σ outstanding positions, owner totals exact).
  Lemmas/StakingPot.lean derives the potential-function bound (C06 / C05) from the same `PTrans`.
-/
import MxModel.Lemmas.StakingPos

namespace Mx.Staking

open Mx.Weekly

/-! ### stake -/

theorem stakeCore_pv {s s' : St} {c orig amount : Nat} {v : Bool} {adds : List Pay} {o : Out}
    (h : stakeCore s c orig amount v adds = some (s', o)) :
    ∃ inc base hold0 ut1 merged,
      s.supply * inc ≤ s.dsc * base ∧
      debit s.hold c adds = some hold0 ∧
      checkAndUpdate s.md orig s.userTotal adds = some ut1 ∧
      mergeParts s.md ⟨s.rps + inc, 0, amount, orig⟩ adds = some merged ∧
      pv s' = ((pv s).gen inc base).remint c hold0 merged (upd ut1 orig (ut1 orig + amount))
        (s.supply + amount) 0 := by
  cases v <;>
  · simp only [stakeCore, Option.bind_eq_bind, Option.bind_eq_some_iff, req_eq_some,
      sub?_eq_some, Option.pure_def, Option.some.injEq, Prod.mk.injEq] at h
    obtain ⟨_, _, hold0, hd, r, _, res1, _, _, _, ut1, hk, ⟨s3, c3⟩, hg, merged, hm, w2, _,
      bal1, _, rfl, _⟩ := h
    obtain ⟨_, _, rfl, rfl⟩ := generate_spec hg
    exact ⟨_, _, hold0, ut1, merged, rpsInc_mul_le s.dsc (genTot s - genCut s (genTot s)) s.supply,
      hd, hk, hm, rfl⟩

theorem stakeCore_ptrans {s s' : St} {c orig amount : Nat} {v : Bool} {adds : List Pay} {o : Out}
    (hc : c ∈ s.accts) (h : stakeCore s c orig amount v adds = some (s', o)) :
    PTrans (pv s) (pv s') := by
  obtain ⟨inc, base, hold0, ut1, merged, hib, hd, hk, hm, e⟩ := stakeCore_pv h
  obtain ⟨m1, m2⟩ := mergeParts_amount hm
  have m3 := mergeParts_pot s.md (s.rps + inc) adds _ merged hm
  simp only [Nat.sub_self, Nat.mul_zero, Nat.zero_add] at m1 m2 m3
  refine ⟨inc, base, hib, Or.inr (Or.inl ⟨c, orig, adds, hold0, ut1, _, merged, _, 0, List.mem_dedup.mpr hc, hd, hk, m2, ?_, ?_, ?_, e⟩)⟩
  · show s.supply + amount + payTot adds = s.supply + merged.amount
    omega
  · intro o
    by_cases ho : o = orig
    · subst ho; simp only [upd_same, if_true]; omega
    · simp only [upd_other _ _ ho, if_neg ho]
  · show merged.amount * (s.rps + inc - merged.rps) + s.dsc * 0 ≤ payW (potW s.md (s.rps + inc)) adds
    simpa using m3

/-! ### claim -/

theorem claimCore_pv {s s' : St} {c orig : Nat} {pays : List Pay} {nv : Option Nat} {o : Out}
    (h : claimCore s c orig pays nv = some (s', o)) :
    ∃ inc base p first tok hold0 ut1 merged ut2 supply2,
      s.supply * inc ≤ s.dsc * base ∧ pays.head? = some p ∧ posOf s.md p.1 = some first ∧
      first.intoPart p.2 = some tok ∧
      debit s.hold c pays = some hold0 ∧
      checkAndUpdate s.md orig s.userTotal pays = some ut1 ∧
      mergeParts s.md ⟨s.rps + inc, tok.compounded, tok.amount, orig⟩ pays.tail = some merged ∧
      newSupply s.supply merged.amount nv = some supply2 ∧
      newUserTotal ut1 orig merged.amount nv = some ut2 ∧
      pv s' = ((pv s).gen inc base).remint c hold0 { merged with amount := nv.getD merged.amount }
        ut2 supply2 (baseAmt (s.rps + inc) s.dsc p.2 tok.rps) := by
  simp only [claimCore, Option.bind_eq_bind, Option.bind_eq_some_iff] at h
  obtain ⟨m, hm, h⟩ := h
  simp only [claimBase, Option.bind_eq_bind, Option.bind_eq_some_iff, req_eq_some,
    Option.pure_def, Option.some.injEq] at hm
  obtain ⟨hold0, hd, _, _, p, hp, first, hf, ⟨s1, c1⟩, hg, tok, ht, r, hr, ut1, hk, merged, hmg, rfl⟩ := hm
  obtain ⟨_, _, rfl, rfl⟩ := generate_spec hg
  simp only [claimFinish, Option.bind_eq_bind, Option.bind_eq_some_iff, req_eq_some,
    sub?_eq_some, Option.pure_def, Option.some.injEq, Prod.mk.injEq] at h
  obtain ⟨res1, _, sup1, hs1, ut2, hu2, _, _, w2, _, bal1, _, rfl, _⟩ := h
  exact ⟨_, _, p, first, tok, hold0, ut1, merged, ut2, sup1,
    rpsInc_mul_le s.dsc (genTot s - genCut s (genTot s)) s.supply, hp, hf, ht, hd, hk, hmg, hs1, hu2, rfl⟩

theorem head_tail {pays : List Pay} {p : Pay} (h : pays.head? = some p) : pays = p :: pays.tail := by
  cases pays with
  | nil => simp at h
  | cons q qs =>
    simp only [List.head?_cons, Option.some.injEq] at h
    subst h; rfl

/-- `claimRewards` in all its forms.  A new farming value (proxy) comes with exactly one payment
    in every endpoint that passes one. -/
theorem claimCore_ptrans {s s' : St} {c orig : Nat} {pays : List Pay} {nv : Option Nat} {o : Out}
    (hc : c ∈ s.accts) (hnv : nv = none ∨ pays.tail = [])
    (h : claimCore s c orig pays nv = some (s', o)) : PTrans (pv s) (pv s') := by
  obtain ⟨inc, base, p, first, tok, hold0, ut1, merged, ut2, supply2, hib, hp, hf, ht, hd, hk, hm,
    hs, hu, e⟩ := claimCore_pv h
  obtain ⟨m1, m2⟩ := mergeParts_amount hm
  have m3 := mergeParts_pot s.md (s.rps + inc) pays.tail _ merged hm
  obtain ⟨t1, _, t3, _⟩ := intoPart_spec ht
  have hpays := head_tail hp
  have hpt : payTot pays = p.2 + payTot pays.tail := by
    conv => lhs; rw [hpays]
    rfl
  have hpw : payW (potW s.md (s.rps + inc)) pays
      = (s.rps + inc - first.rps) * p.2 + payW (potW s.md (s.rps + inc)) pays.tail := by
    conv => lhs; rw [hpays]
    simp only [payW, potW_some hf]
  have hb : s.dsc * baseAmt (s.rps + inc) s.dsc p.2 tok.rps ≤ (s.rps + inc - first.rps) * p.2 := by
    rw [← t1, Nat.mul_comm (s.rps + inc - tok.rps)]
    exact baseAmt_le _ _ _ _
  simp only [Nat.sub_self, Nat.mul_zero, Nat.zero_add] at m1 m2 m3
  rw [t3] at m1
  refine ⟨inc, base, hib, Or.inr (Or.inl ⟨c, orig, pays, hold0, ut1, ut2,
    { merged with amount := nv.getD merged.amount }, supply2, _, List.mem_dedup.mpr hc, hd, hk, m2, ?_, ?_, ?_, e⟩)⟩
  · show supply2 + payTot pays = s.supply + nv.getD merged.amount
    cases nv with
    | none =>
      simp only [newSupply, Option.some.injEq] at hs
      simp only [Option.getD_none]; omega
    | some x =>
      simp only [newSupply, Option.map_eq_some_iff, sub?_eq_some] at hs
      obtain ⟨_, ⟨hle, rfl⟩, rfl⟩ := hs
      simp only [Option.getD_some]; omega
  · intro o'
    show ut2 o' + _ = ut1 o' + if o' = orig then nv.getD merged.amount else 0
    cases nv with
    | none =>
      simp only [newUserTotal, Option.some.injEq] at hu
      subst hu
      simp only [Option.getD_none]
      split <;> omega
    | some x =>
      simp only [newUserTotal, Option.map_eq_some_iff, sub?_eq_some] at hu
      obtain ⟨_, ⟨hle, rfl⟩, rfl⟩ := hu
      simp only [Option.getD_some]
      by_cases ho : o' = orig
      · subst ho; simp only [upd_same, if_true]; omega
      · simp only [upd_other _ _ ho, if_neg ho]
  · show nv.getD merged.amount * (s.rps + inc - merged.rps) + s.dsc * _
      ≤ payW (potW s.md (s.rps + inc)) pays
    rw [hpw]
    rcases hnv with rfl | htl
    · simp only [Option.getD_none]; omega
    · rw [htl] at hm
      simp only [mergeParts, Option.some.injEq] at hm
      subst hm
      simp only [Nat.sub_self, Nat.mul_zero, Nat.zero_add]
      omega

/-! ### compound -/

theorem compound_pv {s s' : St} {c : Nat} {pays : List Pay} {o : Out}
    (h : compound s c pays = some (s', o)) :
    ∃ inc base p first tok hold0 ut1 merged boosted,
      s.supply * inc ≤ s.dsc * base ∧ pays.head? = some p ∧ posOf s.md p.1 = some first ∧
      first.intoPart p.2 = some tok ∧
      debit s.hold c pays = some hold0 ∧
      checkAndUpdate s.md c s.userTotal pays = some ut1 ∧
      mergeParts s.md ⟨s.rps + inc, tok.compounded + (baseAmt (s.rps + inc) s.dsc p.2 tok.rps + boosted),
        tok.amount + (baseAmt (s.rps + inc) s.dsc p.2 tok.rps + boosted), c⟩ pays.tail = some merged ∧
      pv s' = ((pv s).gen inc base).remint c hold0 merged
        (upd ut1 c (ut1 c + (baseAmt (s.rps + inc) s.dsc p.2 tok.rps + boosted)))
        (s.supply + (baseAmt (s.rps + inc) s.dsc p.2 tok.rps + boosted))
        (baseAmt (s.rps + inc) s.dsc p.2 tok.rps) := by
  simp only [compound, Option.bind_eq_bind, Option.bind_eq_some_iff, req_eq_some,
    sub?_eq_some, Option.pure_def, Option.some.injEq, Prod.mk.injEq] at h
  obtain ⟨hold0, hd, _, _, p, hp, first, hf, ⟨s1, c1⟩, hg, tok, ht, r, hr, res1, _, ut1, hk,
    merged, hm, rfl, _⟩ := h
  obtain ⟨_, _, rfl, rfl⟩ := generate_spec hg
  exact ⟨_, _, p, first, tok, hold0, ut1, merged, r.2.2,
    rpsInc_mul_le s.dsc (genTot s - genCut s (genTot s)) s.supply, hp, hf, ht, hd, hk, hm, rfl⟩

theorem compound_ptrans {s s' : St} {c : Nat} {pays : List Pay} {o : Out}
    (hc : c ∈ s.accts) (h : compound s c pays = some (s', o)) : PTrans (pv s) (pv s') := by
  obtain ⟨inc, base, p, first, tok, hold0, ut1, merged, boosted, hib, hp, hf, ht, hd, hk, hm, e⟩ :=
    compound_pv h
  obtain ⟨m1, m2⟩ := mergeParts_amount hm
  have m3 := mergeParts_pot s.md (s.rps + inc) pays.tail _ merged hm
  obtain ⟨t1, _, t3, _⟩ := intoPart_spec ht
  have hpays := head_tail hp
  have hpt : payTot pays = p.2 + payTot pays.tail := by
    conv => lhs; rw [hpays]
    rfl
  have hpw : payW (potW s.md (s.rps + inc)) pays
      = (s.rps + inc - first.rps) * p.2 + payW (potW s.md (s.rps + inc)) pays.tail := by
    conv => lhs; rw [hpays]
    simp only [payW, potW_some hf]
  have hb : s.dsc * baseAmt (s.rps + inc) s.dsc p.2 tok.rps ≤ (s.rps + inc - first.rps) * p.2 := by
    rw [← t1, Nat.mul_comm (s.rps + inc - tok.rps)]
    exact baseAmt_le _ _ _ _
  simp only [Nat.sub_self, Nat.mul_zero, Nat.zero_add] at m1 m2 m3
  rw [t3] at m1
  generalize baseAmt (s.rps + inc) s.dsc p.2 tok.rps = B at *
  refine ⟨inc, base, hib, Or.inr (Or.inl ⟨c, c, pays, hold0, ut1, _, merged, _, _, List.mem_dedup.mpr hc, hd, hk, m2, ?_, ?_, ?_, e⟩)⟩
  · show s.supply + (B + boosted) + payTot pays = s.supply + merged.amount
    omega
  · intro o'
    by_cases ho : o' = c
    · subst ho; simp only [upd_same, if_true]; omega
    · simp only [upd_other _ _ ho, if_neg ho]
  · show merged.amount * (s.rps + inc - merged.rps) + s.dsc * B ≤ payW (potW s.md (s.rps + inc)) pays
    rw [hpw]; omega

/-! ### unstake -/

theorem unstakeCore_pv {s s' : St} {c orig : Nat} {pay : Pay} {x : Option Nat} {o : Out}
    (h : unstakeCore s c orig pay x = some (s', o)) :
    ∃ inc base hold0 attrs tok e,
      s.supply * inc ≤ s.dsc * base ∧
      debit s.hold c [pay] = some hold0 ∧ posOf s.md pay.1 = some attrs ∧
      attrs.intoPart pay.2 = some tok ∧ tok.amount ≤ s.supply ∧
      pv s' = ((pv s).gen inc base).burn c hold0 e (x.getD tok.amount)
        (decreaseUT s.userTotal attrs.owner pay.2) (s.supply - tok.amount)
        (baseAmt (s.rps + inc) s.dsc pay.2 tok.rps) := by
  cases x <;>
  · simp only [unstakeCore, Option.bind_eq_bind, Option.bind_eq_some_iff, req_eq_some,
      sub?_eq_some, Option.pure_def, Option.some.injEq, Prod.mk.injEq] at h
    obtain ⟨_, _, hold0, hd, _, _, attrs, ha, ⟨s1, c1⟩, hg, tok, ht, r, _, res1, _,
      sup1, ⟨hsup, rfl⟩, w2, _, bal1, _, rfl, _⟩ := h
    obtain ⟨_, _, rfl, rfl⟩ := generate_spec hg
    exact ⟨_, _, hold0, attrs, tok, _,
      rpsInc_mul_le s.dsc (genTot s - genCut s (genTot s)) s.supply, hd, ha, ht, hsup, rfl⟩

theorem unstakeCore_ptrans {s s' : St} {c orig : Nat} {pay : Pay} {x : Option Nat} {o : Out}
    (hc : c ∈ s.accts) (h : unstakeCore s c orig pay x = some (s', o)) : PTrans (pv s) (pv s') := by
  obtain ⟨inc, base, hold0, attrs, tok, e, hib, hd, ha, ht, hle, e'⟩ := unstakeCore_pv h
  obtain ⟨t1, _, t3, _⟩ := intoPart_spec ht
  have hb := baseAmt_le (s.rps + inc) s.dsc pay.2 tok.rps
  rw [t1] at hb e'
  refine ⟨inc, base, hib, Or.inr (Or.inr (Or.inl ⟨c, pay, hold0, attrs, e, _, _, _, List.mem_dedup.mpr hc, hd, ha, ?_, hb, e'⟩))⟩
  show s.supply - tok.amount + pay.2 = s.supply
  omega

/-! ### merge, unbond, transfer -/

theorem mergeTokens_pv {s s' : St} {c : Nat} {pays : List Pay} {o : Out}
    (h : mergeTokens s c pays = some (s', o)) :
    ∃ p first part hold0 ut1 merged,
      pays.head? = some p ∧ posOf s.md p.1 = some first ∧ first.intoPart p.2 = some part ∧
      debit s.hold c pays = some hold0 ∧
      checkAndUpdate s.md c s.userTotal pays = some ut1 ∧
      mergeParts s.md part pays.tail = some merged ∧
      pv s' = ((pv s).gen 0 0).remint c hold0 { merged with owner := c } ut1 s.supply 0 := by
  simp only [mergeTokens, Option.bind_eq_bind, Option.bind_eq_some_iff, req_eq_some,
    sub?_eq_some, Option.pure_def, Option.some.injEq, Prod.mk.injEq] at h
  obtain ⟨hold0, hd, _, _, r, _, res1, _, p, hp, ut1, hk, first, hf, part, hpt, merged, hm,
    bal1, _, rfl, _⟩ := h
  exact ⟨p, first, part, hold0, ut1, merged, hp, hf, hpt, hd, hk, hm, rfl⟩

theorem mergeTokens_ptrans {s s' : St} {c : Nat} {pays : List Pay} {o : Out}
    (hc : c ∈ s.accts) (h : mergeTokens s c pays = some (s', o)) : PTrans (pv s) (pv s') := by
  obtain ⟨p, first, part, hold0, ut1, merged, hp, hf, ht, hd, hk, hm, e⟩ := mergeTokens_pv h
  obtain ⟨m1, _⟩ := mergeParts_amount hm
  have m3 := mergeParts_pot s.md s.rps pays.tail _ merged hm
  obtain ⟨t1, _, t3, _⟩ := intoPart_spec ht
  have hpays := head_tail hp
  have hpt : payTot pays = p.2 + payTot pays.tail := by
    conv => lhs; rw [hpays]
    rfl
  have hpw : payW (potW s.md s.rps) pays
      = (s.rps - first.rps) * p.2 + payW (potW s.md s.rps) pays.tail := by
    conv => lhs; rw [hpays]
    simp only [payW, potW_some hf]
  rw [t1, t3, Nat.mul_comm p.2] at m3
  rw [t3] at m1
  refine ⟨0, 0, by simp, Or.inr (Or.inl ⟨c, c, pays, hold0, ut1, ut1, { merged with owner := c },
    s.supply, 0, List.mem_dedup.mpr hc, hd, hk, rfl, ?_, ?_, ?_, e⟩)⟩
  · show s.supply + payTot pays = s.supply + merged.amount
    omega
  · intro o'
    show ut1 o' + _ = ut1 o' + if o' = c then merged.amount else 0
    split <;> omega
  · show merged.amount * (s.rps + 0 - merged.rps) + s.dsc * 0 ≤ payW (potW s.md (s.rps + 0)) pays
    simp only [Nat.add_zero, Nat.mul_zero]
    rw [hpw]; exact m3

theorem unbondFarm_ptrans {s s' : St} {c : Nat} {pay : Pay} {o : Out}
    (hc : c ∈ s.accts) (h : unbondFarm s c pay = some (s', o)) : PTrans (pv s) (pv s') := by
  simp only [unbondFarm, Option.bind_eq_bind, Option.bind_eq_some_iff, req_eq_some,
    sub?_eq_some, Option.pure_def, Option.some.injEq, Prod.mk.injEq] at h
  obtain ⟨hold0, hd, _, _, unlock, hu, _, _, bal1, _, rfl, _⟩ := h
  refine ⟨0, 0, by simp, Or.inr (Or.inr (Or.inr (Or.inl ⟨c, [pay], hold0, List.mem_dedup.mpr hc, hd, ?_, rfl⟩)))⟩
  intro p hp
  rw [List.mem_singleton.mp hp]
  exact ⟨unlock, hu⟩

theorem transfer_ptrans {s s' : St} {src dst : Nat} {pay : Pay} {o : Out}
    (hs : src ∈ s.accts) (h : transfer s src dst pay = some (s', o)) : PTrans (pv s) (pv s') := by
  simp only [transfer, Option.bind_eq_bind, Option.bind_eq_some_iff, req_eq_some,
    Option.pure_def, Option.some.injEq, Prod.mk.injEq] at h
  obtain ⟨_, hdst, hold0, hd, rfl, _⟩ := h
  exact ⟨0, 0, by simp, Or.inr (Or.inr (Or.inr (Or.inr ⟨src, dst, pay, hold0, List.mem_dedup.mpr hs, List.mem_dedup.mpr hdst, hd, rfl⟩)))⟩

/-! ### endpoints that only settle -/

theorem gen_ptrans (s : St) :
    PTrans (pv s) ((pv s).gen (rpsInc s.dsc (genTot s - genCut s (genTot s)) s.supply)
      (genTot s - genCut s (genTot s))) :=
  ⟨_, _, rpsInc_mul_le s.dsc (genTot s - genCut s (genTot s)) s.supply, Or.inl rfl⟩

theorem claimBoostedRewards_ptrans {s s' : St} {c : Nat} {u : Option Nat} {o : Out}
    (h : claimBoostedRewards s c u = some (s', o)) : PTrans (pv s) (pv s') := by
  simp only [claimBoostedRewards, Option.bind_eq_bind, Option.bind_eq_some_iff, req_eq_some,
    sub?_eq_some, Option.pure_def, Option.some.injEq, Prod.mk.injEq] at h
  obtain ⟨_, _, _, _, _, _, ⟨s1, c1⟩, hg, r, _, res, _, bal1, _, rfl, _⟩ := h
  obtain ⟨_, _, rfl, rfl⟩ := generate_spec hg
  exact gen_ptrans s

theorem withdraw_ptrans {s s' : St} {x : Nat} {o : Out} (h : withdraw s x = some (s', o)) :
    PTrans (pv s) (pv s') := by
  simp only [withdraw, Option.bind_eq_bind, Option.bind_eq_some_iff, req_eq_some,
    sub?_eq_some, Option.pure_def, Option.some.injEq, Prod.mk.injEq] at h
  obtain ⟨⟨s1, c1⟩, hg, rem, _, _, _, cap, _, bal1, _, rfl, _⟩ := h
  obtain ⟨_, _, rfl, rfl⟩ := generate_spec hg
  exact gen_ptrans s

theorem settleThen_ptrans {s s' : St} {f : St → St} {o : Out} (hf : ∀ t, pv (f t) = pv t)
    (h : settleThen s f = some (s', o)) : PTrans (pv s) (pv s') := by
  obtain ⟨_, rfl⟩ := settleThen_eq h
  rw [hf]
  exact gen_ptrans s

/-! ### every transaction -/

theorem stepCore_ptrans {s s' : St} {op : Op} {o : Out} (hc : callerOk s op = true)
    (h : stepCore s op = some (s', o)) : PTrans (pv s) (pv s') := by
  cases op <;> simp only [stepCore] at h <;> simp only [callerOk, Op.caller, decide_eq_true_eq] at hc
  case stake c orig a adds =>
    cases orig <;> simp only [stakeFarm, Option.bind_eq_bind, Option.bind_eq_some_iff] at h
    · exact stakeCore_ptrans hc h
    · obtain ⟨_, _, h⟩ := h; exact stakeCore_ptrans hc h
  case stakeProxy c orig a adds =>
    simp only [stakeProxy, Option.bind_eq_bind, Option.bind_eq_some_iff] at h
    obtain ⟨_, _, h⟩ := h; exact stakeCore_ptrans hc h
  case stakeBehalf c u a adds =>
    simp only [stakeOnBehalf, Option.bind_eq_bind, Option.bind_eq_some_iff] at h
    obtain ⟨_, _, _, _, h⟩ := h; exact stakeCore_ptrans hc h
  case claim c orig p =>
    cases orig <;> simp only [claimRewards, Option.bind_eq_bind, Option.bind_eq_some_iff] at h
    · exact claimCore_ptrans hc (Or.inl rfl) h
    · obtain ⟨_, _, h⟩ := h; exact claimCore_ptrans hc (Or.inl rfl) h
  case claimNew c orig nv p =>
    simp only [claimNewValue, Option.bind_eq_bind, Option.bind_eq_some_iff] at h
    obtain ⟨_, _, h⟩ := h; exact claimCore_ptrans hc (Or.inr rfl) h
  case claimBehalf c ps =>
    simp only [claimOnBehalf, Option.bind_eq_bind, Option.bind_eq_some_iff] at h
    obtain ⟨_, _, _, _, h⟩ := h; exact claimCore_ptrans hc (Or.inl rfl) h
  case compound c ps => exact compound_ptrans hc h
  case unstake c orig p =>
    cases orig <;> simp only [unstakeFarm, Option.bind_eq_bind, Option.bind_eq_some_iff] at h
    · exact unstakeCore_ptrans hc h
    · obtain ⟨_, _, h⟩ := h; exact unstakeCore_ptrans hc h
  case unstakeProxy c orig x p =>
    simp only [unstakeProxy, Option.bind_eq_bind, Option.bind_eq_some_iff] at h
    obtain ⟨_, _, h⟩ := h; exact unstakeCore_ptrans hc h
  case unbond c p => exact unbondFarm_ptrans hc h
  case merge c ps => exact mergeTokens_ptrans hc h
  case claimBoosted c u => exact claimBoostedRewards_ptrans h
  case «calc» q a t =>
    simp only [Option.map_eq_some_iff, Prod.mk.injEq] at h
    obtain ⟨_, _, rfl, _⟩ := h
    exact PTrans.refl _
  case transfer a b p => exact transfer_ptrans hc h
  case setEnergy u a l =>
    simp only [Option.some.injEq, Prod.mk.injEq] at h
    obtain ⟨rfl, _⟩ := h
    exact PTrans.refl _
  case updateEnergy u =>
    simp only [updateEnergy, Option.bind_eq_bind, Option.bind_eq_some_iff,
      Option.pure_def, Option.some.injEq, Prod.mk.injEq] at h
    obtain ⟨g, _, rfl, _⟩ := h
    exact PTrans.refl _
  case topUp x =>
    simp only [topUp, Option.bind_eq_bind, Option.bind_eq_some_iff, req_eq_some,
      Option.pure_def, Option.some.injEq, Prod.mk.injEq] at h
    obtain ⟨_, _, rfl, _⟩ := h
    exact PTrans.refl _
  case withdraw x => exact withdraw_ptrans h
  case setMaxApr x =>
    simp only [setMaxApr, Option.bind_eq_bind, Option.bind_eq_some_iff] at h
    obtain ⟨_, _, h⟩ := h
    exact settleThen_ptrans (f := fun t => { t with maxApr := x }) (fun _ => rfl) h
  case setPerBlock x =>
    simp only [setPerBlock, Option.bind_eq_bind, Option.bind_eq_some_iff] at h
    obtain ⟨_, _, h⟩ := h
    exact settleThen_ptrans (f := fun t => { t with perBlock := x }) (fun _ => rfl) h
  case startProduce =>
    simp only [startProduce, Option.bind_eq_bind, Option.bind_eq_some_iff, req_eq_some,
      Option.pure_def, Option.some.injEq, Prod.mk.injEq] at h
    obtain ⟨_, _, _, _, rfl, _⟩ := h
    exact PTrans.refl _
  case endProduce =>
    exact settleThen_ptrans (f := fun t => { t with produce := false }) (fun _ => rfl) h
  case setMinUnbond e =>
    simp only [setMinUnbond, Option.bind_eq_bind, Option.bind_eq_some_iff, req_eq_some,
      Option.pure_def, Option.some.injEq, Prod.mk.injEq] at h
    obtain ⟨_, _, rfl, _⟩ := h
    exact PTrans.refl _
  case setBoostedPct p =>
    simp only [setBoostedPct, Option.bind_eq_bind, Option.bind_eq_some_iff, req_eq_some] at h
    obtain ⟨_, _, h⟩ := h
    exact settleThen_ptrans (f := fun t => { t with boostedPct := p }) (fun _ => rfl) h
  case setFactors x =>
    simp only [setFactors, Option.bind_eq_bind, Option.bind_eq_some_iff, req_eq_some,
      Option.pure_def, Option.some.injEq, Prod.mk.injEq] at h
    obtain ⟨_, _, _, _, c, _, rfl, _⟩ := h
    exact PTrans.refl _
  case collectUndistributed =>
    simp only [collectUndistributed, Option.bind_eq_bind, Option.bind_eq_some_iff, req_eq_some] at h
    obtain ⟨_, _, h⟩ := h
    split at h <;> simp only [Option.pure_def, Option.some.injEq, Prod.mk.injEq] at h <;>
      obtain ⟨rfl, _⟩ := h <;> exact PTrans.refl _
  case pause =>
    simp only [Option.some.injEq, Prod.mk.injEq] at h
    obtain ⟨rfl, _⟩ := h
    exact PTrans.refl _
  case resume =>
    simp only [Option.some.injEq, Prod.mk.injEq] at h
    obtain ⟨rfl, _⟩ := h
    exact PTrans.refl _
  case hubWhitelist u a =>
    simp only [Option.bind_eq_bind, Option.bind_eq_some_iff, req_eq_some,
      Option.pure_def, Option.some.injEq, Prod.mk.injEq] at h
    obtain ⟨_, _, rfl, _⟩ := h
    exact PTrans.refl _
  case hubRemove u a =>
    simp only [Option.bind_eq_bind, Option.bind_eq_some_iff, req_eq_some,
      Option.pure_def, Option.some.injEq, Prod.mk.injEq] at h
    obtain ⟨_, _, rfl, _⟩ := h
    exact PTrans.refl _
  case advance b e =>
    simp only [Option.some.injEq, Prod.mk.injEq] at h
    obtain ⟨rfl, _⟩ := h
    exact PTrans.refl _

theorem step_ptrans {s s' : St} {op : Op} {o : Out} (h : step s op = some (s', o)) :
    PTrans (pv s) (pv s') := by
  simp only [step, Option.bind_eq_bind, Option.bind_eq_some_iff, req_eq_some] at h
  obtain ⟨_, hc, h⟩ := h
  exact stepCore_ptrans hc h

/-! ### the position-token invariant of a state -/

theorem wsum_hold_zero {hold : Nat → Nat → Nat} {accts : List Nat} {N : Nat} {w : Nat → Nat}
    (h : ∀ a n, hold a n = 0) : wsum hold accts N w = 0 := by
  simp only [wsum]
  apply usum_zero
  intro n _
  have : outst hold accts n = 0 := usum_zero (fun a _ => h a n)
  rw [this, Nat.mul_zero]

/-- **C07, history level** (sums over the distinct accounts `s.accts.dedup`): only accounts of the world hold farm-token SFTs;
    `supply = Σ_{position nonces} outstanding units`; `userTotal o = Σ_{positions recorded as o's}
    outstanding units` -/
def PosInv (s : St) : Prop := PosOK (pv s)

theorem posInv_init (epoch block dsc maxApr minUnbond perBlock : Nat) (accts wl : List Nat) :
    PosInv (init epoch block dsc maxApr minUnbond perBlock accts wl) := by
  refine ⟨List.nodup_dedup _, fun a n hne => absurd rfl hne, ?_, fun o => ?_⟩
  · exact (wsum_hold_zero (fun _ _ => rfl)).symm
  · exact (wsum_hold_zero (fun _ _ => rfl)).symm

theorem step_posInv {s s' : St} {op : Op} {o : Out} (hI : PosInv s) (h : step s op = some (s', o)) :
    PosInv s' :=
  PosOK.trans hI (step_ptrans h)

theorem run_posInv (ops : List Op) {s : St} (hI : PosInv s) : PosInv (run s ops) := by
  induction ops generalizing s with
  | nil => simpa [run] using hI
  | cons op ops ih =>
    simp only [run, List.foldl_cons]
    cases hst : step s op with
    | none => exact ih hI
    | some r =>
      obtain ⟨s1, o⟩ := r
      exact ih (step_posInv hI hst)

theorem step_accts {s s' : St} {op : Op} {o : Out} (h : step s op = some (s', o)) :
    s'.accts = s.accts := (step_ptrans h).const.1

theorem run_accts (ops : List Op) {s : St} : (run s ops).accts = s.accts := by
  induction ops generalizing s with
  | nil => rfl
  | cons op ops ih =>
    simp only [run, List.foldl_cons]
    cases hst : step s op with
    | none => exact ih
    | some r =>
      obtain ⟨s1, o⟩ := r
      exact (ih (s := s1)).trans (step_accts hst)

theorem run_dsc (ops : List Op) {s : St} : (run s ops).dsc = s.dsc := by
  induction ops generalizing s with
  | nil => rfl
  | cons op ops ih =>
    simp only [run, List.foldl_cons]
    cases hst : step s op with
    | none => exact ih
    | some r =>
      obtain ⟨s1, o⟩ := r
      exact (ih (s := s1)).trans (step_ptrans hst).const.2.1

/-! ### the unbond ledger of a state -/

/-- the ghost ledger `unbondOut` equals the outstanding unbond-token units -/
def UnbInv (s : St) : Prop := UnbOK (pv s)

theorem unbInv_init (epoch block dsc maxApr minUnbond perBlock : Nat) (accts wl : List Nat) :
    UnbInv (init epoch block dsc maxApr minUnbond perBlock accts wl) := by
  have h : wsum (pv (init epoch block dsc maxApr minUnbond perBlock accts wl)).hold
      (pv (init epoch block dsc maxApr minUnbond perBlock accts wl)).accts
      ((pv (init epoch block dsc maxApr minUnbond perBlock accts wl)).nonce + 1)
      (unbW (pv (init epoch block dsc maxApr minUnbond perBlock accts wl)).md) = 0 :=
    wsum_hold_zero (fun _ _ => rfl)
  show (0 : Int) = ((wsum _ _ _ _ : Nat) : Int)
  rw [h]
  rfl

theorem step_unbInv {s s' : St} {op : Op} {o : Out} (hI : PosInv s) (hU : UnbInv s)
    (h : step s op = some (s', o)) : UnbInv s' :=
  UnbOK.trans hI hU (step_ptrans h)

theorem run_unbInv (ops : List Op) {s : St} (hI : PosInv s) (hU : UnbInv s) : UnbInv (run s ops) := by
  induction ops generalizing s with
  | nil => simpa [run] using hU
  | cons op ops ih =>
    simp only [run, List.foldl_cons]
    cases hst : step s op with
    | none => exact ih hI hU
    | some r =>
      obtain ⟨s1, o⟩ := r
      exact ih (step_posInv hI hst) (step_unbInv hI hU hst)

theorem wsum_unbW_explicit (hold : Nat → Nat → Nat) (accts : List Nat) (N : Nat) (md : Nat → Option Meta) :
    wsum hold accts N (unbW md) =
      ((List.range N).map fun n =>
        match md n with
        | some (.unbond _) => (accts.map fun a => hold a n).sum
        | _ => 0).sum := by
  simp only [wsum, usum, outst]
  congr 1
  apply List.map_congr_left
  intro n _
  simp only [unbW, unbondOf]
  cases md n with
  | none => simp
  | some m => cases m <;> simp

/-- units of all outstanding unbond tokens -/
def unbondUnits (s : St) : Nat :=
  ((List.range (s.nonce + 1)).map fun n =>
    match s.md n with
    | some (.unbond _) => (s.accts.dedup.map fun a => s.hold a n).sum
    | _ => 0).sum

theorem UnbInv.explicit {s : St} (h : UnbInv s) : s.unbondOut = (unbondUnits s : Nat) := by
  unfold unbondUnits
  rw [← wsum_unbW_explicit]; exact h

/-! ### the saturating subtractions of the totals never saturate -/

/-- the recorded owner's total contains every unit the caller pays in -/
theorem PosInv.owner_covers {s : St} (hI : PosInv s) {c : Nat} {pay : Pay} {h0 : Nat → Nat → Nat}
    {a : Attrs} (hc : c ∈ s.accts) (hd : debit s.hold c [pay] = some h0)
    (ha : posOf s.md pay.1 = some a) : pay.2 ≤ s.userTotal a.owner := by
  have hI' : PosOK (pv s) := hI
  have h1 := wsum_debit (ownW s.md a.owner) (accts := s.accts.dedup) (N := s.nonce + 1) hd
    (List.mem_dedup.mpr hc) hI'.nodup (hI'.pay_lt hd)
  have h2 : s.userTotal a.owner = _ := hI'.own a.owner
  simp only [payW, ownW_some ha, if_true, Nat.one_mul, Nat.add_zero] at h1
  rw [h2]
  show pay.2 ≤ wsum s.hold s.accts.dedup (s.nonce + 1) (ownW s.md a.owner)
  omega

/-- `unstakeFarm`: `decrease_user_farm_position` is an exact subtraction in every state that
    satisfies the position invariant -/
theorem unstakeCore_total_exact {s s' : St} {c orig : Nat} {pay : Pay} {x : Option Nat} {o : Out}
    (hI : PosInv s) (hc : c ∈ s.accts) (h : unstakeCore s c orig pay x = some (s', o)) :
    ∃ a, posOf s.md pay.1 = some a ∧ pay.2 ≤ s.userTotal a.owner ∧
      s'.userTotal a.owner = s.userTotal a.owner - pay.2 ∧
      (∀ u, u ≠ a.owner → s'.userTotal u = s.userTotal u) ∧ s'.supply + pay.2 = s.supply := by
  obtain ⟨inc, base, hold0, attrs, tok, e, _, hd, ha, ht, hle, e'⟩ := unstakeCore_pv h
  obtain ⟨_, _, t3, _⟩ := intoPart_spec ht
  have hcov := hI.owner_covers hc hd ha
  have hut : s'.userTotal = decreaseUT s.userTotal attrs.owner pay.2 := congrArg PV.ut e'
  have hsup : s'.supply = s.supply - tok.amount := congrArg PV.supply e'
  refine ⟨attrs, ha, hcov, ?_, fun u hu => ?_, by omega⟩
  · rw [hut]; simp only [decreaseUT, upd_same]; split <;> omega
  · rw [hut]; simp only [decreaseUT, upd_other _ _ hu]

/-- a position recorded for somebody else is used by the caller in a claim: exactly the amount
    sent moves from the recorded owner's total to the caller's -/
theorem claimCore_foreign {s s' : St} {c : Nat} {pay : Pay} {o : Out} {a : Attrs}
    (hI : PosInv s) (hc : c ∈ s.accts) (h : claimCore s c c [pay] none = some (s', o))
    (ha : posOf s.md pay.1 = some a) (hne : a.owner ≠ c) :
    pay.2 ≤ s.userTotal a.owner ∧ s'.userTotal a.owner = s.userTotal a.owner - pay.2 ∧
    s'.userTotal c = s.userTotal c + pay.2 ∧
    (∀ u, u ≠ c → u ≠ a.owner → s'.userTotal u = s.userTotal u) ∧
    (∃ t, s'.md (s.nonce + 1) = some (.pos t) ∧ t.owner = c ∧ t.amount = pay.2) := by
  obtain ⟨inc, base, p, first, tok, hold0, ut1, merged, ut2, supply2, _, hp, hf, ht, hd, hk, hm,
    _, hu, e⟩ := claimCore_pv h
  simp only [List.head?_cons, Option.some.injEq] at hp
  subst hp
  simp only [newUserTotal, Option.some.injEq] at hu
  subst hu
  simp only [List.tail_cons, mergeParts, Option.some.injEq] at hm
  subst hm
  obtain ⟨_, _, t3, _⟩ := intoPart_spec ht
  have hcov := hI.owner_covers hc hd ha
  have hut : s'.userTotal = ut1 := congrArg PV.ut e
  have hmd : s'.md = upd s.md (s.nonce + 1) _ := congrArg PV.md e
  simp only [checkAndUpdate, ha, Option.bind_eq_bind, Option.bind_some, if_neg hne,
    Option.some.injEq] at hk
  subst hk
  refine ⟨hcov, ?_, ?_, fun u h1 h2 => ?_, ⟨⟨s.rps + inc, tok.compounded, tok.amount, c⟩, by rw [hmd, upd_same]; rfl, rfl, t3⟩⟩
  · rw [hut, upd_other _ _ hne]; simp only [decreaseUT, upd_same]; split <;> omega
  · rw [hut, upd_same]; simp only [decreaseUT, upd_other _ _ (fun e : c = a.owner => hne e.symm)]
  · rw [hut, upd_other _ _ h1]; simp only [decreaseUT, upd_other _ _ h2]

/-! ### the invariant spelled out with plain list sums (for the property statements) -/

theorem wsum_posW_explicit (hold : Nat → Nat → Nat) (accts : List Nat) (N : Nat) (md : Nat → Option Meta) :
    wsum hold accts N (posW md) =
      ((List.range N).map fun n =>
        match md n with
        | some (.pos _) => (accts.map fun a => hold a n).sum
        | _ => 0).sum := by
  simp only [wsum, usum, outst]
  congr 1
  apply List.map_congr_left
  intro n _
  simp only [posW, posOf]
  cases md n with
  | none => simp
  | some m => cases m <;> simp

theorem wsum_ownW_explicit (hold : Nat → Nat → Nat) (accts : List Nat) (N : Nat) (md : Nat → Option Meta)
    (o : Nat) :
    wsum hold accts N (ownW md o) =
      ((List.range N).map fun n =>
        match md n with
        | some (.pos a) => if a.owner = o then (accts.map fun u => hold u n).sum else 0
        | _ => 0).sum := by
  simp only [wsum, usum, outst]
  congr 1
  apply List.map_congr_left
  intro n _
  simp only [ownW, posOf]
  cases md n with
  | none => simp
  | some m =>
    cases m with
    | pos a => by_cases h : a.owner = o <;> simp [h]
    | unbond e => simp

theorem PosInv.supply_eq {s : St} (h : PosInv s) :
    s.supply =
      ((List.range (s.nonce + 1)).map fun n =>
        match s.md n with
        | some (.pos _) => (s.accts.dedup.map fun a => s.hold a n).sum
        | _ => 0).sum := by
  rw [← wsum_posW_explicit]; exact h.sup

theorem PosInv.owner_eq {s : St} (h : PosInv s) (o : Nat) :
    s.userTotal o =
      ((List.range (s.nonce + 1)).map fun n =>
        match s.md n with
        | some (.pos a) => if a.owner = o then (s.accts.dedup.map fun u => s.hold u n).sum else 0
        | _ => 0).sum := by
  rw [← wsum_ownW_explicit]; exact h.own o

theorem PosInv.supply_eq_nodup {s : St} (h : PosInv s) (hnd : s.accts.Nodup) :
    s.supply =
      ((List.range (s.nonce + 1)).map fun n =>
        match s.md n with
        | some (.pos _) => (s.accts.map fun a => s.hold a n).sum
        | _ => 0).sum := by
  have := h.supply_eq
  rw [hnd.dedup] at this
  exact this

theorem PosInv.owner_eq_nodup {s : St} (h : PosInv s) (hnd : s.accts.Nodup) (o : Nat) :
    s.userTotal o =
      ((List.range (s.nonce + 1)).map fun n =>
        match s.md n with
        | some (.pos a) => if a.owner = o then (s.accts.map fun u => s.hold u n).sum else 0
        | _ => 0).sum := by
  have := h.owner_eq o
  rw [hnd.dedup] at this
  exact this

theorem PosInv.domain {s : St} (h : PosInv s) {a n : Nat} (hne : s.hold a n ≠ 0) :
    a ∈ s.accts ∧ n ≤ s.nonce := by
  obtain ⟨h1, h2⟩ := h.dom a n hne
  exact ⟨List.mem_dedup.mp h1, h2⟩

end Mx.Staking
