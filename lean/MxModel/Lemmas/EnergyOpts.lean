/-
  `addLockOptions`: whatever it stores is an admissible option set (sorted, strictly increasing
  in both components, at least a year, at most 100 %).
-/
import MxModel.Lemmas.EnergyArith

namespace Mx.Energy

/-- adjacent epochs weakly increasing -/
def AdjLe : List Opt → Prop
  | a :: b :: rest => a.1 ≤ b.1 ∧ AdjLe (b :: rest)
  | _ => True

theorem insertOpt_adjLe (o : Opt) (l : List Opt) (h : AdjLe l) : AdjLe (insertOpt o l) := by
  induction l with
  | nil => trivial
  | cons x xs ih =>
    unfold insertOpt
    split
    · rename_i hle
      exact ⟨hle, h⟩
    · rename_i hgt
      cases xs with
      | nil =>
        show AdjLe [x, o]
        exact ⟨by omega, trivial⟩
      | cons y ys =>
        obtain ⟨hxy, hrest⟩ := h
        have ih' := ih hrest
        unfold insertOpt at ih' ⊢
        split
        · rename_i hoy
          exact ⟨by omega, hoy, hrest⟩
        · rename_i hoy
          simp only [hoy, if_false] at ih'
          exact ⟨hxy, ih'⟩

theorem sortOpts_adjLe (l : List Opt) : AdjLe (sortOpts l) := by
  induction l with
  | nil => trivial
  | cons x xs ih => exact insertOpt_adjLe x _ ih

theorem mem_insertOpt {x o : Opt} {l : List Opt} : x ∈ insertOpt o l ↔ x = o ∨ x ∈ l := by
  induction l with
  | nil => simp [insertOpt]
  | cons y ys ih =>
    unfold insertOpt
    split
    · simp
    · simp only [List.mem_cons, ih]
      constructor
      · rintro (h | h | h)
        · exact Or.inr (Or.inl h)
        · exact Or.inl h
        · exact Or.inr (Or.inr h)
      · rintro (h | h | h)
        · exact Or.inr (Or.inl h)
        · exact Or.inl h
        · exact Or.inr (Or.inr h)

theorem mem_sortOpts {x : Opt} {l : List Opt} : x ∈ sortOpts l ↔ x ∈ l := by
  induction l with
  | nil => simp [sortOpts]
  | cons y ys ih =>
    simp only [sortOpts, mem_insertOpt, ih, List.mem_cons]

theorem schain_of_checks (a : Opt) (rest : List Opt) (h1 : AdjLe (a :: rest))
    (h2 : noDupEpochs (a :: rest) = true) (h3 : strictPcts (a :: rest) = true)
    (h4 : ∀ o ∈ rest, o.2 ≤ MAXPCT) : SChain a.1 a.2 rest := by
  induction rest generalizing a with
  | nil => trivial
  | cons b bs ih =>
    obtain ⟨hab, hr⟩ := h1
    simp only [noDupEpochs, Bool.and_eq_true, decide_eq_true_eq] at h2
    simp only [strictPcts, Bool.and_eq_true, decide_eq_true_eq] at h3
    refine ⟨by omega, h3.1, h4 b (by simp), ?_⟩
    exact ih b hr h2.2 h3.2 (fun o ho => h4 o (by simp [ho]))

theorem SChain.bounds {e0 p0 : Nat} {l : List Opt} (h : SChain e0 p0 l) :
    ∀ o ∈ l, e0 < o.1 ∧ o.2 ≤ MAXPCT := by
  induction l generalizing e0 p0 with
  | nil => simp
  | cons x xs ih =>
    obtain ⟨e1, p1⟩ := x
    obtain ⟨a, _, c, d⟩ := h
    intro o ho
    rcases List.mem_cons.mp ho with rfl | hin
    · exact ⟨a, c⟩
    · have := ih d o hin
      exact ⟨by omega, this.2⟩

theorem Admissible.bounds {l : List Opt} (h : Admissible l) :
    ∀ o ∈ l, YEAR ≤ o.1 ∧ o.2 ≤ MAXPCT := by
  cases l with
  | nil => exact h.elim
  | cons x xs =>
    obtain ⟨e1, p1⟩ := x
    obtain ⟨a, b, c⟩ := h
    intro o ho
    rcases List.mem_cons.mp ho with rfl | hin
    · exact ⟨a, b⟩
    · have := c.bounds o hin
      exact ⟨by omega, this.2⟩

/-- every option list `addLockOptions` accepts is admissible, whatever was stored before
    (even nothing — the first call, from `init`) -/
theorem addOptions_admissible {s s' : St} {new : List Opt}
    (hold : s.opts = [] ∨ Admissible s.opts) (h : cfg s (.addOptions new) = some s') :
    Admissible s'.opts ∧ s' = { s with opts := sortOpts (s.opts ++ new) } := by
  simp only [cfg, Option.bind_eq_bind, Option.bind_eq_some_iff, req_eq_some, Option.pure_def,
    Option.some.injEq] at h
  obtain ⟨_, _, _, hall, _, hne, _, hnd, _, hsp, rfl⟩ := h
  refine ⟨?_, rfl⟩
  show Admissible (sortOpts (s.opts ++ new))
  have hb : ∀ o ∈ sortOpts (s.opts ++ new), YEAR ≤ o.1 ∧ o.2 ≤ MAXPCT := by
    intro o ho
    rw [mem_sortOpts, List.mem_append] at ho
    rcases ho with ho | ho
    · rcases hold with he | ha
      · rw [he] at ho; simp at ho
      · exact ha.bounds o ho
    · rw [List.all_eq_true] at hall
      simpa using hall o ho
  have hs := sortOpts_adjLe (s.opts ++ new)
  generalize sortOpts (s.opts ++ new) = l at *
  cases l with
  | nil => exact (hne rfl).elim
  | cons a rest =>
    obtain ⟨e1, p1⟩ := a
    have h0 := hb (e1, p1) (by simp)
    exact ⟨h0.1, h0.2, schain_of_checks (e1, p1) rest hs hnd hsp (fun o ho => (hb o (by simp [ho])).2)⟩

/-- no other configuration operation touches the options -/
theorem cfg_opts {s s' : St} {o : CfgOp} (h : cfg s o = some s')
    (hold : Admissible s.opts) : Admissible s'.opts := by
  cases o with
  | addOptions new => exact (addOptions_admissible (Or.inr hold) h).1
  | setBurnPct p =>
    simp only [cfg, Option.bind_eq_bind, Option.bind_eq_some_iff, req_eq_some, Option.pure_def,
      Option.some.injEq] at h
    obtain ⟨_, _, rfl⟩ := h; exact hold
  | pause b =>
    simp only [cfg, Option.pure_def, Option.some.injEq] at h
    subst h; exact hold
  | whitelist c =>
    simp only [cfg, Option.bind_eq_bind, Option.bind_eq_some_iff, req_eq_some, Option.pure_def,
      Option.some.injEq] at h
    obtain ⟨_, _, rfl⟩ := h; exact hold
  | unwhitelist c =>
    simp only [cfg, Option.bind_eq_bind, Option.bind_eq_some_iff, req_eq_some, Option.pure_def,
      Option.some.injEq] at h
    obtain ⟨_, _, rfl⟩ := h; exact hold

end Mx.Energy
