/-
  C13 helpers, part 1: sums over round intervals and the arithmetic kernel of the
  linear interpolation.  No contract state here.
-/
import MxModel.Core.SafePrice
import Mathlib.Tactic.Ring
import Mathlib.Tactic.Linarith

namespace Mx.SafePrice

/-- `rsum f a b = Σ_{k ∈ (a, b]} f k` -/
def rsum (f : Nat → Nat) (a : Nat) : Nat → Nat
  | 0 => 0
  | b + 1 => if a < b + 1 then rsum f a b + f (b + 1) else 0

theorem rsum_of_le (f : Nat → Nat) {a b : Nat} (h : b ≤ a) : rsum f a b = 0 := by
  induction b with
  | zero => rfl
  | succ b ih => simp only [rsum]; rw [if_neg (by omega)]

theorem rsum_succ (f : Nat → Nat) {a b : Nat} (h : a ≤ b) :
    rsum f a (b + 1) = rsum f a b + f (b + 1) := by
  simp only [rsum]; rw [if_pos (by omega)]

theorem rsum_split (f : Nat → Nat) {a m b : Nat} (h1 : a ≤ m) (h2 : m ≤ b) :
    rsum f a b = rsum f a m + rsum f m b := by
  induction b with
  | zero =>
    have : m = 0 := by omega
    subst this
    simp [rsum_of_le]
  | succ b ih =>
    by_cases hm : m = b + 1
    · subst hm; simp [rsum_of_le]
    · rw [rsum_succ f (by omega), rsum_succ f (by omega), ih (by omega)]; omega

theorem rsum_const (f : Nat → Nat) {a b c : Nat} (h : ∀ k, a < k → k ≤ b → f k = c) :
    rsum f a b = (b - a) * c := by
  induction b with
  | zero => simp [rsum]
  | succ b ih =>
    by_cases hab : a ≤ b
    · rw [rsum_succ f hab, ih (fun k h1 h2 => h k h1 (by omega)), h (b + 1) (by omega) (by omega)]
      have : b + 1 - a = (b - a) + 1 := by omega
      rw [this]; ring
    · rw [rsum_of_le f (by omega)]
      have : b + 1 - a = 0 := by omega
      simp [this]

theorem rsum_congr (f g : Nat → Nat) {a b : Nat} (h : ∀ k, a < k → k ≤ b → f k = g k) :
    rsum f a b = rsum g a b := by
  induction b with
  | zero => rfl
  | succ b ih =>
    by_cases hab : a ≤ b
    · rw [rsum_succ f hab, rsum_succ g hab, ih (fun k h1 h2 => h k h1 (by omega)),
        h (b + 1) (by omega) (by omega)]
    · rw [rsum_of_le f (by omega), rsum_of_le g (by omega)]

/-- a sum of positive terms over a non-empty interval is at least its length -/
theorem rsum_ge_len (f : Nat → Nat) {a b : Nat} (h : ∀ k, a < k → k ≤ b → 0 < f k) :
    b - a ≤ rsum f a b := by
  induction b with
  | zero => simp
  | succ b ih =>
    by_cases hab : a ≤ b
    · rw [rsum_succ f hab]
      have := ih (fun k h1 h2 => h k h1 (by omega))
      have := h (b + 1) (by omega) (by omega)
      omega
    · omega

/-- the interpolation of the contract, `(lw·A + rw·B)/(lw+rw)` with `lw = b − q`, `rw = q − a`,
    between accumulators that grow by `x` per round (`B = A + (b−a)·x`) is EXACTLY the
    accumulator at round `q` — no rounding is lost -/
theorem interp_kernel (A x a q b : Nat) (h1 : a < q) (h2 : q < b) :
    ((b - q) * A + (q - a) * (A + (b - a) * x)) / ((b - q) + (q - a)) = A + (q - a) * x := by
  obtain ⟨u, rfl⟩ := Nat.exists_eq_add_of_lt h1
  obtain ⟨v, rfl⟩ := Nat.exists_eq_add_of_lt h2
  have e1 : a + u + 1 + v + 1 - (a + u + 1) = v + 1 := by omega
  have e2 : a + u + 1 - a = u + 1 := by omega
  have e3 : a + u + 1 + v + 1 - a = (v + 1) + (u + 1) := by omega
  rw [e1, e2, e3]
  have : (v + 1) * A + (u + 1) * (A + ((v + 1) + (u + 1)) * x)
      = ((v + 1) + (u + 1)) * (A + (u + 1) * x) := by ring
  rw [this, Nat.mul_div_cancel_left _ (by omega)]

end Mx.SafePrice
