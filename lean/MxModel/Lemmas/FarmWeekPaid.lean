/-
  The week budget WITH payments (finding F6, last clause of C05), farm world:

      for every week w inside the four-week claim window that is FROZEN with pool R_w
      (`totalRewardsForWeek(w) = [(REW, R_w)]`):
          remaining(w) + paidW(w) = R_w                                             (frozen-pool accounting)
          WeekBudget fa_w R_w F_w E_w (paidW w) (Σ_v eForP v w) (Σ_v fFor v w)       (budget)

  where `fa_w` = the factors in force for `w` (`BCfg.facFor`), `F_w = farmSupplyForWeek(w)`,
  `E_w = totalEnergyForWeek(w)`, and the two sums range over the users that can still claim `w`
  (their energy decayed to `w`; their CURRENT total farm position).  `WeekBudget.sub_ok` then says
  that the checked subtraction `remaining_boosted_rewards_to_distribute(w) -= user_reward` of
  `get_user_rewards_for_week` cannot fail, and `WeekBudget.pay` that the budget survives the payment.

  Structure (the farm analogue of Lemmas/FeesLedger.lean):
    * `PaidRel` — the relation above w.r.t. an arbitrary progress table (inside `claim_multi` the claimer's
      entry is tracked "virtually" as the loop's advancing progress);
    * `PaidRel.mono / freeze / pay` — weakening (claimers drop out, totals shrink), freezing a week
      (`WeekBudget.init` from the energy half `EB` and the position half `WeekPos`), one payment;
    * `claimSingle_loopInv`, `claimLoop_loopInv` — one week / the whole loop of `claim_multi` SUCCEEDS and
      keeps the relation (totality: via `boostedRewards_none_iff`);
    * `claimBoostedYields_paid` — the boosted claim succeeds as soon as the weekly module's global update
      does, and keeps the state invariant `PaidInv`;
    * every other helper / endpoint / operation keeps `PaidInv` (`step_paidInv`, `reachable_paidInv`).

  Factors.  `cE + cF ≠ 0` is needed (`get_user_rewards_for_week` divides by it): it is an explicit hypothesis
  on the history (`GoodOps`: every `setFactors` installs factors with `cE + cF ≠ 0`; the real endpoint
  does not validate this).  The factors of a claimable week never change while it is claimable
  (`facFor_update`: `BoostedYieldsConfig::update` only shifts the ring).
-/
import MxModel.Lemmas.FarmWeekPos
import MxModel.Lemmas.FarmEnergy
import MxModel.Lemmas.FarmWeekSafe

namespace Mx.Farm

open Mx.Weekly (upd upd_same upd_other Energy ClaimProgress usum usum_nil usum_cons usum_append usum_le
  usum_zero usersAfter newOf eForP)

/-! ## claimable energy of one progress entry -/

/-- energy a progress entry can still be paid with for week `w` -/
def entryE (p : ClaimProgress) (w : Nat) : Nat :=
  if p.week ≤ w then (p.energy.after (w - p.week)).getEnergyAmount else 0

theorem eForP_some {prog : Nat → Option ClaimProgress} {u : Nat} {p : ClaimProgress}
    (h : prog u = some p) (w : Nat) : eForP prog u w = entryE p w := by
  unfold eForP entryE; rw [h]

theorem eForP_none {prog : Nat → Option ClaimProgress} {u : Nat} (h : prog u = none) (w : Nat) :
    eForP prog u w = 0 := by
  unfold eForP; rw [h]

theorem eForP_upd_other (prog : Nat → Option ClaimProgress) (u0 : Nat) (o : Option ClaimProgress)
    {u : Nat} (h : u ≠ u0) (w : Nat) : eForP (upd prog u0 o) u w = eForP prog u w := by
  unfold eForP; rw [upd_other _ _ h]

theorem eForP_upd_same (prog : Nat → Option ClaimProgress) (u0 : Nat) (p : ClaimProgress) (w : Nat) :
    eForP (upd prog u0 (some p)) u0 w = entryE p w :=
  eForP_some (upd_same _ _ _) w

theorem entryE_self (p : ClaimProgress) : entryE p p.week = p.energy.getEnergyAmount := by
  simp [entryE]

theorem entryE_advanceWeek (p : ClaimProgress) (w : Nat) :
    entryE p.advanceWeek w = if p.week + 1 ≤ w then entryE p w else 0 := by
  rw [ClaimProgress.advanceWeek_eq]
  unfold entryE
  simp only
  by_cases h : p.week + 1 ≤ w
  · have h' : p.week ≤ w := by omega
    simp only [h, h', if_true, Energy.after_after]
    congr 2; omega
  · simp [h]

theorem entryE_advanceWeek_le (p : ClaimProgress) (w : Nat) : entryE p.advanceWeek w ≤ entryE p w := by
  rw [entryE_advanceWeek]; split <;> omega

theorem entryE_advanceWeek_self (p : ClaimProgress) : entryE p.advanceWeek p.week = 0 := by
  rw [entryE_advanceWeek]; simp

theorem entryE_advanceMultiple_le (p : ClaimProgress) (n w : Nat) :
    entryE (p.advanceMultipleWeeks n) w ≤ entryE p w := by
  rw [ClaimProgress.advanceMultipleWeeks_eq]
  unfold entryE
  simp only
  by_cases h : p.week + n ≤ w
  · have h' : p.week ≤ w := by omega
    simp only [h, h', if_true, Energy.after_after]
    have : n + (w - (p.week + n)) = w - p.week := by omega
    rw [this]
  · simp [h]

theorem entryE_lt (p : ClaimProgress) {w : Nat} (h : w < p.week) : entryE p w = 0 := by
  unfold entryE
  have : ¬ (p.week ≤ w) := by omega
  simp [this]

theorem eForP_settled {prog : Nat → Option ClaimProgress} {u w W : Nat}
    (hs : ∀ p, prog u = some p → W ≤ p.week) (hw : w < W) : eForP prog u w = 0 := by
  cases hp : prog u with
  | none => exact eForP_none hp w
  | some p => rw [eForP_some hp]; exact entryE_lt p (by have := hs p hp; omega)

/-! ## the position analogue -/

theorem fFor_some {prog : Nat → Option ClaimProgress} {tot : Nat → Nat} {u : Nat} {p : ClaimProgress}
    (h : prog u = some p) (w : Nat) : fFor prog tot u w = if p.week ≤ w then tot u else 0 := by
  unfold fFor; rw [h]

theorem fFor_upd_other (prog : Nat → Option ClaimProgress) (tot : Nat → Nat) (u0 : Nat)
    (o : Option ClaimProgress) {u : Nat} (h : u ≠ u0) (w : Nat) :
    fFor (upd prog u0 o) tot u w = fFor prog tot u w := by
  unfold fFor; rw [upd_other _ _ h]

theorem fFor_upd_same (prog : Nat → Option ClaimProgress) (tot : Nat → Nat) (u0 : Nat) (p : ClaimProgress)
    (w : Nat) : fFor (upd prog u0 (some p)) tot u0 w = if p.week ≤ w then tot u0 else 0 :=
  fFor_some (upd_same _ _ _) w

/-! ## sums when one user's entry moves -/

/-- the summand of `u` vanishes, the others are unchanged, `u` may be appended to the key list -/
theorem usum_move_le {users : List Nat} {u : Nat} {o : Option ClaimProgress} {φ ψ : Nat → Nat}
    (hoth : ∀ x, x ≠ u → ψ x = φ x) (hz : ψ u = 0) :
    usum (usersAfter users u o) ψ ≤ usum users φ := by
  have hle : ∀ x, ψ x ≤ φ x := by
    intro x
    by_cases hx : x = u
    · subst hx; rw [hz]; exact Nat.zero_le _
    · rw [hoth x hx]
  unfold usersAfter
  split
  · rw [usum_append, usum_cons, usum_nil, hz]
    have : usum users ψ ≤ usum users φ := usum_le (fun x _ => hle x)
    omega
  · exact usum_le (fun x _ => hle x)

/-! ## the factors of a claimable week -/

/-- the factors in force for week `w` according to a stored config: the ring entry for a week before
    `last_update_week`, the latest factors for `last_update_week` and every week since -/
def BCfg.facFor (c : BCfg) (w : Nat) : Option Factors :=
  if w < c.lastUpdateWeek then c.factorsForWeek w else some c.latest

/-- **the factors of a week inside the window do not change** when the config is updated to the current
    week (with or without new factors for the current week), and the updated config answers
    `get_factors_for_week` with them -/
theorem facFor_update {c c' : BCfg} {W w : Nat} {new : Option Factors} (hw : WF c)
    (h : c.update W new = some c') (h1 : w < W) (h2 : W < w + 5) :
    c'.factorsForWeek w = c.facFor w ∧ c'.facFor w = c.facFor w := by
  have hL := (BCfg.update_wf hw h).2
  have e : c'.factorsForWeek w = c.facFor w := by
    unfold BCfg.facFor
    split
    · rename_i hlt
      exact factorsForWeek_update_old hw h hlt h2
    · rename_i hge
      exact factorsForWeek_update_gap hw h (by omega) h1 h2
  refine ⟨e, ?_⟩
  have : c'.facFor w = c'.factorsForWeek w := by
    unfold BCfg.facFor; rw [hL, if_pos h1]
  rw [this, e]

theorem shifted_mem (f0 f1 f2 f3 f4 : Factors) (k i : Nat) :
    shifted f0 f1 f2 f3 f4 k i ∈ [f0, f1, f2, f3, f4] := by
  unfold shifted
  cases h : [f0, f1, f2, f3, f4][i + k]? with
  | none => simp
  | some x => exact List.mem_of_getElem? h

/-- a property of all ring entries survives `update` (the ring is only shifted, refilled with the latest
    entry, and the new factors — if any — installed) -/
theorem ring_update {P : Factors → Prop} {c c' : BCfg} {W : Nat} {new : Option Factors} (hw : WF c)
    (h : c.update W new = some c') (hP : ∀ fa ∈ c.ring, P fa) (hnew : ∀ f, new = some f → P f) :
    ∀ fa ∈ c'.ring, P fa := by
  obtain ⟨L, f0, f1, f2, f3, f4, rfl⟩ := hw.exists_ring
  obtain ⟨_, rfl⟩ := update_spec5 h
  intro fa hfa
  simp only [List.mem_cons, List.not_mem_nil, or_false] at hfa
  rcases hfa with rfl | rfl | rfl | rfl | rfl
  · exact hP _ (shifted_mem ..)
  · exact hP _ (shifted_mem ..)
  · exact hP _ (shifted_mem ..)
  · exact hP _ (shifted_mem ..)
  · cases new with
    | none => exact hP _ (by simp)
    | some f => exact hnew f rfl

theorem facFor_mem {c : BCfg} (hw : WF c) {w : Nat} {fa : Factors} (h : c.facFor w = some fa) :
    fa ∈ c.ring := by
  obtain ⟨L, f0, f1, f2, f3, f4, rfl⟩ := hw.exists_ring
  unfold BCfg.facFor at h
  split at h
  · simp only [BCfg.factorsForWeek, Option.bind_eq_bind, Option.bind_eq_some_iff, req_eq_some] at h
    obtain ⟨_, _, _, _, h⟩ := h
    exact List.mem_of_getElem? h
  · simp only [Option.some.injEq] at h
    subst h
    simp [BCfg.latest, RING]

/-- inside the window the factors exist -/
theorem facFor_some {c : BCfg} (hw : WF c) {w W : Nat} (hL : c.lastUpdateWeek ≤ W) (h2 : W < w + 5) :
    ∃ fa, c.facFor w = some fa := by
  obtain ⟨L, f0, f1, f2, f3, f4, rfl⟩ := hw.exists_ring
  unfold BCfg.facFor
  split
  · rename_i hlt
    simp only at hlt hL
    rw [factorsForWeek_eq (by simpa using hlt) (by simp only; omega)]
    simp only
    have : 4 - (L - w) < 5 := by omega
    exact ⟨_, List.getElem?_eq_getElem (by simpa using this)⟩
  · exact ⟨_, rfl⟩

/-! ## the relation -/

/-- the frozen pool of a week (0 while not frozen) -/
def rOf (l : List (Weekly.Tok × Nat)) : Nat :=
  match l with
  | [(_, R)] => R
  | _ => 0

@[simp] theorem rOf_nil : rOf [] = 0 := rfl
@[simp] theorem rOf_single (t : Weekly.Tok) (R : Nat) : rOf [(t, R)] = R := rfl

/-- frozen-pool accounting and the week budget for the weeks `W − 4 … W − 1`, w.r.t. a progress table
    `prog`, a key list `users`, the totals `tot`, the factors `fac`, and the cells
    `TR = totalRewardsForWeek`, `TE = totalEnergyForWeek`, `F = farmSupplyForWeek`,
    `paid = paidW` (ghost), `rem = remainingBoostedRewardsToDistribute` -/
structure PaidRel (prog : Nat → Option ClaimProgress) (users : List Nat) (tot : Nat → Nat)
    (fac : Nat → Option Factors) (W : Nat) (TR : Nat → List (Weekly.Tok × Nat))
    (TE F paid rem : Nat → Nat) : Prop where
  shape : ∀ w, W ≤ w + 4 → TR w = [] ∨ ∃ R, TR w = [(REW, R)]
  fresh : ∀ w, W ≤ w → TR w = []
  unfrozen : ∀ w, W ≤ w + 4 → TR w = [] → paid w = 0 ∧ rem w = 0
  frozen : ∀ w R, W ≤ w + 4 → TR w = [(REW, R)] → rem w + paid w = R
  budget : ∀ w, W ≤ w + 4 → w < W → TE w ≠ 0 → F w ≠ 0 → ∀ fa, fac w = some fa →
    WeekBudget fa (rOf (TR w)) (F w) (TE w) (paid w)
      (usum users fun u => eForP prog u w) (usum users fun u => fFor prog tot u w)

/-- weakening: the claimers' sums shrink, a completed week's total energy is unchanged or cleared, the
    recorded supply of completed weeks and the factors in the window are the same -/
theorem PaidRel.mono {prog prog' : Nat → Option ClaimProgress} {users users' : List Nat}
    {tot tot' : Nat → Nat} {fac fac' : Nat → Option Factors} {W : Nat}
    {TR : Nat → List (Weekly.Tok × Nat)} {TE TE' F F' paid rem : Nat → Nat}
    (h : PaidRel prog users tot fac W TR TE F paid rem)
    (hE : ∀ w, w < W → TE' w = TE w ∨ TE' w = 0)
    (hF : ∀ w, w < W → F' w = F w)
    (hfac : ∀ w, W ≤ w + 4 → w < W → fac' w = fac w)
    (hsE : ∀ w, W ≤ w + 4 → w < W →
      usum users' (fun u => eForP prog' u w) ≤ usum users (fun u => eForP prog u w))
    (hsF : ∀ w, W ≤ w + 4 → w < W →
      usum users' (fun u => fFor prog' tot' u w) ≤ usum users (fun u => fFor prog tot u w)) :
    PaidRel prog' users' tot' fac' W TR TE' F' paid rem := by
  refine ⟨h.shape, h.fresh, h.unfrozen, h.frozen, ?_⟩
  intro w hw1 hw2 hTE hFw fa hfa
  rw [hF w hw2] at hFw ⊢
  rw [hfac w hw1 hw2] at hfa
  rcases hE w hw2 with e | e
  · rw [e] at hTE ⊢
    exact (h.budget w hw1 hw2 hTE hFw fa hfa).mono (hsE w hw1 hw2) (hsF w hw1 hw2)
  · exact absurd e hTE

/-- the same relation on other cells that agree where it reads them -/
theorem PaidRel.congr {prog : Nat → Option ClaimProgress} {users : List Nat} {tot : Nat → Nat}
    {fac : Nat → Option Factors} {W : Nat} {TR TR' : Nat → List (Weekly.Tok × Nat)}
    {TE F paid rem paid' rem' : Nat → Nat}
    (h : PaidRel prog users tot fac W TR TE F paid rem)
    (hTR : ∀ w, W ≤ w + 4 → TR' w = TR w) (hp : ∀ w, W ≤ w + 4 → paid' w = paid w)
    (hr : ∀ w, W ≤ w + 4 → rem' w = rem w) :
    PaidRel prog users tot fac W TR' TE F paid' rem' := by
  refine ⟨fun w hw => by rw [hTR w hw]; exact h.shape w hw,
    fun w hw => by rw [hTR w (by omega)]; exact h.fresh w hw,
    fun w hw hn => by rw [hTR w hw] at hn; rw [hp w hw, hr w hw]; exact h.unfrozen w hw hn,
    fun w R hw hf => by rw [hTR w hw] at hf; rw [hp w hw, hr w hw]; exact h.frozen w R hw hf,
    fun w hw1 hw2 hE hF fa hfa => by rw [hTR w hw1, hp w hw1]; exact h.budget w hw1 hw2 hE hF fa hfa⟩

/-- freezing week `wk` (not frozen, hence nothing paid, before): the budget starts from
    `Σ e ≤ E` and `Σ f ≤ F` -/
theorem PaidRel.freeze {prog : Nat → Option ClaimProgress} {users : List Nat} {tot : Nat → Nat}
    {fac : Nat → Option Factors} {W wk R : Nat} {TR TR' : Nat → List (Weekly.Tok × Nat)}
    {TE F paid rem rem' : Nat → Nat}
    (h : PaidRel prog users tot fac W TR TE F paid rem)
    (hw1 : W ≤ wk + 4) (hw2 : wk < W) (hnil : TR wk = [])
    (hTRw : TR' wk = [(REW, R)]) (hTRo : ∀ w, w ≠ wk → TR' w = TR w)
    (hrw : rem' wk = R) (hro : ∀ w, w ≠ wk → rem' w = rem w)
    (heb : TE wk = 0 ∨ usum users (fun u => eForP prog u wk) ≤ TE wk)
    (hpb : F wk = 0 ∨ usum users (fun u => fFor prog tot u wk) ≤ F wk) :
    PaidRel prog users tot fac W TR' TE F paid rem' := by
  have hp0 := (h.unfrozen wk hw1 hnil).1
  refine ⟨?_, ?_, ?_, ?_, ?_⟩
  · intro w hw
    by_cases e : w = wk
    · subst e; exact Or.inr ⟨R, hTRw⟩
    · rw [hTRo w e]; exact h.shape w hw
  · intro w hw
    have e : w ≠ wk := by omega
    rw [hTRo w e]; exact h.fresh w hw
  · intro w hw hn
    by_cases e : w = wk
    · subst e; rw [hTRw] at hn; cases hn
    · rw [hTRo w e] at hn; rw [hro w e]; exact h.unfrozen w hw hn
  · intro w R' hw hf
    by_cases e : w = wk
    · subst e
      rw [hTRw] at hf
      simp only [List.cons.injEq, Prod.mk.injEq, and_true, true_and] at hf
      rw [hrw, hp0, hf]; rfl
    · rw [hTRo w e] at hf; rw [hro w e]; exact h.frozen w R' hw hf
  · intro w hwa hwb hE hF fa hfa
    by_cases e : w = wk
    · subst e
      rw [hTRw, rOf_single, hp0]
      apply WeekBudget.init
      · rcases heb with hz | hb
        · exact absurd hz hE
        · exact hb
      · rcases hpb with hz | hb
        · exact absurd hz hF
        · exact hb
    · rw [hTRo w e]; exact h.budget w hwa hwb hE hF fa hfa

/-- one payment out of the frozen week `wk` to `u0`, whose entry then no longer counts for `wk`
    (and counts no more than before for the other weeks) -/
theorem PaidRel.pay {prog prog' : Nat → Option ClaimProgress} {users : List Nat} {tot : Nat → Nat}
    {fac : Nat → Option Factors} {W wk R amt u0 : Nat} {fa : Factors}
    {TR : Nat → List (Weekly.Tok × Nat)} {TE F paid rem : Nat → Nat}
    (h : PaidRel prog users tot fac W TR TE F paid rem) (hnd : users.Nodup) (hu0 : u0 ∈ users)
    (hw1 : W ≤ wk + 4) (hw2 : wk < W) (hTR : TR wk = [(REW, R)]) (hfa : fac wk = some fa)
    (hE : TE wk ≠ 0) (hF : F wk ≠ 0)
    (hamt : amt = boostedAmount fa R (fFor prog tot u0 wk) (F wk) (eForP prog u0 wk) (TE wk))
    (hle : amt ≤ rem wk)
    (hothE : ∀ u, u ≠ u0 → ∀ w, eForP prog' u w = eForP prog u w)
    (hothF : ∀ u, u ≠ u0 → ∀ w, fFor prog' tot u w = fFor prog tot u w)
    (hzE : eForP prog' u0 wk = 0) (hzF : fFor prog' tot u0 wk = 0)
    (hleE : ∀ w, eForP prog' u0 w ≤ eForP prog u0 w)
    (hleF : ∀ w, fFor prog' tot u0 w ≤ fFor prog tot u0 w) :
    PaidRel prog' users tot fac W TR TE F (upd paid wk (paid wk + amt)) (upd rem wk (rem wk - amt)) := by
  have hfr := h.frozen wk R hw1 hTR
  refine ⟨h.shape, h.fresh, ?_, ?_, ?_⟩
  · intro w hw hn
    have e : w ≠ wk := by rintro rfl; rw [hTR] at hn; cases hn
    rw [upd_other _ _ e, upd_other _ _ e]; exact h.unfrozen w hw hn
  · intro w R' hw hf
    by_cases e : w = wk
    · subst e
      rw [hTR] at hf
      simp only [List.cons.injEq, Prod.mk.injEq, and_true, true_and] at hf
      rw [upd_same, upd_same]; omega
    · rw [upd_other _ _ e, upd_other _ _ e]; exact h.frozen w R' hw hf
  · intro w hwa hwb hEw hFw fa' hfa'
    have hsE : usum users (fun u => eForP prog' u w) ≤ usum users (fun u => eForP prog u w) :=
      usum_le (fun u _ => by
        by_cases hu : u = u0
        · subst hu; exact hleE w
        · rw [hothE u hu w])
    have hsF : usum users (fun u => fFor prog' tot u w) ≤ usum users (fun u => fFor prog tot u w) :=
      usum_le (fun u _ => by
        by_cases hu : u = u0
        · subst hu; exact hleF w
        · rw [hothF u hu w])
    by_cases e : w = wk
    · subst e
      rw [hfa] at hfa'
      simp only [Option.some.injEq] at hfa'
      subst hfa'
      rw [upd_same, hTR, rOf_single]
      have hB := h.budget w hwa hwb hEw hFw fa hfa
      rw [hTR, rOf_single] at hB
      have he : eForP prog u0 w ≤ usum users (fun u => eForP prog u w) :=
        Weekly.le_usum (f := fun u => eForP prog u w) hu0
      have hf : fFor prog tot u0 w ≤ usum users (fun u => fFor prog tot u w) :=
        Weekly.le_usum (f := fun u => fFor prog tot u w) hu0
      have hB' := hB.pay he hf
      rw [← hamt] at hB'
      refine hB'.mono ?_ ?_
      · have hup := Weekly.usum_update hnd hu0 (f := fun u => eForP prog u w)
          (g := fun u => eForP prog' u w) (fun u _ hne => hothE u hne w)
        simp only [hzE, Nat.add_zero] at hup
        omega
      · have hup := Weekly.usum_update hnd hu0 (f := fun u => fFor prog tot u w)
          (g := fun u => fFor prog' tot u w) (fun u _ hne => hothF u hne w)
        simp only [hzF, Nat.add_zero] at hup
        omega
    · rw [upd_other _ _ e]
      exact (h.budget w hwa hwb hEw hFw fa' hfa').mono hsE hsF

/-- with the week frozen and the budget in place, the computed reward of a claimer fits into what the
    week's pool still holds: **the checked subtraction cannot fail** -/
theorem PaidRel.sub_ok {prog : Nat → Option ClaimProgress} {users : List Nat} {tot : Nat → Nat}
    {fac : Nat → Option Factors} {W wk R u0 : Nat} {fa : Factors}
    {TR : Nat → List (Weekly.Tok × Nat)} {TE F paid rem : Nat → Nat}
    (h : PaidRel prog users tot fac W TR TE F paid rem) (hu0 : u0 ∈ users)
    (hw1 : W ≤ wk + 4) (hw2 : wk < W) (hTR : TR wk = [(REW, R)]) (hfa : fac wk = some fa)
    (hc : fa.cE + fa.cF ≠ 0) (hE : TE wk ≠ 0) (hF : F wk ≠ 0) :
    boostedAmount fa R (fFor prog tot u0 wk) (F wk) (eForP prog u0 wk) (TE wk) ≤ rem wk := by
  have hB := h.budget wk hw1 hw2 hE hF fa hfa
  rw [hTR, rOf_single] at hB
  exact hB.sub_ok (Weekly.le_usum (f := fun u => eForP prog u wk) hu0)
    (Weekly.le_usum (f := fun u => fFor prog tot u wk) hu0) hc hE hF (h.frozen wk R hw1 hTR)

/-! ## the claim loop -/

/-- invariant of the claim loop of `u0` in week `W`: the relation w.r.t. the VIRTUAL table in which
    `u0`'s entry is the loop's advancing progress, plus the two bounds a freeze starts from -/
structure LoopInv (prog : Nat → Option ClaimProgress) (users : List Nat) (tot : Nat → Nat)
    (fac : Nat → Option Factors) (u0 W : Nat) (a : Weekly.ClaimAcc BSt) : Prop where
  rel : PaidRel (upd prog u0 (some a.p)) users tot fac W a.g.totalRewards a.g.totalEnergy
    a.c.farmSupplyWeek a.c.paidW a.c.remaining
  eb : ∀ w, w < W → a.g.totalEnergy w = 0 ∨
    usum users (fun u => eForP (upd prog u0 (some a.p)) u w) ≤ a.g.totalEnergy w
  pb : ∀ w, w < W → a.c.farmSupplyWeek w = 0 ∨
    usum users (fun u => fFor (upd prog u0 (some a.p)) tot u w) ≤ a.c.farmSupplyWeek w

/-- after `collect_and_get_rewards_for_week(wk)` the week is frozen and the relation holds -/
theorem collect_paidRel {prog : Nat → Option ClaimProgress} {users : List Nat} {tot : Nat → Nat}
    {fac : Nat → Option Factors} {u0 W : Nat} {mem : BCfg} {a : Weekly.ClaimAcc BSt}
    {g1 : Weekly.St} {c1 : BSt} {l : List (Weekly.Tok × Nat)}
    (hI : LoopInv prog users tot fac u0 W a) (hlo : W ≤ a.p.week + 4) (hhi : a.p.week < W)
    (hcg : Weekly.collectAndGet (collectBoosted mem) a.g a.c a.p.week = (g1, c1, l)) :
    ∃ R, l = [(REW, R)] ∧ g1.totalRewards a.p.week = [(REW, R)] ∧
      PaidRel (upd prog u0 (some a.p)) users tot fac W g1.totalRewards a.g.totalEnergy
        a.c.farmSupplyWeek a.c.paidW c1.remaining := by
  obtain ⟨hcase, hoth, hpw, _, _, hfsw, hfr⟩ := collectAndGet_boosted hcg
  rcases hcase with ⟨hemp, hl, ht, _, hr, _⟩ | ⟨hne, rfl, rfl, hl⟩
  · refine ⟨a.c.accum a.p.week, hl, ht, ?_⟩
    exact hI.rel.freeze hlo hhi (List.isEmpty_iff.mp hemp) ht (fun w hw => (hoth w hw).1) hr
      (fun w hw => (hoth w hw).2.2) (hI.eb _ hhi) (hI.pb _ hhi)
  · rcases hI.rel.shape a.p.week hlo with hnil | ⟨R, hR⟩
    · rw [hnil] at hne; simp at hne
    · exact ⟨R, by rw [hl, hR], hR, hI.rel⟩

/-- **one week of the claim loop succeeds and keeps the invariant** -/
theorem claimSingle_loopInv {prog : Nat → Option ClaimProgress} {users : List Nat} {tot : Nat → Nat}
    {fac : Nat → Option Factors} {u0 W : Nat} {mem : BCfg} {a : Weekly.ClaimAcc BSt}
    (hnd : users.Nodup) (hu0 : u0 ∈ users)
    (hfac : ∀ w, W ≤ w + 4 → w < W →
      ∃ fa, mem.factorsForWeek w = some fa ∧ fac w = some fa ∧ fa.cE + fa.cF ≠ 0)
    (hI : LoopInv prog users tot fac u0 W a) (hlo : W ≤ a.p.week + 4) (hhi : a.p.week < W) :
    ∃ a', Weekly.claimSingle (boostedRewards mem (tot u0)) a = some a' ∧
      LoopInv prog users tot fac u0 W a' := by
  obtain ⟨fa, hmf, hff, hgood⟩ := hfac a.p.week hlo hhi
  -- the virtual tables before / after the step
  have hpw1 : a.p.advanceWeek.week = a.p.week + 1 := by rw [ClaimProgress.advanceWeek_eq]
  have heq0 : eForP (upd prog u0 (some a.p)) u0 a.p.week = a.p.energy.getEnergyAmount := by
    rw [eForP_upd_same]; exact entryE_self _
  have hfq0 : fFor (upd prog u0 (some a.p)) tot u0 a.p.week = tot u0 := by
    rw [fFor_upd_same]; simp
  have hothE : ∀ u, u ≠ u0 → ∀ w, eForP (upd prog u0 (some a.p.advanceWeek)) u w =
      eForP (upd prog u0 (some a.p)) u w := by
    intro u hu w; rw [eForP_upd_other _ _ _ hu, eForP_upd_other _ _ _ hu]
  have hothF : ∀ u, u ≠ u0 → ∀ w, fFor (upd prog u0 (some a.p.advanceWeek)) tot u w =
      fFor (upd prog u0 (some a.p)) tot u w := by
    intro u hu w; rw [fFor_upd_other _ _ _ _ hu, fFor_upd_other _ _ _ _ hu]
  have hleE : ∀ w, eForP (upd prog u0 (some a.p.advanceWeek)) u0 w ≤
      eForP (upd prog u0 (some a.p)) u0 w := by
    intro w; rw [eForP_upd_same, eForP_upd_same]; exact entryE_advanceWeek_le _ _
  have hleF : ∀ w, fFor (upd prog u0 (some a.p.advanceWeek)) tot u0 w ≤
      fFor (upd prog u0 (some a.p)) tot u0 w := by
    intro w; rw [fFor_upd_same, fFor_upd_same, hpw1]
    split <;> split <;> omega
  have hzE : eForP (upd prog u0 (some a.p.advanceWeek)) u0 a.p.week = 0 := by
    rw [eForP_upd_same]; exact entryE_advanceWeek_self _
  have hzF : fFor (upd prog u0 (some a.p.advanceWeek)) tot u0 a.p.week = 0 := by
    rw [fFor_upd_same, hpw1]; simp
  have hsE : ∀ w, usum users (fun u => eForP (upd prog u0 (some a.p.advanceWeek)) u w) ≤
      usum users (fun u => eForP (upd prog u0 (some a.p)) u w) := fun w =>
    usum_le (fun u _ => by
      by_cases hu : u = u0
      · subst hu; exact hleE w
      · rw [hothE u hu w])
  have hsF : ∀ w, usum users (fun u => fFor (upd prog u0 (some a.p.advanceWeek)) tot u w) ≤
      usum users (fun u => fFor (upd prog u0 (some a.p)) tot u w) := fun w =>
    usum_le (fun u _ => by
      by_cases hu : u = u0
      · subst hu; exact hleF w
      · rw [hothF u hu w])
  have heb' : ∀ w, w < W → a.g.totalEnergy w = 0 ∨
      usum users (fun u => eForP (upd prog u0 (some a.p.advanceWeek)) u w) ≤ a.g.totalEnergy w := by
    intro w hw
    rcases hI.eb w hw with hz | hb
    · exact Or.inl hz
    · exact Or.inr (Nat.le_trans (hsE w) hb)
  have hpb' : ∀ w, w < W → a.c.farmSupplyWeek w = 0 ∨
      usum users (fun u => fFor (upd prog u0 (some a.p.advanceWeek)) tot u w) ≤ a.c.farmSupplyWeek w := by
    intro w hw
    rcases hI.pb w hw with hz | hb
    · exact Or.inl hz
    · exact Or.inr (Nat.le_trans (hsF w) hb)
  -- the reward function does not abort
  cases hr : boostedRewards mem (tot u0) a.g a.c a.p.week a.p.energy.getEnergyAmount
      (a.g.totalEnergy a.p.week) with
  | none =>
    exfalso
    obtain ⟨hE, hF, hcase⟩ := (boostedRewards_none_iff _ _ _ _ _ _ _).mp hr
    rcases hcase with hnone | ⟨fa', hfa', _, _, hbad⟩
    · rw [hmf] at hnone; cases hnone
    · rw [hmf] at hfa'
      simp only [Option.some.injEq] at hfa'
      subst hfa'
      dsimp only at hbad
      generalize hcg : Weekly.collectAndGet (collectBoosted mem) a.g a.c a.p.week = x at hbad
      obtain ⟨g1, c1, l⟩ := x
      obtain ⟨R, hl, hT, hrel⟩ := collect_paidRel hI hlo hhi hcg
      simp only at hbad
      rcases hbad with ⟨p, q, l', hmal⟩ | ⟨tok, R', hl', _, hc0 | ⟨_, hlt⟩⟩
      · rw [hl] at hmal; cases hmal
      · exact hgood hc0
      · rw [hl] at hl'
        simp only [List.cons.injEq, Prod.mk.injEq, and_true] at hl'
        obtain ⟨_, rfl⟩ := hl'
        have := hrel.sub_ok hu0 hlo hhi hT hff hgood hE hF
        rw [heq0, hfq0] at this
        omega
  | some x =>
    obtain ⟨g', c', r⟩ := x
    refine ⟨⟨g', c', a.p.advanceWeek, a.rewards ++ r⟩, ?_, ?_⟩
    · simp only [Weekly.claimSingle, hr, Option.bind_eq_bind, Option.bind_some, Option.pure_def]
    · show LoopInv prog users tot fac u0 W ⟨g', c', a.p.advanceWeek, a.rewards ++ r⟩
      rcases boostedRewards_cases hr with ⟨_, rfl, rfl⟩ | ⟨fa', c1, l, hfa', hE, hF, _, _, hcg, hrest⟩
      · -- early exit: nothing touched
        refine ⟨?_, heb', hpb'⟩
        exact hI.rel.mono (fun _ _ => Or.inl rfl) (fun _ _ => rfl) (fun _ _ _ => rfl)
          (fun w _ _ => hsE w) (fun w _ _ => hsF w)
      · rw [hmf] at hfa'
        simp only [Option.some.injEq] at hfa'
        subst hfa'
        obtain ⟨R, hl, hT, hrel⟩ := collect_paidRel hI hlo hhi hcg
        obtain ⟨_, _, hpw, _, _, hfsw, hfr⟩ := collectAndGet_boosted hcg
        have hTE : g'.totalEnergy = a.g.totalEnergy := hfr.totalEnergy
        rcases hrest with ⟨_, rfl⟩ | ⟨tok, R', hl', _, _, _, hle, _, rfl⟩
        · -- collected / read, nothing paid
          refine ⟨?_, by rw [hTE]; exact heb', by rw [hfsw]; exact hpb'⟩
          show PaidRel _ users tot fac W g'.totalRewards g'.totalEnergy c'.farmSupplyWeek c'.paidW
            c'.remaining
          rw [hTE, hfsw, hpw]
          exact hrel.mono (fun _ _ => Or.inl rfl) (fun _ _ => rfl) (fun _ _ _ => rfl)
            (fun w _ _ => hsE w) (fun w _ _ => hsF w)
        · -- paid
          rw [hl] at hl'
          simp only [List.cons.injEq, Prod.mk.injEq, and_true] at hl'
          obtain ⟨_, rfl⟩ := hl'
          have hpb2 : ∀ w, w < W → c1.farmSupplyWeek w = 0 ∨
              usum users (fun u => fFor (upd prog u0 (some a.p.advanceWeek)) tot u w) ≤
                c1.farmSupplyWeek w := by rw [hfsw]; exact hpb'
          refine ⟨?_, by rw [hTE]; exact heb', hpb2⟩
          show PaidRel _ users tot fac W g'.totalRewards g'.totalEnergy c1.farmSupplyWeek
            (upd c1.paidW a.p.week (c1.paidW a.p.week + _)) (upd c1.remaining a.p.week (c1.remaining a.p.week - _))
          rw [hTE, hfsw, hpw]
          exact hrel.pay hnd hu0 hlo hhi hT hff hE hF (by rw [heq0, hfq0]) hle hothE hothF hzE hzF
            hleE hleF

/-- **the whole claim loop succeeds and keeps the invariant** -/
theorem claimLoop_loopInv {prog : Nat → Option ClaimProgress} {users : List Nat} {tot : Nat → Nat}
    {fac : Nat → Option Factors} {u0 W : Nat} {mem : BCfg} (hnd : users.Nodup)
    (hfac : ∀ w, W ≤ w + 4 → w < W →
      ∃ fa, mem.factorsForWeek w = some fa ∧ fac w = some fa ∧ fa.cE + fa.cF ≠ 0) :
    ∀ (n : Nat) {a : Weekly.ClaimAcc BSt}, (0 < n → u0 ∈ users) → LoopInv prog users tot fac u0 W a →
      W ≤ a.p.week + 4 → a.p.week + n = W →
      ∃ a', Weekly.claimLoop (boostedRewards mem (tot u0)) n a = some a' ∧
        LoopInv prog users tot fac u0 W a' ∧ a'.p.week = W := by
  intro n
  induction n with
  | zero =>
    intro a _ hI _ hw
    exact ⟨a, rfl, hI, by omega⟩
  | succ n ih =>
    intro a hu hI hlo hw
    have hu0 := hu (Nat.succ_pos n)
    obtain ⟨a1, h1, hI1⟩ := claimSingle_loopInv (mem := mem) hnd hu0 hfac hI hlo (by omega)
    obtain ⟨_, _, hp, _⟩ := Weekly.claimSingle_spec h1
    have hw1 : a1.p.week = a.p.week + 1 := by rw [hp, ClaimProgress.advanceWeek_eq]
    obtain ⟨a', h2, hI2, hwk⟩ := ih (fun _ => hu0) hI1 (by omega) (by omega)
    refine ⟨a', ?_, hI2, hwk⟩
    simp only [Weekly.claimLoop, h1, Option.bind_some]
    exact h2

/-! ## `claim_multi` as a whole -/

theorem claimMulti_eq {σ : Type} {rw : Weekly.RewardFn σ} {g g1 : Weekly.St} {c : σ} {u W : Nat}
    {cur : Energy}
    (h1 : Weekly.updateUserEnergyForCurrentWeek g W cur (g.progress u) = some g1)
    (hle : (Weekly.startProgress (g.progress u) cur W).week ≤ W) :
    Weekly.claimMulti rw g c u W cur =
      (Weekly.claimLoop rw (Weekly.loopLen (Weekly.startProgress (g.progress u) cur W) W)
        ⟨g1, c, Weekly.loopStart (Weekly.startProgress (g.progress u) cur W) W, []⟩).bind
        (fun a => some (Weekly.setProgress a.g u (newOf cur W), a.c, a.rewards)) := by
  unfold Weekly.claimMulti
  cases hq : g.progress u with
  | none =>
    rw [hq] at h1 hle
    simp only [Weekly.startProgress] at hle
    simp only [h1, Option.bind_eq_bind, Option.bind_some, req, hle, if_true, Weekly.startProgress]
    rfl
  | some p =>
    rw [hq] at h1 hle
    simp only [Weekly.startProgress] at hle
    simp only [h1, Option.bind_eq_bind, Option.bind_some, req, hle, if_true, Weekly.startProgress]
    rfl

/-- the global update checks `last_active_week ≤ current_week` -/
theorem updateUser_week_le {g g1 : Weekly.St} {W : Nat} {cur : Energy} {p : ClaimProgress}
    (h : Weekly.updateUserEnergyForCurrentWeek g W cur (some p) = some g1) : p.week ≤ W := by
  simp only [Weekly.updateUserEnergyForCurrentWeek, Weekly.updateGlobal, Option.bind_eq_bind,
    Option.bind_eq_some_iff, req_eq_some] at h
  obtain ⟨_, _, _, hle, _⟩ := h
  exact hle

theorem shiftN_lgw : ∀ (n : Nat) {x y : Weekly.St} {t t' : Weekly.Totals},
    Weekly.shiftN n x t = some (y, t') → y.lastGlobalUpdateWeek = x.lastGlobalUpdateWeek := by
  intro n
  induction n with
  | zero =>
    intro x y t t' hh
    simp only [Weekly.shiftN, Option.some.injEq, Prod.mk.injEq] at hh
    rw [← hh.1]
  | succ n ih =>
    intro x y t t' hh
    simp only [Weekly.shiftN, Option.bind_eq_some_iff] at hh
    obtain ⟨⟨x1, t1⟩, hh1, hh2⟩ := hh
    have := ih hh2
    simp only [Weekly.shiftOnce, Option.bind_eq_bind, Option.bind_eq_some_iff, sub?_eq_some,
      Option.pure_def, Option.some.injEq, Prod.mk.injEq] at hh1
    obtain ⟨_, _, rfl, _⟩ := hh1
    exact this

/-- after the global update the weekly module's `lastGlobalUpdateWeek` is the current week -/
theorem updateUser_lgw {g g1 : Weekly.St} {W : Nat} {cur : Energy} {o : Option ClaimProgress}
    (h : Weekly.updateUserEnergyForCurrentWeek g W cur o = some g1) : g1.lastGlobalUpdateWeek = W := by
  rw [Weekly.updateUserEnergyForCurrentWeek_eq] at h
  simp only [Weekly.updateGlobal, Option.bind_eq_bind, Option.bind_eq_some_iff, req_eq_some] at h
  obtain ⟨ga, ha1, _, _, ⟨gb, bp⟩, hre, gc, htk, hen⟩ := h
  dsimp only at htk hen
  have e1 : ga.lastGlobalUpdateWeek = W := by
    unfold Weekly.performWeeklyUpdate at ha1
    split at ha1
    · rename_i hs
      simp only [Option.some.injEq] at ha1; subst ha1; exact hs
    split at ha1
    · simp only [Option.some.injEq] at ha1; subst ha1; rfl
    · simp only [Option.bind_eq_bind, Option.bind_eq_some_iff, req_eq_some] at ha1
      obtain ⟨_, _, ⟨g2, t2⟩, hs, hfin⟩ := ha1
      have e := shiftN_lgw _ hs
      split at hfin <;>
        (simp only [Option.pure_def, Option.some.injEq] at hfin; subst hfin; exact e)
  rw [(Weekly.updateTotalEnergy_spec hen).2.2.2.2.2.2.1, (Weekly.updateTotalTokens_spec htk).2.2.2.2.2.2.1,
    (Weekly.reallocate_spec hre).2.2.1.lgw, e1]

theorem entryE_loopStart_le (p : ClaimProgress) (W w : Nat) :
    entryE (Weekly.loopStart p W) w ≤ entryE p w := by
  unfold Weekly.loopStart
  split
  · exact entryE_advanceMultiple_le _ _ _
  · exact Nat.le_refl _

/-- the stored progress entry of `u0` bounds what the claim loop's start entry can claim -/
theorem eForP_loopStart_le (prog : Nat → Option ClaimProgress) (u0 : Nat) (cur : Energy) {W w : Nat}
    (hw : w < W) :
    eForP (upd prog u0 (some (Weekly.loopStart (Weekly.startProgress (prog u0) cur W) W))) u0 w ≤
      eForP prog u0 w := by
  rw [eForP_upd_same]
  cases hst : prog u0 with
  | none =>
    simp only [Weekly.startProgress]
    have : entryE (Weekly.loopStart ⟨cur, W⟩ W) w ≤ entryE ⟨cur, W⟩ w := entryE_loopStart_le _ _ _
    rw [entryE_lt ⟨cur, W⟩ hw] at this
    omega
  | some p =>
    simp only [Weekly.startProgress]
    rw [eForP_some hst]
    exact entryE_loopStart_le _ _ _

theorem fFor_virtual_le (prog : Nat → Option ClaimProgress) (tot : Nat → Nat) (u0 : Nat)
    (q : ClaimProgress) {w : Nat} (h1 : ∀ p, prog u0 = some p → p.week ≤ q.week)
    (h2 : prog u0 = none → w < q.week) :
    fFor (upd prog u0 (some q)) tot u0 w ≤ fFor prog tot u0 w := by
  rw [fFor_upd_same]
  cases hst : prog u0 with
  | none =>
    have := h2 hst
    have hn : ¬ q.week ≤ w := by omega
    rw [if_neg hn]; exact Nat.zero_le _
  | some p =>
    have := h1 p hst
    rw [fFor_some hst]
    by_cases hq : q.week ≤ w
    · have h2 : p.week ≤ w := by omega
      rw [if_pos hq, if_pos h2]
    · rw [if_neg hq]; exact Nat.zero_le _

theorem fFor_loopStart_le (prog : Nat → Option ClaimProgress) (tot : Nat → Nat) (u0 : Nat) (cur : Energy)
    {W w : Nat} (hle : (Weekly.startProgress (prog u0) cur W).week ≤ W) (hw : w < W) :
    fFor (upd prog u0 (some (Weekly.loopStart (Weekly.startProgress (prog u0) cur W) W))) tot u0 w ≤
      fFor prog tot u0 w := by
  have hlw := (Weekly.loop_window _ W hle).2.2
  apply fFor_virtual_le
  · intro p hp
    rw [hp] at hlw ⊢
    exact hlw
  · intro hn
    rw [hn] at hlw ⊢
    have : W ≤ (Weekly.loopStart (Weekly.startProgress none cur W) W).week := hlw
    omega

/-! ## the state invariant -/

/-- the factors in force for week `w` as seen from the stored config -/
def facAt (cfg : Option BCfg) (w : Nat) : Option Factors :=
  match cfg with
  | some c => c.facFor w
  | none => none

/-- the cells the invariant reads -/
structure PMV where
  progress : Nat → Option ClaimProgress
  wusers : List Nat
  total : Nat → Nat
  cfg : Option BCfg
  TR : Nat → List (Weekly.Tok × Nat)
  TE : Nat → Nat
  fsw : Nat → Nat
  paid : Nat → Nat
  rem : Nat → Nat
  epoch : Nat
  fws : Nat
  /-- `lastGlobalUpdateWeek` of the weekly module -/
  lgw : Nat

def pmv (s : St) : PMV :=
  ⟨s.w.progress, s.w.users, s.userTotal, s.b.cfg, s.w.totalRewards, s.w.totalEnergy, s.b.farmSupplyWeek,
    s.b.paidW, s.b.remaining, s.epoch, s.firstWeekStart, s.w.lastGlobalUpdateWeek⟩

/-- the budget-with-payments invariant in week `W`, on the view -/
structure PMV.Ok (v : PMV) (W : Nat) : Prop where
  week : Weekly.weekOf v.epoch v.fws = some W
  /-- the stored config has its 5 slots, is not from the future, and every factor set in it has
      `cE + cF ≠ 0` -/
  wf : ∀ c, v.cfg = some c → WF c ∧ c.lastUpdateWeek ≤ W ∧ ∀ fa ∈ c.ring, fa.cE + fa.cF ≠ 0
  /-- no week is frozen before the first configuration -/
  noCfg : v.cfg = none → ∀ w, W ≤ w + 4 → v.TR w = []
  rel : PaidRel v.progress v.wusers v.total (facAt v.cfg) W v.TR v.TE v.fsw v.paid v.rem
  /-- the weekly module's last global update is not from the future -/
  lgw : v.lgw ≤ W

/-- the invariant of a farm state in week `W` -/
def PM (s : St) (W : Nat) : Prop := (pmv s).Ok W

/-- **the budget-with-payments invariant** of a farm state -/
def PaidInv (s : St) : Prop := ∀ W, s.week = some W → PM s W

theorem PM.of_view {s s' : St} {W : Nat} (h : PM s W) (e : pmv s' = pmv s) : PM s' W := by
  unfold PM; rw [e]; exact h

theorem PM.week_eq {s : St} {W W' : Nat} (h : PM s W) (h' : s.week = some W') : W' = W := by
  have : s.week = some W := h.week
  rw [this] at h'
  simp only [Option.some.injEq] at h'
  exact h'.symm

/-- a weekly-module call for `u` (global update, then the progress entry replaced by a settled one) -/
theorem PaidRel.touch {prog : Nat → Option ClaimProgress} {users : List Nat} {tot : Nat → Nat}
    {fac : Nat → Option Factors} {W u : Nat} {o : Option ClaimProgress}
    {TR TR' : Nat → List (Weekly.Tok × Nat)} {TE TE' F paid rem : Nat → Nat}
    (h : PaidRel prog users tot fac W TR TE F paid rem)
    (hTR : ∀ w, W ≤ w + 4 → TR' w = TR w) (hTE : ∀ w, w ≠ W → TE' w = TE w ∨ TE' w = 0)
    (ho : ∀ p, o = some p → W ≤ p.week) :
    PaidRel (upd prog u o) (usersAfter users u o) tot fac W TR' TE' F paid rem := by
  have hs : ∀ p, upd prog u o u = some p → W ≤ p.week := fun p hp => ho p (by rw [upd_same] at hp; exact hp)
  refine (h.congr hTR (fun _ _ => rfl) (fun _ _ => rfl)).mono (fun w hw => hTE w (by omega))
    (fun _ _ => rfl) (fun _ _ _ => rfl) (fun w _ hw => ?_) (fun w _ hw => ?_)
  · exact usum_move_le (fun x hx => eForP_upd_other _ _ _ hx w) (eForP_settled hs hw)
  · exact usum_move_le (fun x hx => fFor_upd_other _ _ _ _ hx w) (WV.fFor_settled hs hw)

/-- rewriting the totals: only settled users may grow -/
theorem PaidRel.setTotal {prog : Nat → Option ClaimProgress} {users : List Nat} {tot tot' : Nat → Nat}
    {fac : Nat → Option Factors} {W : Nat} {TR : Nat → List (Weekly.Tok × Nat)} {TE F paid rem : Nat → Nat}
    (h : PaidRel prog users tot fac W TR TE F paid rem)
    (ht : ∀ x, tot' x ≤ tot x ∨ ∀ p, prog x = some p → W ≤ p.week) :
    PaidRel prog users tot' fac W TR TE F paid rem := by
  refine h.mono (fun _ _ => Or.inl rfl) (fun _ _ => rfl) (fun _ _ _ => rfl)
    (fun _ _ _ => Nat.le_refl _) (fun w _ hw => usum_le (fun x _ => ?_))
  rcases ht x with hle | hs
  · unfold fFor
    cases prog x with
    | none => exact Nat.le_refl _
    | some p =>
      simp only
      split
      · exact hle
      · exact Nat.le_refl _
  · rw [WV.fFor_settled hs hw]; exact Nat.zero_le _

/-- time passes: weeks that enter the window were never frozen -/
theorem PaidRel.advance {prog : Nat → Option ClaimProgress} {users : List Nat} {tot : Nat → Nat}
    {fac : Nat → Option Factors} {W W' : Nat} {TR : Nat → List (Weekly.Tok × Nat)}
    {TE F paid rem : Nat → Nat}
    (h : PaidRel prog users tot fac W TR TE F paid rem) (hW : W ≤ W') :
    PaidRel prog users tot fac W' TR TE F paid rem := by
  refine ⟨fun w hw => h.shape w (by omega), fun w hw => h.fresh w (by omega),
    fun w hw => h.unfrozen w (by omega), fun w R hw => h.frozen w R (by omega), ?_⟩
  intro w hw1 hw2 hE hF fa hfa
  by_cases hlt : w < W
  · exact h.budget w (by omega) hlt hE hF fa hfa
  · have hnil := h.fresh w (by omega)
    have hp := (h.unfrozen w (by omega) hnil).1
    rw [hnil, hp, rOf_nil]
    unfold WeekBudget
    simp

theorem mem_users_of_progress {g : Weekly.St} (hI : Weekly.GInv g) {u : Nat} (h : g.progress u ≠ none) :
    u ∈ g.users := by
  rcases hI with hp | ⟨o, hr⟩
  · exact absurd (hp.noProgress u) h
  · exact hr.p.mem u h

/-- **`claim_multi` over the farm's reward function succeeds** as soon as the weekly module's global
    update does, and keeps the relation (w.r.t. the factors of the config the claim started from) -/
theorem claimMulti_paid {s : St} {u W : Nat} {cfg mem : BCfg} {g1 : Weekly.St}
    (hP : PM s W) (hWI : WInv s) (hWP : WeekPos s)
    (hcfg : s.b.cfg = some cfg) (hmem : cfg.update W none = some mem)
    (h1 : Weekly.updateUserEnergyForCurrentWeek s.w W (Energy.queried (s.energy u) s.epoch)
      (s.w.progress u) = some g1) :
    ∃ g' c' r, Weekly.claimMulti (boostedRewards mem (s.userTotal u)) s.w s.b u W
        (Energy.queried (s.energy u) s.epoch) = some (g', c', r) ∧
      (c'.cfg = some cfg ∨ c'.cfg = some mem) ∧ g'.lastGlobalUpdateWeek = W ∧
      PaidRel g'.progress g'.users s.userTotal cfg.facFor W g'.totalRewards g'.totalEnergy
        c'.farmSupplyWeek c'.paidW c'.remaining := by
  generalize hcur : Energy.queried (s.energy u) s.epoch = cur at *
  obtain ⟨hWF, hL, hgood⟩ := hP.wf cfg hcfg
  have hWk : s.week = some W := hP.week
  have hnd : s.w.users.Nodup := hWP.nodup
  -- the start progress is not from the future
  have hle : (Weekly.startProgress (s.w.progress u) cur W).week ≤ W := by
    cases hq : s.w.progress u with
    | none => exact Nat.le_refl _
    | some p => rw [hq] at h1; exact updateUser_week_le h1
  obtain ⟨hlw1, hlw2, _⟩ := Weekly.loop_window _ W hle
  -- the factors of the window
  have hfac : ∀ w, W ≤ w + 4 → w < W →
      ∃ fa, mem.factorsForWeek w = some fa ∧ cfg.facFor w = some fa ∧ fa.cE + fa.cF ≠ 0 := by
    intro w hw1 hw2
    obtain ⟨fa, hfa⟩ := facFor_some hWF hL (show W < w + 5 by omega)
    exact ⟨fa, by rw [(facFor_update hWF hmem hw2 (by omega)).1]; exact hfa, hfa,
      hgood fa (facFor_mem hWF hfa)⟩
  -- frames of the global update
  have hfrE := Weekly.updateGlobal_energy_frame
    (by rw [← Weekly.updateUserEnergyForCurrentWeek_eq]; exact h1)
  have hfrR : ∀ w, W ≤ w + 4 → g1.totalRewards w = s.w.totalRewards w :=
    fun w hw => updateUserEnergy_totalRewards h1 w (by omega)
  obtain ⟨hp1, hu1⟩ := Weekly.updateUser_frame h1
  have hrel0 : PaidRel s.w.progress s.w.users s.userTotal cfg.facFor W s.w.totalRewards
      s.w.totalEnergy s.b.farmSupplyWeek s.b.paidW s.b.remaining := by
    have := hP.rel
    have e : facAt (pmv s).cfg = cfg.facFor := by
      show facAt s.b.cfg = _; rw [hcfg]; rfl
    rw [e] at this
    exact this
  -- the sums of the virtual start table are within those of the stored table
  have hsE : ∀ w, w < W → usum s.w.users (fun x => eForP (upd s.w.progress u
      (some (Weekly.loopStart (Weekly.startProgress (s.w.progress u) cur W) W))) x w) ≤
      usum s.w.users (fun x => eForP s.w.progress x w) := fun w hw =>
    usum_le (fun x _ => by
      by_cases hx : x = u
      · subst hx; exact eForP_loopStart_le _ _ _ hw
      · rw [eForP_upd_other _ _ _ hx])
  have hsF : ∀ w, w < W → usum s.w.users (fun x => fFor (upd s.w.progress u
      (some (Weekly.loopStart (Weekly.startProgress (s.w.progress u) cur W) W))) s.userTotal x w) ≤
      usum s.w.users (fun x => fFor s.w.progress s.userTotal x w) := fun w hw =>
    usum_le (fun x _ => by
      by_cases hx : x = u
      · subst hx; exact fFor_loopStart_le _ _ _ _ hle hw
      · rw [fFor_upd_other _ _ _ _ hx])
  have hstart : LoopInv s.w.progress s.w.users s.userTotal cfg.facFor u W
      ⟨g1, s.b, Weekly.loopStart (Weekly.startProgress (s.w.progress u) cur W) W, []⟩ := by
    refine ⟨?_, ?_, ?_⟩
    · exact (hrel0.congr hfrR (fun _ _ => rfl) (fun _ _ => rfl)).mono
        (fun w hw => hfrE w (by omega)) (fun _ _ => rfl) (fun _ _ _ => rfl)
        (fun w _ hw => hsE w hw) (fun w _ hw => hsF w hw)
    · intro w hw
      rcases hfrE w (by omega) with e | e
      · rcases hWI.2 w with hz | hb
        · left; show g1.totalEnergy w = 0; rw [e]; exact hz
        · right
          show _ ≤ g1.totalEnergy w
          rw [e]
          exact Nat.le_trans (hsE w hw) hb
      · exact Or.inl e
    · intro w hw
      rcases hWP.past W hWk w hw with hz | hb
      · exact Or.inl hz
      · exact Or.inr (Nat.le_trans (hsF w hw) hb)
  have hmemU : 0 < Weekly.loopLen (Weekly.startProgress (s.w.progress u) cur W) W → u ∈ s.w.users := by
    intro hpos
    apply mem_users_of_progress hWI.1
    intro hnone
    rw [hnone] at hpos
    simp [Weekly.loopLen, Weekly.startProgress] at hpos
  obtain ⟨a', hloop, hI', hwk⟩ := claimLoop_loopInv (mem := mem) hnd hfac _ hmemU hstart
    (by dsimp only; omega) (by dsimp only; omega)
  obtain ⟨fr, _⟩ := Weekly.claimLoop_frame (boostedRewards_frame _ _) _ hloop
  simp only at fr
  have hcfg' := (claimLoop_pool _ hloop).cfg
  simp only at hcfg'
  rw [hcfg] at hcfg'
  refine ⟨Weekly.setProgress a'.g u (newOf cur W), a'.c, a'.rewards, ?_, hcfg', ?_, ?_⟩
  · rw [claimMulti_eq h1 hle, hloop]; rfl
  · show a'.g.lastGlobalUpdateWeek = W
    rw [fr.lgw]; exact updateUser_lgw h1
  · show PaidRel (upd a'.g.progress u (newOf cur W)) (usersAfter a'.g.users u (newOf cur W)) s.userTotal
      cfg.facFor W a'.g.totalRewards a'.g.totalEnergy a'.c.farmSupplyWeek a'.c.paidW a'.c.remaining
    rw [fr.progress, hp1, fr.users, hu1]
    have hs : ∀ p, upd s.w.progress u (newOf cur W) u = some p → W ≤ p.week := fun p hp =>
      Nat.le_of_eq (Weekly.newOf_week p (by rw [upd_same] at hp; exact hp)).symm
    refine hI'.rel.mono (fun _ _ => Or.inl rfl) (fun _ _ => rfl) (fun _ _ _ => rfl)
      (fun w _ hw => ?_) (fun w _ hw => ?_)
    · exact usum_move_le (fun x hx => by rw [eForP_upd_other _ _ _ hx, eForP_upd_other _ _ _ hx])
        (eForP_settled hs hw)
    · exact usum_move_le
        (fun x hx => by rw [fFor_upd_other _ _ _ _ hx, fFor_upd_other _ _ _ _ hx])
        (WV.fFor_settled hs hw)

/-! ## helpers on the state -/

/-- `u`'s progress entry is cleared or at week `≥ W` -/
def SettledS (s : St) (W u : Nat) : Prop := ∀ p, s.w.progress u = some p → W ≤ p.week

theorem SettledS.of_view {s s' : St} {W u : Nat} (h : SettledS s W u) (e : pmv s' = pmv s) :
    SettledS s' W u := by
  have : s'.w.progress = s.w.progress := congrArg PMV.progress e
  unfold SettledS; rw [this]; exact h

theorem takePayments_pmv {l : List (Nat × Nat)} {s s' : St} {c : Nat} (h : takePayments s c l = some s') :
    pmv s' = pmv s := by obtain ⟨_, rfl⟩ := takePayments_spec l h; rfl
theorem createToken_pmv {s s' : St} {d n : Nat} {a : Attr} (h : createToken s d a = some (s', n)) :
    pmv s' = pmv s := by obtain ⟨_, _, rfl⟩ := createToken_spec h; rfl
theorem generate_pmv {s s' : St} {c c' : Cache} (h : generate s c = some (s', c')) : pmv s' = pmv s := by
  obtain ⟨b', rfl, _, _, hb⟩ := generate_spec h
  rcases hb with ⟨_, rfl⟩ | ⟨_, W, _, rfl⟩ <;> rfl
theorem payReward_pmv {s s' : St} {u b bo : Nat} (h : payReward s u b bo = some s') :
    pmv s' = pmv s := by obtain ⟨_, _, rfl, _⟩ := payReward_spec h; rfl
theorem payRewardIf_pmv {s s' : St} {k : Kind} {u b bo : Nat} (h : payRewardIf s k u b bo = some s') :
    pmv s' = pmv s := by
  unfold payRewardIf at h
  split at h
  · exact payReward_pmv h
  · simp only [Option.some.injEq] at h; rw [← h]
theorem removeFarming_pmv {s s' : St} {a p : Nat} (h : removeFarming s a p = some s') : pmv s' = pmv s := by
  simp only [removeFarming, Option.bind_eq_bind, Option.bind_eq_some_iff, sub?_eq_some, Option.pure_def,
    Option.some.injEq] at h
  obtain ⟨_, _, rfl⟩ := h; rfl
theorem compoundMove_pmv {s s' : St} {b bo : Nat} (h : compoundMove s b bo = some s') : pmv s' = pmv s := by
  simp only [compoundMove, Option.bind_eq_bind, Option.bind_eq_some_iff, sub?_eq_some, Option.pure_def,
    Option.some.injEq] at h
  obtain ⟨_, _, rfl⟩ := h; rfl
theorem settle_pmv {s s' : St} (h : settle s = some s') : pmv s' = pmv s := by
  simp only [settle, Option.bind_eq_bind, Option.bind_eq_some_iff, Option.pure_def, Option.some.injEq] at h
  obtain ⟨⟨s1, c1⟩, h1, rfl⟩ := h
  exact (generate_pmv h1 : pmv s1 = pmv s)

/-- the totals are rewritten; only settled users may grow -/
theorem PM.setTotal {s : St} {W : Nat} (hP : PM s W) {t : Nat → Nat}
    (ht : ∀ x, t x ≤ s.userTotal x ∨ ∀ p, s.w.progress x = some p → W ≤ p.week) :
    PM { s with userTotal := t } W :=
  ⟨hP.week, hP.wf, hP.noCfg, PaidRel.setTotal hP.rel ht, hP.lgw⟩

theorem PM.bump {s : St} {W u : Nat} (hP : PM s W) (hS : SettledS s W u) {t : Nat → Nat}
    (ht : ∀ x, x ≠ u → t x ≤ s.userTotal x) : PM { s with userTotal := t } W := by
  apply hP.setTotal
  intro x
  by_cases hx : x = u
  · subst hx; exact Or.inr hS
  · exact Or.inl (ht x hx)

theorem checkAndUpdate_pm {l : List (Nat × Nat)} {s s' : St} {W u : Nat} (hP : PM s W)
    (hS : SettledS s W u) (h : checkAndUpdate s u l = some s') : PM s' W ∧ SettledS s' W u := by
  obtain ⟨t, e, ht⟩ := checkAndUpdate_wv l h
  obtain ⟨t', rfl⟩ := checkAndUpdate_spec l h
  have : t' = t := congrArg WV.total e
  subst this
  exact ⟨hP.bump hS ht, hS⟩

theorem setFarmSupplyWeek_pm {s s' : St} {W x : Nat} (hP : PM s W) (h : setFarmSupplyWeek s x = some s') :
    PM s' W := by
  obtain ⟨W', hW', rfl⟩ := setFarmSupplyWeek_spec h
  have := hP.week_eq hW'
  subst this
  refine ⟨hP.week, hP.wf, hP.noCfg, ?_, hP.lgw⟩
  exact hP.rel.mono (fun _ _ => Or.inl rfl)
    (fun w hw => by
      show upd s.b.farmSupplyWeek W' x w = s.b.farmSupplyWeek w
      rw [upd_other _ _ (by omega : w ≠ W')])
    (fun _ _ _ => rfl) (fun _ _ _ => Nat.le_refl _) (fun _ _ _ => Nat.le_refl _)

/-- a weekly-module call for `u` that is not a claim: the global update, then `u`'s entry replaced -/
theorem weekly_touch_pm {s : St} {W u : Nat} {g1 : Weekly.St} {cur : Energy} {o : Option ClaimProgress}
    (hP : PM s W)
    (h1 : Weekly.updateUserEnergyForCurrentWeek s.w W cur (s.w.progress u) = some g1)
    (ho : ∀ p, o = some p → p.week = W) :
    PM { s with w := Weekly.setProgress g1 u o } W ∧
      SettledS { s with w := Weekly.setProgress g1 u o } W u := by
  have hfrE := Weekly.updateGlobal_energy_frame
    (by rw [← Weekly.updateUserEnergyForCurrentWeek_eq]; exact h1)
  have hfrR : ∀ w, W ≤ w + 4 → g1.totalRewards w = s.w.totalRewards w :=
    fun w hw => updateUserEnergy_totalRewards h1 w (by omega)
  obtain ⟨hp1, hu1⟩ := Weekly.updateUser_frame h1
  have ho' : ∀ p, o = some p → W ≤ p.week := fun p hp => Nat.le_of_eq (ho p hp).symm
  refine ⟨⟨hP.week, hP.wf, fun hn w hw => ?_, ?_,
    (by show g1.lastGlobalUpdateWeek ≤ W; rw [updateUser_lgw h1])⟩, ?_⟩
  · show g1.totalRewards w = []
    rw [hfrR w hw]; exact hP.noCfg hn w hw
  · show PaidRel (upd g1.progress u o) (usersAfter g1.users u o) s.userTotal (facAt s.b.cfg) W
      g1.totalRewards g1.totalEnergy s.b.farmSupplyWeek s.b.paidW s.b.remaining
    rw [hp1, hu1]
    exact hP.rel.touch hfrR hfrE ho'
  · intro p hp
    have : upd g1.progress u o u = some p := hp
    rw [upd_same] at this
    exact ho' p this

theorem updateEnergyAndProgress_pm {s s' : St} {W u : Nat} (hP : PM s W)
    (h : updateEnergyAndProgress s u = some s') : PM s' W ∧ SettledS s' W u := by
  simp only [updateEnergyAndProgress, Option.bind_eq_bind, Option.bind_eq_some_iff, Option.pure_def,
    Option.some.injEq] at h
  obtain ⟨W', hW', g, hg, rfl⟩ := h
  have := hP.week_eq hW'
  subst this
  simp only [Weekly.updateEnergyAndProgress, Option.bind_eq_bind, Option.bind_eq_some_iff,
    Option.pure_def, Option.some.injEq] at hg
  obtain ⟨g1, h1, rfl⟩ := hg
  exact weekly_touch_pm (o := newOf (Energy.queried (s.energy u) s.epoch) W') hP h1 Weekly.newOf_week

theorem updateEnergyForUser_pm {s s' : St} {W u : Nat} (hP : PM s W)
    (h : updateEnergyForUser s u = some s') : PM s' W := by
  simp only [updateEnergyForUser, Option.bind_eq_bind, Option.bind_eq_some_iff, Option.pure_def,
    Option.some.injEq] at h
  obtain ⟨W', hW', g, hg, rfl⟩ := h
  have hg2 : Weekly.updateEnergyAndProgress s.w u W' (Energy.queried (s.energy u) s.epoch) = some g := by
    unfold Weekly.updateEnergyForUser at hg
    cases hq : s.w.progress u with
    | none =>
      simp only [hq, Option.bind_eq_bind, Option.pure_def, Option.bind_some] at hg
      exact hg
    | some p =>
      simp only [hq, Option.bind_eq_bind, Option.bind_eq_some_iff] at hg
      obtain ⟨_, _, h2⟩ := hg
      exact h2
  have h' : updateEnergyAndProgress s u = some { s with w := g } := by
    simp only [updateEnergyAndProgress, hW', hg2, Option.bind_eq_bind, Option.bind_some, Option.pure_def]
  exact (updateEnergyAndProgress_pm hP h').1

theorem clearUserEnergyIfNeeded_pm {s s' : St} {W u : Nat} (hP : PM s W) (hS : SettledS s W u)
    (h : clearUserEnergyIfNeeded s u = some s') : PM s' W ∧ SettledS s' W u := by
  unfold clearUserEnergyIfNeeded at h
  split at h
  · simp only [Option.some.injEq] at h; subst h; exact ⟨hP, hS⟩
  · simp only [Option.bind_eq_bind, Option.bind_eq_some_iff, Option.pure_def, Option.some.injEq] at h
    obtain ⟨W', hW', mem, _, g, hg, rfl⟩ := h
    have := hP.week_eq hW'
    subst this
    unfold Weekly.clearUserEnergy at hg
    split at hg
    · simp only [Option.some.injEq] at hg; subst hg; exact ⟨hP, hS⟩
    · simp only [Option.bind_eq_bind, Option.bind_eq_some_iff, Option.pure_def, Option.some.injEq] at hg
      obtain ⟨g1, h1, rfl⟩ := hg
      exact weekly_touch_pm (o := none) hP h1 (fun p hp => by cases hp)

/-- **the boosted claim keeps the invariant** (and settles the claimer) -/
theorem claimBoostedYields_pm {s s' : St} {u r W : Nat} (hP : PM s W) (hWI : WInv s) (hWP : WeekPos s)
    (h : claimBoostedYields s u = some (s', r)) : PM s' W ∧ SettledS s' W u := by
  have h0 := h
  unfold claimBoostedYields at h
  split at h
  · rename_i hc
    exact updateEnergyAndProgress_pm hP (claimBoostedYields_none_spec hc h0).2
  · rename_i cfg hc
    simp only [Option.bind_eq_bind, Option.bind_eq_some_iff, Option.pure_def, Option.some.injEq,
      Prod.mk.injEq] at h
    obtain ⟨W', hW', mem, hmem, ⟨g', c', rl⟩, hx, hs', _⟩ := h
    have := hP.week_eq hW'
    subst this
    obtain ⟨g1, _, h1, _⟩ := Weekly.claimMulti_spec hx
    obtain ⟨g'', c'', r'', hx', hcfg', hlg, hrel⟩ := claimMulti_paid hP hWI hWP hc hmem h1
    rw [hx] at hx'
    simp only [Option.some.injEq, Prod.mk.injEq] at hx'
    obtain ⟨rfl, rfl, _⟩ := hx'
    obtain ⟨hWF, hL, hgood⟩ := hP.wf cfg hc
    obtain ⟨hWF', hL'⟩ := BCfg.update_wf hWF hmem
    have hgood' := ring_update (P := fun fa => fa.cE + fa.cF ≠ 0) hWF hmem hgood
      (fun f hf => by cases hf)
    subst hs'
    refine ⟨⟨hP.week, ?_, ?_, ?_, (by show g'.lastGlobalUpdateWeek ≤ W'; rw [hlg])⟩, ?_⟩
    · intro c hcc
      have hcc' : c'.cfg = some c := hcc
      rcases hcfg' with e | e
      · rw [e] at hcc'; simp only [Option.some.injEq] at hcc'; subst hcc'; exact ⟨hWF, hL, hgood⟩
      · rw [e] at hcc'; simp only [Option.some.injEq] at hcc'; subst hcc'
        exact ⟨hWF', Nat.le_of_eq hL', hgood'⟩
    · intro hn
      have hn' : c'.cfg = none := hn
      rcases hcfg' with e | e <;> rw [e] at hn' <;> cases hn'
    · show PaidRel g'.progress g'.users s.userTotal (facAt c'.cfg) W' g'.totalRewards g'.totalEnergy
        c'.farmSupplyWeek c'.paidW c'.remaining
      refine hrel.mono (fun _ _ => Or.inl rfl) (fun _ _ => rfl) (fun w hw1 hw2 => ?_)
        (fun _ _ _ => Nat.le_refl _) (fun _ _ _ => Nat.le_refl _)
      rcases hcfg' with e | e
      · rw [e]; rfl
      · rw [e]; exact (facFor_update hWF hmem hw2 (by omega)).2
    · obtain ⟨W2, hW2, hp⟩ := claimBoostedYields_progress h0
      have := hP.week_eq hW2
      subst this
      intro p hpp
      exact Nat.le_of_eq (hp p hpp).symm

theorem claimOnlyBoostedPayment_pm {s s' : St} {u r W : Nat} (hP : PM s W) (hWI : WInv s)
    (hWP : WeekPos s) (h : claimOnlyBoostedPayment s u = some (s', r)) : PM s' W ∧ SettledS s' W u := by
  simp only [claimOnlyBoostedPayment, Option.bind_eq_bind, Option.bind_eq_some_iff, Option.pure_def] at h
  obtain ⟨⟨s1, r1⟩, h1, h⟩ := h
  have k := claimBoostedYields_pm hP hWI hWP h1
  split at h
  · simp only [Option.some.injEq, Prod.mk.injEq] at h
    obtain ⟨rfl, _⟩ := h; exact k
  · simp only [Option.bind_eq_some_iff, sub?_eq_some, Option.some.injEq, Prod.mk.injEq] at h
    obtain ⟨_, _, rfl, _⟩ := h
    exact ⟨k.1.of_view rfl, k.2.of_view rfl⟩

theorem claimTail_pm {s s' : St} {c : Bool} {u b bo W : Nat} (hP : PM s W) (hS : SettledS s W u)
    (h : claimTail s c u b bo = some s') : PM s' W := by
  unfold claimTail at h
  split at h
  · simp only [Option.bind_eq_some_iff] at h
    obtain ⟨s1, h1, h2⟩ := h
    exact (updateEnergyAndProgress_pm (hP.of_view (compoundMove_pmv h1)) h2).1
  · exact hP.of_view (payReward_pmv h)

/-! ## endpoints -/

theorem SettledS.of_prog {s s' : St} {W u : Nat} (h : SettledS s W u) (e : s'.w.progress = s.w.progress) :
    SettledS s' W u := by unfold SettledS; rw [e]; exact h

theorem PM.toInv {s : St} {W : Nat} (h : PM s W) : PaidInv s := by
  intro W' hW'
  have := h.week_eq hW'
  subst this
  exact h

theorem PaidInv.of_view {s s' : St} (h : PaidInv s) (e : pmv s' = pmv s) : PaidInv s' := by
  intro W hW
  have he : s'.epoch = s.epoch := congrArg PMV.epoch e
  have hf : s'.firstWeekStart = s.firstWeekStart := congrArg PMV.fws e
  have : s.week = some W := by
    unfold St.week at hW ⊢; rw [← he, ← hf]; exact hW
  exact (h W this).of_view e

theorem WeekPos.week {s : St} (h : WeekPos s) : ∃ W, s.week = some W := week_of_time h.time

theorem enterCore_paidInv {s s' : St} {caller orig tokenTo amt : Nat} {extra : List (Nat × Nat)} {o : Out}
    (hWI : WInv s) (hWP : WeekPos s) (hP : PaidInv s)
    (h : enterCore s caller orig tokenTo amt extra = some (s', o)) : PaidInv s' := by
  obtain ⟨W, hW⟩ := hWP.week
  simp only [enterCore, Option.bind_eq_bind, Option.bind_eq_some_iff, req_eq_some, Option.pure_def,
    Option.some.injEq, Prod.mk.injEq] at h
  obtain ⟨_, _, s0, h0, ⟨s1, boosted⟩, h1, s1', h1', _, hact, s2, h2, ⟨s4, c1⟩, h4, merged, hm,
    ⟨s5, n⟩, h5, s6, h6, s8, h8, s9, h9, rfl, rfl⟩ := h
  have p0 : PM (addFarming s0 amt) W := (hP W hW).of_view (takePayments_pmv h0 : pmv s0 = pmv s)
  have wi0 : WInv (addFarming s0 amt) := hWI.of_w (takePayments_w h0 : s0.w = s.w)
  have wp0 : WeekPos (addFarming s0 amt) := hWP.of_wv (takePayments_wv h0 : wv s0 = wv s)
  obtain ⟨p1, st1⟩ := claimOnlyBoostedPayment_pm p0 wi0 wp0 h1
  have p1' := p1.of_view (payRewardIf_pmv h1')
  have st1' := st1.of_view (payRewardIf_pmv h1')
  obtain ⟨p2, st2⟩ := checkAndUpdate_pm p1' st1' h2
  have p3 : PM (increaseUser s2 orig amt) W :=
    p2.bump st2 (fun x hx => by
      show upd s2.userTotal orig _ x ≤ _
      rw [upd_other _ _ hx])
  have p5 : PM s5 W := (p3.of_view (generate_pmv h4)).of_view (createToken_pmv h5)
  have p6 := setFarmSupplyWeek_pm p5 h6
  have p8 : PM s8 W := (p6.of_view (s' := Cache.drop s6 _) rfl).of_view (payRewardIf_pmv h8)
  exact (updateEnergyAndProgress_pm p8 h9).1.toInv

theorem claimCore_paidInv {s s' : St} {caller orig : Nat} {pays : List (Nat × Nat)} {cmp : Bool} {o : Out}
    (hWI : WInv s) (hWP : WeekPos s) (hP : PaidInv s)
    (h : claimCore s caller orig pays cmp = some (s', o)) : PaidInv s' := by
  obtain ⟨W, hW⟩ := hWP.week
  unfold claimCore at h
  replace h := bpeel h; obtain ⟨⟨n1, a1⟩, hhead, h⟩ := h
  replace h := bpeel h; obtain ⟨s0, h0, h⟩ := h
  replace h := bpeel h; obtain ⟨_, _, h⟩ := h
  replace h := bpeel h; obtain ⟨_, _, h⟩ := h
  replace h := bpeel h; obtain ⟨at1, hat, h⟩ := h
  replace h := bpeel h; obtain ⟨⟨s1, c1⟩, h1, h⟩ := h
  replace h := bpeel h; obtain ⟨part, hpart, h⟩ := h
  replace h := bpeel h; obtain ⟨⟨s2, boosted⟩, h2, h⟩ := h
  replace h := bpeel h; obtain ⟨res, _, h⟩ := h
  replace h := bpeel h; obtain ⟨s3, h3, h⟩ := h
  replace h := bpeel h; obtain ⟨merged, hm, h⟩ := h
  replace h := bpeel h; obtain ⟨⟨s5, n⟩, h5, h⟩ := h
  replace h := bpeel h; obtain ⟨s6, h6, h⟩ := h
  replace h := bpeel h; obtain ⟨s8, h8, h⟩ := h
  simp only [Option.pure_def, Option.some.injEq, Prod.mk.injEq] at h
  obtain ⟨rfl, _⟩ := h
  have p1 : PM s1 W := ((hP W hW).of_view (takePayments_pmv h0)).of_view (generate_pmv h1)
  have wi1 : WInv s1 := (hWI.of_w (takePayments_w h0)).of_w (generate_w h1)
  have wp1 : WeekPos s1 := (hWP.of_wv (takePayments_wv h0)).of_wv (generate_wv h1).1
  obtain ⟨p2, st2⟩ := claimBoostedYields_pm p1 wi1 wp1 h2
  obtain ⟨p3, st3⟩ := checkAndUpdate_pm p2 st2 h3
  generalize baseReward s1.dsc c1.rps a1 part.rps = B at *
  have p4 : PM (if cmp = true then increaseUser s3 orig (B + boosted) else s3) W := by
    cases cmp
    · exact p3
    · exact p3.bump st3 (fun x hx => by
        show upd s3.userTotal orig _ x ≤ _
        rw [upd_other _ _ hx])
  have st4 : SettledS (if cmp = true then increaseUser s3 orig (B + boosted) else s3) W orig := by
    cases cmp
    · exact st3
    · exact st3.of_prog rfl
  have p5 : PM s5 W := p4.of_view (createToken_pmv h5)
  have st5 : SettledS s5 W orig := st4.of_view (createToken_pmv h5)
  have p6 := setFarmSupplyWeek_pm p5 h6
  have st6 : SettledS s6 W orig := by
    obtain ⟨_, _, rfl⟩ := setFarmSupplyWeek_spec h6
    exact st5.of_prog rfl
  exact (claimTail_pm (s := Cache.drop s6 _) (p6.of_view rfl) (st6.of_prog rfl) h8).toInv

theorem exitFarm_paidInv {s s' : St} {caller : Nat} {opt : Option Nat} {n a : Nat} {o : Out}
    (hWI : WInv s) (hWP : WeekPos s) (hP : PaidInv s)
    (h : exitFarm s caller opt n a = some (s', o)) : PaidInv s' := by
  obtain ⟨W, hW⟩ := hWP.week
  unfold exitFarm at h
  replace h := bpeel h; obtain ⟨orig, _, h⟩ := h
  replace h := bpeel h; obtain ⟨s0, h0, h⟩ := h
  replace h := bpeel h; obtain ⟨_, _, h⟩ := h
  replace h := bpeel h; obtain ⟨att, hat, h⟩ := h
  replace h := bpeel h; obtain ⟨⟨s1, c1⟩, h1, h⟩ := h
  replace h := bpeel h; obtain ⟨part, hpart, h⟩ := h
  replace h := bpeel h; obtain ⟨⟨s2, boosted⟩, h2, h⟩ := h
  replace h := bpeel h; obtain ⟨res, _, h⟩ := h
  replace h := bpeel h; obtain ⟨sup, hsup, h⟩ := h
  replace h := bpeel h; obtain ⟨s4, h4, h⟩ := h
  replace h := bpeel h; obtain ⟨pen, hpen, h⟩ := h
  replace h := bpeel h; obtain ⟨out, _, h⟩ := h
  replace h := bpeel h; obtain ⟨s6, h6, h⟩ := h
  replace h := bpeel h; obtain ⟨s7, h7, h⟩ := h
  replace h := bpeel h; obtain ⟨s8, h8, h⟩ := h
  simp only [Option.pure_def, Option.some.injEq, Prod.mk.injEq] at h
  obtain ⟨rfl, _⟩ := h
  have p1 : PM s1 W := ((hP W hW).of_view (takePayments_pmv h0)).of_view (generate_pmv h1)
  have wi1 : WInv s1 := (hWI.of_w (takePayments_w h0)).of_w (generate_w h1)
  have wp1 : WeekPos s1 := (hWP.of_wv (takePayments_wv h0)).of_wv (generate_wv h1).1
  obtain ⟨p2, st2⟩ := claimBoostedYields_pm p1 wi1 wp1 h2
  have p3 : PM (decreaseOwner s2 att.owner a) W := by
    apply p2.setTotal
    intro x
    left
    show upd s2.userTotal att.owner _ x ≤ _
    by_cases hx : x = att.owner
    · subst hx; rw [upd_same]; exact Nat.sub_le _ _
    · rw [upd_other _ _ hx]
  have st3 : SettledS (decreaseOwner s2 att.owner a) W orig := st2.of_prog rfl
  have p4 := setFarmSupplyWeek_pm p3 h4
  have st4 : SettledS s4 W orig := by
    obtain ⟨_, _, rfl⟩ := setFarmSupplyWeek_spec h4
    exact st3.of_prog rfl
  have p7 : PM s7 W := ((p4.of_view (s' := Cache.drop s4 _) rfl).of_view (removeFarming_pmv h6)).of_view
    (payReward_pmv h7)
  have st7 : SettledS s7 W orig := ((st4.of_prog (s' := Cache.drop s4 _) rfl).of_view
    (removeFarming_pmv h6)).of_view (payReward_pmv h7)
  exact (clearUserEnergyIfNeeded_pm p7 st7 h8).1.toInv

theorem mergeFarmTokens_paidInv {s s' : St} {caller : Nat} {opt : Option Nat} {pays : List (Nat × Nat)}
    {o : Out} (hWI : WInv s) (hWP : WeekPos s) (hP : PaidInv s)
    (h : mergeFarmTokens s caller opt pays = some (s', o)) : PaidInv s' := by
  obtain ⟨W, hW⟩ := hWP.week
  simp only [mergeFarmTokens, Option.bind_eq_bind, Option.bind_eq_some_iff, req_eq_some, Option.pure_def,
    Option.some.injEq, Prod.mk.injEq] at h
  obtain ⟨_, hact, orig, _, _, _, s0, h0, ⟨s1, boosted⟩, h1, s2, h2, merged, hm, ⟨s3, n⟩, h3, s4, h4, rfl, rfl⟩ := h
  have p0 : PM s0 W := (hP W hW).of_view (takePayments_pmv h0)
  obtain ⟨p1, st1⟩ := claimOnlyBoostedPayment_pm p0 (hWI.of_w (takePayments_w h0))
    (hWP.of_wv (takePayments_wv h0)) h1
  obtain ⟨p2, _⟩ := checkAndUpdate_pm p1 st1 h2
  exact ((p2.of_view (createToken_pmv h3)).of_view (payReward_pmv h4)).toInv

theorem claimBoostedRewards_paidInv {s s' : St} {caller : Nat} {optUser : Option Nat} {o : Out}
    (hWI : WInv s) (hWP : WeekPos s) (hP : PaidInv s)
    (h : claimBoostedRewards s caller optUser = some (s', o)) : PaidInv s' := by
  obtain ⟨W, hW⟩ := hWP.week
  simp only [claimBoostedRewards, Option.bind_eq_bind, Option.bind_eq_some_iff, req_eq_some, Option.pure_def,
    Option.some.injEq, Prod.mk.injEq, sub?_eq_some] at h
  obtain ⟨_, _, _, _, _, hact, ⟨s1, c1⟩, h1, ⟨s2, boosted⟩, h2, res, ⟨hle, rfl⟩, s3, h3, s4, h4, rfl, rfl⟩ := h
  have p1 : PM s1 W := (hP W hW).of_view (generate_pmv h1)
  obtain ⟨p2, _⟩ := claimBoostedYields_pm p1 (hWI.of_w (generate_w h1)) (hWP.of_wv (generate_wv h1).1) h2
  have p4 : PM s4 W := (setFarmSupplyWeek_pm p2 h3).of_view (payReward_pmv h4)
  exact (p4.of_view (s' := Cache.drop s4 _) rfl).toInv

/-! ## every operation -/

/-- with no week of the window frozen the factors do not matter -/
theorem PaidRel.refac {prog : Nat → Option ClaimProgress} {users : List Nat} {tot : Nat → Nat}
    {fac fac' : Nat → Option Factors} {W : Nat} {TR : Nat → List (Weekly.Tok × Nat)}
    {TE F paid rem : Nat → Nat}
    (h : PaidRel prog users tot fac W TR TE F paid rem) (hnil : ∀ w, W ≤ w + 4 → TR w = []) :
    PaidRel prog users tot fac' W TR TE F paid rem := by
  refine ⟨h.shape, h.fresh, h.unfrozen, h.frozen, ?_⟩
  intro w hw1 hw2 hE hF fa hfa
  have hn := hnil w hw1
  have hp := (h.unfrozen w hw1 hn).1
  rw [hn, hp, rOf_nil]
  unfold WeekBudget
  simp

theorem init_paidInv (kind : Kind) (sameTok : Bool) (dsc perBlock : Nat) (produce : Bool) (users : List Nat)
    (e0 : Nat) : PaidInv (init kind sameTok dsc perBlock produce users e0) := by
  intro W hW
  refine ⟨hW, fun c hc => (by cases hc), fun _ _ _ => rfl, ?_, (by show (0 : Nat) ≤ W; exact Nat.zero_le _)⟩
  refine ⟨fun _ _ => Or.inl rfl, fun _ _ => rfl, fun _ _ _ => ⟨rfl, rfl⟩, fun w R _ hf => (by cases hf), ?_⟩
  intro w _ _ _ _ fa hfa
  cases hfa

/-- every operation keeps the budget-with-payments invariant; `setFactors` must install factors with
    `cE + cF ≠ 0` (the explicit hypothesis on the history) -/
theorem step_paidInv {s s' : St} {op : Op} {o : Out} (hWI : WInv s) (hWP : WeekPos s) (hP : PaidInv s)
    (hgood : ∀ c f, op = .setFactors c f → f.cE + f.cF ≠ 0)
    (h : step s op = some (s', o)) : PaidInv s' := by
  cases op <;> simp only [step, known] at h
  case enter c oo a e =>
    split at h <;> [skip; exact absurd h (by simp)]
    simp only [enterFarm, Option.bind_eq_bind, Option.bind_eq_some_iff] at h
    obtain ⟨_, _, h⟩ := h
    exact enterCore_paidInv hWI hWP hP h
  case enterOB c u a e =>
    split at h <;> [skip; exact absurd h (by simp)]
    simp only [enterFarmOnBehalf, Option.bind_eq_bind, Option.bind_eq_some_iff] at h
    obtain ⟨_, _, _, _, h⟩ := h
    exact enterCore_paidInv hWI hWP hP h
  case claim c oo p =>
    split at h <;> [skip; exact absurd h (by simp)]
    simp only [claimRewards, Option.bind_eq_bind, Option.bind_eq_some_iff] at h
    obtain ⟨_, _, h⟩ := h
    exact claimCore_paidInv hWI hWP hP h
  case claimOB c p =>
    split at h <;> [skip; exact absurd h (by simp)]
    simp only [claimRewardsOnBehalf, Option.bind_eq_bind, Option.bind_eq_some_iff] at h
    obtain ⟨_, _, _, _, _, _, h⟩ := h
    exact claimCore_paidInv hWI hWP hP h
  case compound c oo p =>
    split at h <;> [skip; exact absurd h (by simp)]
    simp only [compoundRewards, Option.bind_eq_bind, Option.bind_eq_some_iff, req_eq_some] at h
    obtain ⟨_, hk, _, _, h⟩ := h
    exact claimCore_paidInv hWI hWP hP h
  case exit c oo n a =>
    split at h <;> [skip; exact absurd h (by simp)]
    exact exitFarm_paidInv hWI hWP hP h
  case merge c oo p =>
    split at h <;> [skip; exact absurd h (by simp)]
    exact mergeFarmTokens_paidInv hWI hWP hP h
  case claimBoosted c u =>
    split at h <;> [skip; exact absurd h (by simp)]
    exact claimBoostedRewards_paidInv hWI hWP hP h
  case transfer a b n x =>
    split at h <;> [skip; exact absurd h (by simp)]
    split at h <;> [skip; exact absurd h (by simp)]
    simp only [noOut, Option.map_eq_some_iff, Prod.mk.injEq] at h
    obtain ⟨s1, h1, rfl, _⟩ := h
    simp only [transfer, Option.bind_eq_bind, Option.bind_eq_some_iff, req_eq_some, sub?_eq_some,
      Option.pure_def, Option.some.injEq] at h1
    obtain ⟨_, _, _, _, _, _, _, _, rfl⟩ := h1
    exact hP.of_view rfl
  case setEnergy u a l t =>
    simp only [Option.some.injEq, Prod.mk.injEq] at h
    obtain ⟨rfl, _⟩ := h
    exact hP.of_view rfl
  case updateEnergy u =>
    simp only [noOut, Option.map_eq_some_iff, Prod.mk.injEq] at h
    obtain ⟨s1, h1, rfl, _⟩ := h
    obtain ⟨W, hW⟩ := hWP.week
    exact (updateEnergyForUser_pm (hP W hW) h1).toInv
  case setPerBlock c x =>
    simp only [noOut, Option.map_eq_some_iff, Prod.mk.injEq] at h
    obtain ⟨s1, h1, rfl, _⟩ := h
    simp only [setPerBlock, Option.bind_eq_bind, Option.bind_eq_some_iff, Option.pure_def,
      Option.some.injEq] at h1
    obtain ⟨_, _, _, _, s2, h2, rfl⟩ := h1
    exact hP.of_view (settle_pmv h2 : pmv s2 = pmv s)
  case startProduce c =>
    simp only [noOut, Option.map_eq_some_iff, Prod.mk.injEq] at h
    obtain ⟨s1, h1, rfl, _⟩ := h
    simp only [startProduce, Option.bind_eq_bind, Option.bind_eq_some_iff, Option.pure_def,
      Option.some.injEq] at h1
    obtain ⟨_, _, _, _, _, _, rfl⟩ := h1
    exact hP.of_view rfl
  case endProduce c =>
    simp only [noOut, Option.map_eq_some_iff, Prod.mk.injEq] at h
    obtain ⟨s1, h1, rfl, _⟩ := h
    simp only [endProduce, Option.bind_eq_bind, Option.bind_eq_some_iff, Option.pure_def,
      Option.some.injEq] at h1
    obtain ⟨_, _, s2, h2, rfl⟩ := h1
    exact hP.of_view (settle_pmv h2 : pmv s2 = pmv s)
  case setPct c p =>
    simp only [noOut, Option.map_eq_some_iff, Prod.mk.injEq] at h
    obtain ⟨s1, h1, rfl, _⟩ := h
    simp only [setPct, Option.bind_eq_bind, Option.bind_eq_some_iff, Option.pure_def,
      Option.some.injEq] at h1
    obtain ⟨_, _, _, _, s2, h2, rfl⟩ := h1
    exact hP.of_view (settle_pmv h2 : pmv s2 = pmv s)
  case setFactors c f =>
    have hf := hgood c f rfl
    simp only [noOut, Option.map_eq_some_iff, Prod.mk.injEq] at h
    obtain ⟨s1, h1, rfl, _⟩ := h
    simp only [setFactors, Option.bind_eq_bind, Option.bind_eq_some_iff, Option.pure_def] at h1
    obtain ⟨_, _, _, _, _, _, W, hW, h1⟩ := h1
    have p := hP W hW
    split at h1
    · rename_i cfg hc
      simp only [Option.bind_eq_some_iff, Option.some.injEq] at h1
      obtain ⟨c', hc', rfl⟩ := h1
      obtain ⟨hWF, hL, hg⟩ := p.wf cfg hc
      obtain ⟨hWF', hL'⟩ := BCfg.update_wf hWF hc'
      have hg' := ring_update (P := fun fa => fa.cE + fa.cF ≠ 0) hWF hc' hg
        (fun f' hf' => by simp only [Option.some.injEq] at hf'; subst hf'; exact hf)
      refine PM.toInv (W := W) ⟨p.week, ?_, ?_, ?_, p.lgw⟩
      · intro c2 hc2
        have : some c' = some c2 := hc2
        simp only [Option.some.injEq] at this
        subst this
        exact ⟨hWF', Nat.le_of_eq hL', hg'⟩
      · intro hn; cases hn
      · show PaidRel s.w.progress s.w.users s.userTotal (facAt (some c')) W s.w.totalRewards
          s.w.totalEnergy s.b.farmSupplyWeek s.b.paidW s.b.remaining
        have hr : PaidRel s.w.progress s.w.users s.userTotal (facAt s.b.cfg) W s.w.totalRewards
          s.w.totalEnergy s.b.farmSupplyWeek s.b.paidW s.b.remaining := p.rel
        rw [hc] at hr
        exact hr.mono (fun _ _ => Or.inl rfl) (fun _ _ => rfl)
          (fun w hw1 hw2 => (facFor_update hWF hc' hw2 (by omega)).2)
          (fun _ _ _ => Nat.le_refl _) (fun _ _ _ => Nat.le_refl _)
    · rename_i hc
      simp only [Option.some.injEq] at h1
      subst h1
      refine PM.toInv (W := W) ⟨p.week, ?_, ?_, ?_, p.lgw⟩
      · intro c2 hc2
        have : some (BCfg.new W f) = some c2 := hc2
        simp only [Option.some.injEq] at this
        subst this
        refine ⟨BCfg.new_wf W f, Nat.le_refl _, fun fa hfa => ?_⟩
        have : fa = f := List.eq_of_mem_replicate hfa
        rw [this]; exact hf
      · intro hn; cases hn
      · show PaidRel s.w.progress s.w.users s.userTotal (facAt (some (BCfg.new W f))) W s.w.totalRewards
          s.w.totalEnergy s.b.farmSupplyWeek s.b.paidW s.b.remaining
        exact PaidRel.refac p.rel (p.noCfg hc)
  case collect c =>
    simp only [noOut, Option.map_eq_some_iff, Prod.mk.injEq] at h
    obtain ⟨s1, h1, rfl, _⟩ := h
    simp only [collectUndistributed, Option.bind_eq_bind, Option.bind_eq_some_iff, Option.pure_def,
      req_eq_some] at h1
    obtain ⟨_, _, W, hW, _, hW5, h1⟩ := h1
    split at h1 <;> simp only [Option.some.injEq] at h1 <;> subst h1
    · exact hP.of_view rfl
    · rename_i hlast
      have p := hP W hW
      have hU : Weekly.USER_MAX_CLAIM_WEEKS = 4 := rfl
      rw [hU] at hW5 hlast
      obtain ⟨_, hout, _, hfs, hcf, _, hpd, _⟩ := collectWeeks_spec
        (W - (Weekly.USER_MAX_CLAIM_WEEKS + 1) + 1 - (s.lastCollect + 1)) s.b s.undist (s.lastCollect + 1)
      rw [hU] at hout hfs hcf hpd
      refine PM.toInv (W := W) ⟨p.week, ?_, ?_, ?_, p.lgw⟩
      · intro c2 hc2
        have hc2' : (collectWeeks s.b s.undist (s.lastCollect + 1)
          (W - (4 + 1) + 1 - (s.lastCollect + 1))).1.cfg = some c2 := hc2
        rw [hcf] at hc2'
        exact p.wf c2 hc2'
      · intro hn
        have hn' : (collectWeeks s.b s.undist (s.lastCollect + 1)
          (W - (4 + 1) + 1 - (s.lastCollect + 1))).1.cfg = none := hn
        rw [hcf] at hn'
        exact p.noCfg hn'
      · show PaidRel s.w.progress s.w.users s.userTotal (facAt (collectWeeks s.b s.undist (s.lastCollect + 1)
            (W - (4 + 1) + 1 - (s.lastCollect + 1))).1.cfg) W s.w.totalRewards s.w.totalEnergy
          (collectWeeks s.b s.undist (s.lastCollect + 1) (W - (4 + 1) + 1 - (s.lastCollect + 1))).1.farmSupplyWeek
          (collectWeeks s.b s.undist (s.lastCollect + 1) (W - (4 + 1) + 1 - (s.lastCollect + 1))).1.paidW
          (collectWeeks s.b s.undist (s.lastCollect + 1) (W - (4 + 1) + 1 - (s.lastCollect + 1))).1.remaining
        rw [hcf, hfs, hpd]
        exact p.rel.congr (fun _ _ => rfl) (fun _ _ => rfl)
          (fun w hw => (hout w (Or.inr (by omega))).1)
  case pause c =>
    simp only [noOut, Option.map_eq_some_iff, Prod.mk.injEq] at h
    obtain ⟨s1, h1, rfl, _⟩ := h
    simp only [setActive, Option.bind_eq_bind, Option.bind_eq_some_iff, Option.pure_def,
      Option.some.injEq] at h1
    obtain ⟨_, _, rfl⟩ := h1
    exact hP.of_view rfl
  case resume c =>
    simp only [noOut, Option.map_eq_some_iff, Prod.mk.injEq] at h
    obtain ⟨s1, h1, rfl, _⟩ := h
    simp only [setActive, Option.bind_eq_bind, Option.bind_eq_some_iff, Option.pure_def,
      Option.some.injEq] at h1
    obtain ⟨_, _, rfl⟩ := h1
    exact hP.of_view rfl
  case setPenalty c p =>
    simp only [noOut, Option.map_eq_some_iff, Prod.mk.injEq] at h
    obtain ⟨s1, h1, rfl, _⟩ := h
    simp only [setPenalty, Option.bind_eq_bind, Option.bind_eq_some_iff, Option.pure_def,
      Option.some.injEq] at h1
    obtain ⟨_, _, _, _, rfl⟩ := h1
    exact hP.of_view rfl
  case setMinEpochs c n =>
    simp only [noOut, Option.map_eq_some_iff, Prod.mk.injEq] at h
    obtain ⟨s1, h1, rfl, _⟩ := h
    simp only [setMinEpochs, Option.bind_eq_bind, Option.bind_eq_some_iff, Option.pure_def,
      Option.some.injEq] at h1
    obtain ⟨_, _, _, _, rfl⟩ := h1
    exact hP.of_view rfl
  case hubWhitelist u a =>
    split at h
    · cases h
    · simp only [Option.some.injEq, Prod.mk.injEq] at h; obtain ⟨rfl, _⟩ := h; exact hP.of_view rfl
  case hubRemove u a =>
    split at h
    · simp only [Option.some.injEq, Prod.mk.injEq] at h; obtain ⟨rfl, _⟩ := h; exact hP.of_view rfl
    · cases h
  case hubBlacklist a =>
    simp only [Option.some.injEq, Prod.mk.injEq] at h; obtain ⟨rfl, _⟩ := h; exact hP.of_view rfl
  case scWhitelist a =>
    split at h
    · cases h
    · simp only [Option.some.injEq, Prod.mk.injEq] at h; obtain ⟨rfl, _⟩ := h; exact hP.of_view rfl
  case scUnwhitelist a =>
    split at h
    · simp only [Option.some.injEq, Prod.mk.injEq] at h; obtain ⟨rfl, _⟩ := h; exact hP.of_view rfl
    · cases h
  case advance b e =>
    split at h
    · rename_i hc
      simp only [Option.some.injEq, Prod.mk.injEq] at h; obtain ⟨rfl, _⟩ := h
      obtain ⟨W, hW⟩ := hWP.week
      have p := hP W hW
      intro W' hW'
      have hmono : W ≤ W' := WV.weekOf_mono hc.2 hW hW'
      refine ⟨hW', fun c2 hc2 => ?_, fun hn w hw => p.noCfg hn w (by omega), p.rel.advance hmono,
        Nat.le_trans p.lgw hmono⟩
      obtain ⟨a1, a2, a3⟩ := p.wf c2 hc2
      exact ⟨a1, Nat.le_trans a2 hmono, a3⟩
    · cases h
  case bad => cases h

/-- the hypothesis on the history: every `setBoostedYieldsFactors` installs factors with `cE + cF ≠ 0`
    (`user_rewards_energy_const + user_rewards_farm_const`, the divisor of the reward formula; the real
    endpoint does not check it) -/
def GoodOps (ops : List Op) : Prop := ∀ c f, Op.setFactors c f ∈ ops → f.cE + f.cF ≠ 0

theorem run_paidInv (ops : List Op) {s : St} (hg : GoodOps ops) (hPos : PosInv s) (hWI : WInv s)
    (hWP : WeekPos s) (hP : PaidInv s) : PaidInv (run s ops) := by
  induction ops generalizing s with
  | nil => exact hP
  | cons op rest ih =>
    simp only [run, List.foldl_cons]
    have hg' : GoodOps rest := fun c f hm => hg c f (List.mem_cons_of_mem _ hm)
    cases hs : step s op with
    | none => exact ih hg' hPos hWI hWP hP
    | some r =>
      have hs' : step s op = some (r.1, r.2) := hs
      exact ih hg' (step_posInv hPos hs') (step_winv hWI hs') (step_weekPos hPos hWP hs')
        (step_paidInv hWI hWP hP (fun c f e => hg c f (by rw [e]; exact List.mem_cons_self ..)) hs')

/-- the budget-with-payments invariant in every reachable state -/
theorem reachable_paidInv (kind : Kind) (sameTok : Bool) (dsc perBlock : Nat) (produce : Bool)
    (users : List Nat) (e0 : Nat) (hnd : users.Nodup) (ops : List Op) (hg : GoodOps ops) :
    PaidInv (run (init kind sameTok dsc perBlock produce users e0) ops) :=
  run_paidInv ops hg (init_posInv kind sameTok dsc perBlock produce users e0 hnd)
    (init_winv kind sameTok dsc perBlock produce users e0)
    (init_weekPos kind sameTok dsc perBlock produce users e0)
    (init_paidInv kind sameTok dsc perBlock produce users e0)

/-- **the boosted claim cannot abort in its reward loop**: with the invariants, `claimBoostedYields`
    succeeds as soon as the weekly module's global energy update for the user does — no factors lookup,
    no malformed frozen list, no division by `cE + cF = 0`, and in particular no underflow of
    `remaining_boosted_rewards_to_distribute(week) −= user_reward` can make it fail -/
theorem claimBoostedYields_total {s : St} {u W : Nat} (hP : PM s W) (hWI : WInv s) (hWP : WeekPos s)
    (h1 : (Weekly.updateUserEnergyForCurrentWeek s.w W (Energy.queried (s.energy u) s.epoch)
      (s.w.progress u)).isSome = true) : (claimBoostedYields s u).isSome = true := by
  obtain ⟨g1, hg1⟩ := Option.isSome_iff_exists.mp h1
  have hWk : s.week = some W := hP.week
  unfold claimBoostedYields
  cases hc : s.b.cfg with
  | none =>
    simp only [updateEnergyAndProgress, hWk, Weekly.updateEnergyAndProgress, hg1, Option.bind_eq_bind,
      Option.bind_some, Option.pure_def, Option.map_some, Option.isSome_some]
  | some cfg =>
    obtain ⟨hWF, hL, _⟩ := hP.wf cfg hc
    have hup : ∃ mem, cfg.update W none = some mem := by
      obtain ⟨L, f0, f1, f2, f3, f4, rfl⟩ := hWF.exists_ring
      simp only at hL
      simp only [BCfg.update, req, hL, if_true, Option.bind_eq_bind, Option.bind_some, Option.pure_def]
      split <;> exact ⟨_, rfl⟩
    obtain ⟨mem, hmem⟩ := hup
    obtain ⟨g', c', r, hx, _⟩ := claimMulti_paid hP hWI hWP hc hmem hg1
    simp only [hWk, hmem, hx, Option.bind_eq_bind, Option.bind_some, Option.pure_def, Option.isSome_some]

/-- executable form of `GoodOps` (for closed examples) -/
def goodOp : Op → Bool
  | .setFactors _ f => decide (f.cE + f.cF ≠ 0)
  | _ => true

theorem goodOps_of_all {ops : List Op} (h : ops.all goodOp = true) : GoodOps ops := by
  intro c f hm
  have := List.all_eq_true.mp h _ hm
  simp only [goodOp, decide_eq_true_eq] at this
  exact this

end Mx.Farm
