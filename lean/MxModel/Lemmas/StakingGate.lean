/-
  Spec lemmas for the C12 clauses that are about single endpoints: the unbond gate, the unbond
  token minted by unstake, the withdraw bound, and the per-transaction accrual bound.
-/
import MxModel.Lemmas.StakingInv

namespace Mx.Staking

open Mx.Weekly

theorem debit_single {hold h' : Nat → Nat → Nat} {c : Nat} {p : Pay} :
    debit hold c [p] = some h' ↔
      0 < p.2 ∧ p.2 ≤ hold c p.1 ∧ h' = upd2 hold c p.1 (hold c p.1 - p.2) := by
  simp only [debit, Option.bind_eq_bind, Option.bind_eq_some_iff, req_eq_some, Option.some.injEq]
  constructor
  · rintro ⟨_, h1, _, h2, rfl⟩
    exact ⟨h1, h2, rfl⟩
  · rintro ⟨h1, h2, rfl⟩
    exact ⟨(), h1, (), h2, rfl⟩

theorem unbondOf_eq_some {m : Nat → Option Meta} {n e : Nat} :
    unbondOf m n = some e ↔ m n = some (.unbond e) := by
  unfold unbondOf
  split
  · rename_i e' h
    simp [h]
  · rename_i h
    constructor
    · intro h'; simp at h'
    · intro h'; exact absurd h' (h e)

/-- `unbondFarm` succeeds EXACTLY when the contract is active, the caller holds the unbond
    tokens it sends, the unlock epoch has been reached, and the contract has the tokens to pay;
    it then pays exactly the amount sent and burns the unbond tokens. -/
theorem unbondFarm_iff {s s' : St} {c : Nat} {pay : Pay} {o : Out} :
    unbondFarm s c pay = some (s', o) ↔
      0 < pay.2 ∧ pay.2 ≤ s.hold c pay.1 ∧ s.active = true ∧
      (∃ unlock, s.md pay.1 = some (.unbond unlock) ∧ unlock ≤ s.epoch) ∧ pay.2 ≤ s.bal ∧
      o = ⟨0, pay.2, 0⟩ ∧
      s' = { s with hold := upd2 s.hold c pay.1 (s.hold c pay.1 - pay.2), bal := s.bal - pay.2,
                    unbondOut := s.unbondOut - (pay.2 : Int) } := by
  simp only [unbondFarm, Option.bind_eq_bind, Option.bind_eq_some_iff, req_eq_some,
    sub?_eq_some, Option.pure_def, Option.some.injEq, Prod.mk.injEq, debit_single, unbondOf_eq_some]
  constructor
  · rintro ⟨h', ⟨h1, h2, rfl⟩, _, h3, e, h4, _, h5, b, ⟨h6, rfl⟩, rfl, rfl⟩
    exact ⟨h1, h2, h3, ⟨e, h4, h5⟩, h6, rfl, rfl⟩
  · rintro ⟨h1, h2, h3, ⟨e, h4, h5⟩, h6, rfl, rfl⟩
    exact ⟨_, ⟨h1, h2, rfl⟩, (), h3, e, h4, (), h5, _, ⟨h6, rfl⟩, rfl, rfl⟩

/-- a successful unstake hands the caller a NEW unbond token whose unlock epoch is
    `now + minUnbondEpochs` and whose amount is the principal taken out (direct unstake) or the
    staking tokens paid in (through the proxy) -/
theorem unstakeCore_unbond {s s' : St} {c orig : Nat} {pay : Pay} {x : Option Nat} {o : Out}
    (h : unstakeCore s c orig pay x = some (s', o)) :
    s'.nonce = s.nonce + 1 ∧
    s'.md (s.nonce + 1) = some (.unbond (s.epoch + s.minUnbond)) ∧
    s'.hold c (s.nonce + 1) = x.getD pay.2 ∧ o.a = s.nonce + 1 ∧ o.b = x.getD pay.2 ∧
    s'.unbondOut = s.unbondOut + (x.getD pay.2 : Int) ∧
    s'.supply + pay.2 = s.supply + 0 ∧ s'.epoch = s.epoch := by
  cases x <;>
  · simp only [unstakeCore, Option.bind_eq_bind, Option.bind_eq_some_iff, req_eq_some,
      sub?_eq_some, Option.pure_def, Option.some.injEq, Prod.mk.injEq, Option.getD_none, Option.getD_some] at h
    obtain ⟨_, _, hold0, _, _, _, attrs, _, ⟨s1, c1⟩, hg, tok, htok, r, _, res1, ⟨hres, rfl⟩,
      sup1, ⟨hsup, rfl⟩, w2, _, bal1, ⟨hbal, rfl⟩, rfl, rfl⟩ := h
    obtain ⟨ha, hc, rfl, rfl⟩ := generate_spec hg
    have hamt : tok.amount = pay.2 := by
      unfold Attrs.intoPart at htok
      split at htok
      · simp only [Option.some.injEq] at htok; subst htok; omega
      · simp only [Option.bind_eq_bind, Option.bind_eq_some_iff, req_eq_some, Option.pure_def,
          Option.some.injEq] at htok
        obtain ⟨_, _, rfl⟩ := htok
        rfl
    simp only [genSt_nonce, genSt_md, genSt_epoch, genSt_minUnbond, genSt_unbondOut, genCache_supply,
      St.cache, upd_same, upd2, hamt] at hsup ⊢
    refine ⟨trivial, trivial, by simp, trivial, rfl, rfl, by omega, trivial⟩

/-- `withdrawRewards(x)` settles first and then takes `x` out of the capacity that is not yet
    accrued: `x ≤ capacity − accumulated'` where `accumulated'` is the value AFTER settling -/
theorem withdraw_spec {s s' : St} {x : Nat} {o : Out} (h : withdraw s x = some (s', o)) :
    s'.accumulated = s.accumulated + genTot s ∧ x + s'.accumulated ≤ s.capacity ∧
    s'.capacity = s.capacity - x ∧ s'.bal = s.bal - x ∧ x ≤ s.bal ∧ o = ⟨0, x, 0⟩ ∧
    s'.lastBlock = max s.lastBlock s.block := by
  simp only [withdraw, Option.bind_eq_bind, Option.bind_eq_some_iff, req_eq_some,
    sub?_eq_some, Option.pure_def, Option.some.injEq, Prod.mk.injEq] at h
  obtain ⟨⟨s1, c1⟩, hg, rem, ⟨hrem, rfl⟩, _, hx, cap, ⟨hcap, rfl⟩, bal1, ⟨hbal, rfl⟩, rfl, rfl⟩ := h
  obtain ⟨ha, hc, rfl, rfl⟩ := generate_spec hg
  simp only [genSt_accumulated, genSt_capacity, genSt_bal, St.flush, genSt_lastBlock] at hrem hx hcap hbal ⊢
  refine ⟨trivial, by omega, trivial, trivial, hbal, trivial, trivial⟩

/-- the per-transaction accrual bound, spelled out -/
theorem eff_accrual_bound {s s' : St} (h : Eff s s') :
    s.accumulated ≤ s'.accumulated ∧
    s'.accumulated - s.accumulated ≤
      min (min (if s.produce then s.perBlock * (s.block - s.lastBlock) else 0)
               (s.supply * s.maxApr / MAX_PERCENT / BLOCKS_IN_YEAR * (s.block - s.lastBlock)))
          (s.capacity - s.accumulated) := by
  obtain ⟨tot, cut, inc, pb, pbo, up, down, hgen, hcut, e1, _⟩ := h
  refine ⟨by omega, ?_⟩
  rw [e1, Nat.add_sub_cancel_left]
  rcases hgen with ⟨rfl, _⟩ | ⟨_, rfl, _⟩
  · exact Nat.zero_le _
  · unfold genTot genTotOf mintOf aprPerBlock
    split
    · rename_i hb
      simp
    · exact Nat.le_refl _

end Mx.Staking
