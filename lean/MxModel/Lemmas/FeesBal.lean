/-
  Fees collector: (1) a claim moves the paid-ledger only inside its four-week window and puts
  the claimer's progress at the current week; (2) conservation of every non-locked token:
  balance + everything paid = everything deposited, over all histories.
-/
import MxModel.Lemmas.FeesSpec

namespace Mx.Fees

open Mx.Weekly

/-! ### claim window -/

theorem claimCore_once {s s' : St} {orig W : Nat} {o : Out} (hW : s.week = some W)
    (h : claimCore s orig = some (s', o)) :
    (s'.w.progress orig = none ∨ ∃ e, s'.w.progress orig = some ⟨e, W⟩) ∧
    (∀ u, u ≠ orig → s'.w.progress u = s.w.progress u) ∧
    (∀ w t, s'.a.paid w t ≠ s.a.paid w t →
      W ≤ w + 4 ∧ w < W ∧ ∃ p, s.w.progress orig = some p ∧ p.week ≤ w) := by
  obtain ⟨W', r, hW', hc, _⟩ := claimCore_spec h
  rw [hW] at hW'
  cases hW'
  obtain ⟨hp1, hp2⟩ := claimMulti_progress feesRewards_frame hc
  refine ⟨?_, hp2, ?_⟩
  · rw [hp1]; unfold newOf; split
    · exact Or.inr ⟨_, rfl⟩
    · exact Or.inl rfl
  · intro w t hne
    obtain ⟨g1, a, _, hle, ha, _, hc', _⟩ := claimMulti_spec hc
    obtain ⟨hfr, _⟩ := claimLoop_paid _ ha
    obtain ⟨hw1, hw2, hw3⟩ := loop_window _ W hle
    rw [hc'] at hne
    have hpaid0 : (accumulateAdditional s W).a.paid = s.a.paid := accumulateAdditional_paid s W
    have hin : ¬ (w < (loopStart (startProgress (s.w.progress orig)
        (Energy.queried (s.energy orig) s.epoch) W) W).week ∨
        (loopStart (startProgress (s.w.progress orig)
        (Energy.queried (s.energy orig) s.epoch) W) W).week +
        loopLen (startProgress (s.w.progress orig) (Energy.queried (s.energy orig) s.epoch) W) W ≤ w) := by
      intro hout
      apply hne
      rw [← hpaid0]
      exact hfr w t hout
    cases hst : s.w.progress orig with
    | none =>
      exfalso
      rw [hst] at hw1 hw2 hw3 hin
      simp only [startProgress] at hw1 hw2 hw3 hin
      omega
    | some p =>
      rw [hst] at hw1 hw2 hw3 hin
      simp only [startProgress] at hw1 hw2 hw3 hin
      exact ⟨by omega, by omega, p, rfl, by omega⟩

/-! ### conservation -/

/-- the current week as a total function of the state -/
def curWeek (s : St) : Nat := (s.epoch - s.firstWeek) / EPOCHS_IN_WEEK + 1

theorem week_some {s : St} {W : Nat} (h : s.week = some W) : W = curWeek s ∧ s.firstWeek ≤ s.epoch := by
  simp only [St.week, weekOf, Option.bind_eq_bind, Option.bind_eq_some_iff, req_eq_some,
    Option.pure_def, Option.some.injEq] at h
  obtain ⟨_, hle, rfl⟩ := h
  exact ⟨rfl, hle⟩

/-- everything paid so far in token `t`, weeks `< K` -/
def paidAll (s : St) (t : Tok) (K : Nat) : Nat := usum (List.range K) (fun w => s.a.paid w t)

/-- everything deposited so far in token `t` (still accumulating or already frozen), weeks `< K` -/
def owedAll (s : St) (t : Tok) (K : Nat) : Nat :=
  usum (List.range K) (fun w => s.a.accumulated w t + s.a.collected w t)

structure BalInv (s : St) : Prop where
  time : s.firstWeek ≤ s.epoch
  bal : ∀ t, t ≠ lockedTok → ∀ K, curWeek s < K → s.bal t + paidAll s t K = owedAll s t K

theorem usum_range_point {K w0 : Nat} (hw : w0 < K) {f g : Nat → Nat} {d : Nat}
    (h0 : g w0 = f w0 + d) (h : ∀ w, w ≠ w0 → g w = f w) :
    usum (List.range K) g = usum (List.range K) f + d := by
  have := usum_update (List.nodup_range (n := K)) (List.mem_range.mpr hw) (f := f) (g := g)
    (fun w _ hne => h w hne)
  omega

theorem init_BalInv (epoch lockEpochs : Nat) (known : List Tok) (contracts whitelist : List Nat) :
    BalInv (init epoch lockEpochs known contracts whitelist) := by
  refine ⟨Nat.le_refl _, ?_⟩
  intro t _ K _
  have h1 : paidAll (init epoch lockEpochs known contracts whitelist) t K = 0 :=
    usum_zero (fun _ _ => rfl)
  have h2 : owedAll (init epoch lockEpochs known contracts whitelist) t K = 0 :=
    usum_zero (fun _ _ => rfl)
  rw [h1, h2]
  rfl

/-- the claim loop: the ledger grows by exactly what is handed out; deposits are only moved
    from `accumulated` to `collected` -/
theorem claimLoop_bal (K : Nat) : ∀ (n : Nat) {a a' : ClaimAcc Acc},
    claimLoop feesRewards n a = some a' → a.p.week + n ≤ K → ∀ t,
    usum (List.range K) (fun w => a'.c.paid w t) + amountOf t a.rewards =
      usum (List.range K) (fun w => a.c.paid w t) + amountOf t a'.rewards ∧
    usum (List.range K) (fun w => a'.c.accumulated w t + a'.c.collected w t) =
      usum (List.range K) (fun w => a.c.accumulated w t + a.c.collected w t) := by
  intro n
  induction n with
  | zero =>
    intro a a' h _ t
    simp only [claimLoop, Option.some.injEq] at h
    subst h
    exact ⟨rfl, rfl⟩
  | succ n ih =>
    intro a a' h hK t
    simp only [claimLoop, Option.bind_eq_some_iff] at h
    obtain ⟨a1, h1, h2⟩ := h
    obtain ⟨r, hr, hp, hrew⟩ := claimSingle_spec h1
    have hw1 : a1.p.week = a.p.week + 1 := by rw [hp]; rfl
    obtain ⟨i1, i2⟩ := ih h2 (by omega) t
    have hwk : a.p.week < K := by omega
    rcases feesRewards_spec hr with ⟨_, _, hc, hr0⟩ | ⟨_, _, _, _, _, _, hpd, hoth, hsame⟩
    · rw [hc] at i1 i2
      rw [hrew, hr0, List.append_nil] at i1
      exact ⟨i1, i2⟩
    · have e1 : usum (List.range K) (fun w => a1.c.paid w t) =
          usum (List.range K) (fun w => a.c.paid w t) + amountOf t r :=
        usum_range_point hwk (by rw [hpd]; simp) (fun w hne => by rw [hpd]; simp [hne])
      have e2 : usum (List.range K) (fun w => a1.c.accumulated w t + a1.c.collected w t) =
          usum (List.range K) (fun w => a.c.accumulated w t + a.c.collected w t) :=
        usum_congr (fun w _ => by
          by_cases hne : w = a.p.week
          · subst hne; exact hsame t
          · rw [(hoth w t hne).1, (hoth w t hne).2])
      rw [hrew, amountOf_append] at i1
      constructor
      · omega
      · rw [i2, e2]

theorem accumulateAdditional_other (s : St) (W : Nat) (t : Tok) (ht : t ≠ lockedTok) (w : Nat) :
    (accumulateAdditional s W).a.accumulated w t = s.a.accumulated w t ∧
    (accumulateAdditional s W).a.collected w t = s.a.collected w t ∧
    (accumulateAdditional s W).bal = s.bal := by
  unfold accumulateAdditional
  split
  · exact ⟨rfl, rfl, rfl⟩
  · refine ⟨?_, rfl, rfl⟩
    simp only [upd2]
    have : ¬ (w = W - 1 ∧ t = lockedTok) := fun h => ht h.2
    simp [this]

theorem accumulateAdditional_sums (s : St) (W : Nat) (t : Tok) (ht : t ≠ lockedTok) (K : Nat) :
    paidAll (accumulateAdditional s W) t K = paidAll s t K ∧
    owedAll (accumulateAdditional s W) t K = owedAll s t K ∧
    curWeek (accumulateAdditional s W) = curWeek s := by
  have hfw : (accumulateAdditional s W).firstWeek = s.firstWeek := by
    unfold accumulateAdditional; split <;> rfl
  refine ⟨?_, ?_, ?_⟩
  · unfold paidAll; rw [accumulateAdditional_paid]
  · unfold owedAll
    exact usum_congr (fun w _ => by
      rw [(accumulateAdditional_other s W t ht w).1, (accumulateAdditional_other s W t ht w).2.1])
  · unfold curWeek; rw [hfw, (accumulateAdditional_energy s W).2]

theorem accumulateAdditional_BalInv {s : St} (W : Nat) (hI : BalInv s) :
    BalInv (accumulateAdditional s W) := by
  have hep := accumulateAdditional_energy s W
  have hfw : (accumulateAdditional s W).firstWeek = s.firstWeek := by
    unfold accumulateAdditional; split <;> rfl
  refine ⟨by rw [hfw, hep.2]; exact hI.time, ?_⟩
  intro t ht K hK
  obtain ⟨e1, e2, e3⟩ := accumulateAdditional_sums s W t ht K
  rw [e3] at hK
  rw [e1, e2, accumulateAdditional_bal]
  exact hI.bal t ht K hK

theorem claimCore_BalInv {s s' : St} {orig : Nat} {o : Out} (hI : BalInv s)
    (h : claimCore s orig = some (s', o)) : BalInv s' := by
  obtain ⟨W, r, hW, hc, hep, hfw, hbal⟩ := claimCore_spec h
  obtain ⟨hWc, _⟩ := week_some hW
  refine ⟨by rw [hfw, hep]; exact hI.time, ?_⟩
  intro t ht K hK
  have hcw : curWeek s' = curWeek s := by unfold curWeek; rw [hfw, hep]
  rw [hcw] at hK
  obtain ⟨e1, e2, _⟩ := accumulateAdditional_sums s W t ht K
  have hI0 := hI.bal t ht K hK
  obtain ⟨g1, a, _, hle, ha, _, hca, hra⟩ := claimMulti_spec hc
  obtain ⟨hw1, _, _⟩ := loop_window _ W hle
  obtain ⟨l1, l2⟩ := claimLoop_bal K _ ha (by dsimp only; omega) t
  dsimp only at l1 l2
  simp only [amountOf_nil, Nat.add_zero] at l1
  rw [← hca] at l1 l2
  rw [← hra] at l1
  have hb := hbal t ht
  unfold paidAll owedAll at *
  omega

theorem step_BalInv {s s' : St} {op : Op} {o : Out} (hI : BalInv s) (h : step s op = some (s', o)) :
    BalInv s' := by
  cases op with
  | deposit c tok n amt =>
    simp only [step, deposit, Option.bind_eq_bind, Option.bind_eq_some_iff, req_eq_some,
      Option.pure_def, Option.some.injEq, Prod.mk.injEq] at h
    obtain ⟨_, hlk, _, _, _, _, W, hW, _, hnl, hs, _⟩ := h
    obtain ⟨hWc, _⟩ := week_some hW
    subst hs
    refine ⟨hI.time, ?_⟩
    intro t ht K hK
    have hK0 : curWeek s < K := hK
    have hK' : W < K := by rw [hWc]; exact hK0
    have h0 := hI.bal t ht K hK0
    unfold paidAll owedAll at h0
    show (if n = 0 then upd s.bal tok (s.bal tok + amt) else s.bal) t +
        usum (List.range K) (fun w => s.a.paid w t) =
      usum (List.range K)
        (fun w => upd2 s.a.accumulated W tok (s.a.accumulated W tok + amt) w t + s.a.collected w t)
    by_cases htt : tok = t
    · subst htt
      have hn0 : n = 0 := by
        by_contra hc
        exact ht (hnl (by omega))
      have e := usum_range_point hK' (f := fun w => s.a.accumulated w tok + s.a.collected w tok)
        (g := fun w => upd2 s.a.accumulated W tok (s.a.accumulated W tok + amt) w tok +
          s.a.collected w tok) (d := amt)
        (by simp only [upd2, and_self, if_true]; omega)
        (fun w hne => by simp only [upd2, hne, false_and, if_false])
      rw [e]
      simp only [hn0, if_true, upd_same]
      omega
    · have hb : (if n = 0 then upd s.bal tok (s.bal tok + amt) else s.bal) t = s.bal t := by
        split
        · exact upd_other _ _ (fun h => htt h.symm)
        · rfl
      rw [hb]
      have e : usum (List.range K)
          (fun w => upd2 s.a.accumulated W tok (s.a.accumulated W tok + amt) w t + s.a.collected w t) =
          usum (List.range K) (fun w => s.a.accumulated w t + s.a.collected w t) :=
        usum_congr (fun w _ => by
          have : ¬ (w = W ∧ t = tok) := fun h => htt h.2.symm
          simp only [upd2, this, if_false])
      rw [e]
      exact h0
  | claim c og =>
    simp only [step, claimRewards, Option.bind_eq_bind, Option.bind_eq_some_iff] at h
    obtain ⟨_, _, h⟩ := h
    cases og with
    | none => exact claimCore_BalInv hI h
    | some x =>
      simp only [Option.bind_eq_bind, Option.bind_eq_some_iff] at h
      obtain ⟨_, _, h⟩ := h
      exact claimCore_BalInv hI h
  | claimBoosted c og =>
    simp only [step, claimBoosted, Option.bind_eq_bind, Option.bind_eq_some_iff] at h
    obtain ⟨_, _, h⟩ := h
    cases og with
    | none => exact claimCore_BalInv hI h
    | some x =>
      simp only [Option.bind_eq_bind, Option.bind_eq_some_iff] at h
      obtain ⟨_, _, h⟩ := h
      exact claimCore_BalInv hI h
  | updateEnergy u =>
    simp only [step, updateEnergy, Option.bind_eq_bind, Option.bind_eq_some_iff, Option.pure_def,
      Option.some.injEq, Prod.mk.injEq] at h
    obtain ⟨W, _, g, _, rfl, _⟩ := h
    exact ⟨hI.time, hI.bal⟩
  | setPerBlock n =>
    simp only [step, setPerBlock, Option.bind_eq_bind, Option.bind_eq_some_iff, Option.pure_def,
      Option.some.injEq, Prod.mk.injEq] at h
    obtain ⟨W, _, rfl, _⟩ := h
    have := accumulateAdditional_BalInv W hI
    exact ⟨this.time, this.bal⟩
  | setEnergy u e =>
    simp only [step, Option.some.injEq, Prod.mk.injEq] at h; obtain ⟨rfl, _⟩ := h
    exact ⟨hI.time, hI.bal⟩
  | addToken t =>
    simp only [step, Option.some.injEq, Prod.mk.injEq] at h; obtain ⟨rfl, _⟩ := h
    exact ⟨hI.time, hI.bal⟩
  | removeToken t =>
    simp only [step, Option.some.injEq, Prod.mk.injEq] at h; obtain ⟨rfl, _⟩ := h
    exact ⟨hI.time, hI.bal⟩
  | addContract c =>
    simp only [step, Option.some.injEq, Prod.mk.injEq] at h; obtain ⟨rfl, _⟩ := h
    exact ⟨hI.time, hI.bal⟩
  | removeContract c =>
    simp only [step, Option.some.injEq, Prod.mk.injEq] at h; obtain ⟨rfl, _⟩ := h
    exact ⟨hI.time, hI.bal⟩
  | allowExternal u b =>
    simp only [step, Option.some.injEq, Prod.mk.injEq] at h; obtain ⟨rfl, _⟩ := h
    exact ⟨hI.time, hI.bal⟩
  | pause b =>
    simp only [step, Option.some.injEq, Prod.mk.injEq] at h; obtain ⟨rfl, _⟩ := h
    exact ⟨hI.time, hI.bal⟩
  | advance n =>
    simp only [step, Option.some.injEq, Prod.mk.injEq] at h; obtain ⟨rfl, _⟩ := h
    refine ⟨by have := hI.time; simp only; omega, ?_⟩
    intro t ht K hK
    apply hI.bal t ht K
    have hmono : curWeek s ≤ curWeek { s with epoch := s.epoch + n } := by
      unfold curWeek
      simp only [EPOCHS_IN_WEEK]
      have : (s.epoch - s.firstWeek) / 7 ≤ (s.epoch + n - s.firstWeek) / 7 :=
        Nat.div_le_div_right (by omega)
      omega
    omega

theorem run_BalInv (ops : List Op) {s : St} (hI : BalInv s) : BalInv (run s ops) := by
  induction ops generalizing s with
  | nil => exact hI
  | cons op ops ih =>
    simp only [run, List.foldl_cons]
    cases hs : step s op with
    | none => exact ih hI
    | some r => exact ih (step_BalInv hI (o := r.2) (by rw [hs]))

/-- with the ledger inside the frozen totals, conservation gives solvency -/
theorem unclaimed_le_bal (s : St) (t : Tok) (K : Nat) (hle : ∀ w, s.a.paid w t ≤ s.a.collected w t)
    (h : s.bal t + paidAll s t K = owedAll s t K) :
    usum (List.range K) (fun w => s.a.accumulated w t + (s.a.collected w t - s.a.paid w t)) ≤ s.bal t := by
  have : usum (List.range K) (fun w => s.a.accumulated w t + (s.a.collected w t - s.a.paid w t)) +
      paidAll s t K = owedAll s t K := by
    unfold paidAll owedAll
    rw [← usum_add]
    exact usum_congr (fun w _ => by have := hle w; omega)
  omega

end Mx.Fees
