/-
  The calls of the farm into the weekly-rewards module cannot abort in a reachable state:

    * `weekly_update_ok` — `update_user_energy_for_current_week` (Lemmas/WeeklyLive.lean `updateUser_ok`,
      from `GInv` and `lastGlobalUpdateWeek ≤ current week`, both parts of the farm's invariants);
    * `claimBoostedYields_ok` — hence the boosted claim (Lemmas/FarmWeekPaid.lean: its reward loop cannot
      abort either);
    * `clearUserEnergyIfNeeded_ok` — `clear_user_energy_if_needed`.

  With Lemmas/FarmLive.lean (`exitFarm_ok`, `claimRewards_ok`: every OTHER guard / checked subtraction of
  the endpoints) this gives unconditional progress of exit and claim for a holder.
-/
import MxModel.Lemmas.FarmWeekPaid
import MxModel.Lemmas.WeeklyLive
import MxModel.Lemmas.FarmLive

namespace Mx.Farm

open Mx.Weekly (upd Energy ClaimProgress)

theorem weekly_update_ok {s : St} {W : Nat} (hP : PM s W) (hWI : WInv s) (u : Nat) (cur : Energy) :
    (Weekly.updateUserEnergyForCurrentWeek s.w W cur (s.w.progress u)).isSome = true := by
  have hWk : s.week = some W := hP.week
  obtain ⟨g', hg'⟩ := Weekly.updateUser_ok (u0 := u) cur (week_pos hWk) hWI.1 hP.lgw
  rw [hg']; rfl

/-- **the boosted claim succeeds** in every state satisfying the invariants -/
theorem claimBoostedYields_ok {s : St} {W : Nat} (hP : PM s W) (hWI : WInv s) (hWP : WeekPos s) (u : Nat) :
    (claimBoostedYields s u).isSome = true :=
  claimBoostedYields_total hP hWI hWP (weekly_update_ok hP hWI u _)

theorem cfg_update_ok {c : BCfg} {W : Nat} (hw : WF c) (hL : c.lastUpdateWeek ≤ W) :
    ∃ mem, c.update W none = some mem := by
  obtain ⟨L, f0, f1, f2, f3, f4, rfl⟩ := hw.exists_ring
  simp only at hL
  simp only [BCfg.update, req, hL, if_true, Option.bind_eq_bind, Option.bind_some, Option.pure_def]
  split <;> exact ⟨_, rfl⟩

/-- **`clear_user_energy_if_needed` succeeds** in every state satisfying the invariants -/
theorem clearUserEnergyIfNeeded_ok {s : St} {W : Nat} (hP : PM s W) (hWI : WInv s) (u : Nat) :
    (clearUserEnergyIfNeeded s u).isSome = true := by
  have hWk : s.week = some W := hP.week
  unfold clearUserEnergyIfNeeded
  cases hc : s.b.cfg with
  | none => rfl
  | some cfg =>
    obtain ⟨hWF, hL, _⟩ := hP.wf cfg hc
    obtain ⟨mem, hmem⟩ := cfg_update_ok hWF hL
    simp only [hWk, hmem, Option.bind_eq_bind, Option.bind_some, Option.pure_def]
    unfold Weekly.clearUserEnergy
    split
    · rfl
    · obtain ⟨g1, hg1⟩ := Option.isSome_iff_exists.mp
        (weekly_update_ok hP hWI u (Energy.newZero s.epoch))
      simp only [hg1, Option.bind_eq_bind, Option.bind_some, Option.pure_def, Option.isSome_some]

/-- **a holder can always exit**: every guard and checked subtraction of `exitFarm` is discharged -/
theorem exitFarm_always {s : St} {W u n a : Nat} (hA : Acct s) (hPos : PosInv s) (hK : PotInv s)
    (hI : PoolInv s) (hX : XInv s) (hd : s.dsc ≠ 0) (hP : PM s W) (hWI : WInv s) (hWP : WeekPos s)
    (hact : s.active = true) (ha : a ≠ 0) (hle : a ≤ s.hold u n) :
    (exitFarm s u none n a).isSome = true := by
  have hne : s.hold u n ≠ 0 := by omega
  obtain ⟨_, _, hsome⟩ := hPos.dom u n hne
  obtain ⟨att, hat⟩ := Option.isSome_iff_exists.mp hsome
  obtain ⟨s1, c1, hg⟩ := generate_ok (s := s) (Cache.read s) hI.time hI.pct
  have p1 : PM s1 W := hP.of_view (generate_pmv hg)
  have wi1 : WInv s1 := hWI.of_w (generate_w hg)
  have wp1 : WeekPos s1 := hWP.of_wv (generate_wv hg).1
  obtain ⟨⟨s2, boosted⟩, hb⟩ := Option.isSome_iff_exists.mp (claimBoostedYields_ok p1 wi1 wp1 u)
  obtain ⟨p2, _⟩ := claimBoostedYields_pm p1 wi1 wp1 hb
  have wi2 := claimBoostedYields_winv wi1 hb
  have p3 : PM (decreaseOwner s2 att.owner a) W := by
    apply p2.setTotal
    intro x
    left
    show upd s2.userTotal att.owner _ x ≤ _
    by_cases hx : x = att.owner
    · subst hx; rw [Weekly.upd_same]; exact Nat.sub_le _ _
    · rw [Weekly.upd_other _ _ hx]
  have wi3 : WInv (decreaseOwner s2 att.owner a) := wi2.of_w rfl
  exact exitFarm_ok hA hPos hK hI hX hd hact ha hle hat hg hb (clearUserEnergyIfNeeded_ok p3 wi3 u)

/-- **a holder can always claim** -/
theorem claimRewards_always {s : St} {W u n a : Nat} (hA : Acct s) (hPos : PosInv s) (hK : PotInv s)
    (hI : PoolInv s) (hX : XInv s) (hd : s.dsc ≠ 0) (hP : PM s W) (hWI : WInv s) (hWP : WeekPos s)
    (hact : s.active = true) (ha : a ≠ 0) (hle : a ≤ s.hold u n) :
    (claimRewards s u none [(n, a)]).isSome = true := by
  have hne : s.hold u n ≠ 0 := by omega
  obtain ⟨_, _, hsome⟩ := hPos.dom u n hne
  obtain ⟨att, hat⟩ := Option.isSome_iff_exists.mp hsome
  obtain ⟨s1, c1, hg⟩ := generate_ok (s := s) (Cache.read s) hI.time hI.pct
  have p1 : PM s1 W := hP.of_view (generate_pmv hg)
  have wi1 : WInv s1 := hWI.of_w (generate_w hg)
  have wp1 : WeekPos s1 := hWP.of_wv (generate_wv hg).1
  obtain ⟨⟨s2, boosted⟩, hb⟩ := Option.isSome_iff_exists.mp (claimBoostedYields_ok p1 wi1 wp1 u)
  exact claimRewards_ok hA hPos hK hI hX hd hact ha hle hat hg hb

end Mx.Farm
