/-
  The POSITION half of the week budget for the farm-staking model (the staking counterpart of
  Lemmas/FarmWeekPos.lean; same shared Rust module `farm-boosted-yields`, same repair of finding F6):

      for every completed week w:   farmSupplyForWeek(w) = 0
                                  ∨ Σ_{v : progress(v).week ≤ w} userTotalFarmPosition(v) ≤ farmSupplyForWeek(w)

  in every reachable state of Core/Staking.lean.  The invariant, its view (`Farm.WV`) and the generic
  view lemmas (`Mid.move`, `Mid.bump`, `Mid.setFsw`, `Inv.advance`, …) are those of FarmWeekPos; here
  every endpoint of the staking model is characterised on the view:

    * every boosted claim (`claimBoostedYields`, with or WITHOUT a boosted-yields config — the repaired
      `None` branch), `update_energy_and_progress`, `updateEnergyForUser`, `clear_user_energy` set the
      user's progress to the current week or clear it (`claimBoostedYields_move`, …);
    * `check_and_update_user_farm_position` only raises the total of the (already settled) claimer
      (`checkAndUpdate_le`), `decrease_user_farm_position` only lowers a total;
    * every endpoint that changes the farm-token supply records it as `farmSupplyForWeek(current)`;
    * `Σ_{o ∈ L} userTotal(o) ≤ supply` for distinct `L` (C07's `PosInv`) when the week ends.
-/
import MxModel.Lemmas.StakingTrans
import MxModel.Lemmas.FarmWeekPos

namespace Mx.Staking

open Mx.Weekly

/-! ## the reward hook only touches `totalRewardsForWeek` -/

theorem boostedRewards_frame (c' : BCfg) (f : Nat) : RwFrame (boostedRewards c' f) := by
  intro g b w e E g' b' r h
  unfold boostedRewards at h
  simp only at h
  split at h
  · simp only [Option.some.injEq, Prod.mk.injEq] at h
    obtain ⟨rfl, _, _⟩ := h
    exact FrameR.refl _
  · simp only [Option.bind_eq_bind, Option.bind_eq_some_iff] at h
    obtain ⟨fac, _, h⟩ := h
    split at h
    · simp only [Option.pure_def, Option.some.injEq, Prod.mk.injEq] at h
      obtain ⟨rfl, _, _⟩ := h
      exact FrameR.refl _
    · have hfr := collectAndGet_frame (collectBoosted c') g b w
      split at h
      · simp only [Option.pure_def, Option.some.injEq, Prod.mk.injEq] at h
        obtain ⟨rfl, _, _⟩ := h
        exact hfr
      · split at h
        · simp only [Option.pure_def, Option.some.injEq, Prod.mk.injEq] at h
          obtain ⟨rfl, _, _⟩ := h
          exact hfr
        · simp only [Option.bind_eq_some_iff, req_eq_some] at h
          obtain ⟨_, _, h⟩ := h
          split at h
          · simp only [Option.pure_def, Option.some.injEq, Prod.mk.injEq] at h
            obtain ⟨rfl, _, _⟩ := h
            exact hfr
          · simp only [Option.bind_eq_some_iff, sub?_eq_some, Option.pure_def, Option.some.injEq,
              Prod.mk.injEq] at h
            obtain ⟨_, _, rfl, _, _⟩ := h
            exact hfr
      · cases h

/-! ## Σ over owners of `userTotal` is within the supply -/

theorem usum_ownW_le (md : Nat → Option Meta) (X : Nat → Nat) (L : List Nat) (hnd : L.Nodup) (n : Nat) :
    usum L (fun o => ownW md o n * X n) ≤ posW md n * X n := by
  cases hp : posOf md n with
  | none =>
    have : usum L (fun o => ownW md o n * X n) = 0 :=
      usum_zero (fun o _ => by rw [ownW_none hp, Nat.zero_mul])
    rw [this]; exact Nat.zero_le _
  | some a =>
    rw [posW_some hp, Nat.one_mul]
    have e : usum L (fun o => ownW md o n * X n) =
        usum L (fun o => if some a.owner = some o then X n else 0) := by
      apply usum_congr
      intro o _
      rw [ownW_some hp]
      by_cases h : a.owner = o
      · simp [h]
      · have : ¬ (some a.owner = some o) := fun e => h (Option.some.inj e)
        simp [h, this]
    rw [e]
    exact usum_indicator_le L hnd (some a.owner) (X n)

theorem usum_wsum_ownW_le (hold : Nat → Nat → Nat) (accts : List Nat) (md : Nat → Option Meta)
    (L : List Nat) (hnd : L.Nodup) : ∀ (NL : List Nat),
    usum L (fun o => usum NL (fun n => ownW md o n * outst hold accts n)) ≤
      usum NL (fun n => posW md n * outst hold accts n) := by
  intro NL
  induction NL with
  | nil => simp only [usum_nil]; exact Nat.le_of_eq (usum_zero (fun _ _ => rfl))
  | cons n NL ih =>
    simp only [usum_cons]
    rw [usum_add]
    have := usum_ownW_le md (outst hold accts) L hnd n
    omega

/-- C07 consequence: the recorded totals of any set of distinct addresses fit into the farm-token supply -/
theorem PosInv.usum_total_le {s : St} (hP : PosInv s) {L : List Nat} (hnd : L.Nodup) :
    usum L s.userTotal ≤ s.supply := by
  have h : PosOK (pv s) := hP
  have hs : s.supply = wsum s.hold s.accts.dedup (s.nonce + 1) (posW s.md) := h.sup
  have ho : ∀ o, s.userTotal o = wsum s.hold s.accts.dedup (s.nonce + 1) (ownW s.md o) := h.own
  rw [hs, usum_congr (fun o _ => ho o)]
  exact usum_wsum_ownW_le s.hold s.accts.dedup s.md L hnd (List.range (s.nonce + 1))

/-! ## the view -/

def wv (s : St) : Farm.WV :=
  ⟨s.w.progress, s.w.users, s.userTotal, s.b.farmSupply, s.supply, s.epoch, s.firstWeek⟩

/-- **the week-position invariant** of a staking-farm state -/
def WeekPos (s : St) : Prop := (wv s).Inv

theorem wv_week {s : St} (ht : s.firstWeek ≤ s.epoch) : (wv s).week = some s.week := by
  simp [Farm.WV.week, wv, weekOf, req, ht, St.week]

theorem WeekPos.of_wv {s s' : St} (hI : WeekPos s) (h : wv s' = wv s) : WeekPos s' := by
  unfold WeekPos; rw [h]; exact hI

/-! ## the weekly module's calls -/

/-- **the boosted claim moves the user's progress to the current week — with or without a config**
    (repaired `None` branch, F6), and leaves the recorded farm supplies alone -/
theorem claimBoostedYields_move {s : St} {u f : Nat} {r : Weekly.St × B × Nat}
    (h : claimBoostedYields s u f = some r) :
    ∃ o, (∀ p, o = some p → p.week = s.week) ∧ r.1.progress = upd s.w.progress u o ∧
      r.1.users = usersAfter s.w.users u o ∧ r.2.1.farmSupply = s.b.farmSupply := by
  have h0 := h
  unfold claimBoostedYields at h
  split at h
  · rename_i hc
    obtain ⟨e1, _, hu⟩ := claimBoostedYields_none_spec hc h0
    obtain ⟨hp, hus⟩ := Farm.weekly_updateEnergyAndProgress_move hu
    exact ⟨_, newOf_week, hp, hus, by rw [e1]⟩
  · simp only [Option.bind_eq_bind, Option.bind_eq_some_iff, Option.pure_def, Option.some.injEq] at h
    obtain ⟨c', _, r', hr, rfl⟩ := h
    obtain ⟨hp, hus⟩ := Farm.weekly_claimMulti_move (boostedRewards_frame _ _) hr
    refine ⟨_, newOf_week, hp, hus, ?_⟩
    exact claimMulti_pres (fun b' => b'.farmSupply = s.b.farmSupply)
      (fun _ _ _ _ _ _ _ _ h' hp' => by rw [(boostedRewards_spec h').1]; exact hp') hr rfl

/-- `check_and_update_user_farm_position(user, payments)`: only `user`'s total can grow -/
theorem checkAndUpdate_le (m : Nat → Option Meta) (user : Nat) : ∀ (pays : List Pay) (ut ut1 : Nat → Nat),
    checkAndUpdate m user ut pays = some ut1 → ∀ x, x ≠ user → ut1 x ≤ ut x
  | [], ut, ut1, h, x, _ => by
      simp only [checkAndUpdate, Option.some.injEq] at h
      subst h; exact Nat.le_refl _
  | p :: ps, ut, ut1, h, x, hx => by
      simp only [checkAndUpdate, Option.bind_eq_bind, Option.bind_eq_some_iff] at h
      obtain ⟨a, _, h⟩ := h
      refine Nat.le_trans (checkAndUpdate_le m user ps _ ut1 h x hx) ?_
      by_cases hau : a.owner = user
      · rw [if_pos hau]
      · rw [if_neg hau, upd_other _ _ hx]
        unfold decreaseUT
        by_cases hxo : x = a.owner
        · subst hxo; rw [upd_same]; split <;> omega
        · rw [upd_other _ _ hxo]

theorem decreaseUT_le (ut : Nat → Nat) (owner amt x : Nat) : decreaseUT ut owner amt x ≤ ut x := by
  unfold decreaseUT
  by_cases hxo : x = owner
  · subst hxo; rw [upd_same]; split <;> omega
  · rw [upd_other _ _ hxo]

/-! ## endpoints -/

open Mx.Farm (WV)

theorem stakeCore_weekPos {s s' : St} {c orig amount : Nat} {v : Bool} {adds : List Pay} {o : Out}
    (hI : WeekPos s) (h : stakeCore s c orig amount v adds = some (s', o)) : WeekPos s' := by
  have hW := wv_week hI.time
  cases v <;>
  · simp only [stakeCore, Option.bind_eq_bind, Option.bind_eq_some_iff, req_eq_some,
      sub?_eq_some, Option.pure_def, Option.some.injEq, Prod.mk.injEq] at h
    obtain ⟨_, _, hold0, hd, r, hr, res1, _, _, _, ut1, hk, ⟨s3, c3⟩, hg, merged, hm, w2, hw2,
      bal1, _, rfl, _⟩ := h
    obtain ⟨_, _, rfl, rfl⟩ := generate_spec hg
    obtain ⟨o1, ho1, hp1, hu1, hf1⟩ := claimBoostedYields_move hr
    obtain ⟨hp2, hu2⟩ := Farm.weekly_updateEnergyAndProgress_move hw2
    simp only [genSt_w, genSt_week] at hp2 hu2
    have hle := checkAndUpdate_le s.md orig adds _ _ hk
    have m0 := WV.Inv.toMid hI hW
    have m1 := m0.move' orig ho1
    have st1 := WV.settled_move (wv s) (u := orig) ho1
    have m2 := m1.bump (t := upd ut1 orig (ut1 orig + amount)) st1 (fun x hx => by
      rw [upd_other _ _ hx]; exact hle x hx)
    have m3 := m2.move' orig (o := newOf (Energy.queried (s.energy orig) s.epoch) s.week) newOf_week
    have m4 := (m3.setFsw (s.supply + amount)).setSupply (s.supply + amount)
    refine (m4.of_eq ?_).toInv (Or.inr ?_)
    · show (⟨w2.progress, w2.users, upd ut1 orig (ut1 orig + amount),
        upd r.2.1.farmSupply s.week (s.supply + amount), s.supply + amount, s.epoch, s.firstWeek⟩ : WV) = _
      rw [hp2, hu2, hp1, hu1, hf1]; rfl
    · show upd r.2.1.farmSupply s.week (s.supply + amount) s.week = s.supply + amount
      rw [upd_same]

theorem newUserTotal_other {ut ut2 : Nat → Nat} {orig amt : Nat} {nv : Option Nat}
    (h : newUserTotal ut orig amt nv = some ut2) : ∀ x, x ≠ orig → ut2 x = ut x := by
  intro x hx
  cases nv with
  | none => simp only [newUserTotal, Option.some.injEq] at h; rw [← h]
  | some v =>
    simp only [newUserTotal, Option.map_eq_some_iff] at h
    obtain ⟨_, _, rfl⟩ := h
    rw [upd_other _ _ hx]

theorem claimCore_weekPos {s s' : St} {c orig : Nat} {pays : List Pay} {nv : Option Nat} {o : Out}
    (hI : WeekPos s) (h : claimCore s c orig pays nv = some (s', o)) : WeekPos s' := by
  have hW := wv_week hI.time
  simp only [claimCore, Option.bind_eq_bind, Option.bind_eq_some_iff] at h
  obtain ⟨m, hm, h⟩ := h
  simp only [claimBase, Option.bind_eq_bind, Option.bind_eq_some_iff, req_eq_some,
    Option.pure_def, Option.some.injEq] at hm
  obtain ⟨hold0, hd, _, _, p, hp, first, hf, ⟨s1, c1⟩, hg, tok, ht, r, hr, ut1, hk, merged, hmg, rfl⟩ := hm
  obtain ⟨_, _, rfl, rfl⟩ := generate_spec hg
  simp only [claimFinish, Option.bind_eq_bind, Option.bind_eq_some_iff, req_eq_some,
    sub?_eq_some, Option.pure_def, Option.some.injEq, Prod.mk.injEq] at h
  obtain ⟨res1, _, sup1, hs1, ut2, hu2, _, _, w2, hw2, bal1, _, rfl, _⟩ := h
  obtain ⟨o1, ho1, hp1, hu1, hf1⟩ := claimBoostedYields_move hr
  obtain ⟨hp2, hus2⟩ := Farm.weekly_updateEnergyAndProgress_move hw2
  simp only [genSt_w, genSt_week] at hp1 hu1 ho1 hp2 hus2
  have hf1' : r.2.1.farmSupply = s.b.farmSupply := hf1
  have hle := checkAndUpdate_le s.md orig pays _ _ hk
  have hoth := newUserTotal_other hu2
  have m0 := WV.Inv.toMid hI hW
  have m1 := m0.move' orig ho1
  have st1 := WV.settled_move (wv s) (u := orig) ho1
  have m2 := m1.bump (t := ut2) st1 (fun x hx => by rw [hoth x hx]; exact hle x hx)
  have m3 := m2.move' orig (o := newOf (Energy.queried (s.energy orig) s.epoch) s.week) newOf_week
  have m4 := (m3.setFsw sup1).setSupply sup1
  refine (m4.of_eq ?_).toInv (Or.inr ?_)
  · show (⟨w2.progress, w2.users, ut2, upd r.2.1.farmSupply s.week sup1, sup1, s.epoch, s.firstWeek⟩ : WV) = _
    rw [hp2, hus2, hp1, hu1, hf1']; rfl
  · show upd r.2.1.farmSupply s.week sup1 s.week = sup1
    rw [upd_same]

theorem compound_weekPos {s s' : St} {c : Nat} {pays : List Pay} {o : Out}
    (hI : WeekPos s) (h : compound s c pays = some (s', o)) : WeekPos s' := by
  have hW := wv_week hI.time
  simp only [compound, Option.bind_eq_bind, Option.bind_eq_some_iff, req_eq_some,
    sub?_eq_some, Option.pure_def, Option.some.injEq, Prod.mk.injEq] at h
  obtain ⟨hold0, hd, _, _, p, hp, first, hf, ⟨s1, c1⟩, hg, tok, ht, r, hr, res1, _, ut1, hk,
    merged, hm, rfl, _⟩ := h
  obtain ⟨_, _, rfl, rfl⟩ := generate_spec hg
  obtain ⟨o1, ho1, hp1, hu1, hf1⟩ := claimBoostedYields_move hr
  simp only [genSt_w, genSt_week] at hp1 hu1 ho1
  have hf1' : r.2.1.farmSupply = s.b.farmSupply := hf1
  have hle := checkAndUpdate_le s.md c pays _ _ hk
  generalize baseReward (genCache s s.cache) s.dsc p.2 tok + r.2.2 = reward at *
  have m0 := WV.Inv.toMid hI hW
  have m1 := m0.move' c ho1
  have st1 := WV.settled_move (wv s) (u := c) ho1
  have m2 := m1.bump (t := upd ut1 c (ut1 c + reward)) st1 (fun x hx => by
    rw [upd_other _ _ hx]; exact hle x hx)
  have m4 := (m2.setFsw (s.supply + reward)).setSupply (s.supply + reward)
  refine (m4.of_eq ?_).toInv (Or.inr ?_)
  · show (⟨r.1.progress, r.1.users, upd ut1 c (ut1 c + reward),
      upd r.2.1.farmSupply s.week (s.supply + reward), s.supply + reward, s.epoch, s.firstWeek⟩ : WV) = _
    rw [hp1, hu1, hf1']; rfl
  · show upd r.2.1.farmSupply s.week (s.supply + reward) s.week = s.supply + reward
    rw [upd_same]

theorem clearEnergyIfNeeded_move {s : St} {g g' : Weekly.St} {u : Nat}
    (h : clearEnergyIfNeeded s g u = some g') :
    (g'.progress = g.progress ∧ g'.users = g.users) ∨
    (g'.progress = upd g.progress u none ∧ g'.users = usersAfter g.users u none) := by
  unfold clearEnergyIfNeeded at h
  split at h
  · simp only [Option.some.injEq] at h; subst h; exact Or.inl ⟨rfl, rfl⟩
  · simp only [Option.bind_eq_bind, Option.bind_eq_some_iff] at h
    obtain ⟨_, _, _, _, h⟩ := h
    exact Farm.weekly_clearUserEnergy_move h

theorem unstakeCore_weekPos {s s' : St} {c orig : Nat} {pay : Pay} {x : Option Nat} {o : Out}
    (hI : WeekPos s) (h : unstakeCore s c orig pay x = some (s', o)) : WeekPos s' := by
  have hW := wv_week hI.time
  cases x <;>
  · simp only [unstakeCore, Option.bind_eq_bind, Option.bind_eq_some_iff, req_eq_some,
      sub?_eq_some, Option.pure_def, Option.some.injEq, Prod.mk.injEq] at h
    obtain ⟨_, _, hold0, hd, _, _, attrs, ha, ⟨s1, c1⟩, hg, tok, ht, r, hr, res1, _,
      sup1, ⟨hsup, rfl⟩, w2, hw2, bal1, _, rfl, _⟩ := h
    obtain ⟨_, _, rfl, rfl⟩ := generate_spec hg
    obtain ⟨o1, ho1, hp1, hu1, hf1⟩ := claimBoostedYields_move hr
    simp only [genSt_w, genSt_week] at hp1 hu1 ho1
    have hf1' : r.2.1.farmSupply = s.b.farmSupply := hf1
    have m0 := WV.Inv.toMid hI hW
    have m1 := m0.move' orig ho1
    have m2 := m1.setTotal (t := decreaseUT s.userTotal attrs.owner pay.2)
      (fun x => Or.inl (decreaseUT_le _ _ _ x))
    rcases clearEnergyIfNeeded_move hw2 with ⟨hp2, hus2⟩ | ⟨hp2, hus2⟩
    · have m4 := (m2.setFsw (s.supply - tok.amount)).setSupply (s.supply - tok.amount)
      refine (m4.of_eq ?_).toInv (Or.inr ?_)
      · show (⟨w2.progress, w2.users, decreaseUT s.userTotal attrs.owner pay.2,
          upd r.2.1.farmSupply s.week (s.supply - tok.amount), s.supply - tok.amount, s.epoch,
          s.firstWeek⟩ : WV) = _
        rw [hp2, hus2, hp1, hu1, hf1']; rfl
      · show upd r.2.1.farmSupply s.week (s.supply - tok.amount) s.week = s.supply - tok.amount
        rw [upd_same]
    · have m3 := m2.move orig (o := none) (fun p hp => by cases hp)
      have m4 := (m3.setFsw (s.supply - tok.amount)).setSupply (s.supply - tok.amount)
      refine (m4.of_eq ?_).toInv (Or.inr ?_)
      · show (⟨w2.progress, w2.users, decreaseUT s.userTotal attrs.owner pay.2,
          upd r.2.1.farmSupply s.week (s.supply - tok.amount), s.supply - tok.amount, s.epoch,
          s.firstWeek⟩ : WV) = _
        rw [hp2, hus2, hp1, hu1, hf1']; rfl
      · show upd r.2.1.farmSupply s.week (s.supply - tok.amount) s.week = s.supply - tok.amount
        rw [upd_same]

theorem mergeTokens_weekPos {s s' : St} {c : Nat} {pays : List Pay} {o : Out}
    (hI : WeekPos s) (h : mergeTokens s c pays = some (s', o)) : WeekPos s' := by
  have hW := wv_week hI.time
  simp only [mergeTokens, Option.bind_eq_bind, Option.bind_eq_some_iff, req_eq_some,
    sub?_eq_some, Option.pure_def, Option.some.injEq, Prod.mk.injEq] at h
  obtain ⟨hold0, hd, _, _, r, hr, res1, _, p, hp, ut1, hk, first, hf, part, hpart, merged, hm,
    bal1, _, rfl, _⟩ := h
  obtain ⟨o1, ho1, hp1, hu1, hf1⟩ := claimBoostedYields_move hr
  have hle := checkAndUpdate_le s.md c pays _ _ hk
  have m0 := WV.Inv.toMid hI hW
  have m1 := m0.move' c ho1
  have st1 := WV.settled_move (wv s) (u := c) ho1
  have m2 := m1.bump (t := ut1) st1 hle
  refine (m2.of_eq ?_).toInv ?_
  · show (⟨r.1.progress, r.1.users, ut1, r.2.1.farmSupply, s.supply, s.epoch, s.firstWeek⟩ : WV) = _
    rw [hp1, hu1, hf1]; rfl
  · show r.2.1.farmSupply s.week = 0 ∨ r.2.1.farmSupply s.week = s.supply
    rw [hf1]
    exact hI.cur s.week hW

theorem claimBoostedRewards_weekPos {s s' : St} {c : Nat} {u : Option Nat} {o : Out}
    (hI : WeekPos s) (h : claimBoostedRewards s c u = some (s', o)) : WeekPos s' := by
  have hW := wv_week hI.time
  simp only [claimBoostedRewards, Option.bind_eq_bind, Option.bind_eq_some_iff, req_eq_some,
    sub?_eq_some, Option.pure_def, Option.some.injEq, Prod.mk.injEq] at h
  obtain ⟨_, _, _, _, _, _, ⟨s1, c1⟩, hg, r, hr, res, _, bal1, _, rfl, _⟩ := h
  obtain ⟨_, _, rfl, rfl⟩ := generate_spec hg
  obtain ⟨o1, ho1, hp1, hu1, hf1⟩ := claimBoostedYields_move hr
  simp only [genSt_w, genSt_week] at hp1 hu1 ho1
  have hf1' : r.2.1.farmSupply = s.b.farmSupply := hf1
  have m0 := WV.Inv.toMid hI hW
  have m1 := m0.move' c ho1
  have m4 := (m1.setFsw s.supply).setSupply s.supply
  refine (m4.of_eq ?_).toInv (Or.inr ?_)
  · show (⟨r.1.progress, r.1.users, s.userTotal, upd r.2.1.farmSupply s.week s.supply, s.supply,
      s.epoch, s.firstWeek⟩ : WV) = _
    rw [hp1, hu1, hf1']; rfl
  · show upd r.2.1.farmSupply s.week s.supply s.week = s.supply
    rw [upd_same]

theorem updateEnergy_weekPos {s s' : St} {u : Nat} {o : Out}
    (hI : WeekPos s) (h : updateEnergy s u = some (s', o)) : WeekPos s' := by
  have hW := wv_week hI.time
  simp only [updateEnergy, Option.bind_eq_bind, Option.bind_eq_some_iff, Option.pure_def,
    Option.some.injEq, Prod.mk.injEq] at h
  obtain ⟨g, hg, rfl, _⟩ := h
  have hg2 : updateEnergyAndProgress s.w u s.week (Energy.queried (s.energy u) s.epoch) = some g := by
    unfold updateEnergyForUser at hg
    cases hq : s.w.progress u with
    | none =>
      simp only [hq, Option.bind_eq_bind, Option.pure_def, Option.bind_some] at hg
      exact hg
    | some p =>
      simp only [hq, Option.bind_eq_bind, Option.bind_eq_some_iff] at hg
      obtain ⟨_, _, h2⟩ := hg
      exact h2
  obtain ⟨hp, hu⟩ := Farm.weekly_updateEnergyAndProgress_move hg2
  have m0 := WV.Inv.toMid hI hW
  have m1 := m0.move' u (o := newOf (Energy.queried (s.energy u) s.epoch) s.week) newOf_week
  refine (m1.of_eq ?_).toInv ?_
  · show (⟨g.progress, g.users, s.userTotal, s.b.farmSupply, s.supply, s.epoch, s.firstWeek⟩ : WV) = _
    rw [hp, hu]; rfl
  · exact hI.cur s.week hW

/-! ## every transaction -/

theorem settleThen_wv {s s' : St} {f : St → St} {o : Out} (hf : ∀ t, wv (f t) = wv t)
    (h : settleThen s f = some (s', o)) : wv s' = wv s := by
  obtain ⟨_, rfl⟩ := settleThen_eq h
  rw [hf]; rfl

/-- every transaction of the staking farm preserves the week-position invariant (`PosInv`, C07, is used
    when time passes) -/
theorem stepCore_weekPos {s s' : St} {op : Op} {o : Out} (hP : PosInv s) (hI : WeekPos s)
    (h : stepCore s op = some (s', o)) : WeekPos s' := by
  cases op <;> simp only [stepCore] at h
  case stake c orig a adds =>
    cases orig <;> simp only [stakeFarm, Option.bind_eq_bind, Option.bind_eq_some_iff] at h
    · exact stakeCore_weekPos hI h
    · obtain ⟨_, _, h⟩ := h; exact stakeCore_weekPos hI h
  case stakeProxy c orig a adds =>
    simp only [stakeProxy, Option.bind_eq_bind, Option.bind_eq_some_iff] at h
    obtain ⟨_, _, h⟩ := h; exact stakeCore_weekPos hI h
  case stakeBehalf c u a adds =>
    simp only [stakeOnBehalf, Option.bind_eq_bind, Option.bind_eq_some_iff] at h
    obtain ⟨_, _, _, _, h⟩ := h; exact stakeCore_weekPos hI h
  case claim c orig p =>
    cases orig <;> simp only [claimRewards, Option.bind_eq_bind, Option.bind_eq_some_iff] at h
    · exact claimCore_weekPos hI h
    · obtain ⟨_, _, h⟩ := h; exact claimCore_weekPos hI h
  case claimNew c orig nv p =>
    simp only [claimNewValue, Option.bind_eq_bind, Option.bind_eq_some_iff] at h
    obtain ⟨_, _, h⟩ := h; exact claimCore_weekPos hI h
  case claimBehalf c ps =>
    simp only [claimOnBehalf, Option.bind_eq_bind, Option.bind_eq_some_iff] at h
    obtain ⟨_, _, _, _, h⟩ := h; exact claimCore_weekPos hI h
  case compound c ps => exact compound_weekPos hI h
  case unstake c orig p =>
    cases orig <;> simp only [unstakeFarm, Option.bind_eq_bind, Option.bind_eq_some_iff] at h
    · exact unstakeCore_weekPos hI h
    · obtain ⟨_, _, h⟩ := h; exact unstakeCore_weekPos hI h
  case unstakeProxy c orig x p =>
    simp only [unstakeProxy, Option.bind_eq_bind, Option.bind_eq_some_iff] at h
    obtain ⟨_, _, h⟩ := h; exact unstakeCore_weekPos hI h
  case unbond c p =>
    simp only [unbondFarm, Option.bind_eq_bind, Option.bind_eq_some_iff, req_eq_some,
      sub?_eq_some, Option.pure_def, Option.some.injEq, Prod.mk.injEq] at h
    obtain ⟨_, _, _, _, _, _, _, _, _, _, rfl, _⟩ := h
    exact hI.of_wv rfl
  case merge c ps => exact mergeTokens_weekPos hI h
  case claimBoosted c u => exact claimBoostedRewards_weekPos hI h
  case «calc» q a t =>
    simp only [Option.map_eq_some_iff, Prod.mk.injEq] at h
    obtain ⟨_, _, rfl, _⟩ := h
    exact hI
  case transfer a b p =>
    simp only [transfer, Option.bind_eq_bind, Option.bind_eq_some_iff, req_eq_some,
      Option.pure_def, Option.some.injEq, Prod.mk.injEq] at h
    obtain ⟨_, _, _, _, rfl, _⟩ := h
    exact hI.of_wv rfl
  case setEnergy u a l =>
    simp only [Option.some.injEq, Prod.mk.injEq] at h
    obtain ⟨rfl, _⟩ := h
    exact hI.of_wv rfl
  case updateEnergy u => exact updateEnergy_weekPos hI h
  case topUp x =>
    simp only [topUp, Option.bind_eq_bind, Option.bind_eq_some_iff, req_eq_some,
      Option.pure_def, Option.some.injEq, Prod.mk.injEq] at h
    obtain ⟨_, _, rfl, _⟩ := h
    exact hI.of_wv rfl
  case withdraw x =>
    simp only [withdraw, Option.bind_eq_bind, Option.bind_eq_some_iff, req_eq_some,
      sub?_eq_some, Option.pure_def, Option.some.injEq, Prod.mk.injEq] at h
    obtain ⟨⟨s1, c1⟩, hg, rem, _, _, _, cap, _, bal1, _, rfl, _⟩ := h
    obtain ⟨_, _, rfl, rfl⟩ := generate_spec hg
    exact hI.of_wv rfl
  case setMaxApr x =>
    simp only [setMaxApr, Option.bind_eq_bind, Option.bind_eq_some_iff] at h
    obtain ⟨_, _, h⟩ := h
    exact hI.of_wv (settleThen_wv (f := fun t => { t with maxApr := x }) (fun _ => rfl) h)
  case setPerBlock x =>
    simp only [setPerBlock, Option.bind_eq_bind, Option.bind_eq_some_iff] at h
    obtain ⟨_, _, h⟩ := h
    exact hI.of_wv (settleThen_wv (f := fun t => { t with perBlock := x }) (fun _ => rfl) h)
  case startProduce =>
    simp only [startProduce, Option.bind_eq_bind, Option.bind_eq_some_iff, req_eq_some,
      Option.pure_def, Option.some.injEq, Prod.mk.injEq] at h
    obtain ⟨_, _, _, _, rfl, _⟩ := h
    exact hI.of_wv rfl
  case endProduce =>
    exact hI.of_wv (settleThen_wv (f := fun t => { t with produce := false }) (fun _ => rfl) h)
  case setMinUnbond e =>
    simp only [setMinUnbond, Option.bind_eq_bind, Option.bind_eq_some_iff, req_eq_some,
      Option.pure_def, Option.some.injEq, Prod.mk.injEq] at h
    obtain ⟨_, _, rfl, _⟩ := h
    exact hI.of_wv rfl
  case setBoostedPct p =>
    simp only [setBoostedPct, Option.bind_eq_bind, Option.bind_eq_some_iff, req_eq_some] at h
    obtain ⟨_, _, h⟩ := h
    exact hI.of_wv (settleThen_wv (f := fun t => { t with boostedPct := p }) (fun _ => rfl) h)
  case setFactors x =>
    simp only [setFactors, Option.bind_eq_bind, Option.bind_eq_some_iff, req_eq_some,
      Option.pure_def, Option.some.injEq, Prod.mk.injEq] at h
    obtain ⟨_, _, _, _, c, _, rfl, _⟩ := h
    exact hI.of_wv rfl
  case collectUndistributed =>
    simp only [collectUndistributed, Option.bind_eq_bind, Option.bind_eq_some_iff, req_eq_some] at h
    obtain ⟨_, _, h⟩ := h
    split at h <;> simp only [Option.pure_def, Option.some.injEq, Prod.mk.injEq] at h <;>
      obtain ⟨rfl, _⟩ := h <;> exact hI.of_wv rfl
  case pause =>
    simp only [Option.some.injEq, Prod.mk.injEq] at h
    obtain ⟨rfl, _⟩ := h
    exact hI.of_wv rfl
  case resume =>
    simp only [Option.some.injEq, Prod.mk.injEq] at h
    obtain ⟨rfl, _⟩ := h
    exact hI.of_wv rfl
  case hubWhitelist u a =>
    simp only [Option.bind_eq_bind, Option.bind_eq_some_iff, req_eq_some,
      Option.pure_def, Option.some.injEq, Prod.mk.injEq] at h
    obtain ⟨_, _, rfl, _⟩ := h
    exact hI.of_wv rfl
  case hubRemove u a =>
    simp only [Option.bind_eq_bind, Option.bind_eq_some_iff, req_eq_some,
      Option.pure_def, Option.some.injEq, Prod.mk.injEq] at h
    obtain ⟨_, _, rfl, _⟩ := h
    exact hI.of_wv rfl
  case advance b e =>
    simp only [Option.some.injEq, Prod.mk.injEq] at h
    obtain ⟨rfl, _⟩ := h
    exact WV.Inv.advance hI (hP.usum_total_le hI.nodup) (Nat.le_add_right _ _)

theorem step_weekPos {s s' : St} {op : Op} {o : Out} (hP : PosInv s) (hI : WeekPos s)
    (h : step s op = some (s', o)) : WeekPos s' := by
  simp only [step, Option.bind_eq_bind, Option.bind_eq_some_iff, req_eq_some] at h
  obtain ⟨_, _, h⟩ := h
  exact stepCore_weekPos hP hI h

theorem init_weekPos (epoch block dsc maxApr minUnbond perBlock : Nat) (accts wl : List Nat) :
    WeekPos (init epoch block dsc maxApr minUnbond perBlock accts wl) :=
  ⟨Nat.le_refl _, List.nodup_nil, fun _ _ _ _ => Or.inl rfl, fun _ _ => Or.inl rfl, fun _ _ _ _ => rfl⟩

theorem run_weekPos (ops : List Op) {s : St} (hP : PosInv s) (hI : WeekPos s) : WeekPos (run s ops) := by
  induction ops generalizing s with
  | nil => exact hI
  | cons op rest ih =>
    simp only [run, List.foldl_cons]
    cases hs : step s op with
    | none => exact ih hP hI
    | some r =>
      have hs' : step s op = some (r.1, r.2) := hs
      exact ih (step_posInv hP hs') (step_weekPos hP hI hs')

/-- the week-position invariant in every reachable state of the staking farm (no hypothesis on the
    account list: `PosInv` counts every account once) -/
theorem reachable_weekPos (epoch block dsc maxApr minUnbond perBlock : Nat) (accts wl : List Nat)
    (ops : List Op) :
    WeekPos (run (init epoch block dsc maxApr minUnbond perBlock accts wl) ops) :=
  run_weekPos ops (posInv_init epoch block dsc maxApr minUnbond perBlock accts wl)
    (init_weekPos epoch block dsc maxApr minUnbond perBlock accts wl)

end Mx.Staking
