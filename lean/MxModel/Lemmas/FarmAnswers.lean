/-
  What the farm MODEL (Core/Farm.lean, both kinds — `noMint` is farm-with-locked-rewards, the farm
  the proxy-dex talks to) answers to the calls a proxy makes: the amount of the farm token created
  by `enterFarm`, `claimRewards`, `mergeFarmTokens`, and the farming tokens `exitFarm` pays.
  Used by Props/C16Compose.lean to discharge `FarmExact` / `FarmOK`.
-/
import MxModel.Lemmas.FarmLive
import MxModel.Lemmas.FarmPos

namespace Mx.Farm

open Mx.Weekly (upd)

theorem paySum_eq_sum (l : List (Nat × Nat)) : paySum l = (l.map (·.2)).sum := by
  induction l with
  | nil => rfl
  | cons p rest ih => obtain ⟨n, a⟩ := p; simp only [paySum, List.map_cons, List.sum_cons, ih]

/-- `enter_farm_base`: the farm token created is for the farming tokens entered plus the merged
    position amounts; a zero entry is refused -/
theorem enterCore_answer {s s' : St} {caller orig tokenTo amt : Nat} {extra : List (Nat × Nat)}
    {o : Out} (h : enterCore s caller orig tokenTo amt extra = some (s', o)) :
    amt ≠ 0 ∧ o.amt = amt + paySum extra := by
  simp only [enterCore, Option.bind_eq_bind, Option.bind_eq_some_iff, req_eq_some, Option.pure_def,
    Option.some.injEq, Prod.mk.injEq] at h
  obtain ⟨_, hne, s0, _, ⟨s1, boosted⟩, _, s1', _, _, _, s2, _, ⟨s4, c1⟩, _, merged, hm,
    ⟨s5, n⟩, _, s6, _, s8, _, s9, _, _, rfl⟩ := h
  exact ⟨hne, (mergeParts_amt extra hm).1⟩

theorem enterFarm_answer {s s' : St} {caller : Nat} {opt : Option Nat} {amt : Nat}
    {extra : List (Nat × Nat)} {o : Out} (h : enterFarm s caller opt amt extra = some (s', o)) :
    amt ≠ 0 ∧ o.amt = amt + paySum extra ∧ (opt.isSome → caller ∈ s.scWl) := by
  simp only [enterFarm, Option.bind_eq_bind, Option.bind_eq_some_iff] at h
  obtain ⟨orig, ho, hc⟩ := h
  obtain ⟨h1, h2⟩ := enterCore_answer hc
  refine ⟨h1, h2, fun hs => ?_⟩
  cases opt with
  | none => cases hs
  | some x =>
    simp only [origCaller, Option.bind_eq_bind, Option.bind_eq_some_iff, req_eq_some] at ho
    obtain ⟨_, hw, _⟩ := ho
    exact hw

/-- `claim_rewards_base` (not compounding): the new farm token is for exactly the amount paid in -/
theorem claimCore_answer {s s' : St} {caller orig : Nat} {pays : List (Nat × Nat)} {o : Out}
    (h : claimCore s caller orig pays false = some (s', o)) : o.amt = paySum pays := by
  unfold claimCore at h
  replace h := peel h; obtain ⟨⟨n1, a1⟩, hhead, h⟩ := h
  replace h := peel h; obtain ⟨s0, _, h⟩ := h
  replace h := peel h; obtain ⟨_, _, h⟩ := h
  replace h := peel h; obtain ⟨_, _, h⟩ := h
  replace h := peel h; obtain ⟨at1, _, h⟩ := h
  replace h := peel h; obtain ⟨⟨s1, c1⟩, _, h⟩ := h
  replace h := peel h; obtain ⟨part, hpart, h⟩ := h
  replace h := peel h; obtain ⟨⟨s2, boosted⟩, _, h⟩ := h
  replace h := peel h; obtain ⟨res, _, h⟩ := h
  replace h := peel h; obtain ⟨s3, _, h⟩ := h
  replace h := peel h; obtain ⟨merged, hm, h⟩ := h
  replace h := peel h; obtain ⟨⟨s5, n⟩, _, h⟩ := h
  replace h := peel h; obtain ⟨s6, _, h⟩ := h
  replace h := peel h; obtain ⟨s8, _, h⟩ := h
  simp only [Option.pure_def, Option.some.injEq, Prod.mk.injEq] at h
  obtain ⟨_, rfl⟩ := h
  have e1 := (mergeParts_amt pays.tail hm).1
  have e2 := intoPart_amt hpart
  cases pays with
  | nil => simp at hhead
  | cons p rest =>
    simp only [List.head?_cons, Option.some.injEq] at hhead
    subst hhead
    show merged.amt = _
    rw [e1]
    simp only [Bool.false_eq_true, if_false, List.tail_cons, paySum, e2]

theorem claimRewards_answer {s s' : St} {caller : Nat} {opt : Option Nat}
    {pays : List (Nat × Nat)} {o : Out} (h : claimRewards s caller opt pays = some (s', o)) :
    o.amt = paySum pays := by
  simp only [claimRewards, Option.bind_eq_bind, Option.bind_eq_some_iff] at h
  obtain ⟨orig, _, hc⟩ := h
  exact claimCore_answer hc

/-- `mergeFarmTokens`: the merged farm token is for the sum of the amounts paid in -/
theorem mergeFarmTokens_answer {s s' : St} {caller : Nat} {opt : Option Nat}
    {pays : List (Nat × Nat)} {o : Out} (h : mergeFarmTokens s caller opt pays = some (s', o)) :
    o.amt = paySum pays := by
  simp only [mergeFarmTokens, Option.bind_eq_bind, Option.bind_eq_some_iff, req_eq_some,
    Option.pure_def, Option.some.injEq, Prod.mk.injEq] at h
  obtain ⟨_, _, orig, _, _, _, s0, _, ⟨s1, boosted⟩, _, s2, _, merged, hm, ⟨s3, n⟩, _, s4, _, _, rfl⟩ := h
  exact mergeAll_amt hm

/-! ### exit: the farming tokens paid are the position amount minus the penalty part -/

/-- the penalty configuration is not touched by the helpers `exitFarm` runs before the penalty -/
private def cfgv (s : St) : Nat × Nat := (s.minFarmingEpochs, s.penaltyPct)

/-- **`exitFarm`'s answer**: the farming tokens paid out are the position amount `a` minus the
    penalty, which is 0 once the position is `minFarmingEpochs` old and `⌊a·penaltyPct/10000⌋`
    before; in particular never more than `a` -/
theorem exitFarm_answer {s s' : St} {caller : Nat} {opt : Option Nat} {n a : Nat} {o : Out}
    (h : exitFarm s caller opt n a = some (s', o)) :
    ∃ att, s.attrs n = some att ∧ att.epoch ≤ s.epoch ∧
      o.farming = a - (if s.minFarmingEpochs ≤ s.epoch - att.epoch then 0
                       else a * s.penaltyPct / MAXPCT) ∧
      o.farming ≤ a := by
  unfold exitFarm at h
  replace h := peel h; obtain ⟨orig, _, h⟩ := h
  replace h := peel h; obtain ⟨s0, h0, h⟩ := h
  replace h := peel h; obtain ⟨_, _, h⟩ := h
  replace h := peel h; obtain ⟨att, hat, h⟩ := h
  replace h := peel h; obtain ⟨⟨s1, c1⟩, h1, h⟩ := h
  replace h := peel h; obtain ⟨part, hpart, h⟩ := h
  replace h := peel h; obtain ⟨⟨s2, boosted⟩, h2, h⟩ := h
  replace h := peel h; obtain ⟨res, _, h⟩ := h
  replace h := peel h; obtain ⟨sup, _, h⟩ := h
  replace h := peel h; obtain ⟨s4, h4, h⟩ := h
  replace h := peel h; obtain ⟨pen, hpen, h⟩ := h
  replace h := peel h; obtain ⟨out, hout, h⟩ := h
  replace h := peel h; obtain ⟨s6, _, h⟩ := h
  replace h := peel h; obtain ⟨s7, _, h⟩ := h
  replace h := peel h; obtain ⟨s8, _, h⟩ := h
  simp only [Option.pure_def, Option.some.injEq, Prod.mk.injEq] at h
  obtain ⟨_, rfl⟩ := h
  -- frames: attributes, epoch, penalty configuration
  have k0 : xv s0 = xv s := takePayments_xv h0
  have k1 : xv s1 = xv s := (generate_xv h1).trans k0
  have k2 : xv s2 = xv s := (claimBoostedYields_xv h2).trans k1
  have k4 : xv s4 = xv s := (setFarmSupplyWeek_xv (s := decreaseOwner s2 att.owner a) h4).trans k2
  have c0 : cfgv s0 = cfgv s := by obtain ⟨_, rfl⟩ := takePayments_spec _ h0; rfl
  have c1' : cfgv s1 = cfgv s0 := by obtain ⟨_, rfl, _⟩ := generate_spec h1; rfl
  have c2 : cfgv s2 = cfgv s1 := by obtain ⟨_, _, rfl⟩ := claimBoostedYields_struct h2; rfl
  have c4 : cfgv s4 = cfgv s2 := by
    obtain ⟨_, _, rfl⟩ := setFarmSupplyWeek_spec (s := decreaseOwner s2 att.owner a) h4; rfl
  have cc : cfgv s4 = cfgv s := c4.trans (c2.trans (c1'.trans c0))
  have hmin : s4.minFarmingEpochs = s.minFarmingEpochs := congrArg Prod.fst cc
  have hpct : s4.penaltyPct = s.penaltyPct := congrArg Prod.snd cc
  have hep : s4.epoch = s.epoch := congrArg XV.epoch k4
  have hattr : s0.attrs = s.attrs := congrArg XV.attrs k0
  obtain ⟨pa, _, pe, _, _, _⟩ := intoPart_spec hpart
  simp only [exitPenalty, Option.bind_eq_bind, Option.bind_eq_some_iff, sub?_eq_some] at hpen
  obtain ⟨d, ⟨hle, rfl⟩, hpen⟩ := hpen
  rw [hep, pe] at hle hpen
  rw [hmin, hpct, pa] at hpen
  simp only [sub?_eq_some] at hout
  obtain ⟨hpl, rfl⟩ := hout
  rw [pa] at hpl ⊢
  refine ⟨att, by rw [← hattr]; exact hat, hle, ?_, Nat.sub_le _ _⟩
  show a - pen = _
  by_cases hm : s.minFarmingEpochs ≤ s.epoch - att.epoch
  · rw [if_pos hm] at hpen ⊢
    simp only [Option.pure_def, Option.some.injEq] at hpen
    rw [← hpen]
  · rw [if_neg hm] at hpen ⊢
    simp only [Option.pure_def, Option.some.injEq] at hpen
    rw [← hpen]

end Mx.Farm
