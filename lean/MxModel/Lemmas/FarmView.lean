/-
  The farm reward view `calculateRewardsForGivenPosition` (`calcRewards`) against `claimRewards` /
  `compoundRewards` / `exitFarm` (C20, farm clause).

  The operations take the payments out of the caller's account first (only `hold` changes), then do
  exactly what the view does: `generate` on a fresh cache, the base reward of (amount, token index)
  at the settled index, and the boosted claim of the user.  Neither `generate` nor
  `claimBoostedYields` reads `hold` (`generate_hold`, `claimBoostedYields_hold`), so both see the
  same numbers.
-/
import MxModel.Lemmas.FarmPos
import MxModel.Lemmas.FarmRps
import MxModel.Lemmas.FarmBoost

namespace Mx.Farm

open Mx.Weekly (upd Energy)

/-! ### `hold` is not read by the settlement and the boosted claim -/

theorem takeRewardSlice_hold (s : St) (h : Nat → Nat → Nat) (full : Nat) :
    takeRewardSlice { s with hold := h } full =
      (takeRewardSlice s full).map fun r => ({ r.1 with hold := h }, r.2) := by
  unfold takeRewardSlice
  simp only [St.week]
  split
  · rfl
  · split
    · rfl
    · cases Weekly.weekOf s.epoch s.firstWeekStart with
      | none => rfl
      | some W => rfl

/-- the settlement on a live cache, with the emission `m` already determined -/
def genBody (s1 : St) (c : Cache) (m : Nat) : Option (St × Cache) :=
  if m = 0 then some (s1, c)
  else do
    let s2 := { s1 with generated := s1.generated + m
                        balReward := if s1.kind = .mint then s1.balReward + m else s1.balReward }
    let c1 := { c with reserve := c.reserve + m }
    let (s3, cut) ← takeRewardSlice s2 m
    let base ← sub? m cut
    let s4 := { s3 with baseBudget := s3.baseBudget + base }
    if c1.supply = 0 then pure (s4, c1)
    else pure (s4, { c1 with rps := c1.rps + base * s4.dsc / c1.supply })

theorem generate_eq_body (s : St) (c : Cache) :
    generate s c = if s.lastBlock < s.block then
      genBody { s with lastBlock := s.block } c (if s.produce then s.perBlock * (s.block - s.lastBlock) else 0)
      else some (s, c) := rfl

theorem genBody_hold (s1 : St) (h : Nat → Nat → Nat) (c : Cache) (m : Nat) :
    genBody { s1 with hold := h } c m = (genBody s1 c m).map fun r => ({ r.1 with hold := h }, r.2) := by
  unfold genBody
  by_cases hm : m = 0
  · simp only [hm, if_true, Option.map_some]
  · simp only [hm, if_false]
    have e := takeRewardSlice_hold
      { s1 with generated := s1.generated + m
                balReward := if s1.kind = .mint then s1.balReward + m else s1.balReward } h m
    simp only [Option.bind_eq_bind]
    rw [show takeRewardSlice { ({ s1 with hold := h } : St) with
          generated := ({ s1 with hold := h } : St).generated + m
          balReward := if ({ s1 with hold := h } : St).kind = .mint
            then ({ s1 with hold := h } : St).balReward + m else ({ s1 with hold := h } : St).balReward } m = _ from e]
    cases takeRewardSlice { s1 with generated := s1.generated + m
                                    balReward := if s1.kind = .mint then s1.balReward + m else s1.balReward } m with
    | none => rfl
    | some x =>
      obtain ⟨s3, cut⟩ := x
      simp only [Option.map_some, Option.bind_some]
      cases sub? m cut with
      | none => rfl
      | some base =>
        simp only [Option.bind_some]
        split <;> rfl

/-- `generate` neither reads nor writes `hold` -/
theorem generate_hold (s : St) (h : Nat → Nat → Nat) (c : Cache) :
    generate { s with hold := h } c = (generate s c).map fun r => ({ r.1 with hold := h }, r.2) := by
  rw [generate_eq_body, generate_eq_body]
  simp only
  split
  · exact genBody_hold { s with lastBlock := s.block } h c _
  · rfl

/-- `claimBoostedYields` neither reads nor writes `hold` -/
theorem claimBoostedYields_hold (s : St) (u : Nat) (h : Nat → Nat → Nat) :
    claimBoostedYields { s with hold := h } u =
      (claimBoostedYields s u).map (fun r => ({ r.1 with hold := h }, r.2)) := by
  unfold claimBoostedYields
  cases hc : s.b.cfg with
  | none =>
    simp only [updateEnergyAndProgress, St.week]
    cases Weekly.weekOf s.epoch s.firstWeekStart with
    | none => rfl
    | some W =>
      simp only [Option.bind_eq_bind, Option.bind_some]
      cases Weekly.updateEnergyAndProgress s.w u W (Energy.queried (s.energy u) s.epoch) with
      | none => rfl
      | some g => rfl
  | some cfg =>
    simp only [St.week]
    cases Weekly.weekOf s.epoch s.firstWeekStart with
    | none => rfl
    | some W =>
      simp only [Option.bind_eq_bind, Option.bind_some]
      cases cfg.update W none with
      | none => rfl
      | some mem =>
        simp only [Option.bind_some]
        cases Weekly.claimMulti (boostedRewards mem (s.userTotal u)) s.w s.b u W
            (Energy.queried (s.energy u) s.epoch) with
        | none => rfl
        | some x => rfl

/-- the common prefix of claim / compound / exit, pulled back to the state BEFORE the payments were
    taken: same settled cache, same `dsc`, same boosted amount -/
theorem prefix_pullback {s s0 s1' s2' : St} {c1 : Cache} {caller orig boosted : Nat}
    {pays : List (Nat × Nat)}
    (h0 : takePayments s caller pays = some s0)
    (h1 : generate s0 (Cache.read s0) = some (s1', c1))
    (h2 : claimBoostedYields s1' orig = some (s2', boosted)) :
    ∃ s1 s2, generate s (Cache.read s) = some (s1, c1) ∧
      claimBoostedYields s1 orig = some (s2, boosted) ∧ s1'.dsc = s1.dsc ∧ s0.attrs = s.attrs := by
  obtain ⟨h', rfl⟩ := takePayments_spec pays h0
  have hc : Cache.read ({ s with hold := h' } : St) = Cache.read s := rfl
  rw [hc, generate_hold, Option.map_eq_some_iff] at h1
  obtain ⟨⟨s1, c1'⟩, hg, he⟩ := h1
  simp only [Prod.mk.injEq] at he
  obtain ⟨rfl, rfl⟩ := he
  rw [claimBoostedYields_hold, Option.map_eq_some_iff] at h2
  obtain ⟨⟨s2, b'⟩, hb, he⟩ := h2
  simp only [Prod.mk.injEq] at he
  obtain ⟨_, rfl⟩ := he
  exact ⟨s1, s2, hg, hb, rfl, rfl⟩

/-! ### what the operations pay -/

/-- `claimRewards` / `compoundRewards` (any caller, any `orig`, any further merged payments): the
    reward is the base reward of the FIRST payment `(n, a)` at the settled index plus `orig`'s
    boosted claim, both computed from the state the operation started in -/
theorem claimCore_reward {s s' : St} {caller orig n a : Nat} {rest : List (Nat × Nat)} {cmp : Bool}
    {o : Out} (h : claimCore s caller orig ((n, a) :: rest) cmp = some (s', o)) :
    ∃ att s1 c1 s2 boosted, s.attrs n = some att ∧ generate s (Cache.read s) = some (s1, c1) ∧
      claimBoostedYields s1 orig = some (s2, boosted) ∧
      o.base = baseReward s1.dsc c1.rps a att.rps ∧ o.boosted = boosted ∧
      o.rew = baseReward s1.dsc c1.rps a att.rps + boosted := by
  unfold claimCore at h
  replace h := peel h; obtain ⟨⟨n1, a1⟩, hhead, h⟩ := h
  simp only [List.head?_cons, Option.some.injEq, Prod.mk.injEq] at hhead
  obtain ⟨rfl, rfl⟩ := hhead
  replace h := peel h; obtain ⟨s0, h0, h⟩ := h
  replace h := peel h; obtain ⟨_, _, h⟩ := h
  replace h := peel h; obtain ⟨_, _, h⟩ := h
  replace h := peel h; obtain ⟨at1, hat, h⟩ := h
  replace h := peel h; obtain ⟨⟨s1', c1⟩, h1, h⟩ := h
  replace h := peel h; obtain ⟨part, hpart, h⟩ := h
  replace h := peel h; obtain ⟨⟨s2', boosted⟩, h2, h⟩ := h
  replace h := peel h; obtain ⟨res, _, h⟩ := h
  replace h := peel h; obtain ⟨s3, _, h⟩ := h
  replace h := peel h; obtain ⟨merged, _, h⟩ := h
  replace h := peel h; obtain ⟨⟨s5, nn⟩, _, h⟩ := h
  replace h := peel h; obtain ⟨s6, _, h⟩ := h
  replace h := peel h; obtain ⟨s8, _, h⟩ := h
  simp only [Option.pure_def, Option.some.injEq, Prod.mk.injEq] at h
  obtain ⟨_, rfl⟩ := h
  obtain ⟨s1, s2, hg, hb, hd, ha⟩ := prefix_pullback h0 h1 h2
  rw [ha] at hat
  obtain ⟨hr, _⟩ := intoPart_rps hpart
  refine ⟨at1, s1, c1, s2, boosted, hat, hg, hb, ?_, rfl, ?_⟩
  · show baseReward s1'.dsc c1.rps a part.rps = _
    rw [hd, hr]
  · show baseReward s1'.dsc c1.rps a part.rps + boosted = _
    rw [hd, hr]

/-- `exitFarm` pays the same reward -/
theorem exitFarm_reward {s s' : St} {caller : Nat} {opt : Option Nat} {n a : Nat} {o : Out}
    (h : exitFarm s caller opt n a = some (s', o)) :
    ∃ orig att s1 c1 s2 boosted, origCaller s caller opt = some orig ∧ s.attrs n = some att ∧
      generate s (Cache.read s) = some (s1, c1) ∧
      claimBoostedYields s1 orig = some (s2, boosted) ∧
      o.base = baseReward s1.dsc c1.rps a att.rps ∧ o.boosted = boosted ∧
      o.rew = baseReward s1.dsc c1.rps a att.rps + boosted := by
  unfold exitFarm at h
  replace h := peel h; obtain ⟨orig, horig, h⟩ := h
  replace h := peel h; obtain ⟨s0, h0, h⟩ := h
  replace h := peel h; obtain ⟨_, _, h⟩ := h
  replace h := peel h; obtain ⟨att, hat, h⟩ := h
  replace h := peel h; obtain ⟨⟨s1', c1⟩, h1, h⟩ := h
  replace h := peel h; obtain ⟨part, hpart, h⟩ := h
  replace h := peel h; obtain ⟨⟨s2', boosted⟩, h2, h⟩ := h
  replace h := peel h; obtain ⟨res, _, h⟩ := h
  replace h := peel h; obtain ⟨sup, _, h⟩ := h
  replace h := peel h; obtain ⟨s4, _, h⟩ := h
  replace h := peel h; obtain ⟨pen, _, h⟩ := h
  replace h := peel h; obtain ⟨out, _, h⟩ := h
  replace h := peel h; obtain ⟨s6, _, h⟩ := h
  replace h := peel h; obtain ⟨s7, _, h⟩ := h
  replace h := peel h; obtain ⟨s8, _, h⟩ := h
  simp only [Option.pure_def, Option.some.injEq, Prod.mk.injEq] at h
  obtain ⟨_, rfl⟩ := h
  obtain ⟨s1, s2, hg, hb, hd, ha⟩ := prefix_pullback h0 h1 h2
  rw [ha] at hat
  obtain ⟨hr, _⟩ := intoPart_rps hpart
  refine ⟨orig, att, s1, c1, s2, boosted, horig, hat, hg, hb, ?_, rfl, ?_⟩
  · show baseReward s1'.dsc c1.rps a part.rps = _
    rw [hd, hr]
  · show baseReward s1'.dsc c1.rps a part.rps + boosted = _
    rw [hd, hr]

/-- the view, spelled out -/
theorem calcRewards_eq_some {s : St} {user amount rpsTok q : Nat} :
    calcRewards s user amount rpsTok = some q ↔
      ∃ s1 c1 s2 boosted, generate s (Cache.read s) = some (s1, c1) ∧
        claimBoostedYields s1 user = some (s2, boosted) ∧
        q = baseReward s1.dsc c1.rps amount rpsTok + boosted := by
  simp only [calcRewards, Option.bind_eq_bind, Option.bind_eq_some_iff, Option.pure_def,
    Option.some.injEq]
  constructor
  · rintro ⟨⟨s1, c1⟩, hg, ⟨s2, boosted⟩, hb, rfl⟩
    exact ⟨s1, c1, s2, boosted, hg, hb, rfl⟩
  · rintro ⟨s1, c1, s2, boosted, hg, hb, rfl⟩
    exact ⟨(s1, c1), hg, (s2, boosted), hb, rfl⟩

end Mx.Farm
