/-
  `GInv` (the global energy invariant in its lots formulation) is preserved by every entry point
  of the weekly-rewards-splitting module: `update_energy_and_progress`, `updateEnergyForUser`,
  `clear_user_energy`, and `claim_multi` for ANY reward function that leaves the module's
  bookkeeping alone (`RwFrame`).  Also: what `claim_multi` does to the claim progress.
-/
import MxModel.Lemmas.WeeklyUpdate

namespace Mx.Weekly

/-- everything but `totalRewards` is untouched -/
structure FrameR (g' g : St) : Prop where
  fb : g'.firstBucketId = g.firstBucketId
  progress : g'.progress = g.progress
  users : g'.users = g.users
  totalEnergy : g'.totalEnergy = g.totalEnergy
  totalLocked : g'.totalLocked = g.totalLocked
  buckets : g'.buckets = g.buckets
  lgw : g'.lastGlobalUpdateWeek = g.lastGlobalUpdateWeek

theorem FrameR.refl (g : St) : FrameR g g := ⟨rfl, rfl, rfl, rfl, rfl, rfl, rfl⟩

theorem FrameR.trans {a b c : St} (h1 : FrameR a b) (h2 : FrameR b c) : FrameR a c :=
  ⟨h1.fb.trans h2.fb, h1.progress.trans h2.progress, h1.users.trans h2.users,
   h1.totalEnergy.trans h2.totalEnergy, h1.totalLocked.trans h2.totalLocked,
   h1.buckets.trans h2.buckets, h1.lgw.trans h2.lgw⟩

/-- a reward function that only ever touches `totalRewardsForWeek` of the module state -/
def RwFrame {σ : Type} (rw : RewardFn σ) : Prop :=
  ∀ g c w e E g' c' r, rw g c w e E = some (g', c', r) → FrameR g' g

theorem GRel.frame {prog : Nat → Option ClaimProgress} {users : List Nat} {g g' : St} {o : Nat}
    (h : GRel prog users g o) (f : FrameR g' g) : GRel prog users g' o := by
  refine ⟨by rw [f.lgw]; exact h.weekPos, by rw [f.lgw]; exact h.p, ?_, ?_⟩
  · rw [f.lgw, f.fb, f.buckets, f.totalEnergy, f.totalLocked]; exact h.l
  · intro w hw; rw [f.lgw] at hw; rw [f.totalEnergy, f.totalLocked]; exact h.fut w hw

theorem collectAndGet_frame {σ : Type} (collect : CollectFn σ) (g : St) (c : σ) (week : Nat) :
    FrameR (collectAndGet collect g c week).1 g := by
  unfold collectAndGet
  split
  · exact ⟨rfl, rfl, rfl, rfl, rfl, rfl, rfl⟩
  · exact FrameR.refl g

theorem defaultRewards_frame {σ : Type} (collect : CollectFn σ) : RwFrame (defaultRewards collect) := by
  intro g c w e E g' c' r h
  unfold defaultRewards at h
  split at h
  · simp only [Option.some.injEq, Prod.mk.injEq] at h
    obtain ⟨rfl, _, _⟩ := h
    exact FrameR.refl _
  · simp only [Option.some.injEq, Prod.mk.injEq] at h
    obtain ⟨rfl, _, _⟩ := h
    exact collectAndGet_frame collect g c w

/-! ### the claim loop -/

theorem claimSingle_spec {σ : Type} {rw : RewardFn σ} {a a' : ClaimAcc σ}
    (h : claimSingle rw a = some a') :
    ∃ r, rw a.g a.c a.p.week a.p.energy.getEnergyAmount (a.g.totalEnergy a.p.week) =
        some (a'.g, a'.c, r) ∧
      a'.p = a.p.advanceWeek ∧ a'.rewards = a.rewards ++ r := by
  simp only [claimSingle, Option.bind_eq_bind, Option.bind_eq_some_iff, Option.pure_def,
    Option.some.injEq] at h
  obtain ⟨⟨g1, c1, r⟩, h1, rfl⟩ := h
  exact ⟨r, h1, rfl, rfl⟩

theorem claimLoop_frame {σ : Type} {rw : RewardFn σ} (hrw : RwFrame rw) :
    ∀ (n : Nat) {a a' : ClaimAcc σ}, claimLoop rw n a = some a' →
      FrameR a'.g a.g ∧ a'.p = (ClaimProgress.advanceWeek^[n]) a.p := by
  intro n
  induction n with
  | zero =>
    intro a a' h
    simp only [claimLoop, Option.some.injEq] at h
    subst h
    exact ⟨FrameR.refl _, rfl⟩
  | succ n ih =>
    intro a a' h
    simp only [claimLoop, Option.bind_eq_some_iff] at h
    obtain ⟨a1, h1, h2⟩ := h
    obtain ⟨r, hr, hp, _⟩ := claimSingle_spec h1
    obtain ⟨f2, p2⟩ := ih h2
    refine ⟨f2.trans (hrw _ _ _ _ _ _ _ _ hr), ?_⟩
    rw [p2, hp, Function.iterate_succ_apply]

/-! ### entry points -/

theorem GInv.init : GInv St.init := Or.inl Pristine.init

theorem setProgress_GInv {g' : St} {u0 W : Nat} {cur : Energy} {users0 : List Nat}
    {prog0 : Nat → Option ClaimProgress} {o : Nat}
    (hR : GRel (upd prog0 u0 (newOf cur W)) (usersAfter users0 u0 (newOf cur W)) g' o)
    (hp : g'.progress = prog0) (hu : g'.users = users0) :
    GInv (setProgress g' u0 (newOf cur W)) := by
  refine Or.inr ⟨o, ?_⟩
  have e1 : (setProgress g' u0 (newOf cur W)).progress = upd prog0 u0 (newOf cur W) := by
    simp [setProgress, hp]
  have e2 : (setProgress g' u0 (newOf cur W)).users = usersAfter users0 u0 (newOf cur W) := by
    rw [setProgress_users, hu]
  rw [e1, e2]
  exact ⟨hR.weekPos, hR.p, hR.l, hR.fut⟩

/-- `update_energy_and_progress` keeps the invariant -/
theorem updateEnergyAndProgress_GInv {g g' : St} {user W : Nat} {cur : Energy} (hW : 1 ≤ W)
    (hI : GInv g) (h : updateEnergyAndProgress g user W cur = some g') : GInv g' := by
  simp only [updateEnergyAndProgress, Option.bind_eq_bind, Option.bind_eq_some_iff, Option.pure_def,
    Option.some.injEq] at h
  obtain ⟨g1, h1, rfl⟩ := h
  obtain ⟨⟨o, hR⟩, _, hp, hu⟩ := updateUser_GRel hW hI h1
  change GInv (setProgress g1 user (newOf cur W))
  exact setProgress_GInv hR hp hu

/-- endpoint `updateEnergyForUser` keeps the invariant -/
theorem updateEnergyForUser_GInv {g g' : St} {user W : Nat} {cur : Energy} (hW : 1 ≤ W)
    (hI : GInv g) (h : updateEnergyForUser g user W cur = some g') : GInv g' := by
  unfold updateEnergyForUser at h
  cases hq : g.progress user with
  | none =>
    simp only [hq, Option.bind_eq_bind, Option.pure_def, Option.bind_some] at h
    exact updateEnergyAndProgress_GInv hW hI h
  | some p =>
    simp only [hq, Option.bind_eq_bind, Option.bind_eq_some_iff] at h
    obtain ⟨_, _, h2⟩ := h
    exact updateEnergyAndProgress_GInv hW hI h2

/-- `clear_user_energy` keeps the invariant -/
theorem clearUserEnergy_GInv {g g' : St} {user W epoch remaining minFarm : Nat} (hW : 1 ≤ W)
    (hI : GInv g) (h : clearUserEnergy g user W epoch remaining minFarm = some g') : GInv g' := by
  unfold clearUserEnergy at h
  split at h
  · simp only [Option.some.injEq] at h; subst h; exact hI
  · simp only [Option.bind_eq_bind, Option.bind_eq_some_iff, Option.pure_def,
      Option.some.injEq] at h
    obtain ⟨g1, h1, rfl⟩ := h
    obtain ⟨⟨o, hR⟩, _, hp, hu⟩ := updateUser_GRel hW hI h1
    have hn : newOf (Energy.newZero epoch) W = none := by
      simp [newOf, Energy.newZero, Energy.getEnergyAmount]
    have := setProgress_GInv hR hp hu
    rw [hn] at this
    exact this

/-- the progress `claim_multi` starts from: the stored one, or `(cur, W)` for a new user -/
def startProgress (stored : Option ClaimProgress) (cur : Energy) (W : Nat) : ClaimProgress :=
  match stored with
  | some p => p
  | none => ⟨cur, W⟩

/-- where the claim loop starts: the start progress, advanced past the weeks beyond the last four -/
def loopStart (p0 : ClaimProgress) (W : Nat) : ClaimProgress :=
  if USER_MAX_CLAIM_WEEKS < W - p0.week then
    p0.advanceMultipleWeeks (W - p0.week - USER_MAX_CLAIM_WEEKS)
  else p0

/-- how many weeks the claim loop walks -/
def loopLen (p0 : ClaimProgress) (W : Nat) : Nat := min (W - p0.week) USER_MAX_CLAIM_WEEKS

/-- the loop walks the weeks `W − len, …, W − 1`, at most four, none before the start progress -/
theorem loop_window (p0 : ClaimProgress) (W : Nat) (h : p0.week ≤ W) :
    (loopStart p0 W).week + loopLen p0 W = W ∧ loopLen p0 W ≤ 4 ∧ p0.week ≤ (loopStart p0 W).week := by
  unfold loopStart loopLen
  simp only [USER_MAX_CLAIM_WEEKS]
  by_cases hb : 4 < W - p0.week
  · simp only [hb, if_true, ClaimProgress.advanceMultipleWeeks_eq]; omega
  · simp only [hb, if_false]; omega

/-- what `claim_multi` does, step by step -/
theorem claimMulti_spec {σ : Type} {rw : RewardFn σ} {g g' : St} {c c' : σ} {user W : Nat}
    {cur : Energy} {r : List (Tok × Nat)}
    (h : claimMulti rw g c user W cur = some (g', c', r)) :
    ∃ g1 a,
      updateUserEnergyForCurrentWeek g W cur (g.progress user) = some g1 ∧
      (startProgress (g.progress user) cur W).week ≤ W ∧
      claimLoop rw (loopLen (startProgress (g.progress user) cur W) W)
        ⟨g1, c, loopStart (startProgress (g.progress user) cur W) W, []⟩ = some a ∧
      g' = setProgress a.g user (newOf cur W) ∧ c' = a.c ∧ r = a.rewards := by
  simp only [claimMulti, Option.bind_eq_bind, Option.bind_eq_some_iff, req_eq_some,
    Option.pure_def, Option.some.injEq, Prod.mk.injEq] at h
  obtain ⟨g1, h1, _, hle, a, ha, rfl, rfl, rfl⟩ := h
  exact ⟨g1, a, h1, hle, ha, rfl, rfl, rfl⟩

/-- **`claim_multi` keeps the invariant**, for every reward function that respects the frame -/
theorem claimMulti_GInv {σ : Type} {rw : RewardFn σ} (hrw : RwFrame rw) {g g' : St} {c c' : σ}
    {user W : Nat} {cur : Energy} {r : List (Tok × Nat)} (hW : 1 ≤ W) (hI : GInv g)
    (h : claimMulti rw g c user W cur = some (g', c', r)) : GInv g' := by
  obtain ⟨g1, a, h1, _, ha, rfl, _, _⟩ := claimMulti_spec h
  obtain ⟨⟨o, hR⟩, _, hp, hu⟩ := updateUser_GRel hW hI h1
  obtain ⟨fr, _⟩ := claimLoop_frame hrw _ ha
  simp only at fr
  exact setProgress_GInv (hR.frame fr) (fr.progress.trans hp) (fr.users.trans hu)

/-- after `claim_multi` the user's progress is `(cur, W)` — or absent when `cur` has no energy -/
theorem claimMulti_progress {σ : Type} {rw : RewardFn σ} (hrw : RwFrame rw) {g g' : St} {c c' : σ}
    {user W : Nat} {cur : Energy} {r : List (Tok × Nat)}
    (h : claimMulti rw g c user W cur = some (g', c', r)) :
    g'.progress user = newOf cur W ∧ ∀ u, u ≠ user → g'.progress u = g.progress u := by
  obtain ⟨g1, a, h1, _, ha, rfl, _, _⟩ := claimMulti_spec h
  obtain ⟨fr, _⟩ := claimLoop_frame hrw _ ha
  simp only at fr
  have hg1 : g1.progress = g.progress := by
    rw [updateUserEnergyForCurrentWeek_eq] at h1
    simp only [updateGlobal, Option.bind_eq_bind, Option.bind_eq_some_iff, req_eq_some] at h1
    obtain ⟨ga, ha1, _, _, ⟨gb, bp⟩, hre, gc, htk, hen⟩ := h1
    dsimp only at htk hen
    have e1 : ga.progress = g.progress := by
      unfold performWeeklyUpdate at ha1
      split at ha1
      · simp only [Option.some.injEq] at ha1; subst ha1; rfl
      split at ha1
      · simp only [Option.some.injEq] at ha1; subst ha1; rfl
      · simp only [Option.bind_eq_bind, Option.bind_eq_some_iff, req_eq_some] at ha1
        obtain ⟨_, _, ⟨g2, t2⟩, hs, hfin⟩ := ha1
        have hsp : ∀ (n : Nat) (x y : St) (t t' : Totals), shiftN n x t = some (y, t') →
            y.progress = x.progress := by
          intro n
          induction n with
          | zero => intro x y t t' hh; simp only [shiftN, Option.some.injEq, Prod.mk.injEq] at hh; rw [← hh.1]
          | succ n ih =>
            intro x y t t' hh
            simp only [shiftN, Option.bind_eq_some_iff] at hh
            obtain ⟨⟨x1, t1⟩, hh1, hh2⟩ := hh
            have := ih _ _ _ _ hh2
            simp only [shiftOnce, Option.bind_eq_bind, Option.bind_eq_some_iff, sub?_eq_some,
              Option.pure_def, Option.some.injEq, Prod.mk.injEq] at hh1
            obtain ⟨_, _, rfl, _⟩ := hh1
            exact this
        have e := hsp _ _ _ _ _ hs
        split at hfin <;>
          (simp only [Option.pure_def, Option.some.injEq] at hfin; subst hfin; exact e)
    rw [(updateTotalEnergy_spec hen).2.1, (updateTotalTokens_spec htk).2.1,
      (reallocate_spec hre).2.2.1.progress, e1]
  constructor
  · simp [setProgress, upd_same]
  · intro u hu
    simp only [setProgress, upd_other _ _ hu]
    rw [fr.progress, hg1]

end Mx.Weekly
