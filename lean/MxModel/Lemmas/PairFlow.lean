/-
  Where the tokens go: exact accounting of the pair's balance against its cumulative sinks
  (`burn*`, `coll*`, `ext*`, `slk*`) through fee routing and through every endpoint.
  Used by Props/C01Ledger.lean and Props/C03Ledger.lean.
-/
import MxModel.Lemmas.PairLock
import MxModel.Core.PairLedger

namespace Mx.Pair

/-! ### direction-generic views of the sink counters -/

def St.burnIn (s : St) : Dir → Nat
  | .ab => s.burn1
  | .ba => s.burn2
def St.burnOut (s : St) : Dir → Nat
  | .ab => s.burn2
  | .ba => s.burn1
def St.collIn (s : St) : Dir → Nat
  | .ab => s.coll1
  | .ba => s.coll2
def St.collOut (s : St) : Dir → Nat
  | .ab => s.coll2
  | .ba => s.coll1
def St.extIn (s : St) : Dir → Nat
  | .ab => s.ext1
  | .ba => s.ext2
def St.extOut (s : St) : Dir → Nat
  | .ab => s.ext2
  | .ba => s.ext1

/-- Fee routing in direction `d` only moves tokens from the pair's balance to the sinks:
    per pool token, balance + burned + collector + forwarded is unchanged; the collector only
    ever receives the input token; no sink counter decreases. -/
structure Flow (d : Dir) (s s' : St) : Prop where
  inSum : s'.balIn d + s'.burnIn d + s'.collIn d + s'.extIn d =
          s.balIn d + s.burnIn d + s.collIn d + s.extIn d
  outSum : s'.balOut d + s'.burnOut d + s'.extOut d = s.balOut d + s.burnOut d + s.extOut d
  collOutEq : s'.collOut d = s.collOut d
  burnInMono : s.burnIn d ≤ s'.burnIn d
  collInMono : s.collIn d ≤ s'.collIn d
  extInMono : s.extIn d ≤ s'.extIn d
  burnOutMono : s.burnOut d ≤ s'.burnOut d
  extOutMono : s.extOut d ≤ s'.extOut d

theorem Flow.refl (d : Dir) (s : St) : Flow d s s :=
  ⟨rfl, rfl, rfl, Nat.le_refl _, Nat.le_refl _, Nat.le_refl _, Nat.le_refl _, Nat.le_refl _⟩

theorem Flow.trans {d : Dir} {a b c : St} (h1 : Flow d a b) (h2 : Flow d b c) : Flow d a c := by
  obtain ⟨a1, a2, a3, a4, a5, a6, a7, a8⟩ := h1
  obtain ⟨b1, b2, b3, b4, b5, b6, b7, b8⟩ := h2
  exact ⟨by omega, by omega, by omega, by omega, by omega, by omega, by omega, by omega⟩

theorem feeSlice_flow {s s' : St} {d : Dir} {slice : Nat} {w : Want}
    (h : s.feeSlice d slice w = some s') : Flow d s s' := by
  unfold St.feeSlice at h
  split at h
  · simp only [St.debitIn, Option.bind_eq_bind, Option.bind_eq_some_iff, sub?_eq_some,
      Option.pure_def, Option.some.injEq] at h
    obtain ⟨s1, ⟨b, ⟨hb, rfl⟩, rfl⟩, rfl⟩ := h
    cases d <;>
      refine ⟨?_, ?_, ?_, ?_, ?_, ?_, ?_, ?_⟩ <;>
      simp [St.balIn, St.balOut, St.setBal, St.addBurnIn, St.burnIn, St.burnOut, St.collIn,
        St.collOut, St.extIn, St.extOut] at * <;> omega
  · split at h
    · simp only [Option.bind_eq_bind, Option.bind_eq_some_iff, St.debitOut, sub?_eq_some,
        Option.pure_def, Option.some.injEq] at h
      obtain ⟨⟨s1, out⟩, hl, s2, ⟨b, ⟨hb, rfl⟩, rfl⟩, rfl⟩ := h
      obtain ⟨_, _, _, rfl⟩ := localSwap_spec hl
      cases d <;>
        refine ⟨?_, ?_, ?_, ?_, ?_, ?_, ?_, ?_⟩ <;>
        simp [St.balIn, St.balOut, St.setBal, St.setR, St.addBurnOut, St.addBurnIn, Dir.flip,
          St.burnIn, St.burnOut, St.collIn, St.collOut, St.extIn, St.extOut] at * <;> omega
    · split at h
      · simp only [Option.bind_eq_bind, Option.bind_eq_some_iff, St.debitIn, sub?_eq_some,
          Option.pure_def, Option.some.injEq] at h
        obtain ⟨x', _, s1, ⟨b, ⟨hb, rfl⟩, rfl⟩, rfl⟩ := h
        cases d <;>
          refine ⟨?_, ?_, ?_, ?_, ?_, ?_, ?_, ?_⟩ <;>
          simp [St.balIn, St.balOut, St.setBal, St.setXIn, St.addExtIn, St.burnIn, St.burnOut,
            St.collIn, St.collOut, St.extIn, St.extOut] at * <;> omega
      · split at h
        · simp only [Option.bind_eq_bind, Option.bind_eq_some_iff, St.debitOut, sub?_eq_some,
            Option.pure_def, Option.some.injEq] at h
          obtain ⟨⟨s1, out⟩, hl, x', _, s2, ⟨b, ⟨hb, rfl⟩, rfl⟩, rfl⟩ := h
          obtain ⟨_, _, _, rfl⟩ := localSwap_spec hl
          cases d <;>
            refine ⟨?_, ?_, ?_, ?_, ?_, ?_, ?_, ?_⟩ <;>
            simp [St.balIn, St.balOut, St.setBal, St.setR, St.setXOut, St.setXIn, St.addExtOut,
              St.addExtIn, Dir.flip, St.burnIn, St.burnOut, St.collIn, St.collOut, St.extIn,
              St.extOut] at * <;> omega
        · simp at h

theorem feeSlices_flow {d : Dir} {slice : Nat} (ws : List Want) {s s' : St}
    (h : s.feeSlices d slice ws = some s') : Flow d s s' := by
  induction ws generalizing s with
  | nil =>
    simp only [St.feeSlices, Option.some.injEq] at h
    subst h
    exact Flow.refl d s
  | cons w ws ih =>
    simp only [St.feeSlices, Option.bind_eq_bind, Option.bind_eq_some_iff] at h
    obtain ⟨s1, h1, h2⟩ := h
    exact (feeSlice_flow h1).trans (ih h2)

theorem collectorCut_flow {s s' : St} {d : Dir} {fee rem : Nat}
    (h : s.collectorCut d fee = some (s', rem)) : Flow d s s' := by
  unfold St.collectorCut at h
  split at h
  · generalize fee * _ / M = cutAmt at h
    simp only [Option.bind_eq_bind, Option.bind_eq_some_iff, sub?_eq_some] at h
    obtain ⟨r, ⟨hle, rfl⟩, h⟩ := h
    split at h
    · simp only [St.debitIn, Option.bind_eq_bind, Option.bind_eq_some_iff, sub?_eq_some,
        Option.pure_def, Option.some.injEq, Prod.mk.injEq] at h
      obtain ⟨s1, ⟨b, ⟨hb, rfl⟩, rfl⟩, rfl, rfl⟩ := h
      cases d <;>
        refine ⟨?_, ?_, ?_, ?_, ?_, ?_, ?_, ?_⟩ <;>
        simp [St.balIn, St.balOut, St.setBal, St.addCollIn, St.burnIn, St.burnOut, St.collIn,
          St.collOut, St.extIn, St.extOut] at * <;> omega
    · simp only [Option.pure_def, Option.some.injEq, Prod.mk.injEq] at h
      obtain ⟨rfl, rfl⟩ := h
      exact Flow.refl d s
  · simp only [Option.pure_def, Option.some.injEq, Prod.mk.injEq] at h
    obtain ⟨rfl, rfl⟩ := h
    exact Flow.refl d s

/-- `send_fee`: whatever leaves the pair's balance is counted in exactly one sink -/
theorem sendFee_flow {s s' : St} {d : Dir} {fee : Nat} (h : s.sendFee d fee = some s') :
    Flow d s s' := by
  unfold St.sendFee at h
  split at h
  · simp only [Option.some.injEq] at h
    subst h
    exact Flow.refl d s
  · simp only [Option.bind_eq_bind, Option.bind_eq_some_iff] at h
    obtain ⟨⟨s1, rem⟩, hc, h⟩ := h
    have h1 := collectorCut_flow hc
    simp only at h
    split at h
    · simp only [Option.pure_def, Option.some.injEq] at h
      subst h
      exact h1
    · split at h
      · simp only [Option.pure_def, Option.some.injEq] at h
        subst h
        exact h1
      · exact h1.trans (feeSlices_flow _ h)

/-! ### projections needed to push `Flow` through the swap skeleton -/

theorem swapMid_burnIn (s : St) (d : Dir) (c f o : Nat) : (swapMid s d c f o).burnIn d = s.burnIn d := by
  cases d <;> rfl
theorem swapMid_burnOut (s : St) (d : Dir) (c f o : Nat) : (swapMid s d c f o).burnOut d = s.burnOut d := by
  cases d <;> rfl
theorem swapMid_collIn (s : St) (d : Dir) (c f o : Nat) : (swapMid s d c f o).collIn d = s.collIn d := by
  cases d <;> rfl
theorem swapMid_collOut (s : St) (d : Dir) (c f o : Nat) : (swapMid s d c f o).collOut d = s.collOut d := by
  cases d <;> rfl
theorem swapMid_extIn (s : St) (d : Dir) (c f o : Nat) : (swapMid s d c f o).extIn d = s.extIn d := by
  cases d <;> rfl
theorem swapMid_extOut (s : St) (d : Dir) (c f o : Nat) : (swapMid s d c f o).extOut d = s.extOut d := by
  cases d <;> rfl

/-- the last two moves of a swap (credit simple-lock, pay the output) leave the sink counters alone -/
theorem swapEnd_counters (s3 : St) (d : Dir) (n bi bo : Nat) :
    let s' := (s3.addSlkOut d n).setBal d bi bo
    s'.burnIn d = s3.burnIn d ∧ s'.burnOut d = s3.burnOut d ∧ s'.collIn d = s3.collIn d ∧
    s'.collOut d = s3.collOut d ∧ s'.extIn d = s3.extIn d ∧ s'.extOut d = s3.extOut d := by
  cases d <;> exact ⟨rfl, rfl, rfl, rfl, rfl, rfl⟩

/-- fixed input: the fee-routing step kept as an equation, the cover of the final payout, and
    the final state -/
theorem swapIn_parts {s s' : St} {d : Dir} {a minOut : Nat} {o : Out}
    (h : swapIn s d a minOut = some (s', o)) :
    ∃ s3, (swapMid s d a (swapFee s a) o.v1).sendFee d (swapFee s a) = some s3 ∧
      o.v1 ≤ s3.balOut d ∧
      s' = (s3.addSlkOut d o.lockedAmt).setBal d (s3.balIn d) (s3.balOut d - o.v1) := by
  simp only [swapIn, Option.bind_eq_bind, Option.bind_eq_some_iff, req_eq_some, sub?_eq_some,
    St.debitOut, Option.pure_def, Option.some.injEq, Prod.mk.injEq] at h
  obtain ⟨_, h1, _, h2, _, h3, _, h4, _, h5, _, h6, _, h7, aAfter, ⟨h8, rfl⟩, _, h9, s3, h10,
    ⟨s4, lk⟩, hlk, s5, ⟨b, ⟨h11, rfl⟩, rfl⟩, rfl, rfl⟩ := h
  obtain ⟨_, _, rfl⟩ := lockOut_spec hlk
  rw [addSlkOut_balOut] at h11
  refine ⟨s3, h10, h11, ?_⟩
  rw [addSlkOut_balIn, addSlkOut_balOut]
  rfl

/-- fixed output: same decomposition -/
theorem swapOut_parts {s s' : St} {d : Dir} {maxIn out : Nat} {o : Out}
    (h : swapOut s d maxIn out = some (s', o)) :
    ∃ s3, (swapMid s d o.v2 (swapFee s o.v2) out).sendFee d (swapFee s o.v2) = some s3 ∧
      out ≤ s3.balOut d ∧
      s' = (s3.addSlkOut d o.lockedAmt).setBal d (s3.balIn d) (s3.balOut d - out) := by
  simp only [swapOut, Option.bind_eq_bind, Option.bind_eq_some_iff, req_eq_some, sub?_eq_some,
    St.debitOut, Option.pure_def, Option.some.injEq, Prod.mk.injEq] at h
  obtain ⟨_, h1, _, h2, _, h3, _, h4, _, h5, _, h6, _, h7, aAfter, ⟨h8, rfl⟩, _, h9, s3, h10,
    ⟨s4, lk⟩, hlk, s5, ⟨b, ⟨h11, rfl⟩, rfl⟩, rfl, rfl⟩ := h
  obtain ⟨_, _, rfl⟩ := lockOut_spec hlk
  rw [addSlkOut_balOut] at h11
  refine ⟨s3, h10, h11, ?_⟩
  rw [addSlkOut_balIn, addSlkOut_balOut]
  rfl

/-- The complete account of one swap (either endpoint), `charged` = what the pair keeps of the
    caller's payment, `fee` = the special fee, `out` = what the caller is owed:
    * input token: `charged` is exactly what the pair's balance gains plus what reached the
      burn address, the collector and the trusted pair;
    * output token: the balance loses exactly `out` plus what a local fee swap bought and
      burned / forwarded; the collector never receives the output token;
    * the reserve gains the net input and whatever local fee swaps added; exactly what leaves
      the output reserve leaves the output balance;
    * `fee` splits exactly into collector + burned + forwarded (input token) + re-entered the
      reserve through local swaps + dust that stays in the pair as unreserved balance. -/
structure SwapAcct (d : Dir) (s s' : St) (charged fee out : Nat) : Prop where
  inExact : s.balIn d + charged =
    s'.balIn d + (s'.burnIn d - s.burnIn d) + (s'.collIn d - s.collIn d) + (s'.extIn d - s.extIn d)
  outExact : s.balOut d =
    s'.balOut d + out + (s'.burnOut d - s.burnOut d) + (s'.extOut d - s.extOut d)
  collOutEq : s'.collOut d = s.collOut d
  burnInMono : s.burnIn d ≤ s'.burnIn d
  collInMono : s.collIn d ≤ s'.collIn d
  extInMono : s.extIn d ≤ s'.extIn d
  burnOutMono : s.burnOut d ≤ s'.burnOut d
  extOutMono : s.extOut d ≤ s'.extOut d
  rinGain : s.rin d + (charged - fee) ≤ s'.rin d
  slackMono : s.balIn d - s.rin d ≤ s'.balIn d - s'.rin d
  backedIn : s'.rin d ≤ s'.balIn d
  feeSplit : fee =
    (s'.collIn d - s.collIn d) + (s'.burnIn d - s.burnIn d) + (s'.extIn d - s.extIn d) +
    (s'.rin d - (s.rin d + (charged - fee))) + ((s'.balIn d - s'.rin d) - (s.balIn d - s.rin d))
  outReserve : s.rout d - s'.rout d = s.balOut d - s'.balOut d
  outLe : s'.rout d + out ≤ s.rout d

theorem swap_acct {s s3 : St} {d : Dir} {charged fee out spent n : Nat}
    (hb : s.rin d ≤ s.balIn d) (hfee : fee ≤ charged) (hout : out < s.rout d) (hsp : spent ≤ fee)
    (hrel : FeeRel d (swapMid s d charged fee out) s3 spent)
    (hflow : Flow d (swapMid s d charged fee out) s3)
    (hbal : out ≤ s3.balOut d) :
    SwapAcct d s ((s3.addSlkOut d n).setBal d (s3.balIn d) (s3.balOut d - out)) charged fee out := by
  obtain ⟨i1, o1, m1, a1, _, b1, b2, _, _⟩ := hrel
  obtain ⟨f1, f2, f3, f4, f5, f6, f7, f8⟩ := hflow
  obtain ⟨e1, e2, e3, e4, e5, e6⟩ := swapEnd_counters s3 d n (s3.balIn d) (s3.balOut d - out)
  rw [swapMid_rin, swapMid_balIn] at i1
  rw [swapMid_rout, swapMid_balOut] at o1
  rw [swapMid_rin] at m1
  rw [swapMid_rout] at a1
  rw [swapMid_balIn] at b1
  rw [swapMid_balOut] at b2
  rw [swapMid_balIn, swapMid_burnIn, swapMid_collIn, swapMid_extIn] at f1
  rw [swapMid_balOut, swapMid_burnOut, swapMid_extOut] at f2
  rw [swapMid_collOut] at f3
  rw [swapMid_burnIn] at f4
  rw [swapMid_collIn] at f5
  rw [swapMid_extIn] at f6
  rw [swapMid_burnOut] at f7
  rw [swapMid_extOut] at f8
  refine ⟨?_, ?_, ?_, ?_, ?_, ?_, ?_, ?_, ?_, ?_, ?_, ?_, ?_, ?_⟩ <;>
    (try simp only [setBal_rin, setBal_rout, setBal_balIn, setBal_balOut, addSlkOut_rin,
      addSlkOut_rout, e1, e2, e3, e4, e5, e6]) <;> omega

/-- fixed input: the complete account with `charged = a` -/
theorem swapIn_acct {s s' : St} {d : Dir} {a minOut : Nat} {o : Out} (hb : s.rin d ≤ s.balIn d)
    (h : swapIn s d a minOut = some (s', o)) : SwapAcct d s s' a (swapFee s a) o.v1 := by
  obtain ⟨_, _, _, _, _, _, _, _, h7, _, h9, _, _, _, _, _⟩ := swapIn_spec h
  obtain ⟨s3, hsf, hbal, rfl⟩ := swapIn_parts h
  obtain ⟨spent, hs, hrel⟩ := sendFee_spec hsf
  exact swap_acct hb h9 h7 hs hrel (sendFee_flow hsf) hbal

/-- fixed output: the complete account with `charged = o.v2` (the amount `get_amount_in` asks) -/
theorem swapOut_acct {s s' : St} {d : Dir} {maxIn out : Nat} {o : Out} (hb : s.rin d ≤ s.balIn d)
    (h : swapOut s d maxIn out = some (s', o)) : SwapAcct d s s' o.v2 (swapFee s o.v2) out := by
  obtain ⟨_, _, _, _, _, h4, _, _, _, _, h9, _, _, _, _, _⟩ := swapOut_spec h
  obtain ⟨s3, hsf, hbal, rfl⟩ := swapOut_parts h
  obtain ⟨spent, hs, hrel⟩ := sendFee_spec hsf
  exact swap_acct hb h9 h4 hs hrel (sendFee_flow hsf) hbal

end Mx.Pair
