/-
  "Lots": the arithmetic of ONE recorded energy inside the global weekly bookkeeping
  (DESIGN.md, C10).  A lot is what a user contributed when its progress was recorded:
  `a` = recorded energy amount (> 0 for stored progress), `T` = locked tokens, `j` = whole weeks
  elapsed since then.  Pure `Nat` arithmetic, no contract state.

    contribution to the total energy  `a − 7·T·j`          (truncated)
    live (still inside a bucket)      `0 < T ∧ 0 < a ∧ 7·T·j ≤ a`
    bucket offset from `firstBucketId` `a / T / 7 − j`
    surplus                            `a mod 7·T`

  One weekly shift is `j ↦ j + 1`; the lemmas below say what that does to each quantity —
  exactly what `shift_buckets_and_update_tokens_energy` subtracts.
-/
import MxModel.Core.Weekly
import Mathlib.Tactic.Ring
import Mathlib.Tactic.Linarith

namespace Mx.Weekly

structure Lot where
  a : Nat
  T : Nat
  j : Nat
  deriving DecidableEq, Repr

namespace Lot

def contrib (l : Lot) : Nat := l.a - 7 * l.T * l.j
def Live (l : Lot) : Prop := 0 < l.T ∧ 0 < l.a ∧ 7 * l.T * l.j ≤ l.a
instance (l : Lot) : Decidable l.Live := by unfold Live; infer_instance
def tok (l : Lot) : Nat := if l.Live then l.T else 0
def off (l : Lot) : Nat := l.a / l.T / 7 - l.j
def sur (l : Lot) : Nat := l.a % (l.T * 7)
/-- tokens / surplus the lot keeps in the bucket `firstBucketId + d` -/
def bTok (l : Lot) (d : Nat) : Nat := if l.Live ∧ l.off = d then l.T else 0
def bSur (l : Lot) (d : Nat) : Nat := if l.Live ∧ l.off = d then l.sur else 0
/-- one more week has passed -/
def next (l : Lot) : Lot := { l with j := l.j + 1 }

@[simp] theorem next_a (l : Lot) : l.next.a = l.a := rfl
@[simp] theorem next_T (l : Lot) : l.next.T = l.T := rfl
@[simp] theorem next_j (l : Lot) : l.next.j = l.j + 1 := rfl

/-- `a = 7·T·⌊a/T/7⌋ + a mod 7T` -/
theorem decomp (l : Lot) : l.a = 7 * l.T * (l.a / l.T / 7) + l.sur := by
  unfold sur
  rw [Nat.div_div_eq_div_mul]
  have := Nat.div_add_mod l.a (l.T * 7)
  rw [show 7 * l.T = l.T * 7 by ring]
  omega

theorem sur_lt (l : Lot) (h : 0 < l.T) : l.sur < 7 * l.T := by
  unfold sur
  have : 0 < l.T * 7 := by omega
  have := Nat.mod_lt l.a this
  omega

/-- a lot is live exactly while the weeks elapsed do not exceed its bucket index -/
theorem live_iff (l : Lot) (hT : 0 < l.T) (ha : 0 < l.a) : l.Live ↔ l.j ≤ l.a / l.T / 7 := by
  unfold Live
  have hd := l.decomp
  have hs := l.sur_lt hT
  generalize l.a / l.T / 7 = k at *
  constructor
  · rintro ⟨_, _, h⟩
    by_contra hc
    have : k + 1 ≤ l.j := by omega
    have : 7 * l.T * (k + 1) ≤ 7 * l.T * l.j := Nat.mul_le_mul_left _ this
    have e : 7 * l.T * (k + 1) = 7 * l.T * k + 7 * l.T := by ring
    omega
  · intro h
    refine ⟨hT, ha, ?_⟩
    have : 7 * l.T * l.j ≤ 7 * l.T * k := Nat.mul_le_mul_left _ h
    omega

/-- the bucket index of the depleted energy, as the code computes it, is the lot's offset -/
theorem contrib_div (l : Lot) (h : l.Live) : l.contrib / l.T / 7 = l.off := by
  obtain ⟨hT, ha, hj⟩ := h
  unfold contrib off
  rw [Nat.div_div_eq_div_mul, Nat.div_div_eq_div_mul]
  have e : 7 * l.T * l.j = l.j * (l.T * 7) := by ring
  rw [e]
  have hj' : (l.T * 7) * l.j ≤ l.a := by rw [Nat.mul_comm, ← e]; exact hj
  rw [show l.j * (l.T * 7) = (l.T * 7) * l.j by ring]
  exact Nat.sub_mul_div_of_le _ _ _ hj'

theorem contrib_pos_live (l : Lot) (hT : 0 < l.T) (h : 0 < l.contrib) : l.Live := by
  unfold contrib at h
  exact ⟨hT, by omega, by omega⟩

/-! ### one weekly shift -/

/-- tokens: a live lot stays live unless it sits in the first bucket -/
theorem tok_shift (l : Lot) : l.tok = l.next.tok + l.bTok 0 := by
  unfold tok bTok
  by_cases hT : 0 < l.T
  swap
  · have hn : ¬ l.Live := fun h => hT h.1
    have hn' : ¬ l.next.Live := fun h => hT h.1
    simp [hn, hn']
  by_cases ha : 0 < l.a
  swap
  · have hn : ¬ l.Live := fun h => ha h.2.1
    have hn' : ¬ l.next.Live := fun h => ha h.2.1
    simp [hn, hn']
  simp only [live_iff l hT ha, live_iff l.next hT ha, next_a, next_T, next_j, off]
  generalize l.a / l.T / 7 = k
  by_cases h1 : l.j + 1 ≤ k
  · have : l.j ≤ k := by omega
    have : ¬ (k - l.j = 0) := by omega
    simp [*]
  · by_cases h2 : l.j ≤ k
    · have : k - l.j = 0 := by omega
      simp [*]
    · simp [*]

/-- energy: a lot loses `7·T` per week while it stays live, its surplus when it leaves the
    first bucket, nothing afterwards (and nothing ever without tokens) -/
theorem contrib_shift (l : Lot) (ha : l.T = 0 ∨ 0 < l.a) :
    l.contrib = l.next.contrib + 7 * l.next.tok + l.bSur 0 := by
  unfold contrib tok bSur
  by_cases hT : 0 < l.T
  swap
  · have hT0 : l.T = 0 := by omega
    have hn : ¬ l.Live := fun h => hT h.1
    have hn' : ¬ l.next.Live := fun h => hT h.1
    simp [hn, hn', hT0]
  have ha : 0 < l.a := by omega
  simp only [live_iff l hT ha, live_iff l.next hT ha, next_a, next_T, next_j, off]
  have hd := l.decomp
  have hs := l.sur_lt hT
  generalize l.a / l.T / 7 = k at *
  have e1 : 7 * l.T * (l.j + 1) = 7 * l.T * l.j + 7 * l.T := by ring
  by_cases h1 : l.j + 1 ≤ k
  · have h2 : l.j ≤ k := by omega
    have h3 : ¬ (k - l.j = 0) := by omega
    have : 7 * l.T * (l.j + 1) ≤ 7 * l.T * k := Nat.mul_le_mul_left _ h1
    simp only [h1, h2, h3, if_true, and_false, if_false]
    omega
  · by_cases h2 : l.j ≤ k
    · have h3 : k - l.j = 0 := by omega
      have hk : k = l.j := by omega
      subst hk
      simp only [h1, h2, h3, if_false, and_self, if_true]
      omega
    · have : k + 1 ≤ l.j := by omega
      have : 7 * l.T * (k + 1) ≤ 7 * l.T * l.j := Nat.mul_le_mul_left _ this
      have e2 : 7 * l.T * (k + 1) = 7 * l.T * k + 7 * l.T := by ring
      simp only [h1, h2, false_and, if_false]
      omega

/-- buckets: after the shift the lot is found one offset lower -/
theorem bucket_shift (l : Lot) (d : Nat) :
    l.next.bTok d = l.bTok (d + 1) ∧ l.next.bSur d = l.bSur (d + 1) := by
  unfold bTok bSur
  by_cases hT : 0 < l.T
  swap
  · have hn : ¬ l.Live := fun h => hT h.1
    have hn' : ¬ l.next.Live := fun h => hT h.1
    simp [hn, hn']
  by_cases ha : 0 < l.a
  swap
  · have hn : ¬ l.Live := fun h => ha h.2.1
    have hn' : ¬ l.next.Live := fun h => ha h.2.1
    simp [hn, hn']
  simp only [live_iff l hT ha, live_iff l.next hT ha, next_a, next_T, next_j, off, sur]
  generalize l.a / l.T / 7 = k
  have : (l.j + 1 ≤ k ∧ k - (l.j + 1) = d) ↔ (l.j ≤ k ∧ k - l.j = d + 1) := by omega
  simp only [this]
  exact ⟨trivial, trivial⟩

/-- the first bucket holds no more than the live tokens -/
theorem bTok_le_tok (l : Lot) (d : Nat) : l.bTok d ≤ l.tok := by
  unfold bTok tok
  by_cases h : l.Live <;> simp [h]
  split <;> omega

end Lot

end Mx.Weekly
