/-
  Output locking of the pair (locking_wrapper.rs, `build_swap_output_payments`): what every
  operation does to simple-lock's holdings of the two pool tokens (`slk1`, `slk2`).
  Only swaps move them, and only by the LOCKED amount they deliver to their caller.
-/
import MxModel.Lemmas.PairK

namespace Mx.Pair

/-- direction of a swap operation (`.ab` for anything else) -/
def swapDir : Op → Dir
  | .swapIn d _ _ => d
  | .swapOut d _ _ => d
  | _ => .ab

/-- LOCKED tokens (wrapping the first, the second pool token) a successful operation delivers
    to its caller -/
def lockedFlow (op : Op) (o : Out) : Nat × Nat :=
  match op with
  | .swapIn .ab _ _ => (0, o.lockedAmt)
  | .swapIn .ba _ _ => (o.lockedAmt, 0)
  | .swapOut .ab _ _ => (0, o.lockedAmt)
  | .swapOut .ba _ _ => (o.lockedAmt, 0)
  | _ => (0, 0)

theorem buyback_slk {s s' : St} {c lp : Nat} {w : Want} {o : Out}
    (h : buyback s c lp w = some (s', o)) : SameSlk s s' := by
  simp only [buyback, Option.bind_eq_bind, Option.bind_eq_some_iff, req_eq_some, sub?_eq_some,
    Option.pure_def, Option.some.injEq, Prod.mk.injEq] at h
  obtain ⟨_, h1, _, h2, ⟨x1, x2⟩, hx, cc, ⟨h3, rfl⟩, s2, hf1, s3, hf2, rfl, rfl⟩ := h
  have e1 := feeSlice_slk hf1
  have e2 := feeSlice_slk hf2
  exact ⟨e2.1.trans e1.1, e2.2.trans e1.2⟩

/-- every operation: simple-lock's holdings grow by exactly the LOCKED amounts delivered -/
theorem step_slk {s s' : St} {op : Op} {o : Out} (h : step s op = some (s', o)) :
    s'.slk1 = s.slk1 + (lockedFlow op o).1 ∧ s'.slk2 = s.slk2 + (lockedFlow op o).2 := by
  cases op <;> simp only [step] at h
  case addInitial =>
    obtain ⟨_, _, _, _, _, _, _, rfl⟩ := addInitial_spec h
    exact ⟨rfl, rfl⟩
  case addLiq =>
    by_cases hS : s.S = 0
    · obtain ⟨_, _, _, _, _, _, rfl⟩ := addLiq_first_spec hS h
      exact ⟨rfl, rfl⟩
    · obtain ⟨o1, o2, _, _, _, _, _, _, _, _, _, _, _, rfl⟩ := addLiq_spec hS h
      exact ⟨rfl, rfl⟩
  case removeLiq =>
    obtain ⟨_, _, _, _, _, _, _, _, _, _, _, _, _, _, _, rfl⟩ := removeLiq_spec h
    exact ⟨rfl, rfl⟩
  case swapIn d a m =>
    obtain ⟨_, h2, h3⟩ := swapIn_lock_spec h
    cases d <;> simp only [St.slkOut, St.slkIn] at h2 h3 <;> simp only [lockedFlow] <;> omega
  case swapOut d mx out =>
    obtain ⟨_, h2, h3⟩ := swapOut_lock_spec h
    cases d <;> simp only [St.slkOut, St.slkIn] at h2 h3 <;> simp only [lockedFlow] <;> omega
  case swapNoFee c d a =>
    obtain ⟨_, _, _, _, _, _, _, _, rfl⟩ := swapNoFee_spec h
    cases d <;> exact ⟨rfl, rfl⟩
  case buyback =>
    have e := buyback_slk h
    exact ⟨e.1, e.2⟩
  case cfg op =>
    simp only [Option.map_eq_some_iff, Prod.mk.injEq] at h
    obtain ⟨s1, h1, rfl, _⟩ := h
    cases op <;>
      simp only [cfg, Option.bind_eq_bind, Option.bind_eq_some_iff, req_eq_some,
        Option.pure_def, Option.some.injEq] at h1
    case setFee => obtain ⟨_, _, rfl⟩ := h1; exact ⟨rfl, rfl⟩
    case addDest => subst h1; exact ⟨rfl, rfl⟩
    case removeDest => obtain ⟨_, _, rfl⟩ := h1; exact ⟨rfl, rfl⟩
    case setCollector => obtain ⟨_, _, rfl⟩ := h1; exact ⟨rfl, rfl⟩
    case setState => subst h1; exact ⟨rfl, rfl⟩
    case whitelist => obtain ⟨_, _, rfl⟩ := h1; exact ⟨rfl, rfl⟩
    case removeWhitelist => obtain ⟨_, _, rfl⟩ := h1; exact ⟨rfl, rfl⟩
    case setTrusted f x =>
      cases f <;> simp only [Option.some.injEq] at h1 <;> subst h1 <;> exact ⟨rfl, rfl⟩
  case advance =>
    split at h
    · simp only [Option.some.injEq, Prod.mk.injEq] at h
      obtain ⟨rfl, _⟩ := h
      exact ⟨rfl, rfl⟩
    · simp at h
  case lock =>
    simp only [Option.map_eq_some_iff, Prod.mk.injEq] at h
    obtain ⟨s1, h1, rfl, _⟩ := h
    obtain ⟨_, dl, ul, sc, rfl⟩ := lockCfg_spec h1
    exact ⟨rfl, rfl⟩
  case epoch =>
    split at h
    · simp only [Option.some.injEq, Prod.mk.injEq] at h
      obtain ⟨rfl, _⟩ := h
      exact ⟨rfl, rfl⟩
    · simp at h

/-- run a history, accumulating the LOCKED tokens (first, second) delivered to callers;
    failed transactions deliver nothing -/
def runLocked : St → List Op → St × Nat × Nat
  | s, [] => (s, 0, 0)
  | s, op :: ops =>
    match step s op with
    | some (s1, o) =>
      ((runLocked s1 ops).1, (lockedFlow op o).1 + (runLocked s1 ops).2.1,
        (lockedFlow op o).2 + (runLocked s1 ops).2.2)
    | none => runLocked s ops

theorem runLocked_fst (s : St) (ops : List Op) : (runLocked s ops).1 = run s ops := by
  induction ops generalizing s with
  | nil => rfl
  | cons op ops ih =>
    simp only [runLocked, run, List.foldl_cons]
    cases h : step s op with
    | none => simpa [run] using ih s
    | some r => obtain ⟨s1, o⟩ := r; simpa [run] using ih s1

theorem run_slk (ops : List Op) (s : St) :
    (run s ops).slk1 = s.slk1 + (runLocked s ops).2.1 ∧
    (run s ops).slk2 = s.slk2 + (runLocked s ops).2.2 := by
  induction ops generalizing s with
  | nil => simp [run, runLocked]
  | cons op ops ih =>
    simp only [runLocked, run, List.foldl_cons]
    cases h : step s op with
    | none => simpa [run] using ih s
    | some r =>
      obtain ⟨s1, o⟩ := r
      have h1 := step_slk h
      have h2 := ih s1
      simp only [run] at h2
      simp only []
      omega

end Mx.Pair
