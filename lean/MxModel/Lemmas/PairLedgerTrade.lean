/-
  Trading histories on the per-account ledger: what ALL wallets together gain over a history of
  non-liquidity calls and plain transfers is bounded by what the reserves lose (C02 measured in
  wallet balances, i.e. in the `acct=` column the correspondence run compares with real ESDT
  balances).
-/
import MxModel.Lemmas.PairLedgerInv
import MxModel.Lemmas.PairTrade

namespace Mx.PairLedger
open Mx.Pair

/-- first pool token in the accounts' hands, plain or LOCKED -/
def walletA (l : L) : Nat := sumOf (·.a) l.accts + sumOf (·.lkA) l.accts
/-- second pool token in the accounts' hands, plain or LOCKED -/
def walletB (l : L) : Nat := sumOf (·.b) l.accts + sumOf (·.lkB) l.accts

/-- ledger operations of a trading history: calls that are not liquidity operations, and plain
    transfers between accounts (the faucet creates tokens and is excluded) -/
def isTradeL : LOp → Bool
  | .call _ op => !isLiq op
  | .xfer .. => true
  | .fund .. => false

/-- what the caller's wallet nets by `move` is the operation's `tflow` -/
theorem move_tflow {s s' : St} {op : Op} {o : Out} (hl : isLiq op = false)
    (h : step s op = some (s', o)) :
    (((move op o).getA + (move op o).getLkA : Nat) : Int) - (move op o).payA = (tflow op o).1 ∧
    (((move op o).getB + (move op o).getLkB : Nat) : Int) - (move op o).payB = (tflow op o).2 ∧
    (move op o).payLp = 0 ∧ (move op o).getLp = 0 := by
  have hpl := plain_add_locked o
  cases op <;> simp only [isLiq, Bool.true_eq_false] at hl
  case swapIn d a m =>
    cases d <;> simp only [move, tflow, flowOf] <;> refine ⟨?_, ?_, trivial, trivial⟩ <;> omega
  case swapOut d mx out =>
    simp only [step] at h
    obtain ⟨_, _, _, _, _, _, _, ho, hle, _⟩ := swapOut_spec h
    have e3 : o.v3 = mx - o.v2 := by rw [ho]
    cases d <;> simp only [move, tflow, flowOf] <;> refine ⟨?_, ?_, trivial, trivial⟩ <;> omega
  case swapNoFee c d a =>
    cases d <;> simp only [move, tflow] <;> refine ⟨?_, ?_, trivial, trivial⟩ <;> omega
  case cfg c => simp [move, tflow, flowOf]
  case advance r => simp [move, tflow, flowOf]
  case lock ow lo => simp [move, tflow, flowOf]
  case epoch e => simp [move, tflow, flowOf]

/-- one trading operation of the ledger: the LP supply is unchanged, and all wallets together
    gain of each pool token (plain + LOCKED) at most what that reserve loses -/
theorem stepL_trade {l l' : L} {op : LOp} {o : Out} (ht : isTradeL op = true)
    (h : stepL l op = some (l', o)) :
    l'.p.S = l.p.S ∧
    (walletA l' : Int) - walletA l ≤ (l.p.r1 : Int) - l'.p.r1 ∧
    (walletB l' : Int) - walletB l ≤ (l.p.r2 : Int) - l'.p.r2 := by
  cases op with
  | fund i f x => simp [isTradeL] at ht
  | xfer i j t x =>
    obtain ⟨accts', ha, rfl⟩ := stepL_xfer_spec h
    obtain ⟨e1, e2, _, e4, e5, _⟩ := xferAccts_sums ha
    refine ⟨rfl, ?_, ?_⟩ <;> simp only [walletA, walletB, e1, e2, e4, e5] <;> omega
  | call i op =>
    have hl : isLiq op = false := by simpa [isTradeL] using ht
    obtain ⟨p', acc, acc', hs, ha, hp, e1, e2, _⟩ := stepL_call_spec h
    obtain ⟨eS, f1, f2⟩ := trade_step hl hs
    obtain ⟨m1, m2, _, _⟩ := move_tflow hl hs
    obtain ⟨q1, q2, _, hacc⟩ := pay_spec hp
    have s1 := sumOf_set (·.a) l.accts i acc acc' ha
    have s2 := sumOf_set (·.b) l.accts i acc acc' ha
    have s4 := sumOf_set (·.lkA) l.accts i acc acc' ha
    have s5 := sumOf_set (·.lkB) l.accts i acc acc' ha
    subst hacc
    simp only at s1 s2 s4 s5
    rw [← e2] at s1 s2 s4 s5
    rw [e1]
    refine ⟨eS, ?_, ?_⟩ <;> simp only [walletA, walletB] <;> omega

/-- over a trading history of the ledger -/
theorem runL_trade (ops : List LOp) (hall : ∀ op ∈ ops, isTradeL op = true) (l : L) :
    (runL l ops).p.S = l.p.S ∧
    (walletA (runL l ops) : Int) - walletA l ≤ (l.p.r1 : Int) - (runL l ops).p.r1 ∧
    (walletB (runL l ops) : Int) - walletB l ≤ (l.p.r2 : Int) - (runL l ops).p.r2 := by
  induction ops generalizing l with
  | nil => simp [runL]
  | cons op ops ih =>
    have hop := hall op (List.mem_cons_self ..)
    have hrest : ∀ op' ∈ ops, isTradeL op' = true := fun o' ho' => hall o' (List.mem_cons_of_mem _ ho')
    rw [runL_cons]
    cases h : stepL l op with
    | none => exact ih hrest l
    | some r =>
      obtain ⟨l1, o⟩ := r
      obtain ⟨e, h1, h2⟩ := stepL_trade hop h
      obtain ⟨e', g1, g2⟩ := ih hrest l1
      simp only []
      refine ⟨by rw [e', e], ?_, ?_⟩ <;> omega

/-- the pair operations of a trading history of the ledger are non-liquidity operations -/
theorem pairOps_trade (ops : List LOp) (hall : ∀ op ∈ ops, isTradeL op = true) (l : L) :
    ∀ op ∈ pairOps l ops, isLiq op = false := by
  induction ops generalizing l with
  | nil => intro op h; simp [pairOps] at h
  | cons op ops ih =>
    have hop := hall op (List.mem_cons_self ..)
    have hrest : ∀ op' ∈ ops, isTradeL op' = true := fun o' ho' => hall o' (List.mem_cons_of_mem _ ho')
    simp only [pairOps]
    cases h : stepL l op with
    | none => exact ih hrest l
    | some r =>
      obtain ⟨l1, o⟩ := r
      cases op with
      | fund i f x => simp [isTradeL] at hop
      | xfer i j t x => exact ih hrest l1
      | call i pop =>
        intro q hq
        simp only [List.mem_cons] at hq
        rcases hq with rfl | hq
        · simpa [isTradeL] using hop
        · exact ih hrest l1 q hq

end Mx.PairLedger
