/-
  The ghost `virt` of the farm-staking model (stake registered through the proxy endpoints
  without staking tokens moving) pinned down:

    1. `step_virt`: for EVERY operation and all arguments, a successful transaction changes `virt`
       by `virtDelta op`, a function of the operation alone — non-zero only for
       `stakeFarmThroughProxy` (+ amount), `claimRewardsWithNewValue` (+ new − old) and
       `unstakeFarmThroughProxy` (− position amount); the SC whitelist never changes;
    2. sums of position units over a SUB-LIST `L` of the accounts (`wsum … L …`), and how the five
       transaction shapes move them;
    3. the proxy discipline `disc P` ("the accounts in `P` — the metastaking proxies — use only the
       three proxy endpoints, nobody else uses those, and positions do not cross the boundary of
       `P`") and the invariant `VirtOK P s : virt = Σ position units held by the accounts in P`,
       preserved by every disciplined transaction.
  Property theorems: Props/C12Ledger.lean.
-/
import MxModel.Lemmas.StakingTrans

namespace Mx.Staking

open Mx.Weekly

/-! ## 1. how `virt` moves -/

/-- the change of the proxy-virtual stake caused by an operation (when it succeeds) -/
def virtDelta : Op → Int
  | .stakeProxy _ _ a _ => (a : Int)
  | .claimNew _ _ nv p => (nv : Int) - (p.2 : Int)
  | .unstakeProxy _ _ _ p => - (p.2 : Int)
  | _ => 0

/-- what an operation adds to / takes out of the reward capacity (when it succeeds) -/
def capUp : Op → Nat
  | .topUp x => x
  | _ => 0

def capDown : Op → Nat
  | .withdraw x => x
  | _ => 0

theorem stakeCore_virt {s s' : St} {c orig amount : Nat} {v : Bool} {adds : List Pay} {o : Out}
    (h : stakeCore s c orig amount v adds = some (s', o)) :
    s'.virt = (if v then s.virt + (amount : Int) else s.virt) ∧ s'.whitelist = s.whitelist ∧
      s'.capacity = s.capacity := by
  cases v <;>
  · simp only [stakeCore, Option.bind_eq_bind, Option.bind_eq_some_iff, req_eq_some,
      sub?_eq_some, Option.pure_def, Option.some.injEq, Prod.mk.injEq] at h
    obtain ⟨_, _, hold0, _, r, _, res1, _, _, _, ut1, _, ⟨s3, c3⟩, hg, merged, _, w2, _,
      bal1, _, rfl, _⟩ := h
    obtain ⟨_, _, rfl, rfl⟩ := generate_spec hg
    exact ⟨rfl, rfl, rfl⟩

theorem claimCore_virt {s s' : St} {c orig : Nat} {pays : List Pay} {nv : Option Nat} {o : Out}
    (h : claimCore s c orig pays nv = some (s', o)) :
    s'.virt = s.virt + ((nv.getD (payTot pays) : Nat) : Int) - (payTot pays : Int) ∧
      s'.whitelist = s.whitelist ∧ s'.capacity = s.capacity := by
  simp only [claimCore, Option.bind_eq_bind, Option.bind_eq_some_iff] at h
  obtain ⟨m, hm, h⟩ := h
  simp only [claimBase, Option.bind_eq_bind, Option.bind_eq_some_iff, req_eq_some,
    Option.pure_def, Option.some.injEq] at hm
  obtain ⟨hold0, hd, _, _, p, hp, first, hf, ⟨s1, c1⟩, hg, tok, ht, r, hr, ut1, hk, merged, hmg, rfl⟩ := hm
  obtain ⟨_, _, rfl, rfl⟩ := generate_spec hg
  simp only [claimFinish, Option.bind_eq_bind, Option.bind_eq_some_iff, req_eq_some,
    sub?_eq_some, Option.pure_def, Option.some.injEq, Prod.mk.injEq] at h
  obtain ⟨res1, _, sup1, hs1, ut2, hu2, _, _, w2, _, bal1, _, rfl, _⟩ := h
  obtain ⟨m1, _⟩ := mergeParts_amount hmg
  obtain ⟨_, _, t3, _⟩ := intoPart_spec ht
  have hpt : payTot pays = p.2 + payTot pays.tail := by
    conv => lhs; rw [head_tail hp]
    rfl
  have hma : merged.amount = payTot pays := by
    rw [m1, hpt]; show tok.amount + _ = _; rw [t3]
  refine ⟨?_, rfl, rfl⟩
  show s.virt + ((nv.getD merged.amount : Nat) : Int) - (merged.amount : Int) = _
  rw [hma]

theorem unstakeCore_virt {s s' : St} {c orig : Nat} {pay : Pay} {x : Option Nat} {o : Out}
    (h : unstakeCore s c orig pay x = some (s', o)) :
    s'.virt = (match x with | some _ => s.virt - (pay.2 : Int) | none => s.virt) ∧
      s'.whitelist = s.whitelist ∧ s'.capacity = s.capacity := by
  cases x <;>
  · simp only [unstakeCore, Option.bind_eq_bind, Option.bind_eq_some_iff, req_eq_some,
      sub?_eq_some, Option.pure_def, Option.some.injEq, Prod.mk.injEq] at h
    obtain ⟨_, _, hold0, hd, _, _, attrs, ha, ⟨s1, c1⟩, hg, tok, ht, r, _, res1, _,
      sup1, _, w2, _, bal1, _, rfl, _⟩ := h
    obtain ⟨_, _, rfl, rfl⟩ := generate_spec hg
    obtain ⟨_, _, t3, _⟩ := intoPart_spec ht
    refine ⟨?_, rfl, rfl⟩
    first
      | rfl
      | (show s.virt - (tok.amount : Int) = s.virt - (pay.2 : Int); rw [t3])

/-- **`virt` moves only through the three proxy endpoints, by an amount that is a function of the
    operation alone; the SC whitelist is constant** -/
theorem stepCore_virt {s s' : St} {op : Op} {o : Out} (h : stepCore s op = some (s', o)) :
    s'.virt = s.virt + virtDelta op ∧ s'.whitelist = s.whitelist ∧
      s'.capacity + capDown op = s.capacity + capUp op := by
  cases op <;> simp only [stepCore] at h <;> simp only [virtDelta, capUp, capDown]
  case stake c orig a adds =>
    cases orig <;> simp only [stakeFarm, Option.bind_eq_bind, Option.bind_eq_some_iff] at h
    · obtain ⟨h1, h2, h3⟩ := stakeCore_virt h; exact ⟨by simpa using h1, h2, by omega⟩
    · obtain ⟨_, _, h⟩ := h; obtain ⟨h1, h2, h3⟩ := stakeCore_virt h; exact ⟨by simpa using h1, h2, by omega⟩
  case stakeProxy c orig a adds =>
    simp only [stakeProxy, Option.bind_eq_bind, Option.bind_eq_some_iff] at h
    obtain ⟨_, _, h⟩ := h; obtain ⟨h1, h2, h3⟩ := stakeCore_virt h; exact ⟨by simpa using h1, h2, by omega⟩
  case stakeBehalf c u a adds =>
    simp only [stakeOnBehalf, Option.bind_eq_bind, Option.bind_eq_some_iff] at h
    obtain ⟨_, _, _, _, h⟩ := h; obtain ⟨h1, h2, h3⟩ := stakeCore_virt h; exact ⟨by simpa using h1, h2, by omega⟩
  case claim c orig p =>
    cases orig <;> simp only [claimRewards, Option.bind_eq_bind, Option.bind_eq_some_iff] at h
    · obtain ⟨h1, h2, h3⟩ := claimCore_virt h
      simp only [Option.getD_none] at h1
      exact ⟨by omega, h2, by omega⟩
    · obtain ⟨_, _, h⟩ := h
      obtain ⟨h1, h2, h3⟩ := claimCore_virt h
      simp only [Option.getD_none] at h1
      exact ⟨by omega, h2, by omega⟩
  case claimNew c orig nv p =>
    simp only [claimNewValue, Option.bind_eq_bind, Option.bind_eq_some_iff] at h
    obtain ⟨_, _, h⟩ := h
    obtain ⟨h1, h2, h3⟩ := claimCore_virt h
    simp only [Option.getD_some, payTot, Nat.add_zero] at h1
    exact ⟨by omega, h2, by omega⟩
  case claimBehalf c ps =>
    simp only [claimOnBehalf, Option.bind_eq_bind, Option.bind_eq_some_iff] at h
    obtain ⟨_, _, _, _, h⟩ := h
    obtain ⟨h1, h2, h3⟩ := claimCore_virt h
    simp only [Option.getD_none] at h1
    exact ⟨by omega, h2, by omega⟩
  case compound c ps =>
    simp only [compound, Option.bind_eq_bind, Option.bind_eq_some_iff, req_eq_some,
      sub?_eq_some, Option.pure_def, Option.some.injEq, Prod.mk.injEq] at h
    obtain ⟨hold0, _, _, _, p, _, first, _, ⟨s1, c1⟩, hg, tok, _, r, _, res1, _, ut1, _,
      merged, _, rfl, _⟩ := h
    obtain ⟨_, _, rfl, rfl⟩ := generate_spec hg
    exact ⟨by simp, rfl, by simp⟩
  case unstake c orig p =>
    cases orig <;> simp only [unstakeFarm, Option.bind_eq_bind, Option.bind_eq_some_iff] at h
    · obtain ⟨h1, h2, h3⟩ := unstakeCore_virt h; exact ⟨by simpa using h1, h2, by omega⟩
    · obtain ⟨_, _, h⟩ := h; obtain ⟨h1, h2, h3⟩ := unstakeCore_virt h; exact ⟨by simpa using h1, h2, by omega⟩
  case unstakeProxy c orig x p =>
    simp only [unstakeProxy, Option.bind_eq_bind, Option.bind_eq_some_iff] at h
    obtain ⟨_, _, h⟩ := h
    obtain ⟨h1, h2, h3⟩ := unstakeCore_virt h
    exact ⟨by simp only at h1; omega, h2, by omega⟩
  case unbond c p =>
    obtain ⟨_, _, _, _, _, _, rfl⟩ := unbondFarm_iff.1 h
    exact ⟨by simp, rfl, by simp⟩
  case merge c ps =>
    simp only [mergeTokens, Option.bind_eq_bind, Option.bind_eq_some_iff, req_eq_some,
      sub?_eq_some, Option.pure_def, Option.some.injEq, Prod.mk.injEq] at h
    obtain ⟨hold0, _, _, _, r, _, res1, _, p, _, ut1, _, first, _, part, _, merged, _,
      bal1, _, rfl, _⟩ := h
    exact ⟨by simp, rfl, by simp⟩
  case claimBoosted c u =>
    simp only [claimBoostedRewards, Option.bind_eq_bind, Option.bind_eq_some_iff, req_eq_some,
      sub?_eq_some, Option.pure_def, Option.some.injEq, Prod.mk.injEq] at h
    obtain ⟨_, _, _, _, _, _, ⟨s1, c1⟩, hg, r, _, res, _, bal1, _, rfl, _⟩ := h
    obtain ⟨_, _, rfl, rfl⟩ := generate_spec hg
    exact ⟨by simp, rfl, by simp⟩
  case «calc» q a t =>
    simp only [Option.map_eq_some_iff, Prod.mk.injEq] at h
    obtain ⟨_, _, rfl, _⟩ := h
    exact ⟨by simp, rfl, by simp⟩
  case transfer a b p =>
    simp only [transfer, Option.bind_eq_bind, Option.bind_eq_some_iff, req_eq_some,
      Option.pure_def, Option.some.injEq, Prod.mk.injEq] at h
    obtain ⟨_, _, hold0, _, rfl, _⟩ := h
    exact ⟨by simp, rfl, by simp⟩
  case setEnergy u a l =>
    simp only [Option.some.injEq, Prod.mk.injEq] at h
    obtain ⟨rfl, _⟩ := h
    exact ⟨by simp, rfl, by simp⟩
  case updateEnergy u =>
    simp only [updateEnergy, Option.bind_eq_bind, Option.bind_eq_some_iff,
      Option.pure_def, Option.some.injEq, Prod.mk.injEq] at h
    obtain ⟨g, _, rfl, _⟩ := h
    exact ⟨by simp, rfl, by simp⟩
  case topUp x =>
    simp only [topUp, Option.bind_eq_bind, Option.bind_eq_some_iff, req_eq_some,
      Option.pure_def, Option.some.injEq, Prod.mk.injEq] at h
    obtain ⟨_, _, rfl, _⟩ := h
    exact ⟨by simp, rfl, by simp⟩
  case withdraw x =>
    simp only [withdraw, Option.bind_eq_bind, Option.bind_eq_some_iff, req_eq_some,
      sub?_eq_some, Option.pure_def, Option.some.injEq, Prod.mk.injEq] at h
    obtain ⟨⟨s1, c1⟩, hg, rem, _, _, _, cap, ⟨hcap, rfl⟩, bal1, _, rfl, _⟩ := h
    obtain ⟨_, _, rfl, rfl⟩ := generate_spec hg
    simp only [genSt_capacity] at hcap
    exact ⟨by simp [St.flush], rfl, by simp only [St.flush, genSt_capacity]; omega⟩
  case setMaxApr x =>
    simp only [setMaxApr, Option.bind_eq_bind, Option.bind_eq_some_iff] at h
    obtain ⟨_, _, h⟩ := h
    obtain ⟨_, rfl⟩ := settleThen_eq h
    exact ⟨by simp [St.flush], rfl, by simp [St.flush]⟩
  case setPerBlock x =>
    simp only [setPerBlock, Option.bind_eq_bind, Option.bind_eq_some_iff] at h
    obtain ⟨_, _, h⟩ := h
    obtain ⟨_, rfl⟩ := settleThen_eq h
    exact ⟨by simp [St.flush], rfl, by simp [St.flush]⟩
  case startProduce =>
    simp only [startProduce, Option.bind_eq_bind, Option.bind_eq_some_iff, req_eq_some,
      Option.pure_def, Option.some.injEq, Prod.mk.injEq] at h
    obtain ⟨_, _, _, _, rfl, _⟩ := h
    exact ⟨by simp, rfl, by simp⟩
  case endProduce =>
    obtain ⟨_, rfl⟩ := settleThen_eq h
    exact ⟨by simp [St.flush], rfl, by simp [St.flush]⟩
  case setMinUnbond e =>
    simp only [setMinUnbond, Option.bind_eq_bind, Option.bind_eq_some_iff, req_eq_some,
      Option.pure_def, Option.some.injEq, Prod.mk.injEq] at h
    obtain ⟨_, _, rfl, _⟩ := h
    exact ⟨by simp, rfl, by simp⟩
  case setBoostedPct p =>
    simp only [setBoostedPct, Option.bind_eq_bind, Option.bind_eq_some_iff, req_eq_some] at h
    obtain ⟨_, _, h⟩ := h
    obtain ⟨_, rfl⟩ := settleThen_eq h
    exact ⟨by simp [St.flush], rfl, by simp [St.flush]⟩
  case setFactors x =>
    simp only [setFactors, Option.bind_eq_bind, Option.bind_eq_some_iff, req_eq_some,
      Option.pure_def, Option.some.injEq, Prod.mk.injEq] at h
    obtain ⟨_, _, _, _, c, _, rfl, _⟩ := h
    exact ⟨by simp, rfl, by simp⟩
  case collectUndistributed =>
    simp only [collectUndistributed, Option.bind_eq_bind, Option.bind_eq_some_iff, req_eq_some] at h
    obtain ⟨_, _, h⟩ := h
    split at h <;> simp only [Option.pure_def, Option.some.injEq, Prod.mk.injEq] at h <;>
      obtain ⟨rfl, _⟩ := h <;> exact ⟨by simp, rfl, by simp⟩
  case pause =>
    simp only [Option.some.injEq, Prod.mk.injEq] at h
    obtain ⟨rfl, _⟩ := h
    exact ⟨by simp, rfl, by simp⟩
  case resume =>
    simp only [Option.some.injEq, Prod.mk.injEq] at h
    obtain ⟨rfl, _⟩ := h
    exact ⟨by simp, rfl, by simp⟩
  case hubWhitelist u a =>
    simp only [Option.bind_eq_bind, Option.bind_eq_some_iff, req_eq_some,
      Option.pure_def, Option.some.injEq, Prod.mk.injEq] at h
    obtain ⟨_, _, rfl, _⟩ := h
    exact ⟨by simp, rfl, by simp⟩
  case hubRemove u a =>
    simp only [Option.bind_eq_bind, Option.bind_eq_some_iff, req_eq_some,
      Option.pure_def, Option.some.injEq, Prod.mk.injEq] at h
    obtain ⟨_, _, rfl, _⟩ := h
    exact ⟨by simp, rfl, by simp⟩
  case advance b e =>
    simp only [Option.some.injEq, Prod.mk.injEq] at h
    obtain ⟨rfl, _⟩ := h
    exact ⟨by simp, rfl, by simp⟩

theorem step_core {s s' : St} {op : Op} {o : Out} (h : step s op = some (s', o)) :
    callerOk s op = true ∧ stepCore s op = some (s', o) := by
  simp only [step, Option.bind_eq_bind, Option.bind_eq_some_iff, req_eq_some] at h
  obtain ⟨_, hc, h⟩ := h
  exact ⟨hc, h⟩

theorem step_virt {s s' : St} {op : Op} {o : Out} (h : step s op = some (s', o)) :
    s'.virt = s.virt + virtDelta op ∧ s'.whitelist = s.whitelist ∧
      s'.capacity + capDown op = s.capacity + capUp op :=
  stepCore_virt (step_core h).2

theorem run_whitelist (ops : List Op) {s : St} : (run s ops).whitelist = s.whitelist := by
  induction ops generalizing s with
  | nil => rfl
  | cons op ops ih =>
    simp only [run, List.foldl_cons]
    cases hst : step s op with
    | none => exact ih
    | some r =>
      obtain ⟨s1, o⟩ := r
      exact (ih (s := s1)).trans (step_virt hst).2.1

/-! ## 2. sums of position units over a sub-list `L` of the accounts -/

theorem checkAndUpdate_pos (m : Nat → Option Meta) (user : Nat) :
    ∀ (pays : List Pay) (ut ut1 : Nat → Nat), checkAndUpdate m user ut pays = some ut1 →
      ∀ p ∈ pays, ∃ a, posOf m p.1 = some a
  | [], _, _, _, _, hp => by cases hp
  | p :: ps, ut, ut1, h, q, hq => by
      simp only [checkAndUpdate, Option.bind_eq_bind, Option.bind_eq_some_iff] at h
      obtain ⟨a, ha, h⟩ := h
      rcases List.mem_cons.mp hq with rfl | hq
      · exact ⟨a, ha⟩
      · exact checkAndUpdate_pos m user ps _ ut1 h q hq

/-- a debit by an account outside `L` does not touch the holdings of `L` -/
theorem wsum_debit_notin {c : Nat} {pays : List Pay} {hold h0 : Nat → Nat → Nat} {L : List Nat} {N : Nat}
    (w : Nat → Nat) (h : debit hold c pays = some h0) (hc : c ∉ L) :
    wsum h0 L N w = wsum hold L N w := by
  obtain ⟨_, h2, _⟩ := debit_spec' c pays hold h0 h
  refine wsum_congr (fun n _ => ?_) (fun _ _ => rfl)
  simp only [outst]
  exact usum_congr (fun a ha => h2 a n (by rintro rfl; exact hc ha))

theorem outst_upd2_notin {h0 : Nat → Nat → Nat} {L : List Nat} {c k v : Nat} (hc : c ∉ L) (n : Nat) :
    outst (upd2 h0 c k v) L n = outst h0 L n := by
  simp only [outst]
  exact usum_congr (fun a ha => upd2_other _ _ _ _ (Or.inl (by rintro rfl; exact hc ha)))

/-- a mint of the fresh nonce `N` to an account outside `L` -/
theorem wsum_mint_notin {h0 : Nat → Nat → Nat} {L : List Nat} {c N A : Nat} (w w' : Nat → Nat)
    (hc : c ∉ L) (hfresh : ∀ a, h0 a N = 0) (hw : ∀ n, n < N → w' n = w n) :
    wsum (upd2 h0 c N A) L (N + 1) w' = wsum h0 L N w := by
  rw [wsum_congr (hold := h0) (w := w') (fun n _ => outst_upd2_notin hc n) (fun _ _ => rfl),
    wsum_succ_fresh w' hfresh]
  exact wsum_congr (fun _ _ => rfl) hw

/-- a credit to an account outside `L` -/
theorem wsum_credit_notin {h0 : Nat → Nat → Nat} {L : List Nat} {dst k v N : Nat} (w : Nat → Nat)
    (hd : dst ∉ L) : wsum (upd2 h0 dst k v) L N w = wsum h0 L N w :=
  wsum_congr (fun n _ => outst_upd2_notin hd n) (fun _ _ => rfl)

/-- a credit of `v` units of nonce `k < N` to an account of `L` -/
theorem wsum_credit_in {h0 : Nat → Nat → Nat} {L : List Nat} {dst k v N : Nat} (w : Nat → Nat)
    (hd : dst ∈ L) (hnd : L.Nodup) (hk : k < N) :
    wsum (upd2 h0 dst k (h0 dst k + v)) L N w = wsum h0 L N w + w k * v := by
  simp only [wsum]
  rw [← usum_single N k v w hk, ← usum_add]
  apply usum_congr
  intro n _
  rw [outst_credit hd hnd n, Nat.mul_add]
  by_cases hn : n = k
  · subst hn; simp
  · rw [if_neg hn, if_neg (fun e => hn e.symm)]

/-- **re-issue** seen from `L`: the caller's position payments leave, one position is minted to
    the caller -/
theorem wsumL_remint {v : PV} (hI : PosOK v) {L : List Nat} (hnd : L.Nodup) {c : Nat}
    {pays : List Pay} {h0 : Nat → Nat → Nat} (hd : debit v.hold c pays = some h0)
    (hpos : ∀ p ∈ pays, ∃ a, posOf v.md p.1 = some a) (tok : Attrs) :
    wsum (upd2 h0 c (v.nonce + 1) tok.amount) L (v.nonce + 1 + 1)
        (posW (upd v.md (v.nonce + 1) (some (.pos tok)))) + (if c ∈ L then payTot pays else 0)
      = wsum v.hold L (v.nonce + 1) (posW v.md) + (if c ∈ L then tok.amount else 0) := by
  have hfresh := hI.fresh hd
  have hlt := hI.pay_lt hd
  have hw : ∀ n, n < v.nonce + 1 → posW (upd v.md (v.nonce + 1) (some (.pos tok))) n = posW v.md n :=
    fun n hn => by simp only [posW, posOf_upd_other _ _ (show n ≠ v.nonce + 1 by omega)]
  by_cases hc : c ∈ L
  · rw [if_pos hc, if_pos hc, wsum_mint (posW v.md) _ hc hnd hfresh hw,
      posW_some (posOf_upd_pos _ _ _), Nat.one_mul]
    have h1 := wsum_debit (posW v.md) hd hc hnd hlt
    rw [payW_posW hpos] at h1
    omega
  · rw [if_neg hc, if_neg hc, wsum_mint_notin (posW v.md) _ hc hfresh hw,
      wsum_debit_notin (posW v.md) hd hc]

/-- **exit** seen from `L`: a position part leaves the caller, an unbond token (weight 0) is minted -/
theorem wsumL_burn {v : PV} (hI : PosOK v) {L : List Nat} (hnd : L.Nodup) {c : Nat}
    {pay : Pay} {h0 : Nat → Nat → Nat} {attrs : Attrs} (hd : debit v.hold c [pay] = some h0)
    (ha : posOf v.md pay.1 = some attrs) (e x : Nat) :
    wsum (upd2 h0 c (v.nonce + 1) x) L (v.nonce + 1 + 1)
        (posW (upd v.md (v.nonce + 1) (some (.unbond e)))) + (if c ∈ L then pay.2 else 0)
      = wsum v.hold L (v.nonce + 1) (posW v.md) := by
  have hfresh := hI.fresh hd
  have hlt := hI.pay_lt hd
  have hw : ∀ n, n < v.nonce + 1 → posW (upd v.md (v.nonce + 1) (some (.unbond e))) n = posW v.md n :=
    fun n hn => by simp only [posW, posOf_upd_other _ _ (show n ≠ v.nonce + 1 by omega)]
  by_cases hc : c ∈ L
  · rw [if_pos hc, wsum_mint (posW v.md) _ hc hnd hfresh hw,
      posW_none (posOf_upd_unbond _ _ _), Nat.zero_mul]
    have h1 := wsum_debit (posW v.md) hd hc hnd hlt
    simp only [payW, posW_some ha, Nat.one_mul, Nat.add_zero] at h1
    omega
  · rw [if_neg hc, wsum_mint_notin (posW v.md) _ hc hfresh hw, wsum_debit_notin (posW v.md) hd hc]
    rfl

/-- payments of weight 0 (unbond tokens) leave: the position units of `L` are untouched -/
theorem wsumL_redeem {v : PV} (hI : PosOK v) {L : List Nat} (hnd : L.Nodup) {c : Nat}
    {pays : List Pay} {h0 : Nat → Nat → Nat} (hd : debit v.hold c pays = some h0)
    (hz : ∀ p ∈ pays, posOf v.md p.1 = none) :
    wsum h0 L (v.nonce + 1) (posW v.md) = wsum v.hold L (v.nonce + 1) (posW v.md) := by
  by_cases hc : c ∈ L
  · have h1 := wsum_debit (posW v.md) hd hc hnd (hI.pay_lt hd)
    rw [payW_zero (fun p hp => posW_none (hz p hp))] at h1
    omega
  · exact wsum_debit_notin (posW v.md) hd hc

/-- a plain transfer seen from `L` -/
theorem wsumL_transfer {v : PV} (hI : PosOK v) {L : List Nat} (hnd : L.Nodup) {src dst : Nat}
    {pay : Pay} {h0 : Nat → Nat → Nat} (hd : debit v.hold src [pay] = some h0) :
    wsum (upd2 h0 dst pay.1 (h0 dst pay.1 + pay.2)) L (v.nonce + 1) (posW v.md)
        + (if src ∈ L then posW v.md pay.1 * pay.2 else 0)
      = wsum v.hold L (v.nonce + 1) (posW v.md) + (if dst ∈ L then posW v.md pay.1 * pay.2 else 0) := by
  have hlt := hI.pay_lt hd pay List.mem_cons_self
  have e1 : wsum h0 L (v.nonce + 1) (posW v.md) + (if src ∈ L then posW v.md pay.1 * pay.2 else 0)
      = wsum v.hold L (v.nonce + 1) (posW v.md) := by
    by_cases hs : src ∈ L
    · rw [if_pos hs]
      have h1 := wsum_debit (posW v.md) hd hs hnd (hI.pay_lt hd)
      simp only [payW, Nat.add_zero] at h1
      exact h1
    · rw [if_neg hs, wsum_debit_notin (posW v.md) hd hs]; rfl
  by_cases hdst : dst ∈ L
  · rw [if_pos hdst, wsum_credit_in (posW v.md) hdst hnd hlt]; omega
  · rw [if_neg hdst, wsum_credit_notin (posW v.md) hdst]; omega

/-! ## 3. the proxy discipline and the invariant `virt = Σ position units held by the proxies` -/

/-- **proxy discipline** for a set `P` of accounts (the metastaking-style proxies, which register
    stake without moving staking tokens): the three proxy endpoints are used by the accounts of
    `P` only; an account of `P` never stakes, compounds or unstakes through the direct endpoints
    (it may claim, merge, unbond, …); and staking POSITIONS are never transferred across the
    boundary of `P` (unbond tokens may be: the proxy forwards them to the user). -/
def disc (P : List Nat) (s : St) : Op → Bool
  | .stakeProxy c _ _ _ => decide (c ∈ P)
  | .claimNew c _ _ _ => decide (c ∈ P)
  | .unstakeProxy c _ _ _ => decide (c ∈ P)
  | .stake c _ _ _ => decide (c ∉ P)
  | .stakeBehalf c _ _ _ => decide (c ∉ P)
  | .compound c _ => decide (c ∉ P)
  | .unstake c _ _ => decide (c ∉ P)
  | .transfer src dst p => decide ((src ∈ P ↔ dst ∈ P) ∨ posOf s.md p.1 = none)
  | _ => true

/-- the distinct accounts of the world that belong to `P` -/
def PV.pacc (P : List Nat) (v : PV) : List Nat := v.accts.filter (fun a => decide (a ∈ P))

/-- position units held by the accounts of `P` -/
def PV.held (P : List Nat) (v : PV) : Nat := wsum v.hold (v.pacc P) (v.nonce + 1) (posW v.md)

theorem PV.mem_pacc {P : List Nat} {v : PV} {a : Nat} : a ∈ v.pacc P ↔ a ∈ v.accts ∧ a ∈ P := by
  simp [PV.pacc, List.mem_filter]

theorem PosOK.pacc_nodup {v : PV} (hI : PosOK v) (P : List Nat) : (v.pacc P).Nodup :=
  hI.nodup.filter _

/-- stake registered through the proxies = position units held by the proxies -/
def VirtOK (P : List Nat) (s : St) : Prop := s.virt = ((pv s).held P : Nat)

theorem held_frame {P : List Nat} {v v' : PV} (e : v'.held P = v.held P) :
    ((v'.held P : Nat) : Int) = ((v.held P : Nat) : Int) + 0 := by rw [e]; simp

theorem held_remint {P : List Nat} {v : PV} (hI : PosOK v) {c : Nat} {pays : List Pay}
    {h0 : Nat → Nat → Nat} (hc : c ∈ v.accts) (hd : debit v.hold c pays = some h0)
    (hpos : ∀ p ∈ pays, ∃ a, posOf v.md p.1 = some a) (inc base : Nat) (tok : Attrs)
    (ut2 : Nat → Nat) (supply2 paid : Nat) :
    ((v.gen inc base).remint c h0 tok ut2 supply2 paid).held P + (if c ∈ P then payTot pays else 0)
      = v.held P + (if c ∈ P then tok.amount else 0) := by
  have := wsumL_remint hI (hI.pacc_nodup P) hd hpos tok
  have hiff : c ∈ v.pacc P ↔ c ∈ P := by rw [PV.mem_pacc]; exact ⟨fun h => h.2, fun h => ⟨hc, h⟩⟩
  simp only [hiff] at this
  exact this

theorem held_burn {P : List Nat} {v : PV} (hI : PosOK v) {c : Nat} {pay : Pay}
    {h0 : Nat → Nat → Nat} {attrs : Attrs} (hc : c ∈ v.accts) (hd : debit v.hold c [pay] = some h0)
    (ha : posOf v.md pay.1 = some attrs) (inc base e x : Nat) (ut2 : Nat → Nat) (supply2 paid : Nat) :
    ((v.gen inc base).burn c h0 e x ut2 supply2 paid).held P + (if c ∈ P then pay.2 else 0)
      = v.held P := by
  have := wsumL_burn hI (hI.pacc_nodup P) hd ha e x
  have hiff : c ∈ v.pacc P ↔ c ∈ P := by rw [PV.mem_pacc]; exact ⟨fun h => h.2, fun h => ⟨hc, h⟩⟩
  simp only [hiff] at this
  exact this

theorem stakeCore_held {P : List Nat} {s s' : St} {c orig amount : Nat} {v : Bool} {adds : List Pay}
    {o : Out} (hI : PosInv s) (hc : c ∈ s.accts) (h : stakeCore s c orig amount v adds = some (s', o)) :
    (pv s').held P = (pv s).held P + (if c ∈ P then amount else 0) := by
  obtain ⟨inc, base, hold0, ut1, merged, _, hd, hk, hm, e⟩ := stakeCore_pv h
  obtain ⟨m1, _⟩ := mergeParts_amount hm
  have hr := held_remint (P := P) hI (List.mem_dedup.mpr hc) hd (checkAndUpdate_pos _ _ _ _ _ hk)
    inc base merged (upd ut1 orig (ut1 orig + amount)) (s.supply + amount) 0
  rw [e]
  simp only at m1
  split at hr <;> split <;> first | omega | contradiction

theorem claimCore_held {P : List Nat} {s s' : St} {c orig : Nat} {pays : List Pay} {nv : Option Nat}
    {o : Out} (hI : PosInv s) (hc : c ∈ s.accts) (h : claimCore s c orig pays nv = some (s', o)) :
    (pv s').held P + (if c ∈ P then payTot pays else 0)
      = (pv s).held P + (if c ∈ P then nv.getD (payTot pays) else 0) := by
  obtain ⟨inc, base, p, first, tok, hold0, ut1, merged, ut2, supply2, _, hp, hf, ht, hd, hk, hm,
    _, _, e⟩ := claimCore_pv h
  obtain ⟨m1, _⟩ := mergeParts_amount hm
  obtain ⟨_, _, t3, _⟩ := intoPart_spec ht
  have hpt : payTot pays = p.2 + payTot pays.tail := by
    conv => lhs; rw [head_tail hp]
    rfl
  have hma : merged.amount = payTot pays := by
    rw [m1, hpt]; show tok.amount + _ = _; rw [t3]
  have hr := held_remint (P := P) hI (List.mem_dedup.mpr hc) hd (checkAndUpdate_pos _ _ _ _ _ hk)
    inc base { merged with amount := nv.getD merged.amount } ut2 supply2
    (baseAmt (s.rps + inc) s.dsc p.2 tok.rps)
  have ha : ({ merged with amount := nv.getD merged.amount } : Attrs).amount = nv.getD (payTot pays) := by
    show nv.getD merged.amount = _; rw [hma]
  rw [ha] at hr
  rw [e]
  exact hr

theorem unstakeCore_held {P : List Nat} {s s' : St} {c orig : Nat} {pay : Pay} {x : Option Nat}
    {o : Out} (hI : PosInv s) (hc : c ∈ s.accts) (h : unstakeCore s c orig pay x = some (s', o)) :
    (pv s').held P + (if c ∈ P then pay.2 else 0) = (pv s).held P := by
  obtain ⟨inc, base, hold0, attrs, tok, e, _, hd, ha, _, _, e'⟩ := unstakeCore_pv h
  rw [e']
  exact held_burn hI (List.mem_dedup.mpr hc) hd ha _ _ _ _ _ _ _

theorem compound_held {P : List Nat} {s s' : St} {c : Nat} {pays : List Pay} {o : Out}
    (hI : PosInv s) (hc : c ∈ s.accts) (hP : c ∉ P) (h : compound s c pays = some (s', o)) :
    (pv s').held P = (pv s).held P := by
  obtain ⟨inc, base, p, first, tok, hold0, ut1, merged, boosted, _, _, _, _, hd, hk, _, e⟩ :=
    compound_pv h
  have hr := held_remint (P := P) hI (List.mem_dedup.mpr hc) hd (checkAndUpdate_pos _ _ _ _ _ hk)
    inc base merged (upd ut1 c (ut1 c + (baseAmt (s.rps + inc) s.dsc p.2 tok.rps + boosted)))
    (s.supply + (baseAmt (s.rps + inc) s.dsc p.2 tok.rps + boosted))
    (baseAmt (s.rps + inc) s.dsc p.2 tok.rps)
  rw [e]
  simp only [if_neg hP, Nat.add_zero] at hr
  exact hr

theorem mergeTokens_held {P : List Nat} {s s' : St} {c : Nat} {pays : List Pay} {o : Out}
    (hI : PosInv s) (hc : c ∈ s.accts) (h : mergeTokens s c pays = some (s', o)) :
    (pv s').held P = (pv s).held P := by
  obtain ⟨p, first, part, hold0, ut1, merged, hp, hf, ht, hd, hk, hm, e⟩ := mergeTokens_pv h
  obtain ⟨m1, _⟩ := mergeParts_amount hm
  obtain ⟨_, _, t3, _⟩ := intoPart_spec ht
  have hpt : payTot pays = p.2 + payTot pays.tail := by
    conv => lhs; rw [head_tail hp]
    rfl
  have hma : merged.amount = payTot pays := by rw [m1, hpt, t3]
  obtain ⟨tok, htok⟩ : ∃ tok : Attrs, tok = { merged with owner := c } := ⟨_, rfl⟩
  have hta : tok.amount = payTot pays := by rw [htok]; exact hma
  have hr := held_remint (P := P) hI (List.mem_dedup.mpr hc) hd (checkAndUpdate_pos _ _ _ _ _ hk)
    0 0 tok ut1 s.supply 0
  rw [hta] at hr
  rw [e, ← htok]
  omega

theorem unbondFarm_held {P : List Nat} {s s' : St} {c : Nat} {pay : Pay} {o : Out}
    (hI : PosInv s) (h : unbondFarm s c pay = some (s', o)) :
    (pv s').held P = (pv s).held P := by
  simp only [unbondFarm, Option.bind_eq_bind, Option.bind_eq_some_iff, req_eq_some,
    sub?_eq_some, Option.pure_def, Option.some.injEq, Prod.mk.injEq] at h
  obtain ⟨hold0, hd, _, _, unlock, hu, _, _, bal1, _, rfl, _⟩ := h
  exact wsumL_redeem (v := pv s) hI (PosOK.pacc_nodup hI P) hd (fun p hp => by
    rw [List.mem_singleton.mp hp]; exact unbondOf_posOf hu)

theorem transfer_held {P : List Nat} {s s' : St} {src dst : Nat} {pay : Pay} {o : Out}
    (hI : PosInv s) (hs : src ∈ s.accts) (h : transfer s src dst pay = some (s', o))
    (hdisc : (src ∈ P ↔ dst ∈ P) ∨ posOf s.md pay.1 = none) :
    (pv s').held P = (pv s).held P := by
  simp only [transfer, Option.bind_eq_bind, Option.bind_eq_some_iff, req_eq_some,
    Option.pure_def, Option.some.injEq, Prod.mk.injEq] at h
  obtain ⟨_, hdst, hold0, hd, rfl, _⟩ := h
  have ht := wsumL_transfer (v := pv s) hI (PosOK.pacc_nodup hI P) (dst := dst) hd
  have i1 : src ∈ (pv s).pacc P ↔ src ∈ P := by
    rw [PV.mem_pacc]; exact ⟨fun h => h.2, fun h => ⟨List.mem_dedup.mpr hs, h⟩⟩
  have i2 : dst ∈ (pv s).pacc P ↔ dst ∈ P := by
    rw [PV.mem_pacc]; exact ⟨fun h => h.2, fun h => ⟨List.mem_dedup.mpr hdst, h⟩⟩
  simp only [i1, i2] at ht
  show wsum (upd2 hold0 dst pay.1 (hold0 dst pay.1 + pay.2)) ((pv s).pacc P) ((pv s).nonce + 1)
    (posW (pv s).md) = wsum (pv s).hold ((pv s).pacc P) ((pv s).nonce + 1) (posW (pv s).md)
  rcases hdisc with hiff | hnone
  · by_cases hsp : src ∈ P
    · rw [if_pos hsp, if_pos (hiff.mp hsp)] at ht; omega
    · rw [if_neg hsp, if_neg (fun h => hsp (hiff.mpr h))] at ht; omega
  · have : posW (pv s).md pay.1 = 0 := posW_none hnone
    rw [this] at ht
    simp only [Nat.zero_mul, ite_self, Nat.add_zero] at ht
    exact ht

/-- **every disciplined transaction moves the proxies' position units exactly as it moves `virt`** -/
theorem stepCore_held {P : List Nat} {s s' : St} {op : Op} {o : Out} (hI : PosInv s)
    (hc : callerOk s op = true) (hd : disc P s op = true) (h : stepCore s op = some (s', o)) :
    (((pv s').held P : Nat) : Int) = (((pv s).held P : Nat) : Int) + virtDelta op := by
  cases op <;> simp only [stepCore] at h <;> simp only [callerOk, Op.caller, decide_eq_true_eq] at hc <;>
    simp only [disc, decide_eq_true_eq] at hd <;> simp only [virtDelta]
  case stake c orig a adds =>
    cases orig <;> simp only [stakeFarm, Option.bind_eq_bind, Option.bind_eq_some_iff] at h
    · have := stakeCore_held (P := P) hI hc h; rw [if_neg hd] at this; exact held_frame this
    · obtain ⟨_, _, h⟩ := h
      have := stakeCore_held (P := P) hI hc h; rw [if_neg hd] at this; exact held_frame this
  case stakeProxy c orig a adds =>
    simp only [stakeProxy, Option.bind_eq_bind, Option.bind_eq_some_iff] at h
    obtain ⟨_, _, h⟩ := h
    have := stakeCore_held (P := P) hI hc h; rw [if_pos hd] at this; omega
  case stakeBehalf c u a adds =>
    simp only [stakeOnBehalf, Option.bind_eq_bind, Option.bind_eq_some_iff] at h
    obtain ⟨_, _, _, _, h⟩ := h
    have := stakeCore_held (P := P) hI hc h; rw [if_neg hd] at this; exact held_frame this
  case claim c orig p =>
    cases orig <;> simp only [claimRewards, Option.bind_eq_bind, Option.bind_eq_some_iff] at h
    · have := claimCore_held (P := P) hI hc h
      simp only [Option.getD_none] at this; omega
    · obtain ⟨_, _, h⟩ := h
      have := claimCore_held (P := P) hI hc h
      simp only [Option.getD_none] at this; omega
  case claimNew c orig nv p =>
    simp only [claimNewValue, Option.bind_eq_bind, Option.bind_eq_some_iff] at h
    obtain ⟨_, _, h⟩ := h
    have := claimCore_held (P := P) hI hc h
    simp only [Option.getD_some, payTot, Nat.add_zero, if_pos hd] at this; omega
  case claimBehalf c ps =>
    simp only [claimOnBehalf, Option.bind_eq_bind, Option.bind_eq_some_iff] at h
    obtain ⟨_, _, _, _, h⟩ := h
    have := claimCore_held (P := P) hI hc h
    simp only [Option.getD_none] at this; omega
  case compound c ps => exact held_frame (compound_held hI hc hd h)
  case unstake c orig p =>
    cases orig <;> simp only [unstakeFarm, Option.bind_eq_bind, Option.bind_eq_some_iff] at h
    · have := unstakeCore_held (P := P) hI hc h; rw [if_neg hd] at this; omega
    · obtain ⟨_, _, h⟩ := h
      have := unstakeCore_held (P := P) hI hc h; rw [if_neg hd] at this; omega
  case unstakeProxy c orig x p =>
    simp only [unstakeProxy, Option.bind_eq_bind, Option.bind_eq_some_iff] at h
    obtain ⟨_, _, h⟩ := h
    have := unstakeCore_held (P := P) hI hc h; rw [if_pos hd] at this; omega
  case unbond c p => exact held_frame (unbondFarm_held hI h)
  case merge c ps => exact held_frame (mergeTokens_held hI hc h)
  case claimBoosted c u =>
    simp only [claimBoostedRewards, Option.bind_eq_bind, Option.bind_eq_some_iff, req_eq_some,
      sub?_eq_some, Option.pure_def, Option.some.injEq, Prod.mk.injEq] at h
    obtain ⟨_, _, _, _, _, _, ⟨s1, c1⟩, hg, r, _, res, _, bal1, _, rfl, _⟩ := h
    obtain ⟨_, _, rfl, rfl⟩ := generate_spec hg
    exact held_frame rfl
  case «calc» q a t =>
    simp only [Option.map_eq_some_iff, Prod.mk.injEq] at h
    obtain ⟨_, _, rfl, _⟩ := h
    exact held_frame rfl
  case transfer a b p => exact held_frame (transfer_held hI hc h hd)
  case setEnergy u a l =>
    simp only [Option.some.injEq, Prod.mk.injEq] at h
    obtain ⟨rfl, _⟩ := h
    exact held_frame rfl
  case updateEnergy u =>
    simp only [updateEnergy, Option.bind_eq_bind, Option.bind_eq_some_iff,
      Option.pure_def, Option.some.injEq, Prod.mk.injEq] at h
    obtain ⟨g, _, rfl, _⟩ := h
    exact held_frame rfl
  case topUp x =>
    simp only [topUp, Option.bind_eq_bind, Option.bind_eq_some_iff, req_eq_some,
      Option.pure_def, Option.some.injEq, Prod.mk.injEq] at h
    obtain ⟨_, _, rfl, _⟩ := h
    exact held_frame rfl
  case withdraw x =>
    simp only [withdraw, Option.bind_eq_bind, Option.bind_eq_some_iff, req_eq_some,
      sub?_eq_some, Option.pure_def, Option.some.injEq, Prod.mk.injEq] at h
    obtain ⟨⟨s1, c1⟩, hg, rem, _, _, _, cap, _, bal1, _, rfl, _⟩ := h
    obtain ⟨_, _, rfl, rfl⟩ := generate_spec hg
    exact held_frame rfl
  case setMaxApr x =>
    simp only [setMaxApr, Option.bind_eq_bind, Option.bind_eq_some_iff] at h
    obtain ⟨_, _, h⟩ := h
    obtain ⟨_, rfl⟩ := settleThen_eq h
    exact held_frame rfl
  case setPerBlock x =>
    simp only [setPerBlock, Option.bind_eq_bind, Option.bind_eq_some_iff] at h
    obtain ⟨_, _, h⟩ := h
    obtain ⟨_, rfl⟩ := settleThen_eq h
    exact held_frame rfl
  case startProduce =>
    simp only [startProduce, Option.bind_eq_bind, Option.bind_eq_some_iff, req_eq_some,
      Option.pure_def, Option.some.injEq, Prod.mk.injEq] at h
    obtain ⟨_, _, _, _, rfl, _⟩ := h
    exact held_frame rfl
  case endProduce =>
    obtain ⟨_, rfl⟩ := settleThen_eq h
    exact held_frame rfl
  case setMinUnbond e =>
    simp only [setMinUnbond, Option.bind_eq_bind, Option.bind_eq_some_iff, req_eq_some,
      Option.pure_def, Option.some.injEq, Prod.mk.injEq] at h
    obtain ⟨_, _, rfl, _⟩ := h
    exact held_frame rfl
  case setBoostedPct p =>
    simp only [setBoostedPct, Option.bind_eq_bind, Option.bind_eq_some_iff, req_eq_some] at h
    obtain ⟨_, _, h⟩ := h
    obtain ⟨_, rfl⟩ := settleThen_eq h
    exact held_frame rfl
  case setFactors x =>
    simp only [setFactors, Option.bind_eq_bind, Option.bind_eq_some_iff, req_eq_some,
      Option.pure_def, Option.some.injEq, Prod.mk.injEq] at h
    obtain ⟨_, _, _, _, c, _, rfl, _⟩ := h
    exact held_frame rfl
  case collectUndistributed =>
    simp only [collectUndistributed, Option.bind_eq_bind, Option.bind_eq_some_iff, req_eq_some] at h
    obtain ⟨_, _, h⟩ := h
    split at h <;> simp only [Option.pure_def, Option.some.injEq, Prod.mk.injEq] at h <;>
      obtain ⟨rfl, _⟩ := h <;> exact held_frame rfl
  case pause =>
    simp only [Option.some.injEq, Prod.mk.injEq] at h
    obtain ⟨rfl, _⟩ := h
    exact held_frame rfl
  case resume =>
    simp only [Option.some.injEq, Prod.mk.injEq] at h
    obtain ⟨rfl, _⟩ := h
    exact held_frame rfl
  case hubWhitelist u a =>
    simp only [Option.bind_eq_bind, Option.bind_eq_some_iff, req_eq_some,
      Option.pure_def, Option.some.injEq, Prod.mk.injEq] at h
    obtain ⟨_, _, rfl, _⟩ := h
    exact held_frame rfl
  case hubRemove u a =>
    simp only [Option.bind_eq_bind, Option.bind_eq_some_iff, req_eq_some,
      Option.pure_def, Option.some.injEq, Prod.mk.injEq] at h
    obtain ⟨_, _, rfl, _⟩ := h
    exact held_frame rfl
  case advance b e =>
    simp only [Option.some.injEq, Prod.mk.injEq] at h
    obtain ⟨rfl, _⟩ := h
    exact held_frame rfl

theorem step_virtOK {P : List Nat} {s s' : St} {op : Op} {o : Out} (hI : PosInv s)
    (hV : VirtOK P s) (hd : disc P s op = true) (h : step s op = some (s', o)) : VirtOK P s' := by
  obtain ⟨hc, hcore⟩ := step_core h
  unfold VirtOK at hV ⊢
  rw [(stepCore_virt hcore).1, stepCore_held hI hc hd hcore, hV]

/-- a history in which every SUCCESSFUL transaction obeys the proxy discipline (failed
    transactions do not matter: they change nothing) -/
def discRun (P : List Nat) : St → List Op → Bool
  | _, [] => true
  | s, op :: ops =>
    match step s op with
    | some r => disc P s op && discRun P r.1 ops
    | none => discRun P s ops

theorem run_virtOK {P : List Nat} (ops : List Op) {s : St} (hI : PosInv s) (hV : VirtOK P s)
    (hd : discRun P s ops = true) : VirtOK P (run s ops) := by
  induction ops generalizing s with
  | nil => simpa [run] using hV
  | cons op ops ih =>
    simp only [run, List.foldl_cons]
    simp only [discRun] at hd
    cases hst : step s op with
    | none =>
      rw [hst] at hd
      exact ih hI hV hd
    | some r =>
      obtain ⟨s1, o⟩ := r
      rw [hst] at hd
      simp only [Bool.and_eq_true] at hd
      exact ih (step_posInv hI hst) (step_virtOK hI hV hd.1 hst) hd.2

theorem virtOK_init (P : List Nat) (epoch block dsc maxApr minUnbond perBlock : Nat) (accts wl : List Nat) :
    VirtOK P (init epoch block dsc maxApr minUnbond perBlock accts wl) := by
  have h : (pv (init epoch block dsc maxApr minUnbond perBlock accts wl)).held P = 0 :=
    wsum_hold_zero (fun _ _ => rfl)
  unfold VirtOK
  rw [h]
  rfl

theorem usum_filter_le (l : List Nat) (q : Nat → Bool) (f : Nat → Nat) :
    usum (l.filter q) f ≤ usum l f := by
  induction l with
  | nil => exact Nat.le_refl _
  | cons a l ih =>
    by_cases hq : q a = true
    · rw [List.filter_cons_of_pos hq]; simp only [usum_cons]; omega
    · rw [List.filter_cons_of_neg hq]; simp only [usum_cons]; omega

/-- the proxies hold at most the whole supply -/
theorem PosOK.held_le {v : PV} (hI : PosOK v) (P : List Nat) : v.held P ≤ v.supply := by
  rw [hI.sup]
  unfold PV.held wsum
  apply usum_le
  intro n _
  apply Nat.mul_le_mul_left
  unfold outst
  unfold PV.pacc
  exact usum_filter_le _ _ _

end Mx.Staking
