/-
  Governance: the fee-escrow invariant and the "a stored proposal only ever moves forward"
  relation, both preserved by every operation.
-/
import MxModel.Lemmas.GovSpec

set_option linter.unusedSimpArgs false

namespace Mx.Gov

/-! ### what a proposal still holds in escrow -/

/-- fee of a proposal that was neither cancelled nor withdrawn, else 0 -/
def Proposal.held (p : Proposal) : Nat := if p.cleared || p.withdrawn then 0 else p.fee

/-- Σ fees of proposals neither cancelled nor withdrawn -/
def escrow (ps : List Proposal) : Nat := (ps.map Proposal.held).sum

theorem escrow_append (ps : List Proposal) (p : Proposal) : escrow (ps ++ [p]) = escrow ps + p.held := by
  simp [escrow, List.map_append, List.sum_append]

theorem escrow_set {ps : List Proposal} {i : Nat} {p : Proposal} (q : Proposal)
    (h : ps[i]? = some p) : escrow (ps.set i q) + p.held = escrow ps + q.held := by
  induction ps generalizing i with
  | nil => simp at h
  | cons a as ih =>
    cases i with
    | zero =>
      simp only [List.getElem?_cons_zero, Option.some.injEq] at h
      subst h
      simp [escrow, List.set]
      omega
    | succ j =>
      simp only [List.getElem?_cons_succ] at h
      have := ih h
      simp only [escrow, List.set, List.map_cons, List.sum_cons] at this ⊢
      omega

theorem get?_append {s : St} {q : Proposal} {id : Nat} {p : Proposal}
    (h : ({ s with props := s.props ++ [q] } : St).get? id = some p) :
    s.get? id = some p ∨ (id = s.props.length + 1 ∧ p = q) := by
  unfold St.get? at h ⊢
  split at h
  · simp at h
  · rename_i h0
    rw [if_neg h0]
    simp only at h
    by_cases hl : id - 1 < s.props.length
    · rw [List.getElem?_append_left hl] at h; exact .inl h
    · rw [List.getElem?_append_right (by omega)] at h
      have : id - 1 - s.props.length = 0 := by
        rcases Nat.eq_zero_or_pos (id - 1 - s.props.length) with h1 | h1
        · exact h1
        · rw [List.getElem?_eq_none (by simp; omega)] at h; simp at h
      rw [this] at h
      simp only [List.getElem?_cons_zero, Option.some.injEq] at h
      exact .inr ⟨by omega, h.symm⟩

theorem get?_append_old {s : St} (q : Proposal) {id : Nat} {p : Proposal} (h : s.get? id = some p) :
    ({ s with props := s.props ++ [q] } : St).get? id = some p := by
  obtain ⟨h1, h2, h3⟩ := get?_eq_some h
  unfold St.get?
  rw [if_neg (by omega)]
  simp only
  rw [List.getElem?_append_left (by omega)]
  exact h3

theorem get?_congr {s s' : St} (h : s'.props = s.props) (id : Nat) : s'.get? id = s.get? id := by
  unfold St.get?; rw [h]

/-! ### fields `vote` does not touch -/

theorem voted_frozen (p : Proposal) (t : Nat) (v : Vote) (e c : Nat) :
    (voted p t v e c).proposer = p.proposer ∧ (voted p t v e c).fee = p.fee ∧
    (voted p t v e c).minQuorum = p.minQuorum ∧ (voted p t v e c).delay = p.delay ∧
    (voted p t v e c).period = p.period ∧ (voted p t v e c).wpct = p.wpct ∧
    (voted p t v e c).start = p.start ∧ (voted p t v e c).cleared = p.cleared ∧
    (voted p t v e c).withdrawn = p.withdrawn ∧ (voted p t v e c).voters = p.voters ++ [c] ∧
    (voted p t v e c).quorum = p.quorum + e ∧
    (voted p t v e c).totalQuorum = (if p.quorum = 0 then t else p.totalQuorum) := by
  unfold voted
  by_cases hq : p.quorum = 0 <;> cases v <;> simp [Proposal.addVote, hq]

theorem voted_held (p : Proposal) (t : Nat) (v : Vote) (e c : Nat) :
    (voted p t v e c).held = p.held := by
  obtain ⟨_, h2, _, _, _, _, _, h8, h9, _⟩ := voted_frozen p t v e c
  simp [Proposal.held, h2, h8, h9]

/-! ### status facts -/

theorem statusAt_pending {p : Proposal} {b : Nat} :
    p.statusAt b = .pending ↔ b < p.start + p.delay := by
  unfold Proposal.statusAt
  repeat' split
  all_goals simp_all

theorem statusAt_active {p : Proposal} {b : Nat} :
    p.statusAt b = .active ↔ p.start + p.delay ≤ b ∧ b < p.start + p.delay + p.period := by
  unfold Proposal.statusAt
  repeat' split
  all_goals simp_all
  all_goals omega

/-- the three final statuses occur exactly from the end of the voting period on -/
theorem statusAt_ended {p : Proposal} {b : Nat} :
    (p.statusAt b = .succeeded ∨ p.statusAt b = .defeated ∨ p.statusAt b = .vetoed) ↔
      p.start + p.delay + p.period ≤ b := by
  unfold Proposal.statusAt
  repeat' split
  all_goals simp_all
  all_goals omega

/-! ### the invariant -/

structure Inv (s : St) : Prop where
  /-- the contract's fee balance is exactly the escrow of the open proposals -/
  escrow : s.bal = escrow s.props
  /-- a withdrawn fee belongs to a proposal whose voting period is over -/
  wd_ended : ∀ id p, s.get? id = some p → p.withdrawn = true →
    p.start + p.delay + p.period ≤ s.block

theorem inv_init (a b c d e f n funds : Nat) : Inv (init a b c d e f n funds) := by
  constructor
  · simp [init, Gov.escrow]
  · intro id p h
    simp [init, St.get?] at h

/-- a pending / active / ended status pins down the flags (given the invariant) -/
theorem held_of_status {s : St} (hi : Inv s) {id : Nat} {p : Proposal} (hg : s.get? id = some p)
    (hst : s.status id = .pending) : p.cleared = false ∧ p.withdrawn = false := by
  rw [status_of_get hg] at hst
  cases hc : p.cleared with
  | true => simp [hc] at hst
  | false =>
    simp only [hc, Bool.false_eq_true, if_false] at hst
    refine ⟨rfl, ?_⟩
    cases hw : p.withdrawn with
    | false => rfl
    | true =>
      have := hi.wd_ended id p hg hw
      have := statusAt_pending.1 hst
      omega

theorem not_cleared_of_status {s : St} {id : Nat} {p : Proposal} (hg : s.get? id = some p)
    (hst : s.status id ≠ .none) : p.cleared = false := by
  rw [status_of_get hg] at hst
  cases hc : p.cleared with
  | true => simp [hc] at hst
  | false => rfl

theorem propose_inv {s s' : St} {c fee : Nat} {o : Out} (hi : Inv s)
    (h : propose s c fee = some (s', o)) : Inv s' := by
  obtain ⟨_, _, _, _, _, _, rfl⟩ := propose_spec h
  constructor
  · simp only [escrow_append, hi.escrow, newProposal, Proposal.held]
    simp
  · intro id p hg hw
    have hg' : ({ s with props := s.props ++ [newProposal s c fee] } : St).get? id = some p := hg
    rcases get?_append hg' with h1 | ⟨_, rfl⟩
    · exact hi.wd_ended id p h1 hw
    · simp [newProposal] at hw

theorem vote_inv {s s' : St} {c id : Nat} {v : Vote} {o : Out} (hi : Inv s)
    (h : vote s c id v = some (s', o)) : Inv s' := by
  obtain ⟨p, _, h1, h2, _, hg, _, _, _, rfl⟩ := vote_spec h
  obtain ⟨_, _, hl⟩ := get?_eq_some hg
  constructor
  · have := escrow_set (voted p s.total v (s.energy c) c) hl
    rw [voted_held] at this
    simp only [set_bal, set_props, hi.escrow]
    omega
  · intro id' p' hg' hw
    by_cases hid : id' = id
    · subst hid
      rw [get?_set_same _ hg] at hg'
      simp only [Option.some.injEq] at hg'
      subst hg'
      obtain ⟨_, _, _, f4, f5, _, f7, _, f9, _⟩ := voted_frozen p s.total v (s.energy c) c
      rw [f9] at hw
      have := hi.wd_ended _ p hg hw
      rw [f4, f5, f7]
      exact this
    · rw [get?_set_ne _ h1 hid] at hg'
      exact hi.wd_ended id' p' hg' hw

theorem cancel_inv {s s' : St} {c id : Nat} {o : Out} (hi : Inv s)
    (h : cancel s c id = some (s', o)) : Inv s' := by
  obtain ⟨p, _, hst, hg, _, hb, _, rfl⟩ := cancel_spec h
  obtain ⟨h1, _, hl⟩ := get?_eq_some hg
  obtain ⟨hc, hw⟩ := held_of_status hi hg hst
  constructor
  · have := escrow_set { p with cleared := true } hl
    have e1 : p.held = p.fee := by simp [Proposal.held, hc, hw]
    have e2 : ({ p with cleared := true } : Proposal).held = 0 := by simp [Proposal.held]
    rw [e1, e2] at this
    simp only [set_bal, set_props, refunded, hi.escrow] at hb ⊢
    omega
  · intro id' p' hg' hw'
    by_cases hid : id' = id
    · subst hid
      have hg0 : (refunded s p.proposer p.fee).get? id' = some p := hg
      rw [get?_set_same _ hg0] at hg'
      simp only [Option.some.injEq] at hg'
      subst hg'
      simp [hw] at hw'
    · rw [get?_set_ne _ h1 hid] at hg'
      exact hi.wd_ended id' p' hg' hw'

theorem withdraw_inv {s s' : St} {c id : Nat} {o : Out} (hi : Inv s)
    (h : withdraw s c id = some (s', o)) : Inv s' := by
  obtain ⟨p, _, hg, hw, hcase⟩ := withdraw_spec h
  obtain ⟨h1, _, hl⟩ := get?_eq_some hg
  have hne : s.status id ≠ .none := by
    rcases hcase with ⟨hs | hs, _⟩ | ⟨hs, _⟩ <;> rw [hs] <;> simp
  have hc := not_cleared_of_status hg hne
  have hend : p.start + p.delay + p.period ≤ s.block := by
    have e := status_of_get hg
    simp only [hc, Bool.false_eq_true, if_false] at e
    apply statusAt_ended.1
    rcases hcase with ⟨hs | hs, _⟩ | ⟨hs, _⟩ <;> rw [← e, hs] <;> simp
  have hset := escrow_set { p with withdrawn := true } hl
  have e1 : p.held = p.fee := by simp [Proposal.held, hc, hw]
  have e2 : ({ p with withdrawn := true } : Proposal).held = 0 := by simp [Proposal.held]
  rw [e1, e2] at hset
  have wd : ∀ (s0 : St), s0.get? id = some p → s0.block = s.block →
      (∀ id', s0.get? id' = s.get? id') →
      ∀ id' p', (s0.set id { p with withdrawn := true }).get? id' = some p' → p'.withdrawn = true →
        p'.start + p'.delay + p'.period ≤ s.block := by
    intro s0 hg0 _ hsame id' p' hg' hw'
    by_cases hid : id' = id
    · subst hid
      rw [get?_set_same _ hg0] at hg'
      simp only [Option.some.injEq] at hg'
      subst hg'
      exact hend
    · rw [get?_set_ne _ h1 hid, hsame] at hg'
      exact hi.wd_ended id' p' hg' hw'
  rcases hcase with ⟨_, _, hb, _, rfl⟩ | ⟨_, hr, hb1, hb2, _, rfl⟩
  · constructor
    · simp only [set_bal, set_props, refunded, hi.escrow] at hb ⊢
      omega
    · exact wd (refunded s p.proposer p.fee) hg rfl (fun _ => rfl)
  · constructor
    · simp only [set_bal, set_props, refunded, burnedSt, hi.escrow] at hb1 hb2 ⊢
      omega
    · exact wd (refunded (burnedSt s _) p.proposer _) hg rfl (fun _ => rfl)

theorem step_inv {s s' : St} {op : Op} {o : Out} (hi : Inv s) (h : step s op = some (s', o)) :
    Inv s' := by
  rcases step_cases h with ⟨c, fee, _, h⟩ | ⟨c, id, v, _, h⟩ | ⟨c, id, _, h⟩ | ⟨c, id, _, h⟩ |
      ⟨hp, hb, _, _, hblk, _⟩
  · exact propose_inv hi h
  · exact vote_inv hi h
  · exact cancel_inv hi h
  · exact withdraw_inv hi h
  · constructor
    · rw [hb, hp]; exact hi.escrow
    · intro id p hg hw
      rw [get?_congr hp] at hg
      have := hi.wd_ended id p hg hw
      omega

theorem run_cons (s : St) (op : Op) (ops : List Op) :
    run s (op :: ops) = run (match step s op with | some (s', _) => s' | none => s) ops := rfl

theorem run_inv (ops : List Op) {s : St} (hi : Inv s) : Inv (run s ops) := by
  induction ops generalizing s with
  | nil => simpa [run] using hi
  | cons op ops ih =>
    rw [run_cons]
    cases hst : step s op with
    | none => exact ih hi
    | some r =>
      obtain ⟨s1, o⟩ := r
      exact ih (step_inv hi hst)

/-! ### a stored proposal only moves forward -/

/-- `p'` is a later version of the stored proposal `p` -/
structure Later (p p' : Proposal) : Prop where
  proposer : p'.proposer = p.proposer
  fee : p'.fee = p.fee
  minQuorum : p'.minQuorum = p.minQuorum
  delay : p'.delay = p.delay
  period : p'.period = p.period
  wpct : p'.wpct = p.wpct
  start : p'.start = p.start
  cleared : p.cleared = true → p'.cleared = true
  withdrawn : p.withdrawn = true → p'.withdrawn = true
  voters : ∀ u, u ∈ p.voters → u ∈ p'.voters
  quorum : p.quorum ≤ p'.quorum
  /-- the total-energy snapshot is frozen once the first vote has been counted -/
  snapshot : p.quorum ≠ 0 → p'.totalQuorum = p.totalQuorum

theorem Later.refl (p : Proposal) : Later p p :=
  ⟨rfl, rfl, rfl, rfl, rfl, rfl, rfl, id, id, fun _ h => h, Nat.le_refl _, fun _ => rfl⟩

theorem Later.trans {p q r : Proposal} (a : Later p q) (b : Later q r) : Later p r :=
  ⟨b.proposer.trans a.proposer, b.fee.trans a.fee, b.minQuorum.trans a.minQuorum,
   b.delay.trans a.delay, b.period.trans a.period, b.wpct.trans a.wpct, b.start.trans a.start,
   fun h => b.cleared (a.cleared h), fun h => b.withdrawn (a.withdrawn h),
   fun u h => b.voters u (a.voters u h), Nat.le_trans a.quorum b.quorum,
   fun h => (b.snapshot (by have := a.quorum; omega)).trans (a.snapshot h)⟩

theorem later_voted (p : Proposal) (t : Nat) (v : Vote) (e c : Nat) : Later p (voted p t v e c) := by
  obtain ⟨f1, f2, f3, f4, f5, f6, f7, f8, f9, f10, f11, f12⟩ := voted_frozen p t v e c
  refine ⟨f1, f2, f3, f4, f5, f6, f7, fun h => f8 ▸ h, fun h => f9 ▸ h, ?_, by omega, ?_⟩
  · intro u hu; rw [f10]; exact List.mem_append_left _ hu
  · intro hq; rw [f12, if_neg hq]

/-- every operation keeps every stored proposal, possibly in a later version -/
theorem step_later {s s' : St} {op : Op} {o : Out} (h : step s op = some (s', o))
    {id : Nat} {p : Proposal} (hg : s.get? id = some p) :
    ∃ p', s'.get? id = some p' ∧ Later p p' := by
  have setcase : ∀ (s0 : St) (id0 : Nat) (p0 q : Proposal), s0.get? id0 = some p0 →
      (∀ i, s0.get? i = s.get? i) → Later p0 q →
      ∃ p', (s0.set id0 q).get? id = some p' ∧ Later p p' := by
    intro s0 id0 p0 q hg0 hsame hl
    obtain ⟨h1, _, _⟩ := get?_eq_some hg0
    by_cases hid : id = id0
    · subst hid
      rw [hsame, hg] at hg0
      simp only [Option.some.injEq] at hg0
      subst hg0
      exact ⟨q, get?_set_same _ (by rw [hsame]; exact hg), hl⟩
    · exact ⟨p, by rw [get?_set_ne _ h1 hid, hsame]; exact hg, Later.refl p⟩
  rcases step_cases h with ⟨c, fee, _, h⟩ | ⟨c, id1, v, _, h⟩ | ⟨c, id1, _, h⟩ | ⟨c, id1, _, h⟩ |
      ⟨hp, _⟩
  · obtain ⟨_, _, _, _, _, _, rfl⟩ := propose_spec h
    exact ⟨p, get?_append_old _ hg, Later.refl p⟩
  · obtain ⟨p1, _, _, _, _, hg1, _, _, _, rfl⟩ := vote_spec h
    exact setcase s id1 p1 _ hg1 (fun _ => rfl) (later_voted _ _ _ _ _)
  · obtain ⟨p1, _, _, hg1, _, _, _, rfl⟩ := cancel_spec h
    exact setcase (refunded s _ _) id1 p1 _ hg1 (fun _ => rfl)
      ⟨rfl, rfl, rfl, rfl, rfl, rfl, rfl, fun _ => rfl, fun h => h, fun _ h => h, Nat.le_refl _, fun _ => rfl⟩
  · obtain ⟨p1, _, hg1, _, hcase⟩ := withdraw_spec h
    have hl : Later p1 { p1 with withdrawn := true } :=
      ⟨rfl, rfl, rfl, rfl, rfl, rfl, rfl, fun h => h, fun _ => rfl, fun _ h => h, Nat.le_refl _, fun _ => rfl⟩
    rcases hcase with ⟨_, _, _, _, rfl⟩ | ⟨_, _, _, _, _, rfl⟩
    · exact setcase (refunded s _ _) id1 p1 _ hg1 (fun _ => rfl) hl
    · exact setcase (refunded (burnedSt s _) _ _) id1 p1 _ hg1 (fun _ => rfl) hl
  · exact ⟨p, by rw [get?_congr hp]; exact hg, Later.refl p⟩

theorem step_block {s s' : St} {op : Op} {o : Out} (h : step s op = some (s', o)) :
    s.block ≤ s'.block := by
  rcases step_cases h with ⟨c, fee, _, h⟩ | ⟨c, id1, v, _, h⟩ | ⟨c, id1, _, h⟩ | ⟨c, id1, _, h⟩ |
      ⟨_, _, _, _, hb, _⟩
  · obtain ⟨_, _, _, _, _, _, rfl⟩ := propose_spec h; exact Nat.le_refl _
  · obtain ⟨_, _, _, _, _, _, _, _, _, rfl⟩ := vote_spec h; exact Nat.le_refl _
  · obtain ⟨_, _, _, _, _, _, _, rfl⟩ := cancel_spec h; exact Nat.le_refl _
  · obtain ⟨p1, _, _, _, hcase⟩ := withdraw_spec h
    rcases hcase with ⟨_, _, _, _, rfl⟩ | ⟨_, _, _, _, _, rfl⟩ <;> exact Nat.le_refl _
  · exact hb

theorem run_later (ops : List Op) {s : St} {id : Nat} {p : Proposal} (hg : s.get? id = some p) :
    ∃ p', (run s ops).get? id = some p' ∧ Later p p' ∧ s.block ≤ (run s ops).block := by
  induction ops generalizing s p with
  | nil => exact ⟨p, hg, Later.refl p, Nat.le_refl _⟩
  | cons op ops ih =>
    rw [run_cons]
    cases hst : step s op with
    | none => exact ih hg
    | some r =>
      obtain ⟨s1, o⟩ := r
      obtain ⟨p1, hg1, l1⟩ := step_later hst hg
      obtain ⟨p2, hg2, l2, hb⟩ := ih hg1
      exact ⟨p2, hg2, l1.trans l2, Nat.le_trans (step_block hst) hb⟩

end Mx.Gov
