/-
  The token created by `enterFarm` WITH extra farm-token payments (enter-and-merge): the fresh
  principal enters at the index settled to the entering block, so the merged token can claim, at
  every future index, no more than the fresh principal from NOW on plus what the merged-in
  positions could already claim.
-/
import MxModel.Lemmas.FarmPot

namespace Mx.Farm.EnterMerge
open Mx Mx.Farm

theorem check_attrs : ∀ (l : List (Nat × Nat)) {v v1 : PV} {user : Nat},
    v.check user l = some v1 → v1.attrs = v.attrs := by
  intro l
  induction l with
  | nil => intro v v1 user h; simp only [PV.check, Option.some.injEq] at h; rw [← h]
  | cons p rest ih =>
    intro v v1 user h
    obtain ⟨n, a⟩ := p
    simp only [PV.check, Option.bind_eq_bind, Option.bind_eq_some_iff] at h
    obtain ⟨att, _, h2⟩ := h
    have := ih h2
    rw [this]
    split <;> rfl

theorem enterCore_token_merge {s s' : St} {caller orig dst amt : Nat} {extra : List (Nat × Nat)} {o : Out}
    (h : enterCore s caller orig dst amt extra = some (s', o)) :
    ∃ a, s'.attrs o.nonce = some a ∧ a.amt = amt + paySum extra ∧ o.amt = a.amt ∧
      ∀ R, a.amt * (R - a.rps) ≤ amt * (R - s'.rps) + payPot s.attrs R extra := by
  simp only [enterCore, Option.bind_eq_bind, Option.bind_eq_some_iff, req_eq_some, Option.pure_def,
    Option.some.injEq, Prod.mk.injEq] at h
  obtain ⟨_, _, s0, h0, ⟨s1, boosted⟩, h1, s1', h1', _, hact, s2, h2, ⟨s4, c1⟩, h4, merged, hm,
    ⟨s5, n⟩, h5, s6, h6, s8, h8, s9, h9, rfl, rfl⟩ := h
  have a0 := takePayments_attrs h0
  have a1 : s1.attrs = s0.attrs :=
    congrArg PV.attrs (claimOnlyBoostedPayment_pv (s := addFarming s0 amt) h1)
  have a1' : s1'.attrs = s1.attrs := congrArg PV.attrs (payRewardIf_pv h1')
  have a2 : s2.attrs = s1'.attrs := check_attrs extra (checkAndUpdate_pv extra h2)
  have a4 : s4.attrs = s2.attrs := congrArg PV.attrs (generate_pv h4).1
  obtain ⟨_, hn, e5⟩ := createToken_spec h5
  have a5 : s5.attrs n = some merged := by rw [e5, hn]; simp
  have a6 : s6.attrs = s5.attrs := by obtain ⟨_, _, rfl⟩ := setFarmSupplyWeek_spec h6; rfl
  have a8 : s8.attrs = s6.attrs := (attrs_payRewardIf h8).trans rfl
  have a9 : s9.attrs = s8.attrs := by obtain ⟨_, rfl⟩ := updateEnergyAndProgress_spec h9; rfl
  have r9 : s9.rps = c1.rps := by
    have q := (updateEnergyAndProgress_rv h9).trans (payRewardIf_rv h8)
    exact congrArg RV.rps q
  have e44 : s4.attrs = s.attrs := by rw [a4]; exact a2.trans (a1'.trans (a1.trans a0))
  refine ⟨merged, ?_, ?_, rfl, ?_⟩
  · show s9.attrs n = some merged
    rw [a9, a8, a6]; exact a5
  · exact (mergeParts_amt extra hm).1
  · intro R
    have mp := mergeParts_pot extra R hm
    rw [e44] at mp
    rw [r9]
    exact mp

end Mx.Farm.EnterMerge
