/-
  C05, last clause, for EVERY legitimate caller (audit-session3 item 22).

  Lemmas/FarmLive.lean proves progress of `exitFarm` / `claimRewards` for a holder acting for himself
  (`opt = none`).  Here the caller `c` (who holds the position token and receives the new one) and the user
  `o` the endpoint acts for (boosted claim, reward payment / energy address, owner of the new token, energy
  clearing) are separate:

    * `exitFarm_gen_ok`, `claimCore_single_ok` — every guard / checked subtraction outside the weekly
      module is discharged by the invariants (same proof as for `c = o`);
    * `exitFarm_gen_always`, `claimCore_single_always` — with the weekly module's calls discharged too
      (`PM`, `WInv`, `WeekPos`);
    * `claimRewards_gen_always` (any `opt`), `claimRewardsOnBehalf_always` (hub-authorised agent);
    * `enterCore_fresh_always` — `enter_farm_base` with fresh farming tokens only (no extra position
      tokens), any caller / user / token receiver: `enterFarm` (any `opt`) and `enterFarmOnBehalf`.
-/
import MxModel.Lemmas.FarmWeekLive
import MxModel.Lemmas.AccessModelsFarm

namespace Mx.Farm

open Mx.Weekly (upd upd_same upd_other Energy ClaimProgress)

/-! ### exit -/

/-- **progress of `exitFarm` for ANY legitimate caller**: `c` holds the position, `o` is the user the
    endpoint acts for (`origCaller s c opt = some o`: `o = c` when `opt = none`, or `opt = some o` with
    `c` on the SC whitelist).  Generalises `exitFarm_ok` (where `c = o`, `opt = none`). -/
theorem exitFarm_gen_ok {s s1 s2 : St} {c1 : Cache} {c o n a boosted : Nat} {opt : Option Nat} {att : Attr}
    (hA : Acct s) (hP : PosInv s) (hK : PotInv s) (hI : PoolInv s) (hX : XInv s) (hd : s.dsc ≠ 0)
    (ho : origCaller s c opt = some o)
    (hact : s.active = true) (ha : a ≠ 0) (hle : a ≤ s.hold c n) (hat : s.attrs n = some att)
    (hg : generate s (Cache.read s) = some (s1, c1))
    (hb : claimBoostedYields s1 o = some (s2, boosted))
    (hc : (clearUserEnergyIfNeeded (decreaseOwner s2 att.owner a) o).isSome) :
    (exitFarm s c opt n a).isSome := by
  -- the payments
  have h0 := takePayments_single ha (by rw [hat]; rfl) hle
  generalize upd s.hold c (upd (s.hold c) n (s.hold c n - a)) = h' at h0
  obtain ⟨s0, hs0⟩ : ∃ x : St, x = { s with hold := h' } := ⟨_, rfl⟩
  obtain ⟨s1', hs1'⟩ : ∃ x : St, x = { s1 with hold := h' } := ⟨_, rfl⟩
  obtain ⟨s2', hs2'⟩ : ∃ x : St, x = { s2 with hold := h' } := ⟨_, rfl⟩
  rw [← hs0] at h0
  have h1 : generate s0 (Cache.read s0) = some (s1', c1) := by
    have : Cache.read s0 = Cache.read s := by rw [hs0]; rfl
    rw [this, hs0, generate_hold, hg, hs1']; rfl
  have h2 : claimBoostedYields s1' o = some (s2', boosted) := by
    rw [hs1', claimBoostedYields_hold, hb, hs2']; rfl
  have hact0 : s0.active = true := by rw [hs0]; exact hact
  have hat0 : s0.attrs n = some att := by rw [hs0]; exact hat
  have hd1 : s1'.dsc = s1.dsc := by rw [hs1']
  obtain ⟨hamt, hep⟩ := hX.1 n att hat
  obtain ⟨part, hpart⟩ := intoPart_ok a hamt
  obtain ⟨p1, p2, p3, _⟩ := intoPart_spec hpart
  -- reserve
  have hres := reward_le_reserve hA hP hK hI hd h0 h1 hat h2
  rw [← p2] at hres
  -- supply
  have hsup : part.amt ≤ c1.supply := by
    rw [p1, (generate_pv hg).2]
    exact held_le_supply hP ha hle
  -- the state after the boosted claim, with the owner's total decreased
  obtain ⟨s3, hs3⟩ : ∃ x : St, x = decreaseOwner s2' att.owner a := ⟨_, rfl⟩
  have x1 : xv s1 = xv s := generate_xv hg
  have x2 : xv s2 = xv s := (claimBoostedYields_xv hb).trans x1
  have x3 : xv s3 = xv s := by
    rw [hs3, hs2']
    show xv s2 = xv s
    exact x2
  have f1 : s1.firstWeekStart = s.firstWeekStart := by obtain ⟨_, rfl, _⟩ := generate_spec hg; rfl
  have f2 : s2.firstWeekStart = s.firstWeekStart := by
    obtain ⟨_, _, rfl⟩ := claimBoostedYields_struct hb; exact f1
  have f3 : s3.firstWeekStart = s.firstWeekStart := by
    rw [hs3, hs2']
    show s2.firstWeekStart = s.firstWeekStart
    exact f2
  have e3 : s3.epoch = s.epoch := congrArg XV.epoch x3
  have hT3 : s3.firstWeekStart ≤ s3.epoch := by rw [f3, e3]; exact hI.time
  have v1 : av s1 = _ := (generate_av hg).1
  have hc1 : c1.reserve = s.reserve + minted s := by rw [(generate_av hg).2]; rfl
  have v3 : av s3 = av s1 := by
    rw [hs3, hs2']
    show av s2 = av s1
    exact claimBoostedYields_av hb
  have k3 : s3.kind = s.kind := by
    rw [hs3, hs2']
    show s2.kind = s.kind
    exact (claimBoostedYields_kind hb).trans (generate_kind hg)
  have c3 : cev s3 = cev (decreaseOwner s2 att.owner a) := by rw [hs3, hs2']; rfl
  obtain ⟨s4, h4⟩ := setFarmSupplyWeek_ok (s := s3) (c1.supply - part.amt) hT3
  have x4 : xv s4 = xv s := (setFarmSupplyWeek_xv h4).trans x3
  have e4 : s4.epoch = s.epoch := congrArg XV.epoch x4
  have e4p : s4.penaltyPct = s.penaltyPct := congrArg XV.penaltyPct x4
  have hpe : part.epoch ≤ s4.epoch := by
    rw [p3, e4]; exact hep
  have hpp : s4.penaltyPct ≤ MAXPCT := by
    rw [e4p]; exact hX.2.1
  obtain ⟨pen, hpen, hpl⟩ := exitPenalty_ok (s := s4) part.amt part.epoch hpe hpp
  -- farming balance
  have v4 : av s4 = av s1 := (setFarmSupplyWeek_av h4).trans v3
  have hheld := held_le_supply hP ha hle
  have hprin := hA.prin
  have b4 : s4.balFarming = s.balFarming := by
    have := congrArg AV.balFarming v4
    have := congrArg AV.balFarming v1
    simp only [av] at *
    omega
  have hbf : part.amt ≤ s4.balFarming := by rw [b4, p1]; omega
  obtain ⟨s5, hs5⟩ : ∃ x : St, x = Cache.drop s4
      ⟨c1.reserve - (baseReward s1'.dsc c1.rps a part.rps + boosted), c1.rps, c1.supply - part.amt⟩ := ⟨_, rfl⟩
  have b5 : s5.balFarming = s4.balFarming := by rw [hs5]; rfl
  obtain ⟨s6, h6⟩ : ∃ s6, removeFarming s5 part.amt pen = some s6 := by
    unfold removeFarming
    have : sub? s5.balFarming part.amt = some (s5.balFarming - part.amt) := by
      simp [sub?, b5, hbf]
    simp only [Option.bind_eq_bind, this, Option.bind_some, Option.pure_def]
    exact ⟨_, rfl⟩
  -- the reward payment
  have k4 : s4.kind = s.kind := (setFarmSupplyWeek_kind h4).trans k3
  have k5 : s5.kind = s.kind := by rw [hs5]; exact k4
  have k6 : s6.kind = s.kind := (removeFarming_kind h6).trans k5
  have v6 := (removeFarming_av h6).2
  have x5 : xv s5 = xv s := by rw [hs5]; exact x4
  have x6 : xv s6 = xv s := (removeFarming_xv h6).trans x5
  have r5 : s5.balReward = s4.balReward := by rw [hs5]; rfl
  have l6 : s6.lockEpochs = s.lockEpochs := congrArg XV.lockEpochs x6
  obtain ⟨s7, h7⟩ := payReward_ok (s := s6) o (baseReward s1'.dsc c1.rps a part.rps) boosted
    (by
      intro hk
      rw [k6] at hk
      have hb' := hA.bal hk
      have q1 := congrArg AV.balReward v6
      have q2 := congrArg AV.balReward v4
      have q3 := congrArg AV.balReward v1
      simp only [av, hk, if_true] at q1 q2 q3
      omega)
    (by rw [l6]; exact hX.2.2)
  -- the energy clearing
  have c5 : cev s5 = cev s4 := by rw [hs5]; rfl
  have c7 : cev s7 = cev (decreaseOwner s2 att.owner a) :=
    (payReward_cev h7).trans ((removeFarming_cev h6).trans (c5.trans ((setFarmSupplyWeek_cev h4).trans c3)))
  have h8 : (clearUserEnergyIfNeeded s7 o).isSome := by
    rw [clearUserEnergyIfNeeded_congr o c7]; exact hc
  obtain ⟨s8, h8⟩ := Option.isSome_iff_exists.mp h8
  -- assemble
  unfold exitFarm
  refine isSome_bind (a := o) ho ?_
  refine isSome_bind h0 ?_
  refine isSome_bind (a := ()) (by simp [req, hact0]) ?_
  refine isSome_bind (a := att) hat0 ?_
  refine isSome_bind h1 ?_
  refine isSome_bind hpart ?_
  refine isSome_bind h2 ?_
  refine isSome_bind (a := c1.reserve - (baseReward s1'.dsc c1.rps a part.rps + boosted))
    (by simp [sub?, hres]) ?_
  refine isSome_bind (a := c1.supply - part.amt) (by simp [sub?, hsup]) ?_
  rw [← hs3]
  refine isSome_bind h4 ?_
  refine isSome_bind hpen ?_
  refine isSome_bind (a := part.amt - pen) (by simp [sub?, hpl]) ?_
  rw [← hs5]
  refine isSome_bind h6 ?_
  refine isSome_bind h7 ?_
  refine isSome_bind h8 ?_
  rfl

/-! ### claim -/

/-- **progress of `claim_rewards_base` + tail for ANY caller / user pair** (one payment): `c` holds the
    position and receives the new token, `o` is the user the rewards are computed for and paid to.
    Generalises `claimRewards_ok` (where `c = o`). -/
theorem claimCore_single_ok {s s1 s2 : St} {c1 : Cache} {c o n a boosted : Nat} {att : Attr}
    (hA : Acct s) (hP : PosInv s) (hK : PotInv s) (hI : PoolInv s) (hX : XInv s) (hd : s.dsc ≠ 0)
    (hact : s.active = true) (ha : a ≠ 0) (hle : a ≤ s.hold c n) (hat : s.attrs n = some att)
    (hg : generate s (Cache.read s) = some (s1, c1))
    (hb : claimBoostedYields s1 o = some (s2, boosted)) :
    (claimCore s c o [(n, a)] false).isSome := by
  have h0 := takePayments_single ha (by rw [hat]; rfl) hle
  generalize upd s.hold c (upd (s.hold c) n (s.hold c n - a)) = h' at h0
  obtain ⟨s0, hs0⟩ : ∃ x : St, x = { s with hold := h' } := ⟨_, rfl⟩
  obtain ⟨s1', hs1'⟩ : ∃ x : St, x = { s1 with hold := h' } := ⟨_, rfl⟩
  obtain ⟨s2', hs2'⟩ : ∃ x : St, x = { s2 with hold := h' } := ⟨_, rfl⟩
  rw [← hs0] at h0
  have h1 : generate s0 (Cache.read s0) = some (s1', c1) := by
    have : Cache.read s0 = Cache.read s := by rw [hs0]; rfl
    rw [this, hs0, generate_hold, hg, hs1']; rfl
  have h2 : claimBoostedYields s1' o = some (s2', boosted) := by
    rw [hs1', claimBoostedYields_hold, hb, hs2']; rfl
  have hact0 : s0.active = true := by rw [hs0]; exact hact
  have hat0 : s0.attrs n = some att := by rw [hs0]; exact hat
  obtain ⟨hamt, hep⟩ := hX.1 n att hat
  obtain ⟨part, hpart⟩ := intoPart_ok a hamt
  obtain ⟨p1, p2, p3, _⟩ := intoPart_spec hpart
  have hres := reward_le_reserve hA hP hK hI hd h0 h1 hat h2
  rw [← p2] at hres
  have x1 : xv s1 = xv s := generate_xv hg
  have x2 : xv s2 = xv s := (claimBoostedYields_xv hb).trans x1
  have x2' : xv s2' = xv s := by rw [hs2']; exact x2
  have f1 : s1.firstWeekStart = s.firstWeekStart := by obtain ⟨_, rfl, _⟩ := generate_spec hg; rfl
  have f2 : s2.firstWeekStart = s.firstWeekStart := by
    obtain ⟨_, _, rfl⟩ := claimBoostedYields_struct hb; exact f1
  have v1 : av s1 = _ := (generate_av hg).1
  have hc1 : c1.reserve = s.reserve + minted s := by rw [(generate_av hg).2]; rfl
  have v2' : av s2' = av s1 := by
    rw [hs2']
    show av s2 = av s1
    exact claimBoostedYields_av hb
  have k2' : s2'.kind = s.kind := by
    rw [hs2']
    show s2.kind = s.kind
    exact (claimBoostedYields_kind hb).trans (generate_kind hg)
  have a2' : s2'.attrs n = some att := by
    have : s2'.attrs = s.attrs := congrArg XV.attrs x2'
    rw [this]; exact hat
  obtain ⟨s3, h3⟩ := checkAndUpdate_single_ok (s := s2') (u := o) (n := n) (a := a) (by rw [a2']; rfl)
  have x3 : xv s3 = xv s := (checkAndUpdate_xv h3).trans x2'
  have v3 : av s3 = av s1 := (checkAndUpdate_av h3).trans v2'
  have k3 : s3.kind = s.kind := (checkAndUpdate_kind h3).trans k2'
  have f3 : s3.firstWeekStart = s.firstWeekStart := by
    obtain ⟨_, rfl⟩ := checkAndUpdate_spec _ h3
    rw [hs2']; exact f2
  obtain ⟨merged, hmerged⟩ : ∃ m : Attr, m = ⟨c1.rps, part.epoch, part.comp, part.amt, o⟩ := ⟨_, rfl⟩
  have hm0 : merged.amt ≠ 0 := by rw [hmerged]; show part.amt ≠ 0; rw [p1]; exact ha
  obtain ⟨s5, n5, h5⟩ : ∃ s5 n5, createToken s3 c merged = some (s5, n5) := by
    simp only [createToken, Option.bind_eq_bind, req, hm0, ne_eq, not_false_eq_true, if_true,
      Option.bind_some, Option.pure_def]
    exact ⟨_, _, rfl⟩
  have x5e : s5.epoch = s.epoch := by
    obtain ⟨_, _, rfl⟩ := createToken_spec h5
    exact congrArg XV.epoch x3
  have f5 : s5.firstWeekStart = s.firstWeekStart := by
    obtain ⟨_, _, rfl⟩ := createToken_spec h5
    exact f3
  have l5 : s5.lockEpochs = s.lockEpochs := by
    obtain ⟨_, _, rfl⟩ := createToken_spec h5
    exact congrArg XV.lockEpochs x3
  have v5 : av s5 = av s1 := (createToken_av h5).trans v3
  have k5 : s5.kind = s.kind := (createToken_kind h5).trans k3
  obtain ⟨s6, h6⟩ := setFarmSupplyWeek_ok (s := s5) c1.supply (by rw [f5, x5e]; exact hI.time)
  have v6 : av s6 = av s1 := (setFarmSupplyWeek_av h6).trans v5
  have k6 : s6.kind = s.kind := (setFarmSupplyWeek_kind h6).trans k5
  have l6 : s6.lockEpochs = s.lockEpochs := by
    obtain ⟨_, _, rfl⟩ := setFarmSupplyWeek_spec h6
    exact l5
  obtain ⟨s7, hs7⟩ : ∃ x : St, x = Cache.drop s6
      ⟨c1.reserve - (baseReward s1'.dsc c1.rps a part.rps + boosted), c1.rps, c1.supply⟩ := ⟨_, rfl⟩
  have k7 : s7.kind = s.kind := by rw [hs7]; exact k6
  have r7 : s7.balReward = s6.balReward := by rw [hs7]; rfl
  have l7 : s7.lockEpochs = s.lockEpochs := by rw [hs7]; exact l6
  obtain ⟨s8, h8⟩ := payReward_ok (s := s7) o (baseReward s1'.dsc c1.rps a part.rps) boosted
    (by
      intro hk
      rw [k7] at hk
      have hb' := hA.bal hk
      have q2 := congrArg AV.balReward v6
      have q3 := congrArg AV.balReward v1
      simp only [av, hk, if_true] at q2 q3
      omega)
    (by rw [l7]; exact hX.2.2)
  -- assemble
  unfold claimCore
  refine isSome_bind (a := (n, a)) rfl ?_
  refine isSome_bind h0 ?_
  refine isSome_bind (a := ()) (by simp [req, hact0]) ?_
  refine isSome_bind (a := ()) (by simp [req]) ?_
  refine isSome_bind (a := att) hat0 ?_
  refine isSome_bind h1 ?_
  refine isSome_bind hpart ?_
  refine isSome_bind h2 ?_
  refine isSome_bind (a := c1.reserve - (baseReward s1'.dsc c1.rps a part.rps + boosted))
    (by simp [sub?, hres]) ?_
  refine isSome_bind h3 ?_
  refine isSome_bind (a := merged) (by rw [hmerged]; rfl) ?_
  refine isSome_bind (a := (s5, n5)) h5 ?_
  refine isSome_bind (a := s6) h6 ?_
  refine isSome_bind (a := s8) (by rw [hs7] at h8; exact h8) ?_
  rfl

/-! ### with the weekly module discharged -/

/-- **whoever holds the position can exit with it, for whichever user the call is legitimately made** -/
theorem exitFarm_gen_always {s : St} {W c o n a : Nat} {opt : Option Nat} (hA : Acct s) (hPos : PosInv s)
    (hK : PotInv s) (hI : PoolInv s) (hX : XInv s) (hd : s.dsc ≠ 0) (hP : PM s W) (hWI : WInv s)
    (hWP : WeekPos s) (ho : origCaller s c opt = some o)
    (hact : s.active = true) (ha : a ≠ 0) (hle : a ≤ s.hold c n) :
    (exitFarm s c opt n a).isSome = true := by
  have hne : s.hold c n ≠ 0 := by omega
  obtain ⟨_, _, hsome⟩ := hPos.dom c n hne
  obtain ⟨att, hat⟩ := Option.isSome_iff_exists.mp hsome
  obtain ⟨s1, c1, hg⟩ := generate_ok (s := s) (Cache.read s) hI.time hI.pct
  have p1 : PM s1 W := hP.of_view (generate_pmv hg)
  have wi1 : WInv s1 := hWI.of_w (generate_w hg)
  have wp1 : WeekPos s1 := hWP.of_wv (generate_wv hg).1
  obtain ⟨⟨s2, boosted⟩, hb⟩ := Option.isSome_iff_exists.mp (claimBoostedYields_ok p1 wi1 wp1 o)
  obtain ⟨p2, _⟩ := claimBoostedYields_pm p1 wi1 wp1 hb
  have wi2 := claimBoostedYields_winv wi1 hb
  have p3 : PM (decreaseOwner s2 att.owner a) W := by
    apply p2.setTotal
    intro x
    left
    show upd s2.userTotal att.owner _ x ≤ _
    by_cases hx : x = att.owner
    · subst hx; rw [Weekly.upd_same]; exact Nat.sub_le _ _
    · rw [Weekly.upd_other _ _ hx]
  have wi3 : WInv (decreaseOwner s2 att.owner a) := wi2.of_w rfl
  exact exitFarm_gen_ok hA hPos hK hI hX hd ho hact ha hle hat hg hb (clearUserEnergyIfNeeded_ok p3 wi3 o)

/-- **the claim core succeeds for any holder `c` and any user `o`** (one payment) -/
theorem claimCore_single_always {s : St} {W c o n a : Nat} (hA : Acct s) (hPos : PosInv s) (hK : PotInv s)
    (hI : PoolInv s) (hX : XInv s) (hd : s.dsc ≠ 0) (hP : PM s W) (hWI : WInv s) (hWP : WeekPos s)
    (hact : s.active = true) (ha : a ≠ 0) (hle : a ≤ s.hold c n) :
    (claimCore s c o [(n, a)] false).isSome = true := by
  have hne : s.hold c n ≠ 0 := by omega
  obtain ⟨_, _, hsome⟩ := hPos.dom c n hne
  obtain ⟨att, hat⟩ := Option.isSome_iff_exists.mp hsome
  obtain ⟨s1, c1, hg⟩ := generate_ok (s := s) (Cache.read s) hI.time hI.pct
  have p1 : PM s1 W := hP.of_view (generate_pmv hg)
  have wi1 : WInv s1 := hWI.of_w (generate_w hg)
  have wp1 : WeekPos s1 := hWP.of_wv (generate_wv hg).1
  obtain ⟨⟨s2, boosted⟩, hb⟩ := Option.isSome_iff_exists.mp (claimBoostedYields_ok p1 wi1 wp1 o)
  exact claimCore_single_ok hA hPos hK hI hX hd hact ha hle hat hg hb

/-- `claimRewards(opt_orig_caller)` of one payment: any legitimate `opt` -/
theorem claimRewards_gen_always {s : St} {W c o n a : Nat} {opt : Option Nat} (hA : Acct s) (hPos : PosInv s)
    (hK : PotInv s) (hI : PoolInv s) (hX : XInv s) (hd : s.dsc ≠ 0) (hP : PM s W) (hWI : WInv s)
    (hWP : WeekPos s) (ho : origCaller s c opt = some o)
    (hact : s.active = true) (ha : a ≠ 0) (hle : a ≤ s.hold c n) :
    (claimRewards s c opt [(n, a)]).isSome = true := by
  unfold claimRewards
  exact isSome_bind ho (claimCore_single_always hA hPos hK hI hX hd hP hWI hWP hact ha hle)

/-- `claimRewardsOnBehalf` with one payment: the agent `c` holds the position, the hub authorises `c`
    for the position's recorded owner -/
theorem claimRewardsOnBehalf_always {s : St} {W c n a : Nat} {att : Attr} (hA : Acct s) (hPos : PosInv s)
    (hK : PotInv s) (hI : PoolInv s) (hX : XInv s) (hd : s.dsc ≠ 0) (hP : PM s W) (hWI : WInv s)
    (hWP : WeekPos s) (hat : s.attrs n = some att) (hhub : hubAllows s att.owner c = true)
    (hact : s.active = true) (ha : a ≠ 0) (hle : a ≤ s.hold c n) :
    (claimRewardsOnBehalf s c [(n, a)]).isSome = true := by
  unfold claimRewardsOnBehalf
  refine isSome_bind (takePayments_single ha (by rw [hat]; rfl) hle) ?_
  refine isSome_bind (a := att.owner) (by simp [claimOwner, hat]) ?_
  refine isSome_bind (a := ()) (by simp [req, hhub]) ?_
  exact claimCore_single_always hA hPos hK hI hX hd hP hWI hWP hact ha hle

/-- `origCaller` for a whitelisted contract -/
theorem origCaller_some {s : St} {c o : Nat} (h : c ∈ s.scWl) : origCaller s c (some o) = some o := by
  simp [origCaller, req, h]

theorem origCaller_none (s : St) (c : Nat) : origCaller s c none = some c := rfl

/-! ### the guards of the three endpoints, read off a successful call -/

theorem exitFarm_guards {s : St} {c : Nat} {opt : Option Nat} {n a : Nat} {r : St × Out}
    (h : exitFarm s c opt n a = some r) :
    s.active = true ∧ a ≠ 0 ∧ a ≤ s.hold c n ∧ (opt = none ∨ c ∈ s.scWl) := by
  unfold exitFarm at h
  replace h := bpeel h; obtain ⟨orig, ho, h⟩ := h
  replace h := bpeel h; obtain ⟨s0, h0, h⟩ := h
  replace h := bpeel h; obtain ⟨_, hact, _⟩ := h
  replace hact := (req_eq_some _).mp hact
  obtain ⟨h1, _, h3⟩ := takePayments_cons h0
  refine ⟨by rw [← takePayments_active h0]; exact hact, h1, h3, ?_⟩
  rcases origCaller_spec ho with ⟨e, _⟩ | ⟨_, hw⟩
  · exact Or.inl e
  · exact Or.inr hw

theorem claimCore_single_guards {s : St} {c o n a : Nat} {cmp : Bool} {r : St × Out}
    (h : claimCore s c o [(n, a)] cmp = some r) : s.active = true ∧ a ≠ 0 ∧ a ≤ s.hold c n := by
  have hact := claimCore_needs_active h
  unfold claimCore at h
  replace h := bpeel h; obtain ⟨⟨n1, a1⟩, _, h⟩ := h
  replace h := bpeel h; obtain ⟨s0, h0, _⟩ := h
  obtain ⟨h1, _, h3⟩ := takePayments_cons h0
  exact ⟨hact, h1, h3⟩

theorem claimRewards_guards {s : St} {c : Nat} {opt : Option Nat} {n a : Nat} {r : St × Out}
    (h : claimRewards s c opt [(n, a)] = some r) :
    s.active = true ∧ a ≠ 0 ∧ a ≤ s.hold c n ∧ (opt = none ∨ c ∈ s.scWl) := by
  obtain ⟨orig, ho, hc⟩ := claimRewards_spec h
  obtain ⟨h1, h2, h3⟩ := claimCore_single_guards hc
  refine ⟨h1, h2, h3, ?_⟩
  rcases origCaller_spec ho with ⟨e, _⟩ | ⟨_, hw⟩
  · exact Or.inl e
  · exact Or.inr hw

theorem claimRewardsOnBehalf_guards {s : St} {c n a : Nat} {r : St × Out}
    (h : claimRewardsOnBehalf s c [(n, a)] = some r) :
    s.active = true ∧ a ≠ 0 ∧ a ≤ s.hold c n ∧
      ∃ att, s.attrs n = some att ∧ hubAllows s att.owner c = true := by
  obtain ⟨u, hu, hh, hc⟩ := claimRewardsOnBehalf_spec h
  obtain ⟨h1, h2, h3⟩ := claimCore_single_guards hc
  refine ⟨h1, h2, h3, ?_⟩
  simp only [claimOwner, Option.bind_eq_bind, Option.bind_eq_some_iff, Option.pure_def,
    Option.some.injEq] at hu
  obtain ⟨att, hat, rfl⟩ := hu
  exact ⟨att, hat, hh⟩

/-! ### enter with fresh farming tokens -/

theorem payRewardIf_ok {s : St} (k : Kind) (u boosted : Nat)
    (hbal : s.kind = .mint → k = .mint → boosted ≤ s.balReward) (hl : s.lockEpochs = 360) :
    ∃ s', payRewardIf s k u 0 boosted = some s' := by
  unfold payRewardIf
  split
  · rename_i hk
    exact payReward_ok u 0 boosted
      (fun hm => by rw [Nat.zero_add]; exact hbal hm (hk.symm.trans hm)) hl
  · exact ⟨s, rfl⟩

theorem claimOnlyBoostedPayment_ok {s sB : St} {u boosted : Nat}
    (hb : claimBoostedYields s u = some (sB, boosted)) (hres : boosted ≤ s.reserve) :
    ∃ s1, claimOnlyBoostedPayment s u = some (s1, boosted) := by
  have e : sB.reserve = s.reserve := congrArg AV.reserve (claimBoostedYields_av hb)
  unfold claimOnlyBoostedPayment
  simp only [Option.bind_eq_bind, hb, Option.bind_some]
  by_cases h0 : boosted = 0
  · subst h0; exact ⟨sB, by simp⟩
  · have : sub? sB.reserve boosted = some (sB.reserve - boosted) := by
      simp [sub?, e, hres]
    exact ⟨{ sB with reserve := sB.reserve - boosted }, by simp [h0, this]⟩

theorem farm_updateEnergyAndProgress_ok {s : St} {W : Nat} (hP : PM s W) (hWI : WInv s) (u : Nat) :
    (updateEnergyAndProgress s u).isSome = true := by
  have hWk : s.week = some W := hP.week
  obtain ⟨g1, hg1⟩ := Option.isSome_iff_exists.mp
    (weekly_update_ok hP hWI u (Energy.queried (s.energy u) s.epoch))
  simp only [updateEnergyAndProgress, Weekly.updateEnergyAndProgress, hWk, hg1, Option.bind_eq_bind,
    Option.bind_some, Option.pure_def, Option.isSome_some]

/-- **`enter_farm_base` with fresh farming tokens cannot fail** (no extra position tokens): any payer
    `caller`, any user `orig` the position is recorded for, any receiver of the new token -/
theorem enterCore_fresh_always {s : St} {W caller orig tokenTo amt : Nat}
    (hA : Acct s) (hK : PotInv s) (hI : PoolInv s) (hX : XInv s) (hd : s.dsc ≠ 0)
    (hP : PM s W) (hWI : WInv s) (hWP : WeekPos s) (hact : s.active = true) (ha : amt ≠ 0) :
    (enterCore s caller orig tokenTo amt []).isSome = true := by
  -- the boosted claim on the state with the farming tokens received
  have p0 : PM (addFarming s amt) W := hP.of_view rfl
  have wi0 : WInv (addFarming s amt) := hWI.of_w rfl
  have wp0 : WeekPos (addFarming s amt) := hWP.of_wv rfl
  have hI0 : PoolInv (addFarming s amt) := hI.of_view rfl
  obtain ⟨⟨sB, boosted⟩, hb⟩ := Option.isSome_iff_exists.mp (claimBoostedYields_ok p0 wi0 wp0 orig)
  have hres : boosted ≤ (addFarming s amt).reserve :=
    boosted_le_of_cov hI0 (cov_of_gen hI0 hA.res hA.split) (hK.paidBase_le hd) hb
  obtain ⟨s1, h1⟩ := claimOnlyBoostedPayment_ok hb hres
  obtain ⟨p1, st1⟩ := claimOnlyBoostedPayment_pm p0 wi0 wp0 h1
  have wi1 := claimOnlyBoostedPayment_winv wi0 h1
  have x1 : xv s1 = xv s := (claimOnlyBoostedPayment_xv h1).trans rfl
  have k1 : s1.kind = s.kind := (claimOnlyBoostedPayment_kind h1).trans rfl
  have r1 : rv s1 = rv s := (claimOnlyBoostedPayment_rv h1).trans rfl
  have a1 : s1.active = s.active := (claimOnlyBoostedPayment_active h1).trans rfl
  obtain ⟨_, v1⟩ := claimOnlyBoostedPayment_av h1
  -- fwlr: the boosted part is locked first
  obtain ⟨s1', h1'⟩ := payRewardIf_ok (s := s1) .noMint orig boosted (fun _ hk => by cases hk)
    (by have e : s1.lockEpochs = s.lockEpochs := congrArg XV.lockEpochs x1
        rw [e]; exact hX.2.2)
  have p1' := p1.of_view (payRewardIf_pmv h1')
  have st1' := st1.of_view (payRewardIf_pmv h1')
  have wi1' := wi1.of_w (payRewardIf_w h1')
  have x1' : xv s1' = xv s := (payRewardIf_xv h1').trans x1
  have k1' : s1'.kind = s.kind := (payRewardIf_kind h1').trans k1
  have r1' : rv s1' = rv s := (payRewardIf_rv h1').trans r1
  have a1' : s1'.active = true := by rw [payRewardIf_active h1', a1]; exact hact
  obtain ⟨x, br, hx, v1', hbm, _⟩ := payRewardIf_av h1'
  have hT1 : s1'.firstWeekStart ≤ s1'.epoch := (week_eq_some.mp p1'.week).1
  have hp1 : s1'.pct ≤ MAXPCT := by
    have e : s1'.pct = s.pct := congrArg RV.pct r1'
    rw [e]; exact hI.pct
  -- the settlement
  have h2 : checkAndUpdate s1' orig [] = some s1' := rfl
  obtain ⟨p2, st2⟩ := checkAndUpdate_pm p1' st1' h2
  have p3 : PM (increaseUser s1' orig amt) W :=
    p2.bump st2 (fun x hx => by
      show upd s1'.userTotal orig _ x ≤ _
      rw [upd_other _ _ hx])
  obtain ⟨s4, c1, h4⟩ := generate_ok (s := increaseUser s1' orig amt) (Cache.read s1') hT1 hp1
  have p4 : PM s4 W := p3.of_view (generate_pmv h4)
  have wi4 : WInv s4 := wi1'.of_w (generate_w (s := increaseUser s1' orig amt) h4)
  have x4 : xv s4 = xv s := (generate_xv h4).trans x1'
  have k4 : s4.kind = s.kind := (generate_kind h4).trans k1'
  have v4 := (generate_av h4).1
  -- the new token
  obtain ⟨base, hbase⟩ : ∃ m : Attr, m = ⟨c1.rps, s4.epoch, 0, amt, orig⟩ := ⟨_, rfl⟩
  have hm0 : base.amt ≠ 0 := by rw [hbase]; exact ha
  obtain ⟨s5, n5, h5⟩ : ∃ s5 n5, createToken s4 tokenTo base = some (s5, n5) := by
    simp only [createToken, Option.bind_eq_bind, req, hm0, ne_eq, not_false_eq_true, if_true,
      Option.bind_some, Option.pure_def]
    exact ⟨_, _, rfl⟩
  have p5 : PM s5 W := p4.of_view (createToken_pmv h5)
  have wi5 := wi4.of_w (createToken_w h5)
  have k5 : s5.kind = s.kind := (createToken_kind h5).trans k4
  have v5 : av s5 = av s4 := createToken_av h5
  have l5 : s5.lockEpochs = s.lockEpochs := by
    obtain ⟨_, _, rfl⟩ := createToken_spec h5
    exact congrArg XV.lockEpochs x4
  have hT5 : s5.firstWeekStart ≤ s5.epoch := (week_eq_some.mp p5.week).1
  obtain ⟨s6, h6⟩ := setFarmSupplyWeek_ok (s := s5) (c1.supply + amt) hT5
  have p6 := setFarmSupplyWeek_pm p5 h6
  have wi6 := wi5.of_w (setFarmSupplyWeek_w h6)
  have k6 : s6.kind = s.kind := (setFarmSupplyWeek_kind h6).trans k5
  have v6 : av s6 = av s4 := (setFarmSupplyWeek_av h6).trans v5
  have l6 : s6.lockEpochs = s.lockEpochs := by
    obtain ⟨_, _, rfl⟩ := setFarmSupplyWeek_spec h6
    exact l5
  obtain ⟨s7, hs7⟩ : ∃ x : St, x = Cache.drop s6 ⟨c1.reserve, c1.rps, c1.supply + amt⟩ := ⟨_, rfl⟩
  have p7 : PM s7 W := by rw [hs7]; exact p6.of_view rfl
  have wi7 : WInv s7 := by rw [hs7]; exact wi6.of_w rfl
  have k7 : s7.kind = s.kind := by rw [hs7]; exact k6
  have l7 : s7.lockEpochs = s.lockEpochs := by rw [hs7]; exact l6
  have b7 : s7.balReward = s6.balReward := by rw [hs7]; rfl
  -- farm: the boosted part is sent now
  obtain ⟨s8, h8⟩ := payRewardIf_ok (s := s7) .mint orig boosted
    (by
      intro hk _
      rw [k7] at hk
      have hb' := hA.bal hk
      have hk1 : s1.kind = .mint := by rw [k1]; exact hk
      have hx0 : x = 0 := by
        rcases hx with ⟨_, h⟩ | ⟨h, _⟩
        · rw [hk1] at h; cases h
        · exact h
      have q6 := congrArg AV.balReward v6
      have q4 := congrArg AV.balReward v4
      have q1' := congrArg AV.balReward v1'
      have q1 := congrArg AV.balReward v1
      have hbr := (hbm hk1).2
      have hres' : boosted ≤ s.reserve := hres
      have kk : (increaseUser s1' orig amt).kind = .mint := by
        show s1'.kind = .mint
        rw [k1']; exact hk
      simp only [av, kk, if_true] at q6 q4 q1' q1
      have e1 : (increaseUser s1' orig amt).balReward = s1'.balReward := rfl
      have e2 : (addFarming s amt).balReward = s.balReward := rfl
      omega)
    (by rw [l7]; exact hX.2.2)
  have p8 : PM s8 W := p7.of_view (payRewardIf_pmv h8)
  have wi8 : WInv s8 := wi7.of_w (payRewardIf_w h8)
  obtain ⟨s9, h9⟩ := Option.isSome_iff_exists.mp (farm_updateEnergyAndProgress_ok p8 wi8 orig)
  -- assemble
  unfold enterCore
  refine isSome_bind (a := ()) (by simp [req, ha]) ?_
  refine isSome_bind (a := s) rfl ?_
  refine isSome_bind h1 ?_
  refine isSome_bind h1' ?_
  refine isSome_bind (a := ()) (by simp [req, a1']) ?_
  refine isSome_bind h2 ?_
  refine isSome_bind h4 ?_
  refine isSome_bind (a := base) (by rw [hbase]; rfl) ?_
  refine isSome_bind h5 ?_
  refine isSome_bind h6 ?_
  refine isSome_bind (a := s8) (by rw [hs7] at h8; exact h8) ?_
  refine isSome_bind h9 ?_
  rfl

/-- `enterFarm(opt_orig_caller)` with fresh farming tokens: any legitimate `opt` -/
theorem enterFarm_fresh_always {s : St} {W c o amt : Nat} {opt : Option Nat}
    (hA : Acct s) (hK : PotInv s) (hI : PoolInv s) (hX : XInv s) (hd : s.dsc ≠ 0)
    (hP : PM s W) (hWI : WInv s) (hWP : WeekPos s) (ho : origCaller s c opt = some o)
    (hact : s.active = true) (ha : amt ≠ 0) : (enterFarm s c opt amt []).isSome = true := by
  unfold enterFarm
  exact isSome_bind ho (enterCore_fresh_always hA hK hI hX hd hP hWI hWP hact ha)

/-- `enterFarmOnBehalf(user)` with fresh farming tokens by a hub-authorised agent -/
theorem enterFarmOnBehalf_fresh_always {s : St} {W c u amt : Nat}
    (hA : Acct s) (hK : PotInv s) (hI : PoolInv s) (hX : XInv s) (hd : s.dsc ≠ 0)
    (hP : PM s W) (hWI : WInv s) (hWP : WeekPos s) (hhub : hubAllows s u c = true)
    (hact : s.active = true) (ha : amt ≠ 0) : (enterFarmOnBehalf s c u amt []).isSome = true := by
  unfold enterFarmOnBehalf
  refine isSome_bind (a := ()) (by simp [req, hhub]) ?_
  refine isSome_bind (a := ()) (by simp [req, allOwnedBy]) ?_
  exact enterCore_fresh_always hA hK hI hX hd hP hWI hWP hact ha

theorem enterCore_guards {s : St} {caller orig tokenTo amt : Nat} {extra : List (Nat × Nat)}
    {r : St × Out} (h : enterCore s caller orig tokenTo amt extra = some r) :
    s.active = true ∧ amt ≠ 0 := by
  refine ⟨enterCore_needs_active h, ?_⟩
  unfold enterCore at h
  replace h := bpeel h; obtain ⟨_, ha, _⟩ := h
  exact (req_eq_some _).mp ha

theorem enterFarm_guards {s : St} {c : Nat} {opt : Option Nat} {amt : Nat} {extra : List (Nat × Nat)}
    {r : St × Out} (h : enterFarm s c opt amt extra = some r) :
    s.active = true ∧ amt ≠ 0 ∧ (opt = none ∨ c ∈ s.scWl) := by
  obtain ⟨orig, ho, hc⟩ := enterFarm_spec h
  obtain ⟨h1, h2⟩ := enterCore_guards hc
  refine ⟨h1, h2, ?_⟩
  rcases origCaller_spec ho with ⟨e, _⟩ | ⟨_, hw⟩
  · exact Or.inl e
  · exact Or.inr hw

theorem enterFarmOnBehalf_guards {s : St} {c u amt : Nat} {extra : List (Nat × Nat)} {r : St × Out}
    (h : enterFarmOnBehalf s c u amt extra = some r) :
    s.active = true ∧ amt ≠ 0 ∧ hubAllows s u c = true := by
  obtain ⟨hh, _, hc⟩ := enterFarmOnBehalf_spec h
  obtain ⟨h1, h2⟩ := enterCore_guards hc
  exact ⟨h1, h2, hh⟩

/-! ### claimBoostedRewards -/

/-- **`claimBoostedRewards` cannot fail for a user with a farm position** -/
theorem claimBoostedRewards_always {s : St} {W c : Nat} {optUser : Option Nat} (hA : Acct s)
    (hPos : PosInv s) (hK : PotInv s) (hI : PoolInv s) (hX : XInv s) (hd : s.dsc ≠ 0) (hP : PM s W)
    (hWI : WInv s) (hWP : WeekPos s) (hu : optUser.getD c = c) (ht : s.userTotal c ≠ 0)
    (hact : s.active = true) : (claimBoostedRewards s c optUser).isSome = true := by
  obtain ⟨s1, c1, hg⟩ := generate_ok (s := s) (Cache.read s) hI.time hI.pct
  have p1 : PM s1 W := hP.of_view (generate_pmv hg)
  have wi1 : WInv s1 := hWI.of_w (generate_w hg)
  have wp1 : WeekPos s1 := hWP.of_wv (generate_wv hg).1
  obtain ⟨⟨s2, boosted⟩, hb⟩ := Option.isSome_iff_exists.mp (claimBoostedYields_ok p1 wi1 wp1 c)
  have hres : boosted ≤ c1.reserve := boosted_le_reserve hA hPos hK hI hd hg hb
  obtain ⟨p2, _⟩ := claimBoostedYields_pm p1 wi1 wp1 hb
  have hT2 : s2.firstWeekStart ≤ s2.epoch := (week_eq_some.mp p2.week).1
  obtain ⟨s3, h3⟩ := setFarmSupplyWeek_ok (s := s2) c1.supply hT2
  have x3 : xv s3 = xv s :=
    (setFarmSupplyWeek_xv h3).trans ((claimBoostedYields_xv hb).trans (generate_xv hg))
  have k3 : s3.kind = s.kind :=
    (setFarmSupplyWeek_kind h3).trans ((claimBoostedYields_kind hb).trans (generate_kind hg))
  have v3 : av s3 = av s1 := (setFarmSupplyWeek_av h3).trans (claimBoostedYields_av hb)
  have v1 := (generate_av hg).1
  have hc1 : c1.reserve = s.reserve + minted s := by rw [(generate_av hg).2]; rfl
  have l3 : s3.lockEpochs = s.lockEpochs := congrArg XV.lockEpochs x3
  obtain ⟨s4, h4⟩ := payReward_ok (s := s3) c 0 boosted
    (by
      intro hk
      rw [k3] at hk
      have hb' := hA.bal hk
      have q3 := congrArg AV.balReward v3
      have q1 := congrArg AV.balReward v1
      simp only [av, hk, if_true] at q3 q1
      omega)
    (by rw [l3]; exact hX.2.2)
  unfold claimBoostedRewards
  simp only [hu]
  refine isSome_bind (a := ()) (by simp [req]) ?_
  refine isSome_bind (a := ()) (by simp [req, ht]) ?_
  refine isSome_bind (a := ()) (by simp [req, hact]) ?_
  refine isSome_bind hg ?_
  refine isSome_bind hb ?_
  refine isSome_bind (a := c1.reserve - boosted) (by simp [sub?, hres]) ?_
  refine isSome_bind h3 ?_
  refine isSome_bind h4 ?_
  rfl

theorem claimBoostedRewards_guards {s : St} {c : Nat} {optUser : Option Nat} {r : St × Out}
    (h : claimBoostedRewards s c optUser = some r) :
    s.active = true ∧ optUser.getD c = c ∧ s.userTotal c ≠ 0 := by
  simp only [claimBoostedRewards, Option.bind_eq_bind, Option.bind_eq_some_iff, req_eq_some,
    Option.pure_def] at h
  obtain ⟨_, h1, _, h2, _, h3, _⟩ := h
  rw [h1] at h2
  exact ⟨h3, h1, h2⟩

/-! ### any accepted list of payments -/

/-- every payment of an accepted multi-transfer is a non-zero amount of an existing position token -/
theorem takePayments_all : ∀ (l : List (Nat × Nat)) {s s' : St} {c : Nat},
    takePayments s c l = some s' → ∀ p ∈ l, p.2 ≠ 0 ∧ (s.attrs p.1).isSome := by
  intro l
  induction l with
  | nil => intro s s' c _ p hp; cases hp
  | cons q rest ih =>
    intro s s' c h p hp
    obtain ⟨n, a⟩ := q
    simp only [takePayments, Option.bind_eq_bind, Option.bind_eq_some_iff, req_eq_some,
      sub?_eq_some] at h
    obtain ⟨_, h1, _, h2, hh, _, h3⟩ := h
    rcases List.mem_cons.mp hp with rfl | hp'
    · exact ⟨h1, h2⟩
    · exact ih h3 p hp'

theorem checkAndUpdate_ok : ∀ (l : List (Nat × Nat)) (s : St) (u : Nat),
    (∀ p ∈ l, (s.attrs p.1).isSome) → ∃ s', checkAndUpdate s u l = some s' := by
  intro l
  induction l with
  | nil => intro s u _; exact ⟨s, rfl⟩
  | cons q rest ih =>
    intro s u h
    obtain ⟨n, a⟩ := q
    obtain ⟨att, hat⟩ := Option.isSome_iff_exists.mp (h (n, a) List.mem_cons_self)
    simp only [checkAndUpdate, Option.bind_eq_bind, hat, Option.bind_some]
    apply ih
    intro p hp
    have := h p (List.mem_cons_of_mem _ hp)
    by_cases ho : att.owner ≠ u
    · rw [if_pos ho]; exact this
    · rw [if_neg ho]; exact this

theorem mergeParts_ok : ∀ (l : List (Nat × Nat)) (s : St) (base : Attr),
    (∀ p ∈ l, p.2 ≠ 0 ∧ ∃ att, s.attrs p.1 = some att ∧ att.amt ≠ 0) →
    ∃ m, mergeParts s base l = some m := by
  intro l
  induction l with
  | nil => intro s base _; exact ⟨base, rfl⟩
  | cons q rest ih =>
    intro s base h
    obtain ⟨n, a⟩ := q
    obtain ⟨ha, att, hat, hamt⟩ := h (n, a) List.mem_cons_self
    obtain ⟨part, hpart⟩ := intoPart_ok a hamt
    obtain ⟨p1, _⟩ := intoPart_spec hpart
    have hne : base.amt + part.amt ≠ 0 := by simp only at ha; omega
    obtain ⟨m, hm⟩ : ∃ m, base.mergeWith part = some m := by
      simp only [Attr.mergeWith, Option.bind_eq_bind, req, hne, ne_eq, not_false_eq_true, if_true,
        Option.bind_some, Option.pure_def]
      exact ⟨_, rfl⟩
    obtain ⟨m', hm'⟩ := ih s m (fun p hp => h p (List.mem_cons_of_mem _ hp))
    exact ⟨m', by simp only [mergeParts, Option.bind_eq_bind, hat, hpart, hm, Option.bind_some, hm']⟩

/-- **progress of the claim core for ANY list of payments**: `c` sends the payments `(n, a) :: l` (the ESDT
    multi-transfer is accepted: `takePayments` succeeds), `o` is the user the call acts for -/
theorem claimCore_list_ok {s s1 s2 : St} {c1 : Cache} {c o n a boosted : Nat} {l : List (Nat × Nat)} {att : Attr}
    (hA : Acct s) (hP : PosInv s) (hK : PotInv s) (hI : PoolInv s) (hX : XInv s) (hd : s.dsc ≠ 0)
    (hact : s.active = true) (h0' : (takePayments s c ((n, a) :: l)).isSome = true)
    (hat : s.attrs n = some att)
    (hg : generate s (Cache.read s) = some (s1, c1))
    (hb : claimBoostedYields s1 o = some (s2, boosted)) :
    (claimCore s c o ((n, a) :: l) false).isSome := by
  obtain ⟨s0, h0⟩ := Option.isSome_iff_exists.mp h0'
  obtain ⟨ha, _, hle⟩ := takePayments_cons h0
  have hall := takePayments_all _ h0
  obtain ⟨h', hs0⟩ := takePayments_spec _ h0
  obtain ⟨s1', hs1'⟩ : ∃ x : St, x = { s1 with hold := h' } := ⟨_, rfl⟩
  obtain ⟨s2', hs2'⟩ : ∃ x : St, x = { s2 with hold := h' } := ⟨_, rfl⟩
  have h1 : generate s0 (Cache.read s0) = some (s1', c1) := by
    have : Cache.read s0 = Cache.read s := by rw [hs0]; rfl
    rw [this, hs0, generate_hold, hg, hs1']; rfl
  have h2 : claimBoostedYields s1' o = some (s2', boosted) := by
    rw [hs1', claimBoostedYields_hold, hb, hs2']; rfl
  have hact0 : s0.active = true := by rw [hs0]; exact hact
  have hat0 : s0.attrs n = some att := by rw [hs0]; exact hat
  obtain ⟨hamt, hep⟩ := hX.1 n att hat
  obtain ⟨part, hpart⟩ := intoPart_ok a hamt
  obtain ⟨p1, p2, p3, _⟩ := intoPart_spec hpart
  have hres := reward_le_reserve hA hP hK hI hd h0 h1 hat h2
  rw [← p2] at hres
  have x1 : xv s1 = xv s := generate_xv hg
  have x2 : xv s2 = xv s := (claimBoostedYields_xv hb).trans x1
  have x2' : xv s2' = xv s := by rw [hs2']; exact x2
  have f1 : s1.firstWeekStart = s.firstWeekStart := by obtain ⟨_, rfl, _⟩ := generate_spec hg; rfl
  have f2 : s2.firstWeekStart = s.firstWeekStart := by
    obtain ⟨_, _, rfl⟩ := claimBoostedYields_struct hb; exact f1
  have v1 : av s1 = _ := (generate_av hg).1
  have hc1 : c1.reserve = s.reserve + minted s := by rw [(generate_av hg).2]; rfl
  have v2' : av s2' = av s1 := by
    rw [hs2']
    show av s2 = av s1
    exact claimBoostedYields_av hb
  have k2' : s2'.kind = s.kind := by
    rw [hs2']
    show s2.kind = s.kind
    exact (claimBoostedYields_kind hb).trans (generate_kind hg)
  have a2' : s2'.attrs n = some att := by
    have : s2'.attrs = s.attrs := congrArg XV.attrs x2'
    rw [this]; exact hat
  have at2' : s2'.attrs = s.attrs := congrArg XV.attrs x2'
  obtain ⟨s3, h3⟩ := checkAndUpdate_ok ((n, a) :: l) s2' o (fun p hp => by rw [at2']; exact (hall p hp).2)
  have x3 : xv s3 = xv s := (checkAndUpdate_xv h3).trans x2'
  have v3 : av s3 = av s1 := (checkAndUpdate_av h3).trans v2'
  have k3 : s3.kind = s.kind := (checkAndUpdate_kind h3).trans k2'
  have f3 : s3.firstWeekStart = s.firstWeekStart := by
    obtain ⟨_, rfl⟩ := checkAndUpdate_spec _ h3
    rw [hs2']; exact f2
  have at3 : s3.attrs = s.attrs := congrArg XV.attrs x3
  obtain ⟨merged, hmerged⟩ := mergeParts_ok l s3 ⟨c1.rps, part.epoch, part.comp, part.amt, o⟩
    (fun p hp => by
      obtain ⟨hp0, hps⟩ := hall p (List.mem_cons_of_mem _ hp)
      obtain ⟨att', hat'⟩ := Option.isSome_iff_exists.mp hps
      exact ⟨hp0, att', by rw [at3]; exact hat', (hX.1 p.1 att' hat').1⟩)
  have hm0 : merged.amt ≠ 0 := by
    have := (mergeParts_amt l hmerged).1
    have : (⟨c1.rps, part.epoch, part.comp, part.amt, o⟩ : Attr).amt = part.amt := rfl
    omega
  obtain ⟨s5, n5, h5⟩ : ∃ s5 n5, createToken s3 c merged = some (s5, n5) := by
    simp only [createToken, Option.bind_eq_bind, req, hm0, ne_eq, not_false_eq_true, if_true,
      Option.bind_some, Option.pure_def]
    exact ⟨_, _, rfl⟩
  have x5e : s5.epoch = s.epoch := by
    obtain ⟨_, _, rfl⟩ := createToken_spec h5
    exact congrArg XV.epoch x3
  have f5 : s5.firstWeekStart = s.firstWeekStart := by
    obtain ⟨_, _, rfl⟩ := createToken_spec h5
    exact f3
  have l5 : s5.lockEpochs = s.lockEpochs := by
    obtain ⟨_, _, rfl⟩ := createToken_spec h5
    exact congrArg XV.lockEpochs x3
  have v5 : av s5 = av s1 := (createToken_av h5).trans v3
  have k5 : s5.kind = s.kind := (createToken_kind h5).trans k3
  obtain ⟨s6, h6⟩ := setFarmSupplyWeek_ok (s := s5) c1.supply (by rw [f5, x5e]; exact hI.time)
  have v6 : av s6 = av s1 := (setFarmSupplyWeek_av h6).trans v5
  have k6 : s6.kind = s.kind := (setFarmSupplyWeek_kind h6).trans k5
  have l6 : s6.lockEpochs = s.lockEpochs := by
    obtain ⟨_, _, rfl⟩ := setFarmSupplyWeek_spec h6
    exact l5
  obtain ⟨s7, hs7⟩ : ∃ x : St, x = Cache.drop s6
      ⟨c1.reserve - (baseReward s1'.dsc c1.rps a part.rps + boosted), c1.rps, c1.supply⟩ := ⟨_, rfl⟩
  have k7 : s7.kind = s.kind := by rw [hs7]; exact k6
  have r7 : s7.balReward = s6.balReward := by rw [hs7]; rfl
  have l7 : s7.lockEpochs = s.lockEpochs := by rw [hs7]; exact l6
  obtain ⟨s8, h8⟩ := payReward_ok (s := s7) o (baseReward s1'.dsc c1.rps a part.rps) boosted
    (by
      intro hk
      rw [k7] at hk
      have hb' := hA.bal hk
      have q2 := congrArg AV.balReward v6
      have q3 := congrArg AV.balReward v1
      simp only [av, hk, if_true] at q2 q3
      omega)
    (by rw [l7]; exact hX.2.2)
  -- assemble
  unfold claimCore
  refine isSome_bind (a := (n, a)) rfl ?_
  refine isSome_bind h0 ?_
  refine isSome_bind (a := ()) (by simp [req, hact0]) ?_
  refine isSome_bind (a := ()) (by simp [req]) ?_
  refine isSome_bind (a := att) hat0 ?_
  refine isSome_bind h1 ?_
  refine isSome_bind hpart ?_
  refine isSome_bind h2 ?_
  refine isSome_bind (a := c1.reserve - (baseReward s1'.dsc c1.rps a part.rps + boosted))
    (by simp [sub?, hres]) ?_
  refine isSome_bind h3 ?_
  refine isSome_bind (a := merged) hmerged ?_
  refine isSome_bind (a := (s5, n5)) h5 ?_
  refine isSome_bind (a := s6) h6 ?_
  refine isSome_bind (a := s8) (by rw [hs7] at h8; exact h8) ?_
  rfl


/-- **`enter_farm_base` cannot fail**, with any accepted list of additional position tokens to merge: any
    payer `caller`, any user `orig` the position is recorded for, any receiver of the new token -/
theorem enterCore_always {s : St} {W caller orig tokenTo amt : Nat} {extra : List (Nat × Nat)}
    (hA : Acct s) (hK : PotInv s) (hI : PoolInv s) (hX : XInv s) (hd : s.dsc ≠ 0)
    (hP : PM s W) (hWI : WInv s) (hWP : WeekPos s) (hact : s.active = true) (ha : amt ≠ 0)
    (h0' : (takePayments s caller extra).isSome = true) :
    (enterCore s caller orig tokenTo amt extra).isSome = true := by
  obtain ⟨s0, h0⟩ := Option.isSome_iff_exists.mp h0'
  have hall := takePayments_all _ h0
  obtain ⟨hh, hs0⟩ := takePayments_spec _ h0
  -- the boosted claim on the state with the farming tokens received
  have p0 : PM (addFarming s0 amt) W := by rw [hs0]; exact hP.of_view rfl
  have wi0 : WInv (addFarming s0 amt) := by rw [hs0]; exact hWI.of_w rfl
  have wp0 : WeekPos (addFarming s0 amt) := by rw [hs0]; exact hWP.of_wv rfl
  have hI0 : PoolInv (addFarming s0 amt) := by rw [hs0]; exact hI.of_view rfl
  have hA0 : (addFarming s0 amt).reserve + (addFarming s0 amt).paid = (addFarming s0 amt).generated := by
    rw [hs0]; exact hA.res
  have hA1 : (addFarming s0 amt).paid = (addFarming s0 amt).paidBase + (addFarming s0 amt).paidBoosted := by
    rw [hs0]; exact hA.split
  have hK0 : (addFarming s0 amt).paidBase ≤ (addFarming s0 amt).baseBudget := by
    rw [hs0]; exact hK.paidBase_le hd
  have e0x : xv (addFarming s0 amt) = xv s := by rw [hs0]; rfl
  have e0k : (addFarming s0 amt).kind = s.kind := by rw [hs0]; rfl
  have e0r : rv (addFarming s0 amt) = rv s := by rw [hs0]; rfl
  have e0a : (addFarming s0 amt).active = s.active := by rw [hs0]; rfl
  have e0res : (addFarming s0 amt).reserve = s.reserve := by rw [hs0]; rfl
  have e0bal : (addFarming s0 amt).balReward = s.balReward := by rw [hs0]; rfl
  obtain ⟨⟨sB, boosted⟩, hb⟩ := Option.isSome_iff_exists.mp (claimBoostedYields_ok p0 wi0 wp0 orig)
  have hres : boosted ≤ (addFarming s0 amt).reserve :=
    boosted_le_of_cov hI0 (cov_of_gen hI0 hA0 hA1) hK0 hb
  obtain ⟨s1, h1⟩ := claimOnlyBoostedPayment_ok hb hres
  obtain ⟨p1, st1⟩ := claimOnlyBoostedPayment_pm p0 wi0 wp0 h1
  have wi1 := claimOnlyBoostedPayment_winv wi0 h1
  have x1 : xv s1 = xv s := (claimOnlyBoostedPayment_xv h1).trans e0x
  have k1 : s1.kind = s.kind := (claimOnlyBoostedPayment_kind h1).trans e0k
  have r1 : rv s1 = rv s := (claimOnlyBoostedPayment_rv h1).trans e0r
  have a1 : s1.active = s.active := (claimOnlyBoostedPayment_active h1).trans e0a
  obtain ⟨_, v1⟩ := claimOnlyBoostedPayment_av h1
  -- fwlr: the boosted part is locked first
  obtain ⟨s1', h1'⟩ := payRewardIf_ok (s := s1) .noMint orig boosted (fun _ hk => by cases hk)
    (by have e : s1.lockEpochs = s.lockEpochs := congrArg XV.lockEpochs x1
        rw [e]; exact hX.2.2)
  have p1' := p1.of_view (payRewardIf_pmv h1')
  have st1' := st1.of_view (payRewardIf_pmv h1')
  have wi1' := wi1.of_w (payRewardIf_w h1')
  have x1' : xv s1' = xv s := (payRewardIf_xv h1').trans x1
  have k1' : s1'.kind = s.kind := (payRewardIf_kind h1').trans k1
  have r1' : rv s1' = rv s := (payRewardIf_rv h1').trans r1
  have a1' : s1'.active = true := by rw [payRewardIf_active h1', a1]; exact hact
  obtain ⟨x, br, hx, v1', hbm, _⟩ := payRewardIf_av h1'
  have hT1 : s1'.firstWeekStart ≤ s1'.epoch := (week_eq_some.mp p1'.week).1
  have hp1 : s1'.pct ≤ MAXPCT := by
    have e : s1'.pct = s.pct := congrArg RV.pct r1'
    rw [e]; exact hI.pct
  -- the settlement
  have at1' : s1'.attrs = s.attrs := congrArg XV.attrs x1'
  obtain ⟨s2, h2⟩ := checkAndUpdate_ok extra s1' orig (fun p hp => by rw [at1']; exact (hall p hp).2)
  obtain ⟨p2, st2⟩ := checkAndUpdate_pm p1' st1' h2
  have wi2 := wi1'.of_w (checkAndUpdate_w h2)
  have x2 : xv s2 = xv s := (checkAndUpdate_xv h2).trans x1'
  have k2 : s2.kind = s.kind := (checkAndUpdate_kind h2).trans k1'
  have r2 : rv s2 = rv s := (checkAndUpdate_rv h2).trans r1'
  have v2 : av s2 = av s1' := checkAndUpdate_av h2
  have p3 : PM (increaseUser s2 orig amt) W :=
    p2.bump st2 (fun x hx => by
      show upd s2.userTotal orig _ x ≤ _
      rw [upd_other _ _ hx])
  have hT2 : (increaseUser s2 orig amt).firstWeekStart ≤ (increaseUser s2 orig amt).epoch :=
    (week_eq_some.mp p3.week).1
  have hp2 : (increaseUser s2 orig amt).pct ≤ MAXPCT := by
    have e : s2.pct = s.pct := congrArg RV.pct r2
    show s2.pct ≤ MAXPCT
    rw [e]; exact hI.pct
  obtain ⟨s4, c1, h4⟩ := generate_ok (s := increaseUser s2 orig amt) (Cache.read s1') hT2 hp2
  have p4 : PM s4 W := p3.of_view (generate_pmv h4)
  have wi4 : WInv s4 := wi2.of_w (generate_w (s := increaseUser s2 orig amt) h4)
  have x4 : xv s4 = xv s := (generate_xv h4).trans x2
  have k4 : s4.kind = s.kind := (generate_kind h4).trans k2
  have v4 := (generate_av h4).1
  -- the new token
  have at4 : s4.attrs = s.attrs := congrArg XV.attrs x4
  obtain ⟨base, hbase⟩ := mergeParts_ok extra s4 ⟨c1.rps, s4.epoch, 0, amt, orig⟩
    (fun p hp => by
      obtain ⟨hp0, hps⟩ := hall p hp
      obtain ⟨att', hat'⟩ := Option.isSome_iff_exists.mp hps
      exact ⟨hp0, att', by rw [at4]; exact hat', (hX.1 p.1 att' hat').1⟩)
  have hm0 : base.amt ≠ 0 := by
    have := (mergeParts_amt extra hbase).1
    have : (⟨c1.rps, s4.epoch, 0, amt, orig⟩ : Attr).amt = amt := rfl
    omega
  obtain ⟨s5, n5, h5⟩ : ∃ s5 n5, createToken s4 tokenTo base = some (s5, n5) := by
    simp only [createToken, Option.bind_eq_bind, req, hm0, ne_eq, not_false_eq_true, if_true,
      Option.bind_some, Option.pure_def]
    exact ⟨_, _, rfl⟩
  have p5 : PM s5 W := p4.of_view (createToken_pmv h5)
  have wi5 := wi4.of_w (createToken_w h5)
  have k5 : s5.kind = s.kind := (createToken_kind h5).trans k4
  have v5 : av s5 = av s4 := createToken_av h5
  have l5 : s5.lockEpochs = s.lockEpochs := by
    obtain ⟨_, _, rfl⟩ := createToken_spec h5
    exact congrArg XV.lockEpochs x4
  have hT5 : s5.firstWeekStart ≤ s5.epoch := (week_eq_some.mp p5.week).1
  obtain ⟨s6, h6⟩ := setFarmSupplyWeek_ok (s := s5) (c1.supply + amt) hT5
  have p6 := setFarmSupplyWeek_pm p5 h6
  have wi6 := wi5.of_w (setFarmSupplyWeek_w h6)
  have k6 : s6.kind = s.kind := (setFarmSupplyWeek_kind h6).trans k5
  have v6 : av s6 = av s4 := (setFarmSupplyWeek_av h6).trans v5
  have l6 : s6.lockEpochs = s.lockEpochs := by
    obtain ⟨_, _, rfl⟩ := setFarmSupplyWeek_spec h6
    exact l5
  obtain ⟨s7, hs7⟩ : ∃ x : St, x = Cache.drop s6 ⟨c1.reserve, c1.rps, c1.supply + amt⟩ := ⟨_, rfl⟩
  have p7 : PM s7 W := by rw [hs7]; exact p6.of_view rfl
  have wi7 : WInv s7 := by rw [hs7]; exact wi6.of_w rfl
  have k7 : s7.kind = s.kind := by rw [hs7]; exact k6
  have l7 : s7.lockEpochs = s.lockEpochs := by rw [hs7]; exact l6
  have b7 : s7.balReward = s6.balReward := by rw [hs7]; rfl
  -- farm: the boosted part is sent now
  obtain ⟨s8, h8⟩ := payRewardIf_ok (s := s7) .mint orig boosted
    (by
      intro hk _
      rw [k7] at hk
      have hb' := hA.bal hk
      have hk1 : s1.kind = .mint := by rw [k1]; exact hk
      have hx0 : x = 0 := by
        rcases hx with ⟨_, h⟩ | ⟨h, _⟩
        · rw [hk1] at h; cases h
        · exact h
      have q6 := congrArg AV.balReward v6
      have q4 := congrArg AV.balReward v4
      have q2 := congrArg AV.balReward v2
      have q1' := congrArg AV.balReward v1'
      have q1 := congrArg AV.balReward v1
      have hbr := (hbm hk1).2
      have hres' : boosted ≤ s.reserve := by rw [← e0res]; exact hres
      have kk : (increaseUser s2 orig amt).kind = .mint := by
        show s2.kind = .mint
        rw [k2]; exact hk
      simp only [av, kk, if_true] at q6 q4 q2 q1' q1
      have e1 : (increaseUser s2 orig amt).balReward = s2.balReward := rfl
      omega)
    (by rw [l7]; exact hX.2.2)
  have p8 : PM s8 W := p7.of_view (payRewardIf_pmv h8)
  have wi8 : WInv s8 := wi7.of_w (payRewardIf_w h8)
  obtain ⟨s9, h9⟩ := Option.isSome_iff_exists.mp (farm_updateEnergyAndProgress_ok p8 wi8 orig)
  -- assemble
  unfold enterCore
  refine isSome_bind (a := ()) (by simp [req, ha]) ?_
  refine isSome_bind h0 ?_
  refine isSome_bind h1 ?_
  refine isSome_bind h1' ?_
  refine isSome_bind (a := ()) (by simp [req, a1']) ?_
  refine isSome_bind h2 ?_
  refine isSome_bind h4 ?_
  refine isSome_bind (a := base) hbase ?_
  refine isSome_bind h5 ?_
  refine isSome_bind h6 ?_
  refine isSome_bind (a := s8) (by rw [hs7] at h8; exact h8) ?_
  refine isSome_bind h9 ?_
  rfl


/-! ### any accepted list of payments: the endpoints -/

/-- the claim core with any accepted list of payments, weekly module discharged -/
theorem claimCore_list_always {s : St} {W c o n a : Nat} {l : List (Nat × Nat)} (hA : Acct s)
    (hPos : PosInv s) (hK : PotInv s) (hI : PoolInv s) (hX : XInv s) (hd : s.dsc ≠ 0) (hP : PM s W)
    (hWI : WInv s) (hWP : WeekPos s) (hact : s.active = true)
    (h0 : (takePayments s c ((n, a) :: l)).isSome = true) :
    (claimCore s c o ((n, a) :: l) false).isSome = true := by
  obtain ⟨s0, hs0⟩ := Option.isSome_iff_exists.mp h0
  obtain ⟨_, hsome, _⟩ := takePayments_cons hs0
  obtain ⟨att, hat⟩ := Option.isSome_iff_exists.mp hsome
  obtain ⟨s1, c1, hg⟩ := generate_ok (s := s) (Cache.read s) hI.time hI.pct
  have p1 : PM s1 W := hP.of_view (generate_pmv hg)
  have wi1 : WInv s1 := hWI.of_w (generate_w hg)
  have wp1 : WeekPos s1 := hWP.of_wv (generate_wv hg).1
  obtain ⟨⟨s2, boosted⟩, hb⟩ := Option.isSome_iff_exists.mp (claimBoostedYields_ok p1 wi1 wp1 o)
  exact claimCore_list_ok hA hPos hK hI hX hd hact h0 hat hg hb

theorem claimRewards_list_always {s : St} {W c o : Nat} {opt : Option Nat} {pays : List (Nat × Nat)}
    (hA : Acct s) (hPos : PosInv s) (hK : PotInv s) (hI : PoolInv s) (hX : XInv s) (hd : s.dsc ≠ 0)
    (hP : PM s W) (hWI : WInv s) (hWP : WeekPos s) (ho : origCaller s c opt = some o)
    (hact : s.active = true) (hne : pays ≠ []) (h0 : (takePayments s c pays).isSome = true) :
    (claimRewards s c opt pays).isSome = true := by
  unfold claimRewards
  refine isSome_bind ho ?_
  cases pays with
  | nil => exact absurd rfl hne
  | cons p l =>
    obtain ⟨n, a⟩ := p
    exact claimCore_list_always hA hPos hK hI hX hd hP hWI hWP hact h0

theorem claimRewardsOnBehalf_list_always {s : St} {W c u : Nat} {pays : List (Nat × Nat)}
    (hA : Acct s) (hPos : PosInv s) (hK : PotInv s) (hI : PoolInv s) (hX : XInv s) (hd : s.dsc ≠ 0)
    (hP : PM s W) (hWI : WInv s) (hWP : WeekPos s) (hown : claimOwner s pays = some u)
    (hhub : hubAllows s u c = true) (hact : s.active = true)
    (h0 : (takePayments s c pays).isSome = true) :
    (claimRewardsOnBehalf s c pays).isSome = true := by
  unfold claimRewardsOnBehalf
  obtain ⟨s0, hs0⟩ := Option.isSome_iff_exists.mp h0
  refine isSome_bind hs0 ?_
  refine isSome_bind hown ?_
  refine isSome_bind (a := ()) (by simp [req, hhub]) ?_
  cases pays with
  | nil => simp [claimOwner] at hown
  | cons p l =>
    obtain ⟨n, a⟩ := p
    exact claimCore_list_always hA hPos hK hI hX hd hP hWI hWP hact h0

theorem enterFarm_always {s : St} {W c o amt : Nat} {opt : Option Nat} {extra : List (Nat × Nat)}
    (hA : Acct s) (hK : PotInv s) (hI : PoolInv s) (hX : XInv s) (hd : s.dsc ≠ 0)
    (hP : PM s W) (hWI : WInv s) (hWP : WeekPos s) (ho : origCaller s c opt = some o)
    (hact : s.active = true) (ha : amt ≠ 0) (h0 : (takePayments s c extra).isSome = true) :
    (enterFarm s c opt amt extra).isSome = true := by
  unfold enterFarm
  exact isSome_bind ho (enterCore_always hA hK hI hX hd hP hWI hWP hact ha h0)

theorem enterFarmOnBehalf_always {s : St} {W c u amt : Nat} {extra : List (Nat × Nat)}
    (hA : Acct s) (hK : PotInv s) (hI : PoolInv s) (hX : XInv s) (hd : s.dsc ≠ 0)
    (hP : PM s W) (hWI : WInv s) (hWP : WeekPos s) (hhub : hubAllows s u c = true)
    (hown : allOwnedBy s u extra = true)
    (hact : s.active = true) (ha : amt ≠ 0) (h0 : (takePayments s c extra).isSome = true) :
    (enterFarmOnBehalf s c u amt extra).isSome = true := by
  unfold enterFarmOnBehalf
  refine isSome_bind (a := ()) (by simp [req, hhub]) ?_
  refine isSome_bind (a := ()) (by simp [req, hown]) ?_
  exact enterCore_always hA hK hI hX hd hP hWI hWP hact ha h0

/-! guards of the general forms -/

theorem claimCore_list_guards {s : St} {c o : Nat} {pays : List (Nat × Nat)} {cmp : Bool} {r : St × Out}
    (h : claimCore s c o pays cmp = some r) :
    s.active = true ∧ pays ≠ [] ∧ (takePayments s c pays).isSome = true := by
  have hact := claimCore_needs_active h
  unfold claimCore at h
  replace h := bpeel h; obtain ⟨⟨n1, a1⟩, hh, h⟩ := h
  replace h := bpeel h; obtain ⟨s0, h0, _⟩ := h
  refine ⟨hact, ?_, by rw [h0]; rfl⟩
  intro e; rw [e] at hh; cases hh

theorem enterCore_pays {s : St} {caller orig tokenTo amt : Nat} {extra : List (Nat × Nat)}
    {r : St × Out} (h : enterCore s caller orig tokenTo amt extra = some r) :
    (takePayments s caller extra).isSome = true := by
  unfold enterCore at h
  replace h := bpeel h; obtain ⟨_, _, h⟩ := h
  replace h := bpeel h; obtain ⟨s0, h0, _⟩ := h
  rw [h0]; rfl

end Mx.Farm
