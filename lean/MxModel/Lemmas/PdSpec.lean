/-
  Price discovery: characterisation ("spec") lemmas of deposit / withdraw / redeem — what a
  successful call implies — and the bookkeeping lemmas about `side` / `setSide`.
  Property theorems (Props/C17) are proved from these, never by unfolding `step`.
-/
import MxModel.Lemmas.PdPhase

namespace Mx.PD

/-! ### sides -/

@[simp] theorem other_other (t : Tok) : t.other.other = t := by cases t <;> rfl
@[simp] theorem other_ne (t : Tok) : t.other ≠ t := by cases t <;> simp [Tok.other]
@[simp] theorem ne_other (t : Tok) : t ≠ t.other := by cases t <;> simp [Tok.other]

@[simp] theorem side_setSide (s : St) (t : Tok) (x : Side) : (s.setSide t x).side t = x := by
  cases t <;> rfl
@[simp] theorem side_setSide_other (s : St) (t : Tok) (x : Side) :
    (s.setSide t x).side t.other = s.side t.other := by cases t <;> rfl
@[simp] theorem side_other_setSide (s : St) (t : Tok) (x : Side) :
    (s.setSide t.other x).side t = s.side t := by cases t <;> rfl
@[simp] theorem setSide_cfg (s : St) (t : Tok) (x : Side) : (s.setSide t x).cfg = s.cfg := by
  cases t <;> rfl
@[simp] theorem setSide_n (s : St) (t : Tok) (x : Side) : (s.setSide t x).n = s.n := by
  cases t <;> rfl
@[simp] theorem setSide_block (s : St) (t : Tok) (x : Side) : (s.setSide t x).block = s.block := by
  cases t <;> rfl
@[simp] theorem setSide_epoch (s : St) (t : Tok) (x : Side) : (s.setSide t x).epoch = s.epoch := by
  cases t <;> rfl
@[simp] theorem setSide_phase (s : St) (t : Tok) (x : Side) : (s.setSide t x).phase = s.phase := by
  cases t <;> rfl

theorem side_of_ne {t t' : Tok} (h : t' ≠ t) : t' = t.other := by
  cases t <;> cases t' <;> simp_all [Tok.other]

@[simp] theorem upd_same (f : Nat → Nat) (c v : Nat) : upd f c v c = v := by simp [upd]
theorem upd_ne (f : Nat → Nat) {c u : Nat} (v : Nat) (h : u ≠ c) : upd f c v u = f u := by
  simp [upd, h]

/-! ### price -/

theorem priceOf_eq_some {c : Cfg} {l a p : Nat} :
    priceOf c l a = some p ↔ 0 < l ∧ p = a * c.prec / l := by
  simp only [priceOf, Option.bind_eq_bind, Option.bind_eq_some_iff, req_eq_some,
    Option.pure_def, Option.some.injEq]
  constructor
  · rintro ⟨_, h, rfl⟩; exact ⟨h, rfl⟩
  · rintro ⟨h, rfl⟩; exact ⟨(), h, rfl⟩

theorem priceOf_eq_none {c : Cfg} {l a : Nat} : priceOf c l a = none ↔ l = 0 := by
  unfold priceOf
  by_cases h : 0 < l
  · simp [req, h]; omega
  · simp [req, h]; omega

/-- the tracked pool of a token -/
def St.bal (s : St) (t : Tok) : Nat := (s.side t).bal

theorem price_def (s : St) : s.price = priceOf s.cfg (s.bal .launched) (s.bal .accepted) := rfl

/-! ### result sides -/

/-- side `t` after a deposit of `amt` by `c` -/
def depSide (x : Side) (c amt : Nat) : Side :=
  { x with w := upd x.w c (x.w c - amt), real := x.real + amt, bal := x.bal + amt,
           sup := x.sup + amt, h := upd x.h c (x.h c + amt) }

/-- side `t` after a withdrawal of `amt` redeem tokens by `c` with penalty `pen` -/
def wdSide (x : Side) (c amt pen : Nat) : Side :=
  { x with h := upd x.h c (x.h c - amt), sup := x.sup - amt, bal := x.bal - (amt - pen),
           real := x.real - (amt - pen), w := upd x.w c (x.w c + (amt - pen)) }

/-- side `t` (redeem tokens handed in) after `redeem` -/
def rdSideX (x : Side) (c amt : Nat) : Side :=
  { x with h := upd x.h c (x.h c - amt), red := x.red + amt }

/-- the opposite side (tokens paid out) after `redeem` -/
def rdSideY (y : Side) (c bought : Nat) (locked : Bool) : Side :=
  if locked then
    { y with real := y.real - bought, paid := y.paid + bought, lock := y.lock + bought,
             k := upd y.k c (y.k c + bought) }
  else
    { y with real := y.real - bought, paid := y.paid + bought, w := upd y.w c (y.w c + bought) }

@[simp] theorem rdSideY_bal (y : Side) (c b : Nat) (l : Bool) : (rdSideY y c b l).bal = y.bal := by
  unfold rdSideY; split <;> rfl
@[simp] theorem rdSideY_sup (y : Side) (c b : Nat) (l : Bool) : (rdSideY y c b l).sup = y.sup := by
  unfold rdSideY; split <;> rfl
@[simp] theorem rdSideY_red (y : Side) (c b : Nat) (l : Bool) : (rdSideY y c b l).red = y.red := by
  unfold rdSideY; split <;> rfl
@[simp] theorem rdSideY_h (y : Side) (c b : Nat) (l : Bool) : (rdSideY y c b l).h = y.h := by
  unfold rdSideY; split <;> rfl
@[simp] theorem rdSideY_real (y : Side) (c b : Nat) (l : Bool) :
    (rdSideY y c b l).real = y.real - b := by
  unfold rdSideY; split <;> rfl
@[simp] theorem rdSideY_paid (y : Side) (c b : Nat) (l : Bool) :
    (rdSideY y c b l).paid = y.paid + b := by
  unfold rdSideY; split <;> rfl

/-! ### specs -/

theorem deposit_spec {s s' : St} {c : Nat} {t : Tok} {amt : Nat} {o : Out}
    (h : deposit s c t amt = some (s', o)) :
    ∃ p, s.isUser c ∧ 0 < amt ∧ s.phase.depositAllowed = true ∧ amt ≤ (s.side t).w c ∧
      s'.price = some p ∧ (p = 0 ∨ s.cfg.minPrice ≤ p ∨ t = .accepted) ∧
      o = ⟨amt, t.nonce, 0⟩ ∧
      s' = s.setSide t (depSide (s.side t) c amt) := by
  simp only [deposit, Option.bind_eq_bind, Option.bind_eq_some_iff, req_eq_some, sub?_eq_some,
    Option.pure_def, Option.some.injEq, Prod.mk.injEq] at h
  obtain ⟨_, h1, _, h2, _, h3, wc, ⟨h4, rfl⟩, p, h5, _, h6, rfl, rfl⟩ := h
  refine ⟨p, h1, h2, h3, h4, ?_, h6, rfl, rfl⟩
  cases t <;> exact h5

theorem withdraw_spec {s s' : St} {c : Nat} {t : Tok} {amt : Nat} {o : Out}
    (h : withdraw s c t amt = some (s', o)) :
    ∃ p pen, s.isUser c ∧ 0 < amt ∧ s.phase.withdrawAllowed = true ∧
      pen = amt * s.phase.pct / MAXP ∧ pen ≤ amt ∧
      amt ≤ (s.side t).h c ∧ amt ≤ (s.side t).sup ∧
      amt - pen ≤ (s.side t).bal ∧ amt - pen ≤ (s.side t).real ∧
      s'.price = some p ∧ s.cfg.minPrice ≤ p ∧
      o = ⟨amt - pen, pen, 0⟩ ∧
      s' = s.setSide t (wdSide (s.side t) c amt pen) := by
  simp only [withdraw, Option.bind_eq_bind, Option.bind_eq_some_iff, req_eq_some, sub?_eq_some,
    Option.pure_def, Option.some.injEq, Prod.mk.injEq] at h
  obtain ⟨_, h1, _, h2, _, h3, hc, ⟨h4, rfl⟩, sup, ⟨h5, rfl⟩, wd, ⟨h6, rfl⟩, bal, ⟨h7, rfl⟩,
    p, h8, _, h9, real, ⟨h10, rfl⟩, rfl, rfl⟩ := h
  refine ⟨p, _, h1, h2, h3, rfl, h6, h4, h5, h7, h10, ?_, h9, rfl, rfl⟩
  cases t <;> exact h8

theorem redeem_spec {s s' : St} {c : Nat} {t : Tok} {amt : Nat} {o : Out}
    (h : redeem s c t amt = some (s', o)) :
    ∃ bought, s.isUser c ∧ 0 < amt ∧ s.phase.redeemAllowed = true ∧
      amt ≤ (s.side t).h c ∧ (s.side t).sup ≠ 0 ∧
      bought = (s.side t.other).bal * amt / (s.side t).sup ∧
      bought ≤ (s.side t.other).real ∧
      o = ⟨bought, if s.epoch < s.cfg.unlock then 1 else 0, 0⟩ ∧
      s' = (s.setSide t (rdSideX (s.side t) c amt)).setSide t.other
             (rdSideY (s.side t.other) c bought (decide (s.epoch < s.cfg.unlock))) := by
  simp only [redeem, Option.bind_eq_bind, Option.bind_eq_some_iff, req_eq_some, sub?_eq_some,
    Option.pure_def, Option.some.injEq, Prod.mk.injEq] at h
  obtain ⟨_, h1, _, h2, _, h3, hc, ⟨h4, rfl⟩, _, h5, real, ⟨h6, rfl⟩, rfl, rfl⟩ := h
  refine ⟨_, h1, h2, h3, h4, h5, rfl, h6, rfl, ?_⟩
  unfold rdSideX rdSideY
  by_cases hl : s.epoch < s.cfg.unlock <;> simp [hl]

/-- the five operations, as a relation on states, split by kind -/
theorem step_cases {s s' : St} {op : Op} {o : Out} (h : step s op = some (s', o)) :
    (∃ c t a, op = .deposit c t a ∧ deposit s c t a = some (s', o)) ∨
    (∃ c t a, op = .withdraw c t a ∧ withdraw s c t a = some (s', o)) ∨
    (∃ c t a, op = .redeem c t a ∧ redeem s c t a = some (s', o)) ∨
    (∃ b, op = .advance b ∧ s.block ≤ b ∧ s' = { s with block := b } ∧ o = {}) ∨
    (∃ e, op = .epoch e ∧ s.epoch ≤ e ∧ s' = { s with epoch := e } ∧ o = {}) := by
  cases op with
  | deposit c t a => exact .inl ⟨c, t, a, rfl, h⟩
  | withdraw c t a => exact .inr (.inl ⟨c, t, a, rfl, h⟩)
  | redeem c t a => exact .inr (.inr (.inl ⟨c, t, a, rfl, h⟩))
  | advance b =>
    simp only [step] at h
    split at h
    · rename_i hb
      simp only [Option.some.injEq, Prod.mk.injEq] at h
      exact .inr (.inr (.inr (.inl ⟨b, rfl, hb, h.1.symm, h.2.symm⟩)))
    · simp at h
  | epoch e =>
    simp only [step] at h
    split at h
    · rename_i hb
      simp only [Option.some.injEq, Prod.mk.injEq] at h
      exact .inr (.inr (.inr (.inr ⟨e, rfl, hb, h.1.symm, h.2.symm⟩)))
    · simp at h

end Mx.PD
