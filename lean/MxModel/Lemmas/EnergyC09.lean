/-
  Spec lemmas of the endpoints C09 talks about: unlock, early unlock, lock reduction, the unbond
  queue (claim), and the penalty view.
-/
import MxModel.Lemmas.EnergySupply
import MxModel.Lemmas.EnergyOpts

namespace Mx.Energy

/-- sum of the amounts of a payment list -/
def paySum (ps : List (Nat × Nat)) : Nat := (ps.map (·.2)).sum

theorem unlockTokens_spec {s s' : St} {c : Nat} {ps : List (Nat × Nat)} {o : Out}
    (h : unlockTokens s c ps = some (s', o)) :
    s.paused = false ∧ ps ≠ [] ∧
    (∀ p ∈ ps, ∃ u, s.unlockOf p.1 = some u ∧ u ≤ s.epoch ∧ 0 < p.2) ∧
    o = ⟨paySum ps, 0, 0⟩ ∧
    s'.base c = s.base c + paySum ps ∧ (∀ a, a ≠ c → s'.base a = s.base a) ∧
    s'.baseSupply = s.baseSupply + paySum ps ∧ s'.mintUnlock = s.mintUnlock + paySum ps ∧
    s'.circ + paySum ps = s.circ := by
  simp only [unlockTokens, Option.bind_eq_bind, Option.bind_eq_some_iff, req_eq_some, sub?_eq_some,
    Option.pure_def, Option.some.injEq, Prod.mk.injEq] at h
  obtain ⟨_, h1, _, h2, ⟨s1, e, tot⟩, hp, circ, ⟨hle, rfl⟩, rfl, rfl⟩ := h
  obtain ⟨⟨_, g2, g3, _, _, _, g7, _, _, _, _, g12, _⟩, ht, hall⟩ := unlockPays_ghost ps hp
  simp only [] at hle
  subst ht
  refine ⟨h1, h2, hall, rfl, ?_, ?_, ?_, ?_, ?_⟩
  · show upd s1.base c (s1.base c + _) c = _
    rw [upd_same, g12]; rfl
  · intro a ha
    show upd s1.base c (s1.base c + _) a = _
    rw [upd_other _ _ ha, g12]
  · show s1.baseSupply + _ = _
    rw [g2]; rfl
  · show s1.mintUnlock + _ = _
    rw [g7]; rfl
  · have hle' : paySum ps ≤ s1.circ := hle
    show s1.circ - paySum ps + paySum ps = s.circ
    rw [← g3]; omega

/-- unlocking is impossible before the unlock epoch: one premature token fails the whole call -/
theorem unlock_fails_early {s : St} {c : Nat} {ps : List (Nat × Nat)} {n amt u : Nat}
    (hm : (n, amt) ∈ ps) (hu : s.unlockOf n = some u) (hlt : s.epoch < u) :
    unlockTokens s c ps = none := by
  cases h : unlockTokens s c ps with
  | none => rfl
  | some r =>
    obtain ⟨s', o⟩ := r
    obtain ⟨_, _, hall, _⟩ := unlockTokens_spec h
    obtain ⟨u', h1, h2, _⟩ := hall (n, amt) hm
    simp only [] at h1
    rw [hu] at h1
    simp only [Option.some.injEq] at h1
    omega

theorem penaltyAmount_spec {opts : List Opt} {amt prev new pen : Nat}
    (h : penaltyAmount opts amt prev new = some pen) :
    0 < prev ∧ new < prev ∧ opts ≠ [] ∧
    ∃ pct, (if new = 0 then pctFull opts prev else pctPartial opts prev new) = some pct ∧
      pen = amt * pct / MAXPCT := by
  simp only [penaltyAmount, Option.bind_eq_bind, Option.bind_eq_some_iff, req_eq_some,
    Option.pure_def, Option.some.injEq] at h
  obtain ⟨_, h1, _, h2, _, h3, pct, h4, rfl⟩ := h
  exact ⟨h1, h2, h3, pct, h4, rfl⟩

theorem unlockEarly_spec {s s' : St} {c n amt : Nat} {o : Out}
    (h : unlockEarly s c n amt = some (s', o)) :
    ∃ u pen, s.paused = false ∧ s.unlockOf n = some u ∧ s.epoch < u ∧ amt ≤ s.bal c n ∧
      penaltyAmount s.opts amt (u - s.epoch) 0 = some pen ∧ 0 < amt ∧ pen < amt ∧
      o = ⟨pen, amt - pen, 0⟩ ∧
      s'.queue c = s.queue c ++ [⟨s.epoch + s.unbond, n, amt, amt - pen⟩] ∧
      (∀ a, a ≠ c → s'.queue a = s.queue a) ∧
      s'.base UNSTAKE = s.base UNSTAKE + (amt - pen) ∧ (∀ a, a ≠ UNSTAKE → s'.base a = s.base a) ∧
      s'.baseSupply = s.baseSupply + (amt - pen) ∧ s'.mintEarly = s.mintEarly + (amt - pen) ∧
      s'.pendingPenalty = s.pendingPenalty + pen := by
  simp only [unlockEarly, Option.bind_eq_bind, Option.bind_eq_some_iff, req_eq_some, sub?_eq_some,
    Option.pure_def, Option.some.injEq, Prod.mk.injEq] at h
  obtain ⟨_, h0, u, hu, s1, hdeb, _, hlt, e, _, pen, hpen, _, hpos, _, hlt2, circ, _, rfl, rfl⟩ := h
  obtain ⟨hamt, _⟩ := debit_spec hdeb
  refine ⟨u, pen, h0, hu, hlt, hamt, hpen, hpos, hlt2, rfl, ?_, ?_, ?_, ?_, rfl, rfl, rfl⟩
  · simp [St.setEnergy, updO_same]
  · intro a ha
    simp [St.setEnergy, updO_other _ _ ha]
  · simp [St.setEnergy, upd_same]
  · intro a ha
    simp [St.setEnergy, upd_other _ _ ha]

theorem reduceLock_spec {s s' : St} {c n amt epochs : Nat} {o : Out}
    (h : reduceLock s c n amt epochs = some (s', o)) :
    ∃ u pen newEp, s.paused = false ∧ isListed s.opts epochs = true ∧ s.unlockOf n = some u ∧
      s.epoch < u ∧ amt ≤ s.bal c n ∧
      newEp + (s.epoch + epochs) % MONTH = epochs ∧ newEp < u - s.epoch ∧
      penaltyAmount s.opts amt (u - s.epoch) newEp = some pen ∧ 0 < amt ∧ pen < amt ∧
      o.v2 = amt - pen ∧ o.v3 = pen ∧
      s'.penBurned = s.penBurned + pen * s.burnPct / MAXPCT ∧
      s'.collected = s.collected + (pen - pen * s.burnPct / MAXPCT) ∧
      s'.circ + pen = s.circ := by
  simp only [reduceLock, Option.bind_eq_bind, Option.bind_eq_some_iff, req_eq_some, sub?_eq_some,
    Option.pure_def, Option.some.injEq, Prod.mk.injEq] at h
  obtain ⟨_, h0, _, _, _, hl, u, hu, s1, hdeb, _, hlt, newEp, ⟨hsub, rfl⟩, _, hnew, e, _, pen, hpen, _,
    hpos, _, hlt2, _, _, circ, ⟨hc, rfl⟩, rfl, rfl⟩ := h
  obtain ⟨hamt, _⟩ := debit_spec hdeb
  refine ⟨u, pen, _, h0, hl, hu, hlt, hamt, by omega, hnew, hpen, hpos, hlt2, rfl, rfl, rfl, rfl, ?_⟩
  show s.circ - pen + pen = s.circ
  omega

/-! ### the unbond queue -/

theorem claimable_all (now : Nat) (q : List UEntry) : ∀ e ∈ claimable now q, e.unlock ≤ now := by
  intro e he
  have h1 : e ∈ q.takeWhile (fun e => decide (e.unlock ≤ now)) := List.mem_of_mem_take he
  have : ∀ (l : List UEntry), e ∈ l.takeWhile (fun e => decide (e.unlock ≤ now)) → e.unlock ≤ now := by
    intro l
    induction l with
    | nil => simp
    | cons x xs ih =>
      simp only [List.takeWhile_cons]
      split
      · rename_i hx
        intro hm
        rcases List.mem_cons.mp hm with rfl | hin
        · simpa using hx
        · exact ih hin
      · simp
  exact this q h1

theorem claimable_length (now : Nat) (q : List UEntry) : (claimable now q).length ≤ MAXCLAIM := by
  unfold claimable
  rw [List.length_take]
  exact Nat.min_le_left _ _

/-- the claimed entries are a prefix of the queue (FIFO) -/
theorem claimable_prefix (now : Nat) (q : List UEntry) :
    claimable now q ++ q.drop (claimable now q).length = q := by
  unfold claimable
  have h1 : (q.takeWhile (fun e => decide (e.unlock ≤ now))) ++ q.dropWhile (fun e => decide (e.unlock ≤ now)) = q :=
    List.takeWhile_append_dropWhile
  generalize q.takeWhile (fun e => decide (e.unlock ≤ now)) = t at *
  generalize q.dropWhile (fun e => decide (e.unlock ≤ now)) = d at *
  subst h1
  rw [List.length_take]
  rcases Nat.le_total MAXCLAIM t.length with hle | hle
  · rw [Nat.min_eq_left hle]
    have : List.drop MAXCLAIM (t ++ d) = List.drop MAXCLAIM t ++ d := by
      rw [List.drop_append_of_le_length hle]
    rw [this, ← List.append_assoc, List.take_append_drop]
  · rw [Nat.min_eq_right hle, List.take_of_length_le hle, List.drop_left]

theorem claimUnlocked_spec {s s' : St} {c : Nat} {o : Out} (hc : c ≠ UNSTAKE)
    (h : claimUnlocked s c = some (s', o)) :
    claimable s.epoch (s.queue c) ≠ [] ∧
    s.queue c = claimable s.epoch (s.queue c) ++ s'.queue c ∧
    o = ⟨((claimable s.epoch (s.queue c)).map (·.unlocked)).sum, (claimable s.epoch (s.queue c)).length, 0⟩ ∧
    s'.base c = s.base c + ((claimable s.epoch (s.queue c)).map (·.unlocked)).sum ∧
    s'.baseSupply = s.baseSupply ∧
    s'.penBurned = s.penBurned +
      ((claimable s.epoch (s.queue c)).map (fun q => (q.locked - q.unlocked) * s.burnPct / MAXPCT)).sum ∧
    s'.collected = s.collected +
      ((claimable s.epoch (s.queue c)).map (fun q => (q.locked - q.unlocked) -
        (q.locked - q.unlocked) * s.burnPct / MAXPCT)).sum := by
  simp only [claimUnlocked, Option.bind_eq_bind, Option.bind_eq_some_iff, req_eq_some,
    Option.pure_def, Option.some.injEq, Prod.mk.injEq] at h
  obtain ⟨_, hne, ⟨s1, paid⟩, hp, rfl, rfl⟩ := h
  obtain ⟨_, a2, _, _, _, _, _, _, _, _, a11, a12, a13, _, a15, _⟩ := claimEntries_supply _ hp
  refine ⟨hne, ?_, ?_, ?_, a2, a11, a12⟩
  · show s.queue c = _ ++ updO s1.queue c _ c
    rw [updO_same]
    exact (claimable_prefix s.epoch (s.queue c)).symm
  · rw [a13]
  · show upd s1.base c (s1.base c + paid) c = _
    rw [upd_same, a15 c hc, a13]

/-- what a successful `lockTokens` did, in observable terms -/
theorem lockTokens_effect {s s' : St} {c amt epochs dest : Nat} {o : Out}
    (hd : (if dest = 0 then c else dest) < SCBASE)
    (h : lockTokens s c amt epochs dest = some (s', o)) :
    s.paused = false ∧ isListed s.opts epochs = true ∧ s.epoch < lockUnlock s epochs ∧ 0 < amt ∧
    o = ⟨s.nonceFor (lockUnlock s epochs), amt, 0⟩ ∧
    s'.unlockOf (s.nonceFor (lockUnlock s epochs)) = some (lockUnlock s epochs) ∧
    s'.bal (if dest = 0 then c else dest) (s.nonceFor (lockUnlock s epochs)) =
      s.bal (if dest = 0 then c else dest) (s.nonceFor (lockUnlock s epochs)) + amt ∧
    s'.base c + amt = s.base c ∧ s'.baseSupply + amt = s.baseSupply ∧
    s'.burnLock = s.burnLock + amt ∧ s'.circ = s.circ + amt := by
  obtain ⟨h1, _, h3, h4, h5, h6, h7, h8, rfl⟩ := lockTokens_spec h
  generalize (if dest = 0 then c else dest) = d at *
  have hN := ensureNonce_isNonce s (lockUnlock s epochs)
  refine ⟨h1, h3, h4, h5, h8, ?_, ?_, ?_, ?_, rfl, rfl⟩
  · have h1 := hN.1
    unfold St.unlockOf
    have : ¬ s.nonceFor (lockUnlock s epochs) = 0 := by omega
    simp only [this, if_false]
    exact hN.2
  · simp only [setEnergy_bal, credit_bal, upd2_same, upd_same]
    rw [ensureNonce_bal s _ hd]
  · show upd s.base c (s.base c - amt) c + amt = s.base c
    rw [upd_same]; omega
  · show s.baseSupply - amt + amt = s.baseSupply
    omega

/-- `claimUnlockedTokens` fails while the oldest entry is still unbonding -/
theorem claim_fails_unripe {s : St} {c : Nat} {e : UEntry} {rest : List UEntry}
    (hq : s.queue c = e :: rest) (hlt : s.epoch < e.unlock) : claimUnlocked s c = none := by
  have : claimable s.epoch (s.queue c) = [] := by
    unfold claimable
    rw [hq, List.takeWhile_cons]
    have : ¬ e.unlock ≤ s.epoch := by omega
    simp [this]
  simp [claimUnlocked, this]

/-- a percentage below 100 % leaves something: `⌊amt·pct/10000⌋ < amt` for `amt > 0` -/
theorem penalty_lt_of_pct_lt {amt pct : Nat} (ha : 0 < amt) (hp : pct < MAXPCT) :
    amt * pct / MAXPCT < amt := by
  have hM : 0 < MAXPCT := by decide
  rw [Nat.div_lt_iff_lt_mul hM]
  exact Nat.mul_lt_mul_of_pos_left hp ha

end Mx.Energy
