/-
  Farm-staking: the frozen pool `R` the boosted formula reads (`totalRewardsForWeek(w)`) IS the
  ghost `collected w` (what was moved from the week's accumulated boosted share into its pool).

  Invariant `Frozen s` (proved for every history from `init`): for every week `w`,
  `totalRewardsForWeek(w)` is empty — and then, if `w` is one of the four claimable weeks or later,
  nothing was ever collected for it — or it is the single entry `(0, collected w)`.
  (An old week's list is cleared by the weekly update, week `current − 5`; it is outside every claim
  window from then on, so it is never frozen again.)
-/
import MxModel.Lemmas.StakingLogAmount

namespace Mx.Staking

open Mx.Weekly

def FrozenRel (tr : Nat → List (Tok × Nat)) (coll : Nat → Nat) (W : Nat) : Prop :=
  ∀ w, (tr w = [] ∧ (W ≤ w + 4 → coll w = 0)) ∨ tr w = [(0, coll w)]

theorem FrozenRel.mono {tr : Nat → List (Tok × Nat)} {coll : Nat → Nat} {W W' : Nat}
    (h : FrozenRel tr coll W) (hW : W ≤ W') : FrozenRel tr coll W' := by
  intro w
  rcases h w with ⟨h1, h2⟩ | h1
  · exact Or.inl ⟨h1, fun hw => h2 (by omega)⟩
  · exact Or.inr h1

/-- clearing lists of weeks outside the claimable range keeps the relation -/
theorem FrozenRel.clear {tr tr' : Nat → List (Tok × Nat)} {coll : Nat → Nat} {W : Nat}
    (h : FrozenRel tr coll W)
    (hc : ∀ w, (W ≤ w + 4 → tr' w = tr w) ∧ (tr' w = tr w ∨ tr' w = [])) : FrozenRel tr' coll W := by
  intro w
  obtain ⟨hin, hor⟩ := hc w
  rcases hor with e | e
  · rw [e]; exact h w
  · refine Or.inl ⟨e, fun hw => ?_⟩
    have e2 := hin hw
    rcases h w with ⟨_, h2⟩ | h1
    · exact h2 hw
    · rw [e2, h1] at e
      cases e

/-- freezing the pool of a claimable week keeps the relation -/
theorem collectAndGet_frozen (c' : BCfg) (g : Weekly.St) (b : B) (week W : Nat) (hW : W ≤ week + 4)
    (h : FrozenRel g.totalRewards b.collected W) :
    FrozenRel (collectAndGet (collectBoosted c') g b week).1.totalRewards
      (collectAndGet (collectBoosted c') g b week).2.1.collected W := by
  unfold collectAndGet
  split
  · rename_i hemp
    have htr : g.totalRewards week = [] := List.isEmpty_iff.mp hemp
    have hc0 : b.collected week = 0 := by
      rcases h week with ⟨_, h2⟩ | h1
      · exact h2 hW
      · rw [htr] at h1; cases h1
    intro w
    simp only [collectBoosted]
    by_cases hw : w = week
    · subst hw
      rw [upd_same, upd_same, hc0, Nat.zero_add]
      exact Or.inr rfl
    · rw [upd_other _ _ hw, upd_other _ _ hw]
      exact h w
  · exact h

/-- the hook either leaves the module state and `collected` alone or leaves what freezing the week's
    pool leaves -/
theorem boostedRewards_cases {c' : BCfg} {f : Nat} {g g' : Weekly.St} {b b' : B}
    {week e E : Nat} {r : List (Tok × Nat)}
    (h : boostedRewards c' f g b week e E = some (g', b', r)) :
    (g' = g ∧ b'.collected = b.collected) ∨
    (g' = (collectAndGet (collectBoosted c') g b week).1 ∧
      b'.collected = (collectAndGet (collectBoosted c') g b week).2.1.collected) := by
  unfold boostedRewards at h
  simp only at h
  split at h
  · simp only [Option.some.injEq, Prod.mk.injEq] at h
    obtain ⟨rfl, rfl, _⟩ := h
    exact Or.inl ⟨rfl, rfl⟩
  · simp only [Option.bind_eq_bind, Option.bind_eq_some_iff] at h
    obtain ⟨fac, hfac, h⟩ := h
    split at h
    · simp only [Option.pure_def, Option.some.injEq, Prod.mk.injEq] at h
      obtain ⟨rfl, rfl, _⟩ := h
      exact Or.inl ⟨rfl, rfl⟩
    · right
      generalize collectAndGet (collectBoosted c') g b week = cg at h ⊢
      obtain ⟨g1, b1, lst⟩ := cg
      simp only at h ⊢
      match lst, h with
      | [], h =>
        simp only [Option.pure_def, Option.some.injEq, Prod.mk.injEq] at h
        obtain ⟨rfl, rfl, _⟩ := h
        exact ⟨rfl, rfl⟩
      | [p], h =>
        simp only at h
        split at h
        · simp only [Option.pure_def, Option.some.injEq, Prod.mk.injEq] at h
          obtain ⟨rfl, rfl, _⟩ := h
          exact ⟨rfl, rfl⟩
        · simp only [Option.bind_eq_some_iff, req_eq_some] at h
          obtain ⟨_, hc, h⟩ := h
          split at h
          · simp only [Option.pure_def, Option.some.injEq, Prod.mk.injEq] at h
            obtain ⟨rfl, rfl, _⟩ := h
            exact ⟨rfl, rfl⟩
          · simp only [Option.bind_eq_some_iff, sub?_eq_some, Option.pure_def,
              Option.some.injEq, Prod.mk.injEq] at h
            obtain ⟨rem, _, rfl, rfl, _⟩ := h
            exact ⟨rfl, rfl⟩
      | _ :: _ :: _, h => simp at h

theorem boostedRewards_frozen {c' : BCfg} {f : Nat} {g g' : Weekly.St} {b b' : B}
    {week e E : Nat} {r : List (Tok × Nat)} {W : Nat}
    (h : boostedRewards c' f g b week e E = some (g', b', r)) (hW : W ≤ week + 4)
    (hF : FrozenRel g.totalRewards b.collected W) : FrozenRel g'.totalRewards b'.collected W := by
  rcases boostedRewards_cases h with ⟨rfl, hc⟩ | ⟨rfl, hc⟩
  · rw [hc]; exact hF
  · rw [hc]; exact collectAndGet_frozen c' g b week W hW hF

theorem claimLoop_frozen (c' : BCfg) (f W : Nat) : ∀ (n : Nat) {a a' : ClaimAcc B},
    claimLoop (boostedRewards c' f) n a = some a' → W ≤ a.p.week + 4 →
    FrozenRel a.g.totalRewards a.c.collected W → FrozenRel a'.g.totalRewards a'.c.collected W := by
  intro n
  induction n with
  | zero =>
    intro a a' h _ hF
    simp only [claimLoop, Option.some.injEq] at h
    subst h; exact hF
  | succ n ih =>
    intro a a' h hW hF
    simp only [claimLoop, Option.bind_eq_some_iff] at h
    obtain ⟨a1, h1, h2⟩ := h
    obtain ⟨r, hr, hp, _⟩ := claimSingle_spec h1
    have hw1 : a1.p.week = a.p.week + 1 := by rw [hp]; rfl
    exact ih h2 (by omega) (boostedRewards_frozen hr hW hF)

theorem claimMulti_frozen {c' : BCfg} {f : Nat} {g g' : Weekly.St} {b b' : B} {user W : Nat}
    {cur : Energy} {r : List (Tok × Nat)}
    (h : claimMulti (boostedRewards c' f) g b user W cur = some (g', b', r))
    (hF : FrozenRel g.totalRewards b.collected W) : FrozenRel g'.totalRewards b'.collected W := by
  obtain ⟨g1, a, h1, hle, ha, rfl, rfl, _⟩ := claimMulti_spec h
  obtain ⟨w1, w2, _⟩ := loop_window _ W hle
  have hF1 : FrozenRel g1.totalRewards b.collected W := hF.clear (updateUser_rewards_frame h1)
  have := claimLoop_frozen c' f W _ ha (by simp only; omega) hF1
  exact this

theorem claimBoostedYields_frozen {s : St} {u f : Nat} {r : Weekly.St × B × Nat}
    (h : claimBoostedYields s u f = some r)
    (hF : FrozenRel s.w.totalRewards s.b.collected s.week) :
    FrozenRel r.1.totalRewards r.2.1.collected s.week := by
  have h0 := h
  unfold claimBoostedYields at h
  split at h
  · rename_i hc
    obtain ⟨e1, _, hu⟩ := claimBoostedYields_none_spec hc h0
    rw [e1]
    exact hF.clear (updateEnergyAndProgress_rewards_frame hu)
  · simp only [Option.bind_eq_bind, Option.bind_eq_some_iff, Option.pure_def, Option.some.injEq] at h
    obtain ⟨c', _, r', hr, rfl⟩ := h
    exact claimMulti_frozen hr hF

/-- **the invariant**: every week's frozen pool list is empty (nothing collected, for claimable and
    later weeks) or the single entry `(0, collected w)` -/
def Frozen (s : St) : Prop := FrozenRel s.w.totalRewards s.b.collected s.week

theorem Frozen.init (epoch block dsc maxApr minUnbond perBlock : Nat) (accts wl : List Nat) :
    Frozen (init epoch block dsc maxApr minUnbond perBlock accts wl) :=
  fun _ => Or.inl ⟨rfl, fun _ => rfl⟩

theorem Via.frozen {s s' : St} {u : Nat} (hv : Via s s' u) (hwk : s'.week = s.week) (hF : Frozen s) :
    Frozen s' := by
  obtain ⟨t, r, ht, hr, _, hcoll, hrew⟩ := hv
  have hFt : FrozenRel r.1.totalRewards r.2.1.collected s.week := by
    rcases ht with rfl | rfl
    · exact claimBoostedYields_frozen hr hF
    · exact claimBoostedYields_frozen (s := genSt s) hr hF
  unfold Frozen
  rw [hwk, hcoll]
  exact hFt.clear hrew

/-- what an operation without a claimer (other than the undistributed collection) does to the frozen
    pool lists: at most week `current − 5` is cleared -/
theorem stepCore_quiet_rewards {s s' : St} {op : Op} {o : Out} (h : stepCore s op = some (s', o))
    (hc : claimerOf s op = none) (hop : op ≠ .collectUndistributed) :
    ∀ w, (s.week ≤ w + 4 → s'.w.totalRewards w = s.w.totalRewards w) ∧
      (s'.w.totalRewards w = s.w.totalRewards w ∨ s'.w.totalRewards w = []) := by
  have same : s'.w = s.w → ∀ w, (s.week ≤ w + 4 → s'.w.totalRewards w = s.w.totalRewards w) ∧
      (s'.w.totalRewards w = s.w.totalRewards w ∨ s'.w.totalRewards w = []) := by
    intro e w; rw [e]; exact ⟨fun _ => rfl, Or.inl rfl⟩
  cases op <;> simp only [stepCore] at h
  case claimBehalf c ps =>
    simp only [claimOnBehalf, Option.bind_eq_bind, Option.bind_eq_some_iff] at h
    obtain ⟨user, hu, _⟩ := h
    have : claimOwner s.md ps = none := hc
    rw [this] at hu; cases hu
  case unbond c p =>
    obtain ⟨_, _, _, _, _, _, rfl⟩ := unbondFarm_iff.1 h
    exact same rfl
  case «calc» q a t =>
    simp only [Option.map_eq_some_iff, Prod.mk.injEq] at h
    obtain ⟨_, _, rfl, _⟩ := h
    exact same rfl
  case transfer a b p =>
    simp only [transfer, Option.bind_eq_bind, Option.bind_eq_some_iff, req_eq_some,
      Option.pure_def, Option.some.injEq, Prod.mk.injEq] at h
    obtain ⟨_, _, hold0, _, rfl, _⟩ := h
    exact same rfl
  case setEnergy u a l =>
    simp only [Option.some.injEq, Prod.mk.injEq] at h
    obtain ⟨rfl, _⟩ := h
    exact same rfl
  case updateEnergy u =>
    simp only [updateEnergy, Option.bind_eq_bind, Option.bind_eq_some_iff, Option.pure_def,
      Option.some.injEq, Prod.mk.injEq] at h
    obtain ⟨g, hg, rfl, _⟩ := h
    have hg2 : updateEnergyAndProgress s.w u s.week (Energy.queried (s.energy u) s.epoch) = some g := by
      unfold updateEnergyForUser at hg
      cases hq : s.w.progress u with
      | none =>
        simp only [hq] at hg
        exact hg
      | some p =>
        simp only [hq, Option.bind_eq_bind, Option.bind_eq_some_iff] at hg
        obtain ⟨_, _, h2⟩ := hg
        exact h2
    exact updateEnergyAndProgress_rewards_frame hg2
  case topUp x =>
    simp only [topUp, Option.bind_eq_bind, Option.bind_eq_some_iff, req_eq_some,
      Option.pure_def, Option.some.injEq, Prod.mk.injEq] at h
    obtain ⟨_, _, rfl, _⟩ := h
    exact same rfl
  case withdraw x =>
    simp only [withdraw, Option.bind_eq_bind, Option.bind_eq_some_iff, req_eq_some,
      sub?_eq_some, Option.pure_def, Option.some.injEq, Prod.mk.injEq] at h
    obtain ⟨⟨s1, c1⟩, hg, rem, _, _, _, cap, _, bal1, _, rfl, _⟩ := h
    obtain ⟨_, _, rfl, rfl⟩ := generate_spec hg
    exact same rfl
  case setMaxApr x =>
    simp only [setMaxApr, Option.bind_eq_bind, Option.bind_eq_some_iff] at h
    obtain ⟨_, _, h⟩ := h
    obtain ⟨_, rfl⟩ := settleThen_eq h
    exact same rfl
  case setPerBlock x =>
    simp only [setPerBlock, Option.bind_eq_bind, Option.bind_eq_some_iff] at h
    obtain ⟨_, _, h⟩ := h
    obtain ⟨_, rfl⟩ := settleThen_eq h
    exact same rfl
  case startProduce =>
    simp only [startProduce, Option.bind_eq_bind, Option.bind_eq_some_iff, req_eq_some,
      Option.pure_def, Option.some.injEq, Prod.mk.injEq] at h
    obtain ⟨_, _, _, _, rfl, _⟩ := h
    exact same rfl
  case endProduce =>
    obtain ⟨_, rfl⟩ := settleThen_eq h
    exact same rfl
  case setMinUnbond e =>
    simp only [setMinUnbond, Option.bind_eq_bind, Option.bind_eq_some_iff, req_eq_some,
      Option.pure_def, Option.some.injEq, Prod.mk.injEq] at h
    obtain ⟨_, _, rfl, _⟩ := h
    exact same rfl
  case setBoostedPct p =>
    simp only [setBoostedPct, Option.bind_eq_bind, Option.bind_eq_some_iff, req_eq_some] at h
    obtain ⟨_, _, h⟩ := h
    obtain ⟨_, rfl⟩ := settleThen_eq h
    exact same rfl
  case setFactors x =>
    simp only [setFactors, Option.bind_eq_bind, Option.bind_eq_some_iff, req_eq_some,
      Option.pure_def, Option.some.injEq, Prod.mk.injEq] at h
    obtain ⟨_, _, _, _, c, _, rfl, _⟩ := h
    exact same rfl
  case collectUndistributed => exact absurd rfl hop
  case pause =>
    simp only [Option.some.injEq, Prod.mk.injEq] at h
    obtain ⟨rfl, _⟩ := h
    exact same rfl
  case resume =>
    simp only [Option.some.injEq, Prod.mk.injEq] at h
    obtain ⟨rfl, _⟩ := h
    exact same rfl
  case hubWhitelist u a =>
    simp only [Option.bind_eq_bind, Option.bind_eq_some_iff, req_eq_some,
      Option.pure_def, Option.some.injEq, Prod.mk.injEq] at h
    obtain ⟨_, _, rfl, _⟩ := h
    exact same rfl
  case hubRemove u a =>
    simp only [Option.bind_eq_bind, Option.bind_eq_some_iff, req_eq_some,
      Option.pure_def, Option.some.injEq, Prod.mk.injEq] at h
    obtain ⟨_, _, rfl, _⟩ := h
    exact same rfl
  case advance b e =>
    simp only [Option.some.injEq, Prod.mk.injEq] at h
    obtain ⟨rfl, _⟩ := h
    exact same rfl
  all_goals cases hc

/-- **one transaction keeps the invariant** (any operation, any arguments) -/
theorem step_frozen {s s' : St} {op : Op} {o : Out} (hF : Frozen s) (h : step s op = some (s', o)) :
    Frozen s' := by
  have h0 := h
  simp only [step, Option.bind_eq_bind, Option.bind_eq_some_iff] at h0
  obtain ⟨_, _, hcore⟩ := h0
  by_cases hop : op = .collectUndistributed
  · subst hop
    have hs : collectUndistributed s = some (s', o) := hcore
    have hfx := collectUndistributed_fx hs
    have hcoll : s'.b.collected = s.b.collected := by
      obtain ⟨_, ⟨_, rfl⟩ | ⟨_, _, _, _, _, hc, _⟩⟩ := collectUndistributed_spec hs
      · rfl
      · exact hc
    unfold Frozen
    rw [hfx.w, hcoll, week_eq hfx.fw hfx.ep]
    exact hF
  · have fx := step_fx h
    cases fx with
    | claim u hc hfx => exact (step_via h hc).frozen (week_eq hfx.fw hfx.ep) hF
    | collect hop' _ => exact absurd hop' hop
    | quiet hc hfx =>
      have hfr := stepCore_quiet_rewards hcore hc hop
      have h1 : FrozenRel s'.w.totalRewards s.b.collected s.week := hF.clear hfr
      unfold Frozen
      rw [hfx.coll]
      exact h1.mono (week_mono hfx.fw hfx.ep)

theorem next_frozen {s : St} (hF : Frozen s) (op : Op) : Frozen (next s op) := by
  unfold next
  cases hs : step s op with
  | none => exact hF
  | some r => exact step_frozen (s' := r.1) (o := r.2) hF hs

theorem run_frozen : ∀ (ops : List Op) {s : St}, Frozen s → Frozen (run s ops)
  | [], _, h => h
  | op :: ops, s, h => by rw [run_cons]; exact run_frozen ops (next_frozen h op)

/-- under the invariant a non-zero frozen pool read off `totalRewardsForWeek(w)` IS `collected w` -/
theorem Frozen.rOf_eq {s : St} (hF : Frozen s) {w : Nat} (h : rOf (s.w.totalRewards w) ≠ 0) :
    rOf (s.w.totalRewards w) = s.b.collected w := by
  rcases hF w with ⟨e, _⟩ | e
  · rw [e] at h; exact absurd rfl h
  · rw [e]; rfl

/-- **every log entry, with `R` = the ghost pool**: under the invariant an entry logged by `op` in
    `s` is the boosted formula on `R = collected w` of the state after `op` -/
theorem stepLog_amount_collected {s : St} (hF : Frozen s) {op : Op} {e : Entry}
    (h : e ∈ stepLog s op) :
    ∃ fa, facOf s.b.cfg s.week e.week = some fa ∧
      e.amount = boostedAmount fa ((next s op).b.collected e.week) (s.userTotal e.user)
        (s.b.farmSupply e.week) (eForP s.w.progress e.user e.week) (s.w.totalEnergy e.week) ∧
      s.w.totalEnergy e.week ≠ 0 ∧ s.b.farmSupply e.week ≠ 0 ∧
      fa.minE ≤ eForP s.w.progress e.user e.week ∧ fa.minF ≤ s.userTotal e.user ∧
      (next s op).b.collected e.week ≠ 0 := by
  obtain ⟨fa, h1, h2, h3, h4, h5, h6, h7⟩ := stepLog_amount h
  have hR := (next_frozen hF op).rOf_eq h7
  rw [hR] at h2 h7
  exact ⟨fa, h1, h2, h3, h4, h5, h6, h7⟩

end Mx.Staking
