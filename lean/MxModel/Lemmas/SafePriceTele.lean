/-
  C13 helpers, part 5: telescoping along the ring (any two retained observations differ by the
  sum of the start-of-round reserves of the rounds between them), physical ↔ logical indices,
  exactness of the interpolation between neighbours.
-/
import MxModel.Lemmas.SafePriceSearch

namespace Mx.SafePrice
open Mx Mx.Pair

def l1 (log : Log) : Nat → Nat := fun k => (log k).r1
def l2 (log : Log) : Nat → Nat := fun k => (log k).r2
def lS (log : Log) : Nat → Nat := fun k => (log k).S

/-- `b` is `a` plus everything that happened in the rounds `(a.round, b.round]` -/
structure Tele (log : Log) (a b : Obs) : Prop where
  le : a.round ≤ b.round
  w : b.w = a.w + (b.round - a.round)
  acc1 : b.acc1 = a.acc1 + rsum (l1 log) a.round b.round
  acc2 : b.acc2 = a.acc2 + rsum (l2 log) a.round b.round
  accS : b.accS = a.accS + rsum (lS log) a.round b.round
  pos : ∀ k, a.round < k → k ≤ b.round → 0 < (log k).r1 ∧ 0 < (log k).r2 ∧ 0 < (log k).S

theorem Tele.refl (log : Log) (a : Obs) : Tele log a a :=
  ⟨Nat.le_refl _, by omega, by simp [rsum_of_le], by simp [rsum_of_le], by simp [rsum_of_le],
   fun k h1 h2 => by omega⟩

theorem Tele.trans {log : Log} {a b c : Obs} (h1 : Tele log a b) (h2 : Tele log b c) :
    Tele log a c := by
  obtain ⟨a1, a2, a3, a4, a5, a6⟩ := h1
  obtain ⟨b1, b2, b3, b4, b5, b6⟩ := h2
  refine ⟨by omega, by omega, ?_, ?_, ?_, fun k k1 k2 => ?_⟩
  · rw [rsum_split (l1 log) a1 b1]; omega
  · rw [rsum_split (l2 log) a1 b1]; omega
  · rw [rsum_split (lS log) a1 b1]; omega
  · by_cases hk : k ≤ b.round
    · exact a6 k k1 hk
    · exact b6 k (by omega) k2

/-- the per-round reserves between two linked observations are constant -/
theorem Link.const {log : Log} {a b : Obs} (h : Link log a b) :
    ∀ k, a.round < k → k ≤ b.round →
      (log k).r1 = (log b.round).r1 ∧ (log k).r2 = (log b.round).r2 ∧ (log k).S = (log b.round).S := by
  obtain ⟨h1, _, h3⟩ := h
  intro k k1 k2
  obtain ⟨_, _, _, e1, e2, e3⟩ := h3 k k1 k2
  obtain ⟨_, _, _, f1, f2, f3⟩ := h3 b.round h1 (Nat.le_refl _)
  have hg : 0 < b.round - a.round := by omega
  refine ⟨?_, ?_, ?_⟩
  · exact Nat.eq_of_mul_eq_mul_left hg (by omega)
  · exact Nat.eq_of_mul_eq_mul_left hg (by omega)
  · exact Nat.eq_of_mul_eq_mul_left hg (by omega)

theorem Link.tele {log : Log} {a b : Obs} (h : Link log a b) : Tele log a b := by
  have hc := h.const
  obtain ⟨h1, h2, h3⟩ := h
  obtain ⟨_, _, _, f1, f2, f3⟩ := h3 b.round h1 (Nat.le_refl _)
  refine ⟨by omega, h2, ?_, ?_, ?_, fun k k1 k2 => ?_⟩
  · rw [rsum_const (l1 log) (c := (log b.round).r1) (fun k k1 k2 => (hc k k1 k2).1)]; exact f1
  · rw [rsum_const (l2 log) (c := (log b.round).r2) (fun k k1 k2 => (hc k k1 k2).2.1)]; exact f2
  · rw [rsum_const (lS log) (c := (log b.round).S) (fun k k1 k2 => (hc k k1 k2).2.2)]; exact f3
  · obtain ⟨p1, p2, p3, _⟩ := h3 k k1 k2
    exact ⟨p1, p2, p3⟩

/-- strictly later, and telescoping -/
def TeleLt (log : Log) (a b : Obs) : Prop := Tele log a b ∧ a.round < b.round

theorem linked_pairwise {log : Log} : ∀ {l : List Obs}, Linked log l → l.Pairwise (TeleLt log)
  | [], _ => List.Pairwise.nil
  | [_], _ => by simp
  | a :: b :: t, h => by
    have ih0 := linked_pairwise (l := b :: t) h.2
    have ih := List.pairwise_cons.mp ih0
    rw [List.pairwise_cons]
    refine ⟨fun x hx => ?_, ih0⟩
    have hab : TeleLt log a b := ⟨h.1.tele, h.1.1⟩
    rcases List.mem_cons.mp hx with rfl | hx
    · exact hab
    · have hbx := ih.1 x hx
      exact ⟨hab.1.trans hbx.1, by have := hab.2; have := hbx.2; omega⟩

theorem linked_getElem {log : Log} : ∀ {l : List Obs}, Linked log l →
    ∀ (i : Nat) (h : i + 1 < l.length), Link log (l[i]'(by omega)) l[i + 1]
  | [], _, i, h => by simp at h
  | [_], _, i, h => by simp at h
  | a :: b :: t, hl, 0, _ => hl.1
  | a :: b :: t, hl, i + 1, h => by
    have := linked_getElem (l := b :: t) hl.2 i (by simpa using h)
    simpa using this

/-! ### physical and logical positions -/

/-- logical position (0 = oldest) of the 1-based physical index `i` -/
def pos (p : SP) (i : Nat) : Nat :=
  if i ≤ p.cur then p.obs.length - p.cur + (i - 1) else i - p.cur - 1

theorem logical_length (p : SP) (h : p.cur ≤ p.obs.length) : (logical p).length = p.obs.length := by
  simp [logical]; omega

theorem nth_eq_getElem {p : SP} {i : Nat} (h1 : 1 ≤ i) (h2 : i ≤ p.obs.length) :
    nth p i = p.obs[i - 1]'(by omega) := by
  unfold nth
  rw [List.getD_eq_getElem?_getD, List.getElem?_eq_getElem (by omega)]
  rfl

theorem logical_getElem {p : SP} (hc : p.cur ≤ p.obs.length) {i : Nat} (h1 : 1 ≤ i)
    (h2 : i ≤ p.obs.length) :
    (logical p)[pos p i]'(by rw [logical_length p hc]; unfold pos; split <;> omega) = nth p i := by
  rw [nth_eq_getElem h1 h2]
  unfold logical
  by_cases hi : i ≤ p.cur
  · have hp : pos p i = p.obs.length - p.cur + (i - 1) := by simp [pos, hi]
    simp only [hp]
    rw [List.getElem_append_right (by simp)]
    simp
  · have hp : pos p i = i - p.cur - 1 := by simp [pos, hi]
    simp only [hp]
    rw [List.getElem_append_left (by simp; omega)]
    simp only [List.getElem_drop]
    congr 1
    omega

/-- a relation that holds pairwise along the logical order holds between physical positions -/
theorem ring_pairwise {R : Obs → Obs → Prop} {p : SP} (hc : p.cur ≤ p.obs.length)
    (hl : (logical p).Pairwise R)
    {i j : Nat} (i1 : 1 ≤ i) (i2 : i ≤ p.obs.length) (j1 : 1 ≤ j) (j2 : j ≤ p.obs.length)
    (h : pos p i < pos p j) : R (nth p i) (nth p j) := by
  have hp := List.pairwise_iff_getElem.mp hl (pos p i) (pos p j)
    (by rw [logical_length p hc]; unfold pos; split <;> omega)
    (by rw [logical_length p hc]; unfold pos; split <;> omega) h
  rwa [logical_getElem hc i1 i2, logical_getElem hc j1 j2] at hp

/-- any two retained observations, the logically earlier first, telescope -/
theorem ring_tele {log : Log} {p : SP} (hc : p.cur ≤ p.obs.length) (hl : Linked log (logical p))
    {i j : Nat} (i1 : 1 ≤ i) (i2 : i ≤ p.obs.length) (j1 : 1 ≤ j) (j2 : j ≤ p.obs.length)
    (h : pos p i < pos p j) : TeleLt log (nth p i) (nth p j) :=
  ring_pairwise hc (linked_pairwise hl) i1 i2 j1 j2 h

/-- same logical position, same observation -/
theorem nth_eq_of_pos {p : SP} (hc : p.cur ≤ p.obs.length)
    {i j : Nat} (i1 : 1 ≤ i) (i2 : i ≤ p.obs.length) (j1 : 1 ≤ j) (j2 : j ≤ p.obs.length)
    (h : pos p i = pos p j) : nth p i = nth p j := by
  have e1 := logical_getElem hc i1 i2
  have e2 := logical_getElem hc j1 j2
  simp only [h] at e1
  rw [← e1, ← e2]

/-- logically consecutive observations are linked -/
theorem ring_link {log : Log} {p : SP} (hc : p.cur ≤ p.obs.length) (hl : Linked log (logical p))
    {i j : Nat} (i1 : 1 ≤ i) (i2 : i ≤ p.obs.length) (j1 : 1 ≤ j) (j2 : j ≤ p.obs.length)
    (h : pos p i + 1 = pos p j) : Link log (nth p i) (nth p j) := by
  have hj : pos p j < (logical p).length := by
    rw [logical_length p hc]; unfold pos; split <;> omega
  have hp := linked_getElem hl (pos p i) (by omega)
  simp only [h] at hp
  rwa [logical_getElem hc i1 i2, logical_getElem hc j1 j2] at hp

end Mx.SafePrice
