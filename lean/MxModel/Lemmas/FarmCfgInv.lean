/-
  The stored boosted-yields configuration of the farm model (Core/Farm.lean, `St.b.cfg`) over every
  transaction and every history (audit gap 16, property C11):

  * `CfgOK`: a stored config has its 5 slots (`WF`) and `last_update_week ≤` the current week —
    inductive over `step` for ALL operations and arguments, no hypothesis on the users list;
  * `Trans`: what one successful transaction can do to the stored config: leave it, create it
    (`BCfg.new W f`, only `setBoostedYieldsFactors`), or replace it by `cfg.update W new` for the
    current week `W` (`setBoostedYieldsFactors`: `new = some f`; the freeze of a week inside the
    boosted claim: `new = none`); time only moves forward;
  * `Frozen c c'`: the later config `c'` still answers, for every week that was already past when
    `c` was stored and is still inside `c'`'s window, with the factors `c` recorded.
-/
import MxModel.Lemmas.FarmPool

namespace Mx.Farm

open Mx.Weekly (upd Energy)

/-! ### the view -/

/-- the cells the config invariant reads -/
structure CfgV where
  cfg : Option BCfg
  epoch : Nat
  fws : Nat

def cfgv (s : St) : CfgV := ⟨s.b.cfg, s.epoch, s.firstWeekStart⟩

def CfgV.week (v : CfgV) : Option Nat := Weekly.weekOf v.epoch v.fws

theorem cv_week (s : St) : (cfgv s).week = s.week := rfl

theorem cv_of_plv {s s' : St} (h : poolView s' = poolView s) : cfgv s' = cfgv s := by
  simp only [poolView, PoolView.mk.injEq] at h
  obtain ⟨hb, _, he, hf, _⟩ := h
  simp only [cfgv, hb, he, hf]

/-! ### helpers that do not touch the view -/

theorem takePayments_cfgv {l : List (Nat × Nat)} {s s' : St} {c : Nat}
    (h : takePayments s c l = some s') : cfgv s' = cfgv s := cv_of_plv (takePayments_plv h)

theorem checkAndUpdate_cfgv {l : List (Nat × Nat)} {s s' : St} {c : Nat}
    (h : checkAndUpdate s c l = some s') : cfgv s' = cfgv s := cv_of_plv (checkAndUpdate_plv h)

theorem createToken_cfgv {s s' : St} {d n : Nat} {a : Attr} (h : createToken s d a = some (s', n)) :
    cfgv s' = cfgv s := cv_of_plv (createToken_plv h)

theorem removeFarming_cfgv {s s' : St} {a p : Nat} (h : removeFarming s a p = some s') :
    cfgv s' = cfgv s := cv_of_plv (removeFarming_plv h)

theorem payReward_cfgv {s s' : St} {u base boosted : Nat} (h : payReward s u base boosted = some s') :
    cfgv s' = cfgv s := by
  obtain ⟨br, e, rfl, _⟩ := payReward_spec h
  rfl

theorem payRewardIf_cfgv {s s' : St} {k : Kind} {u base boosted : Nat}
    (h : payRewardIf s k u base boosted = some s') : cfgv s' = cfgv s := by
  unfold payRewardIf at h
  split at h
  · exact payReward_cfgv h
  · simp only [Option.some.injEq] at h
    subst h
    rfl

theorem compoundMove_cfgv {s s' : St} {base boosted : Nat} (h : compoundMove s base boosted = some s') :
    cfgv s' = cfgv s := by
  simp only [compoundMove, Option.bind_eq_bind, Option.bind_eq_some_iff, sub?_eq_some,
    Option.pure_def, Option.some.injEq] at h
  obtain ⟨_, _, rfl⟩ := h
  rfl

theorem updateEnergyAndProgress_cfgv {s s' : St} {u : Nat} (h : updateEnergyAndProgress s u = some s') :
    cfgv s' = cfgv s := by
  obtain ⟨g, rfl⟩ := updateEnergyAndProgress_spec h
  rfl

theorem claimTail_cfgv {s s' : St} {c : Bool} {u base boosted : Nat}
    (h : claimTail s c u base boosted = some s') : cfgv s' = cfgv s := by
  unfold claimTail at h
  split at h
  · simp only [Option.bind_eq_some_iff] at h
    obtain ⟨s1, h1, h2⟩ := h
    exact (updateEnergyAndProgress_cfgv h2).trans (compoundMove_cfgv h1)
  · exact payReward_cfgv h

theorem generate_cfgv {s s' : St} {c c' : Cache} (h : generate s c = some (s', c')) : cfgv s' = cfgv s := by
  obtain ⟨b', rfl, _, _, hb⟩ := generate_spec h
  rcases hb with ⟨_, rfl⟩ | ⟨_, W, _, rfl⟩ <;> rfl

theorem setFarmSupplyWeek_cfgv {s s' : St} {v : Nat} (h : setFarmSupplyWeek s v = some s') :
    cfgv s' = cfgv s := by
  obtain ⟨W, _, rfl⟩ := setFarmSupplyWeek_spec h
  rfl

theorem clearUserEnergyIfNeeded_cfgv {s s' : St} {u : Nat} (h : clearUserEnergyIfNeeded s u = some s') :
    cfgv s' = cfgv s := by
  unfold clearUserEnergyIfNeeded at h
  split at h
  · simp only [Option.some.injEq] at h; subst h; rfl
  · simp only [Option.bind_eq_bind, Option.bind_eq_some_iff, Option.pure_def, Option.some.injEq] at h
    obtain ⟨W, _, mem, _, g, _, rfl⟩ := h
    rfl

theorem settle_cfgv {s s' : St} (h : settle s = some s') : cfgv s' = cfgv s := by
  simp only [settle, Option.bind_eq_bind, Option.bind_eq_some_iff, Option.pure_def,
    Option.some.injEq] at h
  obtain ⟨⟨s1, c1⟩, h1, rfl⟩ := h
  exact (generate_cfgv h1 : cfgv s1 = cfgv s)

theorem updateEnergyForUser_cfgv {s s' : St} {u : Nat} (h : updateEnergyForUser s u = some s') :
    cfgv s' = cfgv s := by
  simp only [updateEnergyForUser, Option.bind_eq_bind, Option.bind_eq_some_iff, Option.pure_def,
    Option.some.injEq] at h
  obtain ⟨W, _, g, _, rfl⟩ := h
  rfl

theorem collectUndistributed_cfgv {s s' : St} {c : Nat} (h : collectUndistributed s c = some s') :
    cfgv s' = cfgv s := by
  simp only [collectUndistributed, Option.bind_eq_bind, Option.bind_eq_some_iff, req_eq_some,
    Option.pure_def] at h
  obtain ⟨_, _, W, _, _, _, h⟩ := h
  split at h
  · simp only [Option.some.injEq] at h; subst h; rfl
  · simp only [Option.some.injEq] at h
    subst h
    have e := (collectWeeks_spec (W - (Weekly.USER_MAX_CLAIM_WEEKS + 1) + 1 - (s.lastCollect + 1))
      s.b s.undist (s.lastCollect + 1)).2.2.2.2.1
    show CfgV.mk _ s.epoch s.firstWeekStart = CfgV.mk s.b.cfg s.epoch s.firstWeekStart
    rw [e]

/-! ### what a transaction does to the stored config -/

/-- the stored config stays, is created for the current week, or is updated to the current week -/
inductive CfgMove (W : Option Nat) : Option BCfg → Option BCfg → Prop
  | same (o : Option BCfg) : CfgMove W o o
  | fresh (w : Nat) (f : Factors) : W = some w → CfgMove W none (some (BCfg.new w f))
  | upd {c c' : BCfg} (w : Nat) (new : Option Factors) : W = some w → c.update w new = some c' →
      CfgMove W (some c) (some c')

/-- a transaction that runs inside one week: time does not move, the config makes one `CfgMove` -/
structure Moves (v v' : CfgV) : Prop where
  epoch : v'.epoch = v.epoch
  fws : v'.fws = v.fws
  cfg : CfgMove v.week v.cfg v'.cfg

theorem Moves.of_eq {v v' : CfgV} (h : v' = v) : Moves v v' := by
  subst h
  exact ⟨rfl, rfl, .same _⟩

theorem claimBoostedYields_moves {s s' : St} {u r : Nat}
    (h : claimBoostedYields s u = some (s', r)) : Moves (cfgv s) (cfgv s') := by
  have e := claimBoostedYields_spec h
  obtain ⟨w', b', rfl⟩ := e.struct
  refine ⟨rfl, rfl, ?_⟩
  rcases e.cfg with hc | ⟨cfg, W, mem, hc, hW, hm, hc'⟩
  · have hc0 : b'.cfg = s.b.cfg := hc
    show CfgMove (cfgv s).week s.b.cfg b'.cfg
    rw [hc0]
    exact .same _
  · have hc0 : b'.cfg = some mem := hc'
    show CfgMove (cfgv s).week s.b.cfg b'.cfg
    rw [hc0, hc]
    exact .upd W none hW hm

theorem claimOnlyBoostedPayment_moves {s s' : St} {u r : Nat}
    (h : claimOnlyBoostedPayment s u = some (s', r)) : Moves (cfgv s) (cfgv s') := by
  simp only [claimOnlyBoostedPayment, Option.bind_eq_bind, Option.bind_eq_some_iff, Option.pure_def] at h
  obtain ⟨⟨s1, r1⟩, h1, h⟩ := h
  have e1 := claimBoostedYields_moves h1
  split at h
  · simp only [Option.some.injEq, Prod.mk.injEq] at h
    obtain ⟨rfl, _⟩ := h
    exact e1
  · simp only [Option.bind_eq_some_iff, sub?_eq_some, Option.some.injEq, Prod.mk.injEq] at h
    obtain ⟨_, _, rfl, _⟩ := h
    exact e1

/-! ### endpoints -/

theorem enterCore_moves {s s' : St} {caller orig tokenTo amt : Nat} {extra : List (Nat × Nat)}
    {o : Out} (h : enterCore s caller orig tokenTo amt extra = some (s', o)) :
    Moves (cfgv s) (cfgv s') := by
  simp only [enterCore, Option.bind_eq_bind, Option.bind_eq_some_iff, req_eq_some, Option.pure_def,
    Option.some.injEq, Prod.mk.injEq] at h
  obtain ⟨_, _, s0, h0, ⟨s1, boosted⟩, h1, s1', h1', _, hact, s2, h2, ⟨s4, c1⟩, h4, merged, hm,
    ⟨s5, n⟩, h5, s6, h6, s8, h8, s9, h9, rfl, rfl⟩ := h
  have m := claimOnlyBoostedPayment_moves h1
  have e0 : cfgv (addFarming s0 amt) = cfgv s := (takePayments_cfgv h0 : cfgv s0 = cfgv s)
  have e1' : cfgv s1' = cfgv s1 := payRewardIf_cfgv h1'
  have e2 : cfgv s2 = cfgv s1' := checkAndUpdate_cfgv h2
  have e4 : cfgv s4 = cfgv s2 := (generate_cfgv h4 : cfgv s4 = cfgv (increaseUser s2 orig amt))
  have e5 : cfgv s5 = cfgv s4 := createToken_cfgv h5
  have e6 : cfgv s6 = cfgv s5 := setFarmSupplyWeek_cfgv h6
  have e8 : cfgv s8 = cfgv s6 := (payRewardIf_cfgv h8 : cfgv s8 = cfgv (Cache.drop s6 _))
  have e9 : cfgv s9 = cfgv s8 := updateEnergyAndProgress_cfgv h9
  rw [e0] at m
  rw [e9, e8, e6, e5, e4, e2, e1']
  exact m

theorem claimCore_moves {s s' : St} {caller orig : Nat} {pays : List (Nat × Nat)} {cmp : Bool}
    {o : Out} (h : claimCore s caller orig pays cmp = some (s', o)) : Moves (cfgv s) (cfgv s') := by
  unfold claimCore at h
  replace h := bpeel h; obtain ⟨⟨n1, a1⟩, hhead, h⟩ := h
  replace h := bpeel h; obtain ⟨s0, h0, h⟩ := h
  replace h := bpeel h; obtain ⟨_, _, h⟩ := h
  replace h := bpeel h; obtain ⟨_, _, h⟩ := h
  replace h := bpeel h; obtain ⟨at1, hat, h⟩ := h
  replace h := bpeel h; obtain ⟨⟨s1, c1⟩, h1, h⟩ := h
  replace h := bpeel h; obtain ⟨part, hpart, h⟩ := h
  replace h := bpeel h; obtain ⟨⟨s2, boosted⟩, h2, h⟩ := h
  replace h := bpeel h; obtain ⟨res, _, h⟩ := h
  replace h := bpeel h; obtain ⟨s3, h3, h⟩ := h
  replace h := bpeel h; obtain ⟨merged, hm, h⟩ := h
  replace h := bpeel h; obtain ⟨⟨s5, n⟩, h5, h⟩ := h
  replace h := bpeel h; obtain ⟨s6, h6, h⟩ := h
  replace h := bpeel h; obtain ⟨s8, h8, h⟩ := h
  simp only [Option.pure_def, Option.some.injEq, Prod.mk.injEq] at h
  obtain ⟨rfl, _⟩ := h
  have e0 : cfgv s0 = cfgv s := takePayments_cfgv h0
  have e1 : cfgv s1 = cfgv s0 := generate_cfgv h1
  have m := claimBoostedYields_moves h2
  have e3 : cfgv s3 = cfgv s2 := checkAndUpdate_cfgv h3
  have e5 := createToken_cfgv h5
  dsimp only at e5 h6 h8
  have e5' : cfgv s5 = cfgv s3 := by
    refine e5.trans ?_
    cases cmp <;> rfl
  have e6 : cfgv s6 = cfgv s5 := setFarmSupplyWeek_cfgv h6
  have e8 : cfgv s8 = cfgv s6 := claimTail_cfgv (s := Cache.drop s6 _) h8
  rw [e1, e0] at m
  rw [e8, e6, e5', e3]
  exact m

theorem exitFarm_moves {s s' : St} {caller : Nat} {opt : Option Nat} {n a : Nat} {o : Out}
    (h : exitFarm s caller opt n a = some (s', o)) : Moves (cfgv s) (cfgv s') := by
  unfold exitFarm at h
  replace h := bpeel h; obtain ⟨orig, _, h⟩ := h
  replace h := bpeel h; obtain ⟨s0, h0, h⟩ := h
  replace h := bpeel h; obtain ⟨_, _, h⟩ := h
  replace h := bpeel h; obtain ⟨att, hat, h⟩ := h
  replace h := bpeel h; obtain ⟨⟨s1, c1⟩, h1, h⟩ := h
  replace h := bpeel h; obtain ⟨part, hpart, h⟩ := h
  replace h := bpeel h; obtain ⟨⟨s2, boosted⟩, h2, h⟩ := h
  replace h := bpeel h; obtain ⟨res, _, h⟩ := h
  replace h := bpeel h; obtain ⟨sup, hsup, h⟩ := h
  replace h := bpeel h; obtain ⟨s4, h4, h⟩ := h
  replace h := bpeel h; obtain ⟨pen, hpen, h⟩ := h
  replace h := bpeel h; obtain ⟨out, _, h⟩ := h
  replace h := bpeel h; obtain ⟨s6, h6, h⟩ := h
  replace h := bpeel h; obtain ⟨s7, h7, h⟩ := h
  replace h := bpeel h; obtain ⟨s8, h8, h⟩ := h
  simp only [Option.pure_def, Option.some.injEq, Prod.mk.injEq] at h
  obtain ⟨rfl, _⟩ := h
  have e0 : cfgv s0 = cfgv s := takePayments_cfgv h0
  have e1 : cfgv s1 = cfgv s0 := generate_cfgv h1
  have m := claimBoostedYields_moves h2
  have e4 : cfgv s4 = cfgv s2 := (setFarmSupplyWeek_cfgv h4 : cfgv s4 = cfgv (decreaseOwner s2 att.owner a))
  have e6 : cfgv s6 = cfgv s4 := (removeFarming_cfgv h6 : cfgv s6 = cfgv (Cache.drop s4 _))
  have e7 : cfgv s7 = cfgv s6 := payReward_cfgv h7
  have e8 : cfgv s8 = cfgv s7 := clearUserEnergyIfNeeded_cfgv h8
  rw [e1, e0] at m
  rw [e8, e7, e6, e4]
  exact m

theorem mergeFarmTokens_moves {s s' : St} {caller : Nat} {opt : Option Nat}
    {pays : List (Nat × Nat)} {o : Out}
    (h : mergeFarmTokens s caller opt pays = some (s', o)) : Moves (cfgv s) (cfgv s') := by
  simp only [mergeFarmTokens, Option.bind_eq_bind, Option.bind_eq_some_iff, req_eq_some,
    Option.pure_def, Option.some.injEq, Prod.mk.injEq] at h
  obtain ⟨_, hact, orig, _, _, _, s0, h0, ⟨s1, boosted⟩, h1, s2, h2, merged, hm, ⟨s3, n⟩, h3, s4, h4,
    rfl, rfl⟩ := h
  have e0 : cfgv s0 = cfgv s := takePayments_cfgv h0
  have m := claimOnlyBoostedPayment_moves h1
  have e2 : cfgv s2 = cfgv s1 := checkAndUpdate_cfgv h2
  have e3 : cfgv s3 = cfgv s2 := createToken_cfgv h3
  have e4 : cfgv s4 = cfgv s3 := payReward_cfgv h4
  rw [e0] at m
  rw [e4, e3, e2]
  exact m

theorem claimBoostedRewards_moves {s s' : St} {caller : Nat} {optUser : Option Nat} {o : Out}
    (h : claimBoostedRewards s caller optUser = some (s', o)) : Moves (cfgv s) (cfgv s') := by
  simp only [claimBoostedRewards, Option.bind_eq_bind, Option.bind_eq_some_iff, req_eq_some,
    Option.pure_def, Option.some.injEq, Prod.mk.injEq, sub?_eq_some] at h
  obtain ⟨_, _, _, _, _, hact, ⟨s1, c1⟩, h1, ⟨s2, boosted⟩, h2, res, ⟨hle, rfl⟩, s3, h3, s4, h4,
    rfl, rfl⟩ := h
  have e1 : cfgv s1 = cfgv s := generate_cfgv h1
  have m := claimBoostedYields_moves h2
  have e3 : cfgv s3 = cfgv s2 := setFarmSupplyWeek_cfgv h3
  have e4 : cfgv s4 = cfgv s3 := payReward_cfgv h4
  have e5 : cfgv (Cache.drop s4 { c1 with reserve := c1.reserve - boosted }) = cfgv s4 := rfl
  rw [e1] at m
  rw [e5, e4, e3]
  exact m

/-! ### every transaction -/

/-- one successful transaction on the view: a `Moves` inside the current week, or time passes
    (the config is not touched, the deployment epoch stays, the epoch does not decrease) -/
def Trans (v v' : CfgV) : Prop :=
  Moves v v' ∨ (v'.cfg = v.cfg ∧ v'.fws = v.fws ∧ v.epoch ≤ v'.epoch)

theorem step_trans {s s' : St} {op : Op} {o : Out} (h : step s op = some (s', o)) :
    Trans (cfgv s) (cfgv s') := by
  cases op <;> simp only [step, known] at h
  case enter c oo a e =>
    split at h <;> [skip; exact absurd h (by simp)]
    simp only [enterFarm, Option.bind_eq_bind, Option.bind_eq_some_iff] at h
    obtain ⟨_, _, h⟩ := h
    exact Or.inl (enterCore_moves h)
  case enterOB c u a e =>
    split at h <;> [skip; exact absurd h (by simp)]
    simp only [enterFarmOnBehalf, Option.bind_eq_bind, Option.bind_eq_some_iff] at h
    obtain ⟨_, _, _, _, h⟩ := h
    exact Or.inl (enterCore_moves h)
  case claim c oo p =>
    split at h <;> [skip; exact absurd h (by simp)]
    simp only [claimRewards, Option.bind_eq_bind, Option.bind_eq_some_iff] at h
    obtain ⟨_, _, h⟩ := h
    exact Or.inl (claimCore_moves h)
  case claimOB c p =>
    split at h <;> [skip; exact absurd h (by simp)]
    simp only [claimRewardsOnBehalf, Option.bind_eq_bind, Option.bind_eq_some_iff] at h
    obtain ⟨_, _, _, _, _, _, h⟩ := h
    exact Or.inl (claimCore_moves h)
  case compound c oo p =>
    split at h <;> [skip; exact absurd h (by simp)]
    simp only [compoundRewards, Option.bind_eq_bind, Option.bind_eq_some_iff, req_eq_some] at h
    obtain ⟨_, _, _, _, h⟩ := h
    exact Or.inl (claimCore_moves h)
  case exit c oo n a =>
    split at h <;> [skip; exact absurd h (by simp)]
    exact Or.inl (exitFarm_moves h)
  case merge c oo p =>
    split at h <;> [skip; exact absurd h (by simp)]
    exact Or.inl (mergeFarmTokens_moves h)
  case claimBoosted c u =>
    split at h <;> [skip; exact absurd h (by simp)]
    exact Or.inl (claimBoostedRewards_moves h)
  case transfer a b n x =>
    split at h <;> [skip; exact absurd h (by simp)]
    split at h <;> [skip; exact absurd h (by simp)]
    simp only [noOut, Option.map_eq_some_iff, Prod.mk.injEq] at h
    obtain ⟨s1, h1, rfl, _⟩ := h
    simp only [transfer, Option.bind_eq_bind, Option.bind_eq_some_iff, req_eq_some, sub?_eq_some,
      Option.pure_def, Option.some.injEq] at h1
    obtain ⟨_, _, _, _, _, _, _, _, rfl⟩ := h1
    exact Or.inl (Moves.of_eq rfl)
  case setEnergy u a l t =>
    simp only [Option.some.injEq, Prod.mk.injEq] at h
    obtain ⟨rfl, _⟩ := h
    exact Or.inl (Moves.of_eq rfl)
  case updateEnergy u =>
    simp only [noOut, Option.map_eq_some_iff, Prod.mk.injEq] at h
    obtain ⟨s1, h1, rfl, _⟩ := h
    exact Or.inl (Moves.of_eq (updateEnergyForUser_cfgv h1))
  case setPerBlock c x =>
    simp only [noOut, Option.map_eq_some_iff, Prod.mk.injEq] at h
    obtain ⟨s1, h1, rfl, _⟩ := h
    simp only [setPerBlock, Option.bind_eq_bind, Option.bind_eq_some_iff, Option.pure_def,
      Option.some.injEq] at h1
    obtain ⟨_, _, _, _, s2, h2, rfl⟩ := h1
    exact Or.inl (Moves.of_eq (settle_cfgv h2 : cfgv s2 = cfgv s))
  case startProduce c =>
    simp only [noOut, Option.map_eq_some_iff, Prod.mk.injEq] at h
    obtain ⟨s1, h1, rfl, _⟩ := h
    simp only [startProduce, Option.bind_eq_bind, Option.bind_eq_some_iff, Option.pure_def,
      Option.some.injEq] at h1
    obtain ⟨_, _, _, _, _, _, rfl⟩ := h1
    exact Or.inl (Moves.of_eq rfl)
  case endProduce c =>
    simp only [noOut, Option.map_eq_some_iff, Prod.mk.injEq] at h
    obtain ⟨s1, h1, rfl, _⟩ := h
    simp only [endProduce, Option.bind_eq_bind, Option.bind_eq_some_iff, Option.pure_def,
      Option.some.injEq] at h1
    obtain ⟨_, _, s2, h2, rfl⟩ := h1
    exact Or.inl (Moves.of_eq (settle_cfgv h2 : cfgv s2 = cfgv s))
  case setPct c p =>
    simp only [noOut, Option.map_eq_some_iff, Prod.mk.injEq] at h
    obtain ⟨s1, h1, rfl, _⟩ := h
    simp only [setPct, Option.bind_eq_bind, Option.bind_eq_some_iff, Option.pure_def,
      Option.some.injEq, req_eq_some] at h1
    obtain ⟨_, _, _, hp, s2, h2, rfl⟩ := h1
    exact Or.inl (Moves.of_eq (settle_cfgv h2 : cfgv s2 = cfgv s))
  case setFactors c f =>
    simp only [noOut, Option.map_eq_some_iff, Prod.mk.injEq] at h
    obtain ⟨s1, h1, rfl, _⟩ := h
    simp only [setFactors, Option.bind_eq_bind, Option.bind_eq_some_iff, Option.pure_def] at h1
    obtain ⟨_, _, _, _, _, _, W, hW, h1⟩ := h1
    split at h1
    · rename_i cfg hc
      simp only [Option.bind_eq_some_iff, Option.some.injEq] at h1
      obtain ⟨c', hu, rfl⟩ := h1
      refine Or.inl ⟨rfl, rfl, ?_⟩
      show CfgMove (cfgv s).week s.b.cfg (some c')
      rw [hc]
      exact .upd W (some f) hW hu
    · rename_i hc
      simp only [Option.some.injEq] at h1
      subst h1
      refine Or.inl ⟨rfl, rfl, ?_⟩
      show CfgMove (cfgv s).week s.b.cfg (some (BCfg.new W f))
      rw [hc]
      exact .fresh W f hW
  case collect c =>
    simp only [noOut, Option.map_eq_some_iff, Prod.mk.injEq] at h
    obtain ⟨s1, h1, rfl, _⟩ := h
    exact Or.inl (Moves.of_eq (collectUndistributed_cfgv h1))
  case pause c =>
    simp only [noOut, Option.map_eq_some_iff, Prod.mk.injEq] at h
    obtain ⟨s1, h1, rfl, _⟩ := h
    simp only [setActive, Option.bind_eq_bind, Option.bind_eq_some_iff, Option.pure_def,
      Option.some.injEq] at h1
    obtain ⟨_, _, rfl⟩ := h1
    exact Or.inl (Moves.of_eq rfl)
  case resume c =>
    simp only [noOut, Option.map_eq_some_iff, Prod.mk.injEq] at h
    obtain ⟨s1, h1, rfl, _⟩ := h
    simp only [setActive, Option.bind_eq_bind, Option.bind_eq_some_iff, Option.pure_def,
      Option.some.injEq] at h1
    obtain ⟨_, _, rfl⟩ := h1
    exact Or.inl (Moves.of_eq rfl)
  case setPenalty c p =>
    simp only [noOut, Option.map_eq_some_iff, Prod.mk.injEq] at h
    obtain ⟨s1, h1, rfl, _⟩ := h
    simp only [setPenalty, Option.bind_eq_bind, Option.bind_eq_some_iff, Option.pure_def,
      Option.some.injEq] at h1
    obtain ⟨_, _, _, _, rfl⟩ := h1
    exact Or.inl (Moves.of_eq rfl)
  case setMinEpochs c n =>
    simp only [noOut, Option.map_eq_some_iff, Prod.mk.injEq] at h
    obtain ⟨s1, h1, rfl, _⟩ := h
    simp only [setMinEpochs, Option.bind_eq_bind, Option.bind_eq_some_iff, Option.pure_def,
      Option.some.injEq] at h1
    obtain ⟨_, _, _, _, rfl⟩ := h1
    exact Or.inl (Moves.of_eq rfl)
  case hubWhitelist u a =>
    split at h
    · cases h
    · simp only [Option.some.injEq, Prod.mk.injEq] at h; obtain ⟨rfl, _⟩ := h
      exact Or.inl (Moves.of_eq rfl)
  case hubRemove u a =>
    split at h
    · simp only [Option.some.injEq, Prod.mk.injEq] at h; obtain ⟨rfl, _⟩ := h
      exact Or.inl (Moves.of_eq rfl)
    · cases h
  case hubBlacklist a =>
    simp only [Option.some.injEq, Prod.mk.injEq] at h; obtain ⟨rfl, _⟩ := h
    exact Or.inl (Moves.of_eq rfl)
  case scWhitelist a =>
    split at h
    · cases h
    · simp only [Option.some.injEq, Prod.mk.injEq] at h; obtain ⟨rfl, _⟩ := h
      exact Or.inl (Moves.of_eq rfl)
  case scUnwhitelist a =>
    split at h
    · simp only [Option.some.injEq, Prod.mk.injEq] at h; obtain ⟨rfl, _⟩ := h
      exact Or.inl (Moves.of_eq rfl)
    · cases h
  case advance b e =>
    split at h
    · rename_i hbe
      simp only [Option.some.injEq, Prod.mk.injEq] at h; obtain ⟨rfl, _⟩ := h
      exact Or.inr ⟨rfl, rfl, hbe.2⟩
    · cases h
  case bad => cases h

/-! ### the invariant -/

/-- a stored config has its 5 slots and was last updated in a week that is not after the current one
    (in particular the current week exists) -/
def CfgOK (v : CfgV) : Prop :=
  ∀ c, v.cfg = some c → WF c ∧ ∃ W, v.week = some W ∧ c.lastUpdateWeek ≤ W

theorem weekOf_later {e e' f W : Nat} (he : e ≤ e') (h : Weekly.weekOf e f = some W) :
    ∃ W', Weekly.weekOf e' f = some W' ∧ W ≤ W' := by
  unfold Weekly.weekOf at h ⊢
  simp only [Option.bind_eq_bind, Option.bind_eq_some_iff, req_eq_some, Option.pure_def,
    Option.some.injEq] at h ⊢
  obtain ⟨_, h1, rfl⟩ := h
  refine ⟨_, ⟨(), by omega, rfl⟩, ?_⟩
  have : (e - f) / Weekly.EPOCHS_IN_WEEK ≤ (e' - f) / Weekly.EPOCHS_IN_WEEK :=
    Nat.div_le_div_right (by omega)
  omega

theorem Moves.week {v v' : CfgV} (m : Moves v v') : v'.week = v.week := by
  unfold CfgV.week
  rw [m.epoch, m.fws]

theorem CfgMove.ok {W : Option Nat} {o o' : Option BCfg} (m : CfgMove W o o')
    (h : ∀ c, o = some c → WF c ∧ ∃ w, W = some w ∧ c.lastUpdateWeek ≤ w) :
    ∀ c, o' = some c → WF c ∧ ∃ w, W = some w ∧ c.lastUpdateWeek ≤ w := by
  cases m with
  | same => exact h
  | fresh w f hW =>
    intro c hc
    cases hc
    exact ⟨BCfg.new_wf w f, w, hW, Nat.le_refl _⟩
  | upd w new hW hu =>
    intro c hc
    cases hc
    obtain ⟨hwf, _⟩ := h _ rfl
    obtain ⟨h1, h2⟩ := BCfg.update_wf hwf hu
    exact ⟨h1, w, hW, by rw [h2]⟩

theorem Trans.ok {v v' : CfgV} (t : Trans v v') (h : CfgOK v) : CfgOK v' := by
  intro c' hc'
  rcases t with m | ⟨hcfg, hf, he⟩
  · have := m.cfg.ok h c' hc'
    rw [m.week]
    exact this
  · obtain ⟨hwf, W, hW, hle⟩ := h c' (hcfg ▸ hc')
    have hW0 : Weekly.weekOf v.epoch v.fws = some W := hW
    obtain ⟨W', hW', hWW⟩ := weekOf_later he hW0
    refine ⟨hwf, W', ?_, Nat.le_trans hle hWW⟩
    show Weekly.weekOf v'.epoch v'.fws = some W'
    rw [hf]
    exact hW'

theorem run_cfgOK (ops : List Op) {s : St} (hI : CfgOK (cfgv s)) : CfgOK (cfgv (run s ops)) := by
  induction ops generalizing s with
  | nil => exact hI
  | cons op rest ih =>
    simp only [run, List.foldl_cons]
    cases hs : step s op with
    | none => exact ih hI
    | some r => exact ih ((step_trans (show step s op = some (r.1, r.2) from hs)).ok hI)

theorem init_cfgOK (kind : Kind) (sameTok : Bool) (dsc perBlock : Nat) (produce : Bool)
    (users : List Nat) (e0 : Nat) : CfgOK (cfgv (init kind sameTok dsc perBlock produce users e0)) := by
  intro c hc
  cases hc

/-- every state reachable from a fresh deployment stores a well-formed config (or none) -/
theorem reachable_cfgOK (kind : Kind) (sameTok : Bool) (dsc perBlock : Nat) (produce : Bool)
    (users : List Nat) (e0 : Nat) (ops : List Op) :
    CfgOK (cfgv (run (init kind sameTok dsc perBlock produce users e0) ops)) :=
  run_cfgOK ops (init_cfgOK kind sameTok dsc perBlock produce users e0)

/-! ### recorded factors are frozen -/

/-- `c'` is a later version of the well-formed config `c`: still well formed, not older, and for every
    week that was already past for `c` and is still inside the 4-week window of `c'` it answers what
    `c` answered -/
structure Frozen (c c' : BCfg) : Prop where
  wf : WF c'
  mono : c.lastUpdateWeek ≤ c'.lastUpdateWeek
  keep : ∀ w, w < c.lastUpdateWeek → c'.lastUpdateWeek < w + 5 →
    c'.factorsForWeek w = c.factorsForWeek w

theorem Frozen.refl {c : BCfg} (h : WF c) : Frozen c c :=
  ⟨h, Nat.le_refl _, fun _ _ _ => rfl⟩

theorem Frozen.trans {a b c : BCfg} (h1 : Frozen a b) (h2 : Frozen b c) : Frozen a c := by
  refine ⟨h2.wf, Nat.le_trans h1.mono h2.mono, fun w hw hw' => ?_⟩
  have hb := h2.mono
  have ha := h1.mono
  rw [h2.keep w (by omega) hw', h1.keep w hw (by omega)]

theorem Frozen.of_update {c c' : BCfg} {W : Nat} {new : Option Factors} (hw : WF c)
    (h : c.update W new = some c') : Frozen c c' := by
  obtain ⟨h1, h2⟩ := BCfg.update_wf hw h
  refine ⟨h1, by rw [h2]; exact BCfg.update_le h, fun w hw1 hw2 => ?_⟩
  rw [h2] at hw2
  exact factorsForWeek_update_old hw h hw1 hw2

theorem CfgMove.frozen {W : Option Nat} {o' : Option BCfg} {c : BCfg} (m : CfgMove W (some c) o')
    (hw : WF c) : ∃ c', o' = some c' ∧ Frozen c c' := by
  cases m with
  | same => exact ⟨c, rfl, Frozen.refl hw⟩
  | upd w new hW hu => exact ⟨_, rfl, Frozen.of_update hw hu⟩

theorem Trans.frozen {v v' : CfgV} (t : Trans v v') {c : BCfg} (hc : v.cfg = some c) (hw : WF c) :
    ∃ c', v'.cfg = some c' ∧ Frozen c c' := by
  rcases t with m | ⟨hcfg, _, _⟩
  · have hm := m.cfg
    rw [hc] at hm
    exact hm.frozen hw
  · exact ⟨c, hcfg.trans hc, Frozen.refl hw⟩

/-- over ANY continuation of ANY state whose stored config is well formed: a config stays stored,
    and the factors it recorded for past weeks are kept as long as those weeks are claimable -/
theorem run_frozen (ops : List Op) : ∀ {s : St} {c : BCfg}, s.b.cfg = some c → WF c →
    ∃ c', (run s ops).b.cfg = some c' ∧ Frozen c c' := by
  induction ops with
  | nil => intro s c hc hw; exact ⟨c, hc, Frozen.refl hw⟩
  | cons op rest ih =>
    intro s c hc hw
    simp only [run, List.foldl_cons]
    cases hs : step s op with
    | none => exact ih hc hw
    | some r =>
      obtain ⟨c1, hc1, f1⟩ :=
        (step_trans (show step s op = some (r.1, r.2) from hs)).frozen (c := c) hc hw
      obtain ⟨c2, hc2, f2⟩ := ih (s := r.1) hc1 f1.wf
      exact ⟨c2, hc2, f1.trans f2⟩

/-- `update` is defined as soon as the config is not from the future -/
theorem BCfg.update_defined (c : BCfg) {W : Nat} (new : Option Factors) (h : c.lastUpdateWeek ≤ W) :
    ∃ c', c.update W new = some c' := by
  unfold BCfg.update
  simp only [req, h, if_true, Option.bind_eq_bind, Option.bind_some, Option.pure_def]
  split
  · cases new <;> exact ⟨_, rfl⟩
  · exact ⟨_, rfl⟩

/-- a well-formed config answers for each of the four weeks before its `last_update_week` -/
theorem factorsForWeek_defined {c : BCfg} {w : Nat} (hw : WF c) (h1 : w < c.lastUpdateWeek)
    (h2 : c.lastUpdateWeek < w + 5) : ∃ f, c.factorsForWeek w = some f := by
  rw [factorsForWeek_eq h1 h2]
  have : 4 - (c.lastUpdateWeek - w) < c.ring.length := by
    unfold WF at hw
    omega
  exact ⟨_, List.getElem?_eq_getElem this⟩

end Mx.Farm
