/-
  Run-level lemmas about the permission bit-set machine `PermSt` / the pausable machine `PauseSt`
  of Core/Access.lean, for an ARBITRARY initial permission assignment and an arbitrary history.

  Vocabulary
    `Bit`, `Perm.get`            one of the three permission bits of an address
    `PermOp.effect s o a b`      what a SUCCESSFUL `o`, run in state `s`, does to bit `b` of address `a`:
                                 `some true` = grants, `some false` = revokes, `none` = leaves it alone
    `PermSt.noSet v a b s ops`   (Bool, decidable) no successful operation of the history `ops` run from `s`
                                 has effect `some v` on bit `b` of `a`
    `PermSt.Untouched …`         the same in "split the history" form (Prop), `noSet_iff`
  Core Lean only.
-/
import MxModel.Lemmas.AccessSM

namespace Mx.Access

/-- the three permission bits -/
inductive Bit | owner | admin | pause
  deriving DecidableEq, Repr

def Perm.get (p : Perm) : Bit → Bool
  | .owner => p.owner
  | .admin => p.admin
  | .pause => p.pause

theorem PermSt.holds_OWNER (s : PermSt) (c : Addr) : s.holds c Perm.OWNER = (s.perms c).owner := by
  simp [PermSt.holds, Perm.intersects, Perm.OWNER]

theorem PermSt.holds_PAUSE (s : PermSt) (c : Addr) : s.holds c Perm.PAUSE = (s.perms c).pause := by
  simp [PermSt.holds, Perm.intersects, Perm.PAUSE]

/-- What a successful `o`, run in state `s`, does to bit `b` of address `a`.
    `updateOwnerOrAdmin c prev` (with `c ≠ prev`) is a TRANSFER: the caller's bit-set is overwritten by the one
    of `prev` (so each of the caller's bits is granted or revoked according to `prev`'s bit), `prev` is cleared. -/
def PermOp.effect (s : PermSt) (o : PermOp) (a : Addr) (b : Bit) : Option Bool :=
  match o with
  | .addAdmin _ x => if x = a ∧ b = .admin then some true else none
  | .removeAdmin _ x => if x = a ∧ b = .admin then some false else none
  | .addPause _ x => if x = a ∧ b = .pause then some true else none
  | .removePause _ x => if x = a ∧ b = .pause then some false else none
  | .updateOwnerOrAdmin c prev =>
      if c = prev then none
      else if a = c then some ((s.perms prev).get b)
      else if a = prev then some false
      else none

/-- exact effect of one successful operation on every bit of every address -/
theorem PermSt.step_get {s s' : PermSt} {o : PermOp} (h : s.step o = some s') (a : Addr) (b : Bit) :
    (s'.perms a).get b = (o.effect s a b).getD ((s.perms a).get b) := by
  cases o with
  | addAdmin c x =>
    simp only [PermSt.step] at h
    split at h
    · cases h
      by_cases hx : x = a
      · subst hx; cases b <;> simp [setAt, PermOp.effect, Perm.get, Perm.union, Perm.ADMIN]
      · have hx' : ¬ a = x := fun e => hx e.symm
        simp [setAt, PermOp.effect, hx, hx']
    · cases h
  | removeAdmin c x =>
    simp only [PermSt.step] at h
    split at h
    · cases h
      by_cases hx : x = a
      · subst hx; cases b <;> simp [setAt, PermOp.effect, Perm.get, Perm.diff, Perm.ADMIN]
      · have hx' : ¬ a = x := fun e => hx e.symm
        simp [setAt, PermOp.effect, hx, hx']
    · cases h
  | addPause c x =>
    simp only [PermSt.step] at h
    split at h
    · cases h
      by_cases hx : x = a
      · subst hx; cases b <;> simp [setAt, PermOp.effect, Perm.get, Perm.union, Perm.PAUSE]
      · have hx' : ¬ a = x := fun e => hx e.symm
        simp [setAt, PermOp.effect, hx, hx']
    · cases h
  | removePause c x =>
    simp only [PermSt.step] at h
    split at h
    · cases h
      by_cases hx : x = a
      · subst hx; cases b <;> simp [setAt, PermOp.effect, Perm.get, Perm.diff, Perm.PAUSE]
      · have hx' : ¬ a = x := fun e => hx e.symm
        simp [setAt, PermOp.effect, hx, hx']
    · cases h
  | updateOwnerOrAdmin c prev =>
    simp only [PermSt.step] at h
    split at h
    · cases h
      by_cases hcp : c = prev
      · subst hcp
        by_cases hx : a = c
        · subst hx; simp [setAt, PermOp.effect]
        · simp [setAt, PermOp.effect, hx]
      · by_cases hx : a = c
        · subst hx; simp [setAt, PermOp.effect, hcp]
        · by_cases hy : a = prev
          · subst hy; cases b <;> simp [setAt, PermOp.effect, hcp, hx, Perm.get, Perm.none]
          · simp [setAt, PermOp.effect, hcp, hx, hy]
    · cases h

/-- who can be behind a GRANT: `addAdmin` / `addPause` by a caller holding OWNER at that moment, or the contract
    owner taking over the bit-set of an address that held the bit at that moment -/
theorem PermSt.grant_cases {s s' : PermSt} {o : PermOp} (h : s.step o = some s') {a : Addr} {b : Bit}
    (he : o.effect s a b = some true) :
    (∃ c, o = .addAdmin c a ∧ b = .admin ∧ (s.perms c).owner = true) ∨
    (∃ c, o = .addPause c a ∧ b = .pause ∧ (s.perms c).owner = true) ∨
    (∃ prev, o = .updateOwnerOrAdmin a prev ∧ a = s.scOwner ∧ prev ≠ a ∧ (s.perms prev).get b = true) := by
  have hauth := PermSt.step_authority h
  cases o with
  | addAdmin c x =>
    simp only [PermOp.effect] at he
    split at he
    · rename_i hx
      obtain ⟨hx1, hx2⟩ := hx
      subst hx1
      refine Or.inl ⟨c, rfl, hx2, ?_⟩
      simp only [PermSt.step] at h
      split at h
      · rename_i hc; rw [PermSt.holds_OWNER] at hc; exact hc
      · cases h
    · cases he
  | removeAdmin c x =>
    simp only [PermOp.effect] at he
    split at he <;> cases he
  | addPause c x =>
    simp only [PermOp.effect] at he
    split at he
    · rename_i hx
      obtain ⟨hx1, hx2⟩ := hx
      subst hx1
      refine Or.inr (Or.inl ⟨c, rfl, hx2, ?_⟩)
      simp only [PermSt.step] at h
      split at h
      · rename_i hc; rw [PermSt.holds_OWNER] at hc; exact hc
      · cases h
    · cases he
  | removePause c x =>
    simp only [PermOp.effect] at he
    split at he <;> cases he
  | updateOwnerOrAdmin c prev =>
    simp only [PermSt.step] at h
    split at h
    · rename_i hc
      simp only [PermOp.effect] at he
      split at he
      · cases he
      · rename_i hcp
        split at he
        · rename_i hac
          subst hac
          refine Or.inr (Or.inr ⟨prev, rfl, hc, fun e => hcp e.symm, ?_⟩)
          exact Option.some.inj he
        · split at he <;> cases he
    · cases h

/-- induction on a list from the right (core Lean only) -/
theorem list_snoc_induction {α : Type} {P : List α → Prop} (nil : P [])
    (snoc : ∀ xs x, P xs → P (xs ++ [x])) : ∀ l, P l := by
  intro l
  have h : ∀ r : List α, P r.reverse := by
    intro r
    induction r with
    | nil => exact nil
    | cons x xs ih => rw [List.reverse_cons]; exact snoc _ _ ih
  have := h l.reverse
  rwa [List.reverse_reverse] at this

-- ---------------- runs ---------------------------------------------------------------------

theorem PermSt.run_nil (s : PermSt) : s.run [] = s := rfl

theorem PermSt.run_append (s : PermSt) (xs ys : List PermOp) : s.run (xs ++ ys) = (s.run xs).run ys := by
  simp [PermSt.run, List.foldl_append]

theorem PermSt.run_cons_some {s s' : PermSt} {o : PermOp} (h : s.step o = some s') (ops : List PermOp) :
    s.run (o :: ops) = s'.run ops := by rw [PermSt.run_cons, h]

theorem PermSt.run_cons_none {s : PermSt} {o : PermOp} (h : s.step o = none) (ops : List PermOp) :
    s.run (o :: ops) = s.run ops := by rw [PermSt.run_cons, h]

/-- the blockchain-level owner is the same after any history -/
theorem PermSt.run_scOwner (s : PermSt) (ops : List PermOp) : (s.run ops).scOwner = s.scOwner := by
  induction ops generalizing s with
  | nil => rfl
  | cons o ops ih =>
    cases hst : s.step o with
    | none => rw [PermSt.run_cons_none hst]; exact ih s
    | some s' => rw [PermSt.run_cons_some hst, ih s', PermSt.step_scOwner hst]

/-- (decidable) no successful operation of the history `ops`, run from `s`, has effect `some v` on bit `b` of `a` -/
def PermSt.noSet (v : Bool) (a : Addr) (b : Bit) : PermSt → List PermOp → Bool
  | _, [] => true
  | s, o :: ops =>
    match s.step o with
    | none => PermSt.noSet v a b s ops
    | some s' => (o.effect s a b != some v) && PermSt.noSet v a b s' ops

/-- the same, by splitting the history at the operation in question -/
def PermSt.Untouched (v : Bool) (a : Addr) (b : Bit) (s : PermSt) (ops : List PermOp) : Prop :=
  ∀ pre o post s', ops = pre ++ o :: post → (s.run pre).step o = some s' → o.effect (s.run pre) a b ≠ some v

theorem PermSt.noSet_cons_none {v : Bool} {a : Addr} {b : Bit} {s : PermSt} {o : PermOp} (h : s.step o = none)
    (ops : List PermOp) : PermSt.noSet v a b s (o :: ops) = PermSt.noSet v a b s ops := by
  simp only [PermSt.noSet, h]

theorem PermSt.noSet_cons_some {v : Bool} {a : Addr} {b : Bit} {s s' : PermSt} {o : PermOp} (h : s.step o = some s')
    (ops : List PermOp) :
    PermSt.noSet v a b s (o :: ops) = ((o.effect s a b != some v) && PermSt.noSet v a b s' ops) := by
  simp only [PermSt.noSet, h]

theorem PermSt.noSet_iff (v : Bool) (a : Addr) (b : Bit) (s : PermSt) (ops : List PermOp) :
    PermSt.noSet v a b s ops = true ↔ PermSt.Untouched v a b s ops := by
  induction ops generalizing s with
  | nil =>
    constructor
    · intro _ pre o post s' hsplit
      cases pre <;> cases hsplit
    · intro _; rfl
  | cons o ops ih =>
    cases hst : s.step o with
    | none =>
      rw [PermSt.noSet_cons_none hst, ih s]
      constructor
      · intro hU pre o' post s' hsplit hstep
        cases pre with
        | nil =>
          simp only [List.nil_append, List.cons.injEq] at hsplit
          obtain ⟨h1, _⟩ := hsplit
          subst h1
          rw [PermSt.run_nil, hst] at hstep; cases hstep
        | cons p pre' =>
          simp only [List.cons_append, List.cons.injEq] at hsplit
          obtain ⟨h1, h2⟩ := hsplit
          subst h1
          rw [PermSt.run_cons_none hst] at hstep ⊢
          exact hU pre' o' post s' h2 hstep
      · intro hU pre o' post s' hsplit hstep
        have := hU (o :: pre) o' post s' (by rw [hsplit]; rfl)
        rw [PermSt.run_cons_none hst] at this
        exact this hstep
    | some s1 =>
      rw [PermSt.noSet_cons_some hst, Bool.and_eq_true, ih s1]
      constructor
      · rintro ⟨he, hU⟩ pre o' post s' hsplit hstep
        cases pre with
        | nil =>
          simp only [List.nil_append, List.cons.injEq] at hsplit
          obtain ⟨h1, _⟩ := hsplit
          subst h1
          rw [PermSt.run_nil]
          simpa using he
        | cons p pre' =>
          simp only [List.cons_append, List.cons.injEq] at hsplit
          obtain ⟨h1, h2⟩ := hsplit
          subst h1
          rw [PermSt.run_cons_some hst] at hstep ⊢
          exact hU pre' o' post s' h2 hstep
      · intro hU
        constructor
        · have := hU [] o ops s1 rfl (by rw [PermSt.run_nil]; exact hst)
          rw [PermSt.run_nil] at this
          simpa using this
        · intro pre o' post s' hsplit hstep
          have := hU (o :: pre) o' post s' (by rw [hsplit]; rfl)
          rw [PermSt.run_cons_some hst] at this
          exact this hstep

/-- a bit that has value `v` and is never set to the opposite value keeps `v` -/
theorem PermSt.run_get_of_noSet (v : Bool) (a : Addr) (b : Bit) (s : PermSt) (ops : List PermOp)
    (h0 : (s.perms a).get b = v) (hn : PermSt.noSet (!v) a b s ops = true) : ((s.run ops).perms a).get b = v := by
  induction ops generalizing s with
  | nil => exact h0
  | cons o ops ih =>
    cases hst : s.step o with
    | none =>
      rw [PermSt.run_cons_none hst]
      rw [PermSt.noSet_cons_none hst] at hn
      exact ih s h0 hn
    | some s1 =>
      rw [PermSt.run_cons_some hst]
      rw [PermSt.noSet_cons_some hst, Bool.and_eq_true] at hn
      refine ih s1 ?_ hn.2
      rw [PermSt.step_get hst a b]
      cases he : o.effect s a b with
      | none => exact h0
      | some w =>
        have h1 := hn.1
        rw [he] at h1
        cases w <;> cases v <;> simp_all

/-- LAST RELEVANT OPERATION WINS.  Bit `b` of `a` has value `v` after the history iff either it had value `v` at the
    start and no successful operation of the history set it to `!v`, or some successful operation set it to `v`
    and no successful operation after that one set it to `!v`. -/
theorem PermSt.run_get_iff (s : PermSt) (ops : List PermOp) (a : Addr) (b : Bit) (v : Bool) :
    ((s.run ops).perms a).get b = v ↔
      ((s.perms a).get b = v ∧ PermSt.noSet (!v) a b s ops = true) ∨
      ∃ pre o post s', ops = pre ++ o :: post ∧ (s.run pre).step o = some s' ∧
        o.effect (s.run pre) a b = some v ∧ PermSt.noSet (!v) a b s' post = true := by
  constructor
  · induction ops generalizing s with
    | nil => intro h; exact Or.inl ⟨h, rfl⟩
    | cons o ops ih =>
      intro h
      cases hst : s.step o with
      | none =>
        rw [PermSt.run_cons_none hst] at h
        rcases ih s h with ⟨h1, h2⟩ | ⟨pre, o', post, s', h1, h2, h3, h4⟩
        · exact Or.inl ⟨h1, by rw [PermSt.noSet_cons_none hst]; exact h2⟩
        · refine Or.inr ⟨o :: pre, o', post, s', by rw [h1]; rfl, ?_, ?_, h4⟩
          · rw [PermSt.run_cons_none hst]; exact h2
          · rw [PermSt.run_cons_none hst]; exact h3
      | some s1 =>
        rw [PermSt.run_cons_some hst] at h
        rcases ih s1 h with ⟨h1, h2⟩ | ⟨pre, o', post, s', h1, h2, h3, h4⟩
        · rw [PermSt.step_get hst a b] at h1
          cases he : o.effect s a b with
          | none =>
            rw [he] at h1
            refine Or.inl ⟨h1, ?_⟩
            rw [PermSt.noSet_cons_some hst, he, h2]; rfl
          | some w =>
            rw [he] at h1
            have hw : w = v := h1
            subst hw
            exact Or.inr ⟨[], o, ops, s1, rfl, by rw [PermSt.run_nil]; exact hst, by rw [PermSt.run_nil]; exact he, h2⟩
        · refine Or.inr ⟨o :: pre, o', post, s', by rw [h1]; rfl, ?_, ?_, h4⟩
          · rw [PermSt.run_cons_some hst]; exact h2
          · rw [PermSt.run_cons_some hst]; exact h3
  · rintro (⟨h1, h2⟩ | ⟨pre, o, post, s', h1, h2, h3, h4⟩)
    · exact PermSt.run_get_of_noSet v a b s ops h1 h2
    · subst h1
      rw [PermSt.run_append, PermSt.run_cons_some h2]
      refine PermSt.run_get_of_noSet v a b s' post ?_ h4
      rw [PermSt.step_get h2 a b, h3]; rfl

/-- "an authorised caller set bit `b` of `a` in the history": a successful operation of the history grants it, and its
    caller held OWNER in the state the operation ran in, or is the contract owner -/
def PermSt.Granted (s0 : PermSt) (ops : List PermOp) (a : Addr) (b : Bit) : Prop :=
  ∃ pre o post s', ops = pre ++ o :: post ∧ (s0.run pre).step o = some s' ∧
    o.effect (s0.run pre) a b = some true ∧
    (((s0.run pre).perms o.caller).owner = true ∨ o.caller = s0.scOwner)

/-- PROVENANCE: a bit that is set after the history was set at the start or was granted by an authorised caller -/
theorem PermSt.run_provenance (s0 : PermSt) (ops : List PermOp) (a : Addr) (b : Bit)
    (h : ((s0.run ops).perms a).get b = true) : (s0.perms a).get b = true ∨ s0.Granted ops a b := by
  rcases (PermSt.run_get_iff s0 ops a b true).mp h with ⟨h1, _⟩ | ⟨pre, o, post, s', h1, h2, h3, _⟩
  · exact Or.inl h1
  · refine Or.inr ⟨pre, o, post, s', h1, h2, h3, ?_⟩
    rcases PermSt.step_authority h2 with h5 | h5
    · rw [PermSt.holds_OWNER] at h5; exact Or.inl h5
    · rw [PermSt.run_scOwner] at h5; exact Or.inr h5

/-- the OWNER bit is never minted: whoever holds it after a history held it at the start, or is the contract owner
    and took it over from somebody — so somebody held it at the start -/
theorem PermSt.run_owner_origin (s0 : PermSt) (ops : List PermOp) (a : Addr)
    (h : ((s0.run ops).perms a).owner = true) :
    (s0.perms a).owner = true ∨ (a = s0.scOwner ∧ ∃ p, (s0.perms p).owner = true) := by
  induction ops using list_snoc_induction generalizing a with
  | nil => exact Or.inl h
  | snoc ops o ih =>
    rw [PermSt.run_append] at h
    cases hst : (s0.run ops).step o with
    | none => rw [PermSt.run_cons_none hst] at h; exact ih a h
    | some s1 =>
      rw [PermSt.run_cons_some hst] at h
      have hg := PermSt.step_get hst a .owner
      simp only [Perm.get] at hg
      have h : (s1.perms a).owner = true := h
      rw [hg] at h
      cases he : o.effect (s0.run ops) a .owner with
      | none => rw [he] at h; exact ih a h
      | some w =>
        rw [he] at h
        have hw : w = true := h
        subst hw
        rcases PermSt.grant_cases hst he with ⟨_, _, hb, _⟩ | ⟨_, _, hb, _⟩ | ⟨prev, _, hsc, _, hp⟩
        · cases hb
        · cases hb
        · rw [PermSt.run_scOwner] at hsc
          refine Or.inr ⟨hsc, ?_⟩
          rcases ih prev hp with h6 | ⟨_, h6⟩
          · exact ⟨prev, h6⟩
          · exact h6

/-- if nobody holds OWNER at the start, nobody ever does -/
theorem PermSt.run_no_owner (s0 : PermSt) (h : ∀ x, (s0.perms x).owner = false) (ops : List PermOp) (x : Addr) :
    ((s0.run ops).perms x).owner = false := by
  cases hx : ((s0.run ops).perms x).owner with
  | false => rfl
  | true =>
    rcases PermSt.run_owner_origin s0 ops x hx with h5 | ⟨_, p, h5⟩
    · rw [h x] at h5; cases h5
    · rw [h p] at h5; cases h5

/-- without an OWNER holder at the start, bits are at most MOVED (by the contract owner's `updateOwnerOrAdmin`), never
    created: a bit nobody holds at the start is held by nobody after any history -/
theorem PermSt.run_no_bit (s0 : PermSt) (h : ∀ x, (s0.perms x).owner = false) (b : Bit)
    (hb : ∀ x, (s0.perms x).get b = false) (ops : List PermOp) : ∀ x, ((s0.run ops).perms x).get b = false := by
  induction ops using list_snoc_induction with
  | nil => exact hb
  | snoc ops o ih =>
    intro x
    rw [PermSt.run_append]
    cases hst : (s0.run ops).step o with
    | none => rw [PermSt.run_cons_none hst]; exact ih x
    | some s1 =>
      rw [PermSt.run_cons_some hst, PermSt.run_nil, PermSt.step_get hst x b]
      cases he : o.effect (s0.run ops) x b with
      | none => exact ih x
      | some w =>
        cases w with
        | false => rfl
        | true =>
          exfalso
          rcases PermSt.grant_cases hst he with ⟨d, _, _, hd⟩ | ⟨d, _, _, hd⟩ | ⟨pv, _, _, _, hd⟩
          · rw [PermSt.run_no_owner s0 h] at hd; cases hd
          · rw [PermSt.run_no_owner s0 h] at hd; cases hd
          · rw [ih pv] at hd; cases hd

/-- every caller of the history lacks OWNER at the moment of its call and is not the contract owner -/
def PermSt.UnauthorisedAtTime (s : PermSt) (ops : List PermOp) : Prop :=
  ∀ pre o post, ops = pre ++ o :: post →
    (s.run pre).holds o.caller Perm.OWNER = false ∧ o.caller ≠ s.scOwner

/-- a history none of whose callers is authorised AT THE TIME OF ITS CALL changes nothing -/
theorem PermSt.run_unauthorised_at_time (s : PermSt) (ops : List PermOp) (h : s.UnauthorisedAtTime ops) :
    s.run ops = s := by
  induction ops using list_snoc_induction with
  | nil => rfl
  | snoc ops o ih =>
    have hpre : s.run ops = s := ih (fun pre o' post hsplit => h pre o' (post ++ [o]) (by rw [hsplit]; simp))
    have ho := h ops o [] rfl
    rw [hpre] at ho
    rw [PermSt.run_append, hpre]
    exact PermSt.run_unauthorised s [o] (fun o' ho' => by
      rw [List.mem_singleton] at ho'; subst ho'; exact ho)

/-- checking the callers against the INITIAL state (as `run_unauthorised` does) or against the state at the time of
    each call is the same condition -/
theorem PermSt.unauthorised_iff (s : PermSt) (ops : List PermOp) :
    (∀ o ∈ ops, s.holds o.caller Perm.OWNER = false ∧ o.caller ≠ s.scOwner) ↔ s.UnauthorisedAtTime ops := by
  constructor
  · intro h pre o post hsplit
    have hpre : s.run pre = s :=
      PermSt.run_unauthorised s pre (fun o' ho' => h o' (by rw [hsplit]; exact List.mem_append_left _ ho'))
    rw [hpre]
    exact h o (by rw [hsplit]; simp)
  · intro h o ho
    obtain ⟨pre, post, hsplit⟩ := List.append_of_mem ho
    have hpre : s.run pre = s :=
      PermSt.run_unauthorised_at_time s pre
        (fun p o' q hs => h p o' (q ++ o :: post) (by rw [hsplit, hs]; simp))
    have := h pre o post hsplit
    rw [hpre] at this
    exact this

/-- a history that changed the state contains a successful operation by a caller authorised at that moment -/
theorem PermSt.run_changed (s : PermSt) (ops : List PermOp) (h : s.run ops ≠ s) :
    ∃ pre o post s', ops = pre ++ o :: post ∧ (s.run pre).step o = some s' ∧
      (((s.run pre).perms o.caller).owner = true ∨ o.caller = s.scOwner) := by
  induction ops using list_snoc_induction with
  | nil => exact absurd rfl h
  | snoc ops o ih =>
    cases hst : (s.run ops).step o with
    | none =>
      rw [PermSt.run_append, PermSt.run_cons_none hst] at h
      obtain ⟨pre, o', post, s', h1, h2, h3⟩ := ih h
      exact ⟨pre, o', post ++ [o], s', by rw [h1]; simp, h2, h3⟩
    | some s1 =>
      refine ⟨ops, o, [], s1, rfl, hst, ?_⟩
      rcases PermSt.step_authority hst with h5 | h5
      · rw [PermSt.holds_OWNER] at h5; exact Or.inl h5
      · rw [PermSt.run_scOwner] at h5; exact Or.inr h5

-- ---------------- pausable -----------------------------------------------------------------

/-- the permission operations inside a pausable history -/
def PauseOp.permOp? : PauseOp → Option PermOp
  | .perm o => some o
  | _ => none

def permOps (ops : List PauseOp) : List PermOp := ops.filterMap PauseOp.permOp?

theorem PauseSt.run_nil (s : PauseSt) : s.run [] = s := rfl

theorem PauseSt.run_append (s : PauseSt) (xs ys : List PauseOp) : s.run (xs ++ ys) = (s.run xs).run ys := by
  simp [PauseSt.run, List.foldl_append]

theorem PauseSt.run_cons_some {s s' : PauseSt} {o : PauseOp} (h : s.step o = some s') (ops : List PauseOp) :
    s.run (o :: ops) = s'.run ops := by rw [PauseSt.run_cons, h]

theorem PauseSt.run_cons_none {s : PauseSt} {o : PauseOp} (h : s.step o = none) (ops : List PauseOp) :
    s.run (o :: ops) = s.run ops := by rw [PauseSt.run_cons, h]

/-- pause / resume / no-swaps never touch the permissions; a permission operation acts as in `PermSt` -/
theorem PauseSt.step_perm (s : PauseSt) (o : PauseOp) : (s.run [o]).perm = s.perm.run (permOps [o]) := by
  cases o with
  | pause c =>
    have hp : permOps [PauseOp.pause c] = [] := rfl
    rw [hp, PermSt.run_nil]
    by_cases hc : s.perm.holds c Perm.PAUSE = true <;> simp [PauseSt.run, PauseSt.step, hc]
  | resume c =>
    have hp : permOps [PauseOp.resume c] = [] := rfl
    rw [hp, PermSt.run_nil]
    by_cases hc : s.perm.holds c Perm.PAUSE = true <;> simp [PauseSt.run, PauseSt.step, hc]
  | setActiveNoSwaps c =>
    have hp : permOps [PauseOp.setActiveNoSwaps c] = [] := rfl
    rw [hp, PermSt.run_nil]
    by_cases hc : s.perm.holds c Perm.OWNER = true <;> simp [PauseSt.run, PauseSt.step, hc]
  | perm p =>
    have hq : permOps [PauseOp.perm p] = [p] := rfl
    rw [hq]
    cases hp : s.perm.step p <;> simp [PauseSt.run, PauseSt.step, hp, PermSt.run]

/-- the permission component of a pausable run is the permission run of the permission operations in it -/
theorem PauseSt.run_perm (s : PauseSt) (ops : List PauseOp) : (s.run ops).perm = s.perm.run (permOps ops) := by
  induction ops generalizing s with
  | nil => rfl
  | cons o ops ih =>
    have h0 : s.run (o :: ops) = (s.run [o]).run ops := rfl
    have h1 : permOps (o :: ops) = permOps [o] ++ permOps ops := by
      simp only [permOps]; rw [← List.filterMap_append]; rfl
    rw [h0, ih, h1, PermSt.run_append, PauseSt.step_perm]

/-- value the kill switch gets from a (successful) operation -/
def PauseOp.sets : PauseOp → Option CState
  | .pause _ => some .inactive
  | .resume _ => some .active
  | .setActiveNoSwaps _ => some .partialActive
  | .perm _ => none

/-- the kill switch after any history is the initial one, or the one written by a successful pause / resume /
    no-swaps call of the history whose caller held PAUSE (resp. OWNER) at that moment -/
theorem PauseSt.run_state (s : PauseSt) (ops : List PauseOp) :
    (s.run ops).state = s.state ∨
    ∃ pre o post s' c, ops = pre ++ o :: post ∧ (s.run pre).step o = some s' ∧ o.sets = some (s.run ops).state ∧
      (((o = .pause c ∨ o = .resume c) ∧ ((s.run pre).perm.perms c).pause = true) ∨
       (o = .setActiveNoSwaps c ∧ ((s.run pre).perm.perms c).owner = true)) := by
  induction ops using list_snoc_induction with
  | nil => exact Or.inl rfl
  | snoc ops o ih =>
    cases hst : (s.run ops).step o with
    | none =>
      rw [PauseSt.run_append, PauseSt.run_cons_none hst, PauseSt.run_nil]
      rcases ih with h | ⟨pre, o', post, s', c, h1, h2, h3, h4⟩
      · exact Or.inl h
      · exact Or.inr ⟨pre, o', post ++ [o], s', c, by rw [h1]; simp, h2, h3, h4⟩
    | some s1 =>
      rw [PauseSt.run_append, PauseSt.run_cons_some hst, PauseSt.run_nil]
      cases o with
      | pause c =>
        have hst' := hst
        simp only [PauseSt.step] at hst
        split at hst
        · rename_i hc
          cases hst
          rw [PermSt.holds_PAUSE] at hc
          exact Or.inr ⟨ops, .pause c, [], _, c, rfl, hst', rfl, Or.inl ⟨Or.inl rfl, hc⟩⟩
        · cases hst
      | resume c =>
        have hst' := hst
        simp only [PauseSt.step] at hst
        split at hst
        · rename_i hc
          cases hst
          rw [PermSt.holds_PAUSE] at hc
          exact Or.inr ⟨ops, .resume c, [], _, c, rfl, hst', rfl, Or.inl ⟨Or.inr rfl, hc⟩⟩
        · cases hst
      | setActiveNoSwaps c =>
        have hst' := hst
        simp only [PauseSt.step] at hst
        split at hst
        · rename_i hc
          cases hst
          rw [PermSt.holds_OWNER] at hc
          exact Or.inr ⟨ops, .setActiveNoSwaps c, [], _, c, rfl, hst', rfl, Or.inr ⟨rfl, hc⟩⟩
        · cases hst
      | perm p =>
        have hs1 : s1.state = (s.run ops).state := by
          simp only [PauseSt.step, Option.map_eq_some_iff] at hst
          obtain ⟨q, _, hq⟩ := hst
          subst hq; rfl
        rw [hs1]
        rcases ih with h | ⟨pre, o', post, s', c, h1, h2, h3, h4⟩
        · exact Or.inl h
        · exact Or.inr ⟨pre, o', post ++ [.perm p], s', c, by rw [h1]; simp, h2, h3, h4⟩

end Mx.Access
