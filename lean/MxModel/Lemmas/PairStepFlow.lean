/-
  One transaction of the pair, seen from the token side: for every operation and all
  arguments, what the pair's wallet and the sinks gain is exactly what the caller pays minus
  what it gets back (`PairLedger.move`).  This is the step lemma behind the per-account ledger
  (Props/C01Ledger.lean).
-/
import MxModel.Lemmas.PairFlow

namespace Mx.PairLedger
open Mx.Pair

/-- Token account of one successful operation `s → s'` whose caller moved `m`:
    per pool token, (pair balance + burned + collector + forwarded + simple-lock) grows by exactly
    payment − receipt; simple-lock grows by exactly the LOCKED amount delivered; the LP supply
    moves by exactly (delivered + newly locked in the pair − paid); no counter decreases. -/
structure StepFlow (s s' : St) (m : Move) : Prop where
  tokA : s'.bal1 + s'.burn1 + s'.coll1 + s'.ext1 + s'.slk1 + m.getA =
         s.bal1 + s.burn1 + s.coll1 + s.ext1 + s.slk1 + m.payA
  tokB : s'.bal2 + s'.burn2 + s'.coll2 + s'.ext2 + s'.slk2 + m.getB =
         s.bal2 + s.burn2 + s.coll2 + s.ext2 + s.slk2 + m.payB
  slkA : s'.slk1 = s.slk1 + m.getLkA
  slkB : s'.slk2 = s.slk2 + m.getLkB
  lp : s'.S + m.payLp + s.lpOwn = s.S + m.getLp + s'.lpOwn
  own : s.lpOwn ≤ s'.lpOwn
  burn1 : s.burn1 ≤ s'.burn1
  burn2 : s.burn2 ≤ s'.burn2
  coll1 : s.coll1 ≤ s'.coll1
  coll2 : s.coll2 ≤ s'.coll2
  ext1 : s.ext1 ≤ s'.ext1
  ext2 : s.ext2 ≤ s'.ext2

/-- operations that move no token at all -/
theorem StepFlow.of_same {s s' : St} (h1 : s'.bal1 = s.bal1) (h2 : s'.bal2 = s.bal2)
    (h3 : s'.burn1 = s.burn1) (h4 : s'.burn2 = s.burn2) (h5 : s'.coll1 = s.coll1)
    (h6 : s'.coll2 = s.coll2) (h7 : s'.ext1 = s.ext1) (h8 : s'.ext2 = s.ext2)
    (h9 : s'.slk1 = s.slk1) (h10 : s'.slk2 = s.slk2) (h11 : s'.S = s.S)
    (h12 : s'.lpOwn = s.lpOwn) : StepFlow s s' {} := by
  refine ⟨?_, ?_, ?_, ?_, ?_, ?_, ?_, ?_, ?_, ?_, ?_, ?_⟩ <;> (try simp only []) <;> omega

theorem plain_add_locked (o : Out) : o.plainAmt + o.lockedAmt = o.v1 := by
  cases hl : o.locked <;> simp [Out.plainAmt, Out.lockedAmt, hl]

theorem optimal_le {s : St} {a1 a2 m1 m2 o1 o2 : Nat}
    (h : optimal s a1 a2 m1 m2 = some (o1, o2)) : o1 ≤ a1 ∧ o2 ≤ a2 := by
  obtain ⟨h1 | h1, _, _⟩ := optimal_spec h
  · obtain ⟨h2, rfl, rfl⟩ := h1
    exact ⟨Nat.le_refl _, h2⟩
  · obtain ⟨_, h2, rfl, rfl⟩ := h1
    exact ⟨h2, Nat.le_refl _⟩

theorem setBal_S (s : St) (d : Dir) (a b : Nat) :
    (s.setBal d a b).S = s.S ∧ (s.setBal d a b).lpOwn = s.lpOwn := by
  cases d <;> exact ⟨rfl, rfl⟩
theorem swapMid_S (s : St) (d : Dir) (c f o : Nat) :
    (swapMid s d c f o).S = s.S ∧ (swapMid s d c f o).lpOwn = s.lpOwn := by
  cases d <;> exact ⟨rfl, rfl⟩

theorem addInitial_stepFlow {s s' : St} {c a1 a2 : Nat} {o : Out} (hi : Inv s)
    (h : addInitial s c a1 a2 = some (s', o)) : StepFlow s s' (move (.addInitial c a1 a2) o) := by
  obtain ⟨_, _, _, _, h4, h5, rfl, rfl⟩ := addInitial_spec h
  have hM : MINLIQ = 1000 := rfl
  refine ⟨?_, ?_, ?_, ?_, ?_, ?_, ?_, ?_, ?_, ?_, ?_, ?_⟩ <;> (try simp only [move]) <;> omega

theorem addLiq_stepFlow {s s' : St} {a1 a2 m1 m2 : Nat} {o : Out} (hi : Inv s)
    (h : addLiq s a1 a2 m1 m2 = some (s', o)) : StepFlow s s' (move (.addLiq a1 a2 m1 m2) o) := by
  have hM : MINLIQ = 1000 := rfl
  by_cases hS : s.S = 0
  · obtain ⟨_, _, _, _, h5, rfl, rfl⟩ := addLiq_first_spec hS h
    refine ⟨?_, ?_, ?_, ?_, ?_, ?_, ?_, ?_, ?_, ?_, ?_, ?_⟩ <;>
      simp only [move, St.touch] <;> omega
  · obtain ⟨o1, o2, _, _, _, _, _, _, _, hopt, rfl, _, _, rfl⟩ := addLiq_spec hS h
    obtain ⟨l1, l2⟩ := optimal_le hopt
    refine ⟨?_, ?_, ?_, ?_, ?_, ?_, ?_, ?_, ?_, ?_, ?_, ?_⟩ <;>
      simp only [move, St.touch] <;> omega

theorem removeLiq_stepFlow {s s' : St} {lp m1 m2 : Nat} {o : Out} (hi : Inv s)
    (h : removeLiq s lp m1 m2 = some (s', o)) : StepFlow s s' (move (.removeLiq lp m1 m2) o) := by
  have hM : MINLIQ = 1000 := rfl
  obtain ⟨_, _, _, _, h5, rfl, _, _, _, _, _, _, _, h14, h15, rfl⟩ := removeLiq_spec h
  simp only at h14 h15
  refine ⟨?_, ?_, ?_, ?_, ?_, ?_, ?_, ?_, ?_, ?_, ?_, ?_⟩ <;>
    simp only [move, St.touch] <;> omega

theorem swapIn_stepFlow {s s' : St} {d : Dir} {a m : Nat} {o : Out} (hi : Inv s)
    (h : swapIn s d a m = some (s', o)) : StepFlow s s' (move (.swapIn d a m) o) := by
  have hb : s.rin d ≤ s.balIn d := by cases d; exact hi.back1; exact hi.back2
  obtain ⟨i1, o1, c1, m1, m2, m3, m4, m5, -, -, -, -, -, -⟩ := swapIn_acct hb h
  obtain ⟨-, l2, l3⟩ := swapIn_lock_spec h
  obtain ⟨_, _, -, -, -, -, -, -, -, -, -, -, -, hrel, -, hs'⟩ := swapIn_spec h
  have hsame := hrel.same
  have hpl := plain_add_locked o
  have hS : s'.S = s.S ∧ s'.lpOwn = s.lpOwn := by
    rw [hs']
    obtain ⟨e1, _, e3, _⟩ := hsame
    exact ⟨(setBal_S _ d _ _).1.trans (e1.trans (swapMid_S s d _ _ _).1),
      (setBal_S _ d _ _).2.trans (e3.trans (swapMid_S s d _ _ _).2)⟩
  clear hrel hsame hs' h hi hb
  cases d <;>
    simp only [St.balIn, St.balOut, St.burnIn, St.burnOut, St.collIn, St.collOut, St.extIn,
      St.extOut, St.slkIn, St.slkOut] at i1 o1 c1 m1 m2 m3 m4 m5 l2 l3 <;>
    (refine ⟨?_, ?_, ?_, ?_, ?_, ?_, ?_, ?_, ?_, ?_, ?_, ?_⟩ <;> (try simp only [move]) <;> omega)

theorem swapOut_stepFlow {s s' : St} {d : Dir} {mx out : Nat} {o : Out} (hi : Inv s)
    (h : swapOut s d mx out = some (s', o)) : StepFlow s s' (move (.swapOut d mx out) o) := by
  have hb : s.rin d ≤ s.balIn d := by cases d; exact hi.back1; exact hi.back2
  obtain ⟨i1, o1, c1, m1, m2, m3, m4, m5, -, -, -, -, -, -⟩ := swapOut_acct hb h
  obtain ⟨-, l2, l3⟩ := swapOut_lock_spec h
  obtain ⟨_, _, -, -, -, -, -, ho, hle, -, -, -, -, hrel, -, hs'⟩ := swapOut_spec h
  have hsame := hrel.same
  have hpl := plain_add_locked o
  have hv1 : o.v1 = out := by rw [ho]
  have hv3 : o.v3 = mx - o.v2 := by rw [ho]
  have hS : s'.S = s.S ∧ s'.lpOwn = s.lpOwn := by
    rw [hs']
    obtain ⟨e1, _, e3, _⟩ := hsame
    exact ⟨(setBal_S _ d _ _).1.trans (e1.trans (swapMid_S s d _ _ _).1),
      (setBal_S _ d _ _).2.trans (e3.trans (swapMid_S s d _ _ _).2)⟩
  clear hrel hsame hs' h hi hb
  cases d <;>
    simp only [St.balIn, St.balOut, St.burnIn, St.burnOut, St.collIn, St.collOut, St.extIn,
      St.extOut, St.slkIn, St.slkOut] at i1 o1 c1 m1 m2 m3 m4 m5 l2 l3 <;>
    (refine ⟨?_, ?_, ?_, ?_, ?_, ?_, ?_, ?_, ?_, ?_, ?_, ?_⟩ <;> (try simp only [move]) <;> omega)

theorem swapNoFee_stepFlow {s s' : St} {c : Nat} {d : Dir} {a : Nat} {o : Out} (hi : Inv s)
    (h : swapNoFee s c d a = some (s', o)) : StepFlow s s' (move (.swapNoFee c d a) o) := by
  obtain ⟨_, _, _, _, _, _, _, h8, rfl⟩ := swapNoFee_spec h
  cases d <;>
    simp only [St.balOut] at h8 <;>
    (refine ⟨?_, ?_, ?_, ?_, ?_, ?_, ?_, ?_, ?_, ?_, ?_, ?_⟩ <;>
      simp only [move, St.touch, St.setR, St.setBal, St.addBurnOut, St.addBurnIn, Dir.flip,
        St.rin, St.rout, St.balIn, St.balOut] <;> omega)

/-- buy-back-and-burn: the reserves / supply update touches no balance and no sink, and both
    fee-slice routings only move balance into sinks -/
theorem buyback_flows {s s' : St} {c lp : Nat} {w : Want} {o : Out}
    (h : buyback s c lp w = some (s', o)) :
    ∃ s1 s2, (s1.bal1 = s.bal1 ∧ s1.bal2 = s.bal2 ∧ s1.burn1 = s.burn1 ∧ s1.burn2 = s.burn2 ∧
      s1.coll1 = s.coll1 ∧ s1.coll2 = s.coll2 ∧ s1.ext1 = s.ext1 ∧ s1.ext2 = s.ext2) ∧
      Flow .ab s1 s2 ∧ Flow .ba s2 s' := by
  simp only [buyback, Option.bind_eq_bind, Option.bind_eq_some_iff, req_eq_some, sub?_eq_some,
    Option.pure_def, Option.some.injEq, Prod.mk.injEq] at h
  obtain ⟨_, h1, _, h2, ⟨x1, x2⟩, hx, cc, ⟨h3, rfl⟩, s2, hf1, s3, hf2, rfl, rfl⟩ := h
  refine ⟨_, s2, ?_, feeSlice_flow hf1, feeSlice_flow hf2⟩
  exact ⟨rfl, rfl, rfl, rfl, rfl, rfl, rfl, rfl⟩

theorem buyback_stepFlow {s s' : St} {c lp : Nat} {w : Want} {o : Out} (hi : Inv s)
    (h : buyback s c lp w = some (s', o)) : StepFlow s s' (move (.buyback c lp w) o) := by
  have hM : MINLIQ = 1000 := rfl
  obtain ⟨s1, s2, ⟨z1, z2, z3, z4, z5, z6, z7, z8⟩, f1, f2⟩ := buyback_flows h
  obtain ⟨s2', _, _, h3, _, _, _, _, _, _, r1, r2⟩ := buyback_spec h
  obtain ⟨k1, k2⟩ := buyback_slk h
  obtain ⟨a1, a2, a3, a4, a5, a6, a7, a8⟩ := f1
  obtain ⟨b1, b2, b3, b4, b5, b6, b7, b8⟩ := f2
  obtain ⟨c1, _, c3, _⟩ := r1.same
  obtain ⟨d1, _, d3, _⟩ := r2.same
  simp only [St.touch, St.balIn, St.balOut, St.burnIn, St.burnOut, St.collIn, St.collOut,
    St.extIn, St.extOut] at a1 a2 a3 a4 a5 a6 a7 a8 b1 b2 b3 b4 b5 b6 b7 b8 c1 c3
  refine ⟨?_, ?_, ?_, ?_, ?_, ?_, ?_, ?_, ?_, ?_, ?_, ?_⟩ <;> (try simp only [move]) <;> omega

theorem cfg_stepFlow {s s' : St} {o : CfgOp} (h : cfg s o = some s') : StepFlow s s' {} := by
  cases o <;>
    simp only [cfg, Option.bind_eq_bind, Option.bind_eq_some_iff, req_eq_some, Option.pure_def,
      Option.some.injEq] at h
  case setFee => obtain ⟨_, _, rfl⟩ := h; exact .of_same rfl rfl rfl rfl rfl rfl rfl rfl rfl rfl rfl rfl
  case addDest => subst h; exact .of_same rfl rfl rfl rfl rfl rfl rfl rfl rfl rfl rfl rfl
  case removeDest => obtain ⟨_, _, rfl⟩ := h; exact .of_same rfl rfl rfl rfl rfl rfl rfl rfl rfl rfl rfl rfl
  case setCollector => obtain ⟨_, _, rfl⟩ := h; exact .of_same rfl rfl rfl rfl rfl rfl rfl rfl rfl rfl rfl rfl
  case setState => subst h; exact .of_same rfl rfl rfl rfl rfl rfl rfl rfl rfl rfl rfl rfl
  case whitelist => obtain ⟨_, _, rfl⟩ := h; exact .of_same rfl rfl rfl rfl rfl rfl rfl rfl rfl rfl rfl rfl
  case removeWhitelist => obtain ⟨_, _, rfl⟩ := h; exact .of_same rfl rfl rfl rfl rfl rfl rfl rfl rfl rfl rfl rfl
  case setTrusted f x =>
    cases f <;> simp only [cfg, Option.pure_def, Option.some.injEq] at h <;> subst h <;>
      exact .of_same rfl rfl rfl rfl rfl rfl rfl rfl rfl rfl rfl rfl

/-- THE step lemma: every successful operation, all arguments, any configuration -/
theorem step_stepFlow {s s' : St} {op : Op} {o : Out} (hi : Inv s)
    (h : step s op = some (s', o)) : StepFlow s s' (move op o) := by
  cases op <;> simp only [step] at h
  case addInitial => exact addInitial_stepFlow hi h
  case addLiq => exact addLiq_stepFlow hi h
  case removeLiq => exact removeLiq_stepFlow hi h
  case swapIn => exact swapIn_stepFlow hi h
  case swapOut => exact swapOut_stepFlow hi h
  case swapNoFee => exact swapNoFee_stepFlow hi h
  case buyback => exact buyback_stepFlow hi h
  case cfg =>
    simp only [Option.map_eq_some_iff, Prod.mk.injEq] at h
    obtain ⟨s1, h1, rfl, _⟩ := h
    exact cfg_stepFlow h1
  case advance =>
    split at h
    · simp only [Option.some.injEq, Prod.mk.injEq] at h
      obtain ⟨rfl, _⟩ := h
      exact .of_same rfl rfl rfl rfl rfl rfl rfl rfl rfl rfl rfl rfl
    · simp at h
  case lock =>
    simp only [Option.map_eq_some_iff, Prod.mk.injEq] at h
    obtain ⟨s1, h1, rfl, _⟩ := h
    obtain ⟨_, dl, ul, sc, rfl⟩ := lockCfg_spec h1
    exact .of_same rfl rfl rfl rfl rfl rfl rfl rfl rfl rfl rfl rfl
  case epoch =>
    split at h
    · simp only [Option.some.injEq, Prod.mk.injEq] at h
      obtain ⟨rfl, _⟩ := h
      exact .of_same rfl rfl rfl rfl rfl rfl rfl rfl rfl rfl rfl rfl
    · simp at h

end Mx.PairLedger
