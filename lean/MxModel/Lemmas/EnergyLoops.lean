/-
  The multi-payment loops of the energy world (`unlockTokens`, `mergeTokens`, `lockFunds`/`wrap`,
  `withdraw`/`cancelTransfer`/`unwrap`, `cancelUnbond`, `claimUnlockedTokens`): each keeps the
  caller's entry tracking the caller's balance row and touches no other user.
-/
import MxModel.Lemmas.EnergySpec

namespace Mx.Energy

/-- `s1` differs from `s` (as far as C08 is concerned) at most in the balance row of the user `a`
    and in rows of contracts -/
def Frame (s s1 : St) (a : Nat) : Prop :=
  s1.epoch = s.epoch ∧ s1.nonces = s.nonces ∧ s1.energy = s.energy ∧
  ∀ x, x < SCBASE → x ≠ a → s1.bal x = s.bal x

theorem Frame.refl (s : St) (a : Nat) : Frame s s a := ⟨rfl, rfl, rfl, fun _ _ _ => rfl⟩

theorem Frame.trans {s s1 s2 : St} {a : Nat} (h1 : Frame s s1 a) (h2 : Frame s1 s2 a) : Frame s s2 a := by
  obtain ⟨a1, b1, c1, d1⟩ := h1
  obtain ⟨a2, b2, c2, d2⟩ := h2
  exact ⟨a2.trans a1, b2.trans b1, c2.trans c1, fun x hx hxa => (d2 x hx hxa).trans (d1 x hx hxa)⟩

/-- the row of `a` is zero outside the nonce range -/
def Dom (s : St) (a : Nat) : Prop := ∀ n, (n = 0 ∨ s.nonces.length < n) → s.bal a n = 0

theorem sc_ne_user {a esc : Nat} (ha : a < SCBASE) (he : SCBASE ≤ esc) : a ≠ esc := by omega

/-- debit of the user `a` -/
theorem debit_frame {s s1 : St} {a n amt : Nat} (h : s.debit a n amt = some s1) :
    amt ≤ s.bal a n ∧ Frame s s1 a ∧ s1.bal a = upd (s.bal a) n (s.bal a n - amt) := by
  obtain ⟨hle, rfl⟩ := debit_spec h
  refine ⟨hle, ⟨rfl, rfl, rfl, fun x _ hxa => ?_⟩, ?_⟩
  · exact upd2_other _ _ _ hxa
  · exact upd2_same _ _ _ _

/-- debit of a contract: no user row moves -/
theorem debit_sc_frame {s s1 : St} {esc n amt a : Nat} (he : SCBASE ≤ esc)
    (h : s.debit esc n amt = some s1) :
    Frame s s1 a ∧ (a < SCBASE → s1.bal a = s.bal a) := by
  obtain ⟨_, rfl⟩ := debit_spec h
  refine ⟨⟨rfl, rfl, rfl, fun x hx _ => ?_⟩, fun ha => ?_⟩
  · exact upd2_other _ _ _ (sc_ne_user hx he)
  · exact upd2_other _ _ _ (sc_ne_user ha he)

theorem credit_sc_frame (s : St) {esc a : Nat} (n amt : Nat) (he : SCBASE ≤ esc) :
    Frame s (s.credit esc n amt) a ∧ (a < SCBASE → (s.credit esc n amt).bal a = s.bal a) := by
  refine ⟨⟨rfl, rfl, rfl, fun x hx _ => ?_⟩, fun ha => ?_⟩
  · exact upd2_other _ _ _ (sc_ne_user hx he)
  · exact upd2_other _ _ _ (sc_ne_user ha he)

theorem credit_frame (s : St) (a n amt : Nat) :
    Frame s (s.credit a n amt) a ∧ (s.credit a n amt).bal a = upd (s.bal a) n (s.bal a n + amt) := by
  refine ⟨⟨rfl, rfl, rfl, fun x _ hxa => ?_⟩, ?_⟩
  · exact upd2_other _ _ _ hxa
  · exact upd2_same _ _ _ _

/-! ### unlockTokens -/

theorem unlockPays_inv {c : Nat} (ps : List (Nat × Nat)) {s s2 : St} {e e2 : Entry} {tot : Nat}
    (h : unlockPays s c e ps = some (s2, e2, tot))
    (ht : Tracks e (s.bal c) s.nonces s.epoch) (hd : Dom s c) :
    Frame s s2 c ∧ Tracks e2 (s2.bal c) s.nonces s.epoch ∧ Dom s2 c := by
  induction ps generalizing s e tot with
  | nil =>
    simp only [unlockPays, Option.some.injEq, Prod.mk.injEq] at h
    obtain ⟨rfl, rfl, _⟩ := h
    exact ⟨Frame.refl _ _, ht, hd⟩
  | cons p ps ih =>
    obtain ⟨n, amt⟩ := p
    simp only [unlockPays, Option.bind_eq_bind, Option.bind_eq_some_iff, req_eq_some,
      Option.pure_def, Option.some.injEq, Prod.mk.injEq] at h
    obtain ⟨u, hu, s1, hdeb, _, hle, _, _, e1, hr, ⟨s2', e2', tot'⟩, hrec, rfl, rfl, _⟩ := h
    have hN := unlockOf_isNonce hu
    obtain ⟨hamt, hf, hrow⟩ := debit_frame hdeb
    have ht1 : Tracks e1 (s1.bal c) s1.nonces s1.epoch := by
      rw [hrow, hf.1, hf.2.1]; exact ht.refund hN hle hamt hr
    have hd1 : Dom s1 c := by
      intro m hm
      rw [hrow]; rw [hf.2.1] at hm
      exact dom_upd hN hd m hm
    obtain ⟨f2, t2, d2⟩ := ih hrec ht1 hd1
    rw [hf.1, hf.2.1] at t2
    exact ⟨hf.trans f2, t2, d2⟩

/-! ### mergeTokens (the payments after the first) -/

theorem mergePays_inv {c : Nat} (ps : List (Nat × Nat)) {s s2 : St} {e e2 : Entry}
    {accE accW accE' accW' : Nat}
    (h : mergePays s c e accE accW ps = some (s2, e2, accE', accW'))
    (ht : Tracks e (s.bal c) s.nonces s.epoch) (hd : Dom s c) :
    Frame s s2 c ∧ Tracks e2 (s2.bal c) s.nonces s.epoch ∧ Dom s2 c := by
  induction ps generalizing s e accE accW with
  | nil =>
    simp only [mergePays, Option.some.injEq, Prod.mk.injEq] at h
    obtain ⟨rfl, rfl, _⟩ := h
    exact ⟨Frame.refl _ _, ht, hd⟩
  | cons p ps ih =>
    obtain ⟨n, amt⟩ := p
    simp only [mergePays, Option.bind_eq_bind, Option.bind_eq_some_iff, req_eq_some] at h
    obtain ⟨u, hu, s1, hdeb, _, _, e1, hr, _, _, hrec⟩ := h
    have hN := unlockOf_isNonce hu
    obtain ⟨hamt, hf, hrow⟩ := debit_frame hdeb
    have ht1 : Tracks e1 (s1.bal c) s1.nonces s1.epoch := by
      rw [hrow, hf.1, hf.2.1]; exact ht.unlockAny hN hamt hr
    have hd1 : Dom s1 c := by
      intro m hm
      rw [hrow]; rw [hf.2.1] at hm
      exact dom_upd hN hd m hm
    obtain ⟨f2, t2, d2⟩ := ih hrec ht1 hd1
    rw [hf.1, hf.2.1] at t2
    exact ⟨hf.trans f2, t2, d2⟩

/-! ### lockFunds / wrap : tokens go to an escrow contract -/

theorem deductPays_inv {esc c : Nat} (he : SCBASE ≤ esc) (hc : c < SCBASE) (ps : List (Nat × Nat))
    {s s2 : St} {e e2 : Entry}
    (h : deductPays s esc c e ps = some (s2, e2))
    (ht : Tracks e (s.bal c) s.nonces s.epoch) (hd : Dom s c) :
    Frame s s2 c ∧ Tracks e2 (s2.bal c) s.nonces s.epoch ∧ Dom s2 c := by
  induction ps generalizing s e with
  | nil =>
    simp only [deductPays, Option.some.injEq, Prod.mk.injEq] at h
    obtain ⟨rfl, rfl⟩ := h
    exact ⟨Frame.refl _ _, ht, hd⟩
  | cons p ps ih =>
    obtain ⟨n, amt⟩ := p
    simp only [deductPays, Option.bind_eq_bind, Option.bind_eq_some_iff, req_eq_some] at h
    obtain ⟨u, hu, s1, hdeb, _, hlt, e1, hr, hrec⟩ := h
    have hN := unlockOf_isNonce hu
    obtain ⟨hamt, hf, hrow⟩ := debit_frame hdeb
    obtain ⟨hcf, hcrow⟩ := credit_sc_frame s1 (a := c) n amt he
    have hrow' : (s1.credit esc n amt).bal c = upd (s.bal c) n (s.bal c n - amt) := by
      rw [hcrow hc, hrow]
    have hF := hf.trans hcf
    have ht1 : Tracks e1 ((s1.credit esc n amt).bal c) (s1.credit esc n amt).nonces (s1.credit esc n amt).epoch := by
      rw [hrow', hF.1, hF.2.1]; exact ht.early hN (Nat.le_of_lt hlt) hamt hr
    have hd1 : Dom (s1.credit esc n amt) c := by
      intro m hm
      rw [hrow']; rw [hF.2.1] at hm
      exact dom_upd hN hd m hm
    obtain ⟨f2, t2, d2⟩ := ih hrec ht1 hd1
    rw [hF.1, hF.2.1] at t2
    exact ⟨hF.trans f2, t2, d2⟩

/-! ### withdraw / cancelTransfer / unwrap : tokens leave an escrow contract -/

theorem addPays_inv {esc c : Nat} (he : SCBASE ≤ esc) (hc : c < SCBASE) (ps : List (Nat × Nat))
    {s s2 : St} {e e2 : Entry}
    (h : addPays s esc c e ps = some (s2, e2))
    (ht : Tracks e (s.bal c) s.nonces s.epoch) (hd : Dom s c) :
    Frame s s2 c ∧ Tracks e2 (s2.bal c) s.nonces s.epoch ∧ Dom s2 c := by
  induction ps generalizing s e with
  | nil =>
    simp only [addPays, Option.some.injEq, Prod.mk.injEq] at h
    obtain ⟨rfl, rfl⟩ := h
    exact ⟨Frame.refl _ _, ht, hd⟩
  | cons p ps ih =>
    obtain ⟨n, amt⟩ := p
    simp only [addPays, Option.bind_eq_bind, Option.bind_eq_some_iff] at h
    obtain ⟨u, hu, s1, hdeb, hrec⟩ := h
    have hN := unlockOf_isNonce hu
    obtain ⟨hf, hrow⟩ := debit_sc_frame (a := c) he hdeb
    obtain ⟨hcf, hcrow⟩ := credit_frame s1 c n amt
    have hrow' : (s1.credit c n amt).bal c = upd (s.bal c) n (s.bal c n + amt) := by
      rw [hcrow, hrow hc]
    have hF := hf.trans hcf
    have ht1 : Tracks (e.addDest amt u (s1.credit c n amt).epoch) ((s1.credit c n amt).bal c)
        (s1.credit c n amt).nonces (s1.credit c n amt).epoch := by
      rw [hF.1, hrow', hF.2.1]; exact ht.addDest hN amt
    have hd1 : Dom (s1.credit c n amt) c := by
      intro m hm
      rw [hrow']; rw [hF.2.1] at hm
      exact dom_upd hN hd m hm
    have hrec' : addPays (s1.credit c n amt) esc c (e.addDest amt u (s1.credit c n amt).epoch) ps = some (s2, e2) := by
      rw [hF.1]; exact hrec
    obtain ⟨f2, t2, d2⟩ := ih hrec' ht1 hd1
    rw [hF.1, hF.2.1] at t2
    exact ⟨hF.trans f2, t2, d2⟩

/-! ### cancelUnbond -/

theorem cancelEntries_inv {c : Nat} (hc : c < SCBASE) (qs : List UEntry) {s s2 : St} {e e2 : Entry}
    (h : cancelEntries s c e qs = some (s2, e2))
    (ht : Tracks e (s.bal c) s.nonces s.epoch) (hd : Dom s c) :
    Frame s s2 c ∧ Tracks e2 (s2.bal c) s.nonces s.epoch ∧ Dom s2 c := by
  induction qs generalizing s e with
  | nil =>
    simp only [cancelEntries, Option.some.injEq, Prod.mk.injEq] at h
    obtain ⟨rfl, rfl⟩ := h
    exact ⟨Frame.refl _ _, ht, hd⟩
  | cons q qs ih =>
    simp only [cancelEntries, Option.bind_eq_bind, Option.bind_eq_some_iff, sub?_eq_some] at h
    obtain ⟨u, hu, s1, hdeb, b, _, bs, _, pen, _, pp, _, hrec⟩ := h
    have hN := unlockOf_isNonce hu
    have hU : SCBASE ≤ UNSTAKE := by decide
    obtain ⟨hf, hrow⟩ := debit_sc_frame (a := c) hU hdeb
    -- the state the recursion continues from
    generalize hX : ({ s1 with base := upd s1.base UNSTAKE b, baseSupply := bs,
                               burnCancel := s1.burnCancel + q.unlocked,
                               circ := s1.circ + q.locked, pendingPenalty := pp }.credit c q.nonce q.locked) = X at hrec
    have hXf : Frame s1 X c := by
      subst hX
      exact ⟨rfl, rfl, rfl, fun x _ hxa => upd2_other _ _ _ hxa⟩
    have hXrow : X.bal c = upd (s.bal c) q.nonce (s.bal c q.nonce + q.locked) := by
      subst hX
      show upd2 s1.bal c q.nonce (s1.bal c q.nonce + q.locked) c = _
      rw [upd2_same, hrow hc]
    have hF := hf.trans hXf
    have ht1 : Tracks (e.restoreCancel q.locked u X.epoch) (X.bal c) X.nonces X.epoch := by
      rw [hF.1, hXrow, hF.2.1]; exact ht.restoreCancel hN q.locked
    have hd1 : Dom X c := by
      intro m hm
      rw [hXrow]; rw [hF.2.1] at hm
      exact dom_upd hN hd m hm
    have hrec' : cancelEntries X c (e.restoreCancel q.locked u X.epoch) qs = some (s2, e2) := by
      rw [hF.1]; exact hrec
    obtain ⟨f2, t2, d2⟩ := ih hrec' ht1 hd1
    rw [hF.1, hF.2.1] at t2
    exact ⟨hF.trans f2, t2, d2⟩

/-! ### claimUnlockedTokens : no user row and no entry moves -/

/-- nothing C08 talks about changed -/
def Frame0 (s s1 : St) : Prop :=
  s1.epoch = s.epoch ∧ s1.nonces = s.nonces ∧ s1.energy = s.energy ∧
  ∀ x, x < SCBASE → s1.bal x = s.bal x

theorem claimEntries_frame (qs : List UEntry) {s s2 : St} {paid : Nat}
    (h : claimEntries s qs = some (s2, paid)) : Frame0 s s2 := by
  induction qs generalizing s paid with
  | nil =>
    simp only [claimEntries, Option.some.injEq, Prod.mk.injEq] at h
    obtain ⟨rfl, _⟩ := h
    exact ⟨rfl, rfl, rfl, fun _ _ => rfl⟩
  | cons q qs ih =>
    simp only [claimEntries, Option.bind_eq_bind, Option.bind_eq_some_iff, sub?_eq_some,
      Option.pure_def, Option.some.injEq, Prod.mk.injEq] at h
    obtain ⟨s1, hdeb, pen, _, b, _, pp, _, ⟨s2', paid'⟩, hrec, rfl, _⟩ := h
    obtain ⟨_, rfl⟩ := debit_spec hdeb
    obtain ⟨a1, a2, a3, a4⟩ := ih hrec
    have hU : SCBASE ≤ UNSTAKE := by decide
    exact ⟨a1, a2, a3, fun x hx => (a4 x hx).trans (upd2_other _ _ _ (sc_ne_user hx hU))⟩

end Mx.Energy
