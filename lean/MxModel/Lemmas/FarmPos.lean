/-
  Position-token invariant of the farm model (C07): the farm-token supply is the sum of all
  outstanding position amounts, and `userTotalFarmPosition(o)` is exactly the sum of the outstanding
  positions whose recorded original owner is `o` — in every reachable state.

  Proof technique (as in FarmAcct.lean): every helper is characterised on the small position VIEW
  `pv s` (six fields), all arithmetic is done on that view (`PV`), never on whole `St` records.
-/
import MxModel.Lemmas.FarmSpec
import Mathlib.Tactic.Linarith

namespace Mx.Farm

open Mx.Weekly (upd upd_same upd_other)

/-! ## the statement -/

/-- outstanding amount of nonce `n` over all accounts -/
def heldBy (s : St) (n : Nat) : Nat := (s.users.map fun u => s.hold u n).sum
def nonceList (s : St) : List Nat := List.range (s.lastNonce + 1)
/-- Σ of all outstanding position amounts -/
def totalHeld (s : St) : Nat := ((nonceList s).map (heldBy s)).sum
/-- recorded original owner of nonce `n` -/
def ownerOf (s : St) (n : Nat) : Option Nat := (s.attrs n).map (·.owner)
/-- Σ of the outstanding positions whose recorded owner is `o` -/
def ownedBy (s : St) (o : Nat) : Nat :=
  ((nonceList s).map fun n => if ownerOf s n = some o then heldBy s n else 0).sum

/-- the position-token invariant -/
structure PosInv (s : St) : Prop where
  nodup : s.users.Nodup
  dom : ∀ u n, s.hold u n ≠ 0 → u ∈ s.users ∧ n ≤ s.lastNonce ∧ (s.attrs n).isSome
  fresh : ∀ n, s.lastNonce < n → s.attrs n = none
  /-- farm-token supply = Σ outstanding position amounts -/
  sup : s.supply = totalHeld s
  /-- `getUserTotalFarmPosition(o)` = Σ positions recorded as `o`'s -/
  own : ∀ o, s.userTotal o = ownedBy s o

/-! ## the position view -/

structure PV where
  users : List Nat
  hold : Nat → Nat → Nat
  attrs : Nat → Option Attr
  lastNonce : Nat
  userTotal : Nat → Nat
  supply : Nat

def pv (s : St) : PV := ⟨s.users, s.hold, s.attrs, s.lastNonce, s.userTotal, s.supply⟩

/-- Σ of the payment amounts -/
def paySum : List (Nat × Nat) → Nat
  | [] => 0
  | (_, a) :: rest => a + paySum rest

/-- Σ of the payment amounts whose nonce records owner `o` -/
def payOwned (atr : Nat → Option Attr) (o : Nat) : List (Nat × Nat) → Nat
  | [] => 0
  | (n, a) :: rest => (if (atr n).map (·.owner) = some o then a else 0) + payOwned atr o rest

namespace PV

def heldBy (v : PV) (n : Nat) : Nat := (v.users.map fun u => v.hold u n).sum
def nonceList (v : PV) : List Nat := List.range (v.lastNonce + 1)
def totalHeld (v : PV) : Nat := (v.nonceList.map v.heldBy).sum
def ownerOf (v : PV) (n : Nat) : Option Nat := (v.attrs n).map (·.owner)
def ownedBy (v : PV) (o : Nat) : Nat :=
  (v.nonceList.map fun n => if v.ownerOf n = some o then v.heldBy n else 0).sum

/-- the invariant on the view, with a per-owner surplus `X` of `userTotal` over the owned positions
    (positions taken in by a running endpoint and not yet re-issued); the supply clause is kept
    separate -/
structure InvA (v : PV) (X : Nat → Nat) : Prop where
  nodup : v.users.Nodup
  dom : ∀ u n, v.hold u n ≠ 0 → u ∈ v.users ∧ n ≤ v.lastNonce ∧ (v.attrs n).isSome
  fresh : ∀ n, v.lastNonce < n → v.attrs n = none
  own : ∀ o, v.userTotal o = v.ownedBy o + X o

structure Inv (v : PV) : Prop where
  nodup : v.users.Nodup
  dom : ∀ u n, v.hold u n ≠ 0 → u ∈ v.users ∧ n ≤ v.lastNonce ∧ (v.attrs n).isSome
  fresh : ∀ n, v.lastNonce < n → v.attrs n = none
  sup : v.supply = v.totalHeld
  own : ∀ o, v.userTotal o = v.ownedBy o

theorem Inv.toA {v : PV} (h : Inv v) : InvA v (fun _ => 0) :=
  ⟨h.nodup, h.dom, h.fresh, fun o => by rw [h.own o]; rfl⟩

theorem InvA.toInv {v : PV} {X : Nat → Nat} (h : InvA v X) (hX : ∀ o, X o = 0)
    (hs : v.supply = v.totalHeld) : Inv v :=
  ⟨h.nodup, h.dom, h.fresh, hs, fun o => by rw [h.own o, hX o]; rfl⟩

theorem InvA.congr {v : PV} {X X' : Nat → Nat} (h : InvA v X) (hX : ∀ o, X o = X' o) : InvA v X' :=
  ⟨h.nodup, h.dom, h.fresh, fun o => by rw [h.own o, hX o]⟩

/-! ### finite sums -/

theorem sum_map_point {l : List Nat} (hnd : l.Nodup) {f g : Nat → Nat} {c : Nat} (hc : c ∈ l)
    (hfg : ∀ u, u ≠ c → g u = f u) : (l.map g).sum + f c = (l.map f).sum + g c := by
  induction l with
  | nil => cases hc
  | cons x xs ih =>
    rw [List.nodup_cons] at hnd
    simp only [List.map_cons, List.sum_cons]
    by_cases hx : x = c
    · subst hx
      have : xs.map g = xs.map f :=
        List.map_congr_left (fun u hu => hfg u (fun e => hnd.1 (e ▸ hu)))
      rw [this]; omega
    · have hc' : c ∈ xs := by
        rcases List.mem_cons.mp hc with e | e
        · exact absurd e.symm hx
        · exact e
      have := ih hnd.2 hc'
      rw [hfg x hx]; omega

theorem sum_map_zero {l : List Nat} {f : Nat → Nat} (h : ∀ u ∈ l, f u = 0) : (l.map f).sum = 0 := by
  induction l with
  | nil => rfl
  | cons x xs ih =>
    simp only [List.map_cons, List.sum_cons]
    rw [h x (List.mem_cons_self ..), ih (fun u hu => h u (List.mem_cons_of_mem _ hu))]

/-! ### point update of one holding -/

def setHold (v : PV) (c n x : Nat) : PV := { v with hold := upd v.hold c (upd (v.hold c) n x) }

theorem setHold_hold (v : PV) (c n x u m : Nat) :
    (v.setHold c n x).hold u m = if u = c ∧ m = n then x else v.hold u m := by
  simp only [setHold, upd]
  by_cases hu : u = c
  · subst hu
    by_cases hm : m = n <;> simp [hm]
  · simp [hu]

theorem heldBy_setHold_ne (v : PV) (c n x : Nat) {m : Nat} (hm : m ≠ n) :
    (v.setHold c n x).heldBy m = v.heldBy m := by
  unfold heldBy
  show (v.users.map fun u => (v.setHold c n x).hold u m).sum = _
  congr 1
  apply List.map_congr_left
  intro u _
  rw [setHold_hold]; simp [hm]

theorem heldBy_setHold_eq {v : PV} (hnd : v.users.Nodup) {c : Nat} (hc : c ∈ v.users) (n x : Nat) :
    (v.setHold c n x).heldBy n + v.hold c n = v.heldBy n + x := by
  unfold heldBy
  show (v.users.map fun u => (v.setHold c n x).hold u n).sum + _ = _
  have := sum_map_point hnd (f := fun u => v.hold u n) (g := fun u => (v.setHold c n x).hold u n) hc
    (by intro u hu; simp only [setHold_hold]; simp [hu])
  simp only [setHold_hold, and_self, if_true] at this ⊢
  exact this

theorem totalHeld_setHold {v : PV} (hnd : v.users.Nodup) {c : Nat} (hc : c ∈ v.users) {n : Nat}
    (hn : n ≤ v.lastNonce) (x : Nat) :
    (v.setHold c n x).totalHeld + v.hold c n = v.totalHeld + x := by
  have h1 := heldBy_setHold_eq hnd hc n x
  have h2 := sum_map_point (l := v.nonceList) List.nodup_range (f := v.heldBy)
    (g := (v.setHold c n x).heldBy) (c := n) (List.mem_range.mpr (by omega))
    (fun m hm => heldBy_setHold_ne v c n x hm)
  unfold totalHeld
  show ((v.nonceList).map (v.setHold c n x).heldBy).sum + _ = _
  omega

theorem ownedBy_setHold {v : PV} (hnd : v.users.Nodup) {c : Nat} (hc : c ∈ v.users) {n : Nat}
    (hn : n ≤ v.lastNonce) (x o : Nat) :
    (v.setHold c n x).ownedBy o + (if v.ownerOf n = some o then v.hold c n else 0)
      = v.ownedBy o + (if v.ownerOf n = some o then x else 0) := by
  have h1 := heldBy_setHold_eq hnd hc n x
  have h2 := sum_map_point (l := v.nonceList) List.nodup_range
    (f := fun m => if v.ownerOf m = some o then v.heldBy m else 0)
    (g := fun m => if v.ownerOf m = some o then (v.setHold c n x).heldBy m else 0) (c := n)
    (List.mem_range.mpr (by omega))
    (fun m hm => by simp only [heldBy_setHold_ne v c n x hm])
  unfold ownedBy
  show ((v.nonceList).map fun m => if v.ownerOf m = some o then (v.setHold c n x).heldBy m else 0).sum
    + _ = _
  split <;> rename_i ho <;> simp only [ho, if_true, if_false] at h2 <;> omega

/-- changing one holding `hold c n` from `h` to `x`: the owner's surplus changes by `h − x` -/
theorem InvA.setHold {v : PV} {X X' : Nat → Nat} (hI : InvA v X) {c n x : Nat} {att : Attr}
    (hc : c ∈ v.users) (hn : n ≤ v.lastNonce) (hat : v.attrs n = some att)
    (hX : ∀ o, X' o + (if att.owner = o then x else 0) = X o + (if att.owner = o then v.hold c n else 0)) :
    InvA (v.setHold c n x) X' ∧ (v.setHold c n x).totalHeld + v.hold c n = v.totalHeld + x := by
  refine ⟨⟨hI.nodup, ?_, hI.fresh, ?_⟩, totalHeld_setHold hI.nodup hc hn x⟩
  · intro u m hne
    rw [setHold_hold] at hne
    by_cases hum : u = c ∧ m = n
    · obtain ⟨rfl, rfl⟩ := hum
      exact ⟨hc, hn, by show (v.attrs m).isSome = true; rw [hat]; rfl⟩
    · rw [if_neg hum] at hne
      exact hI.dom u m hne
  · intro o
    have h1 := ownedBy_setHold hI.nodup hc hn x o
    have h2 := hI.own o
    have h3 := hX o
    have ho : v.ownerOf n = some att.owner := by simp [ownerOf, hat]
    show v.userTotal o = _
    rw [ho] at h1
    simp only [Option.some.injEq] at h1
    split at h1 <;> rename_i hoo <;> simp only [hoo, if_true, if_false] at h3 <;> omega

end PV

end Mx.Farm
