/-
  Position-token invariant of the farm model (C07): the farm-token supply is the sum of all
  outstanding position amounts, and `userTotalFarmPosition(o)` is exactly the sum of the outstanding
  positions whose recorded original owner is `o` — in every reachable state.

  Proof technique (as in FarmAcct.lean): every helper is characterised on the small position VIEW
  `pv s` (six fields), all arithmetic is done on that view (`PV`), never on whole `St` records.
-/
import MxModel.Lemmas.FarmSpec
import Mathlib.Tactic.Linarith

namespace Mx.Farm

open Mx.Weekly (upd upd_same upd_other)

/-! ## the statement -/

/-- outstanding amount of nonce `n` over all accounts -/
def heldBy (s : St) (n : Nat) : Nat := (s.users.map fun u => s.hold u n).sum
def nonceList (s : St) : List Nat := List.range (s.lastNonce + 1)
/-- Σ of all outstanding position amounts -/
def totalHeld (s : St) : Nat := ((nonceList s).map (heldBy s)).sum
/-- recorded original owner of nonce `n` -/
def ownerOf (s : St) (n : Nat) : Option Nat := (s.attrs n).map (·.owner)
/-- Σ of the outstanding positions whose recorded owner is `o` -/
def ownedBy (s : St) (o : Nat) : Nat :=
  ((nonceList s).map fun n => if ownerOf s n = some o then heldBy s n else 0).sum

/-- the position-token invariant -/
structure PosInv (s : St) : Prop where
  nodup : s.users.Nodup
  dom : ∀ u n, s.hold u n ≠ 0 → u ∈ s.users ∧ n ≤ s.lastNonce ∧ (s.attrs n).isSome
  fresh : ∀ n, s.lastNonce < n → s.attrs n = none
  /-- farm-token supply = Σ outstanding position amounts -/
  sup : s.supply = totalHeld s
  /-- `getUserTotalFarmPosition(o)` = Σ positions recorded as `o`'s -/
  own : ∀ o, s.userTotal o = ownedBy s o

/-! ## the position view -/

structure PV where
  users : List Nat
  hold : Nat → Nat → Nat
  attrs : Nat → Option Attr
  lastNonce : Nat
  userTotal : Nat → Nat
  supply : Nat

def pv (s : St) : PV := ⟨s.users, s.hold, s.attrs, s.lastNonce, s.userTotal, s.supply⟩

/-- Σ of the payment amounts -/
def paySum : List (Nat × Nat) → Nat
  | [] => 0
  | (_, a) :: rest => a + paySum rest

/-- Σ of the payment amounts whose nonce records owner `o` -/
def payOwned (atr : Nat → Option Attr) (o : Nat) : List (Nat × Nat) → Nat
  | [] => 0
  | (n, a) :: rest => (if (atr n).map (·.owner) = some o then a else 0) + payOwned atr o rest

namespace PV

def heldBy (v : PV) (n : Nat) : Nat := (v.users.map fun u => v.hold u n).sum
def nonceList (v : PV) : List Nat := List.range (v.lastNonce + 1)
def totalHeld (v : PV) : Nat := (v.nonceList.map v.heldBy).sum
def ownerOf (v : PV) (n : Nat) : Option Nat := (v.attrs n).map (·.owner)
def ownedBy (v : PV) (o : Nat) : Nat :=
  (v.nonceList.map fun n => if v.ownerOf n = some o then v.heldBy n else 0).sum

/-- the invariant on the view, with a per-owner surplus `X` of `userTotal` over the owned positions
    (positions taken in by a running endpoint and not yet re-issued); the supply clause is kept
    separate -/
structure InvA (v : PV) (X : Nat → Nat) : Prop where
  nodup : v.users.Nodup
  dom : ∀ u n, v.hold u n ≠ 0 → u ∈ v.users ∧ n ≤ v.lastNonce ∧ (v.attrs n).isSome
  fresh : ∀ n, v.lastNonce < n → v.attrs n = none
  own : ∀ o, v.userTotal o = v.ownedBy o + X o

structure Inv (v : PV) : Prop where
  nodup : v.users.Nodup
  dom : ∀ u n, v.hold u n ≠ 0 → u ∈ v.users ∧ n ≤ v.lastNonce ∧ (v.attrs n).isSome
  fresh : ∀ n, v.lastNonce < n → v.attrs n = none
  sup : v.supply = v.totalHeld
  own : ∀ o, v.userTotal o = v.ownedBy o

theorem Inv.toA {v : PV} (h : Inv v) : InvA v (fun _ => 0) :=
  ⟨h.nodup, h.dom, h.fresh, fun o => by rw [h.own o]; rfl⟩

theorem InvA.toInv {v : PV} {X : Nat → Nat} (h : InvA v X) (hX : ∀ o, X o = 0)
    (hs : v.supply = v.totalHeld) : Inv v :=
  ⟨h.nodup, h.dom, h.fresh, hs, fun o => by rw [h.own o, hX o]; rfl⟩

theorem InvA.congr {v : PV} {X X' : Nat → Nat} (h : InvA v X) (hX : ∀ o, X o = X' o) : InvA v X' :=
  ⟨h.nodup, h.dom, h.fresh, fun o => by rw [h.own o, hX o]⟩

/-! ### finite sums -/

theorem sum_map_point {l : List Nat} (hnd : l.Nodup) {f g : Nat → Nat} {c : Nat} (hc : c ∈ l)
    (hfg : ∀ u, u ≠ c → g u = f u) : (l.map g).sum + f c = (l.map f).sum + g c := by
  induction l with
  | nil => cases hc
  | cons x xs ih =>
    rw [List.nodup_cons] at hnd
    simp only [List.map_cons, List.sum_cons]
    by_cases hx : x = c
    · subst hx
      have : xs.map g = xs.map f :=
        List.map_congr_left (fun u hu => hfg u (fun e => hnd.1 (e ▸ hu)))
      rw [this]; omega
    · have hc' : c ∈ xs := by
        rcases List.mem_cons.mp hc with e | e
        · exact absurd e.symm hx
        · exact e
      have := ih hnd.2 hc'
      rw [hfg x hx]; omega

theorem sum_map_zero {l : List Nat} {f : Nat → Nat} (h : ∀ u ∈ l, f u = 0) : (l.map f).sum = 0 := by
  induction l with
  | nil => rfl
  | cons x xs ih =>
    simp only [List.map_cons, List.sum_cons]
    rw [h x (List.mem_cons_self ..), ih (fun u hu => h u (List.mem_cons_of_mem _ hu))]

/-! ### point update of one holding -/

def setHold (v : PV) (c n x : Nat) : PV := { v with hold := upd v.hold c (upd (v.hold c) n x) }

theorem setHold_hold (v : PV) (c n x u m : Nat) :
    (v.setHold c n x).hold u m = if u = c ∧ m = n then x else v.hold u m := by
  simp only [setHold, upd]
  by_cases hu : u = c
  · subst hu
    by_cases hm : m = n <;> simp [hm]
  · simp [hu]

theorem heldBy_setHold_ne (v : PV) (c n x : Nat) {m : Nat} (hm : m ≠ n) :
    (v.setHold c n x).heldBy m = v.heldBy m := by
  unfold heldBy
  show (v.users.map fun u => (v.setHold c n x).hold u m).sum = _
  congr 1
  apply List.map_congr_left
  intro u _
  rw [setHold_hold]; simp [hm]

theorem heldBy_setHold_eq {v : PV} (hnd : v.users.Nodup) {c : Nat} (hc : c ∈ v.users) (n x : Nat) :
    (v.setHold c n x).heldBy n + v.hold c n = v.heldBy n + x := by
  unfold heldBy
  show (v.users.map fun u => (v.setHold c n x).hold u n).sum + _ = _
  have := sum_map_point hnd (f := fun u => v.hold u n) (g := fun u => (v.setHold c n x).hold u n) hc
    (by intro u hu; simp only [setHold_hold]; simp [hu])
  simp only [setHold_hold, and_self, if_true] at this ⊢
  exact this

theorem totalHeld_setHold {v : PV} (hnd : v.users.Nodup) {c : Nat} (hc : c ∈ v.users) {n : Nat}
    (hn : n ≤ v.lastNonce) (x : Nat) :
    (v.setHold c n x).totalHeld + v.hold c n = v.totalHeld + x := by
  have h1 := heldBy_setHold_eq hnd hc n x
  have h2 := sum_map_point (l := v.nonceList) List.nodup_range (f := v.heldBy)
    (g := (v.setHold c n x).heldBy) (c := n) (List.mem_range.mpr (by omega))
    (fun m hm => heldBy_setHold_ne v c n x hm)
  unfold totalHeld
  show ((v.nonceList).map (v.setHold c n x).heldBy).sum + _ = _
  omega

theorem ownedBy_setHold {v : PV} (hnd : v.users.Nodup) {c : Nat} (hc : c ∈ v.users) {n : Nat}
    (hn : n ≤ v.lastNonce) (x o : Nat) :
    (v.setHold c n x).ownedBy o + (if v.ownerOf n = some o then v.hold c n else 0)
      = v.ownedBy o + (if v.ownerOf n = some o then x else 0) := by
  have h1 := heldBy_setHold_eq hnd hc n x
  have h2 := sum_map_point (l := v.nonceList) List.nodup_range
    (f := fun m => if v.ownerOf m = some o then v.heldBy m else 0)
    (g := fun m => if v.ownerOf m = some o then (v.setHold c n x).heldBy m else 0) (c := n)
    (List.mem_range.mpr (by omega))
    (fun m hm => by simp only [heldBy_setHold_ne v c n x hm])
  unfold ownedBy
  show ((v.nonceList).map fun m => if v.ownerOf m = some o then (v.setHold c n x).heldBy m else 0).sum
    + _ = _
  split <;> rename_i ho <;> simp only [ho, if_true, if_false] at h2 <;> omega

/-- changing one holding `hold c n` from `h` to `x`: the owner's surplus changes by `h − x` -/
theorem InvA.setHold {v : PV} {X X' : Nat → Nat} (hI : InvA v X) {c n x : Nat} {att : Attr}
    (hc : c ∈ v.users) (hn : n ≤ v.lastNonce) (hat : v.attrs n = some att)
    (hX : ∀ o, X' o + (if att.owner = o then x else 0) = X o + (if att.owner = o then v.hold c n else 0)) :
    InvA (v.setHold c n x) X' ∧ (v.setHold c n x).totalHeld + v.hold c n = v.totalHeld + x := by
  refine ⟨⟨hI.nodup, ?_, hI.fresh, ?_⟩, totalHeld_setHold hI.nodup hc hn x⟩
  · intro u m hne
    rw [setHold_hold] at hne
    by_cases hum : u = c ∧ m = n
    · obtain ⟨rfl, rfl⟩ := hum
      exact ⟨hc, hn, by show (v.attrs m).isSome = true; rw [hat]; rfl⟩
    · rw [if_neg hum] at hne
      exact hI.dom u m hne
  · intro o
    have h1 := ownedBy_setHold hI.nodup hc hn x o
    have h2 := hI.own o
    have h3 := hX o
    have ho : v.ownerOf n = some att.owner := by simp [ownerOf, hat]
    show v.userTotal o = _
    rw [ho] at h1
    simp only [Option.some.injEq] at h1
    split at h1 <;> rename_i hoo <;> simp only [hoo, if_true, if_false] at h3 <;> omega

/-! ### taking payments in -/

def take (v : PV) (c : Nat) : List (Nat × Nat) → Option PV
  | [] => some v
  | (n, a) :: rest => do
      req (a ≠ 0)
      req ((v.attrs n).isSome)
      let h ← sub? (v.hold c n) a
      take (v.setHold c n h) c rest

/-- the payments leave the caller's account: the holdings shrink by the payments, the recorded
    owners' totals now exceed their positions by exactly the payments recorded as theirs -/
theorem take_inv : ∀ (l : List (Nat × Nat)) {v v0 : PV} {X : Nat → Nat} {c : Nat},
    InvA v X → c ∈ v.users → v.take c l = some v0 →
    InvA v0 (fun o => X o + payOwned v.attrs o l) ∧ v0.totalHeld + paySum l = v.totalHeld ∧
      ∃ h', v0 = { v with hold := h' } := by
  intro l
  induction l with
  | nil =>
    intro v v0 X c hI _ h
    simp only [take, Option.some.injEq] at h
    subst h
    exact ⟨hI.congr (fun o => by simp [payOwned]), by simp [paySum], v.hold, rfl⟩
  | cons p rest ih =>
    intro v v0 X c hI hc h
    obtain ⟨n, a⟩ := p
    simp only [take, Option.bind_eq_bind, Option.bind_eq_some_iff, req_eq_some, sub?_eq_some] at h
    obtain ⟨_, _, _, hsome, h1, ⟨hle, rfl⟩, h2⟩ := h
    obtain ⟨att, hat⟩ := Option.isSome_iff_exists.mp hsome
    have hn : n ≤ v.lastNonce := by
      by_contra hlt
      have := hI.fresh n (by omega)
      rw [hat] at this; cases this
    obtain ⟨A1, T1⟩ := hI.setHold (X' := fun o => X o + (if att.owner = o then a else 0))
      (x := v.hold c n - a) hc hn hat (by intro o; split <;> omega)
    obtain ⟨A2, T2, h', rfl⟩ := ih A1 hc h2
    refine ⟨A2.congr (fun o => ?_), ?_, h', rfl⟩
    · show X o + (if att.owner = o then a else 0) + payOwned v.attrs o rest = _
      simp only [payOwned, hat, Option.map_some, Option.some.injEq]
      omega
    · simp only [paySum]
      omega

/-! ### `check_and_update_user_farm_position` -/

def inc (v : PV) (u a : Nat) : PV := { v with userTotal := upd v.userTotal u (v.userTotal u + a) }
def dec (v : PV) (u a : Nat) : PV := { v with userTotal := upd v.userTotal u (v.userTotal u - a) }

def check (v : PV) (user : Nat) : List (Nat × Nat) → Option PV
  | [] => some v
  | (n, a) :: rest => do
      let att ← v.attrs n
      check (if att.owner ≠ user then (v.dec att.owner a).inc user a else v) user rest

theorem inc_dec_total (v : PV) {owner user : Nat} (a o : Nat) (hne : owner ≠ user) :
    ((v.dec owner a).inc user a).userTotal o =
      if o = user then v.userTotal user + a else if o = owner then v.userTotal owner - a
      else v.userTotal o := by
  simp only [inc, dec, upd]
  by_cases h1 : o = user
  · subst h1; simp [Ne.symm hne]
  · by_cases h2 : o = owner
    · subst h2; simp [h1]
    · simp [h1, h2]

/-- every payment recorded for somebody else moves from that owner's total to `user`'s; the
    truncated subtraction is exact because the owner's total contains the payment -/
theorem check_total : ∀ (l : List (Nat × Nat)) {v v1 : PV} {Y : Nat → Nat} {user : Nat},
    v.check user l = some v1 → (∀ o, v.userTotal o = Y o + payOwned v.attrs o l) →
    (∃ t, v1 = { v with userTotal := t }) ∧
      ∀ o, v1.userTotal o = Y o + (if o = user then paySum l else 0) := by
  intro l
  induction l with
  | nil =>
    intro v v1 Y user h hY
    simp only [check, Option.some.injEq] at h
    subst h
    exact ⟨⟨v.userTotal, rfl⟩, fun o => by rw [hY o]; simp [payOwned, paySum]⟩
  | cons p rest ih =>
    intro v v1 Y user h hY
    obtain ⟨n, a⟩ := p
    simp only [check, Option.bind_eq_bind, Option.bind_eq_some_iff] at h
    obtain ⟨att, hat, h2⟩ := h
    simp only [payOwned, hat, Option.map_some, Option.some.injEq] at hY
    by_cases ho : att.owner = user
    · rw [if_neg (by simpa using ho)] at h2
      obtain ⟨t, e⟩ := ih (Y := fun o => Y o + (if o = user then a else 0)) h2 (by
        intro o
        have := hY o
        rw [ho] at this
        by_cases hou : o = user
        · subst hou; simp only [if_true] at this ⊢; omega
        · rw [if_neg (fun e => hou e.symm)] at this; rw [if_neg hou]; omega)
      refine ⟨t, fun o => ?_⟩
      rw [e o]; simp only [paySum]; split <;> omega
    · rw [if_pos ho] at h2
      obtain ⟨⟨t, rfl⟩, e⟩ := ih (Y := fun o => Y o + (if o = user then a else 0)) h2 (by
        intro o
        show ((v.dec att.owner a).inc user a).userTotal o = _ + payOwned v.attrs o rest
        rw [inc_dec_total v a o ho]
        have h1 := hY o
        have h2 := hY user
        have h3 := hY att.owner
        rw [if_neg ho] at h2
        simp only [if_true] at h3
        by_cases hou : o = user
        · subst hou; simp only [if_true]; omega
        · by_cases hoo : o = att.owner
          · subst hoo; simp only [hou, if_false, if_true]; omega
          · rw [if_neg (fun e => hoo e.symm)] at h1
            simp only [hou, hoo, if_false]; omega)
      refine ⟨⟨t, rfl⟩, fun o => ?_⟩
      rw [e o]; simp only [paySum]; split <;> omega

theorem InvA.check {v v1 : PV} {Y : Nat → Nat} {user : Nat} {l : List (Nat × Nat)}
    (hI : InvA v (fun o => Y o + payOwned v.attrs o l)) (h : v.check user l = some v1) :
    InvA v1 (fun o => Y o + (if o = user then paySum l else 0)) ∧
      ∃ t, v1 = { v with userTotal := t } := by
  obtain ⟨⟨t, rfl⟩, e⟩ := check_total l (Y := fun o => v.ownedBy o + Y o) h
    (fun o => by rw [hI.own o]; omega)
  exact ⟨⟨hI.nodup, hI.dom, hI.fresh, fun o => by rw [e o]; show _ = v.ownedBy o + _; omega⟩, t, rfl⟩

/-- replacing the totals (and the supply): only the `own` clause has to be re-established -/
theorem InvA.setTotal {v : PV} {X X' : Nat → Nat} (hI : InvA v X) (t : Nat → Nat) (sp : Nat)
    (ht : ∀ o, t o = v.ownedBy o + X' o) : InvA { v with userTotal := t, supply := sp } X' :=
  ⟨hI.nodup, hI.dom, hI.fresh, ht⟩

/-! ### creating a token -/

def bump (v : PV) (a : Attr) : PV :=
  { v with lastNonce := v.lastNonce + 1, attrs := upd v.attrs (v.lastNonce + 1) (some a) }

def create (v : PV) (dst : Nat) (a : Attr) : PV :=
  { v with lastNonce := v.lastNonce + 1, attrs := upd v.attrs (v.lastNonce + 1) (some a)
           hold := upd v.hold dst (upd (v.hold dst) (v.lastNonce + 1)
             (v.hold dst (v.lastNonce + 1) + a.amt)) }

theorem create_eq (v : PV) (dst : Nat) (a : Attr) :
    v.create dst a = (v.bump a).setHold dst (v.lastNonce + 1)
      ((v.bump a).hold dst (v.lastNonce + 1) + a.amt) := rfl

theorem heldBy_fresh {v : PV} {X : Nat → Nat} (hI : InvA v X) {n : Nat} (hn : v.lastNonce < n) :
    v.heldBy n = 0 := by
  unfold heldBy
  apply sum_map_zero
  intro u _
  by_contra hne
  have := (hI.dom u n hne).2.1
  omega

theorem InvA.bump {v : PV} {X : Nat → Nat} (hI : InvA v X) (a : Attr) :
    InvA (v.bump a) X ∧ (v.bump a).totalHeld = v.totalHeld := by
  have hz := heldBy_fresh hI (Nat.lt_succ_self v.lastNonce)
  have hH : ∀ m, (v.bump a).heldBy m = v.heldBy m := fun _ => rfl
  refine ⟨⟨hI.nodup, ?_, ?_, ?_⟩, ?_⟩
  · intro u n hne
    obtain ⟨h1, h2, h3⟩ := hI.dom u n hne
    refine ⟨h1, Nat.le_succ_of_le h2, ?_⟩
    show (upd v.attrs (v.lastNonce + 1) (some a) n).isSome = true
    rw [upd_other _ _ (by omega)]; exact h3
  · intro n hn
    show upd v.attrs (v.lastNonce + 1) (some a) n = none
    have hn' : v.lastNonce + 1 < n := hn
    rw [upd_other _ _ (by omega)]; exact hI.fresh n (by omega)
  · intro o
    show v.userTotal o = _
    rw [hI.own o]
    congr 1
    unfold ownedBy
    show _ = ((List.range (v.lastNonce + 1 + 1)).map _).sum
    rw [List.range_succ (n := v.lastNonce + 1), List.map_append, List.sum_append]
    simp only [List.map_cons, List.map_nil, List.sum_cons, List.sum_nil, hH, hz, ite_self, Nat.add_zero]
    show ((List.range (v.lastNonce + 1)).map _).sum = _
    congr 1
    apply List.map_congr_left
    intro m hm
    have hm' : m ≠ v.lastNonce + 1 := by have := List.mem_range.mp hm; omega
    have : (v.bump a).ownerOf m = v.ownerOf m := by
      show (upd v.attrs (v.lastNonce + 1) (some a) m).map _ = _
      rw [upd_other _ _ hm']; rfl
    rw [this]
  · unfold totalHeld
    show ((List.range (v.lastNonce + 1 + 1)).map _).sum = ((List.range (v.lastNonce + 1)).map _).sum
    rw [List.range_succ (n := v.lastNonce + 1), List.map_append, List.sum_append]
    simp only [List.map_cons, List.map_nil, List.sum_cons, List.sum_nil, hH, hz, Nat.add_zero]
    rfl

/-- a new token of amount `a.amt` for `dst` absorbs `a.amt` of its recorded owner's surplus -/
theorem InvA.create {v : PV} {X X' : Nat → Nat} (hI : InvA v X) {dst : Nat} {a : Attr}
    (hd : dst ∈ v.users) (hX : ∀ o, X o = X' o + (if a.owner = o then a.amt else 0)) :
    InvA (v.create dst a) X' ∧ (v.create dst a).totalHeld = v.totalHeld + a.amt := by
  obtain ⟨A1, T1⟩ := hI.bump a
  rw [create_eq]
  obtain ⟨A2, T2⟩ := A1.setHold (X' := X') (c := dst) (n := v.lastNonce + 1) (att := a)
    (x := (v.bump a).hold dst (v.lastNonce + 1) + a.amt) hd (Nat.le_refl _)
    (by show upd v.attrs (v.lastNonce + 1) (some a) (v.lastNonce + 1) = _; rw [upd_same])
    (by intro o; have := hX o
        by_cases h : a.owner = o <;> simp only [h, if_true, if_false] at this ⊢ <;> omega)
  exact ⟨A2, by omega⟩

theorem InvA.inc {v : PV} {X : Nat → Nat} (hI : InvA v X) (u a : Nat) :
    InvA (v.inc u a) (fun o => X o + (if o = u then a else 0)) := by
  refine ⟨hI.nodup, hI.dom, hI.fresh, fun o => ?_⟩
  show upd v.userTotal u (v.userTotal u + a) o = v.ownedBy o + _
  by_cases h : o = u
  · subst h; rw [upd_same, hI.own o]; simp only [if_true]; omega
  · rw [upd_other _ _ h, hI.own o]; simp only [h, if_false]; omega

theorem InvA.supply {v : PV} {X : Nat → Nat} (hI : InvA v X) (sp : Nat) :
    InvA { v with supply := sp } X := ⟨hI.nodup, hI.dom, hI.fresh, hI.own⟩

theorem inc_zero (v : PV) (u : Nat) : v.inc u 0 = v := by
  have : upd v.userTotal u (v.userTotal u + 0) = v.userTotal := by
    funext o
    by_cases h : o = u
    · subst h; rw [upd_same]; rfl
    · rw [upd_other _ _ h]
  simp only [inc, this]

/-! ### the endpoints on the view -/

/-- take payments in, re-assign them to `orig`, add `amt` fresh units for `orig`, issue one token
    for everything (enter: `amt` = farming tokens; compound: `amt` = reward; claim/merge: `amt = 0`) -/
theorem Inv.remint {v v0 v3 : PV} {caller orig dst amt : Nat} {pays : List (Nat × Nat)} {merged : Attr}
    (hI : Inv v) (hc : caller ∈ v.users) (hd : dst ∈ v.users)
    (h0 : v.take caller pays = some v0) (h3 : v0.check orig pays = some v3)
    (hm : merged.amt = amt + paySum pays) (ho : merged.owner = orig) :
    Inv { (v3.inc orig amt).create dst merged with supply := v0.supply + amt } := by
  obtain ⟨A0, T0, h', e0⟩ := take_inv pays hI.toA hc h0
  have ea : v0.attrs = v.attrs := by rw [e0]
  have eu : v0.users = v.users := by rw [e0]
  have es : v0.supply = v.supply := by rw [e0]
  rw [← ea] at A0
  obtain ⟨A3, t, e3⟩ := InvA.check (Y := fun _ => 0) A0 h3
  have eu3 : v3.users = v0.users := by rw [e3]
  have T3 : v3.totalHeld = v0.totalHeld := by rw [e3]; rfl
  obtain ⟨A5, T5⟩ := (A3.inc orig amt).create (X' := fun _ => 0) (dst := dst) (a := merged)
    (by show dst ∈ v3.users; rw [eu3, eu]; exact hd) (by
    intro o
    rw [ho, hm]
    by_cases h : o = orig
    · subst h; simp only [if_true]; omega
    · simp only [if_neg h, if_neg (fun e : orig = o => h e.symm)])
  refine (A5.supply _).toInv (fun _ => rfl) ?_
  show v0.supply + amt = ((v3.inc orig amt).create dst merged).totalHeld
  rw [T5]
  show _ = v3.totalHeld + _
  rw [T3, es, hm, hI.sup]
  omega

theorem Inv.remint0 {v v0 v3 : PV} {caller orig dst : Nat} {pays : List (Nat × Nat)} {merged : Attr}
    (hI : Inv v) (hc : caller ∈ v.users) (hd : dst ∈ v.users)
    (h0 : v.take caller pays = some v0) (h3 : v0.check orig pays = some v3)
    (hm : merged.amt = paySum pays) (ho : merged.owner = orig) :
    Inv (v3.create dst merged) := by
  have h := hI.remint (amt := 0) hc hd h0 h3 (by omega) ho
  obtain ⟨A0, _, h', e0⟩ := take_inv pays hI.toA hc h0
  have ea : v0.attrs = v.attrs := by rw [e0]
  rw [← ea] at A0
  obtain ⟨_, t, e3⟩ := InvA.check (Y := fun _ => 0) A0 h3
  rw [inc_zero] at h
  have : v0.supply + 0 = (v3.create dst merged).supply := by rw [e3]; rfl
  rw [this] at h
  exact h

theorem Inv.exit {v v0 : PV} {caller n a : Nat} {att : Attr}
    (hI : Inv v) (hc : caller ∈ v.users)
    (h0 : v.take caller [(n, a)] = some v0) (hat : v0.attrs n = some att) :
    a ≤ v0.supply ∧ Inv { v0.dec att.owner a with supply := v0.supply - a } := by
  obtain ⟨A0, T0, h', e0⟩ := take_inv _ hI.toA hc h0
  have ea : v0.attrs = v.attrs := by rw [e0]
  have es : v0.supply = v.supply := by rw [e0]
  have et : v0.userTotal = v.userTotal := by rw [e0]
  rw [← ea] at A0
  simp only [paySum, Nat.add_zero] at T0
  have hs := hI.sup
  refine ⟨by omega, ?_⟩
  refine ((A0.setTotal (X' := fun _ => 0) _ _ ?_)).toInv (fun _ => rfl) ?_
  · intro o
    have h1 := A0.own o
    have h2 := A0.own att.owner
    simp only [payOwned, hat, Option.map_some, Option.some.injEq, if_true, Nat.zero_add,
      Nat.add_zero] at h1 h2
    show upd v0.userTotal att.owner (v0.userTotal att.owner - a) o = _
    by_cases h : o = att.owner
    · subst h; rw [upd_same]; omega
    · rw [upd_other _ _ h]
      rw [if_neg (fun e => h e.symm)] at h1
      omega
  · show v0.supply - a = v0.totalHeld
    omega

theorem Inv.transfer {v : PV} {src dst n a : Nat} (hI : Inv v) (hs : src ∈ v.users)
    (hd : dst ∈ v.users) (hsome : (v.attrs n).isSome) (hle : a ≤ v.hold src n) :
    Inv ((v.setHold src n (v.hold src n - a)).setHold dst n
      ((v.setHold src n (v.hold src n - a)).hold dst n + a)) := by
  obtain ⟨att, hat⟩ := Option.isSome_iff_exists.mp hsome
  have hn : n ≤ v.lastNonce := by
    by_contra hlt
    have := hI.fresh n (by omega)
    rw [hat] at this; cases this
  obtain ⟨A1, T1⟩ := hI.toA.setHold (X' := fun o => if att.owner = o then a else 0)
    (x := v.hold src n - a) hs hn hat (by intro o; split <;> omega)
  obtain ⟨A2, T2⟩ := A1.setHold (X' := fun _ => 0) (c := dst) (n := n) (att := att)
    (x := (v.setHold src n (v.hold src n - a)).hold dst n + a) hd hn hat
    (by intro o; split <;> omega)
  refine A2.toInv (fun _ => rfl) ?_
  show v.supply = _
  have := hI.sup
  omega

theorem Inv.of_eq {v v' : PV} (hI : Inv v) (h : v' = v) : Inv v' := h ▸ hI

end PV

/-! ## the helpers on the view -/

theorem PosInv.toPV {s : St} (h : PosInv s) : (pv s).Inv := ⟨h.nodup, h.dom, h.fresh, h.sup, h.own⟩
theorem PosInv.ofPV {s : St} (h : (pv s).Inv) : PosInv s := ⟨h.nodup, h.dom, h.fresh, h.sup, h.own⟩

theorem takePayments_pv : ∀ (l : List (Nat × Nat)) {s s' : St} {c : Nat},
    takePayments s c l = some s' → (pv s).take c l = some (pv s') := by
  intro l
  induction l with
  | nil =>
    intro s s' c h
    simp only [takePayments, Option.some.injEq] at h
    subst h; rfl
  | cons p rest ih =>
    intro s s' c h
    obtain ⟨n, a⟩ := p
    simp only [takePayments, Option.bind_eq_bind, Option.bind_eq_some_iff, req_eq_some,
      sub?_eq_some] at h
    obtain ⟨_, ha, _, hsome, h1, ⟨hle, rfl⟩, h2⟩ := h
    simp only [PV.take, Option.bind_eq_bind, Option.bind_eq_some_iff, req_eq_some, sub?_eq_some]
    exact ⟨(), ha, (), hsome, _, ⟨hle, rfl⟩, ih h2⟩

theorem checkAndUpdate_pv : ∀ (l : List (Nat × Nat)) {s s' : St} {u : Nat},
    checkAndUpdate s u l = some s' → (pv s).check u l = some (pv s') := by
  intro l
  induction l with
  | nil =>
    intro s s' u h
    simp only [checkAndUpdate, Option.some.injEq] at h
    subst h; rfl
  | cons p rest ih =>
    intro s s' u h
    obtain ⟨n, a⟩ := p
    simp only [checkAndUpdate, Option.bind_eq_bind, Option.bind_eq_some_iff] at h
    obtain ⟨att, hat, h2⟩ := h
    simp only [PV.check, Option.bind_eq_bind, Option.bind_eq_some_iff]
    refine ⟨att, hat, ?_⟩
    by_cases ho : att.owner ≠ u
    · rw [if_pos ho] at h2 ⊢
      exact ih h2
    · rw [if_neg ho] at h2 ⊢
      exact ih h2

theorem intoPart_amt {a p : Attr} {x : Nat} (h : a.intoPart x = some p) : p.amt = x := by
  unfold Attr.intoPart at h
  split at h
  · simp only [Option.some.injEq] at h; subst h; rename_i hx; exact hx.symm
  · simp only [Option.bind_eq_bind, Option.bind_eq_some_iff, req_eq_some, Option.pure_def,
      Option.some.injEq] at h
    obtain ⟨_, _, rfl⟩ := h; rfl

theorem mergeWith_amt_owner {a b m : Attr} (h : a.mergeWith b = some m) :
    m.amt = a.amt + b.amt ∧ m.owner = a.owner := by
  simp only [Attr.mergeWith, Option.bind_eq_bind, Option.bind_eq_some_iff, req_eq_some,
    Option.pure_def, Option.some.injEq] at h
  obtain ⟨_, _, rfl⟩ := h
  exact ⟨rfl, rfl⟩

theorem mergeParts_amt : ∀ (l : List (Nat × Nat)) {s : St} {base m : Attr},
    mergeParts s base l = some m → m.amt = base.amt + paySum l ∧ m.owner = base.owner := by
  intro l
  induction l with
  | nil =>
    intro s base m h
    simp only [mergeParts, Option.some.injEq] at h
    subst h; exact ⟨rfl, rfl⟩
  | cons p rest ih =>
    intro s base m h
    obtain ⟨n, a⟩ := p
    simp only [mergeParts, Option.bind_eq_bind, Option.bind_eq_some_iff] at h
    obtain ⟨att, _, part, hp, m1, hm1, h2⟩ := h
    obtain ⟨e1, e2⟩ := ih h2
    obtain ⟨e3, e4⟩ := mergeWith_amt_owner hm1
    have e5 := intoPart_amt hp
    exact ⟨by rw [e1, e3, e5]; simp only [paySum]; omega, by rw [e2, e4]⟩

theorem mergeAll_amt {s : St} {l : List (Nat × Nat)} {m : Attr} (h : mergeAll s l = some m) :
    m.amt = paySum l := by
  cases l with
  | nil => simp [mergeAll] at h
  | cons p rest =>
    obtain ⟨n, a⟩ := p
    simp only [mergeAll, Option.bind_eq_bind, Option.bind_eq_some_iff] at h
    obtain ⟨att, _, part, hp, h2⟩ := h
    obtain ⟨e1, _⟩ := mergeParts_amt rest h2
    rw [e1, intoPart_amt hp]; rfl

theorem createToken_pv {s s' : St} {d n : Nat} {a : Attr} (h : createToken s d a = some (s', n)) :
    pv s' = (pv s).create d a := by obtain ⟨_, _, rfl⟩ := createToken_spec h; rfl
theorem claimBoostedYields_pv {s s' : St} {u r : Nat} (h : claimBoostedYields s u = some (s', r)) :
    pv s' = pv s := by obtain ⟨_, _, rfl⟩ := claimBoostedYields_struct h; rfl
theorem setFarmSupplyWeek_pv {s s' : St} {v : Nat} (h : setFarmSupplyWeek s v = some s') :
    pv s' = pv s := by obtain ⟨_, _, rfl⟩ := setFarmSupplyWeek_spec h; rfl
theorem updateEnergyAndProgress_pv {s s' : St} {u : Nat} (h : updateEnergyAndProgress s u = some s') :
    pv s' = pv s := by obtain ⟨_, rfl⟩ := updateEnergyAndProgress_spec h; rfl
theorem generate_pv {s s' : St} {c c' : Cache} (h : generate s c = some (s', c')) :
    pv s' = pv s ∧ c'.supply = c.supply := by
  obtain ⟨_, rfl, _, rfl, _⟩ := generate_spec h
  exact ⟨rfl, rfl⟩
theorem payReward_pv {s s' : St} {u b bo : Nat} (h : payReward s u b bo = some s') :
    pv s' = pv s := by obtain ⟨_, _, rfl, _⟩ := payReward_spec h; rfl
theorem payRewardIf_pv {s s' : St} {k : Kind} {u b bo : Nat} (h : payRewardIf s k u b bo = some s') :
    pv s' = pv s := by
  unfold payRewardIf at h
  split at h
  · exact payReward_pv h
  · simp only [Option.some.injEq] at h; rw [← h]
theorem claimOnlyBoostedPayment_pv {s s' : St} {u r : Nat} (h : claimOnlyBoostedPayment s u = some (s', r)) :
    pv s' = pv s := by
  simp only [claimOnlyBoostedPayment, Option.bind_eq_bind, Option.bind_eq_some_iff, Option.pure_def] at h
  obtain ⟨⟨s1, r1⟩, h1, h⟩ := h
  have k1 := claimBoostedYields_pv h1
  split at h
  · simp only [Option.some.injEq, Prod.mk.injEq] at h
    obtain ⟨rfl, _⟩ := h; exact k1
  · simp only [Option.bind_eq_some_iff, sub?_eq_some, Option.some.injEq, Prod.mk.injEq] at h
    obtain ⟨_, _, rfl, _⟩ := h; exact k1
theorem removeFarming_pv {s s' : St} {a p : Nat} (h : removeFarming s a p = some s') : pv s' = pv s := by
  simp only [removeFarming, Option.bind_eq_bind, Option.bind_eq_some_iff, sub?_eq_some, Option.pure_def,
    Option.some.injEq] at h
  obtain ⟨_, _, rfl⟩ := h; rfl
theorem compoundMove_pv {s s' : St} {b bo : Nat} (h : compoundMove s b bo = some s') : pv s' = pv s := by
  simp only [compoundMove, Option.bind_eq_bind, Option.bind_eq_some_iff, sub?_eq_some, Option.pure_def,
    Option.some.injEq] at h
  obtain ⟨_, _, rfl⟩ := h; rfl
theorem clearUserEnergyIfNeeded_pv {s s' : St} {u : Nat} (h : clearUserEnergyIfNeeded s u = some s') :
    pv s' = pv s := by
  unfold clearUserEnergyIfNeeded at h
  split at h
  · simp only [Option.some.injEq] at h; rw [← h]
  · simp only [Option.bind_eq_bind, Option.bind_eq_some_iff, Option.pure_def, Option.some.injEq] at h
    obtain ⟨_, _, _, _, _, _, rfl⟩ := h
    rfl
theorem claimTail_pv {s s' : St} {c : Bool} {u b bo : Nat} (h : claimTail s c u b bo = some s') :
    pv s' = pv s := by
  unfold claimTail at h
  split at h
  · simp only [Option.bind_eq_some_iff] at h
    obtain ⟨s1, h1, h2⟩ := h
    exact (updateEnergyAndProgress_pv h2).trans (compoundMove_pv h1)
  · exact payReward_pv h

/-! ## endpoints -/

/-- one `bind` of a do-block (much cheaper than `simp only [endpoint, …]` on a long body) -/
theorem peel {α β : Type} {x : Option α} {f : α → Option β} {b : β} (h : (x >>= f) = some b) :
    ∃ a, x = some a ∧ f a = some b := Option.bind_eq_some_iff.mp h

theorem PosInv.of_pv {s s' : St} (hI : PosInv s) (h : pv s' = pv s) : PosInv s' :=
  PosInv.ofPV (hI.toPV.of_eq h)

theorem enterCore_posInv {s s' : St} {caller orig tokenTo amt : Nat} {extra : List (Nat × Nat)} {o : Out}
    (hI : PosInv s) (hc : caller ∈ s.users) (ht : tokenTo ∈ s.users)
    (h : enterCore s caller orig tokenTo amt extra = some (s', o)) : PosInv s' := by
  simp only [enterCore, Option.bind_eq_bind, Option.bind_eq_some_iff, req_eq_some, Option.pure_def,
    Option.some.injEq, Prod.mk.injEq] at h
  obtain ⟨_, _, s0, h0, ⟨s1, boosted⟩, h1, s1', h1', _, hact, s2, h2, ⟨s4, c1⟩, h4, merged, hm,
    ⟨s5, n⟩, h5, s6, h6, s8, h8, s9, h9, rfl, rfl⟩ := h
  have e0 := takePayments_pv extra h0
  have e1 : pv s1 = pv s0 := claimOnlyBoostedPayment_pv (s := addFarming s0 amt) h1
  have e1' := payRewardIf_pv h1'
  have e2 := checkAndUpdate_pv extra h2
  obtain ⟨e4, hc1⟩ := generate_pv h4
  have e4' : pv s4 = (pv s2).inc orig amt := e4
  have m1 : merged.amt = amt + paySum extra := (mergeParts_amt extra hm).1
  have m2 : merged.owner = orig := (mergeParts_amt extra hm).2
  have e5 := createToken_pv h5
  have e6 := setFarmSupplyWeek_pv h6
  have e8 := payRewardIf_pv h8
  have e8' : pv s8 = { pv s6 with supply := c1.supply + amt } := e8
  have e9 := updateEnergyAndProgress_pv h9
  have hsup : c1.supply = (pv s1').supply := hc1
  clear h0 h1 h1' h2 h4 hm h5 h6 h8 h9 e4 e8 hc1
  rw [e1', e1] at e2 hsup
  have key := hI.toPV.remint (amt := amt) hc ht e0 e2 m1 m2
  apply PosInv.ofPV
  rw [e9, e8', e6, e5, e4', hsup]
  exact key

theorem claimCore_posInv {s s' : St} {caller orig : Nat} {pays : List (Nat × Nat)} {cmp : Bool} {o : Out}
    (hI : PosInv s) (hc : caller ∈ s.users)
    (h : claimCore s caller orig pays cmp = some (s', o)) : PosInv s' := by
  unfold claimCore at h
  replace h := peel h; obtain ⟨⟨n1, a1⟩, hhead, h⟩ := h
  replace h := peel h; obtain ⟨s0, h0, h⟩ := h
  replace h := peel h; obtain ⟨_, _, h⟩ := h
  replace h := peel h; obtain ⟨_, _, h⟩ := h
  replace h := peel h; obtain ⟨at1, hat, h⟩ := h
  replace h := peel h; obtain ⟨⟨s1, c1⟩, h1, h⟩ := h
  replace h := peel h; obtain ⟨part, hpart, h⟩ := h
  replace h := peel h; obtain ⟨⟨s2, boosted⟩, h2, h⟩ := h
  replace h := peel h; obtain ⟨res, _, h⟩ := h
  replace h := peel h; obtain ⟨s3, h3, h⟩ := h
  replace h := peel h; obtain ⟨merged, hm, h⟩ := h
  replace h := peel h; obtain ⟨⟨s5, n⟩, h5, h⟩ := h
  replace h := peel h; obtain ⟨s6, h6, h⟩ := h
  replace h := peel h; obtain ⟨s8, h8, h⟩ := h
  simp only [Option.pure_def, Option.some.injEq, Prod.mk.injEq] at h
  obtain ⟨rfl, _⟩ := h
  have e0 := takePayments_pv pays h0
  obtain ⟨e1, hc1⟩ := generate_pv h1
  have e2 := claimBoostedYields_pv h2
  have e3 := checkAndUpdate_pv pays h3
  obtain ⟨m1, m2⟩ := mergeParts_amt _ hm
  have p1 := intoPart_amt hpart
  have e5 := createToken_pv h5
  have e6 := setFarmSupplyWeek_pv h6
  have e8 := claimTail_pv h8
  have hsup : c1.supply = (pv s0).supply := hc1
  clear h0 h1 h2 h3 hm h5 h6 h8 hc1 hat hpart
  dsimp only at e3 m1 m2 e5 e6 e8
  generalize baseReward s1.dsc c1.rps a1 part.rps = B at *
  rw [e2, e1] at e3
  obtain ⟨rest, rfl⟩ : ∃ rest, pays = (n1, a1) :: rest := by
    cases pays with
    | nil => simp at hhead
    | cons p rest =>
      simp only [List.head?_cons, Option.some.injEq] at hhead
      exact ⟨rest, by rw [hhead]⟩
  simp only [List.tail_cons] at m1
  apply PosInv.ofPV
  cases cmp
  · simp only [Bool.false_eq_true, if_false] at m1 m2 e5 e8
    have e8' : pv s8 = { pv s6 with supply := c1.supply } := e8
    have key := hI.toPV.remint (amt := 0) hc hc e0 e3 (merged := merged)
      (by rw [m1, p1]; simp only [paySum]; omega) m2
    rw [PV.inc_zero] at key
    rw [e8', e6, e5, hsup]
    exact key
  · simp only [if_true] at m1 m2 e5 e8
    have e8' : pv s8 = { pv s6 with supply := c1.supply + (B + boosted) } := e8
    have e5' : pv s5 = ((pv s3).inc orig (B + boosted)).create caller merged := e5
    have key := hI.toPV.remint (amt := B + boosted) hc hc e0 e3 (merged := merged)
      (by rw [m1, p1]; simp only [paySum]; omega) m2
    rw [e8', e6, e5', hsup]
    exact key

theorem exitFarm_posInv {s s' : St} {caller : Nat} {opt : Option Nat} {n a : Nat} {o : Out}
    (hI : PosInv s) (hc : caller ∈ s.users)
    (h : exitFarm s caller opt n a = some (s', o)) : PosInv s' := by
  unfold exitFarm at h
  replace h := peel h; obtain ⟨orig, _, h⟩ := h
  replace h := peel h; obtain ⟨s0, h0, h⟩ := h
  replace h := peel h; obtain ⟨_, _, h⟩ := h
  replace h := peel h; obtain ⟨att, hat, h⟩ := h
  replace h := peel h; obtain ⟨⟨s1, c1⟩, h1, h⟩ := h
  replace h := peel h; obtain ⟨part, hpart, h⟩ := h
  replace h := peel h; obtain ⟨⟨s2, boosted⟩, h2, h⟩ := h
  replace h := peel h; obtain ⟨res, _, h⟩ := h
  replace h := peel h; obtain ⟨sup, hsup, h⟩ := h
  replace h := peel h; obtain ⟨s4, h4, h⟩ := h
  replace h := peel h; obtain ⟨pen, hpen, h⟩ := h
  replace h := peel h; obtain ⟨out, _, h⟩ := h
  replace h := peel h; obtain ⟨s6, h6, h⟩ := h
  replace h := peel h; obtain ⟨s7, h7, h⟩ := h
  replace h := peel h; obtain ⟨s8, h8, h⟩ := h
  simp only [Option.pure_def, Option.some.injEq, Prod.mk.injEq] at h
  obtain ⟨rfl, _⟩ := h
  obtain ⟨_, rfl⟩ := sub?_eq_some.mp hsup
  have e0 := takePayments_pv _ h0
  obtain ⟨e1, hc1⟩ := generate_pv h1
  have e2 := claimBoostedYields_pv h2
  have e4 := setFarmSupplyWeek_pv h4
  have e4' : pv s4 = (pv s2).dec att.owner a := e4
  have e6 := removeFarming_pv h6
  have e6' : pv s6 = { pv s4 with supply := c1.supply - part.amt } := e6
  have e7 := payReward_pv h7
  have e8 := clearUserEnergyIfNeeded_pv h8
  have p1 := intoPart_amt hpart
  have hs : c1.supply = (pv s0).supply := hc1
  have hat' : (pv s0).attrs n = some att := hat
  clear h0 h1 h2 h4 h6 h7 h8 hpart hpen e4 e6 hc1 hat hsup
  obtain ⟨_, key⟩ := hI.toPV.exit hc e0 hat'
  apply PosInv.ofPV
  rw [e8, e7, e6', e4', e2, e1, hs, p1]
  exact key

theorem mergeFarmTokens_posInv {s s' : St} {caller : Nat} {opt : Option Nat} {pays : List (Nat × Nat)} {o : Out}
    (hI : PosInv s) (hc : caller ∈ s.users)
    (h : mergeFarmTokens s caller opt pays = some (s', o)) : PosInv s' := by
  simp only [mergeFarmTokens, Option.bind_eq_bind, Option.bind_eq_some_iff, req_eq_some, Option.pure_def,
    Option.some.injEq, Prod.mk.injEq] at h
  obtain ⟨_, hact, orig, _, _, _, s0, h0, ⟨s1, boosted⟩, h1, s2, h2, merged, hm, ⟨s3, n⟩, h3, s4, h4, rfl, rfl⟩ := h
  have e0 := takePayments_pv pays h0
  have e1 := claimOnlyBoostedPayment_pv h1
  have e2 := checkAndUpdate_pv pays h2
  have m1 := mergeAll_amt hm
  have e3 := createToken_pv h3
  have e4 := payReward_pv h4
  clear h0 h1 h2 h3 h4 hm
  rw [e1] at e2
  have key := hI.toPV.remint0 (merged := { merged with owner := orig }) hc hc e0 e2 m1 rfl
  apply PosInv.ofPV
  rw [e4, e3]
  exact key

theorem claimBoostedRewards_posInv {s s' : St} {caller : Nat} {optUser : Option Nat} {o : Out}
    (hI : PosInv s) (h : claimBoostedRewards s caller optUser = some (s', o)) : PosInv s' := by
  simp only [claimBoostedRewards, Option.bind_eq_bind, Option.bind_eq_some_iff, req_eq_some, Option.pure_def,
    Option.some.injEq, Prod.mk.injEq, sub?_eq_some] at h
  obtain ⟨_, _, _, _, _, hact, ⟨s1, c1⟩, h1, ⟨s2, boosted⟩, h2, res, ⟨hle, rfl⟩, s3, h3, s4, h4, rfl, rfl⟩ := h
  obtain ⟨e1, hc1⟩ := generate_pv h1
  have e2 := claimBoostedYields_pv h2
  have e3 := setFarmSupplyWeek_pv h3
  have e4 := payReward_pv h4
  have hs : c1.supply = (pv s).supply := hc1
  clear h1 h2 h3 h4 hc1
  apply hI.of_pv
  show ({ pv s4 with supply := c1.supply } : PV) = _
  rw [e4, e3, e2, e1, hs]

theorem settle_pv {s s' : St} (h : settle s = some s') : pv s' = pv s := by
  simp only [settle, Option.bind_eq_bind, Option.bind_eq_some_iff, Option.pure_def, Option.some.injEq] at h
  obtain ⟨⟨s1, c1⟩, h1, rfl⟩ := h
  obtain ⟨e1, hc1⟩ := generate_pv h1
  have hs : c1.supply = (pv s).supply := hc1
  show ({ pv s1 with supply := c1.supply } : PV) = _
  rw [e1, hs]

theorem transfer_posInv {s s' : St} {src dst n a : Nat} (hI : PosInv s) (hs : src ∈ s.users)
    (hd : dst ∈ s.users) (h : transfer s src dst n a = some s') : PosInv s' := by
  simp only [transfer, Option.bind_eq_bind, Option.bind_eq_some_iff, req_eq_some, sub?_eq_some,
    Option.pure_def, Option.some.injEq] at h
  obtain ⟨_, _, _, _, _, hsome, _, ⟨hle, rfl⟩, rfl⟩ := h
  exact PosInv.ofPV (hI.toPV.transfer hs hd hsome hle)

theorem init_posInv (kind : Kind) (sameTok : Bool) (dsc perBlock : Nat) (produce : Bool) (users : List Nat)
    (e0 : Nat) (hnd : users.Nodup) : PosInv (init kind sameTok dsc perBlock produce users e0) := by
  refine ⟨hnd, fun u n h => absurd rfl h, fun _ _ => rfl, ?_, fun o => ?_⟩
  · show 0 = ((List.range 1).map _).sum
    simp only [List.range_one, List.map_cons, List.map_nil, List.sum_cons, List.sum_nil, Nat.add_zero]
    exact (PV.sum_map_zero (fun _ _ => rfl)).symm
  · show 0 = ((List.range 1).map _).sum
    simp only [List.range_one, List.map_cons, List.map_nil, List.sum_cons, List.sum_nil, Nat.add_zero]
    show 0 = if _ then _ else 0
    rw [if_neg]
    show ¬ (none : Option Nat) = some o
    exact fun e => by cases e

/-- C07: every operation preserves the position-token invariant -/
theorem step_posInv {s s' : St} {op : Op} {o : Out} (hI : PosInv s) (h : step s op = some (s', o)) :
    PosInv s' := by
  cases op <;> simp only [step, known] at h
  case enter c oo a e =>
    split at h <;> [skip; exact absurd h (by simp)]
    rename_i hc
    simp only [enterFarm, Option.bind_eq_bind, Option.bind_eq_some_iff] at h
    obtain ⟨_, _, h⟩ := h
    exact enterCore_posInv hI hc hc h
  case enterOB c u a e =>
    split at h <;> [skip; exact absurd h (by simp)]
    rename_i hc
    simp only [enterFarmOnBehalf, Option.bind_eq_bind, Option.bind_eq_some_iff] at h
    obtain ⟨_, _, _, _, h⟩ := h
    exact enterCore_posInv hI hc hc h
  case claim c oo p =>
    split at h <;> [skip; exact absurd h (by simp)]
    rename_i hc
    simp only [claimRewards, Option.bind_eq_bind, Option.bind_eq_some_iff] at h
    obtain ⟨_, _, h⟩ := h
    exact claimCore_posInv hI hc h
  case claimOB c p =>
    split at h <;> [skip; exact absurd h (by simp)]
    rename_i hc
    simp only [claimRewardsOnBehalf, Option.bind_eq_bind, Option.bind_eq_some_iff] at h
    obtain ⟨_, _, _, _, _, _, h⟩ := h
    exact claimCore_posInv hI hc h
  case compound c oo p =>
    split at h <;> [skip; exact absurd h (by simp)]
    rename_i hc
    simp only [compoundRewards, Option.bind_eq_bind, Option.bind_eq_some_iff, req_eq_some] at h
    obtain ⟨_, hk, _, _, h⟩ := h
    exact claimCore_posInv hI hc h
  case exit c oo n a =>
    split at h <;> [skip; exact absurd h (by simp)]
    rename_i hc
    exact exitFarm_posInv hI hc h
  case merge c oo p =>
    split at h <;> [skip; exact absurd h (by simp)]
    rename_i hc
    exact mergeFarmTokens_posInv hI hc h
  case claimBoosted c u =>
    split at h <;> [skip; exact absurd h (by simp)]
    exact claimBoostedRewards_posInv hI h
  case transfer a b n x =>
    split at h <;> [skip; exact absurd h (by simp)]
    rename_i ha
    split at h <;> [skip; exact absurd h (by simp)]
    rename_i hb
    simp only [noOut, Option.map_eq_some_iff, Prod.mk.injEq] at h
    obtain ⟨s1, h1, rfl, _⟩ := h
    exact transfer_posInv hI ha hb h1
  case setEnergy u a l t =>
    simp only [Option.some.injEq, Prod.mk.injEq] at h
    obtain ⟨rfl, _⟩ := h
    exact hI.of_pv rfl
  case updateEnergy u =>
    simp only [noOut, Option.map_eq_some_iff, Prod.mk.injEq] at h
    obtain ⟨s1, h1, rfl, _⟩ := h
    simp only [updateEnergyForUser, Option.bind_eq_bind, Option.bind_eq_some_iff, Option.pure_def,
      Option.some.injEq] at h1
    obtain ⟨_, _, _, _, rfl⟩ := h1
    exact hI.of_pv rfl
  case setPerBlock c x =>
    simp only [noOut, Option.map_eq_some_iff, Prod.mk.injEq] at h
    obtain ⟨s1, h1, rfl, _⟩ := h
    simp only [setPerBlock, Option.bind_eq_bind, Option.bind_eq_some_iff, Option.pure_def,
      Option.some.injEq] at h1
    obtain ⟨_, _, _, _, s2, h2, rfl⟩ := h1
    have e2 := settle_pv h2
    exact hI.of_pv e2
  case startProduce c =>
    simp only [noOut, Option.map_eq_some_iff, Prod.mk.injEq] at h
    obtain ⟨s1, h1, rfl, _⟩ := h
    simp only [startProduce, Option.bind_eq_bind, Option.bind_eq_some_iff, Option.pure_def,
      Option.some.injEq] at h1
    obtain ⟨_, _, _, _, _, _, rfl⟩ := h1
    exact hI.of_pv rfl
  case endProduce c =>
    simp only [noOut, Option.map_eq_some_iff, Prod.mk.injEq] at h
    obtain ⟨s1, h1, rfl, _⟩ := h
    simp only [endProduce, Option.bind_eq_bind, Option.bind_eq_some_iff, Option.pure_def,
      Option.some.injEq] at h1
    obtain ⟨_, _, s2, h2, rfl⟩ := h1
    have e2 := settle_pv h2
    exact hI.of_pv e2
  case setPct c p =>
    simp only [noOut, Option.map_eq_some_iff, Prod.mk.injEq] at h
    obtain ⟨s1, h1, rfl, _⟩ := h
    simp only [setPct, Option.bind_eq_bind, Option.bind_eq_some_iff, Option.pure_def,
      Option.some.injEq] at h1
    obtain ⟨_, _, _, _, s2, h2, rfl⟩ := h1
    have e2 := settle_pv h2
    exact hI.of_pv e2
  case setFactors c f =>
    simp only [noOut, Option.map_eq_some_iff, Prod.mk.injEq] at h
    obtain ⟨s1, h1, rfl, _⟩ := h
    simp only [setFactors, Option.bind_eq_bind, Option.bind_eq_some_iff, Option.pure_def] at h1
    obtain ⟨_, _, _, _, _, _, W, _, h1⟩ := h1
    split at h1
    · simp only [Option.bind_eq_some_iff, Option.some.injEq] at h1
      obtain ⟨_, _, rfl⟩ := h1
      exact hI.of_pv rfl
    · simp only [Option.some.injEq] at h1
      subst h1
      exact hI.of_pv rfl
  case collect c =>
    simp only [noOut, Option.map_eq_some_iff, Prod.mk.injEq] at h
    obtain ⟨s1, h1, rfl, _⟩ := h
    simp only [collectUndistributed, Option.bind_eq_bind, Option.bind_eq_some_iff, Option.pure_def,
      req_eq_some] at h1
    obtain ⟨_, _, W, _, _, _, h1⟩ := h1
    split at h1 <;> simp only [Option.some.injEq] at h1 <;> subst h1 <;> exact hI.of_pv rfl
  case pause c =>
    simp only [noOut, Option.map_eq_some_iff, Prod.mk.injEq] at h
    obtain ⟨s1, h1, rfl, _⟩ := h
    simp only [setActive, Option.bind_eq_bind, Option.bind_eq_some_iff, Option.pure_def,
      Option.some.injEq] at h1
    obtain ⟨_, _, rfl⟩ := h1
    exact hI.of_pv rfl
  case resume c =>
    simp only [noOut, Option.map_eq_some_iff, Prod.mk.injEq] at h
    obtain ⟨s1, h1, rfl, _⟩ := h
    simp only [setActive, Option.bind_eq_bind, Option.bind_eq_some_iff, Option.pure_def,
      Option.some.injEq] at h1
    obtain ⟨_, _, rfl⟩ := h1
    exact hI.of_pv rfl
  case setPenalty c p =>
    simp only [noOut, Option.map_eq_some_iff, Prod.mk.injEq] at h
    obtain ⟨s1, h1, rfl, _⟩ := h
    simp only [setPenalty, Option.bind_eq_bind, Option.bind_eq_some_iff, Option.pure_def,
      Option.some.injEq] at h1
    obtain ⟨_, _, _, _, rfl⟩ := h1
    exact hI.of_pv rfl
  case setMinEpochs c n =>
    simp only [noOut, Option.map_eq_some_iff, Prod.mk.injEq] at h
    obtain ⟨s1, h1, rfl, _⟩ := h
    simp only [setMinEpochs, Option.bind_eq_bind, Option.bind_eq_some_iff, Option.pure_def,
      Option.some.injEq] at h1
    obtain ⟨_, _, _, _, rfl⟩ := h1
    exact hI.of_pv rfl
  case hubWhitelist u a =>
    split at h
    · cases h
    · simp only [Option.some.injEq, Prod.mk.injEq] at h; obtain ⟨rfl, _⟩ := h; exact hI.of_pv rfl
  case hubRemove u a =>
    split at h
    · simp only [Option.some.injEq, Prod.mk.injEq] at h; obtain ⟨rfl, _⟩ := h; exact hI.of_pv rfl
    · cases h
  case hubBlacklist a =>
    simp only [Option.some.injEq, Prod.mk.injEq] at h; obtain ⟨rfl, _⟩ := h; exact hI.of_pv rfl
  case scWhitelist a =>
    split at h
    · cases h
    · simp only [Option.some.injEq, Prod.mk.injEq] at h; obtain ⟨rfl, _⟩ := h; exact hI.of_pv rfl
  case scUnwhitelist a =>
    split at h
    · simp only [Option.some.injEq, Prod.mk.injEq] at h; obtain ⟨rfl, _⟩ := h; exact hI.of_pv rfl
    · cases h
  case advance b e =>
    split at h
    · simp only [Option.some.injEq, Prod.mk.injEq] at h; obtain ⟨rfl, _⟩ := h; exact hI.of_pv rfl
    · cases h
  case bad => cases h

/-- C07: the position-token invariant holds along every history -/
theorem run_posInv (ops : List Op) {s : St} (hI : PosInv s) : PosInv (run s ops) := by
  induction ops generalizing s with
  | nil => exact hI
  | cons op rest ih =>
    simp only [run, List.foldl_cons]
    cases hs : step s op with
    | none => exact ih hI
    | some r => exact ih (step_posInv hI (show step s op = some (r.1, r.2) from hs))

/-- C07 in every reachable state of a world with distinct accounts -/
theorem reachable_posInv (kind : Kind) (sameTok : Bool) (dsc perBlock : Nat) (produce : Bool)
    (users : List Nat) (e0 : Nat) (hnd : users.Nodup) (ops : List Op) :
    PosInv (run (init kind sameTok dsc perBlock produce users e0) ops) :=
  run_posInv ops (init_posInv kind sameTok dsc perBlock produce users e0 hnd)

end Mx.Farm
