/-
  The life of one dual-yield nonce: its attributes never change, the released LP-farm amount only
  grows (by exactly the parts), the outstanding supply only shrinks; and zero-supply nonces
  exist only if a staking farm answered with a zero amount.
-/
import MxModel.Lemmas.DualYieldInv

namespace Mx.DualYield

/-- `t'` is a later stage of the same dual-yield nonce as `t` -/
structure Later (t t' : Tok) : Prop where
  lpN : t'.lpN = t.lpN
  lpA : t'.lpA = t.lpA
  stN : t'.stN = t.stN
  stA : t'.stA = t.stA
  rel : t.rel ≤ t'.rel
  out : t'.out ≤ t.out

theorem Later.refl (t : Tok) : Later t t := ⟨rfl, rfl, rfl, rfl, Nat.le_refl _, Nat.le_refl _⟩

theorem Later.trans {a b c : Tok} (h1 : Later a b) (h2 : Later b c) : Later a c :=
  ⟨h2.lpN.trans h1.lpN, h2.lpA.trans h1.lpA, h2.stN.trans h1.stN, h2.stA.trans h1.stA,
   Nat.le_trans h1.rel h2.rel, Nat.le_trans h2.out h1.out⟩

/-- every nonce of `s` still exists in `s'`, at a later stage -/
def Grows (s s' : St) : Prop :=
  ∀ (i : Nat) (t : Tok), s.toks[i]? = some t → ∃ t', s'.toks[i]? = some t' ∧ Later t t'

theorem Grows.refl (s : St) : Grows s s := fun _ t h => ⟨t, h, Later.refl t⟩

theorem Grows.trans {a b c : St} (h1 : Grows a b) (h2 : Grows b c) : Grows a c := by
  intro i t h
  obtain ⟨t1, ht1, l1⟩ := h1 i t h
  obtain ⟨t2, ht2, l2⟩ := h2 i t1 ht1
  exact ⟨t2, ht2, l1.trans l2⟩

theorem release_grows {s s' : St} {u d x p : Nat} (h : release s u d x = some (s', p)) :
    Grows s s' := by
  obtain ⟨t, hd, ht, hx, hu, hp, ho, hl, hs, rfl⟩ := release_spec h
  intro i a ha
  show ∃ t', (s.toks.set (d - 1) (relTok t x p))[i]? = some t' ∧ Later a t'
  by_cases hi : d - 1 = i
  · subst hi
    rw [ht] at ha
    simp only [Option.some.injEq] at ha
    subst ha
    have hlt : d - 1 < s.toks.length := by
      rcases Nat.lt_or_ge (d - 1) s.toks.length with h | h
      · exact h
      · rw [List.getElem?_eq_none h] at ht
        cases ht
    refine ⟨relTok t x p, by simp [hlt], ⟨rfl, rfl, rfl, rfl, ?_, ?_⟩⟩
    · show t.rel ≤ t.rel + p
      omega
    · show t.out - x ≤ t.out
      omega
  · refine ⟨a, ?_, Later.refl a⟩
    rw [List.getElem?_set_ne hi]
    exact ha

theorem releaseAll_grows {s : St} {u : Nat} {ms : List (Nat × Nat)} {q : St × Nat × Nat}
    (h : releaseAll s u ms = some q) : Grows s q.1 :=
  releaseAll_induct (P := fun s' => Grows s s')
    (fun _ _ _ _ _ _ hs hr => hs.trans (release_grows hr)) (Grows.refl s) h

theorem mint_grows (s : St) (u lpN lpA stN stA : Nat) : Grows s (mint s u lpN lpA stN stA).1 := by
  intro i t h
  refine ⟨t, ?_, Later.refl t⟩
  rw [mint_fst]
  show (s.toks ++ [newTok lpN lpA stN stA])[i]? = some t
  have hlt : i < s.toks.length := by
    rcases Nat.lt_or_ge i s.toks.length with h' | h'
    · exact h'
    · rw [List.getElem?_eq_none h'] at h
      cases h
  rw [List.getElem?_append_left hlt]
  exact h

theorem step_grows {s s' : St} {op : Op} {o : Out} (h : step s op = some (s', o)) : Grows s s' := by
  cases op with
  | stake c auth lpN a ms r =>
      obtain ⟨q, _, _, hq, _, rfl, _⟩ := stake_spec h
      exact (releaseAll_grows hq).trans (mint_grows _ _ _ _ _ _)
  | claim c auth d x r =>
      obtain ⟨s1, p, _, hq, _, rfl, _⟩ := claim_spec h
      exact (release_grows hq).trans (mint_grows _ _ _ _ _ _)
  | unstake c d x r =>
      obtain ⟨s1, p, hq, rfl, _⟩ := unstake_spec h
      exact release_grows hq
  | xfer u v d x =>
      obtain ⟨_, _, _, _, rfl⟩ := xfer_spec h
      exact fun _ t h => ⟨t, h, Later.refl t⟩
  | env =>
      simp only [step, Option.some.injEq, Prod.mk.injEq] at h
      obtain ⟨rfl, _⟩ := h
      exact Grows.refl s
  | bad => simp [step] at h

theorem run_grows (s : St) (ops : List Op) : Grows s (run s ops) := by
  induction ops generalizing s with
  | nil => exact Grows.refl s
  | cons op ops ih =>
      simp only [run, List.foldl_cons]
      cases h : step s op with
      | none => exact ih s
      | some r => exact (step_grows (o := r.2) (by rw [h])).trans (ih r.1)

/-! ### zero-supply nonces -/

/-- the staking farm's answer of a stake / claim is a non-zero amount -/
def RespPos : Op → Prop
  | .stake _ _ _ _ _ r => r.stA ≠ 0
  | .claim _ _ _ _ r => r.stA ≠ 0
  | _ => True

/-- every dual-yield nonce has a non-zero total supply -/
def AllPos (s : St) : Prop := ∀ t ∈ s.toks, t.stA ≠ 0

theorem release_allPos {s s' : St} {u d x p : Nat} (hi : AllPos s)
    (h : release s u d x = some (s', p)) : AllPos s' := by
  obtain ⟨t, hd, ht, hx, hu, hp, ho, hl, hs, rfl⟩ := release_spec h
  intro a ha
  rcases mem_set_of ha with ha | rfl
  · exact hi a ha
  · exact hi t (List.mem_of_getElem? ht)

theorem mint_allPos {s : St} (hi : AllPos s) (u lpN lpA stN : Nat) {stA : Nat} (h : stA ≠ 0) :
    AllPos (mint s u lpN lpA stN stA).1 := by
  intro a ha
  rw [mint_fst] at ha
  rcases List.mem_append.1 ha with ha | ha
  · exact hi a ha
  · simp only [List.mem_singleton] at ha
    subst ha
    exact h

theorem step_allPos {s s' : St} {op : Op} {o : Out} (hi : AllPos s) (hr : RespPos op)
    (h : step s op = some (s', o)) : AllPos s' := by
  cases op with
  | stake c auth lpN a ms r =>
      obtain ⟨q, _, _, hq, _, rfl, _⟩ := stake_spec h
      exact mint_allPos (releaseAll_induct (P := AllPos)
        (fun _ _ _ _ _ _ hs hr => release_allPos hs hr) hi hq) _ _ _ _ hr
  | claim c auth d x r =>
      obtain ⟨s1, p, _, hq, _, rfl, _⟩ := claim_spec h
      exact mint_allPos (release_allPos hi hq) _ _ _ _ hr
  | unstake c d x r =>
      obtain ⟨s1, p, hq, rfl, _⟩ := unstake_spec h
      exact release_allPos hi hq
  | xfer u v d x =>
      obtain ⟨_, _, _, _, rfl⟩ := xfer_spec h
      exact hi
  | env =>
      simp only [step, Option.some.injEq, Prod.mk.injEq] at h
      obtain ⟨rfl, _⟩ := h
      exact hi
  | bad => simp [step] at h

theorem run_allPos {s : St} (ops : List Op) (hi : AllPos s) (hr : ∀ op ∈ ops, RespPos op) :
    AllPos (run s ops) := by
  induction ops generalizing s with
  | nil => exact hi
  | cons op ops ih =>
      simp only [run, List.foldl_cons]
      have hr' : ∀ op' ∈ ops, RespPos op' := fun op' h' => hr op' (List.mem_cons_of_mem _ h')
      cases h : step s op with
      | none => exact ih hi hr'
      | some r => exact ih (step_allPos (o := r.2) hi (hr op (List.mem_cons_self ..)) (by rw [h])) hr'

end Mx.DualYield
