/-
  Potential-function invariant of the farm-staking model (C06 `total_base_bound`, base part of
  C05 `reserve_covers`):

      Σ_n outstanding(n) · (rps − entryRps(n))  +  dsc · paidBase  ≤  dsc · baseBudget

  i.e. what has been paid (or compounded) as base rewards plus everything the outstanding
  positions can still claim never exceeds the base share of the emission.  Saturating
  subtraction throughout (an entry index is never above the current index anyway).

  Every transaction is one of the five transitions `PTrans` of the position view
  (Lemmas/StakingPos.lean, Lemmas/StakingTrans.lean); the potential bound is checked on those.
-/
import MxModel.Lemmas.StakingTrans

namespace Mx.Staking

open Mx.Weekly

/-- Σ over the nonces of outstanding units × (current index − entry index) -/
def PV.pot (v : PV) : Nat := wsum v.hold v.accts (v.nonce + 1) (potW v.md v.rps)

/-- the potential-function bound on the view -/
def PotOK (v : PV) : Prop := v.pot + v.dsc * v.paidBase ≤ v.dsc * v.baseBudget

/-- raising the index by `inc` raises the potential by at most `inc · supply` -/
theorem pot_gen {v : PV} (hI : PosOK v) (inc base : Nat) :
    (v.gen inc base).pot ≤ v.pot + inc * v.supply := by
  show wsum v.hold v.accts (v.nonce + 1) (potW v.md (v.rps + inc)) ≤ _
  rw [hI.sup, PV.pot, ← wsum_add_mul]
  apply wsum_le
  intro n _
  simp only [potW, posW]
  split <;> omega

theorem PotOK.gen {v : PV} (hI : PosOK v) (hP : PotOK v) {inc base : Nat}
    (hib : v.supply * inc ≤ v.dsc * base) : PotOK (v.gen inc base) := by
  have h1 := pot_gen hI inc base
  show (v.gen inc base).pot + v.dsc * v.paidBase ≤ v.dsc * (v.baseBudget + base)
  unfold PotOK at hP
  rw [Nat.mul_add]
  rw [Nat.mul_comm inc] at h1
  omega

theorem PotOK.remint {v : PV} (hI : PosOK v) (hP : PotOK v) {c : Nat} {pays : List Pay}
    {h0 : Nat → Nat → Nat} {tok : Attrs} (ut2 : Nat → Nat) (supply2 : Nat) {paid : Nat}
    (hc : c ∈ v.accts) (hd : debit v.hold c pays = some h0)
    (hpot : tok.amount * (v.rps - tok.rps) + v.dsc * paid ≤ payW (potW v.md v.rps) pays) :
    PotOK (v.remint c h0 tok ut2 supply2 paid) := by
  have hfresh := hI.fresh hd
  have hlt := hI.pay_lt hd
  have h1 := wsum_debit (potW v.md v.rps) hd hc hI.nodup hlt
  show wsum (upd2 h0 c (v.nonce + 1) tok.amount) v.accts (v.nonce + 1 + 1)
      (potW (upd v.md (v.nonce + 1) (some (.pos tok))) v.rps) + v.dsc * (v.paidBase + paid)
    ≤ v.dsc * v.baseBudget
  rw [wsum_mint (potW v.md v.rps) _ hc hI.nodup hfresh
    (fun n hn => by simp only [potW, posOf_upd_other _ _ (show n ≠ v.nonce + 1 by omega)]),
    potW_some (posOf_upd_pos _ _ _), Nat.mul_comm (v.rps - tok.rps), Nat.mul_add]
  unfold PotOK PV.pot at hP
  omega

theorem PotOK.burn {v : PV} (hI : PosOK v) (hP : PotOK v) {c : Nat} {pay : Pay}
    {h0 : Nat → Nat → Nat} {attrs : Attrs} (e x : Nat) (ut2 : Nat → Nat) (supply2 : Nat) {paid : Nat}
    (hc : c ∈ v.accts) (hd : debit v.hold c [pay] = some h0) (ha : posOf v.md pay.1 = some attrs)
    (hpot : v.dsc * paid ≤ pay.2 * (v.rps - attrs.rps)) :
    PotOK (v.burn c h0 e x ut2 supply2 paid) := by
  have hfresh := hI.fresh hd
  have hlt := hI.pay_lt hd
  have h1 := wsum_debit (potW v.md v.rps) hd hc hI.nodup hlt
  simp only [payW, potW_some ha, Nat.add_zero] at h1
  show wsum (upd2 h0 c (v.nonce + 1) x) v.accts (v.nonce + 1 + 1)
      (potW (upd v.md (v.nonce + 1) (some (.unbond e))) v.rps) + v.dsc * (v.paidBase + paid)
    ≤ v.dsc * v.baseBudget
  rw [wsum_mint (potW v.md v.rps) _ hc hI.nodup hfresh
    (fun n hn => by simp only [potW, posOf_upd_other _ _ (show n ≠ v.nonce + 1 by omega)]),
    potW_none (posOf_upd_unbond _ _ _), Nat.zero_mul, Nat.mul_add]
  rw [Nat.mul_comm pay.2] at hpot
  unfold PotOK PV.pot at hP
  omega

theorem PotOK.setHold_debit {v : PV} (hI : PosOK v) (hP : PotOK v) {c : Nat} {pays : List Pay}
    {h0 : Nat → Nat → Nat} (hc : c ∈ v.accts) (hd : debit v.hold c pays = some h0) :
    PotOK (v.setHold h0) := by
  have h1 := wsum_debit (potW v.md v.rps) hd hc hI.nodup (hI.pay_lt hd)
  show wsum h0 v.accts (v.nonce + 1) (potW v.md v.rps) + v.dsc * v.paidBase ≤ v.dsc * v.baseBudget
  unfold PotOK PV.pot at hP
  omega

theorem outst_transfer {v : PV} (hI : PosOK v) {src dst : Nat} {pay : Pay} {h0 : Nat → Nat → Nat}
    (hs : src ∈ v.accts) (hdst : dst ∈ v.accts) (hd : debit v.hold src [pay] = some h0) (n : Nat) :
    outst (upd2 h0 dst pay.1 (h0 dst pay.1 + pay.2)) v.accts n = outst v.hold v.accts n := by
  rw [outst_credit hdst hI.nodup n, ← outst_debit hd hs hI.nodup n]
  simp only [paidOf, Nat.add_zero]
  by_cases hn : n = pay.1
  · subst hn; simp
  · rw [if_neg hn, if_neg (fun e => hn e.symm)]

theorem PotOK.transfer {v : PV} (hI : PosOK v) (hP : PotOK v) {src dst : Nat} {pay : Pay}
    {h0 : Nat → Nat → Nat} (hs : src ∈ v.accts) (hdst : dst ∈ v.accts)
    (hd : debit v.hold src [pay] = some h0) :
    PotOK (v.setHold (upd2 h0 dst pay.1 (h0 dst pay.1 + pay.2))) := by
  show wsum (upd2 h0 dst pay.1 (h0 dst pay.1 + pay.2)) v.accts (v.nonce + 1) (potW v.md v.rps)
    + v.dsc * v.paidBase ≤ v.dsc * v.baseBudget
  rw [wsum_congr (fun n _ => outst_transfer hI hs hdst hd n) (fun _ _ => rfl)]
  exact hP

/-- every transition keeps the potential-function bound -/
theorem PotOK.trans {v v' : PV} (hI : PosOK v) (hP : PotOK v) (h : PTrans v v') : PotOK v' := by
  obtain ⟨inc, base, hib, h⟩ := h
  have hG := hI.gen inc base
  have hPG := hP.gen hI hib
  rcases h with rfl | ⟨c, user, pays, h0, ut1, ut2, tok, supply2, paid, hc, hd, _, _, _, _, hpot, rfl⟩ |
    ⟨c, pay, h0, attrs, e, x, supply2, paid, hc, hd, ha, _, hpot, rfl⟩ |
    ⟨c, pays, h0, hc, hd, _, rfl⟩ | ⟨src, dst, pay, h0, hs, hdst, hd, rfl⟩
  · exact hPG
  · exact hPG.remint hG ut2 supply2 hc hd hpot
  · exact hPG.burn hG e x _ supply2 hc hd ha hpot
  · exact hPG.setHold_debit hG hc hd
  · exact hPG.transfer hG hs hdst hd

/-! ### the invariant of a state -/

/-- **the potential-function bound** of a state -/
def PotInv (s : St) : Prop := PotOK (pv s)

theorem potInv_init (epoch block dsc maxApr minUnbond perBlock : Nat) (accts wl : List Nat) :
    PotInv (init epoch block dsc maxApr minUnbond perBlock accts wl) := by
  have h : (pv (init epoch block dsc maxApr minUnbond perBlock accts wl)).pot = 0 :=
    wsum_hold_zero (fun _ _ => rfl)
  show _ + dsc * 0 ≤ dsc * 0
  rw [h]; simp

theorem step_potInv {s s' : St} {op : Op} {o : Out} (hI : PosInv s) (hP : PotInv s)
    (h : step s op = some (s', o)) : PotInv s' :=
  PotOK.trans hI hP (step_ptrans h)

theorem run_potInv (ops : List Op) {s : St} (hI : PosInv s) (hP : PotInv s) : PotInv (run s ops) := by
  induction ops generalizing s with
  | nil => simpa [run] using hP
  | cons op ops ih =>
    simp only [run, List.foldl_cons]
    cases hst : step s op with
    | none => exact ih hI hP
    | some r =>
      obtain ⟨s1, o⟩ := r
      exact ih (step_posInv hI hst) (step_potInv hI hP hst)

/-! ### the bound spelled out -/

theorem usum_div_le (l : List Nat) (f : Nat → Nat) (d : Nat) :
    usum l (fun n => f n / d) ≤ usum l f / d := by
  induction l with
  | nil => simp
  | cons a l ih =>
    simp only [usum_cons]
    have := div_add_div_le (f a) (usum l f) d
    omega

/-- the potential with plain list sums -/
theorem pot_explicit (s : St) :
    (pv s).pot =
      ((List.range (s.nonce + 1)).map fun n =>
        match s.md n with
        | some (.pos a) => (s.accts.dedup.map fun u => s.hold u n).sum * (s.rps - a.rps)
        | _ => 0).sum := by
  show wsum s.hold s.accts.dedup (s.nonce + 1) (potW s.md s.rps) = _
  simp only [wsum, usum, outst]
  congr 1
  apply List.map_congr_left
  intro n _
  simp only [potW, posOf]
  cases s.md n with
  | none => simp
  | some m => cases m <;> simp [Nat.mul_comm]

/-- claimable base rewards, nonce by nonce (each nonce's outstanding units claimed at once:
    the largest the floors can add up to) -/
def claimableBase (s : St) : Nat :=
  ((List.range (s.nonce + 1)).map fun n =>
    match s.md n with
    | some (.pos a) => (s.accts.dedup.map fun u => s.hold u n).sum * (s.rps - a.rps) / s.dsc
    | _ => 0).sum

theorem claimableBase_le (s : St) : claimableBase s ≤ (pv s).pot / s.dsc := by
  rw [pot_explicit]
  have := usum_div_le (List.range (s.nonce + 1)) (fun n =>
    match s.md n with
    | some (.pos a) => (s.accts.dedup.map fun u => s.hold u n).sum * (s.rps - a.rps)
    | _ => 0) s.dsc
  simp only [usum] at this
  refine Nat.le_trans ?_ this
  unfold claimableBase
  apply Nat.le_of_eq
  congr 1
  apply List.map_congr_left
  intro n _
  cases s.md n with
  | none => simp
  | some m => cases m <;> simp

/-- claimable base rewards, holding by holding (every account claims what it holds of every
    position separately: what the harness oracle `reserve_covers` adds up) -/
def claimableHoldings (s : St) : Nat :=
  ((List.range (s.nonce + 1)).map fun n =>
    match s.md n with
    | some (.pos a) => (s.accts.dedup.map fun u => s.hold u n * (s.rps - a.rps) / s.dsc).sum
    | _ => 0).sum

theorem sum_map_mul_div_le (l : List Nat) (h : Nat → Nat) (x d : Nat) :
    (l.map fun u => h u * x / d).sum ≤ (l.map h).sum * x / d := by
  have h1 := usum_div_le l (fun u => h u * x) d
  have h2 : usum l (fun u => h u * x) = usum l h * x := by
    have := usum_mul l x h
    simp only [Nat.mul_comm x] at this
    exact this
  rw [h2] at h1
  exact h1

/-- separate claims per holding never add up to more than one claim per nonce -/
theorem claimableHoldings_le (s : St) : claimableHoldings s ≤ claimableBase s := by
  unfold claimableHoldings claimableBase
  have := usum_le (l := List.range (s.nonce + 1))
    (f := fun n => match s.md n with
      | some (.pos a) => (s.accts.dedup.map fun u => s.hold u n * (s.rps - a.rps) / s.dsc).sum
      | _ => 0)
    (g := fun n => match s.md n with
      | some (.pos a) => (s.accts.dedup.map fun u => s.hold u n).sum * (s.rps - a.rps) / s.dsc
      | _ => 0)
    (by
      intro n _
      cases s.md n with
      | none => exact Nat.le_refl _
      | some m =>
        cases m with
        | pos a => exact sum_map_mul_div_le _ _ _ _
        | unbond e => exact Nat.le_refl _)
  exact this

theorem PotInv.paid_le {s : St} (h : PotInv s) (hd : 0 < s.dsc) : s.paidBase ≤ s.baseBudget := by
  have h1 : (pv s).pot + s.dsc * s.paidBase ≤ s.dsc * s.baseBudget := h
  exact Nat.le_of_mul_le_mul_left (by omega) hd

theorem PotInv.claimable_le {s : St} (h : PotInv s) (hd : 0 < s.dsc) :
    claimableBase s + s.paidBase ≤ s.baseBudget := by
  have h1 : (pv s).pot + s.dsc * s.paidBase ≤ s.dsc * s.baseBudget := h
  have h2 := claimableBase_le s
  have h3 : (pv s).pot / s.dsc + s.paidBase ≤ s.baseBudget := by
    have : ((pv s).pot + s.dsc * s.paidBase) / s.dsc ≤ s.baseBudget :=
      Nat.div_le_of_le_mul h1
    rw [Nat.add_mul_div_left _ _ hd] at this
    exact this
  omega

theorem PotInv.claimable_explicit {s : St} (h : PotInv s) (hd : 0 < s.dsc) :
    ((List.range (s.nonce + 1)).map fun n =>
        match s.md n with
        | some (.pos a) => (s.accts.dedup.map fun u => s.hold u n).sum * (s.rps - a.rps) / s.dsc
        | _ => 0).sum
      ≤ s.baseBudget - s.paidBase ∧ s.paidBase ≤ s.baseBudget := by
  have h1 : claimableBase s + s.paidBase ≤ s.baseBudget := h.claimable_le hd
  have h2 := h.paid_le hd
  unfold claimableBase at h1
  exact ⟨by omega, h2⟩

theorem PotInv.holdings_explicit {s : St} (h : PotInv s) (hd : 0 < s.dsc) :
    ((List.range (s.nonce + 1)).map fun n =>
        match s.md n with
        | some (.pos a) => (s.accts.dedup.map fun u => s.hold u n * (s.rps - a.rps) / s.dsc).sum
        | _ => 0).sum
      ≤ s.baseBudget - s.paidBase := by
  have h1 : claimableBase s + s.paidBase ≤ s.baseBudget := h.claimable_le hd
  have h2 : claimableHoldings s ≤ claimableBase s := claimableHoldings_le s
  unfold claimableHoldings at h2
  omega

theorem PotInv.explicit {s : St} (h : PotInv s) :
    ((List.range (s.nonce + 1)).map fun n =>
        match s.md n with
        | some (.pos a) => (s.accts.dedup.map fun u => s.hold u n).sum * (s.rps - a.rps)
        | _ => 0).sum
      + s.dsc * s.paidBase ≤ s.dsc * s.baseBudget := by
  have h' : (pv s).pot + s.dsc * s.paidBase ≤ s.dsc * s.baseBudget := h
  rw [pot_explicit] at h'
  exact h'

end Mx.Staking
