/-
  C13 helpers, part 6: the binary search over the ROTATED ring
  (`price_observation_by_binary_search` + the neighbour choice of
  `price_observation_by_linear_interpolation`) is correct for every capacity, fill level and
  wrap position.
-/
import MxModel.Lemmas.SafePriceTele

namespace Mx.SafePrice
open Mx Mx.Pair

/-- rounds strictly increase along the logical order of the ring -/
def SortedRing (p : SP) : Prop := (logical p).Pairwise (fun a b => a.round < b.round)

theorem sorted_of_linked {log : Log} {p : SP} (h : Linked log (logical p)) : SortedRing p :=
  (linked_pairwise h).imp (fun h => h.2)

theorem sub?_of_le {a b : Nat} (h : b ≤ a) : sub? a b = some (a - b) := by
  simp [sub?, h]

theorem req_of {c : Prop} [Decidable c] (h : c) : req c = some () := by
  simp [req, h]

theorem last_nth {p : SP} (hs : Shape p) (hne : p.obs ≠ []) : p.last = nth p p.cur := by
  obtain ⟨h, e⟩ := last_eq hs hne
  rw [e, nth_eq_getElem (hs.curPos hne) hs.curLe]

/-- `get_oldest_price_observation` returns the logically first element -/
theorem oldest_spec {p : SP} (hs : Shape p) {old : Obs} (h : oldest p = some old) :
    p.obs ≠ [] ∧ ∃ io, 1 ≤ io ∧ io ≤ p.obs.length ∧ pos p io = 0 ∧ old = nth p io ∧
      io = (if p.obs.length = p.cap then p.cur % p.cap + 1 else 1) := by
  simp only [oldest, Option.bind_eq_bind, Option.bind_eq_some_iff, req_eq_some] at h
  obtain ⟨_, hne, h⟩ := h
  refine ⟨hne, _, ?_, ?_, ?_, ?_, rfl⟩
  all_goals
    have hlen : 1 ≤ p.obs.length := by
      cases hp : p.obs with
      | nil => exact absurd hp hne
      | cons a t => simp
    have hc1 := hs.curPos hne
    have hc2 := hs.curLe
    have hcap := hs.lenLe
  · split <;> omega
  · split
    · rename_i hf
      by_cases hc : p.cur < p.cap
      · rw [Nat.mod_eq_of_lt hc]; omega
      · have : p.cur = p.cap := by omega
        rw [this, Nat.mod_self]; omega
    · exact hlen
  · split
    · rename_i hf
      by_cases hc : p.cur < p.cap
      · rw [Nat.mod_eq_of_lt hc]
        unfold pos
        rw [if_neg (by omega)]; omega
      · have : p.cur = p.cap := by omega
        rw [this, Nat.mod_self]
        unfold pos
        rw [if_pos (by omega)]; omega
    · rename_i hf
      have := hs.notFull (by omega)
      unfold pos
      rw [if_pos (by omega)]; omega
  · generalize (if p.obs.length = p.cap then p.cur % p.cap + 1 else 1) = io at h
    by_cases hio : 1 ≤ io ∧ io ≤ p.obs.length
    · rw [get?_some hio.1 hio.2] at h
      exact (Option.some.inj h).symm
    · rw [get?_none hio] at h
      simp at h

/-- **binary search over the rotated ring**.  For any capacity, fill level and wrap position:
    if `q` is not older than the oldest retained observation and older than the newest one, the
    search either returns the stored observation of round `q`, or misses, and then the two
    observations the interpolation picks (the last probed element and its ring neighbour) are
    LOGICALLY CONSECUTIVE retained observations that bracket `q`. -/
theorem binSearch_spec {p : SP} (hs : Shape p) (hsorted : SortedRing p)
    {old : Obs} (hold : oldest p = some old) {q : Nat} (h1 : old.round ≤ q)
    (h2 : q < p.last.round) :
    ∃ o si, binSearch p q = some (o, si) ∧
      ((o = nth p si ∧ o.round = q ∧ 1 ≤ si ∧ si ≤ p.obs.length) ∨
       (o = Obs.zero ∧ ∃ iL iR, 1 ≤ iL ∧ iL ≤ p.obs.length ∧ 1 ≤ iR ∧ iR ≤ p.obs.length ∧
          pos p iL + 1 = pos p iR ∧ (nth p iL).round < q ∧ q < (nth p iR).round ∧
          neighbours p q si = some (nth p iL, nth p iR))) := by
  obtain ⟨hne, io, io1, io2, hpos0, rfl, hio⟩ := oldest_spec hs hold
  have hc1 := hs.curPos hne
  have hc2 := hs.curLe
  have hcap := hs.lenLe
  have hlast := last_nth hs hne
  rw [hlast] at h2
  have hlt : ∀ i j, 1 ≤ i → i ≤ p.obs.length → 1 ≤ j → j ≤ p.obs.length → pos p i < pos p j →
      (nth p i).round < (nth p j).round :=
    fun i j a b c d e => ring_pairwise hc2 hsorted a b c d e
  unfold binSearch
  rw [get?_some (Nat.le_refl 1) (by omega)]
  simp only [Option.bind_eq_bind, Option.bind_some]
  by_cases hb : (nth p 1).round ≤ q
  · -- the target is in the newer part: physical indices 1 … cur − 1
    rw [if_pos hb, sub?_of_le hc1]
    simp only [Option.bind_some]
    have hcur2 : 2 ≤ p.cur := by
      by_contra h
      have : p.cur = 1 := by omega
      rw [this] at h2; omega
    have hsort : SortedSeg p 1 (p.cur - 1) := by
      intro i j a b c
      apply hlt i j a (by omega) (by omega) (by omega)
      unfold pos; rw [if_pos (by omega), if_pos (by omega)]; omega
    obtain ⟨o, si, he, hres⟩ := bsLoop_spec p q (p.cur - 1 + 1 - 1) 1 (p.cur - 1) 1
      (Nat.le_refl 1) (by omega) (by omega) (Nat.le_refl _) hsort
    refine ⟨o, si, he, ?_⟩
    rcases hres with ⟨e1, e2, e3, e4⟩ | ⟨e1, m, m1, m2, m3, m4, m5⟩
    · exact Or.inl ⟨e1, e2, e3, by omega⟩
    · refine Or.inr ⟨e1, ?_⟩
      rcases m5 with ⟨a, _⟩ | ⟨_, ⟨rfl, b⟩ | ⟨a, b⟩⟩
      · omega
      · -- last probe is newer than q: its left neighbour is older
        have hgt := m4 si (Nat.le_refl _) b
        have hm1 : si ≠ 1 := by intro h; rw [h] at hgt; omega
        refine ⟨si - 1, si, by omega, by omega, by omega, by omega, ?_, m3 (si - 1) (by omega) (by omega),
          hgt, ?_⟩
        · unfold pos; rw [if_pos (by omega), if_pos (by omega)]; omega
        · unfold neighbours
          rw [get?_some (by omega) (by omega)]
          simp only [Option.bind_eq_bind, Option.bind_some]
          rw [if_neg (by omega), if_neg hm1, get?_some (by omega) (by omega)]
          rfl
      · -- last probe is older than q: its right neighbour is newer
        subst a
        have hltq := m3 si b (by omega)
        have hgt : q < (nth p (si + 1)).round := by
          by_cases hm : si + 1 ≤ p.cur - 1
          · exact m4 (si + 1) (Nat.le_refl _) hm
          · have : si + 1 = p.cur := by omega
            rw [this]; exact h2
        refine ⟨si, si + 1, by omega, by omega, by omega, by omega, ?_, hltq, hgt, ?_⟩
        · unfold pos; rw [if_pos (by omega), if_pos (by omega)]; omega
        · unfold neighbours
          rw [get?_some (by omega) (by omega)]
          simp only [Option.bind_eq_bind, Option.bind_some]
          rw [if_pos hltq, Nat.mod_eq_of_lt (by omega), get?_some (by omega) (by omega)]
          rfl
  · -- the target is in the older part: the ring is full and wrapped, physical cur + 1 … len
    rw [if_neg hb]
    have hfull : p.obs.length = p.cap ∧ p.cur < p.cap := by
      by_contra hcon
      have : io = 1 := by
        rw [hio]
        split
        · rename_i hf
          have : p.cur = p.cap := by omega
          rw [this, Nat.mod_self]
        · rfl
      rw [this] at h1; omega
    have hio' : io = p.cur + 1 := by
      rw [hio, if_pos hfull.1, Nat.mod_eq_of_lt hfull.2]
    subst hio'
    have hsort : SortedSeg p (p.cur + 1) p.obs.length := by
      intro i j a b c
      apply hlt i j (by omega) (by omega) (by omega) (by omega)
      unfold pos; rw [if_neg (by omega), if_neg (by omega)]; omega
    obtain ⟨o, si, he, hres⟩ := bsLoop_spec p q (p.obs.length + 1 - (p.cur + 1)) (p.cur + 1)
      p.obs.length 1 (by omega) (Nat.le_refl _) (by omega) (Nat.le_refl _) hsort
    refine ⟨o, si, he, ?_⟩
    rcases hres with ⟨e1, e2, e3, e4⟩ | ⟨e1, m, m1, m2, m3, m4, m5⟩
    · exact Or.inl ⟨e1, e2, by omega, e4⟩
    · refine Or.inr ⟨e1, ?_⟩
      rcases m5 with ⟨a, _⟩ | ⟨_, ⟨rfl, b⟩ | ⟨a, b⟩⟩
      · omega
      · have hgt := m4 si (Nat.le_refl _) b
        have hm1 : si ≠ p.cur + 1 := by intro h; rw [h] at hgt; omega
        refine ⟨si - 1, si, by omega, by omega, by omega, by omega, ?_, m3 (si - 1) (by omega) (by omega),
          hgt, ?_⟩
        · unfold pos; rw [if_neg (by omega), if_neg (by omega)]; omega
        · unfold neighbours
          rw [get?_some (by omega) (by omega)]
          simp only [Option.bind_eq_bind, Option.bind_some]
          rw [if_neg (by omega), if_neg (by omega), get?_some (by omega) (by omega)]
          rfl
      · subst a
        have hltq := m3 si b (by omega)
        by_cases hm : si + 1 ≤ p.obs.length
        · have hgt := m4 (si + 1) (Nat.le_refl _) hm
          refine ⟨si, si + 1, by omega, by omega, by omega, by omega, ?_, hltq, hgt, ?_⟩
          · unfold pos; rw [if_neg (by omega), if_neg (by omega)]; omega
          · unfold neighbours
            rw [get?_some (by omega) (by omega)]
            simp only [Option.bind_eq_bind, Option.bind_some]
            rw [if_pos hltq, Nat.mod_eq_of_lt (by omega), get?_some (by omega) (by omega)]
            rfl
        · -- the seam: the last physical slot is followed by physical slot 1
          have hsi : si = p.cap := by omega
          refine ⟨si, 1, by omega, by omega, by omega, by omega, ?_, hltq, by omega, ?_⟩
          · unfold pos; rw [if_neg (by omega), if_pos (by omega)]; omega
          · unfold neighbours
            rw [get?_some (by omega) (by omega)]
            simp only [Option.bind_eq_bind, Option.bind_some]
            rw [if_pos hltq, hsi, Nat.mod_self, get?_some (by omega) (by omega)]
            rfl

end Mx.SafePrice
