/-
  Every operation of the proxy-dex model preserves the LP-backing invariant `LpInv`, provided the
  farms behave (`FarmOK`).
-/
import MxModel.Lemmas.ProxyDexLp

namespace Mx.ProxyDex

theorem addLiq_lpinv {s s' : St} {k la oa lp ul uo : Nat} {merge : List (Nat × Nat)}
    {mk : Option LkTok} {o : Out} (hi : LpInv s)
    (h : addLiq s k la oa merge lp ul uo mk = some (s', o)) : LpInv s' := by
  simp only [addLiq, Option.bind_eq_bind, Option.bind_eq_some_iff, req_eq_some, sub?_eq_some,
    Option.pure_def] at h
  obtain ⟨_, _, lb, _, ob, _, h⟩ := h
  cases merge with
  | nil =>
    simp only [Option.some.injEq, Prod.mk.injEq] at h
    obtain ⟨rfl, _⟩ := h
    let s0 : St := { s with minted := s.minted + la, burnB := s.burnB + lb, lp := s.lp + lp }
    obtain ⟨hc, hlp, hwf⟩ := newW_C s0 lp k ul true
    refine ⟨?_, FLe.congr hwf hi.fle⟩
    rw [hc, hlp]; have := hi.c
    show C s + _ ≤ s.lp + lp
    simp only [if_true]; omega
  | cons a l =>
    simp only [Option.bind_eq_bind, Option.bind_eq_some_iff, req_eq_some, Option.pure_def,
      Option.some.injEq, Prod.mk.injEq] at h
    obtain ⟨t, _, _, _, ⟨s1, sx⟩, h1, rfl, _⟩ := h
    obtain ⟨hc1, hlp1, hwf1, _⟩ := takeWs_lp h1
    obtain ⟨hc, hlp, hwf⟩ := newW_C (learn s1 t) (lp + sx) t.k t.amt true
    refine ⟨?_, FLe.congr (by rw [hwf]; exact hwf1) hi.fle⟩
    rw [hc, hlp]; have := hi.c
    show C s1 + _ ≤ s1.lp
    rw [hlp1]
    have e : C { s with minted := s.minted + la, burnB := s.burnB + lb, lp := s.lp + lp } = C s := rfl
    simp only [if_true] at *; omega

theorem removeLiq_lpinv {s s' : St} {w x rb ro : Nat} {o : Out} (hi : LpInv s)
    (h : removeLiq s w x rb ro = some (s', o)) : LpInv s' := by
  simp only [removeLiq, Option.bind_eq_bind, Option.bind_eq_some_iff, sub?_eq_some,
    Option.pure_def] at h
  obtain ⟨⟨s1, r, p⟩, h1, lp, ⟨hle, rfl⟩, h⟩ := h
  obtain ⟨hc, _, _, _, _, _, hwf, _, hlp, _⟩ := takeW_delta h1
  dsimp only at h hle
  have hi1 : LpInv { s1 with lp := s1.lp - x } := by
    refine ⟨?_, FLe.congr hwf hi.fle⟩
    show C s1 ≤ s1.lp - x
    have := hi.c; omega
  split at h
  · simp only [Option.some.injEq, Prod.mk.injEq] at h
    obtain ⟨rfl, _⟩ := h
    exact ⟨hi1.c, hi1.fle⟩
  · simp only [Option.some.injEq, Prod.mk.injEq] at h
    obtain ⟨rfl, _⟩ := h
    split
    · exact ⟨hi1.c, hi1.fle⟩
    · exact ⟨hi1.c, hi1.fle⟩

theorem enterL_lpinv {s s' : St} {farm k a : Nat} {merge : List (Nat × Nat)} {ft : Nat × Nat}
    {rew : Option LkTok} {m : Option ((Nat × Nat) × LkTok)} {stray : List LkTok} {o : Out}
    (hi : LpInv s) (h : enterL s farm k a merge ft rew m stray = some (s', o)) : LpInv s' := by
  simp only [enterL, Option.bind_eq_bind, Option.bind_eq_some_iff, req_eq_some,
    Option.pure_def] at h
  obtain ⟨_, _, h⟩ := h
  have hi0 : LpInv (learnOpt { s with minted := s.minted + a } rew) :=
    ⟨by rw [learnOpt_C, learnOpt_lp]; exact hi.c, FLe.congr (learnOpt_wf _ _) hi.fle⟩
  cases merge with
  | nil =>
    simp only [Option.some.injEq, Prod.mk.injEq] at h
    obtain ⟨rfl, _⟩ := h
    refine ⟨hi0.c, newF_fle _ _ _ _ _ _ hi0.fle (fun h' => by cases h')⟩
  | cons x l =>
    simp only [Option.bind_eq_bind, Option.bind_eq_some_iff, Option.pure_def,
      Option.some.injEq, Prod.mk.injEq] at h
    obtain ⟨⟨mf, t⟩, _, ⟨s1, sp⟩, h1, rfl, _⟩ := h
    obtain ⟨hc1, hlp1, hfle1, _⟩ := takeFs_lp hi0.fle h1
    obtain ⟨hsc, hslp, hswf⟩ := addStray_C
      (newF { learn s1 t with lk := s1.lk.add t.k t.amt } farm mf.1 mf.2 .locked t.k t.amt).1 stray
    refine ⟨?_, FLe.congr hswf (newF_fle _ _ _ _ _ _ (FLe.congr rfl hfle1) (fun h' => by cases h'))⟩
    rw [hsc, hslp]
    show C s1 ≤ s1.lp
    rw [hc1, hlp1]; exact hi0.c

theorem enterW_lpinv {s s' : St} {farm w a : Nat} {merge : List (Nat × Nat)} {ft : Nat × Nat}
    {rew : Option LkTok} {m : Option ((Nat × Nat) × LkTok)} {stray : List LkTok} {o : Out}
    (hi : LpInv s) (hok : FarmOK (.enterW farm w a merge ft rew m stray))
    (h : enterW s farm w a merge ft rew m stray = some (s', o)) : LpInv s' := by
  obtain ⟨hnb, hplain, hmerge⟩ := hok
  simp only [enterW, Option.bind_eq_bind, Option.bind_eq_some_iff, req_eq_some, sub?_eq_some,
    Option.pure_def] at h
  obtain ⟨r, hr, _, _, c, ⟨hc, rfl⟩, q, _, lp, ⟨hlp, rfl⟩, h⟩ := h
  cases merge with
  | nil =>
    simp only [Option.some.injEq, Prod.mk.injEq] at h
    obtain ⟨rfl, _⟩ := h
    obtain ⟨hc2, _, _, _⟩ := setW_delta s w r { r with circ := r.circ - a, held := r.held + a } hr rfl
    refine ⟨?_, newF_fle _ _ _ _ _ _ (FLe.congr (learnOpt_wf _ _) hi.fle)
      (fun _ => ⟨hplain rfl, hnb⟩)⟩
    show C (learnOpt _ rew) ≤ (learnOpt _ rew).lp
    rw [learnOpt_C, learnOpt_lp]
    show C (setW s w _) ≤ s.lp - a
    have := hi.c; dsimp only at hc2; omega
  | cons x l =>
    simp only [Option.bind_eq_bind, Option.bind_eq_some_iff, Option.pure_def,
      Option.some.injEq, Prod.mk.injEq] at h
    obtain ⟨⟨mf, t⟩, hm, ⟨s0, r0, q0⟩, h0, ⟨s1, sp⟩, h1, rfl, _⟩ := h
    obtain ⟨hc0, _, _, _, _, _, hwf0, _, hlp0, _⟩ := takeW_delta h0
    have hfle0 : FLe (learnOpt { s0 with lp := s.lp - a } rew) :=
      FLe.congr (by rw [learnOpt_wf]; exact hwf0) hi.fle
    obtain ⟨hc1, hlp1, hfle1, hsp⟩ := takeFs_lp hfle0 h1
    obtain ⟨hcw, hlpw, hwfw⟩ := newW_C (learn s1 t) (a + sp) t.k t.amt false
    obtain ⟨hsc, hslp, hswf⟩ := addStray_C
      (newF (newW (learn s1 t) (a + sp) t.k t.amt false).1 farm mf.1 mf.2 .wlp
        (newW (learn s1 t) (a + sp) t.k t.amt false).2 (a + sp)).1 stray
    have hmm := hmerge mf t hm
    have hspx := hsp rfl
    refine ⟨?_, FLe.congr hswf (newF_fle _ _ _ _ _ _ (FLe.congr hwfw hfle1)
      (fun _ => ⟨by omega, hnb⟩))⟩
    rw [hsc, hslp]
    show C (newW (learn s1 t) (a + sp) t.k t.amt false).1 ≤ (newW (learn s1 t) (a + sp) t.k t.amt false).1.lp
    rw [hcw, hlpw]
    show C s1 + _ ≤ s1.lp
    rw [hc1, hlp1, learnOpt_C, learnOpt_lp]
    show C s0 + _ ≤ s.lp - a
    have := hi.c
    simp only [Bool.false_eq_true, if_false]; omega

theorem exitFarm_lpinv {s s' : St} {farm f x farming : Nat} {rew : Option LkTok} {o : Out}
    (hi : LpInv s) (h : exitFarm s farm f x farming rew = some (s', o)) : LpInv s' := by
  simp only [exitFarm, Option.bind_eq_bind, Option.bind_eq_some_iff, req_eq_some,
    Option.pure_def] at h
  obtain ⟨_, hfx, ⟨s1, t⟩, h1, h⟩ := h
  obtain ⟨hlp1, hfle1, hmem, hpx, hCm, hCle⟩ := takeF_lp hi.fle h1
  dsimp only at h
  have hic := hi.c
  split at h
  · rename_i hxf
    -- no penalty: the proxy-farming part is handed out as it is
    have key : LpInv (learnOpt (if farmIsBase t.r.farm = true then { s1 with burnB := s1.burnB + farming }
        else { s1 with lp := s1.lp + farming }) rew) := by
      refine ⟨?_, FLe.congr (by rw [learnOpt_wf]; split <;> rfl) hfle1⟩
      rw [learnOpt_C, learnOpt_lp]
      cases hk : t.r.kind with
      | locked =>
        rw [hk] at hCle
        simp only [reduceCtorEq, if_false] at hCle
        split
        · show C s1 ≤ s1.lp; omega
        · show C s1 ≤ s1.lp + farming; omega
      | wlp =>
        have hnb := (hi.fle t.r hmem hk).2
        have := hpx hk
        rw [hk] at hCle
        simp only [if_true] at hCle
        rw [hnb]
        show C s1 ≤ s1.lp + farming
        omega
    split at h <;>
      (simp only [Option.some.injEq, Prod.mk.injEq] at h; obtain ⟨rfl, _⟩ := h; exact key)
  · rename_i hxf
    have hC1 : C s1 = C s := hCm (by rw [if_neg hxf]; simp)
    simp only [Option.bind_eq_bind, Option.bind_eq_some_iff, sub?_eq_some] at h
    obtain ⟨remaining, ⟨hpen, rfl⟩, h⟩ := h
    split at h
    · simp only [Option.some.injEq, Prod.mk.injEq] at h
      obtain ⟨rfl, _⟩ := h
      refine ⟨?_, FLe.congr (by rw [learnOpt_wf]; simp only [burnLocked]; split <;> rfl) hfle1⟩
      rw [learnOpt_C, learnOpt_lp]
      simp only [burnLocked]
      split
      · show C s1 ≤ s1.lp; omega
      · show C s1 ≤ s1.lp + farming; omega
    · rename_i hk
      simp only [Option.bind_eq_bind, Option.bind_eq_some_iff, sub?_eq_some, Option.pure_def,
        Option.some.injEq, Prod.mk.injEq] at h
      obtain ⟨rw, _, qN, _, extra, _, rfl, _⟩ := h
      have hnb := (hi.fle t.r hmem hk).2
      have hp := hpx hk
      rw [hnb]
      simp only [Bool.false_eq_true, if_false]
      let s3 : St := if extra = 0 then { s1 with lp := s1.lp + farming }
        else burnLocked { s1 with lp := s1.lp + farming } rw.k extra
      have e3 : C s3 = C s1 ∧ s3.lp = s1.lp + farming ∧ s3.wf = s1.wf := by
        show C (if extra = 0 then _ else _) = _ ∧ (if extra = 0 then _ else _ : St).lp = _ ∧
          (if extra = 0 then _ else _ : St).wf = _
        split <;> exact ⟨rfl, rfl, rfl⟩
      obtain ⟨hcw, hlpw, hwfw⟩ := newW_C s3 (t.p - (x - farming)) rw.k qN true
      refine ⟨?_, FLe.congr (by rw [learnOpt_wf, hwfw, e3.2.2]) hfle1⟩
      rw [learnOpt_C, learnOpt_lp, hcw, hlpw, e3.1, e3.2.1]
      simp only [if_true]; omega

theorem claim_lpinv {s s' : St} {farm f x : Nat} {ft : Nat × Nat} {rew : Option LkTok} {o : Out}
    (hi : LpInv s) (hok : x ≤ ft.2) (h : claim s farm f x ft rew = some (s', o)) : LpInv s' := by
  simp only [claim, Option.bind_eq_bind, Option.bind_eq_some_iff, Option.pure_def,
    Option.some.injEq, Prod.mk.injEq] at h
  obtain ⟨⟨s1, t⟩, h1, rfl, _⟩ := h
  obtain ⟨hlp1, hfle1, hmem, hpx, hCm, _⟩ := takeF_lp hi.fle h1
  have hC1 : C s1 = C s := hCm (by simp)
  dsimp only
  refine ⟨?_, newF_fle _ _ _ _ _ _ (FLe.congr (learnOpt_wf _ _) hfle1) ?_⟩
  · show C (learnOpt s1 rew) ≤ (learnOpt s1 rew).lp
    rw [learnOpt_C, learnOpt_lp, hC1, hlp1]; exact hi.c
  · intro hk
    have := hpx hk
    exact ⟨by omega, (hi.fle t.r hmem hk).2⟩

theorem mergeLp_lpinv {s s' : St} {l : List (Nat × Nat)} {t : LkTok} {o : Out}
    (hi : LpInv s) (h : mergeLp s l t = some (s', o)) : LpInv s' := by
  simp only [mergeLp, Option.bind_eq_bind, Option.bind_eq_some_iff, req_eq_some,
    Option.pure_def, Option.some.injEq, Prod.mk.injEq] at h
  obtain ⟨_, _, ⟨s1, sx⟩, h1, rfl, _⟩ := h
  obtain ⟨hc1, hlp1, hwf1, _⟩ := takeWs_lp h1
  obtain ⟨hc, hlp, hwf⟩ := newW_C (learn s1 t) sx t.k t.amt true
  refine ⟨?_, FLe.congr (by rw [hwf]; exact hwf1) hi.fle⟩
  rw [hc, hlp]
  show C s1 + _ ≤ s1.lp
  have := hi.c
  simp only [if_true]; omega

theorem mergeFarmCore_lpinv {s s' : St} {farm : Nat} {l : List (Nat × Nat)} {mf : Nat × Nat}
    {t : LkTok} {stray : List LkTok} {o : Out} (hi : LpInv s) (hok : sumX l ≤ mf.2)
    (h : mergeFarmCore s farm l mf t stray = some (s', o)) : LpInv s' := by
  simp only [mergeFarmCore, Option.bind_eq_bind, Option.bind_eq_some_iff, req_eq_some,
    Option.pure_def] at h
  obtain ⟨_, _, ⟨f0, x0⟩, _, r0, hr0, ⟨s1, sp⟩, h1, h⟩ := h
  obtain ⟨hc1, hlp1, hfle1, hsp⟩ := takeFs_lp hi.fle h1
  have hm0 : r0 ∈ s.wf := List.mem_of_getElem? hr0
  dsimp only at h
  split at h
  · simp only [Option.some.injEq, Prod.mk.injEq] at h
    obtain ⟨rfl, _⟩ := h
    obtain ⟨hsc, hslp, hswf⟩ := addStray_C
      (newF { learn s1 t with lk := s1.lk.add t.k t.amt } r0.farm mf.1 mf.2 .locked t.k t.amt).1 stray
    refine ⟨?_, FLe.congr hswf (newF_fle _ _ _ _ _ _ (FLe.congr rfl hfle1) (fun h' => by cases h'))⟩
    rw [hsc, hslp]
    show C s1 ≤ s1.lp
    rw [hc1, hlp1]; exact hi.c
  · rename_i hk
    simp only [Option.some.injEq, Prod.mk.injEq] at h
    obtain ⟨rfl, _⟩ := h
    obtain ⟨hcw, hlpw, hwfw⟩ := newW_C (learn s1 t) sp t.k t.amt false
    obtain ⟨hsc, hslp, hswf⟩ := addStray_C
      (newF (newW (learn s1 t) sp t.k t.amt false).1 r0.farm mf.1 mf.2 .wlp
        (newW (learn s1 t) sp t.k t.amt false).2 sp).1 stray
    have hspx := hsp hk
    refine ⟨?_, FLe.congr hswf (newF_fle _ _ _ _ _ _ (FLe.congr hwfw hfle1)
      (fun _ => ⟨by omega, (hi.fle r0 hm0 hk).2⟩))⟩
    rw [hsc, hslp]
    show C (newW (learn s1 t) sp t.k t.amt false).1 ≤ (newW (learn s1 t) sp t.k t.amt false).1.lp
    rw [hcw, hlpw]
    show C s1 + _ ≤ s1.lp
    rw [hc1, hlp1]
    have := hi.c
    simp only [Bool.false_eq_true, if_false]; omega

theorem mergeFarm_lpinv {s s' : St} {farm : Nat} {l : List (Nat × Nat)} {mf : Nat × Nat}
    {t : LkTok} {rew : Option LkTok} {stray : List LkTok} {o : Out} (hi : LpInv s)
    (hok : sumX l ≤ mf.2) (h : mergeFarm s farm l mf t rew stray = some (s', o)) : LpInv s' := by
  simp only [mergeFarm, Option.bind_eq_bind, Option.bind_eq_some_iff, Option.pure_def,
    Option.some.injEq, Prod.mk.injEq] at h
  obtain ⟨⟨s1, o1⟩, h1, rfl, _⟩ := h
  have hi0 : LpInv (learnOpt s rew) :=
    ⟨by rw [learnOpt_C, learnOpt_lp]; exact hi.c, FLe.congr (learnOpt_wf _ _) hi.fle⟩
  exact mergeFarmCore_lpinv hi0 hok h1

theorem incLp_lpinv {s s' : St} {w x : Nat} {t : LkTok} {o : Out}
    (hi : LpInv s) (h : incLp s w x t = some (s', o)) : LpInv s' := by
  simp only [incLp, Option.bind_eq_bind, Option.bind_eq_some_iff,
    Option.pure_def, Option.some.injEq, Prod.mk.injEq] at h
  obtain ⟨⟨s1, r, p⟩, h1, rfl, _⟩ := h
  obtain ⟨hc1, _, _, _, _, _, hwf1, _, hlp1, _⟩ := takeW_delta h1
  obtain ⟨hc, hlp, hwf⟩ := newW_C (learn s1 t) x t.k t.amt true
  refine ⟨?_, FLe.congr (by rw [hwf]; exact hwf1) hi.fle⟩
  rw [hc, hlp]
  show C s1 + _ ≤ s1.lp
  have := hi.c
  simp only [if_true]; omega

theorem incFarm_lpinv {s s' : St} {f x : Nat} {t : LkTok} {o : Out}
    (hi : LpInv s) (h : incFarm s f x t = some (s', o)) : LpInv s' := by
  simp only [incFarm, Option.bind_eq_bind, Option.bind_eq_some_iff, Option.pure_def] at h
  obtain ⟨⟨s1, tk⟩, h1, h⟩ := h
  obtain ⟨hlp1, hfle1, hmem, hpx, hCm, _⟩ := takeF_lp hi.fle h1
  have hC1 : C s1 = C s := hCm (by simp)
  dsimp only at h
  split at h
  · simp only [Option.some.injEq, Prod.mk.injEq] at h
    obtain ⟨rfl, _⟩ := h
    refine ⟨?_, newF_fle _ _ _ _ _ _ (FLe.congr rfl hfle1) (fun h' => by cases h')⟩
    show C s1 ≤ s1.lp
    rw [hC1, hlp1]; exact hi.c
  · rename_i hk
    simp only [Option.some.injEq, Prod.mk.injEq] at h
    obtain ⟨rfl, _⟩ := h
    obtain ⟨hcw, hlpw, hwfw⟩ := newW_C (learn s1 t) tk.p t.k t.amt false
    have hp := hpx hk
    refine ⟨?_, newF_fle _ _ _ _ _ _ (FLe.congr hwfw hfle1)
      (fun _ => ⟨hp, (hi.fle tk.r hmem hk).2⟩)⟩
    show C (newW (learn s1 t) tk.p t.k t.amt false).1 ≤ (newW (learn s1 t) tk.p t.k t.amt false).1.lp
    rw [hcw, hlpw]
    show C s1 + _ ≤ s1.lp
    rw [hC1, hlp1]
    have := hi.c
    simp only [Bool.false_eq_true, if_false]; omega

/-- one transaction preserves the LP backing when the farms behave -/
theorem step_lpinv {s s' : St} {op : Op} {o : Out} (hi : LpInv s) (hok : FarmOK op)
    (h : step s op = some (s', o)) : LpInv s' := by
  cases op with
  | lock t =>
    simp only [step, Option.some.injEq, Prod.mk.injEq] at h
    obtain ⟨rfl, _⟩ := h; exact ⟨hi.c, hi.fle⟩
  | advance e =>
    simp only [step, Option.some.injEq, Prod.mk.injEq] at h
    obtain ⟨rfl, _⟩ := h; exact ⟨hi.c, hi.fle⟩
  | noop =>
    simp only [step, Option.some.injEq, Prod.mk.injEq] at h
    obtain ⟨rfl, _⟩ := h; exact hi
  | addLiq k la oa merge lp ul uo mk => exact addLiq_lpinv hi h
  | removeLiq w x rb ro => exact removeLiq_lpinv hi h
  | enterL farm k a merge ft rew m stray => exact enterL_lpinv hi h
  | enterW farm w a merge ft rew m stray => exact enterW_lpinv hi hok h
  | exitFarm farm f x farming rew => exact exitFarm_lpinv (farm := farm) hi h
  | claim farm f x ft rew => exact claim_lpinv (farm := farm) hi hok h
  | mergeLp l t => exact mergeLp_lpinv hi h
  | mergeFarm farm l mf t rew stray => exact mergeFarm_lpinv (farm := farm) hi hok h
  | incLp w x t => exact incLp_lpinv hi h
  | incFarm f x t => exact incFarm_lpinv hi h

theorem run_lpinv {s : St} (ops : List Op) (hi : LpInv s) (hok : ∀ op ∈ ops, FarmOK op) :
    LpInv (run s ops) := by
  induction ops generalizing s with
  | nil => exact hi
  | cons op ops ih =>
    simp only [run, List.foldl_cons]
    have hok' : ∀ op' ∈ ops, FarmOK op' := fun op' h' => hok op' (List.mem_cons_of_mem _ h')
    cases h : step s op with
    | none => exact ih hi hok'
    | some r =>
      obtain ⟨s', o⟩ := r
      exact ih (step_lpinv hi (hok op List.mem_cons_self) h) hok'

end Mx.ProxyDex
