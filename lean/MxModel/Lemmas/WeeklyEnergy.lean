/-
  Facts about `Energy`, depletion by whole weeks and claim progress (Core/Weekly.lean).
  No contract state here.
-/
import MxModel.Core.Weekly
import Mathlib.Tactic.Ring
import Mathlib.Tactic.Linarith

namespace Mx.Weekly

namespace Energy

/-- depletion `n` epochs past the entry's own last update: the amount loses `totalLocked · n` -/
theorem deplete_add_amount (e : Energy) (n : Nat) :
    (e.deplete (e.lastUpdateEpoch + n)).amount = e.amount - ((e.totalLocked * n : Nat) : Int) := by
  unfold deplete
  by_cases hn : n = 0
  · subst hn; simp
  · have h1 : ¬ e.lastUpdateEpoch = e.lastUpdateEpoch + n := by omega
    simp only [h1, if_false]
    by_cases hT : 0 < e.totalLocked
    · have h2 : e.lastUpdateEpoch < e.lastUpdateEpoch + n := by omega
      simp [hT, h2]
    · have : e.totalLocked = 0 := by omega
      simp [this]

theorem deplete_add_last (e : Energy) (n : Nat) :
    (e.deplete (e.lastUpdateEpoch + n)).lastUpdateEpoch = e.lastUpdateEpoch + n := by
  unfold deplete
  split
  · rename_i h; exact h
  · rfl

@[simp] theorem deplete_locked (e : Energy) (x : Nat) : (e.deplete x).totalLocked = e.totalLocked := by
  unfold deplete; split <;> rfl

@[simp] theorem deplete_last (e : Energy) (x : Nat) : (e.deplete x).lastUpdateEpoch = x := by
  unfold deplete
  split
  · rename_i h; exact h
  · rfl

/-- the entry after `k` whole weeks of decay (7 epochs each, counted from its own last update) -/
def after (e : Energy) (k : Nat) : Energy := e.deplete (e.lastUpdateEpoch + EPOCHS_IN_WEEK * k)

theorem after_amount (e : Energy) (k : Nat) :
    (e.after k).amount = e.amount - ((7 * e.totalLocked * k : Nat) : Int) := by
  unfold after
  rw [deplete_add_amount]
  have : e.totalLocked * (EPOCHS_IN_WEEK * k) = 7 * e.totalLocked * k := by
    simp only [EPOCHS_IN_WEEK]; ring
  rw [this]

@[simp] theorem after_locked (e : Energy) (k : Nat) : (e.after k).totalLocked = e.totalLocked := by
  simp [after]

@[simp] theorem after_last (e : Energy) (k : Nat) :
    (e.after k).lastUpdateEpoch = e.lastUpdateEpoch + 7 * k := by
  simp [after, EPOCHS_IN_WEEK]

theorem ext' {a b : Energy} (h1 : a.amount = b.amount) (h2 : a.lastUpdateEpoch = b.lastUpdateEpoch)
    (h3 : a.totalLocked = b.totalLocked) : a = b := by
  cases a; cases b; simp_all

@[simp] theorem after_zero (e : Energy) : e.after 0 = e := by
  apply ext'
  · rw [after_amount]; simp
  · simp
  · simp

/-- decay composes: `j` weeks and then `k` more weeks is `j + k` weeks -/
theorem after_after (e : Energy) (j k : Nat) : (e.after j).after k = e.after (j + k) := by
  apply ext'
  · rw [after_amount, after_amount, after_amount, after_locked]
    push_cast; ring
  · simp; ring
  · simp

/-- the claimable energy amount of the entry `k` weeks later: `max 0 (amount − 7·T·k)` -/
theorem after_getEnergyAmount (e : Energy) (k : Nat) :
    (e.after k).getEnergyAmount = (e.amount - ((7 * e.totalLocked * k : Nat) : Int)).toNat := by
  unfold getEnergyAmount; rw [after_amount]

/-- decay never increases the claimable amount -/
theorem after_getEnergyAmount_le (e : Energy) (k : Nat) :
    (e.after k).getEnergyAmount ≤ e.getEnergyAmount := by
  rw [after_getEnergyAmount]; unfold getEnergyAmount
  have : (0 : Int) ≤ ((7 * e.totalLocked * k : Nat) : Int) := Int.natCast_nonneg _
  omega

end Energy

namespace ClaimProgress

theorem advanceWeek_eq (p : ClaimProgress) : p.advanceWeek = ⟨p.energy.after 1, p.week + 1⟩ := by
  simp [advanceWeek, Energy.after]

theorem advanceMultipleWeeks_eq (p : ClaimProgress) (n : Nat) :
    p.advanceMultipleWeeks n = ⟨p.energy.after n, p.week + n⟩ := by
  simp [advanceMultipleWeeks, Energy.after]

/-- `n` single-week advances are one `n`-week advance -/
theorem iterate_advanceWeek (p : ClaimProgress) (n : Nat) :
    (advanceWeek^[n]) p = ⟨p.energy.after n, p.week + n⟩ := by
  induction n generalizing p with
  | zero => simp
  | succ n ih =>
    rw [Function.iterate_succ_apply, ih, advanceWeek_eq]
    simp only [Energy.after_after]
    congr 1
    · rw [Nat.add_comm]
    · omega

end ClaimProgress

/-- `depletedPrev` is decay by the whole weeks elapsed since the progress was recorded -/
theorem depletedPrev_eq (prev : Energy) (W lastActive : Nat) :
    depletedPrev prev W lastActive = prev.after (W - lastActive) := by
  unfold depletedPrev
  by_cases h : W = lastActive
  · subst h; simp
  · simp only [ne_eq, h, not_false_eq_true, if_true, Energy.after]
    congr 1
    rw [Nat.mul_comm]

end Mx.Weekly
