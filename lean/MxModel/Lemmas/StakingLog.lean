/-
  Farm-staking: the PAID LOG of boosted rewards over whole histories.

  `paidLog s₀ ops` is a FUNCTION OF THE HISTORY (no model field): one entry `(user, week, amount)`
  per week pool a successful operation paid boosted rewards out of.  The user is the operation's
  `claimerOf` (original caller of stake / claim / unstake, the on-behalf user, the recorded owner for
  `claimRewardsOnBehalf`, the caller of compound / merge / claimBoostedRewards); week and amount are
  read off the growth of the ghost `b.paid week` (Σ boosted rewards paid out of that week's pool).

    * `stepLog_window`, `stepLog_pos`     per operation: who, which weeks, positive amount
    * `paidLog_once_from`                 no (user, week) twice, for every history
    * `paidLog_sum_from`                  `paid w` grows by exactly the logged amounts for `w`

  Everything comes from the per-operation classification `Fx` of Lemmas/StakingOnce.lean
  (`step_fx`, `Fx.paid_gate`, `Fx.claimer_closes`, `closed_next`); no state invariant is needed.
  The amount = formula part is in Lemmas/StakingLogAmount.lean.
-/
import MxModel.Lemmas.StakingOnce

namespace Mx.Staking

open Mx.Weekly

theorem next_of_some {s : St} {op : Op} {r : St × Out} (h : step s op = some r) : next s op = r.1 := by
  unfold next; rw [h]

theorem next_of_none {s : St} {op : Op} (h : step s op = none) : next s op = s := by
  unfold next; rw [h]

/-- one boosted payment: `user` received `amount` out of the pool of week `week` -/
structure Entry where
  user : Nat
  week : Nat
  amount : Nat
  deriving DecidableEq, Repr

/-- the boosted payments of one successful operation with claimer `u` (`s` before, `s'` after): for
    every completed week whose paid ghost grew, that growth -/
def entriesOf (u : Nat) (s s' : St) : List Entry :=
  (List.range s.week).filterMap fun w =>
    if s'.b.paid w ≠ s.b.paid w then some ⟨u, w, s'.b.paid w - s.b.paid w⟩ else none

/-- the log entries produced by one operation (nothing unless it succeeds and has a claimer) -/
def stepLog (s : St) (op : Op) : List Entry :=
  match claimerOf s op, step s op with
  | some u, some r => entriesOf u s r.1
  | _, _ => []

/-- **the paid log** (boosted rewards) of a history started in `s` -/
def paidLog (s : St) : List Op → List Entry
  | [] => []
  | op :: ops => stepLog s op ++ paidLog (next s op) ops

theorem mem_entriesOf {u : Nat} {s s' : St} {e : Entry} (h : e ∈ entriesOf u s s') :
    e.user = u ∧ e.week < s.week ∧ s'.b.paid e.week ≠ s.b.paid e.week ∧
    e.amount = s'.b.paid e.week - s.b.paid e.week := by
  simp only [entriesOf, List.mem_filterMap, List.mem_range] at h
  obtain ⟨w, hw, hsome⟩ := h
  split at hsome
  · rename_i hne
    simp only [Option.some.injEq] at hsome
    subst hsome
    exact ⟨rfl, hw, hne, rfl⟩
  · cases hsome

theorem stepLog_cases {s : St} {op : Op} {e : Entry} (h : e ∈ stepLog s op) :
    ∃ u r, claimerOf s op = some u ∧ step s op = some r ∧ e ∈ entriesOf u s r.1 := by
  unfold stepLog at h
  split at h
  · rename_i u r hu hs
    exact ⟨u, r, hu, hs, h⟩
  · cases h

theorem stepLog_of_none {s : St} {op : Op} (h : step s op = none) : stepLog s op = [] := by
  unfold stepLog; rw [h]; split <;> first | rfl | (rename_i h1 h2; cases h2)

theorem stepLog_of_some {s : St} {op : Op} {u : Nat} {r : St × Out} (hu : claimerOf s op = some u)
    (h : step s op = some r) : stepLog s op = entriesOf u s r.1 := by
  unfold stepLog; rw [hu, h]

/-- every entry an operation logs: its user is the operation's claimer, its week `w` satisfies
    `current − 4 ≤ w < current`, the user has a stored progress and it is not after `w` -/
theorem stepLog_window {s : St} {op : Op} {e : Entry} (h : e ∈ stepLog s op) :
    claimerOf s op = some e.user ∧ s.week ≤ e.week + 4 ∧ e.week < s.week ∧
    ∃ p, s.w.progress e.user = some p ∧ p.week ≤ e.week := by
  obtain ⟨u, r, hu, hs, hm⟩ := stepLog_cases h
  obtain ⟨heu, _, hne, _⟩ := mem_entriesOf hm
  subst heu
  have fx := step_fx (s := s) (s' := r.1) (o := r.2) hs
  obtain ⟨u', p, hc, hp, hle, hlt, h4, _⟩ := fx.paid_gate hne
  rw [hu] at hc
  cases hc
  exact ⟨hu, h4, hlt, p, hp, hle⟩

/-- a logged amount is positive -/
theorem stepLog_pos {s : St} {op : Op} {e : Entry} (h : e ∈ stepLog s op) : 0 < e.amount := by
  obtain ⟨u, r, hu, hs, hm⟩ := stepLog_cases h
  obtain ⟨_, _, hne, hamt⟩ := mem_entriesOf hm
  have fx := step_fx (s := s) (s' := r.1) (o := r.2) hs
  obtain ⟨_, _, _, _, _, _, _, hgrow, _⟩ := fx.paid_gate hne
  omega

/-! ### no key twice -/

def sameKey (e e' : Entry) : Prop := e.user = e'.user ∧ e.week = e'.week

/-- every logged `(user, week)` is closed: the week is over and the user's stored progress (if any)
    is beyond it -/
def LogOk (s : St) (l : List Entry) : Prop := ∀ e ∈ l, Closed s e.user e.week

theorem stepLog_pairwise (s : St) (op : Op) : (stepLog s op).Pairwise (fun e e' => ¬ sameKey e e') := by
  unfold stepLog
  split
  · rename_i u r _ _
    unfold entriesOf
    rw [List.pairwise_filterMap]
    refine (List.pairwise_lt_range (n := s.week)).imp ?_
    intro w1 w2 hlt b hb b' hb' hk
    split at hb
    · split at hb'
      · simp only [Option.some.injEq] at hb hb'
        subst hb; subst hb'
        have := hk.2
        simp only at this
        omega
      · cases hb'
    · cases hb
  · exact List.Pairwise.nil

theorem stepLog_fresh {s : St} {l : List Entry} (hO : LogOk s l) {op : Op} :
    ∀ a ∈ l, ∀ b ∈ stepLog s op, ¬ sameKey a b := by
  intro a ha b hb hk
  obtain ⟨_, _, _, p, hp, hple⟩ := stepLog_window hb
  have := (hO a ha).2 p (by rw [hk.1]; exact hp)
  have := hk.2
  omega

theorem next_LogOk {s : St} {l : List Entry} (hO : LogOk s l) (op : Op) :
    LogOk (next s op) (l ++ stepLog s op) := by
  intro e he
  rcases List.mem_append.mp he with he | he
  · exact closed_next (hO e he) op
  · obtain ⟨hcu, _, hwk, _⟩ := stepLog_window he
    obtain ⟨u, r, _, hs, _⟩ := stepLog_cases he
    rw [next_of_some hs]
    exact (step_fx (s := s) (s' := r.1) (o := r.2) hs).claimer_closes hcu hwk

/-- **no (user, week) twice**, generalised for the induction -/
theorem paidLog_once_from (ops : List Op) : ∀ {s : St} {pre : List Entry}
    (_ : LogOk s pre) (_ : pre.Pairwise (fun e e' => ¬ sameKey e e')),
    (pre ++ paidLog s ops).Pairwise (fun e e' => ¬ sameKey e e') := by
  induction ops with
  | nil => intro s pre _ hP; simpa [paidLog] using hP
  | cons op ops ih =>
    intro s pre hO hP
    simp only [paidLog]
    rw [← List.append_assoc]
    refine ih (next_LogOk hO op) ?_
    rw [List.pairwise_append]
    exact ⟨hP, stepLog_pairwise s op, stepLog_fresh hO⟩

/-- the log of a history keeps the invariant (so a later history can be appended) -/
theorem paidLog_LogOk (ops : List Op) : ∀ {s : St} {pre : List Entry}, LogOk s pre →
    LogOk (run s ops) (pre ++ paidLog s ops) := by
  induction ops with
  | nil => intro s pre h; simpa [paidLog, run] using h
  | cons op ops ih =>
    intro s pre h
    rw [run_cons]
    simp only [paidLog]
    rw [← List.append_assoc]
    exact ih (next_LogOk h op)

/-! ### the log is complete -/

/-- Σ of the amounts logged for week `w` -/
def logSum (l : List Entry) (w : Nat) : Nat := (l.map fun e => if e.week = w then e.amount else 0).sum

theorem exists_of_logSum_pos {l : List Entry} {w : Nat} (h : 0 < logSum l w) :
    ∃ e ∈ l, e.week = w ∧ 0 < e.amount := by
  induction l with
  | nil => exact absurd h (by simp [logSum])
  | cons e es ih =>
    unfold logSum at h ih
    simp only [List.map_cons, List.sum_cons] at h
    by_cases hk : e.week = w
    · by_cases hp : 0 < e.amount
      · exact ⟨e, List.mem_cons_self, hk, hp⟩
      · rw [if_pos hk] at h
        obtain ⟨e', he', h'⟩ := ih (by omega)
        exact ⟨e', List.mem_cons_of_mem _ he', h'⟩
    · rw [if_neg hk, Nat.zero_add] at h
      obtain ⟨e', he', h'⟩ := ih h
      exact ⟨e', List.mem_cons_of_mem _ he', h'⟩

theorem logSum_append (l1 l2 : List Entry) (w : Nat) : logSum (l1 ++ l2) w = logSum l1 w + logSum l2 w := by
  unfold logSum; rw [List.map_append, List.sum_append]

theorem logSum_entriesOf (u : Nat) (s s' : St) (w : Nat) :
    logSum (entriesOf u s s') w =
      if w < s.week ∧ s'.b.paid w ≠ s.b.paid w then s'.b.paid w - s.b.paid w else 0 := by
  unfold entriesOf
  generalize s.week = K
  induction K with
  | zero => simp [logSum]
  | succ K ih =>
    rw [List.range_succ, List.filterMap_append, logSum_append, ih]
    by_cases hw : w = K
    · subst hw
      by_cases hne : s'.b.paid w ≠ s.b.paid w
      · simp [logSum, hne]
      · simp [logSum, hne]
    · have h1 : (w < K + 1) ↔ (w < K) := by omega
      by_cases hne : s'.b.paid K ≠ s.b.paid K
      · simp [logSum, hne, h1, Ne.symm hw]
      · simp [logSum, hne, h1]

/-- the log entries of one operation account for exactly the growth of `paid w` -/
theorem stepLog_sum (s : St) (op : Op) (w : Nat) :
    (next s op).b.paid w = s.b.paid w + logSum (stepLog s op) w := by
  cases hs : step s op with
  | none => rw [next_of_none hs, stepLog_of_none hs]; rfl
  | some r =>
    rw [next_of_some hs]
    have fx := step_fx (s := s) (s' := r.1) (o := r.2) hs
    by_cases hne : r.1.b.paid w = s.b.paid w
    · have hz : logSum (stepLog s op) w = 0 := by
        unfold stepLog
        split
        · rename_i u r' _ hs'
          rw [hs] at hs'
          simp only [Option.some.injEq] at hs'
          subst hs'
          rw [logSum_entriesOf]
          simp [hne]
        · rfl
      rw [hz, hne]; rfl
    · obtain ⟨u, _, hcu, _, _, hlt, _, hgrow, _⟩ := fx.paid_gate hne
      rw [stepLog_of_some hcu hs, logSum_entriesOf, if_pos ⟨hlt, hne⟩]
      omega

/-- **the log is complete**: `paid w` grew by exactly the sum of the logged amounts for `w` -/
theorem paidLog_sum_from (ops : List Op) : ∀ (s : St) (w : Nat),
    (run s ops).b.paid w = s.b.paid w + logSum (paidLog s ops) w := by
  induction ops with
  | nil => intro s w; simp [run, paidLog, logSum]
  | cons op ops ih =>
    intro s w
    rw [run_cons, ih (next s op) w, stepLog_sum s op w]
    simp only [paidLog, logSum_append]
    omega

/-- every entry of the log of a history was produced by one of its operations, executed in the
    state reached by the operations before it -/
theorem paidLog_entries (ops : List Op) : ∀ (s : St) (e : Entry), e ∈ paidLog s ops →
    ∃ ops1 op ops2, ops = ops1 ++ op :: ops2 ∧ e ∈ stepLog (run s ops1) op := by
  induction ops with
  | nil => intro s e h; cases h
  | cons op ops ih =>
    intro s e h
    simp only [paidLog, List.mem_append] at h
    rcases h with h | h
    · exact ⟨[], op, ops, rfl, h⟩
    · obtain ⟨ops1, op', ops2, rfl, he⟩ := ih _ e h
      exact ⟨op :: ops1, op', ops2, rfl, by rw [run_cons]; exact he⟩

end Mx.Staking
