/-
  Supply ledger of the proxy-dex model, building blocks.

  `RT s`  = all locked tokens reserved by outstanding wrapped tokens (wrapped LP records and wrapped
            farm records entered with locked tokens), all nonces together;
  `FT s`  = all farm tokens reserved by outstanding wrapped farm tokens.
  The locked part that `into_part` assigns to a payment is a function of the IMMUTABLE token
  attributes (`lockedA`, `lockedFA`); this file shows how every building block of the model
  (`takeW`, `takeF`, `takeWs`, `takeFs`, `newW`, `newF`) moves `RT`, `FT`, the attribute tables and
  the mint / burn counters.
-/
import MxModel.Lemmas.ProxyDexLp
import MxModel.Core.ProxyDexCheck

namespace Mx.ProxyDex

/-! ### totals -/

/-- locked tokens reserved by a wrapped farm record (only records entered with locked tokens) -/
def lkF (q : WFarm) : Nat := if q.kind = .locked then q.remP else 0

/-- all locked tokens reserved by outstanding wrapped tokens (every nonce) -/
def RT (s : St) : Nat := sumOf (·.rem) s.wl + sumOf lkF s.wf

/-- all farm tokens reserved by outstanding wrapped farm tokens -/
def FT (s : St) : Nat := sumOf (·.remF) s.wf

/-- the mint / burn counters are untouched -/
def Scal (s s' : St) : Prop := s'.minted = s.minted ∧ s'.burnB = s.burnB ∧ s'.burnL = s.burnL

theorem Scal.refl (s : St) : Scal s s := ⟨rfl, rfl, rfl⟩
theorem Scal.trans {a b c : St} (h1 : Scal a b) (h2 : Scal b c) : Scal a c :=
  ⟨h2.1.trans h1.1, h2.2.1.trans h1.2.1, h2.2.2.trans h1.2.2⟩

/-! ### immutable attributes -/

/-- the attribute tables are the same (no token created, none altered) -/
def SameAttr (s s' : St) : Prop := s'.aw = s.aw ∧ s'.af = s.af

theorem SameAttr.refl (s : St) : SameAttr s s := ⟨rfl, rfl⟩
theorem SameAttr.trans {a b c : St} (h1 : SameAttr a b) (h2 : SameAttr b c) : SameAttr a c :=
  ⟨h2.1.trans h1.1, h2.2.trans h1.2⟩

theorem lockedWs_eq (s : St) (l : List (Nat × Nat)) :
    lockedWs s l = sumOf (fun wx => lockedA s.aw wx.1 wx.2) l := rfl

theorem lockedFs_eq (s : St) (l : List (Nat × Nat)) :
    lockedFs s l = sumOf (fun fx => lockedFA s.aw s.af fx.1 fx.2) l := rfl

theorem paySum_eq (l : List (Nat × Nat)) : paySum l = sumX l := rfl

theorem lockedWs_congr {s s' : St} (h : SameAttr s s') (l : List (Nat × Nat)) :
    lockedWs s' l = lockedWs s l := by
  unfold lockedWs; rw [h.1]

theorem lockedFs_congr {s s' : St} (h : SameAttr s s') (l : List (Nat × Nat)) :
    lockedFs s' l = lockedFs s l := by
  unfold lockedFs; rw [h.1, h.2]

theorem map_set_same {α β : Type} (f : α → β) (l : List α) (i : Nat) (a b : α)
    (h : l[i]? = some a) (hf : f b = f a) : (l.set i b).map f = l.map f := by
  induction l generalizing i with
  | nil => simp at h
  | cons c l ih =>
    cases i with
    | zero =>
      simp only [List.getElem?_cons_zero, Option.some.injEq] at h
      subst h; simp [hf]
    | succ i =>
      simp only [List.getElem?_cons_succ] at h
      simp [ih i h]

theorem aw_get {s : St} {w : Nat} {r : WLp} (h : s.wl[w]? = some r) : s.aw[w]? = some (attrW r) := by
  simp [St.aw, List.getElem?_map, h]

theorem af_get {s : St} {f : Nat} {q : WFarm} (h : s.wf[f]? = some q) : s.af[f]? = some (attrF q) := by
  simp [St.af, List.getElem?_map, h]

theorem lockedA_of {s : St} {w x p : Nat} {r : WLp} (h : s.wl[w]? = some r)
    (hp : part r.locked r.total x = some p) : lockedA s.aw w x = p := by
  unfold lockedA; rw [aw_get h]; simp [attrW, hp]

/-- `part fa fa x = x`: a record that reserves as much as it is worth is redeemed one for one -/
theorem part_self {fa x p : Nat} (h : part fa fa x = some p) : p = x := by
  obtain ⟨h0, hp⟩ := part_eq_some.mp h
  split at hp
  · omega
  · by_cases hf : fa = 0
    · subst hf; simp at hp; exact absurd hp h0
    · rw [hp]; exact Nat.mul_div_cancel_left _ (Nat.pos_of_ne_zero hf)

/-! ### takeW -/

theorem takeW_net {s s' : St} {w x p : Nat} {r : WLp} {o : Bool}
    (h : takeW s w x o = some (s', r, p)) :
    RT s' + p = RT s ∧ FT s' = FT s ∧ p = lockedA s.aw w x ∧ SameAttr s s' ∧ Scal s s' := by
  obtain ⟨hr, hx, hc, hp, hrem, hlk, rfl⟩ := takeW_spec h
  refine ⟨?_, rfl, (lockedA_of hr hp).symm, ⟨?_, rfl⟩, Scal.refl _⟩
  · have := sumOf_set (·.rem) s.wl w r (⟨r.total, r.k, r.locked, r.circ - x, r.held,
      if o then r.orph + x else r.orph, r.rem - p⟩ : WLp) hr
    simp only [RT, setW] at *; omega
  · exact map_set_same attrW s.wl w r _ hr rfl

theorem takeWs_net {s s' : St} {l : List (Nat × Nat)} {sx : Nat} (h : takeWs s l = some (s', sx)) :
    RT s' + lockedWs s l = RT s ∧ FT s' = FT s ∧ SameAttr s s' ∧ Scal s s' := by
  induction l generalizing s sx with
  | nil =>
    simp only [takeWs, Option.some.injEq, Prod.mk.injEq] at h
    obtain ⟨rfl, rfl⟩ := h
    exact ⟨by simp [lockedWs_eq], rfl, SameAttr.refl _, Scal.refl _⟩
  | cons a l ih =>
    obtain ⟨w, x⟩ := a
    simp only [takeWs, Option.bind_eq_bind, Option.bind_eq_some_iff, Option.pure_def,
      Option.some.injEq, Prod.mk.injEq] at h
    obtain ⟨⟨s1, r, p⟩, h1, ⟨s2, t2⟩, h2, rfl, rfl⟩ := h
    obtain ⟨hR, hF, hp, hA, hS⟩ := takeW_net h1
    obtain ⟨hR2, hF2, hA2, hS2⟩ := ih h2
    have e := lockedWs_congr hA l
    refine ⟨?_, hF2.trans hF, hA.trans hA2, hS.trans hS2⟩
    dsimp only at *
    simp only [lockedWs_eq, sumOf_cons] at *
    omega

/-! ### takeF -/

theorem takeF0_net {s s1 : St} {f x p : Nat} {r : WFarm} (h : takeF0 s f x = some (s1, r, p)) :
    RT s1 + (if r.kind = .locked then p else 0) = RT s ∧ FT s1 + x = FT s ∧ SameAttr s s1 ∧
    Scal s s1 := by
  obtain ⟨hr, hx, hc, hp, hrf, hrp, hh, rfl⟩ := takeF0_spec h
  refine ⟨?_, ?_, ⟨rfl, ?_⟩, Scal.refl _⟩
  · have := sumOf_set lkF s.wf f r
      { r with circ := r.circ - x, remF := r.remF - x, remP := r.remP - p } hr
    simp only [RT, setF]
    by_cases hk : r.kind = .locked
    · simp only [lkF, hk, if_true] at this ⊢; omega
    · simp only [lkF, hk, if_false] at this ⊢; omega
  · have := sumOf_set (·.remF) s.wf f r
      { r with circ := r.circ - x, remF := r.remF - x, remP := r.remP - p } hr
    simp only [FT, setF] at *; omega
  · exact map_set_same attrF s.wf f r _ hr rfl

/-- redeeming (part of) a wrapped farm token and taking its proxy-farming part apart or handing it
    out: the reserves shrink by exactly the locked tokens `t.q` that leave them -/
theorem takeF_net {s s' : St} {f x : Nat} {mode : Mode} {t : Taken} (hm : mode ≠ .keep)
    (h : takeF s f x mode = some (s', t)) :
    RT s' + t.q = RT s ∧ FT s' + x = FT s ∧ SameAttr s s' ∧ Scal s s' ∧
    s.wf[f]? = some t.r ∧ part t.r.pa t.r.fa x = some t.p ∧ (t.r.kind = .locked → t.q = t.p) ∧
    (∀ o, mode = .dissolve o → t.q = lockedFA s.aw s.af f x) ∧
    (mode = .out → t.r.kind = .wlp → t.q = 0) := by
  simp only [takeF, Option.bind_eq_bind, Option.bind_eq_some_iff, Option.pure_def,
    Option.some.injEq, Prod.mk.injEq] at h
  obtain ⟨⟨s1, r, p⟩, h0, ⟨s2, k, q⟩, hs, rfl, rfl⟩ := h
  dsimp only at hs
  obtain ⟨hR, hF, hA, hS⟩ := takeF0_net h0
  obtain ⟨hr, _, _, hp, _, _, _, _⟩ := takeF0_spec h0
  have hfa : lockedFA s.aw s.af f x =
      (match r.kind with | .locked => p | .wlp => lockedA s.aw r.pn p) := by
    unfold lockedFA; rw [af_get hr]; simp only [attrF, hp]; cases r.kind <;> rfl
  cases hk : r.kind with
  | locked =>
    obtain ⟨_, _, rfl, rfl⟩ := settle_locked hm hk hs
    rw [hk] at hfa
    rw [if_pos hk] at hR
    exact ⟨hR, hF, hA, hS, hr, hp, fun _ => rfl, fun _ _ => hfa.symm,
      fun _ h' => by cases h'⟩
  | wlp =>
    rw [hk] at hfa
    have hk' : ¬ r.kind = .locked := by rw [hk]; simp
    rw [if_neg hk'] at hR
    cases mode with
    | keep => exact absurd rfl hm
    | out =>
      obtain ⟨rw, hrw, _, _, rfl, rfl⟩ := settle_wlp_out hk hs
      refine ⟨?_, hF, ⟨?_, hA.2⟩, hS, hr, hp, (fun h' => by cases h'), (fun o h' => by cases h'),
        (fun _ _ => rfl)⟩
      · have := sumOf_set (·.rem) s1.wl r.pn rw { rw with held := rw.held - p, circ := rw.circ + p } hrw
        simp only [RT, setW] at *; omega
      · rw [← hA.1]; exact map_set_same attrW s1.wl r.pn rw _ hrw rfl
    | dissolve o =>
      obtain ⟨rw, hrw, _, hq, hrem, _, _, rfl⟩ := settle_wlp_dissolve hk hs
      have hq' : lockedA s.aw r.pn p = q := by rw [← hA.1]; exact lockedA_of hrw hq
      refine ⟨?_, hF, ⟨?_, hA.2⟩, hS, hr, hp, (fun h' => by cases h'),
        (fun _ _ => hfa.trans hq' ▸ rfl), (fun h' => by cases h')⟩
      · have := sumOf_set (·.rem) s1.wl r.pn rw (⟨rw.total, rw.k, rw.locked, rw.circ, rw.held - p,
          if o then rw.orph + p else rw.orph, rw.rem - q⟩ : WLp) hrw
        simp only [RT, setW] at *; omega
      · rw [← hA.1]; exact map_set_same attrW s1.wl r.pn rw _ hrw rfl

/-- `claimRewardsProxy` keeps the proxy-farming part in place -/
theorem takeF_keep_net {s s' : St} {f x : Nat} {t : Taken} (h : takeF s f x .keep = some (s', t)) :
    RT s' + (if t.r.kind = .locked then t.p else 0) = RT s ∧ FT s' + x = FT s ∧ SameAttr s s' ∧
    Scal s s' ∧ s.wf[f]? = some t.r ∧ part t.r.pa t.r.fa x = some t.p := by
  simp only [takeF, Option.bind_eq_bind, Option.bind_eq_some_iff, Option.pure_def,
    Option.some.injEq, Prod.mk.injEq] at h
  obtain ⟨⟨s1, r, p⟩, h0, ⟨s2, k, q⟩, hs, rfl, rfl⟩ := h
  dsimp only at hs
  obtain ⟨rfl, _, _⟩ := settle_keep hs
  obtain ⟨hR, hF, hA, hS⟩ := takeF0_net h0
  obtain ⟨hr, _, _, hp, _, _, _, _⟩ := takeF0_spec h0
  exact ⟨hR, hF, hA, hS, hr, hp⟩

/-! ### attribute facts every wrapped farm token satisfies when the farms are exact -/

/-- a wrapped farm token entered with locked tokens records as many locked tokens as farm tokens and
    belongs to the base-asset farm; one entered with wrapped LP belongs to an LP farm -/
def KindOK (a : Nat × Nat × Nat × Kind × Nat × Nat) : Prop :=
  match a with
  | (farm, _, fa, kind, _, pa) =>
      (kind = .locked → pa = fa ∧ farmIsBase farm = true) ∧ (kind = .wlp → farmIsBase farm = false)

def KindInv (s : St) : Prop := ∀ a ∈ s.af, KindOK a

theorem KindInv.congr {s s' : St} (h : SameAttr s s') (hk : KindInv s) : KindInv s' := by
  unfold KindInv; rw [h.2]; exact hk

theorem KindInv.of_af {s s' : St} (h : s'.af = s.af) (hk : KindInv s) : KindInv s' := by
  unfold KindInv; rw [h]; exact hk

/-- replacing a wrapped LP record by one with the same attributes and the same reserve -/
theorem setW_net {s : St} {w : Nat} {r : WLp} (r' : WLp) (h : s.wl[w]? = some r)
    (ha : attrW r' = attrW r) (hrem : r'.rem = r.rem) :
    RT (setW s w r') = RT s ∧ FT (setW s w r') = FT s ∧ SameAttr s (setW s w r') ∧
    Scal s (setW s w r') := by
  refine ⟨?_, rfl, ⟨map_set_same attrW s.wl w r r' h ha, rfl⟩, Scal.refl _⟩
  have := sumOf_set (·.rem) s.wl w r r' h
  simp only [RT, setW] at *; omega

theorem KindInv.of_get {s : St} {f : Nat} {q : WFarm} (hk : KindInv s) (h : s.wf[f]? = some q) :
    (q.kind = .locked → q.pa = q.fa ∧ farmIsBase q.farm = true) ∧
    (q.kind = .wlp → farmIsBase q.farm = false) :=
  hk (attrF q) (List.mem_of_getElem? (af_get h))

theorem takeFs_net {s s' : St} {farm : Nat} {kind : Kind} {l : List (Nat × Nat)} {sp : Nat}
    (h : takeFs s farm kind l = some (s', sp)) :
    RT s' + lockedFs s l = RT s ∧ FT s' + sumX l = FT s ∧ SameAttr s s' ∧ Scal s s' ∧
    (KindInv s → kind = .locked → sp = sumX l ∧ lockedFs s l = sumX l) := by
  induction l generalizing s sp with
  | nil =>
    simp only [takeFs, Option.some.injEq, Prod.mk.injEq] at h
    obtain ⟨rfl, rfl⟩ := h
    exact ⟨by simp [lockedFs_eq], by simp [sumX], SameAttr.refl _, Scal.refl _,
      fun _ _ => by simp [sumX, lockedFs_eq]⟩
  | cons a l ih =>
    obtain ⟨f, x⟩ := a
    simp only [takeFs, Option.bind_eq_bind, Option.bind_eq_some_iff, Option.pure_def,
      Option.some.injEq, Prod.mk.injEq, req_eq_some] at h
    obtain ⟨⟨s1, tk⟩, h1, _, ⟨_, hkind⟩, ⟨s2, t2⟩, h2, rfl, rfl⟩ := h
    obtain ⟨hR, hF, hA, hS, hr, hp, hql, hqd, _⟩ := takeF_net (by simp) h1
    obtain ⟨hR2, hF2, hA2, hS2, hk2⟩ := ih h2
    have e := lockedFs_congr hA l
    have hq := hqd true rfl
    dsimp only at *
    refine ⟨?_, ?_, hA.trans hA2, hS.trans hS2, ?_⟩
    · simp only [lockedFs_eq, sumOf_cons] at *; omega
    · simp only [sumX, sumOf_cons] at *; omega
    · intro hki hkl
      obtain ⟨e1, e2⟩ := hk2 (hki.congr hA) hkl
      have hkl' : tk.r.kind = .locked := hkind.trans hkl
      have hpa := ((hki.of_get hr).1 hkl').1
      rw [hpa] at hp
      have hpx := part_self hp
      have hqp := hql hkl'
      simp only [lockedFs_eq, sumX, sumOf_cons] at *
      omega

/-! ### creating tokens -/

theorem newW_net (s : St) (total k locked : Nat) (u : Bool) :
    let s' := (newW s total k locked u).1
    RT s' = RT s + locked ∧ FT s' = FT s ∧ s'.aw = s.aw ++ [(total, k, locked)] ∧ s'.af = s.af ∧
    Scal s s' := by
  refine ⟨?_, rfl, ?_, rfl, Scal.refl _⟩
  · simp [newW, RT]; omega
  · simp [newW, St.aw, attrW]

theorem newF_net (s : St) (farm fn fa : Nat) (kind : Kind) (pn pa : Nat) :
    let s' := (newF s farm fn fa kind pn pa).1
    RT s' = RT s + (if kind = .locked then pa else 0) ∧ FT s' = FT s + fa ∧ s'.aw = s.aw ∧
    s'.af = s.af ++ [(farm, fn, fa, kind, pn, pa)] ∧ Scal s s' := by
  refine ⟨?_, ?_, rfl, ?_, Scal.refl _⟩
  · simp [newF, RT, lkF]; omega
  · simp [newF, FT]
  · simp [newF, St.af, attrF]

theorem KindInv.newF {s : St} (hk : KindInv s) (farm fn fa : Nat) (kind : Kind) (pn pa : Nat)
    (h : KindOK (farm, fn, fa, kind, pn, pa)) : KindInv (newF s farm fn fa kind pn pa).1 := by
  intro a ha
  rw [(newF_net s farm fn fa kind pn pa).2.2.2.1] at ha
  simp only [List.mem_append, List.mem_singleton] at ha
  rcases ha with ha | rfl
  · exact hk a ha
  · exact h

theorem addStray_net (s : St) (l : List LkTok) :
    RT (addStray s l) = RT s ∧ FT (addStray s l) = FT s ∧ SameAttr s (addStray s l) ∧
    Scal s (addStray s l) := by
  induction l generalizing s with
  | nil => exact ⟨rfl, rfl, SameAttr.refl _, Scal.refl _⟩
  | cons t ts ih =>
    obtain ⟨h1, h2, h3, h4⟩ := ih { learn s t with lk := s.lk.add t.k t.amt }
    exact ⟨h1, h2, h3, h4⟩

theorem learnOpt_net (s : St) (t : Option LkTok) :
    RT (learnOpt s t) = RT s ∧ FT (learnOpt s t) = FT s ∧ SameAttr s (learnOpt s t) ∧
    Scal s (learnOpt s t) := by
  cases t <;> exact ⟨rfl, rfl, SameAttr.refl _, Scal.refl _⟩

end Mx.ProxyDex
