/-
  C13 helpers, part 2: the ghost log of start-of-round reserves, the ring invariant, and its
  preservation by the observation update (`SP.update`, i.e. `update_safe_price`).
-/
import MxModel.Lemmas.SafePriceSum
import MxModel.Lemmas.PairInv

namespace Mx.SafePrice
open Mx Mx.Pair

/-! ### ghost state: the reserves in effect at the start of every round -/

/-- reserves and LP supply -/
structure Res where
  r1 : Nat
  r2 : Nat
  S : Nat
  deriving DecidableEq, Repr

/-- `log k` = reserves and LP supply in effect when round `k` started -/
abbrev Log := Nat → Res

/-- a pair state together with the log of start-of-round reserves of its history -/
structure G where
  s : St
  log : Log

/-- one transaction on the ghost state: when the clock moves from round `a` to round `b`
    every round in `(a, b]` starts with the reserves of that moment; nothing else touches the log -/
def gstep (g : G) (op : Op) : G :=
  match step g.s op with
  | some (s', _) =>
      ⟨s', fun k => if g.s.round < k ∧ k ≤ s'.round then ⟨g.s.r1, g.s.r2, g.s.S⟩ else g.log k⟩
  | none => g

def grun (g : G) (ops : List Op) : G := ops.foldl gstep g

def ginit (total special : Nat) (adder : Option Nat) (cap : Nat) : G :=
  ⟨init total special adder cap, fun _ => ⟨0, 0, 0⟩⟩

theorem grun_s (g : G) (ops : List Op) : (grun g ops).s = run g.s ops := by
  induction ops generalizing g with
  | nil => rfl
  | cons op ops ih =>
    simp only [grun, run, List.foldl_cons] at *
    rw [ih]
    congr 1
    unfold gstep
    cases h : step g.s op with
    | none => rfl
    | some r => rfl

/-! ### the ring in logical order -/

/-- `b` was recorded right after `a`: the weight is the round distance, and every round in
    between started with the same (positive) reserves, which `b` accumulated -/
def Link (log : Log) (a b : Obs) : Prop :=
  a.round < b.round ∧ b.w = a.w + (b.round - a.round) ∧
  ∀ k, a.round < k → k ≤ b.round →
    0 < (log k).r1 ∧ 0 < (log k).r2 ∧ 0 < (log k).S ∧
    b.acc1 = a.acc1 + (b.round - a.round) * (log k).r1 ∧
    b.acc2 = a.acc2 + (b.round - a.round) * (log k).r2 ∧
    b.accS = a.accS + (b.round - a.round) * (log k).S

def Linked (log : Log) : List Obs → Prop
  | [] => True
  | [_] => True
  | a :: b :: t => Link log a b ∧ Linked log (b :: t)

/-- the retained observations, oldest first: physical positions `cur+1 … len`, then `1 … cur` -/
def logical (p : SP) : List Obs := p.obs.drop p.cur ++ p.obs.take p.cur

/-- shapes `update_safe_price` can produce -/
structure Shape (p : SP) : Prop where
  capPos : 1 ≤ p.cap
  lenLe : p.obs.length ≤ p.cap
  curLe : p.cur ≤ p.obs.length
  curPos : p.obs ≠ [] → 1 ≤ p.cur
  notFull : p.obs.length < p.cap → p.cur = p.obs.length

/-- what holds of the observation buffer after every history -/
structure RingInv (g : G) : Prop where
  pair : Pair.Inv g.s
  shape : Shape g.s.sp
  linked : Linked g.log (logical g.s.sp)
  roundBnd : ∀ o ∈ g.s.sp.obs, 1 ≤ o.round ∧ o.round ≤ g.s.round
  accPos : ∀ o ∈ g.s.sp.obs, 0 < o.accS
  lastLe : g.s.sp.last.round ≤ g.s.round
  live : g.s.sp.obs ≠ [] → 0 < g.s.r1 ∧ 0 < g.s.r2 ∧ 0 < g.s.S
  current : g.s.sp.obs ≠ [] →
    ∀ k, g.s.sp.last.round < k → k ≤ g.s.round → g.log k = ⟨g.s.r1, g.s.r2, g.s.S⟩

/-! ### list facts -/

theorem rot_set {α} (l : List α) (c : Nat) (n : α) (h : c < l.length) :
    (l.set c n).drop (c + 1) ++ (l.set c n).take (c + 1) = (l.drop c ++ l.take c).tail ++ [n] := by
  rw [List.drop_set_of_lt (by omega), List.take_succ_eq_append_getElem (by simpa using h),
    List.take_set_of_le (Nat.le_refl _), List.getElem_set_self]
  have e := List.drop_eq_getElem_cons h
  rw [e]
  simp only [List.cons_append, List.tail_cons, List.append_assoc]

theorem rot_set0 {α} (l : List α) (n : α) (h : 0 < l.length) :
    (l.set 0 n).drop 1 ++ (l.set 0 n).take 1 = l.tail ++ [n] := by
  cases l with
  | nil => simp at h
  | cons a t => simp

theorem Linked.tail {log : Log} : ∀ {l : List Obs}, Linked log l → Linked log l.tail
  | [], _ => trivial
  | [_], _ => trivial
  | _ :: _ :: _, h => h.2

theorem Linked.snoc {log : Log} (n : Obs) :
    ∀ {l : List Obs}, Linked log l → (∀ a, l.getLast? = some a → Link log a n) →
      Linked log (l ++ [n])
  | [], _, _ => trivial
  | [a], _, h => ⟨h a rfl, trivial⟩
  | a :: b :: t, hl, h => by
    refine ⟨hl.1, ?_⟩
    have := Linked.snoc n (l := b :: t) hl.2 (fun x hx => h x (by simpa using hx))
    simpa using this

theorem Linked.congr {log log' : Log} (bound : Nat) (hlog : ∀ k, k ≤ bound → log' k = log k) :
    ∀ {l : List Obs}, (∀ o ∈ l, o.round ≤ bound) → Linked log l → Linked log' l
  | [], _, _ => trivial
  | [_], _, _ => trivial
  | a :: b :: t, hb, h => by
    refine ⟨?_, Linked.congr bound hlog (fun o ho => hb o (List.mem_cons_of_mem _ ho)) h.2⟩
    obtain ⟨h1, h2, h3⟩ := h.1
    refine ⟨h1, h2, fun k hk1 hk2 => ?_⟩
    have hbb : b.round ≤ bound := hb b (by simp)
    rw [hlog k (by omega)]
    exact h3 k hk1 hk2

/-! ### the newest observation -/

theorem last_eq {p : SP} (hs : Shape p) (hne : p.obs ≠ []) :
    ∃ h : p.cur - 1 < p.obs.length, p.last = p.obs[p.cur - 1] := by
  have h1 := hs.curPos hne
  have h2 := hs.curLe
  refine ⟨by omega, ?_⟩
  unfold SP.last
  have : p.obs.isEmpty = false := by
    cases h : p.obs with
    | nil => exact absurd h hne
    | cons a t => rfl
  rw [this]
  simp only [Bool.false_eq_true, if_false, List.getD_eq_getElem?_getD]
  rw [List.getElem?_eq_getElem (by omega)]
  rfl

theorem last_mem {p : SP} (hs : Shape p) (hne : p.obs ≠ []) : p.last ∈ p.obs := by
  obtain ⟨h, e⟩ := last_eq hs hne
  rw [e]
  exact List.getElem_mem h

theorem logical_getLast {p : SP} (hs : Shape p) (hne : p.obs ≠ []) :
    (logical p).getLast? = some p.last := by
  obtain ⟨h, e⟩ := last_eq hs hne
  have h1 := hs.curPos hne
  unfold logical
  rw [List.getLast?_append, List.getLast?_take, if_neg (by omega),
    List.getElem?_eq_getElem h, e]
  simp

theorem last_empty {p : SP} (h : p.obs = []) : p.last = Obs.zero := by
  unfold SP.last
  simp [h]

theorem logical_empty {p : SP} (h : p.obs = []) : logical p = [] := by
  simp [logical, h]

theorem mem_logical {p : SP} {o : Obs} : o ∈ logical p ↔ o ∈ p.obs := by
  unfold logical
  rw [List.mem_append]
  constructor
  · rintro (h | h)
    · exact List.mem_of_mem_drop h
    · exact List.mem_of_mem_take h
  · intro h
    rw [← List.take_append_drop p.cur p.obs, List.mem_append] at h
    exact h.symm

/-! ### `update_safe_price` -/

/-- what `SP.update` does to a well-shaped buffer when all three values are positive -/
theorem update_cases {p : SP} (hs : Shape p) (now r1 r2 S : Nat)
    (hpos : 0 < r1 ∧ 0 < r2 ∧ 0 < S) :
    (p.last.round = now ∧ p.update now r1 r2 S = p) ∨
    (p.last.round ≠ now ∧
      Shape (p.update now r1 r2 S) ∧ (p.update now r1 r2 S).cap = p.cap ∧
      (p.update now r1 r2 S).last = p.last.next now r1 r2 S ∧
      (p.update now r1 r2 S).obs ≠ [] ∧
      logical (p.update now r1 r2 S) =
        (if p.obs.length = p.cap then (logical p).tail else logical p) ++
          [p.last.next now r1 r2 S] ∧
      (∀ o ∈ (p.update now r1 r2 S).obs, o ∈ p.obs ∨ o = p.last.next now r1 r2 S)) := by
  obtain ⟨capPos, lenLe, curLe, curPos, notFull⟩ := hs
  unfold SP.update
  rw [if_neg (by omega)]
  by_cases hr : p.last.round = now
  · left
    simp only [hr, if_true, and_self]
  · right
    refine ⟨hr, ?_⟩
    simp only [hr, if_false]
    generalize p.last.next now r1 r2 S = n
    by_cases hfull : p.obs.length = p.cap
    · -- full ring: overwrite the oldest slot
      simp only [hfull, if_true]
      have hne : p.obs ≠ [] := by
        intro h; rw [h] at hfull; simp at hfull; omega
      have hemp : p.obs.isEmpty = false := by
        cases h : p.obs with
        | nil => exact absurd h hne
        | cons a t => rfl
      have hc1 := curPos hne
      simp only [hemp, Bool.false_eq_true, if_false, Nat.add_sub_cancel]
      by_cases hc : p.cur < p.cap
      · have hm : p.cur % p.cap = p.cur := Nat.mod_eq_of_lt hc
        rw [hm]
        refine ⟨⟨capPos, by simp [hfull], by simp; omega, fun _ => by simp, fun h => ?_⟩, trivial, ?_, ?_,
          ?_, ?_⟩
        · simp at h; omega
        · unfold SP.last
          simp only [List.isEmpty_iff, List.set_eq_nil_iff, hne, if_false, Nat.add_sub_cancel,
            List.getD_eq_getElem?_getD]
          rw [List.getElem?_set_self (by omega)]
          rfl
        · simpa using hne
        · unfold logical
          simp only []
          exact rot_set p.obs p.cur n (by omega)
        · intro o ho
          rcases List.mem_or_eq_of_mem_set ho with h | h
          · exact Or.inl h
          · exact Or.inr h
      · have hce : p.cur = p.cap := by omega
        have hm : p.cur % p.cap = 0 := by rw [hce]; exact Nat.mod_self _
        rw [hm]
        refine ⟨⟨capPos, by simp [hfull], by simp; omega, fun _ => by simp, fun h => ?_⟩, trivial, ?_, ?_,
          ?_, ?_⟩
        · simp at h; omega
        · unfold SP.last
          simp only [List.isEmpty_iff, List.set_eq_nil_iff, hne, if_false, Nat.zero_add,
            Nat.sub_self, List.getD_eq_getElem?_getD]
          rw [List.getElem?_set_self (by omega)]
          rfl
        · simpa using hne
        · unfold logical
          simp only [Nat.zero_add]
          rw [rot_set0 p.obs n (by omega), hce, ← hfull]
          simp
        · intro o ho
          rcases List.mem_or_eq_of_mem_set ho with h | h
          · exact Or.inl h
          · exact Or.inr h
    · -- room left: push
      simp only [hfull, if_false]
      have hlt : p.obs.length < p.cap := by omega
      have hcur := notFull hlt
      have hidx : (if p.obs.isEmpty = true then 1 else p.cur % p.cap + 1) = p.obs.length + 1 := by
        cases h : p.obs with
        | nil => simp
        | cons a t =>
          simp only [List.isEmpty_cons, Bool.false_eq_true, if_false]
          rw [hcur, Nat.mod_eq_of_lt hlt, h]
      rw [hidx]
      refine ⟨⟨capPos, by simp; omega, by simp, fun _ => by simp, fun _ => by simp⟩, trivial, ?_, ?_,
        ?_, ?_⟩
      · unfold SP.last
        simp only [List.isEmpty_iff, List.append_eq_nil_iff, List.cons_ne_self, and_false, if_false,
          Nat.add_sub_cancel, List.getD_eq_getElem?_getD]
        rw [List.getElem?_append_right (Nat.le_refl _)]
        simp
      · simp
      · unfold logical
        simp only [hcur]
        simp
      · intro o ho
        simp only [List.mem_append, List.mem_singleton] at ho
        exact ho

end Mx.SafePrice
