/-
  Farm (dex/farm, farm-with-locked-rewards): the AMOUNT of every boosted payment is the formula of
  property C11, at the level of the claim loop, of `claimBoostedYields`, of every endpoint and of
  every operation (`step_amt`).  The farm analogue of `Fees.claimLoop_amounts` / `Fees.stepLog_amount`.

      paidW' w = paidW w + duePay s u w R_w            for EVERY week w, every successful operation
                                                       whose boosted claim runs for user u

  where `duePay` is 0 outside `current − 4 ≤ w < current` and before `u`'s stored progress week, and
  inside it is `payOf`: 0 when the week's total energy or recorded farm supply is 0 or the user is
  below the week's minimum energy / minimum position, else
  `boostedAmount fa R f F e E = min ⌊maxF·R·f/F⌋ ⌊(⌊R·cE·e/E⌋ + ⌊R·cF·f/F⌋)/(cE+cF)⌋` on
    R  = the week's frozen pool (`totalRewardsForWeek(w)` after the operation),
    f  = the user's total farm position BEFORE the operation,
    F  = `farmSupplyForWeek(w)`, E = `totalEnergyForWeek(w)`,
    e  = the user's recorded (progress) energy decayed to week `w`,
    fa = the factors in force for week `w` (the stored 5-slot ring shifted to the current week).
  No state invariant is needed.
-/
import MxModel.Lemmas.FarmLogRun
import MxModel.Lemmas.WeeklyClose
import MxModel.Lemmas.FarmPool

namespace Mx.Farm

open Mx.Weekly (upd Energy ClaimProgress)

/-! ### the formula with its zero conditions -/

/-- what `get_user_rewards_for_week` pays for a week with frozen pool `R`: nothing without total
    energy or recorded farm supply, nothing below the week's minima, else `boostedAmount` -/
def payOf (fa? : Option Factors) (R f F e E : Nat) : Nat :=
  if E = 0 ∨ F = 0 then 0
  else match fa? with
    | none => 0
    | some fa => if e < fa.minE ∨ f < fa.minF then 0 else boostedAmount fa R f F e E

theorem boostedAmount_zero (fa : Factors) (f F e E : Nat) : boostedAmount fa 0 f F e E = 0 := by
  simp [boostedAmount]

theorem payOf_none (R f F e E : Nat) : payOf none R f F e E = 0 := by
  unfold payOf; split <;> rfl

/-- a positive `payOf` is the formula, above the minima, with non-zero denominators -/
theorem payOf_pos {fa? : Option Factors} {R f F e E : Nat} (h : payOf fa? R f F e E ≠ 0) :
    ∃ fa, fa? = some fa ∧ E ≠ 0 ∧ F ≠ 0 ∧ fa.minE ≤ e ∧ fa.minF ≤ f ∧
      payOf fa? R f F e E = boostedAmount fa R f F e E := by
  unfold payOf at h ⊢
  split at h
  · exact absurd rfl h
  · rename_i h0
    rw [if_neg h0]
    cases fa? with
    | none => exact absurd rfl h
    | some fa =>
      simp only at h ⊢
      split at h
      · exact absurd rfl h
      · rename_i h1
        rw [if_neg h1]
        exact ⟨fa, rfl, fun hh => h0 (Or.inl hh), fun hh => h0 (Or.inr hh),
          Nat.le_of_not_lt fun hh => h1 (Or.inl hh), Nat.le_of_not_lt fun hh => h1 (Or.inr hh), rfl⟩

/-! ### one week -/

/-- **one `get_user_rewards_for_week` call**: the paid ghost of the week grows by exactly `payOf`
    on the week's frozen pool as it is after the call -/
theorem boostedRewards_amount {mem : BCfg} {f : Nat} {g g' : Weekly.St} {c c' : BSt} {week e E : Nat}
    {r : List (Weekly.Tok × Nat)} (h : boostedRewards mem f g c week e E = some (g', c', r)) :
    c'.paidW week = c.paidW week +
      payOf (mem.factorsForWeek week) (rOf (g'.totalRewards week)) f (c.farmSupplyWeek week) e E := by
  unfold boostedRewards at h
  simp only at h
  unfold payOf
  split at h
  · rename_i h0
    simp only [Option.some.injEq, Prod.mk.injEq] at h
    obtain ⟨rfl, rfl, rfl⟩ := h
    rw [if_pos h0]; rfl
  · rename_i h0
    rw [if_neg h0]
    simp only [Option.bind_eq_bind, Option.bind_eq_some_iff] at h
    obtain ⟨fa, hfa, h⟩ := h
    rw [hfa]
    simp only
    split at h
    · rename_i h1
      simp only [Option.pure_def, Option.some.injEq, Prod.mk.injEq] at h
      obtain ⟨rfl, rfl, rfl⟩ := h
      rw [if_pos h1]; rfl
    · rename_i h1
      rw [if_neg h1]
      generalize hcg : Weekly.collectAndGet (collectBoosted mem) g c week = x at h
      obtain ⟨g1, c1, l⟩ := x
      simp only at h
      obtain ⟨hcase, _, hpw, _, _, _, _⟩ := collectAndGet_boosted hcg
      have hl : g1.totalRewards week = l := by
        rcases hcase with ⟨_, hl, ht, _⟩ | ⟨_, rfl, _, hl⟩
        · rw [ht, hl]
        · exact hl.symm
      have hp1 : c1.paidW week = c.paidW week := by rw [hpw]
      split at h
      · simp only [Option.pure_def, Option.some.injEq, Prod.mk.injEq] at h
        obtain ⟨rfl, rfl, rfl⟩ := h
        rw [hl, hp1, rOf_nil, boostedAmount_zero]; rfl
      · split at h
        · rename_i hR
          simp only [Option.pure_def, Option.some.injEq, Prod.mk.injEq] at h
          obtain ⟨rfl, rfl, rfl⟩ := h
          rw [hl, hp1, rOf_single, hR, boostedAmount_zero]; rfl
        · simp only [Option.bind_eq_some_iff, req_eq_some] at h
          obtain ⟨_, _, h⟩ := h
          split at h
          · rename_i hu
            simp only [Option.pure_def, Option.some.injEq, Prod.mk.injEq] at h
            obtain ⟨rfl, rfl, rfl⟩ := h
            rw [hl, hp1, rOf_single, hu]; rfl
          · simp only [Option.bind_eq_some_iff, sub?_eq_some, Option.pure_def,
              Option.some.injEq, Prod.mk.injEq] at h
            obtain ⟨rem, ⟨_, rfl⟩, rfl, rfl, rfl⟩ := h
            simp only [Weekly.upd_same]
            rw [hl, hp1, rOf_single]
      · simp at h

/-! ### the claim loop -/

/-- **the loop books, for every week `w` it walks, exactly `payOf`** on the week's frozen pool
    (after the loop), the position `f` the loop was called with, the recorded farm supply and
    total energy of `w`, and the energy the loop's start entry has in week `w` -/
theorem claimLoop_amounts {mem : BCfg} {f : Nat} : ∀ (n : Nat) {a a' : Weekly.ClaimAcc BSt},
    Weekly.claimLoop (boostedRewards mem f) n a = some a' →
    ∀ w, a.p.week ≤ w → w < a.p.week + n →
      a'.c.paidW w = a.c.paidW w +
        payOf (mem.factorsForWeek w) (rOf (a'.g.totalRewards w)) f (a.c.farmSupplyWeek w)
          (entryE a.p w) (a.g.totalEnergy w) := by
  intro n
  induction n with
  | zero => intro a a' _ w h1 h2; omega
  | succ n ih =>
    intro a a' h w hlo hhi
    simp only [Weekly.claimLoop, Option.bind_eq_some_iff] at h
    obtain ⟨a1, h1, h2⟩ := h
    obtain ⟨r, hr, hp, _⟩ := Weekly.claimSingle_spec h1
    have e1 := boostedRewards_eff hr
    have hw1 : a1.p.week = a.p.week + 1 := by rw [hp]; rfl
    by_cases hw : w = a.p.week
    · subst hw
      obtain ⟨hT, _, _, hP⟩ := (claimLoop_pool _ h2).outside a.p.week (Or.inl (by omega))
      rw [hP, hT, entryE_self]
      exact boostedRewards_amount hr
    · have := ih h2 w (by omega) (by omega)
      rw [this, e1.fsw, e1.frame.totalEnergy, (e1.other w hw).2.2.2]
      have he : entryE a1.p w = entryE a.p w := by
        rw [hp, entryE_advanceWeek]; simp [show a.p.week + 1 ≤ w by omega]
      rw [he]

/-- the loop's start entry carries, for the weeks it walks, the stored entry's energy -/
theorem entryE_loopStart_eq (p : ClaimProgress) (W w : Nat) (h : (Weekly.loopStart p W).week ≤ w) :
    entryE (Weekly.loopStart p W) w = entryE p w := by
  unfold Weekly.loopStart at h ⊢
  split
  · rename_i hb
    simp only [hb, if_true, ClaimProgress.advanceMultipleWeeks_eq] at h
    rw [ClaimProgress.advanceMultipleWeeks_eq]
    unfold entryE
    simp only
    have h' : p.week ≤ w := by omega
    simp only [h, h', if_true, Energy.after_after]
    congr 2; omega
  · rfl

/-! ### the boosted claim -/

/-- the factors in force for week `w` as `get_user_rewards_for_week` sees them: the stored
    5-slot ring shifted (in memory) to the current week, then `get_factors_for_week(w)` -/
def factorsInForce (s : St) (w : Nat) : Option Factors :=
  match s.b.cfg, s.week with
  | some cfg, some W => (cfg.update W none).bind fun mem => mem.factorsForWeek w
  | _, _ => none

/-- **what user `u` is due for week `w` in state `s`** when the week's frozen pool is `R`:
    nothing outside `current − 4 ≤ w < current`, nothing without a stored progress entry or before
    its week, else `payOf` on `u`'s total farm position, the recorded farm supply and total energy
    of the week and `u`'s recorded energy decayed to `w` -/
def duePay (s : St) (u w R : Nat) : Nat :=
  match s.week, s.w.progress u with
  | some W, some p =>
    if p.week ≤ w ∧ w < W ∧ W ≤ w + 4 then
      payOf (factorsInForce s w) R (s.userTotal u) (s.b.farmSupplyWeek w) (entryE p w)
        (s.w.totalEnergy w)
    else 0
  | _, _ => 0

theorem duePay_of_pmv {s0 s : St} (e : pmv s0 = pmv s) : duePay s0 = duePay s := by
  have h1 : s0.w.progress = s.w.progress := congrArg PMV.progress e
  have h2 : s0.userTotal = s.userTotal := congrArg PMV.total e
  have h3 : s0.b.cfg = s.b.cfg := congrArg PMV.cfg e
  have h4 : s0.w.totalEnergy = s.w.totalEnergy := congrArg PMV.TE e
  have h5 : s0.b.farmSupplyWeek = s.b.farmSupplyWeek := congrArg PMV.fsw e
  have h6 : s0.epoch = s.epoch := congrArg PMV.epoch e
  have h7 : s0.firstWeekStart = s.firstWeekStart := congrArg PMV.fws e
  funext u w R
  unfold duePay factorsInForce St.week
  rw [h1, h2, h3, h4, h5, h6, h7]

/-- outside the window (or without progress) the frozen pool is irrelevant -/
theorem duePay_congr {s : St} {u w R R' : Nat}
    (h : ∀ W, s.week = some W → W ≤ w + 4 → R = R') : duePay s u w R = duePay s u w R' := by
  unfold duePay
  split
  · rename_i W p hW _
    split
    · rename_i hc
      rw [h W hW hc.2.2]
    · rfl
  · rfl

/-- **the boosted claim books exactly what is due**, for every week -/
theorem claimBoostedYields_amounts {s s' : St} {u r : Nat}
    (h : claimBoostedYields s u = some (s', r)) (w : Nat) :
    s'.b.paidW w = s.b.paidW w + duePay s u w (rOf (s'.w.totalRewards w)) := by
  have h0 := h
  unfold claimBoostedYields at h
  split at h
  · rename_i hc
    obtain ⟨_, hu⟩ := claimBoostedYields_none_spec hc h0
    obtain ⟨g, rfl⟩ := updateEnergyAndProgress_spec hu
    have : ∀ R, duePay s u w R = 0 := by
      intro R
      unfold duePay
      split
      · split
        · have : factorsInForce s w = none := by unfold factorsInForce; rw [hc]
          rw [this, payOf_none]
        · rfl
      · rfl
    rw [this]; rfl
  · rename_i cfg hc
    simp only [Option.bind_eq_bind, Option.bind_eq_some_iff, Option.pure_def, Option.some.injEq,
      Prod.mk.injEq] at h
    obtain ⟨W, hW, mem, hmem, ⟨g', c', rl⟩, hx, hs', _⟩ := h
    obtain ⟨g1, a, h1, hle, ha, hg', hc', _⟩ := Weekly.claimMulti_spec hx
    subst hs'
    have hfac : factorsInForce s w = mem.factorsForWeek w := by
      unfold factorsInForce; rw [hc, hW]; simp only [hmem, Option.bind_some]
    have hTR : g'.totalRewards w = a.g.totalRewards w := by rw [hg']; rfl
    show c'.paidW w = _ + duePay s u w (rOf (g'.totalRewards w))
    rw [hc', hTR]
    unfold duePay
    rw [hW]
    cases hst : s.w.progress u with
    | none =>
      rw [hst] at ha
      have hlen : Weekly.loopLen (Weekly.startProgress none (Energy.queried (s.energy u) s.epoch) W) W = 0 := by
        simp [Weekly.loopLen, Weekly.startProgress]
      rw [hlen] at ha
      simp only [Weekly.claimLoop, Option.some.injEq] at ha
      subst ha
      rfl
    | some p =>
      rw [hst] at ha hle
      simp only [Weekly.startProgress] at ha hle
      obtain ⟨hw1, hw2, hw3⟩ := Weekly.loop_window p W hle
      have hlen : Weekly.loopLen p W = min (W - p.week) 4 := rfl
      simp only
      by_cases hin : (Weekly.loopStart p W).week ≤ w ∧ w < W
      · have hcond : p.week ≤ w ∧ w < W ∧ W ≤ w + 4 := by omega
        rw [if_pos hcond]
        have := claimLoop_amounts _ ha w hin.1 (by show w < (Weekly.loopStart p W).week + Weekly.loopLen p W; omega)
        simp only at this
        rw [this, hfac, entryE_loopStart_eq p W w hin.1,
          Weekly.updateUser_energy_window h1 w (by omega) (by omega)]
      · have hcond : ¬ (p.week ≤ w ∧ w < W ∧ W ≤ w + 4) := by omega
        rw [if_neg hcond]
        have := ((claimLoop_pool _ ha).outside w (by show w < (Weekly.loopStart p W).week ∨ (Weekly.loopStart p W).week + Weekly.loopLen p W ≤ w; omega)).2.2.2
        simp only at this
        rw [this]; rfl

/-! ### composing an endpoint: view-preserving prefix, the claim, ledger-preserving suffix -/

/-- an operation (or a part of one) that runs the boosted claim of `u` and books exactly what is due -/
def AmtEff (s s' : St) (u : Nat) : Prop :=
  ∀ w, s'.b.paidW w = s.b.paidW w + duePay s u w (rOf (s'.w.totalRewards w))

/-- a part of an operation that leaves the paid ghost, the clock and the frozen pools of the
    claimable weeks alone -/
structure Keep (s1 s2 : St) : Prop where
  paid : s2.b.paidW = s1.b.paidW
  week : s2.week = s1.week
  tr : ∀ W, s1.week = some W → ∀ w, W ≤ w + 4 → s2.w.totalRewards w = s1.w.totalRewards w

theorem Keep.refl (s : St) : Keep s s := ⟨rfl, rfl, fun _ _ _ _ => rfl⟩

theorem Keep.trans {a b c : St} (h1 : Keep a b) (h2 : Keep b c) : Keep a c :=
  ⟨h2.paid.trans h1.paid, h2.week.trans h1.week, fun W hW w hw =>
    (h2.tr W (by rw [h1.week]; exact hW) w hw).trans (h1.tr W hW w hw)⟩

theorem Keep.of_pmv {s1 s2 : St} (e : pmv s2 = pmv s1) : Keep s1 s2 := by
  have h1 : s2.b.paidW = s1.b.paidW := congrArg PMV.paid e
  have h2 : s2.w.totalRewards = s1.w.totalRewards := congrArg PMV.TR e
  have h3 : s2.epoch = s1.epoch := congrArg PMV.epoch e
  have h4 : s2.firstWeekStart = s1.firstWeekStart := congrArg PMV.fws e
  exact ⟨h1, by unfold St.week; rw [h3, h4], fun _ _ w _ => by rw [h2]⟩

theorem AmtEff.frame_left {s0 s s' : St} {u : Nat} (h : AmtEff s0 s' u) (e : pmv s0 = pmv s) :
    AmtEff s s' u := by
  intro w
  have h1 : s0.b.paidW = s.b.paidW := congrArg PMV.paid e
  rw [← duePay_of_pmv e, ← h1]
  exact h w

theorem AmtEff.keep {s s1 s2 : St} {u : Nat} (h : AmtEff s s1 u) (hw : s1.week = s.week)
    (k : Keep s1 s2) : AmtEff s s2 u := by
  intro w
  rw [k.paid, h w]
  congr 1
  apply duePay_congr
  intro W hW hle
  rw [k.tr W (by rw [hw]; exact hW) w hle]

theorem claimBoostedYields_week {s s' : St} {u r : Nat} (h : claimBoostedYields s u = some (s', r)) :
    s'.week = s.week := by
  obtain ⟨w', b', rfl⟩ := claimBoostedYields_struct h; rfl

theorem claimBoostedYields_amt {s s' : St} {u r : Nat} (h : claimBoostedYields s u = some (s', r)) :
    AmtEff s s' u := claimBoostedYields_amounts h

/-! ### the suffix parts -/

theorem updateEnergyAndProgress_keep {s s' : St} {u : Nat} (h : updateEnergyAndProgress s u = some s') :
    Keep s s' := by
  simp only [updateEnergyAndProgress, Option.bind_eq_bind, Option.bind_eq_some_iff, Option.pure_def,
    Option.some.injEq] at h
  obtain ⟨W, hW, g, hg, rfl⟩ := h
  refine ⟨rfl, rfl, fun W' hW' w hw => ?_⟩
  rw [hW] at hW'; simp only [Option.some.injEq] at hW'; subst hW'
  exact weekly_updateEnergyAndProgress_totalRewards hg w (by omega)

theorem clearUserEnergyIfNeeded_keep {s s' : St} {u : Nat} (h : clearUserEnergyIfNeeded s u = some s') :
    Keep s s' := by
  unfold clearUserEnergyIfNeeded at h
  split at h
  · simp only [Option.some.injEq] at h; subst h; exact Keep.refl _
  · simp only [Option.bind_eq_bind, Option.bind_eq_some_iff, Option.pure_def, Option.some.injEq] at h
    obtain ⟨W, hW, mem, _, g, hg, rfl⟩ := h
    refine ⟨rfl, rfl, fun W' hW' w hw => ?_⟩
    rw [hW] at hW'; simp only [Option.some.injEq] at hW'; subst hW'
    exact weekly_clearUserEnergy_totalRewards hg w (by omega)

theorem setFarmSupplyWeek_keep {s s' : St} {x : Nat} (h : setFarmSupplyWeek s x = some s') : Keep s s' := by
  obtain ⟨_, _, rfl⟩ := setFarmSupplyWeek_spec h
  exact ⟨rfl, rfl, fun _ _ _ _ => rfl⟩

theorem checkAndUpdate_keep {l : List (Nat × Nat)} {s s' : St} {u : Nat}
    (h : checkAndUpdate s u l = some s') : Keep s s' := by
  obtain ⟨_, rfl⟩ := checkAndUpdate_spec l h
  exact ⟨rfl, rfl, fun _ _ _ _ => rfl⟩

theorem claimTail_keep {s s' : St} {c : Bool} {u b bo : Nat} (h : claimTail s c u b bo = some s') :
    Keep s s' := by
  unfold claimTail at h
  split at h
  · simp only [Option.bind_eq_some_iff] at h
    obtain ⟨s1, h1, h2⟩ := h
    exact (Keep.of_pmv (compoundMove_pmv h1)).trans (updateEnergyAndProgress_keep h2)
  · exact Keep.of_pmv (payReward_pmv h)

theorem claimOnlyBoostedPayment_amt {s s' : St} {u r : Nat}
    (h : claimOnlyBoostedPayment s u = some (s', r)) : AmtEff s s' u ∧ s'.week = s.week := by
  simp only [claimOnlyBoostedPayment, Option.bind_eq_bind, Option.bind_eq_some_iff, Option.pure_def] at h
  obtain ⟨⟨s1, r1⟩, h1, h⟩ := h
  have e := claimBoostedYields_amt h1
  have hw := claimBoostedYields_week h1
  split at h
  · simp only [Option.some.injEq, Prod.mk.injEq] at h
    obtain ⟨rfl, _⟩ := h; exact ⟨e, hw⟩
  · simp only [Option.bind_eq_some_iff, sub?_eq_some, Option.some.injEq, Prod.mk.injEq] at h
    obtain ⟨_, _, rfl, _⟩ := h; exact ⟨e, hw⟩

end Mx.Farm
