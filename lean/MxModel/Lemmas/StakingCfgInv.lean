/-
  The stored boosted-yields configuration of the staking model (Core/Staking.lean, `St.b.cfg`) over
  every transaction and every history (audit gap 16, property C11, farm-staking side):

  * `CfgOK`: a stored config has its 5 slots and `last_update_week ≤` the current week — inductive
    over `step` for ALL operations and arguments;
  * `CStep`: what one successful transaction can do to the stored config: leave it, create it
    (`BCfg.new W x`, only `setBoostedYieldsFactors`), or replace it by `c.update W new` for the
    current week `W` (`setBoostedYieldsFactors`: `new = some x`; the freeze of a week inside the
    boosted claim: `new = none`); time only moves forward;
  * `FrozenCfg c c'`: the later config `c'` still answers, for every week that was already past when
    `c` was stored and is still inside `c'`'s window, with the factors `c` recorded.
-/
import MxModel.Lemmas.StakingFactors

namespace Mx.Staking
namespace CfgInv   -- own sub-namespace (short local names clash with other session-4 lemma files)

open Mx.Weekly

/-! ### what the reward hook does to the stored config -/

theorem collectAndGet_cfg (c' : BCfg) (g : Weekly.St) (b : B) (week : Nat) :
    (collectAndGet (collectBoosted c') g b week).2.1.cfg = b.cfg ∨
    (collectAndGet (collectBoosted c') g b week).2.1.cfg = some c' := by
  unfold collectAndGet
  split
  · exact Or.inr rfl
  · exact Or.inl rfl

theorem boostedRewards_cfg {c' : BCfg} {userFarm : Nat} {g g' : Weekly.St} {b b' : B}
    {week e E : Nat} {r : List (Tok × Nat)}
    (h : boostedRewards c' userFarm g b week e E = some (g', b', r)) :
    b'.cfg = b.cfg ∨ b'.cfg = some c' := by
  unfold boostedRewards at h
  simp only at h
  split at h
  · simp only [Option.some.injEq, Prod.mk.injEq] at h
    obtain ⟨_, rfl, _⟩ := h
    exact Or.inl rfl
  · simp only [Option.bind_eq_bind, Option.bind_eq_some_iff] at h
    obtain ⟨fac, _, h⟩ := h
    split at h
    · simp only [Option.pure_def, Option.some.injEq, Prod.mk.injEq] at h
      obtain ⟨_, rfl, _⟩ := h
      exact Or.inl rfl
    · have hc := collectAndGet_cfg c' g b week
      generalize collectAndGet (collectBoosted c') g b week = cg at h hc
      obtain ⟨g1, b1, lst⟩ := cg
      simp only at h hc
      match lst, h with
      | [], h =>
        simp only [Option.pure_def, Option.some.injEq, Prod.mk.injEq] at h
        obtain ⟨_, rfl, _⟩ := h
        exact hc
      | [p], h =>
        simp only at h
        split at h
        · simp only [Option.pure_def, Option.some.injEq, Prod.mk.injEq] at h
          obtain ⟨_, rfl, _⟩ := h
          exact hc
        · simp only [Option.bind_eq_some_iff, req_eq_some] at h
          obtain ⟨_, _, h⟩ := h
          split at h
          · simp only [Option.pure_def, Option.some.injEq, Prod.mk.injEq] at h
            obtain ⟨_, rfl, _⟩ := h
            exact hc
          · simp only [Option.bind_eq_some_iff, sub?_eq_some, Option.pure_def,
              Option.some.injEq, Prod.mk.injEq] at h
            obtain ⟨rem, _, _, rfl, _⟩ := h
            exact hc
      | _ :: _ :: _, h => simp at h

/-- the stored config stays, is created for week `W`, or is updated to week `W` -/
inductive CfgMove (W : Nat) : Option BCfg → Option BCfg → Prop
  | same (o : Option BCfg) : CfgMove W o o
  | fresh (x : Factors) : CfgMove W none (some (BCfg.new W x))
  | upd {c c' : BCfg} (new : Option Factors) : c.update W new = some c' → CfgMove W (some c) (some c')

/-- the boosted claim stores nothing new, or the config updated (without new factors) to the
    current week -/
theorem claimBoostedYields_cfg {s : St} {user farmAmt : Nat} {r : Weekly.St × B × Nat}
    (h : claimBoostedYields s user farmAmt = some r) : CfgMove s.week s.b.cfg r.2.1.cfg := by
  have h0 := h
  unfold claimBoostedYields at h
  split at h
  · rename_i hc
    rw [(claimBoostedYields_none_spec hc h0).1]
    exact .same _
  · rename_i c hc
    simp only [Option.bind_eq_bind, Option.bind_eq_some_iff, Option.pure_def, Option.some.injEq] at h
    obtain ⟨c', hu, r', hr, rfl⟩ := h
    have hP := claimMulti_pres (fun b : B => b.cfg = s.b.cfg ∨ b.cfg = some c')
      (fun _ _ _ _ _ _ _ _ h' hp => by
        rcases boostedRewards_cfg h' with e | e
        · rw [e]; exact hp
        · exact Or.inr e) hr (Or.inl rfl)
    rcases hP with e | e
    · show CfgMove s.week s.b.cfg r'.2.1.cfg
      rw [e]
      exact .same _
    · show CfgMove s.week s.b.cfg r'.2.1.cfg
      rw [e, hc]
      exact .upd none hu

/-! ### endpoints -/

/-- a transaction that runs inside one week: time does not move, the config makes one `CfgMove` -/
structure Keeps (s s' : St) : Prop where
  epoch : s'.epoch = s.epoch
  fw : s'.firstWeek = s.firstWeek
  cfg : CfgMove s.week s.b.cfg s'.b.cfg

theorem Keeps.same {s s' : St} (h1 : s'.epoch = s.epoch) (h2 : s'.firstWeek = s.firstWeek)
    (h3 : s'.b.cfg = s.b.cfg) : Keeps s s' :=
  ⟨h1, h2, by rw [h3]; exact .same _⟩

theorem stakeCore_keeps {s s' : St} {c orig amount : Nat} {v : Bool} {adds : List Pay} {o : Out}
    (h : stakeCore s c orig amount v adds = some (s', o)) : Keeps s s' := by
  cases v <;>
  · simp only [stakeCore, Option.bind_eq_bind, Option.bind_eq_some_iff, req_eq_some,
      sub?_eq_some, Option.pure_def, Option.some.injEq, Prod.mk.injEq] at h
    obtain ⟨_, _, hold0, _, r, hr, res1, _, _, _, ut1, _, ⟨s3, c3⟩, hg, merged, _, w2, _,
      bal1, _, rfl, _⟩ := h
    obtain ⟨_, _, rfl, rfl⟩ := generate_spec hg
    exact ⟨rfl, rfl, claimBoostedYields_cfg hr⟩

theorem claimCore_keeps {s s' : St} {c orig : Nat} {pays : List Pay} {nv : Option Nat} {o : Out}
    (h : claimCore s c orig pays nv = some (s', o)) : Keeps s s' := by
  simp only [claimCore, Option.bind_eq_bind, Option.bind_eq_some_iff] at h
  obtain ⟨m, hm, h⟩ := h
  obtain ⟨_, _, _, r, _, _, _, hr, _, _, hb1, _, _, hs1, _⟩ := claimBase_reward hm
  simp only [claimFinish, Option.bind_eq_bind, Option.bind_eq_some_iff, req_eq_some,
    sub?_eq_some, Option.pure_def, Option.some.injEq, Prod.mk.injEq] at h
  obtain ⟨res1, _, sup1, _, ut2, _, _, _, w2, _, bal1, _, rfl, _⟩ := h
  have hm := claimBoostedYields_cfg hr
  refine ⟨by show m.s1.epoch = s.epoch; rw [hs1]; rfl,
    by show m.s1.firstWeek = s.firstWeek; rw [hs1]; rfl, ?_⟩
  show CfgMove s.week s.b.cfg m.b1.cfg
  rw [hb1]
  exact hm

theorem compound_keeps {s s' : St} {c : Nat} {pays : List Pay} {o : Out}
    (h : compound s c pays = some (s', o)) : Keeps s s' := by
  simp only [compound, Option.bind_eq_bind, Option.bind_eq_some_iff, req_eq_some,
    sub?_eq_some, Option.pure_def, Option.some.injEq, Prod.mk.injEq] at h
  obtain ⟨hold0, _, _, _, p, _, first, _, ⟨s1, c1⟩, hg, tok, _, r, hr, res1, _, ut1, _,
    merged, _, rfl, _⟩ := h
  obtain ⟨_, _, rfl, rfl⟩ := generate_spec hg
  exact ⟨rfl, rfl, (claimBoostedYields_cfg hr : CfgMove (genSt s).week (genSt s).b.cfg r.2.1.cfg)⟩

theorem unstakeCore_keeps {s s' : St} {c orig : Nat} {pay : Pay} {x : Option Nat} {o : Out}
    (h : unstakeCore s c orig pay x = some (s', o)) : Keeps s s' := by
  cases x <;>
  · simp only [unstakeCore, Option.bind_eq_bind, Option.bind_eq_some_iff, req_eq_some,
      sub?_eq_some, Option.pure_def, Option.some.injEq, Prod.mk.injEq] at h
    obtain ⟨_, _, hold0, _, _, _, attrs, _, ⟨s1, c1⟩, hg, tok, _, r, hr, res1, _,
      sup1, _, w2, _, bal1, _, rfl, _⟩ := h
    obtain ⟨_, _, rfl, rfl⟩ := generate_spec hg
    exact ⟨rfl, rfl, (claimBoostedYields_cfg hr : CfgMove (genSt s).week (genSt s).b.cfg r.2.1.cfg)⟩

theorem mergeTokens_keeps {s s' : St} {c : Nat} {pays : List Pay} {o : Out}
    (h : mergeTokens s c pays = some (s', o)) : Keeps s s' := by
  simp only [mergeTokens, Option.bind_eq_bind, Option.bind_eq_some_iff, req_eq_some,
    sub?_eq_some, Option.pure_def, Option.some.injEq, Prod.mk.injEq] at h
  obtain ⟨hold0, _, _, _, r, hr, res1, _, p, _, ut1, _, first, _, part, _, merged, _,
    bal1, _, rfl, _⟩ := h
  exact ⟨rfl, rfl, claimBoostedYields_cfg hr⟩

theorem claimBoostedRewards_keeps {s s' : St} {c : Nat} {u : Option Nat} {o : Out}
    (h : claimBoostedRewards s c u = some (s', o)) : Keeps s s' := by
  simp only [claimBoostedRewards, Option.bind_eq_bind, Option.bind_eq_some_iff, req_eq_some,
    sub?_eq_some, Option.pure_def, Option.some.injEq, Prod.mk.injEq] at h
  obtain ⟨_, _, _, _, _, _, ⟨s1, c1⟩, hg, r, hr, res1, _, bal1, _, rfl, _⟩ := h
  obtain ⟨_, _, rfl, rfl⟩ := generate_spec hg
  exact ⟨rfl, rfl, (claimBoostedYields_cfg hr : CfgMove (genSt s).week (genSt s).b.cfg r.2.1.cfg)⟩

/-! ### every transaction -/

/-- one successful transaction: a `Keeps` inside the current week, or time passes (the config is
    not touched, the deployment epoch stays, the epoch does not decrease) -/
def CStep (s s' : St) : Prop :=
  Keeps s s' ∨ (s'.b.cfg = s.b.cfg ∧ s'.firstWeek = s.firstWeek ∧ s.epoch ≤ s'.epoch)

theorem stepCore_cstep {s s' : St} {op : Op} {o : Out} (h : stepCore s op = some (s', o)) :
    CStep s s' := by
  cases op <;> simp only [stepCore] at h
  case stake c orig a adds =>
    cases orig <;> simp only [stakeFarm, Option.bind_eq_bind, Option.bind_eq_some_iff] at h
    · exact Or.inl (stakeCore_keeps h)
    · obtain ⟨_, _, h⟩ := h; exact Or.inl (stakeCore_keeps h)
  case stakeProxy c orig a adds =>
    simp only [stakeProxy, Option.bind_eq_bind, Option.bind_eq_some_iff] at h
    obtain ⟨_, _, h⟩ := h; exact Or.inl (stakeCore_keeps h)
  case stakeBehalf c u a adds =>
    simp only [stakeOnBehalf, Option.bind_eq_bind, Option.bind_eq_some_iff] at h
    obtain ⟨_, _, _, _, h⟩ := h; exact Or.inl (stakeCore_keeps h)
  case claim c orig p =>
    cases orig <;> simp only [claimRewards, Option.bind_eq_bind, Option.bind_eq_some_iff] at h
    · exact Or.inl (claimCore_keeps h)
    · obtain ⟨_, _, h⟩ := h; exact Or.inl (claimCore_keeps h)
  case claimNew c orig nv p =>
    simp only [claimNewValue, Option.bind_eq_bind, Option.bind_eq_some_iff] at h
    obtain ⟨_, _, h⟩ := h; exact Or.inl (claimCore_keeps h)
  case claimBehalf c ps =>
    simp only [claimOnBehalf, Option.bind_eq_bind, Option.bind_eq_some_iff] at h
    obtain ⟨_, _, _, _, h⟩ := h; exact Or.inl (claimCore_keeps h)
  case compound c ps => exact Or.inl (compound_keeps h)
  case unstake c orig p =>
    cases orig <;> simp only [unstakeFarm, Option.bind_eq_bind, Option.bind_eq_some_iff] at h
    · exact Or.inl (unstakeCore_keeps h)
    · obtain ⟨_, _, h⟩ := h; exact Or.inl (unstakeCore_keeps h)
  case unstakeProxy c orig x p =>
    simp only [unstakeProxy, Option.bind_eq_bind, Option.bind_eq_some_iff] at h
    obtain ⟨_, _, h⟩ := h; exact Or.inl (unstakeCore_keeps h)
  case unbond c p =>
    obtain ⟨_, _, _, _, _, _, rfl⟩ := unbondFarm_iff.1 h
    exact Or.inl (Keeps.same rfl rfl rfl)
  case merge c ps => exact Or.inl (mergeTokens_keeps h)
  case claimBoosted c u => exact Or.inl (claimBoostedRewards_keeps h)
  case «calc» q a t =>
    simp only [Option.map_eq_some_iff, Prod.mk.injEq] at h
    obtain ⟨_, _, rfl, _⟩ := h
    exact Or.inl (Keeps.same rfl rfl rfl)
  case transfer a b p =>
    simp only [transfer, Option.bind_eq_bind, Option.bind_eq_some_iff, req_eq_some,
      Option.pure_def, Option.some.injEq, Prod.mk.injEq] at h
    obtain ⟨_, _, hold0, _, rfl, _⟩ := h
    exact Or.inl (Keeps.same rfl rfl rfl)
  case setEnergy u a l =>
    simp only [Option.some.injEq, Prod.mk.injEq] at h
    obtain ⟨rfl, _⟩ := h
    exact Or.inl (Keeps.same rfl rfl rfl)
  case updateEnergy u =>
    simp only [updateEnergy, Option.bind_eq_bind, Option.bind_eq_some_iff,
      Option.pure_def, Option.some.injEq, Prod.mk.injEq] at h
    obtain ⟨g, _, rfl, _⟩ := h
    exact Or.inl (Keeps.same rfl rfl rfl)
  case topUp x =>
    simp only [topUp, Option.bind_eq_bind, Option.bind_eq_some_iff, req_eq_some,
      Option.pure_def, Option.some.injEq, Prod.mk.injEq] at h
    obtain ⟨_, _, rfl, _⟩ := h
    exact Or.inl (Keeps.same rfl rfl rfl)
  case withdraw x =>
    simp only [withdraw, Option.bind_eq_bind, Option.bind_eq_some_iff, req_eq_some,
      sub?_eq_some, Option.pure_def, Option.some.injEq, Prod.mk.injEq] at h
    obtain ⟨⟨s1, c1⟩, hg, rem, _, _, _, cap, _, bal1, _, rfl, _⟩ := h
    obtain ⟨_, _, rfl, rfl⟩ := generate_spec hg
    exact Or.inl (Keeps.same rfl rfl rfl)
  case setMaxApr x =>
    simp only [setMaxApr, Option.bind_eq_bind, Option.bind_eq_some_iff] at h
    obtain ⟨_, _, h⟩ := h
    rw [(settleThen_eq h).2]; exact Or.inl (Keeps.same rfl rfl rfl)
  case setPerBlock x =>
    simp only [setPerBlock, Option.bind_eq_bind, Option.bind_eq_some_iff] at h
    obtain ⟨_, _, h⟩ := h
    rw [(settleThen_eq h).2]; exact Or.inl (Keeps.same rfl rfl rfl)
  case startProduce =>
    simp only [startProduce, Option.bind_eq_bind, Option.bind_eq_some_iff, req_eq_some,
      Option.pure_def, Option.some.injEq, Prod.mk.injEq] at h
    obtain ⟨_, _, _, _, rfl, _⟩ := h
    exact Or.inl (Keeps.same rfl rfl rfl)
  case endProduce =>
    rw [(settleThen_eq h).2]; exact Or.inl (Keeps.same rfl rfl rfl)
  case setMinUnbond e =>
    simp only [setMinUnbond, Option.bind_eq_bind, Option.bind_eq_some_iff, req_eq_some,
      Option.pure_def, Option.some.injEq, Prod.mk.injEq] at h
    obtain ⟨_, _, rfl, _⟩ := h
    exact Or.inl (Keeps.same rfl rfl rfl)
  case setBoostedPct p =>
    simp only [setBoostedPct, Option.bind_eq_bind, Option.bind_eq_some_iff, req_eq_some] at h
    obtain ⟨_, _, h⟩ := h
    rw [(settleThen_eq h).2]; exact Or.inl (Keeps.same rfl rfl rfl)
  case setFactors x =>
    simp only [setFactors, Option.bind_eq_bind, Option.bind_eq_some_iff, req_eq_some,
      Option.pure_def, Option.some.injEq, Prod.mk.injEq] at h
    obtain ⟨_, _, _, _, c, hn, rfl, _⟩ := h
    refine Or.inl ⟨rfl, rfl, ?_⟩
    show CfgMove s.week s.b.cfg (some c)
    unfold nextCfg at hn
    split at hn
    · rename_i c0 hc0
      rw [hc0]
      exact .upd (some x) hn
    · rename_i hc0
      simp only [Option.some.injEq] at hn
      subst hn
      rw [hc0]
      exact .fresh x
  case collectUndistributed =>
    obtain ⟨_, ⟨_, rfl⟩ | _⟩ := collectUndistributed_spec h
    · exact Or.inl (Keeps.same rfl rfl rfl)
    · simp only [collectUndistributed, Option.bind_eq_bind, Option.bind_eq_some_iff, req_eq_some] at h
      obtain ⟨_, _, h⟩ := h
      split at h
      · simp only [Option.pure_def, Option.some.injEq, Prod.mk.injEq] at h
        obtain ⟨rfl, _⟩ := h
        exact Or.inl (Keeps.same rfl rfl rfl)
      · simp only [Option.pure_def, Option.some.injEq, Prod.mk.injEq] at h
        obtain ⟨rfl, _⟩ := h
        exact Or.inl (Keeps.same rfl rfl rfl)
  case pause =>
    simp only [Option.some.injEq, Prod.mk.injEq] at h
    obtain ⟨rfl, _⟩ := h
    exact Or.inl (Keeps.same rfl rfl rfl)
  case resume =>
    simp only [Option.some.injEq, Prod.mk.injEq] at h
    obtain ⟨rfl, _⟩ := h
    exact Or.inl (Keeps.same rfl rfl rfl)
  case hubWhitelist u a =>
    simp only [Option.bind_eq_bind, Option.bind_eq_some_iff, req_eq_some,
      Option.pure_def, Option.some.injEq, Prod.mk.injEq] at h
    obtain ⟨_, _, rfl, _⟩ := h
    exact Or.inl (Keeps.same rfl rfl rfl)
  case hubRemove u a =>
    simp only [Option.bind_eq_bind, Option.bind_eq_some_iff, req_eq_some,
      Option.pure_def, Option.some.injEq, Prod.mk.injEq] at h
    obtain ⟨_, _, rfl, _⟩ := h
    exact Or.inl (Keeps.same rfl rfl rfl)
  case advance b e =>
    simp only [Option.some.injEq, Prod.mk.injEq] at h
    obtain ⟨rfl, _⟩ := h
    exact Or.inr ⟨rfl, rfl, Nat.le_add_right _ _⟩

theorem step_cstep {s s' : St} {op : Op} {o : Out} (h : step s op = some (s', o)) : CStep s s' := by
  simp only [step, Option.bind_eq_bind, Option.bind_eq_some_iff] at h
  obtain ⟨_, _, h⟩ := h
  exact stepCore_cstep h

/-! ### the invariant -/

/-- a stored config has its 5 slots and was last updated in a week that is not after the current one -/
def CfgOK (s : St) : Prop :=
  ∀ c, s.b.cfg = some c → c.f.length = 5 ∧ c.lastUpdateWeek ≤ s.week

theorem Keeps.week {s s' : St} (k : Keeps s s') : s'.week = s.week := by
  unfold St.week
  rw [k.epoch, k.fw]

theorem week_mono_of_epoch {s s' : St} (hf : s'.firstWeek = s.firstWeek) (he : s.epoch ≤ s'.epoch) :
    s.week ≤ s'.week := by
  unfold St.week
  rw [hf]
  have : (s.epoch - s.firstWeek) / EPOCHS_IN_WEEK ≤ (s'.epoch - s.firstWeek) / EPOCHS_IN_WEEK :=
    Nat.div_le_div_right (by omega)
  omega

theorem CfgMove.ok {W : Nat} {o o' : Option BCfg} (m : CfgMove W o o')
    (h : ∀ c, o = some c → c.f.length = 5 ∧ c.lastUpdateWeek ≤ W) :
    ∀ c, o' = some c → c.f.length = 5 ∧ c.lastUpdateWeek ≤ W := by
  cases m with
  | same => exact h
  | fresh x =>
    intro c hc
    cases hc
    exact ⟨BCfg.new_length _ x, Nat.le_refl _⟩
  | upd new hu =>
    intro c hc
    cases hc
    obtain ⟨hl, _⟩ := h _ rfl
    obtain ⟨_, h1, h2, _⟩ := BCfg.update_spec hl hu
    exact ⟨h1, by rw [h2]⟩

theorem CStep.ok {s s' : St} (t : CStep s s') (h : CfgOK s) : CfgOK s' := by
  intro c' hc'
  rcases t with k | ⟨hcfg, hf, he⟩
  · have := k.cfg.ok h c' hc'
    rw [k.week]
    exact this
  · obtain ⟨hl, hle⟩ := h c' (hcfg ▸ hc')
    exact ⟨hl, Nat.le_trans hle (week_mono_of_epoch hf he)⟩

theorem run_cfgOK (ops : List Op) {s : St} (hI : CfgOK s) : CfgOK (run s ops) := by
  induction ops generalizing s with
  | nil => simpa [run] using hI
  | cons op ops ih =>
    simp only [run, List.foldl_cons]
    cases hst : step s op with
    | none => exact ih hI
    | some r =>
      obtain ⟨s1, o⟩ := r
      exact ih ((step_cstep hst).ok hI)

theorem init_cfgOK (epoch block dsc maxApr minUnbond perBlock : Nat) (accts wl : List Nat) :
    CfgOK (init epoch block dsc maxApr minUnbond perBlock accts wl) := by
  intro c hc
  cases hc

/-- every state reachable from a fresh deployment stores a well-formed config (or none) -/
theorem reachable_cfgOK (epoch block dsc maxApr minUnbond perBlock : Nat) (accts wl : List Nat)
    (ops : List Op) : CfgOK (run (init epoch block dsc maxApr minUnbond perBlock accts wl) ops) :=
  run_cfgOK ops (init_cfgOK epoch block dsc maxApr minUnbond perBlock accts wl)

/-! ### recorded factors are frozen -/

/-- `c'` is a later version of the 5-slot config `c`: still 5 slots, not older, and for every week
    that was already past for `c` and is still inside the window of `c'` it answers what `c` answered -/
structure FrozenCfg (c c' : BCfg) : Prop where
  len : c'.f.length = 5
  mono : c.lastUpdateWeek ≤ c'.lastUpdateWeek
  keep : ∀ w, w < c.lastUpdateWeek → c'.lastUpdateWeek - w < 5 →
    c'.factorsForWeek w = c.factorsForWeek w

theorem FrozenCfg.refl {c : BCfg} (h : c.f.length = 5) : FrozenCfg c c :=
  ⟨h, Nat.le_refl _, fun _ _ _ => rfl⟩

theorem FrozenCfg.trans {a b c : BCfg} (h1 : FrozenCfg a b) (h2 : FrozenCfg b c) : FrozenCfg a c := by
  refine ⟨h2.len, Nat.le_trans h1.mono h2.mono, fun w hw hw' => ?_⟩
  have hb := h2.mono
  have ha := h1.mono
  rw [h2.keep w (by omega) hw', h1.keep w hw (by omega)]

theorem FrozenCfg.of_update {c c' : BCfg} {W : Nat} {new : Option Factors} (hl : c.f.length = 5)
    (h : c.update W new = some c') : FrozenCfg c c' := by
  obtain ⟨hle, h1, h2, _, h4, _⟩ := BCfg.update_spec hl h
  refine ⟨h1, by rw [h2]; exact hle, fun w hw1 hw2 => ?_⟩
  rw [h2] at hw2
  exact h4 w hw1 hw2

theorem CfgMove.frozen {W : Nat} {o' : Option BCfg} {c : BCfg} (m : CfgMove W (some c) o')
    (hl : c.f.length = 5) : ∃ c', o' = some c' ∧ FrozenCfg c c' := by
  cases m with
  | same => exact ⟨c, rfl, FrozenCfg.refl hl⟩
  | upd new hu => exact ⟨_, rfl, FrozenCfg.of_update hl hu⟩

theorem CStep.frozen {s s' : St} (t : CStep s s') {c : BCfg} (hc : s.b.cfg = some c)
    (hl : c.f.length = 5) : ∃ c', s'.b.cfg = some c' ∧ FrozenCfg c c' := by
  rcases t with k | ⟨hcfg, _, _⟩
  · have hm := k.cfg
    rw [hc] at hm
    exact hm.frozen hl
  · exact ⟨c, hcfg.trans hc, FrozenCfg.refl hl⟩

/-- over ANY continuation of ANY state whose stored config has 5 slots: a config stays stored, and
    the factors it recorded for past weeks are kept as long as those weeks are claimable -/
theorem run_frozen (ops : List Op) : ∀ {s : St} {c : BCfg}, s.b.cfg = some c → c.f.length = 5 →
    ∃ c', (run s ops).b.cfg = some c' ∧ FrozenCfg c c' := by
  induction ops with
  | nil => intro s c hc hl; exact ⟨c, by simpa [run] using hc, FrozenCfg.refl hl⟩
  | cons op rest ih =>
    intro s c hc hl
    simp only [run, List.foldl_cons]
    cases hs : step s op with
    | none => exact ih hc hl
    | some r =>
      obtain ⟨s1, o⟩ := r
      obtain ⟨c1, hc1, f1⟩ := (step_cstep hs).frozen hc hl
      obtain ⟨c2, hc2, f2⟩ := ih (s := s1) hc1 f1.len
      exact ⟨c2, hc2, f1.trans f2⟩

/-- `update` is defined as soon as the 5-slot config is not from the future -/
theorem BCfg.update_defined (c : BCfg) {W : Nat} (new : Option Factors) (hl : c.f.length = 5)
    (h : c.lastUpdateWeek ≤ W) : ∃ c', c.update W new = some c' := by
  have h4 : ∃ x, c.f[4]? = some x := by
    have : 4 < c.f.length := by omega
    exact ⟨c.f[4], List.getElem?_eq_getElem this⟩
  obtain ⟨x, hx⟩ := h4
  unfold BCfg.update
  simp only [req, h, if_true, hx, Option.bind_eq_bind, Option.bind_some, Option.pure_def]
  split
  · cases new <;> exact ⟨_, rfl⟩
  · exact ⟨_, rfl⟩

/-- a 5-slot config answers for each of the four weeks before its `last_update_week` -/
theorem BCfg.factorsForWeek_defined {c : BCfg} {w : Nat} (hl : c.f.length = 5)
    (h1 : w < c.lastUpdateWeek) (h2 : c.lastUpdateWeek - w < 5) :
    ∃ x, c.factorsForWeek w = some x := by
  rw [BCfg.factorsForWeek_eq c w h1 h2]
  have : 4 - (c.lastUpdateWeek - w) < c.f.length := by omega
  exact ⟨_, List.getElem?_eq_getElem this⟩

end CfgInv
end Mx.Staking
