/-
  Liveness of `unstakeFarm` and `claimRewards` of the farm-staking model (C05 "no legitimate call
  fails because an internal counter would go negative", farm-staking side; audit gap 22).

    A. a new inductive invariant `AmtInv`: the units outstanding of a position nonce never exceed
       the `amount` recorded in its attributes (they are equal when the nonce is minted and only
       burns follow) — this is what makes the division of `into_part` (`rule_of_three`) safe;
    B. the settled state `settle s` (storage + flushed cache after `generate_aggregated_rewards`)
       is itself reachable in one step (`setBoostedYieldsRewardsPercentage` with the CURRENT
       percentage only settles), so every inductive invariant holds in it;
    C. `reward_covered`: base reward of a held part + the boosted reward the weekly module returns
       ≤ the cached reserve after settling;  `reserve_le_bal`: the reserve is in the balance;
    D. `unstakeCore_ok`, `claimCore_ok`: every guard / checked subtraction of the two endpoints is
       discharged, the calls into the weekly-rewards module are hypotheses.
    E. `step_unstake_eq` / `step_claim_eq`: from the core functions to `step` (holder, or a
       whitelisted sender naming an original caller);
    F. `WLInv`: the embedded weekly-rewards module keeps its global invariant `Weekly.GInv` and its
       `lastGlobalUpdateWeek ≤ current week` in every reachable staking state (new; farm analogue
       Lemmas/FarmEnergy.lean without the `EB` half), hence `update_energy_and_progress` cannot
       abort (`uep_ok`), hence without a boosted-yields config the boosted claim and
       `clear_user_energy_if_needed` cannot abort (`cby_none_ok`, `clear_none_ok`).
  Property theorems: Props/C05StakingLive.lean.
-/
import MxModel.Lemmas.StakingLedger
import MxModel.Lemmas.StakingCover
import MxModel.Lemmas.StakingWeekPos
import MxModel.Lemmas.WeeklyLive

namespace Mx.Staking

open Mx.Weekly

/-! ## A. outstanding units never exceed the recorded amount -/

/-- the units outstanding of every position nonce are at most the `amount` of its attributes -/
def AmtOK (v : PV) : Prop :=
  ∀ n a, posOf v.md n = some a → outst v.hold v.accts n ≤ a.amount

theorem AmtOK.trans {v v' : PV} (hI : PosOK v) (hA : AmtOK v) (h : PTrans v v') : AmtOK v' := by
  obtain ⟨inc, base, _, h⟩ := h
  rcases h with rfl | ⟨c, user, pays, h0, ut1, ut2, tok, supply2, paid, hc, hd, _, _, _, _, _, rfl⟩ |
    ⟨c, pay, h0, attrs, e', x, supply2, paid, hc, hd, _, _, _, rfl⟩ |
    ⟨c, pays, h0, hc, hd, _, rfl⟩ | ⟨src, dst, pay, h0, hs, hdst, hd, rfl⟩
  · exact hA
  · intro n a ha
    show outst (upd2 h0 c (v.nonce + 1) tok.amount) v.accts n ≤ a.amount
    have ha' : posOf (upd v.md (v.nonce + 1) (some (.pos tok))) n = some a := ha
    rw [outst_mint hc hI.nodup (hI.fresh hd) n]
    by_cases hn : n = v.nonce + 1
    · subst hn
      rw [posOf_upd_pos] at ha'
      rw [if_pos rfl]
      cases ha'
      exact Nat.le_refl _
    · rw [if_neg hn]
      rw [posOf_upd_other _ _ hn] at ha'
      have := outst_debit hd hc hI.nodup n
      have := hA n a ha'
      omega
  · intro n a ha
    show outst (upd2 h0 c (v.nonce + 1) x) v.accts n ≤ a.amount
    have ha' : posOf (upd v.md (v.nonce + 1) (some (.unbond e'))) n = some a := ha
    rw [outst_mint hc hI.nodup (hI.fresh hd) n]
    by_cases hn : n = v.nonce + 1
    · subst hn
      rw [posOf_upd_unbond] at ha'
      cases ha'
    · rw [if_neg hn]
      rw [posOf_upd_other _ _ hn] at ha'
      have := outst_debit hd hc hI.nodup n
      have := hA n a ha'
      omega
  · intro n a ha
    show outst h0 v.accts n ≤ a.amount
    have ha' : posOf v.md n = some a := ha
    have := outst_debit hd hc hI.nodup n
    have := hA n a ha'
    omega
  · intro n a ha
    show outst (upd2 h0 dst pay.1 (h0 dst pay.1 + pay.2)) v.accts n ≤ a.amount
    have ha' : posOf v.md n = some a := ha
    rw [outst_transfer hI hs hdst hd n]
    exact hA n a ha'

/-- **recorded amounts bound the outstanding units** (state form) -/
def AmtInv (s : St) : Prop := AmtOK (pv s)

theorem amtInv_init (epoch block dsc maxApr minUnbond perBlock : Nat) (accts wl : List Nat) :
    AmtInv (init epoch block dsc maxApr minUnbond perBlock accts wl) := by
  intro n a ha
  have : posOf (fun _ => none) n = some a := ha
  simp [posOf] at this

theorem step_amtInv {s s' : St} {op : Op} {o : Out} (hI : PosInv s) (hA : AmtInv s)
    (h : step s op = some (s', o)) : AmtInv s' :=
  AmtOK.trans hI hA (step_ptrans h)

theorem run_amtInv (ops : List Op) {s : St} (hI : PosInv s) (hA : AmtInv s) : AmtInv (run s ops) := by
  induction ops generalizing s with
  | nil => simpa [run] using hA
  | cons op ops ih =>
    simp only [run, List.foldl_cons]
    cases hst : step s op with
    | none => exact ih hI hA
    | some r =>
      obtain ⟨s1, o⟩ := r
      exact ih (step_posInv hI hst) (step_amtInv hI hA hst)

theorem posOf_of_md {m : Nat → Option Meta} {n : Nat} {a : Attrs} (h : m n = some (.pos a)) :
    posOf m n = some a := by
  simp only [posOf, h]

/-- a holding of a position is part of the units outstanding of its nonce -/
theorem hold_le_outst {s : St} (hP : PosInv s) {c n : Nat} (hne : s.hold c n ≠ 0) :
    s.hold c n ≤ outst s.hold s.accts.dedup n ∧ n < s.nonce + 1 := by
  have hP' : PosOK (pv s) := hP
  obtain ⟨hc, hn⟩ := hP'.dom c n hne
  exact ⟨le_usum (f := fun a => s.hold a n) hc, Nat.lt_succ_of_le hn⟩

/-- a holding of a position never exceeds the recorded amount (so the recorded amount of a held
    position is non-zero) -/
theorem hold_le_amount {s : St} (hP : PosInv s) (hA : AmtInv s) {c n : Nat} {a : Attrs}
    (ha : posOf s.md n = some a) (hne : s.hold c n ≠ 0) : s.hold c n ≤ a.amount := by
  have h1 := (hold_le_outst hP hne).1
  have h2 : outst s.hold s.accts.dedup n ≤ a.amount := hA n a ha
  omega

/-- a holding of a position never exceeds the farm-token supply -/
theorem hold_le_supply {s : St} (hP : PosInv s) {c n : Nat} {a : Attrs}
    (ha : posOf s.md n = some a) (hne : s.hold c n ≠ 0) : s.hold c n ≤ s.supply := by
  have hP' : PosOK (pv s) := hP
  obtain ⟨h1, hn⟩ := hold_le_outst hP hne
  have h2 : posW s.md n * outst s.hold s.accts.dedup n ≤
      wsum s.hold s.accts.dedup (s.nonce + 1) (posW s.md) :=
    le_usum (f := fun k => posW s.md k * outst s.hold s.accts.dedup k) (List.mem_range.mpr hn)
  rw [posW_some ha, Nat.one_mul] at h2
  have h3 : s.supply = wsum s.hold s.accts.dedup (s.nonce + 1) (posW s.md) := hP'.sup
  omega

/-- `into_part` of a non-zero part that does not exceed the recorded amount succeeds -/
theorem intoPart_ok {t : Attrs} {x : Nat} (hx : 0 < x) (hle : x ≤ t.amount) :
    ∃ tok, t.intoPart x = some tok ∧ tok.rps = t.rps ∧ tok.amount = x := by
  unfold Attrs.intoPart
  by_cases h : x = t.amount
  · rw [if_pos h]; exact ⟨t, rfl, rfl, h.symm⟩
  · rw [if_neg h]
    have hne : t.amount ≠ 0 := by omega
    have e : req (t.amount ≠ 0) = some () := (req_eq_some ()).2 hne
    simp only [e, Option.bind_eq_bind, Option.bind_some, Option.pure_def]
    exact ⟨_, rfl, rfl, rfl⟩

/-! ## B. the settled state is reachable in one step -/

/-- storage after `generate_aggregated_rewards` with the cache written back -/
def settle (s : St) : St := (genSt s).flush (genCache s s.cache)

/-- `setBoostedYieldsRewardsPercentage(current percentage)` only settles -/
theorem settle_step {s : St} (hI : Inv s) :
    step s (.setBoostedPct s.boostedPct) = some (settle s, {}) := by
  have hg := generate_ok s.cache hI.acc_le hI.pct_le
  have e1 : req (callerOk s (.setBoostedPct s.boostedPct) = true) = some () := (req_eq_some ()).2 rfl
  have e2 : req (s.boostedPct ≤ MAX_PERCENT) = some () := (req_eq_some ()).2 hI.pct_le
  simp only [step, e1, stepCore, setBoostedPct, e2, settleThen, hg, Option.bind_eq_bind,
    Option.bind_some, Option.pure_def]
  rfl

@[simp] theorem settle_reserve (s : St) : (settle s).reserve = s.reserve + genTot s := rfl
@[simp] theorem settle_bal (s : St) : (settle s).bal = s.bal := rfl
@[simp] theorem settle_md (s : St) : (settle s).md = s.md := rfl
@[simp] theorem settle_hold (s : St) : (settle s).hold = s.hold := rfl
@[simp] theorem settle_dsc (s : St) : (settle s).dsc = s.dsc := rfl
@[simp] theorem settle_supply (s : St) : (settle s).supply = s.supply := rfl
@[simp] theorem settle_rps (s : St) : (settle s).rps = (genCache s s.cache).rps := rfl

/-! ## C. the reward is covered -/

/-- **the reward of a held part is in the reserve.**  `x` units of a position held by `c`; the
    base reward at the index after settling plus whatever the boosted claim of ANY user returns on
    the settled state never exceeds the cached reserve after settling. -/
theorem reward_covered {s : St} (hI : Inv s) (hP : PosInv s) (hPot : PotInv s) (hB : BoostInv s)
    (hd : 0 < s.dsc) {c n x : Nat} {attrs : Attrs} (ha : posOf s.md n = some attrs)
    (hx : 0 < x) (hh : x ≤ s.hold c n) {orig f : Nat} {r : Weekly.St × B × Nat}
    (hr : claimBoostedYields (genSt s) orig f = some r) :
    baseAmt (genCache s s.cache).rps s.dsc x attrs.rps + r.2.2 ≤ s.reserve + genTot s := by
  have hst := settle_step hI
  have hI' : Inv (settle s) := step_inv hI hst
  have hP' : PosInv (settle s) := step_posInv hP hst
  have hPot' : PotInv (settle s) := step_potInv hP hPot hst
  have hB' : BoostInv (settle s) := step_boostInv hB hst
  -- base part
  have hne : (settle s).hold c n ≠ 0 := by show s.hold c n ≠ 0; omega
  obtain ⟨h1, hn⟩ := hold_le_outst hP' hne
  have h2 : potW (settle s).md (settle s).rps n * outst (settle s).hold (settle s).accts.dedup n ≤
      (pv (settle s)).pot :=
    le_usum (f := fun k => potW (settle s).md (settle s).rps k *
      outst (settle s).hold (settle s).accts.dedup k) (List.mem_range.mpr hn)
  have ha' : posOf (settle s).md n = some attrs := ha
  rw [potW_some ha'] at h2
  have h3 : (pv (settle s)).pot + (settle s).dsc * (settle s).paidBase ≤
      (settle s).dsc * (settle s).baseBudget := hPot'
  have h4 := baseAmt_le (genCache s s.cache).rps s.dsc x attrs.rps
  have h5 : x * ((genCache s s.cache).rps - attrs.rps) ≤
      ((settle s).rps - attrs.rps) * outst (settle s).hold (settle s).accts.dedup n := by
    rw [Nat.mul_comm]
    apply Nat.mul_le_mul_left
    have : x ≤ (settle s).hold c n := hh
    omega
  have h6 : s.dsc * (baseAmt (genCache s s.cache).rps s.dsc x attrs.rps + (settle s).paidBase) ≤
      s.dsc * (settle s).baseBudget := by
    rw [Nat.mul_add]
    have e : (settle s).dsc = s.dsc := rfl
    rw [e] at h3
    omega
  have h7 := Nat.le_of_mul_le_mul_left h6 hd
  -- boosted part
  obtain ⟨M, hM⟩ := claimBoostedYields_pool_le hr
  have h8 := hM M (Nat.le_refl _)
  have h9 : psum M (settle s).b.accumulated (settle s).b.remaining + (settle s).undistributed +
      (settle s).paidBoosted ≤ (settle s).boostedBudget := hB' M
  have e9 : psum M (settle s).b.accumulated (settle s).b.remaining =
      psum M (genSt s).b.accumulated (genSt s).b.remaining := rfl
  rw [e9] at h9
  have h10 := hI'.res_eq
  have h11 := hI'.budget
  rw [settle_reserve] at h10
  omega

/-- the settled reserve is part of the contract's balance as soon as the proxy-virtual stake does
    not exceed the supply and the unbond ledger is non-negative -/
theorem reserve_le_bal {P : List Nat} {s : St} (hI : Inv s) (hP : PosInv s) (hU : UnbInv s)
    (hV : VirtOK P s) : s.reserve + genTot s ≤ s.bal := by
  have hst := settle_step hI
  have hI' : Inv (settle s) := step_inv hI hst
  have hP' : PosOK (pv s) := hP
  have h1 := hI'.bal_eq
  have h2 := hI'.acc_le
  have h3 : s.unbondOut = ((wsum s.hold s.accts.dedup (s.nonce + 1) (unbW s.md) : Nat) : Int) := hU
  have h4 : s.virt = ((pv s).held P : Nat) := hV
  have h5 : (pv s).held P ≤ s.supply := hP'.held_le P
  have e1 : (settle s).virt = s.virt := rfl
  have e2 : (settle s).unbondOut = s.unbondOut := rfl
  rw [settle_bal, settle_reserve, settle_supply, e1, e2] at h1
  omega

/-! ## D. progress of `unstakeFarm` and `claimRewards` -/

theorem isSome_bind {α β : Type} {x : Option α} {f : α → Option β} {a : α} (hx : x = some a)
    (hf : (f a).isSome) : (x >>= f).isSome := by
  subst hx; exact hf

/-- the invariants the liveness lemmas use, bundled -/
structure LiveInv (P : List Nat) (s : St) : Prop where
  inv : Inv s
  pos : PosInv s
  pot : PotInv s
  boost : BoostInv s
  unb : UnbInv s
  virt : VirtOK P s
  amt : AmtInv s
  dsc : 0 < s.dsc

/-- **progress of `unstake_farm_common`** (direct variant, no staking tokens sent along):
    `caller` holds `x > 0` units of the position `n`; `orig` is whoever the endpoint treats as the
    original caller.  Every guard is discharged except the two calls into the weekly module. -/
theorem unstakeCore_ok {P : List Nat} {s : St} (hL : LiveInv P s) (hact : s.active = true)
    {c orig n x : Nat} {attrs : Attrs} (ha : s.md n = some (.pos attrs)) (hx : 0 < x)
    (hh : x ≤ s.hold c n) {r : Weekly.St × B × Nat}
    (hr : claimBoostedYields (genSt s) orig (s.userTotal orig) = some r)
    (hcl : (clearEnergyIfNeeded
      { genSt s with userTotal := decreaseUT s.userTotal attrs.owner x, b := r.2.1 } r.1 orig).isSome) :
    (unstakeCore s c orig (n, x) none).isSome := by
  obtain ⟨hI, hP, hPot, hB, hU, hV, hA, hd⟩ := hL
  have hpos : posOf s.md n = some attrs := posOf_of_md ha
  have hne : s.hold c n ≠ 0 := by omega
  have hamt := hold_le_amount hP hA hpos hne
  have hsup := hold_le_supply hP hpos hne
  obtain ⟨tok, htok, hrps, htamt⟩ := intoPart_ok (t := attrs) hx (by omega)
  have hg := generate_ok s.cache hI.acc_le hI.pct_le
  have hcov := reward_covered hI hP hPot hB hd hpos hx hh hr
  have hbal := reserve_le_bal hI hP hU hV
  obtain ⟨w2, hw2⟩ := Option.isSome_iff_exists.mp hcl
  have hbase : baseReward (genCache s s.cache) s.dsc x tok =
      baseAmt (genCache s s.cache).rps s.dsc x attrs.rps := by
    rw [baseReward_eq, hrps]
  unfold unstakeCore
  refine isSome_bind (a := ()) (by simp [req]) ?_
  refine isSome_bind (debit_single.2 ⟨hx, hh, rfl⟩) ?_
  refine isSome_bind (a := ()) ((req_eq_some ()).2 hact) ?_
  refine isSome_bind hpos ?_
  refine isSome_bind hg ?_
  refine isSome_bind htok ?_
  refine isSome_bind hr ?_
  refine isSome_bind (a := (genCache s s.cache).reserve -
    (baseReward (genCache s s.cache) s.dsc x tok + r.2.2)) ?_ ?_
  · rw [sub?_eq_some]
    refine ⟨?_, rfl⟩
    rw [hbase]
    exact hcov
  refine isSome_bind (a := (genCache s s.cache).supply - tok.amount) ?_ ?_
  · rw [sub?_eq_some]
    refine ⟨?_, rfl⟩
    show tok.amount ≤ s.supply
    omega
  refine isSome_bind hw2 ?_
  refine isSome_bind (a := (genSt s).bal + 0 - (baseReward (genCache s s.cache) s.dsc x tok + r.2.2)) ?_ ?_
  · rw [sub?_eq_some]
    refine ⟨?_, rfl⟩
    rw [hbase]
    show _ ≤ s.bal + 0
    have : (genCache s s.cache).reserve = s.reserve + genTot s := rfl
    omega
  rfl

/-- **progress of `claim_rewards` with one payment** (`claimRewards`, no new farming value):
    every guard is discharged except the two calls into the weekly module (the boosted claim and
    the final `update_energy_and_progress`). -/
theorem claimCore_ok {P : List Nat} {s : St} (hL : LiveInv P s) (hact : s.active = true)
    {c orig n x : Nat} {attrs : Attrs} (ha : s.md n = some (.pos attrs)) (hx : 0 < x)
    (hh : x ≤ s.hold c n) {r : Weekly.St × B × Nat}
    (hr : claimBoostedYields (genSt s) orig (s.userTotal orig) = some r)
    (hup : (updateEnergyAndProgress r.1 orig s.week (Energy.queried (s.energy orig) s.epoch)).isSome) :
    (claimCore s c orig [(n, x)] none).isSome := by
  obtain ⟨hI, hP, hPot, hB, hU, hV, hA, hd⟩ := hL
  have hpos : posOf s.md n = some attrs := posOf_of_md ha
  have hne : s.hold c n ≠ 0 := by omega
  have hamt := hold_le_amount hP hA hpos hne
  obtain ⟨tok, htok, hrps, htamt⟩ := intoPart_ok (t := attrs) hx (by omega)
  have hg := generate_ok s.cache hI.acc_le hI.pct_le
  have hcov := reward_covered hI hP hPot hB hd hpos hx hh hr
  have hbal := reserve_le_bal hI hP hU hV
  obtain ⟨w2, hw2⟩ := Option.isSome_iff_exists.mp hup
  have hbase : baseReward (genCache s s.cache) s.dsc x tok =
      baseAmt (genCache s s.cache).rps s.dsc x attrs.rps := by
    rw [baseReward_eq, hrps]
  have hcu : checkAndUpdate s.md orig s.userTotal [(n, x)] =
      some (if attrs.owner = orig then s.userTotal
        else upd (decreaseUT s.userTotal attrs.owner x) orig
          (decreaseUT s.userTotal attrs.owner x orig + x)) := by
    simp only [checkAndUpdate, hpos, Option.bind_eq_bind, Option.bind_some]
  unfold claimCore
  have hbaseOk : claimBase s c orig [(n, x)] = some
      { hold0 := upd2 s.hold c n (s.hold c n - x), s1 := genSt s, c1 := genCache s s.cache,
        w1 := r.1, b1 := r.2.1, boosted := r.2.2,
        base := baseReward (genCache s s.cache) s.dsc x tok,
        ut1 := (if attrs.owner = orig then s.userTotal
          else upd (decreaseUT s.userTotal attrs.owner x) orig
            (decreaseUT s.userTotal attrs.owner x orig + x)),
        merged := ⟨(genCache s s.cache).rps, tok.compounded, tok.amount, orig⟩ } := by
    have e0 : debit s.hold c [(n, x)] = some (upd2 s.hold c n (s.hold c n - x)) :=
      debit_single.2 ⟨hx, hh, rfl⟩
    have e1 : req (s.active = true) = some () := (req_eq_some ()).2 hact
    have hr' : claimBoostedYields (genSt s) orig ((genSt s).userTotal orig) = some r := hr
    have hcu' : checkAndUpdate s.md orig (genSt s).userTotal [(n, x)] = _ := hcu
    simp only [claimBase, e0, e1, List.head?_cons, hpos, hg, htok, hr', hcu', List.tail_cons,
      mergeParts, Option.bind_eq_bind, Option.bind_some, Option.pure_def]
  refine isSome_bind hbaseOk ?_
  unfold claimFinish
  refine isSome_bind (a := (genCache s s.cache).reserve -
    (baseReward (genCache s s.cache) s.dsc x tok + r.2.2)) ?_ ?_
  · rw [sub?_eq_some]
    refine ⟨?_, rfl⟩
    show baseReward (genCache s s.cache) s.dsc x tok + r.2.2 ≤ _
    rw [hbase]
    exact hcov
  refine isSome_bind (a := (genCache s s.cache).supply) rfl ?_
  refine isSome_bind (a := (if attrs.owner = orig then s.userTotal
          else upd (decreaseUT s.userTotal attrs.owner x) orig
            (decreaseUT s.userTotal attrs.owner x orig + x))) rfl ?_
  refine isSome_bind (a := ()) ?_ ?_
  · rw [req_eq_some]
    show 0 < tok.amount
    omega
  refine isSome_bind hw2 ?_
  refine isSome_bind (a := (genSt s).bal - (baseReward (genCache s s.cache) s.dsc x tok + r.2.2)) ?_ ?_
  · rw [sub?_eq_some]
    refine ⟨?_, rfl⟩
    show baseReward (genCache s s.cache) s.dsc x tok + r.2.2 ≤ s.bal
    rw [hbase]
    have : (genCache s s.cache).reserve = s.reserve + genTot s := rfl
    omega
  rfl

/-! ## E. from the core functions to `step` -/

/-- `unstakeFarm` sent by an account of the world, either for itself or — a whitelisted contract —
    naming an original caller: `step` is `unstake_farm_common` for `opt.getD c` -/
theorem step_unstake_eq {s : St} {c : Nat} {opt : Option Nat} {pay : Pay} (hc : c ∈ s.accts)
    (hw : opt = none ∨ c ∈ s.whitelist) :
    step s (.unstake c opt pay) = unstakeCore s c (opt.getD c) pay none := by
  have hco : callerOk s (.unstake c opt pay) = true := by
    simp only [callerOk, Op.caller, decide_eq_true_eq]; exact hc
  have hreq : req (callerOk s (.unstake c opt pay) = true) = some () := (req_eq_some ()).2 hco
  simp only [step, hreq, Option.bind_eq_bind, Option.bind_some, stepCore]
  cases opt with
  | none => rfl
  | some o =>
    have hwl : c ∈ s.whitelist := by
      rcases hw with h | h
      · cases h
      · exact h
    have e : req (c ∈ s.whitelist) = some () := (req_eq_some ()).2 hwl
    simp only [unstakeFarm, e, Option.bind_eq_bind, Option.bind_some, Option.getD_some]

/-- the same for `claimRewards` -/
theorem step_claim_eq {s : St} {c : Nat} {opt : Option Nat} {pay : Pay} (hc : c ∈ s.accts)
    (hw : opt = none ∨ c ∈ s.whitelist) :
    step s (.claim c opt pay) = claimCore s c (opt.getD c) [pay] none := by
  have hco : callerOk s (.claim c opt pay) = true := by
    simp only [callerOk, Op.caller, decide_eq_true_eq]; exact hc
  have hreq : req (callerOk s (.claim c opt pay) = true) = some () := (req_eq_some ()).2 hco
  simp only [step, hreq, Option.bind_eq_bind, Option.bind_some, stepCore]
  cases opt with
  | none => rfl
  | some o =>
    have hwl : c ∈ s.whitelist := by
      rcases hw with h | h
      · cases h
      · exact h
    have e : req (c ∈ s.whitelist) = some () := (req_eq_some ()).2 hwl
    simp only [claimRewards, e, Option.bind_eq_bind, Option.bind_some, Option.getD_some]

/-! ## F. the weekly module's global invariant in the staking world -/

/-- the embedded weekly-rewards module satisfies its global invariant and its last global update
    is not from the future -/
def WLInv (s : St) : Prop := GInv s.w ∧ s.w.lastGlobalUpdateWeek ≤ s.week

theorem week_pos (s : St) : 1 ≤ s.week := Nat.le_add_left 1 _

theorem uep_wl {g g' : Weekly.St} {user W : Nat} {cur : Energy} (hW : 1 ≤ W) (hI : GInv g)
    (h : updateEnergyAndProgress g user W cur = some g') : GInv g' ∧ g'.lastGlobalUpdateWeek = W := by
  refine ⟨updateEnergyAndProgress_GInv hW hI h, ?_⟩
  simp only [updateEnergyAndProgress, Option.bind_eq_bind, Option.bind_eq_some_iff, Option.pure_def,
    Option.some.injEq] at h
  obtain ⟨g1, h1, rfl⟩ := h
  obtain ⟨_, hl, _, _⟩ := updateUser_GRel hW hI h1
  exact hl

theorem uefu_wl {g g' : Weekly.St} {user W : Nat} {cur : Energy} (hW : 1 ≤ W) (hI : GInv g)
    (h : updateEnergyForUser g user W cur = some g') : GInv g' ∧ g'.lastGlobalUpdateWeek = W := by
  unfold updateEnergyForUser at h
  cases hq : g.progress user with
  | none =>
    simp only [hq] at h
    exact uep_wl hW hI h
  | some p =>
    simp only [hq, Option.bind_eq_bind, Option.bind_eq_some_iff] at h
    obtain ⟨_, _, h2⟩ := h
    exact uep_wl hW hI h2

theorem clearUserEnergy_wl {g g' : Weekly.St} {user W epoch remaining minFarm : Nat} (hW : 1 ≤ W)
    (hI : GInv g) (hle : g.lastGlobalUpdateWeek ≤ W)
    (h : clearUserEnergy g user W epoch remaining minFarm = some g') :
    GInv g' ∧ g'.lastGlobalUpdateWeek ≤ W := by
  refine ⟨clearUserEnergy_GInv hW hI h, ?_⟩
  unfold clearUserEnergy at h
  split at h
  · simp only [Option.some.injEq] at h; subst h; exact hle
  · simp only [Option.bind_eq_bind, Option.bind_eq_some_iff, Option.pure_def,
      Option.some.injEq] at h
    obtain ⟨g1, h1, rfl⟩ := h
    obtain ⟨_, hl, _, _⟩ := updateUser_GRel hW hI h1
    exact Nat.le_of_eq hl

theorem claimMulti_wl {σ : Type} {rw : RewardFn σ} (hrw : RwFrame rw) {g g' : Weekly.St} {c c' : σ}
    {user W : Nat} {cur : Energy} {r : List (Tok × Nat)} (hW : 1 ≤ W) (hI : GInv g)
    (h : claimMulti rw g c user W cur = some (g', c', r)) : GInv g' ∧ g'.lastGlobalUpdateWeek = W := by
  refine ⟨claimMulti_GInv hrw hW hI h, ?_⟩
  obtain ⟨g1, a, h1, _, ha, rfl, _, _⟩ := claimMulti_spec h
  obtain ⟨_, hl, _, _⟩ := updateUser_GRel hW hI h1
  obtain ⟨fr, _⟩ := claimLoop_frame hrw _ ha
  simp only at fr
  show a.g.lastGlobalUpdateWeek = W
  rw [fr.lgw]; exact hl

theorem cby_wl {s : St} {user f : Nat} {r : Weekly.St × B × Nat} (hI : GInv s.w)
    (h : claimBoostedYields s user f = some r) : GInv r.1 ∧ r.1.lastGlobalUpdateWeek ≤ s.week := by
  have h0 := h
  unfold claimBoostedYields at h
  split at h
  · rename_i hc
    obtain ⟨_, _, hu⟩ := claimBoostedYields_none_spec hc h0
    obtain ⟨k1, k2⟩ := uep_wl (week_pos s) hI hu
    exact ⟨k1, Nat.le_of_eq k2⟩
  · simp only [Option.bind_eq_bind, Option.bind_eq_some_iff, Option.pure_def, Option.some.injEq] at h
    obtain ⟨c', _, r', hr, rfl⟩ := h
    obtain ⟨k1, k2⟩ := claimMulti_wl (boostedRewards_frame _ _) (week_pos s) hI hr
    exact ⟨k1, Nat.le_of_eq k2⟩

theorem clear_wl {s : St} {g g' : Weekly.St} {u : Nat} (hI : GInv g) (hle : g.lastGlobalUpdateWeek ≤ s.week)
    (h : clearEnergyIfNeeded s g u = some g') : GInv g' ∧ g'.lastGlobalUpdateWeek ≤ s.week := by
  unfold clearEnergyIfNeeded at h
  split at h
  · simp only [Option.some.injEq] at h; subst h; exact ⟨hI, hle⟩
  · simp only [Option.bind_eq_bind, Option.bind_eq_some_iff] at h
    obtain ⟨c', _, x, _, h⟩ := h
    exact clearUserEnergy_wl (week_pos s) hI hle h

theorem WLInv.of_eq {s s' : St} (h : WLInv s) (e1 : s'.w = s.w) (e2 : s.week ≤ s'.week) : WLInv s' := by
  unfold WLInv at *
  rw [e1]; exact ⟨h.1, Nat.le_trans h.2 e2⟩

theorem stakeCore_wl {s s' : St} {c orig amount : Nat} {v : Bool} {adds : List Pay} {o : Out}
    (hI : WLInv s) (h : stakeCore s c orig amount v adds = some (s', o)) : WLInv s' := by
  cases v <;>
  · simp only [stakeCore, Option.bind_eq_bind, Option.bind_eq_some_iff, req_eq_some,
      sub?_eq_some, Option.pure_def, Option.some.injEq, Prod.mk.injEq] at h
    obtain ⟨_, _, hold0, _, r, hr, res1, _, _, _, ut1, _, ⟨s3, c3⟩, hg, merged, _, w2, hw2,
      bal1, _, rfl, _⟩ := h
    obtain ⟨_, _, rfl, rfl⟩ := generate_spec hg
    obtain ⟨k1, _⟩ := cby_wl hI.1 hr
    obtain ⟨k3, k4⟩ := uep_wl (week_pos s) k1 hw2
    exact ⟨k3, Nat.le_of_eq k4⟩

theorem claimCore_wl {s s' : St} {c orig : Nat} {pays : List Pay} {nv : Option Nat} {o : Out}
    (hI : WLInv s) (h : claimCore s c orig pays nv = some (s', o)) : WLInv s' := by
  simp only [claimCore, Option.bind_eq_bind, Option.bind_eq_some_iff] at h
  obtain ⟨m, hm, h⟩ := h
  obtain ⟨_, _, _, r, _, _, _, hr, _, hw1, _, _, _, hs1, _⟩ := claimBase_reward hm
  simp only [claimFinish, Option.bind_eq_bind, Option.bind_eq_some_iff, req_eq_some,
    sub?_eq_some, Option.pure_def, Option.some.injEq, Prod.mk.injEq] at h
  obtain ⟨res1, _, sup1, _, ut2, _, _, _, w2, hw2, bal1, _, rfl, _⟩ := h
  obtain ⟨k1, _⟩ := cby_wl (s := genSt s) hI.1 hr
  rw [hw1, hs1] at hw2
  obtain ⟨k3, k4⟩ := uep_wl (week_pos s) k1 hw2
  refine ⟨k3, ?_⟩
  show w2.lastGlobalUpdateWeek ≤ m.s1.week
  rw [hs1]
  exact Nat.le_of_eq k4

theorem compound_wl {s s' : St} {c : Nat} {pays : List Pay} {o : Out}
    (hI : WLInv s) (h : compound s c pays = some (s', o)) : WLInv s' := by
  simp only [compound, Option.bind_eq_bind, Option.bind_eq_some_iff, req_eq_some,
    sub?_eq_some, Option.pure_def, Option.some.injEq, Prod.mk.injEq] at h
  obtain ⟨hold0, _, _, _, p, _, first, _, ⟨s1, c1⟩, hg, tok, _, r, hr, res1, _, ut1, _,
    merged, _, rfl, _⟩ := h
  obtain ⟨_, _, rfl, rfl⟩ := generate_spec hg
  exact cby_wl (s := genSt s) hI.1 hr

theorem unstakeCore_wl {s s' : St} {c orig : Nat} {pay : Pay} {x : Option Nat} {o : Out}
    (hI : WLInv s) (h : unstakeCore s c orig pay x = some (s', o)) : WLInv s' := by
  cases x <;>
  · simp only [unstakeCore, Option.bind_eq_bind, Option.bind_eq_some_iff, req_eq_some,
      sub?_eq_some, Option.pure_def, Option.some.injEq, Prod.mk.injEq] at h
    obtain ⟨_, _, hold0, _, _, _, attrs, _, ⟨s1, c1⟩, hg, tok, _, r, hr, res1, _,
      sup1, _, w2, hw2, bal1, _, rfl, _⟩ := h
    obtain ⟨_, _, rfl, rfl⟩ := generate_spec hg
    obtain ⟨k1, k2⟩ := cby_wl (s := genSt s) hI.1 hr
    exact clear_wl k1 k2 hw2

theorem mergeTokens_wl {s s' : St} {c : Nat} {pays : List Pay} {o : Out}
    (hI : WLInv s) (h : mergeTokens s c pays = some (s', o)) : WLInv s' := by
  simp only [mergeTokens, Option.bind_eq_bind, Option.bind_eq_some_iff, req_eq_some,
    sub?_eq_some, Option.pure_def, Option.some.injEq, Prod.mk.injEq] at h
  obtain ⟨hold0, _, _, _, r, hr, res1, _, p, _, ut1, _, first, _, part, _, merged, _,
    bal1, _, rfl, _⟩ := h
  exact cby_wl (s := s) hI.1 hr

theorem claimBoostedRewards_wl {s s' : St} {c : Nat} {u : Option Nat} {o : Out}
    (hI : WLInv s) (h : claimBoostedRewards s c u = some (s', o)) : WLInv s' := by
  simp only [claimBoostedRewards, Option.bind_eq_bind, Option.bind_eq_some_iff, req_eq_some,
    sub?_eq_some, Option.pure_def, Option.some.injEq, Prod.mk.injEq] at h
  obtain ⟨_, _, _, _, _, _, ⟨s1, c1⟩, hg, r, hr, res1, _, bal1, _, rfl, _⟩ := h
  obtain ⟨_, _, rfl, rfl⟩ := generate_spec hg
  exact cby_wl (s := genSt s) hI.1 hr

theorem settleThen_wl {s s' : St} {f : St → St} {o : Out} (hI : WLInv s)
    (hf : ∀ t, (f t).w = t.w ∧ (f t).week = t.week)
    (h : settleThen s f = some (s', o)) : WLInv s' := by
  obtain ⟨_, rfl⟩ := settleThen_eq h
  obtain ⟨e1, e2⟩ := hf ((genSt s).flush (genCache s s.cache))
  exact hI.of_eq (by rw [e1]; rfl) (by rw [e2]; exact Nat.le_refl _)

theorem week_mono' {s s' : St} (hf : s'.firstWeek = s.firstWeek) (he : s.epoch ≤ s'.epoch) :
    s.week ≤ s'.week := by
  unfold St.week
  rw [hf]
  have : (s.epoch - s.firstWeek) / EPOCHS_IN_WEEK ≤ (s'.epoch - s.firstWeek) / EPOCHS_IN_WEEK :=
    Nat.div_le_div_right (by omega)
  omega

theorem stepCore_wl {s s' : St} {op : Op} {o : Out} (hI : WLInv s)
    (h : stepCore s op = some (s', o)) : WLInv s' := by
  cases op <;> simp only [stepCore] at h
  case stake c orig a adds =>
    cases orig <;> simp only [stakeFarm, Option.bind_eq_bind, Option.bind_eq_some_iff] at h
    · exact stakeCore_wl hI h
    · obtain ⟨_, _, h⟩ := h; exact stakeCore_wl hI h
  case stakeProxy c orig a adds =>
    simp only [stakeProxy, Option.bind_eq_bind, Option.bind_eq_some_iff] at h
    obtain ⟨_, _, h⟩ := h; exact stakeCore_wl hI h
  case stakeBehalf c u a adds =>
    simp only [stakeOnBehalf, Option.bind_eq_bind, Option.bind_eq_some_iff] at h
    obtain ⟨_, _, _, _, h⟩ := h; exact stakeCore_wl hI h
  case claim c orig p =>
    cases orig <;> simp only [claimRewards, Option.bind_eq_bind, Option.bind_eq_some_iff] at h
    · exact claimCore_wl hI h
    · obtain ⟨_, _, h⟩ := h; exact claimCore_wl hI h
  case claimNew c orig nv p =>
    simp only [claimNewValue, Option.bind_eq_bind, Option.bind_eq_some_iff] at h
    obtain ⟨_, _, h⟩ := h; exact claimCore_wl hI h
  case claimBehalf c ps =>
    simp only [claimOnBehalf, Option.bind_eq_bind, Option.bind_eq_some_iff] at h
    obtain ⟨_, _, _, _, h⟩ := h; exact claimCore_wl hI h
  case compound c ps => exact compound_wl hI h
  case unstake c orig p =>
    cases orig <;> simp only [unstakeFarm, Option.bind_eq_bind, Option.bind_eq_some_iff] at h
    · exact unstakeCore_wl hI h
    · obtain ⟨_, _, h⟩ := h; exact unstakeCore_wl hI h
  case unstakeProxy c orig x p =>
    simp only [unstakeProxy, Option.bind_eq_bind, Option.bind_eq_some_iff] at h
    obtain ⟨_, _, h⟩ := h; exact unstakeCore_wl hI h
  case unbond c p =>
    obtain ⟨_, _, _, _, _, _, rfl⟩ := unbondFarm_iff.1 h
    exact hI
  case merge c ps => exact mergeTokens_wl hI h
  case claimBoosted c u => exact claimBoostedRewards_wl hI h
  case «calc» q a t =>
    simp only [Option.map_eq_some_iff, Prod.mk.injEq] at h
    obtain ⟨_, _, rfl, _⟩ := h
    exact hI
  case transfer a b p =>
    simp only [transfer, Option.bind_eq_bind, Option.bind_eq_some_iff, req_eq_some,
      Option.pure_def, Option.some.injEq, Prod.mk.injEq] at h
    obtain ⟨_, _, hold0, _, rfl, _⟩ := h
    exact hI
  case setEnergy u a l =>
    simp only [Option.some.injEq, Prod.mk.injEq] at h
    obtain ⟨rfl, _⟩ := h
    exact hI
  case updateEnergy u =>
    simp only [updateEnergy, Option.bind_eq_bind, Option.bind_eq_some_iff,
      Option.pure_def, Option.some.injEq, Prod.mk.injEq] at h
    obtain ⟨g, hg, rfl, _⟩ := h
    obtain ⟨k1, k2⟩ := uefu_wl (week_pos s) hI.1 hg
    exact ⟨k1, Nat.le_of_eq k2⟩
  case topUp x =>
    simp only [topUp, Option.bind_eq_bind, Option.bind_eq_some_iff, req_eq_some,
      Option.pure_def, Option.some.injEq, Prod.mk.injEq] at h
    obtain ⟨_, _, rfl, _⟩ := h
    exact hI
  case withdraw x =>
    simp only [withdraw, Option.bind_eq_bind, Option.bind_eq_some_iff, req_eq_some,
      sub?_eq_some, Option.pure_def, Option.some.injEq, Prod.mk.injEq] at h
    obtain ⟨⟨s1, c1⟩, hg, rem, _, _, _, cap, _, bal1, _, rfl, _⟩ := h
    obtain ⟨_, _, rfl, rfl⟩ := generate_spec hg
    exact hI
  case setMaxApr x =>
    simp only [setMaxApr, Option.bind_eq_bind, Option.bind_eq_some_iff] at h
    obtain ⟨_, _, h⟩ := h
    exact settleThen_wl hI (f := fun t => { t with maxApr := x }) (fun _ => ⟨rfl, rfl⟩) h
  case setPerBlock x =>
    simp only [setPerBlock, Option.bind_eq_bind, Option.bind_eq_some_iff] at h
    obtain ⟨_, _, h⟩ := h
    exact settleThen_wl hI (f := fun t => { t with perBlock := x }) (fun _ => ⟨rfl, rfl⟩) h
  case startProduce =>
    simp only [startProduce, Option.bind_eq_bind, Option.bind_eq_some_iff, req_eq_some,
      Option.pure_def, Option.some.injEq, Prod.mk.injEq] at h
    obtain ⟨_, _, _, _, rfl, _⟩ := h
    exact hI
  case endProduce =>
    exact settleThen_wl hI (f := fun t => { t with produce := false }) (fun _ => ⟨rfl, rfl⟩) h
  case setMinUnbond e =>
    simp only [setMinUnbond, Option.bind_eq_bind, Option.bind_eq_some_iff, req_eq_some,
      Option.pure_def, Option.some.injEq, Prod.mk.injEq] at h
    obtain ⟨_, _, rfl, _⟩ := h
    exact hI
  case setBoostedPct p =>
    simp only [setBoostedPct, Option.bind_eq_bind, Option.bind_eq_some_iff, req_eq_some] at h
    obtain ⟨_, _, h⟩ := h
    exact settleThen_wl hI (f := fun t => { t with boostedPct := p }) (fun _ => ⟨rfl, rfl⟩) h
  case setFactors x =>
    simp only [setFactors, Option.bind_eq_bind, Option.bind_eq_some_iff, req_eq_some,
      Option.pure_def, Option.some.injEq, Prod.mk.injEq] at h
    obtain ⟨_, _, _, _, c, _, rfl, _⟩ := h
    exact hI
  case collectUndistributed =>
    simp only [collectUndistributed, Option.bind_eq_bind, Option.bind_eq_some_iff, req_eq_some] at h
    obtain ⟨_, _, h⟩ := h
    split at h <;>
    · simp only [Option.pure_def, Option.some.injEq, Prod.mk.injEq] at h
      obtain ⟨rfl, _⟩ := h
      exact hI
  case pause =>
    simp only [Option.some.injEq, Prod.mk.injEq] at h
    obtain ⟨rfl, _⟩ := h
    exact hI
  case resume =>
    simp only [Option.some.injEq, Prod.mk.injEq] at h
    obtain ⟨rfl, _⟩ := h
    exact hI
  case hubWhitelist u a =>
    simp only [Option.bind_eq_bind, Option.bind_eq_some_iff, req_eq_some,
      Option.pure_def, Option.some.injEq, Prod.mk.injEq] at h
    obtain ⟨_, _, rfl, _⟩ := h
    exact hI
  case hubRemove u a =>
    simp only [Option.bind_eq_bind, Option.bind_eq_some_iff, req_eq_some,
      Option.pure_def, Option.some.injEq, Prod.mk.injEq] at h
    obtain ⟨_, _, rfl, _⟩ := h
    exact hI
  case advance b e =>
    simp only [Option.some.injEq, Prod.mk.injEq] at h
    obtain ⟨rfl, _⟩ := h
    exact hI.of_eq rfl (week_mono' rfl (Nat.le_add_right _ _))

theorem step_wl {s s' : St} {op : Op} {o : Out} (hI : WLInv s) (h : step s op = some (s', o)) :
    WLInv s' := by
  simp only [step, Option.bind_eq_bind, Option.bind_eq_some_iff] at h
  obtain ⟨_, _, h⟩ := h
  exact stepCore_wl hI h

theorem wlInv_init (epoch block dsc maxApr minUnbond perBlock : Nat) (accts wl : List Nat) :
    WLInv (init epoch block dsc maxApr minUnbond perBlock accts wl) :=
  ⟨GInv.init, Nat.zero_le _⟩

theorem run_wl (ops : List Op) {s : St} (hI : WLInv s) : WLInv (run s ops) := by
  induction ops generalizing s with
  | nil => simpa [run] using hI
  | cons op ops ih =>
    simp only [run, List.foldl_cons]
    cases hst : step s op with
    | none => exact ih hI
    | some r =>
      obtain ⟨s1, o⟩ := r
      exact ih (step_wl hI hst)

/-- `update_energy_and_progress` cannot abort under the weekly invariant -/
theorem uep_ok {g : Weekly.St} {W : Nat} (hW : 1 ≤ W) (hI : GInv g) (hle : g.lastGlobalUpdateWeek ≤ W)
    (u : Nat) (cur : Energy) : (updateEnergyAndProgress g u W cur).isSome = true := by
  obtain ⟨g', hg'⟩ := updateUser_ok (u0 := u) cur hW hI hle
  simp only [updateEnergyAndProgress, hg', Option.bind_eq_bind, Option.bind_some, Option.pure_def,
    Option.isSome_some]

/-- without a boosted-yields config the boosted claim on the settled state cannot abort: it pays
    nothing and leaves the boosted storage alone -/
theorem cby_none_ok {s : St} (hW : WLInv s) (hc : s.b.cfg = none) (u f : Nat) :
    ∃ r, claimBoostedYields (genSt s) u f = some r ∧ r.2.1 = (genSt s).b ∧ r.2.2 = 0 := by
  have hc' : (genSt s).b.cfg = none := hc
  obtain ⟨w, hw⟩ := Option.isSome_iff_exists.mp
    (uep_ok (week_pos s) hW.1 hW.2 u (Energy.queried (s.energy u) s.epoch))
  have hw' : updateEnergyAndProgress (genSt s).w u (genSt s).week
      (Energy.queried ((genSt s).energy u) (genSt s).epoch) = some w := hw
  refine ⟨(w, (genSt s).b, 0), ?_, rfl, rfl⟩
  unfold claimBoostedYields
  rw [hc']
  simp only [hw', Option.map_some]

/-- without a boosted-yields config `clear_user_energy_if_needed` does nothing -/
theorem clear_none_ok {t : St} (hc : t.b.cfg = none) (g : Weekly.St) (u : Nat) :
    clearEnergyIfNeeded t g u = some g := by
  unfold clearEnergyIfNeeded
  rw [hc]

end Mx.Staking
