/-
  Arithmetic of position tokens (C07, staking side): `weighted_average_round_up`, `into_part`,
  `merge_with`, `merge_attributes_from_payments`.
-/
import MxModel.Lemmas.StakingReward
import MxModel.Lemmas.WeeklySum

namespace Mx.Staking

open Mx.Weekly

/-- `weighted_average_round_up`: the result times the total weight is at least the weighted sum
    and exceeds it by less than the total weight (it is the ceiling) -/
theorem weightedAvgRoundUp_bounds (v1 w1 v2 w2 : Nat) (hw : 0 < w1 + w2) :
    v1 * w1 + v2 * w2 ≤ weightedAvgRoundUp v1 w1 v2 w2 * (w1 + w2) ∧
    weightedAvgRoundUp v1 w1 v2 w2 * (w1 + w2) < v1 * w1 + v2 * w2 + (w1 + w2) := by
  unfold weightedAvgRoundUp ceilDiv
  generalize v1 * w1 + v2 * w2 = S
  generalize w1 + w2 = W at hw ⊢
  have h1 := Nat.div_mul_le_self (S + W - 1) W
  have h2 := Nat.lt_div_mul_add (a := S + W - 1) hw
  generalize (S + W - 1) / W * W = q at h1 h2
  omega

/-- merging never raises the un-rounded entitlement: for EVERY later index `R`, what the merged
    position earns (before the floor) is at most what the two parts would have earned -/
theorem merge_no_gain_arith (v1 w1 v2 w2 R : Nat) (hw : 0 < w1 + w2) :
    (w1 + w2) * (R - weightedAvgRoundUp v1 w1 v2 w2) ≤ w1 * (R - v1) + w2 * (R - v2) := by
  obtain ⟨hlo, _⟩ := weightedAvgRoundUp_bounds v1 w1 v2 w2 hw
  generalize weightedAvgRoundUp v1 w1 v2 w2 = r at hlo ⊢
  by_cases hR : R ≤ r
  · rw [Nat.sub_eq_zero_of_le hR, Nat.mul_zero]; exact Nat.zero_le _
  · have hR' : r ≤ R := by omega
    have e0 : (w1 + w2) * (R - r) + r * (w1 + w2) = (w1 + w2) * R := by
      rw [Nat.mul_comm r, ← Nat.mul_add, Nat.sub_add_cancel hR']
    have e1 : w1 * R ≤ w1 * (R - v1) + v1 * w1 := by
      rw [Nat.mul_comm v1, ← Nat.mul_add]; exact Nat.mul_le_mul_left _ (by omega)
    have e2 : w2 * R ≤ w2 * (R - v2) + v2 * w2 := by
      rw [Nat.mul_comm v2, ← Nat.mul_add]; exact Nat.mul_le_mul_left _ (by omega)
    have e3 : (w1 + w2) * R = w1 * R + w2 * R := Nat.add_mul _ _ _
    generalize (w1 + w2) * (R - r) = A at e0 ⊢
    generalize r * (w1 + w2) = B at e0 hlo
    generalize (w1 + w2) * R = C at e0 e3
    generalize w1 * R = D at e1 e3
    generalize w2 * R = E at e2 e3
    generalize w1 * (R - v1) = F at e1 ⊢
    generalize w2 * (R - v2) = G at e2 ⊢
    generalize v1 * w1 = H at e1 hlo
    generalize v2 * w2 = I at e2 hlo
    omega

/-- `merge_with`: amounts and compounded rewards add exactly, the index is the rounded-up
    weighted average, the receiver's owner is kept -/
theorem mergeWith_spec {t o m : Attrs} (h : t.mergeWith o = some m) :
    0 < t.amount + o.amount ∧ m.amount = t.amount + o.amount ∧
    m.compounded = t.compounded + o.compounded ∧
    m.rps = weightedAvgRoundUp t.rps t.amount o.rps o.amount ∧ m.owner = t.owner := by
  simp only [Attrs.mergeWith, Option.bind_eq_bind, Option.bind_eq_some_iff, req_eq_some,
    Option.pure_def, Option.some.injEq] at h
  obtain ⟨_, h1, rfl⟩ := h
  exact ⟨by omega, rfl, rfl, rfl, rfl⟩

/-- splitting a position into two parts: principal exact, compounded rewards floor (the parts
    never carry more than the whole), index and owner unchanged -/
theorem split_spec {t a b : Attrs} {x y : Nat} (hx : t.intoPart x = some a) (hy : t.intoPart y = some b)
    (hxy : x + y = t.amount) (hx0 : 0 < x) (hy0 : 0 < y) :
    a.amount + b.amount = t.amount ∧ a.compounded + b.compounded ≤ t.compounded ∧
    a.rps = t.rps ∧ b.rps = t.rps ∧ a.owner = t.owner ∧ b.owner = t.owner := by
  obtain ⟨a1, a2, a3, a4⟩ := intoPart_spec hx
  obtain ⟨b1, b2, b3, b4⟩ := intoPart_spec hy
  have nx : x ≠ t.amount := by omega
  have ny : y ≠ t.amount := by omega
  rw [if_neg nx] at a4
  rw [if_neg ny] at b4
  refine ⟨by omega, ?_, a1, b1, a2, b2⟩
  rw [a4, b4]
  have h := div_add_div_le (t.compounded * x) (t.compounded * y) t.amount
  have e : t.compounded * x + t.compounded * y = t.compounded * t.amount := by
    rw [← Nat.mul_add, hxy]
  rw [e] at h
  have hpos : 0 < t.amount := by omega
  rw [Nat.mul_div_cancel _ hpos] at h
  exact h

/-- `merge_attributes_from_payments`: the merged amount is the base amount plus every part sent;
    the owner of the base is kept -/
theorem mergeParts_spec (m : Nat → Option Meta) :
    ∀ (pays : List Pay) (base out : Attrs), mergeParts m base pays = some out →
      out.amount = base.amount + (pays.map (·.2)).sum ∧ out.owner = base.owner ∧
      base.compounded ≤ out.compounded
  | [], base, out, h => by
      simp only [mergeParts, Option.some.injEq] at h
      subst h
      simp
  | p :: ps, base, out, h => by
      simp only [mergeParts, Option.bind_eq_bind, Option.bind_eq_some_iff] at h
      obtain ⟨a, _, part, hp, mg, hm, hrest⟩ := h
      obtain ⟨_, _, e3, _⟩ := intoPart_spec hp
      obtain ⟨_, m2, m3, _, m5⟩ := mergeWith_spec hm
      obtain ⟨r1, r2, r3⟩ := mergeParts_spec m ps mg out hrest
      simp only [List.map_cons, List.sum_cons]
      refine ⟨by omega, by rw [r2, m5], by omega⟩

end Mx.Staking
