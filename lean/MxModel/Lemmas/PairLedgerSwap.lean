/-
  Swaps seen from the ledger: which wallets a swap call touches and by how much, and the exact
  split of what the caller pays between the pair, the reserve and the fee sinks.
  Used by Props/C03Ledger.lean.
-/
import MxModel.Lemmas.PairLedgerInv

namespace Mx.PairLedger
open Mx.Pair

/-! ### direction-generic views of a wallet -/

def Acct.tokIn (x : Acct) : Dir → Nat
  | .ab => x.a
  | .ba => x.b
def Acct.tokOut (x : Acct) : Dir → Nat
  | .ab => x.b
  | .ba => x.a
def Acct.lkIn (x : Acct) : Dir → Nat
  | .ab => x.lkA
  | .ba => x.lkB
def Acct.lkOut (x : Acct) : Dir → Nat
  | .ab => x.lkB
  | .ba => x.lkA

/-- the pair contract's book-kept wallet of the input / output token of direction `d` -/
def L.pairIn (l : L) : Dir → Nat
  | .ab => l.pairA
  | .ba => l.pairB
def L.pairOut (l : L) : Dir → Nat
  | .ab => l.pairB
  | .ba => l.pairA

/-- what the pair keeps of the caller's payment: the whole payment for fixed input, the amount
    `get_amount_in` asks (payment − refund) for fixed output -/
def chargedOf : Op → Out → Nat
  | .swapIn _ a _, _ => a
  | .swapOut _ _ _, o => o.v2
  | _, _ => 0

/-- EVERY call (any operation): the wallets of all accounts other than the caller are
    untouched, no account appears or disappears -/
theorem call_touches_only_caller {l l' : L} {i : Nat} {op : Op} {o : Out}
    (h : stepL l (.call i op) = some (l', o)) :
    l'.accts.length = l.accts.length ∧ ∀ j, j ≠ i → l'.accts[j]? = l.accts[j]? := by
  obtain ⟨_, _, acc', _, _, _, _, e2, _⟩ := stepL_call_spec h
  rw [e2]
  exact ⟨length_set' _ _ _, fun j hj => getElem?_set_ne' _ _ (Ne.symm hj)⟩

/-- a swap call: the caller's wallet before and after -/
theorem swap_caller_wallet {l l' : L} {i : Nat} {op : Op} {o : Out} (hsw : isSwap op = true)
    (h : stepL l (.call i op) = some (l', o)) :
    ∃ acc acc', l.accts[i]? = some acc ∧ l'.accts[i]? = some acc' ∧
      chargedOf op o ≤ acc.tokIn (swapDir op) ∧
      acc'.tokIn (swapDir op) = acc.tokIn (swapDir op) - chargedOf op o ∧
      acc'.tokOut (swapDir op) = acc.tokOut (swapDir op) + o.plainAmt ∧
      acc'.lkOut (swapDir op) = acc.lkOut (swapDir op) + o.lockedAmt ∧
      acc'.lkIn (swapDir op) = acc.lkIn (swapDir op) ∧ acc'.lp = acc.lp ∧
      o.plainAmt + o.lockedAmt = o.v1 := by
  obtain ⟨p', acc, acc', hs, ha, hp, -, e2, -⟩ := stepL_call_spec h
  have ha' : l'.accts[i]? = some acc' := by rw [e2]; exact getElem?_set_self' _ _ _ ha
  obtain ⟨q1, q2, q3, rfl⟩ := pay_spec hp
  refine ⟨acc, _, ha, ha', ?_⟩
  have hpl := plain_add_locked o
  cases op <;> simp only [isSwap] at hsw <;> try contradiction
  case swapIn d a m =>
    cases d <;>
      simp only [move] at q1 q2 q3 <;>
      simp only [move, swapDir, chargedOf, Acct.tokIn, Acct.tokOut, Acct.lkIn, Acct.lkOut] <;>
      refine ⟨?_, ?_, ?_, ?_, ?_, ?_, ?_⟩ <;> omega
  case swapOut d mx out =>
    simp only [step] at hs
    obtain ⟨_, _, -, -, -, -, -, ho, hle, -, -, -, -, -, -, -⟩ := swapOut_spec hs
    have hv3 : o.v3 = mx - o.v2 := by rw [ho]
    clear ho hs h ha ha' hp e2
    cases d <;>
      simp only [move] at q1 q2 q3 <;>
      simp only [move, swapDir, chargedOf, Acct.tokIn, Acct.tokOut, Acct.lkIn, Acct.lkOut] <;>
      refine ⟨?_, ?_, ?_, ?_, ?_, ?_, ?_⟩ <;> omega

/-- a swap call, all accounts together: they hold exactly `charged` less of the input token,
    exactly `out` more of the output token (plain + LOCKED), and the same LP and LOCKED
    input-token amounts — no account is credited anything else -/
theorem swap_accounts_total {l l' : L} {i : Nat} {op : Op} {o : Out} (hsw : isSwap op = true)
    (h : stepL l (.call i op) = some (l', o)) :
    sumOf (·.tokIn (swapDir op)) l'.accts + chargedOf op o = sumOf (·.tokIn (swapDir op)) l.accts ∧
    sumOf (·.tokOut (swapDir op)) l'.accts = sumOf (·.tokOut (swapDir op)) l.accts + o.plainAmt ∧
    sumOf (·.lkOut (swapDir op)) l'.accts = sumOf (·.lkOut (swapDir op)) l.accts + o.lockedAmt ∧
    sumOf (·.lkIn (swapDir op)) l'.accts = sumOf (·.lkIn (swapDir op)) l.accts ∧
    sumOf (·.lp) l'.accts = sumOf (·.lp) l.accts := by
  obtain ⟨acc, acc', ha, ha', w1, w2, w3, w4, w5, w6, _⟩ := swap_caller_wallet hsw h
  obtain ⟨_, _, acc'', _, ha2, _, _, e2, _⟩ := stepL_call_spec h
  have : acc'' = acc' := by
    have h1 : l'.accts[i]? = some acc'' := by rw [e2]; exact getElem?_set_self' _ _ _ ha2
    rw [ha'] at h1
    exact (Option.some.inj h1).symm
  subst this
  have s1 := sumOf_set (·.tokIn (swapDir op)) l.accts i acc acc'' ha
  have s2 := sumOf_set (·.tokOut (swapDir op)) l.accts i acc acc'' ha
  have s3 := sumOf_set (·.lkOut (swapDir op)) l.accts i acc acc'' ha
  have s4 := sumOf_set (·.lkIn (swapDir op)) l.accts i acc acc'' ha
  have s5 := sumOf_set (·.lp) l.accts i acc acc'' ha
  beta_reduce at s1 s2 s3 s4 s5
  rw [e2]
  refine ⟨?_, ?_, ?_, ?_, ?_⟩ <;> omega

/-- the complete token account of a swap at the level of `Pair.step` (either endpoint) -/
theorem swap_acct_step {s s' : St} {op : Op} {o : Out} (hi : Inv s) (hsw : isSwap op = true)
    (h : step s op = some (s', o)) :
    SwapAcct (swapDir op) s s' (chargedOf op o) (swapFee s (chargedOf op o)) o.v1 ∧
    swapFee s (chargedOf op o) ≤ chargedOf op o ∧
    swapFee s (chargedOf op o) ≤ chargedOf op o * s.special / M := by
  have hf : ∀ c, swapFee s c ≤ c * s.special / M := by
    intro c
    unfold swapFee specialFee; split
    · exact Nat.le_refl _
    · exact Nat.zero_le _
  cases op <;> simp only [isSwap] at hsw <;> try contradiction
  case swapIn d a m =>
    simp only [step] at h
    have hb : s.rin d ≤ s.balIn d := by cases d; exact hi.back1; exact hi.back2
    obtain ⟨_, _, -, -, -, -, -, -, -, -, h9, -, -, -, -, -⟩ := swapIn_spec h
    exact ⟨swapIn_acct hb h, h9, hf _⟩
  case swapOut d mx out =>
    simp only [step] at h
    have hb : s.rin d ≤ s.balIn d := by cases d; exact hi.back1; exact hi.back2
    obtain ⟨_, _, -, -, -, -, -, ho, -, -, h9, -, -, -, -, -⟩ := swapOut_spec h
    have hv1 : o.v1 = out := by rw [ho]
    refine ⟨?_, h9, hf _⟩
    simp only [swapDir, chargedOf]
    rw [hv1]
    exact swapOut_acct hb h

/-- simple-lock's side of a swap (either endpoint): it gains exactly the LOCKED amount
    delivered, of the output token only -/
theorem swap_slk_step {s s' : St} {op : Op} {o : Out} (hsw : isSwap op = true)
    (h : step s op = some (s', o)) :
    s'.slkOut (swapDir op) = s.slkOut (swapDir op) + o.lockedAmt ∧
    s'.slkIn (swapDir op) = s.slkIn (swapDir op) := by
  cases op <;> simp only [isSwap] at hsw <;> try contradiction
  case swapIn d a m =>
    simp only [step] at h
    exact (swapIn_lock_spec h).2
  case swapOut d mx out =>
    simp only [step] at h
    exact (swapOut_lock_spec h).2

/-- with a zero special fee nothing is routed: no output-side sink moves -/
theorem swap_feezero_step {s s' : St} {op : Op} {o : Out} (hsw : isSwap op = true)
    (hz : swapFee s (chargedOf op o) = 0) (h : step s op = some (s', o)) :
    s'.burnOut (swapDir op) = s.burnOut (swapDir op) ∧ s'.extOut (swapDir op) = s.extOut (swapDir op) := by
  cases op <;> simp only [isSwap] at hsw <;> try contradiction
  case swapIn d a m =>
    simp only [step] at h
    simp only [chargedOf] at hz
    obtain ⟨s3, hsf, -, rfl⟩ := swapIn_parts h
    rw [hz, sendFee_zero] at hsf
    obtain ⟨-, e2, -, -, -, e6⟩ := swapEnd_counters s3 d o.lockedAmt (s3.balIn d) (s3.balOut d - o.v1)
    simp only [Option.some.injEq] at hsf
    subst hsf
    simp only [swapDir]
    exact ⟨e2.trans (swapMid_burnOut _ _ _ _ _), e6.trans (swapMid_extOut _ _ _ _ _)⟩
  case swapOut d mx out =>
    simp only [step] at h
    simp only [chargedOf] at hz
    obtain ⟨s3, hsf, -, rfl⟩ := swapOut_parts h
    rw [hz, sendFee_zero] at hsf
    obtain ⟨-, e2, -, -, -, e6⟩ := swapEnd_counters s3 d o.lockedAmt (s3.balIn d) (s3.balOut d - out)
    simp only [Option.some.injEq] at hsf
    subst hsf
    simp only [swapDir]
    exact ⟨e2.trans (swapMid_burnOut _ _ _ _ _), e6.trans (swapMid_extOut _ _ _ _ _)⟩

theorem LInv.pairIn {l : L} (h : LInv l) (d : Dir) : l.pairIn d = l.p.balIn d := by
  cases d
  · exact h.pairA
  · exact h.pairB
theorem LInv.pairOut {l : L} (h : LInv l) (d : Dir) : l.pairOut d = l.p.balOut d := by
  cases d
  · exact h.pairB
  · exact h.pairA

end Mx.PairLedger
