/-
  The accounting effect `Eff s s'` of one successful transaction of the staking model, proved
  for every endpoint.  All C12 / C05 accounting theorems are consequences of `Eff`.
-/
import MxModel.Lemmas.StakingSpec

namespace Mx.Staking

open Mx.Weekly

/-- What a successful transaction does to the accounting cells:
    * `tot` is accrued — either nothing, or exactly `genTot s` (one `generate` under the
      pre-state's configuration), of which `cut` goes to the boosted pool of the week;
    * `pb` / `pbo` base / boosted rewards are paid out of the reserve (or compounded);
    * the capacity moves by an admin top-up `up` or a withdrawal `down` that fits into the
      capacity not yet accrued AFTER settling;
    * the contract's balance moves with principal, unbond tokens, capacity and payouts. -/
def Eff (s s' : St) : Prop :=
  ∃ tot cut pb pbo up down : Nat,
    ((tot = 0 ∧ cut = 0) ∨ (s.accumulated ≤ s.capacity ∧ tot = genTot s ∧ cut = genCut s tot)) ∧
    cut ≤ tot ∧
    s'.accumulated = s.accumulated + tot ∧
    s'.baseBudget = s.baseBudget + (tot - cut) ∧
    s'.boostedBudget = s.boostedBudget + cut ∧
    s'.paidBase = s.paidBase + pb ∧
    s'.paidBoosted = s.paidBoosted + pbo ∧
    s'.reserve + pb + pbo = s.reserve + tot ∧
    s'.capacity + down = s.capacity + up ∧
    (down = 0 ∨ (up = 0 ∧ s.accumulated + tot + down ≤ s.capacity)) ∧
    (s'.bal : Int) + s'.virt - s'.supply - s'.unbondOut
      = (s.bal : Int) + s.virt - s.supply - s.unbondOut + up - down - pb - pbo ∧
    (s.boostedPct ≤ MAX_PERCENT → s'.boostedPct ≤ MAX_PERCENT) ∧
    s'.firstWeek = s.firstWeek ∧ s.epoch ≤ s'.epoch

/-- closes the conjunction of `Eff` once the witnesses are given and the projections simplified -/
macro "eff_close" : tactic => `(tactic|
  (and_intros <;>
    first
    | trivial
    | omega
    | exact id
    | exact Or.inl trivial
    | exact Or.inl rfl
    | (refine Or.inr ⟨?_, ?_⟩ <;> first | trivial | omega)))

theorem claimBoostedRewards_eff {s s' : St} {c : Nat} {u : Option Nat} {o : Out}
    (h : claimBoostedRewards s c u = some (s', o)) : Eff s s' := by
  simp only [claimBoostedRewards, Option.bind_eq_bind, Option.bind_eq_some_iff, req_eq_some,
    sub?_eq_some, Option.pure_def, Option.some.injEq, Prod.mk.injEq] at h
  obtain ⟨_, _, _, _, _, _, ⟨s1, c1⟩, hg, r, _, res, ⟨hres, rfl⟩, bal1, ⟨hbal, rfl⟩, rfl, _⟩ := h
  obtain ⟨ha, hc, rfl, rfl⟩ := generate_spec hg
  refine ⟨genTot s, genCut s (genTot s), 0, r.2.2, 0, 0, Or.inr ⟨ha, rfl, rfl⟩, hc, ?_⟩
  simp only [genSt_accumulated, genSt_baseBudget, genSt_boostedBudget, genSt_paidBase, genSt_paidBoosted,
    genSt_capacity, genSt_bal, genSt_virt, genSt_unbondOut, genSt_boostedPct, genSt_firstWeek, genSt_epoch,
    genCache_reserve, genCache_supply, St.cache] at hres hbal ⊢
  eff_close

/-- the simp set that exposes the accounting projections -/
macro "eff_simp" " at " loc:Lean.Parser.Tactic.locationHyp : tactic => `(tactic|
  simp (config := { maxSteps := 2000000 }) only [genSt_accumulated, genSt_baseBudget, genSt_boostedBudget, genSt_paidBase, genSt_paidBoosted,
    genSt_capacity, genSt_bal, genSt_virt, genSt_unbondOut, genSt_boostedPct, genSt_firstWeek, genSt_epoch,
    genSt_supply, genSt_reserve, genCache_reserve, genCache_supply, St.cache, St.flush, genTot, genCut] at $loc)

theorem stakeCore_eff {s s' : St} {c orig amount : Nat} {v : Bool} {adds : List Pay} {o : Out}
    (h : stakeCore s c orig amount v adds = some (s', o)) : Eff s s' := by
  cases v <;>
  · simp only [stakeCore, Option.bind_eq_bind, Option.bind_eq_some_iff, req_eq_some,
      sub?_eq_some, Option.pure_def, Option.some.injEq, Prod.mk.injEq] at h
    obtain ⟨_, _, hold0, _, r, _, res1, ⟨hres, rfl⟩, _, _, ut1, _, ⟨s3, c3⟩, hg, merged, _, w2, _,
      bal1, ⟨hbal, rfl⟩, rfl, _⟩ := h
    obtain ⟨ha, hc, rfl, rfl⟩ := generate_spec hg
    refine ⟨_, _, 0, r.2.2, 0, 0, Or.inr ⟨ha, rfl, rfl⟩, hc, ?_⟩
    simp only [genSt_accumulated, genSt_baseBudget, genSt_boostedBudget, genSt_paidBase, genSt_paidBoosted,
      genSt_capacity, genSt_bal, genSt_virt, genSt_unbondOut, genSt_boostedPct, genSt_firstWeek, genSt_epoch,
      genSt_supply, genSt_reserve, genCache_reserve, genCache_supply, St.cache, St.flush, genTot, genCut,
      Bool.false_eq_true, if_false, if_true] at hres hbal hc ⊢
    eff_close


end Mx.Staking
