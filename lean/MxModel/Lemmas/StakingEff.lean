/-
  The accounting effect `Eff s s'` of one successful transaction of the staking model, proved
  for every endpoint.  All C12 / C05 accounting theorems are consequences of `Eff`.
-/
import MxModel.Lemmas.StakingSpec

namespace Mx.Staking

open Mx.Weekly

/-- What a successful transaction does to the accounting cells:
    * `tot` is accrued — either nothing, or exactly `genTot s` (one `generate` under the
      pre-state's configuration), of which `cut` goes to the boosted pool of the week and the
      rest raises the index by `inc = ⌊(tot − cut)·dsc/supply⌋` (nothing at zero supply); a
      `generate` moves `lastBlock` to the current block;
    * `pb` / `pbo` base / boosted rewards are paid out of the reserve (or compounded);
    * the capacity moves by an admin top-up `up` or a withdrawal `down` that fits into the
      capacity not yet accrued AFTER settling;
    * the contract's balance moves with principal, unbond tokens, capacity and payouts. -/
def Eff (s s' : St) : Prop :=
  ∃ tot cut inc pb pbo up down : Nat,
    ((tot = 0 ∧ cut = 0 ∧ inc = 0 ∧ (s'.lastBlock = s.lastBlock ∨ s'.lastBlock = s.block)) ∨
     (s.accumulated ≤ s.capacity ∧ tot = genTot s ∧ cut = genCut s tot ∧
        inc = rpsInc s.dsc (tot - cut) s.supply ∧ s'.lastBlock = max s.lastBlock s.block)) ∧
    cut ≤ tot ∧
    s'.accumulated = s.accumulated + tot ∧
    s'.baseBudget = s.baseBudget + (tot - cut) ∧
    s'.boostedBudget = s.boostedBudget + cut ∧
    s'.paidBase = s.paidBase + pb ∧
    s'.paidBoosted = s.paidBoosted + pbo ∧
    s'.reserve + pb + pbo = s.reserve + tot ∧
    s'.capacity + down = s.capacity + up ∧
    (down = 0 ∨ (up = 0 ∧ s.accumulated + tot + down ≤ s.capacity)) ∧
    (s'.bal : Int) + s'.virt - s'.supply - s'.unbondOut
      = (s.bal : Int) + s.virt - s.supply - s.unbondOut + up - down - pb - pbo ∧
    (s.boostedPct ≤ MAX_PERCENT → s'.boostedPct ≤ MAX_PERCENT) ∧
    s'.firstWeek = s.firstWeek ∧ s.epoch ≤ s'.epoch ∧
    s'.rps = s.rps + inc ∧ s'.dsc = s.dsc ∧ s.block ≤ s'.block

/-- closes the conjunction of `Eff` once the witnesses are given and the projections simplified -/
macro "eff_close" : tactic => `(tactic|
  ((try dsimp only) <;> and_intros <;>
    first
    | trivial
    | omega
    | exact id
    | exact Or.inl trivial
    | exact Or.inl rfl
    | (refine Or.inr ⟨?_, ?_⟩ <;> first | trivial | omega)))

/-- the simp set that exposes the accounting projections -/
macro "eff_simp" " at " loc:Lean.Parser.Tactic.locationHyp : tactic => `(tactic|
  simp (config := { maxSteps := 2000000 }) only [genSt_accumulated, genSt_baseBudget, genSt_boostedBudget, genSt_paidBase, genSt_paidBoosted,
    genSt_capacity, genSt_bal, genSt_virt, genSt_unbondOut, genSt_boostedPct, genSt_firstWeek, genSt_epoch,
    genSt_supply, genSt_reserve, genSt_dsc, genSt_block, genSt_rps, genCache_reserve, genCache_supply, genCache_rps,
    St.cache, St.flush, genTot, genCut] at $loc)

theorem claimBoostedRewards_eff {s s' : St} {c : Nat} {u : Option Nat} {o : Out}
    (h : claimBoostedRewards s c u = some (s', o)) : Eff s s' := by
  simp only [claimBoostedRewards, Option.bind_eq_bind, Option.bind_eq_some_iff, req_eq_some,
    sub?_eq_some, Option.pure_def, Option.some.injEq, Prod.mk.injEq] at h
  obtain ⟨_, _, _, _, _, _, ⟨s1, c1⟩, hg, r, _, res, ⟨hres, rfl⟩, bal1, ⟨hbal, rfl⟩, rfl, _⟩ := h
  obtain ⟨ha, hc, rfl, rfl⟩ := generate_spec hg
  refine ⟨_, _, _, 0, r.2.2, 0, 0, Or.inr ⟨ha, rfl, rfl, rfl, rfl⟩, hc, ?_⟩
  eff_simp at hres hbal ⊢
  eff_close

theorem stakeCore_eff {s s' : St} {c orig amount : Nat} {v : Bool} {adds : List Pay} {o : Out}
    (h : stakeCore s c orig amount v adds = some (s', o)) : Eff s s' := by
  cases v <;>
  · simp only [stakeCore, Option.bind_eq_bind, Option.bind_eq_some_iff, req_eq_some,
      sub?_eq_some, Option.pure_def, Option.some.injEq, Prod.mk.injEq] at h
    obtain ⟨_, _, hold0, _, r, _, res1, ⟨hres, rfl⟩, _, _, ut1, _, ⟨s3, c3⟩, hg, merged, _, w2, _,
      bal1, ⟨hbal, rfl⟩, rfl, _⟩ := h
    obtain ⟨ha, hc, rfl, rfl⟩ := generate_spec hg
    refine ⟨_, _, _, 0, r.2.2, 0, 0, Or.inr ⟨ha, rfl, rfl, rfl, rfl⟩, hc, ?_⟩
    simp only [genSt_accumulated, genSt_baseBudget, genSt_boostedBudget, genSt_paidBase, genSt_paidBoosted,
      genSt_capacity, genSt_bal, genSt_virt, genSt_unbondOut, genSt_boostedPct, genSt_firstWeek, genSt_epoch,
      genSt_supply, genSt_reserve, genSt_dsc, genSt_block, genSt_rps, genCache_reserve, genCache_supply, genCache_rps,
      St.cache, St.flush, genTot, genCut, Bool.false_eq_true, if_false, if_true] at hres hbal hc ⊢
    eff_close


theorem claimBase_spec {s : St} {c orig : Nat} {pays : List Pay} {m : ClaimMid}
    (h : claimBase s c orig pays = some m) :
    s.accumulated ≤ s.capacity ∧ genCut s (genTot s) ≤ genTot s ∧
    m.s1 = genSt s ∧ m.c1 = genCache s s.cache := by
  simp only [claimBase, Option.bind_eq_bind, Option.bind_eq_some_iff, req_eq_some,
    Option.pure_def, Option.some.injEq] at h
  obtain ⟨hold0, _, _, _, p, _, first, _, ⟨s1, c1⟩, hg, tok, _, r, _, ut1, _, merged, _, rfl⟩ := h
  obtain ⟨ha, hc, rfl, rfl⟩ := generate_spec hg
  exact ⟨ha, hc, rfl, rfl⟩

theorem claimCore_eff {s s' : St} {c orig : Nat} {pays : List Pay} {nv : Option Nat} {o : Out}
    (h : claimCore s c orig pays nv = some (s', o)) : Eff s s' := by
  simp only [claimCore, Option.bind_eq_bind, Option.bind_eq_some_iff] at h
  obtain ⟨m, hm, h⟩ := h
  obtain ⟨ha, hc, e1, e2⟩ := claimBase_spec hm
  cases nv with
  | none =>
    simp only [claimFinish, Option.bind_eq_bind, Option.bind_eq_some_iff, req_eq_some,
      sub?_eq_some, Option.pure_def, Option.some.injEq, Prod.mk.injEq, Option.getD_none,
      newSupply, newUserTotal] at h
    obtain ⟨res1, ⟨hres, rfl⟩, sup1, rfl, ut2, rfl, _, _, w2, _, bal1, ⟨hbal, rfl⟩, rfl, _⟩ := h
    rw [e1] at hbal ⊢
    rw [e2] at hres ⊢
    refine ⟨_, _, _, m.base, m.boosted, 0, 0, Or.inr ⟨ha, rfl, rfl, rfl, rfl⟩, hc, ?_⟩
    eff_simp at hres hbal hc ⊢
    eff_close
  | some x =>
    simp only [claimFinish, Option.bind_eq_bind, Option.bind_eq_some_iff, req_eq_some,
      sub?_eq_some, Option.pure_def, Option.some.injEq, Prod.mk.injEq, Option.getD_some,
      Option.map_eq_some_iff, newSupply, newUserTotal] at h
    obtain ⟨res1, ⟨hres, rfl⟩, sup1, ⟨v1, ⟨hsup, rfl⟩, rfl⟩, ut2, ⟨v2, ⟨hut, rfl⟩, rfl⟩, _, _, w2, _,
      bal1, ⟨hbal, rfl⟩, rfl, _⟩ := h
    rw [e1] at hbal ⊢
    rw [e2] at hres hsup ⊢
    refine ⟨_, _, _, m.base, m.boosted, 0, 0, Or.inr ⟨ha, rfl, rfl, rfl, rfl⟩, hc, ?_⟩
    eff_simp at hres hbal hc hsup ⊢
    eff_close

theorem compound_eff {s s' : St} {c : Nat} {pays : List Pay} {o : Out}
    (h : compound s c pays = some (s', o)) : Eff s s' := by
  simp only [compound, Option.bind_eq_bind, Option.bind_eq_some_iff, req_eq_some,
    sub?_eq_some, Option.pure_def, Option.some.injEq, Prod.mk.injEq] at h
  obtain ⟨hold0, _, _, _, p, _, first, _, ⟨s1, c1⟩, hg, tok, _, r, _, res1, ⟨hres, rfl⟩, ut1, _,
    merged, _, rfl, _⟩ := h
  obtain ⟨ha, hc, rfl, rfl⟩ := generate_spec hg
  refine ⟨_, _, _, baseReward (genCache s s.cache) s.dsc p.2 tok, r.2.2, 0, 0, Or.inr ⟨ha, rfl, rfl, rfl, rfl⟩, hc, ?_⟩
  eff_simp at hres hc ⊢
  eff_close

theorem unstakeCore_eff {s s' : St} {c orig : Nat} {pay : Pay} {x : Option Nat} {o : Out}
    (h : unstakeCore s c orig pay x = some (s', o)) : Eff s s' := by
  cases x <;>
  · simp only [unstakeCore, Option.bind_eq_bind, Option.bind_eq_some_iff, req_eq_some,
      sub?_eq_some, Option.pure_def, Option.some.injEq, Prod.mk.injEq, Option.getD_none, Option.getD_some] at h
    obtain ⟨_, _, hold0, _, _, _, attrs, _, ⟨s1, c1⟩, hg, tok, _, r, _, res1, ⟨hres, rfl⟩,
      sup1, ⟨hsup, rfl⟩, w2, _, bal1, ⟨hbal, rfl⟩, rfl, _⟩ := h
    obtain ⟨ha, hc, rfl, rfl⟩ := generate_spec hg
    refine ⟨_, _, _, baseReward (genCache s s.cache) s.dsc pay.2 tok, r.2.2, 0, 0, Or.inr ⟨ha, rfl, rfl, rfl, rfl⟩, hc, ?_⟩
    eff_simp at hres hbal hsup hc ⊢
    eff_close

theorem unbondFarm_eff {s s' : St} {c : Nat} {pay : Pay} {o : Out}
    (h : unbondFarm s c pay = some (s', o)) : Eff s s' := by
  simp only [unbondFarm, Option.bind_eq_bind, Option.bind_eq_some_iff, req_eq_some,
    sub?_eq_some, Option.pure_def, Option.some.injEq, Prod.mk.injEq] at h
  obtain ⟨hold0, _, _, _, unlock, _, _, _, bal1, ⟨hbal, rfl⟩, rfl, _⟩ := h
  refine ⟨0, 0, 0, 0, 0, 0, 0, Or.inl ⟨rfl, rfl, rfl, Or.inl rfl⟩, Nat.le_refl _, ?_⟩
  eff_close

theorem mergeTokens_eff {s s' : St} {c : Nat} {pays : List Pay} {o : Out}
    (h : mergeTokens s c pays = some (s', o)) : Eff s s' := by
  simp only [mergeTokens, Option.bind_eq_bind, Option.bind_eq_some_iff, req_eq_some,
    sub?_eq_some, Option.pure_def, Option.some.injEq, Prod.mk.injEq] at h
  obtain ⟨hold0, _, _, _, r, _, res1, ⟨hres, rfl⟩, p, _, ut1, _, first, _, part, _, merged, _,
    bal1, ⟨hbal, rfl⟩, rfl, _⟩ := h
  refine ⟨0, 0, 0, 0, r.2.2, 0, 0, Or.inl ⟨rfl, rfl, rfl, Or.inl rfl⟩, Nat.le_refl _, ?_⟩
  eff_close

theorem calcRewards_eff {s s' : St} {q : Bool} {amt : Nat} {t : Attrs} {v : Nat}
    (h : calcRewards s q amt t = some (s', v)) : Eff s s' := by
  simp only [calcRewards, Option.bind_eq_bind, Option.bind_eq_some_iff, req_eq_some,
    Option.pure_def, Option.some.injEq, Prod.mk.injEq] at h
  obtain ⟨_, _, ⟨s1, c1⟩, hg, r, _, rfl, _⟩ := h
  obtain ⟨ha, hc, rfl, rfl⟩ := generate_spec hg
  refine ⟨_, _, _, 0, 0, 0, 0, Or.inr ⟨ha, rfl, rfl, rfl, rfl⟩, hc, ?_⟩
  eff_simp at hc ⊢
  eff_close

theorem topUp_eff {s s' : St} {x : Nat} {o : Out} (h : topUp s x = some (s', o)) : Eff s s' := by
  simp only [topUp, Option.bind_eq_bind, Option.bind_eq_some_iff, req_eq_some,
    Option.pure_def, Option.some.injEq, Prod.mk.injEq] at h
  obtain ⟨_, _, rfl, _⟩ := h
  refine ⟨0, 0, 0, 0, 0, x, 0, Or.inl ⟨rfl, rfl, rfl, Or.inl rfl⟩, Nat.le_refl _, ?_⟩
  eff_close

theorem withdraw_eff {s s' : St} {x : Nat} {o : Out} (h : withdraw s x = some (s', o)) : Eff s s' := by
  simp only [withdraw, Option.bind_eq_bind, Option.bind_eq_some_iff, req_eq_some,
    sub?_eq_some, Option.pure_def, Option.some.injEq, Prod.mk.injEq] at h
  obtain ⟨⟨s1, c1⟩, hg, rem, ⟨hrem, rfl⟩, _, hx, cap, ⟨hcap, rfl⟩, bal1, ⟨hbal, rfl⟩, rfl, _⟩ := h
  obtain ⟨ha, hc, rfl, rfl⟩ := generate_spec hg
  refine ⟨_, _, _, 0, 0, 0, x, Or.inr ⟨ha, rfl, rfl, rfl, rfl⟩, hc, ?_⟩
  eff_simp at hrem hx hcap hbal hc ⊢
  eff_close

theorem settleThen_eff {s s' : St} {f : St → St} {o : Out}
    (hf : ∀ t, (f t).accumulated = t.accumulated ∧ (f t).baseBudget = t.baseBudget ∧
      (f t).boostedBudget = t.boostedBudget ∧ (f t).paidBase = t.paidBase ∧
      (f t).paidBoosted = t.paidBoosted ∧ (f t).reserve = t.reserve ∧ (f t).capacity = t.capacity ∧
      (f t).bal = t.bal ∧ (f t).virt = t.virt ∧ (f t).supply = t.supply ∧
      (f t).unbondOut = t.unbondOut ∧ (f t).firstWeek = t.firstWeek ∧ (f t).epoch = t.epoch ∧
      (f t).rps = t.rps ∧ (f t).dsc = t.dsc ∧ (f t).block = t.block ∧ (f t).lastBlock = t.lastBlock)
    (hp : ∀ t, t.boostedPct ≤ MAX_PERCENT → (f t).boostedPct ≤ MAX_PERCENT)
    (h : settleThen s f = some (s', o)) : Eff s s' := by
  simp only [settleThen, Option.bind_eq_bind, Option.bind_eq_some_iff,
    Option.pure_def, Option.some.injEq, Prod.mk.injEq] at h
  obtain ⟨⟨s1, c1⟩, hg, rfl, _⟩ := h
  obtain ⟨ha, hc, rfl, rfl⟩ := generate_spec hg
  obtain ⟨f1, f2, f3, f4, f5, f6, f7, f8, f9, f10, f11, f12, f13, f14, f15, f16, f17⟩ :=
    hf ((genSt s).flush (genCache s s.cache))
  have hp' := hp ((genSt s).flush (genCache s s.cache))
  refine ⟨_, _, _, 0, 0, 0, 0, Or.inr ⟨ha, rfl, rfl, rfl, f17⟩, hc, ?_⟩
  rw [f1, f2, f3, f4, f5, f6, f7, f8, f9, f10, f11, f12, f13, f14, f15, f16]
  eff_simp at hc hp' ⊢
  and_intros <;> first | trivial | omega | exact hp' | exact Or.inl trivial


/-- an operation that touches no accounting cell -/
theorem Eff.of_frame {s s' : St}
    (h : s'.accumulated = s.accumulated ∧ s'.baseBudget = s.baseBudget ∧
      s'.boostedBudget = s.boostedBudget ∧ s'.paidBase = s.paidBase ∧
      s'.paidBoosted = s.paidBoosted ∧ s'.reserve = s.reserve ∧ s'.capacity = s.capacity ∧
      s'.bal = s.bal ∧ s'.virt = s.virt ∧ s'.supply = s.supply ∧
      s'.unbondOut = s.unbondOut ∧ s'.boostedPct = s.boostedPct ∧ s'.firstWeek = s.firstWeek ∧
      s'.rps = s.rps ∧ s'.dsc = s.dsc ∧ (s'.lastBlock = s.lastBlock ∨ s'.lastBlock = s.block) ∧
      s.epoch ≤ s'.epoch ∧ s.block ≤ s'.block) : Eff s s' := by
  obtain ⟨f1, f2, f3, f4, f5, f6, f7, f8, f9, f10, f11, f12, f13, f14, f15, f16, f17, f18⟩ := h
  refine ⟨0, 0, 0, 0, 0, 0, 0, Or.inl ⟨rfl, rfl, rfl, f16⟩, Nat.le_refl _, ?_⟩
  rw [f1, f2, f3, f4, f5, f6, f7, f8, f9, f10, f11, f12, f13, f14, f15]
  and_intros <;> first | trivial | omega | exact id | exact Or.inl trivial

theorem stepCore_eff {s s' : St} {op : Op} {o : Out} (h : stepCore s op = some (s', o)) : Eff s s' := by
  cases op <;> simp only [stepCore] at h
  case stake c orig a adds =>
    cases orig <;> simp only [stakeFarm, Option.bind_eq_bind, Option.bind_eq_some_iff] at h
    · exact stakeCore_eff h
    · obtain ⟨_, _, h⟩ := h; exact stakeCore_eff h
  case stakeProxy c orig a adds =>
    simp only [stakeProxy, Option.bind_eq_bind, Option.bind_eq_some_iff] at h
    obtain ⟨_, _, h⟩ := h; exact stakeCore_eff h
  case stakeBehalf c u a adds =>
    simp only [stakeOnBehalf, Option.bind_eq_bind, Option.bind_eq_some_iff] at h
    obtain ⟨_, _, _, _, h⟩ := h; exact stakeCore_eff h
  case claim c orig p =>
    cases orig <;> simp only [claimRewards, Option.bind_eq_bind, Option.bind_eq_some_iff] at h
    · exact claimCore_eff h
    · obtain ⟨_, _, h⟩ := h; exact claimCore_eff h
  case claimNew c orig nv p =>
    simp only [claimNewValue, Option.bind_eq_bind, Option.bind_eq_some_iff] at h
    obtain ⟨_, _, h⟩ := h; exact claimCore_eff h
  case claimBehalf c ps =>
    simp only [claimOnBehalf, Option.bind_eq_bind, Option.bind_eq_some_iff] at h
    obtain ⟨_, _, _, _, h⟩ := h; exact claimCore_eff h
  case compound c ps => exact compound_eff h
  case unstake c orig p =>
    cases orig <;> simp only [unstakeFarm, Option.bind_eq_bind, Option.bind_eq_some_iff] at h
    · exact unstakeCore_eff h
    · obtain ⟨_, _, h⟩ := h; exact unstakeCore_eff h
  case unstakeProxy c orig x p =>
    simp only [unstakeProxy, Option.bind_eq_bind, Option.bind_eq_some_iff] at h
    obtain ⟨_, _, h⟩ := h; exact unstakeCore_eff h
  case unbond c p => exact unbondFarm_eff h
  case merge c ps => exact mergeTokens_eff h
  case claimBoosted c u => exact claimBoostedRewards_eff h
  case «calc» q a t =>
    simp only [Option.map_eq_some_iff, Prod.mk.injEq] at h
    obtain ⟨⟨s1, v⟩, h1, rfl, _⟩ := h
    exact Eff.of_frame (by simp)
  case transfer a b p =>
    simp only [transfer, Option.bind_eq_bind, Option.bind_eq_some_iff, req_eq_some,
      Option.pure_def, Option.some.injEq, Prod.mk.injEq] at h
    obtain ⟨_, _, hold0, _, rfl, _⟩ := h
    exact Eff.of_frame (by simp)
  case setEnergy u a l =>
    simp only [Option.some.injEq, Prod.mk.injEq] at h
    obtain ⟨rfl, _⟩ := h
    exact Eff.of_frame (by simp)
  case updateEnergy u =>
    simp only [updateEnergy, Option.bind_eq_bind, Option.bind_eq_some_iff,
      Option.pure_def, Option.some.injEq, Prod.mk.injEq] at h
    obtain ⟨g, _, rfl, _⟩ := h
    exact Eff.of_frame (by simp)
  case topUp x => exact topUp_eff h
  case withdraw x => exact withdraw_eff h
  case setMaxApr x =>
    simp only [setMaxApr, Option.bind_eq_bind, Option.bind_eq_some_iff] at h
    obtain ⟨_, _, h⟩ := h
    exact settleThen_eff (f := fun t => { t with maxApr := x }) (fun t => by simp) (fun t ht => ht) h
  case setPerBlock x =>
    simp only [setPerBlock, Option.bind_eq_bind, Option.bind_eq_some_iff] at h
    obtain ⟨_, _, h⟩ := h
    exact settleThen_eff (f := fun t => { t with perBlock := x }) (fun t => by simp) (fun t ht => ht) h
  case startProduce =>
    simp only [startProduce, Option.bind_eq_bind, Option.bind_eq_some_iff, req_eq_some,
      Option.pure_def, Option.some.injEq, Prod.mk.injEq] at h
    obtain ⟨_, _, _, _, rfl, _⟩ := h
    exact Eff.of_frame (by simp)
  case endProduce =>
    exact settleThen_eff (f := fun t => { t with produce := false }) (fun t => by simp) (fun t ht => ht) h
  case setMinUnbond e =>
    simp only [setMinUnbond, Option.bind_eq_bind, Option.bind_eq_some_iff, req_eq_some,
      Option.pure_def, Option.some.injEq, Prod.mk.injEq] at h
    obtain ⟨_, _, rfl, _⟩ := h
    exact Eff.of_frame (by simp)
  case setBoostedPct p =>
    simp only [setBoostedPct, Option.bind_eq_bind, Option.bind_eq_some_iff, req_eq_some] at h
    obtain ⟨_, hp, h⟩ := h
    exact settleThen_eff (f := fun t => { t with boostedPct := p }) (fun t => by simp) (fun t _ => hp) h
  case setFactors x =>
    simp only [setFactors, Option.bind_eq_bind, Option.bind_eq_some_iff, req_eq_some,
      Option.pure_def, Option.some.injEq, Prod.mk.injEq] at h
    obtain ⟨_, _, _, _, c, _, rfl, _⟩ := h
    exact Eff.of_frame (by simp)
  case collectUndistributed =>
    simp only [collectUndistributed, Option.bind_eq_bind, Option.bind_eq_some_iff, req_eq_some] at h
    obtain ⟨_, _, h⟩ := h
    split at h <;> simp only [Option.pure_def, Option.some.injEq, Prod.mk.injEq] at h <;>
      obtain ⟨rfl, _⟩ := h <;> exact Eff.of_frame (by simp)
  case pause =>
    simp only [Option.some.injEq, Prod.mk.injEq] at h
    obtain ⟨rfl, _⟩ := h
    exact Eff.of_frame (by simp)
  case resume =>
    simp only [Option.some.injEq, Prod.mk.injEq] at h
    obtain ⟨rfl, _⟩ := h
    exact Eff.of_frame (by simp)
  case hubWhitelist u a =>
    simp only [Option.bind_eq_bind, Option.bind_eq_some_iff, req_eq_some,
      Option.pure_def, Option.some.injEq, Prod.mk.injEq] at h
    obtain ⟨_, _, rfl, _⟩ := h
    exact Eff.of_frame (by simp)
  case hubRemove u a =>
    simp only [Option.bind_eq_bind, Option.bind_eq_some_iff, req_eq_some,
      Option.pure_def, Option.some.injEq, Prod.mk.injEq] at h
    obtain ⟨_, _, rfl, _⟩ := h
    exact Eff.of_frame (by simp)
  case advance b e =>
    simp only [Option.some.injEq, Prod.mk.injEq] at h
    obtain ⟨rfl, _⟩ := h
    exact Eff.of_frame (by simp)

theorem step_eff {s s' : St} {op : Op} {o : Out} (h : step s op = some (s', o)) : Eff s s' := by
  simp only [step, Option.bind_eq_bind, Option.bind_eq_some_iff] at h
  obtain ⟨_, _, h⟩ := h
  exact stepCore_eff h


end Mx.Staking
