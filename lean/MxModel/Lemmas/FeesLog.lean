/-
  Fees collector: the PAID LOG of a history — one entry `(user, week, token, amount)` per payment,
  read off the successful claim operations (who claimed: the operation's original caller; what was
  paid for which week and token: the delta of the per-week payment ledger over the frozen entries
  of that week).

  Part 1 (this file): definitions, the per-operation facts (window, formula), the list algebra.
  The history-level facts (no key twice, log = ledger) are in Lemmas/FeesLogRun.lean.
-/
import MxModel.Lemmas.FeesLedger

namespace Mx.Fees

open Mx.Weekly

/-! ### the total successor function -/

/-- the state after `op` (unchanged when the transaction fails) -/
def next (s : St) (op : Op) : St :=
  match step s op with
  | some r => r.1
  | none => s

theorem run_cons (s : St) (op : Op) (ops : List Op) : run s (op :: ops) = run (next s op) ops := rfl

theorem next_of_some {s : St} {op : Op} {r : St × Out} (h : step s op = some r) : next s op = r.1 := by
  unfold next; rw [h]

theorem next_of_none {s : St} {op : Op} (h : step s op = none) : next s op = s := by
  unfold next; rw [h]

theorem next_AllInv {s : St} (hI : AllInv s) (op : Op) : AllInv (next s op) := by
  cases hs : step s op with
  | none => rw [next_of_none hs]; exact hI
  | some r =>
    rw [next_of_some hs]
    have h : step s op = some (r.1, r.2) := by rw [hs]
    exact ⟨step_WInv hI.w h, step_BalInv hI.b h, step_LInv hI.w hI.b hI.l h⟩

/-! ### who claims -/

/-- the user whose rewards a claim operation computes (`original_caller`, else the caller) -/
def claimUser : Op → Option Nat
  | .claim c o => some (o.getD c)
  | .claimBoosted c o => some (o.getD c)
  | _ => none

/-- a successful claim operation is `claim_rewards(·, user)` of its claim user -/
theorem step_of_claimUser {s : St} {op : Op} {u : Nat} {r : St × Out} (hu : claimUser op = some u)
    (h : step s op = some r) : claimCore s u = some r := by
  cases op with
  | claim c og =>
    simp only [claimUser, Option.some.injEq] at hu
    subst hu
    simp only [step, claimRewards, Option.bind_eq_bind, Option.bind_eq_some_iff] at h
    obtain ⟨_, _, h⟩ := h
    cases og with
    | none => exact h
    | some x =>
      simp only [Option.bind_eq_some_iff] at h
      obtain ⟨_, _, h⟩ := h
      exact h
  | claimBoosted c og =>
    simp only [claimUser, Option.some.injEq] at hu
    subst hu
    simp only [step, claimBoosted, Option.bind_eq_bind, Option.bind_eq_some_iff] at h
    obtain ⟨_, _, h⟩ := h
    cases og with
    | none => exact h
    | some x =>
      simp only [Option.bind_eq_some_iff] at h
      obtain ⟨_, _, h⟩ := h
      exact h
  | deposit _ _ _ _ => cases hu
  | updateEnergy _ => cases hu
  | setEnergy _ _ => cases hu
  | setPerBlock _ => cases hu
  | addToken _ => cases hu
  | removeToken _ => cases hu
  | addContract _ => cases hu
  | removeContract _ => cases hu
  | allowExternal _ _ => cases hu
  | pause _ => cases hu
  | advance _ => cases hu

/-- what an operation that is neither a claim nor `updateEnergyForUser` leaves alone -/
theorem step_other {s s' : St} {op : Op} {o : Out} (hu : claimUser op = none)
    (hne : ∀ u, op ≠ .updateEnergy u) (h : step s op = some (s', o)) :
    s'.w = s.w ∧ s'.a.paid = s.a.paid ∧ s'.a.collected = s.a.collected ∧
    s'.firstWeek = s.firstWeek ∧ s.epoch ≤ s'.epoch := by
  cases op with
  | claim c og => cases hu
  | claimBoosted c og => cases hu
  | updateEnergy u => exact absurd rfl (hne u)
  | deposit c t n a =>
    simp only [step, deposit, Option.bind_eq_bind, Option.bind_eq_some_iff, Option.pure_def,
      Option.some.injEq, Prod.mk.injEq] at h
    obtain ⟨_, _, _, _, _, _, _, _, _, _, rfl, _⟩ := h
    exact ⟨rfl, rfl, rfl, rfl, Nat.le_refl _⟩
  | setPerBlock n =>
    simp only [step, setPerBlock, Option.bind_eq_bind, Option.bind_eq_some_iff, Option.pure_def,
      Option.some.injEq, Prod.mk.injEq] at h
    obtain ⟨W, _, rfl, _⟩ := h
    refine ⟨accumulateAdditional_w s W, accumulateAdditional_paid s W, ?_, ?_, ?_⟩
    · show (accumulateAdditional s W).a.collected = s.a.collected
      unfold accumulateAdditional; split <;> rfl
    · show (accumulateAdditional s W).firstWeek = s.firstWeek
      unfold accumulateAdditional; split <;> rfl
    · show s.epoch ≤ (accumulateAdditional s W).epoch
      rw [(accumulateAdditional_energy s W).2]
  | setEnergy u e =>
    simp only [step, Option.some.injEq, Prod.mk.injEq] at h; obtain ⟨rfl, _⟩ := h
    exact ⟨rfl, rfl, rfl, rfl, Nat.le_refl _⟩
  | addToken t =>
    simp only [step, Option.some.injEq, Prod.mk.injEq] at h; obtain ⟨rfl, _⟩ := h
    exact ⟨rfl, rfl, rfl, rfl, Nat.le_refl _⟩
  | removeToken t =>
    simp only [step, Option.some.injEq, Prod.mk.injEq] at h; obtain ⟨rfl, _⟩ := h
    exact ⟨rfl, rfl, rfl, rfl, Nat.le_refl _⟩
  | addContract c =>
    simp only [step, Option.some.injEq, Prod.mk.injEq] at h; obtain ⟨rfl, _⟩ := h
    exact ⟨rfl, rfl, rfl, rfl, Nat.le_refl _⟩
  | removeContract c =>
    simp only [step, Option.some.injEq, Prod.mk.injEq] at h; obtain ⟨rfl, _⟩ := h
    exact ⟨rfl, rfl, rfl, rfl, Nat.le_refl _⟩
  | allowExternal u b =>
    simp only [step, Option.some.injEq, Prod.mk.injEq] at h; obtain ⟨rfl, _⟩ := h
    exact ⟨rfl, rfl, rfl, rfl, Nat.le_refl _⟩
  | pause b =>
    simp only [step, Option.some.injEq, Prod.mk.injEq] at h; obtain ⟨rfl, _⟩ := h
    exact ⟨rfl, rfl, rfl, rfl, Nat.le_refl _⟩
  | advance n =>
    simp only [step, Option.some.injEq, Prod.mk.injEq] at h; obtain ⟨rfl, _⟩ := h
    exact ⟨rfl, rfl, rfl, rfl, Nat.le_add_right _ _⟩

/-- endpoint `updateEnergyForUser`: only the weekly module state changes -/
theorem step_updateEnergy {s s' : St} {u : Nat} {o : Out} (h : step s (.updateEnergy u) = some (s', o)) :
    ∃ W g, s.week = some W ∧
      updateEnergyForUser s.w u W (Energy.queried (s.energy u) s.epoch) = some g ∧
      s' = { s with w := g } := by
  simp only [step, updateEnergy, Option.bind_eq_bind, Option.bind_eq_some_iff, Option.pure_def,
    Option.some.injEq, Prod.mk.injEq] at h
  obtain ⟨W, hW, g, hg, rfl, _⟩ := h
  exact ⟨W, g, hW, hg, rfl⟩

/-! ### the log -/

/-- one payment: `user` received `amount` of token `tok` for week `week` -/
structure Entry where
  user : Nat
  week : Nat
  tok : Tok
  amount : Nat
  deriving DecidableEq, Repr

/-- the payments of one successful claim of `u` (`s` before, `s'` after): for every completed
    week and every entry of the week's frozen total rewards, the growth of the week's payment
    ledger in that token, when there is one -/
def entriesOf (u : Nat) (s s' : St) : List Entry :=
  (List.range (curWeek s)).flatMap fun w =>
    (s'.w.totalRewards w).filterMap fun p =>
      if s'.a.paid w p.1 ≠ s.a.paid w p.1 then
        some ⟨u, w, p.1, s'.a.paid w p.1 - s.a.paid w p.1⟩
      else none

/-- the log entries produced by one operation (nothing unless it is a successful claim) -/
def stepLog (s : St) (op : Op) : List Entry :=
  match claimUser op, step s op with
  | some u, some r => entriesOf u s r.1
  | _, _ => []

/-- **the paid log** of a history started in `s` -/
def paidLog (s : St) : List Op → List Entry
  | [] => []
  | op :: ops => stepLog s op ++ paidLog (next s op) ops

theorem mem_entriesOf {u : Nat} {s s' : St} {e : Entry} (h : e ∈ entriesOf u s s') :
    e.user = u ∧ e.week < curWeek s ∧ s'.a.paid e.week e.tok ≠ s.a.paid e.week e.tok ∧
    e.amount = s'.a.paid e.week e.tok - s.a.paid e.week e.tok ∧
    ∃ total, (e.tok, total) ∈ s'.w.totalRewards e.week := by
  simp only [entriesOf, List.mem_flatMap, List.mem_range, List.mem_filterMap] at h
  obtain ⟨w, hw, p, hp, hsome⟩ := h
  split at hsome
  · rename_i hne
    simp only [Option.some.injEq] at hsome
    subst hsome
    exact ⟨rfl, hw, hne, rfl, p.2, hp⟩
  · cases hsome

theorem stepLog_cases {s : St} {op : Op} {e : Entry} (h : e ∈ stepLog s op) :
    ∃ u r, claimUser op = some u ∧ step s op = some r ∧ claimCore s u = some r ∧
      e ∈ entriesOf u s r.1 := by
  unfold stepLog at h
  split at h
  · rename_i u r hu hs
    exact ⟨u, r, hu, hs, step_of_claimUser hu hs, h⟩
  · cases h

theorem stepLog_of_not_claim {s : St} {op : Op} (h : claimUser op = none) : stepLog s op = [] := by
  unfold stepLog; rw [h]

theorem stepLog_of_none {s : St} {op : Op} (h : step s op = none) : stepLog s op = [] := by
  unfold stepLog; rw [h]; split <;> first | rfl | (rename_i h1 h2; cases h2)

/-! ### window: only the four most recent completed weeks, never before the stored progress -/

/-- every entry a claim produces is for a week `w` with `current − 4 ≤ w < current`, and the
    claimer had a stored progress entry not later than `w` -/
theorem stepLog_window {s : St} {op : Op} {e : Entry} (h : e ∈ stepLog s op) :
    claimUser op = some e.user ∧ curWeek s ≤ e.week + 4 ∧ e.week < curWeek s ∧
    ∃ p, s.w.progress e.user = some p ∧ p.week ≤ e.week := by
  obtain ⟨u, r, hu, _, hc, hm⟩ := stepLog_cases h
  obtain ⟨heu, _, hne, _, _⟩ := mem_entriesOf hm
  subst heu
  obtain ⟨W, _, hW, _⟩ := claimCore_spec (o := r.2) (s' := r.1) (by rw [hc])
  obtain ⟨hWc, _⟩ := week_some hW
  obtain ⟨_, _, hwin⟩ := claimCore_once (o := r.2) (s' := r.1) hW (by rw [hc])
  obtain ⟨h1, h2, hp⟩ := hwin e.week e.tok hne
  rw [← hWc]
  exact ⟨hu, h1, h2, hp⟩

/-! ### formula: what the loop books for each week it walks -/

/-- the claim loop touches the frozen rewards only of the weeks it walks over -/
theorem claimLoop_rewards_outside : ∀ (n : Nat) {a a' : ClaimAcc Acc},
    claimLoop feesRewards n a = some a' →
    ∀ w, (w < a.p.week ∨ a.p.week + n ≤ w) → a'.g.totalRewards w = a.g.totalRewards w := by
  intro n
  induction n with
  | zero =>
    intro a a' h w _
    simp only [claimLoop, Option.some.injEq] at h
    subst h; rfl
  | succ n ih =>
    intro a a' h w hw
    simp only [claimLoop, Option.bind_eq_some_iff] at h
    obtain ⟨a1, h1, h2⟩ := h
    obtain ⟨r, hr, hp, _⟩ := claimSingle_spec h1
    have hw1 : a1.p.week = a.p.week + 1 := by rw [hp]; rfl
    rw [ih h2 w (by omega)]
    rcases feesRewards_spec hr with ⟨_, hg, _, _⟩ | ⟨_, _, _, hO, _⟩
    · rw [hg]
    · exact hO w (by omega)

/-- what the payments of one `claim_single` are, as a function of the frozen list after it -/
def paysFor (lst : List (Tok × Nat)) (e E : Nat) : List (Tok × Nat) :=
  if e = 0 ∨ E = 0 then [] else sharesOf lst e E

/-- **the loop books, for every week `w` it walks, exactly the shares of the week's frozen
    rewards** for the energy the start entry has in week `w`, against the week's total energy -/
theorem claimLoop_amounts : ∀ (n : Nat) {a a' : ClaimAcc Acc},
    claimLoop feesRewards n a = some a' →
    ∀ w, a.p.week ≤ w → w < a.p.week + n → ∀ t,
      a'.c.paid w t = a.c.paid w t +
        amountOf t (paysFor (a'.g.totalRewards w) (entryE a.p w) (a.g.totalEnergy w)) := by
  intro n
  induction n with
  | zero => intro a a' _ w h1 h2; omega
  | succ n ih =>
    intro a a' h w hlo hhi t
    simp only [claimLoop, Option.bind_eq_some_iff] at h
    obtain ⟨a1, h1, h2⟩ := h
    obtain ⟨r, hr, hp, _⟩ := claimSingle_spec h1
    have hfr := feesRewards_frame _ _ _ _ _ _ _ _ hr
    have hw1 : a1.p.week = a.p.week + 1 := by rw [hp]; rfl
    by_cases hw : w = a.p.week
    · -- the week claimed by this very step; the rest of the loop leaves it alone
      subst hw
      have hrest := (claimLoop_paid _ h2).1 a.p.week t (Or.inl (by omega))
      have hrw := claimLoop_rewards_outside _ h2 a.p.week (Or.inl (by omega))
      rw [hrest, hrw, entryE_self]
      rcases feesRewards_spec hr with ⟨hz, _, hc, _⟩ | ⟨he, hE, hrr, _, _, _, hpd, _⟩
      · rw [hc]; simp [paysFor, hz]
      · have hn : ¬ (a.p.energy.getEnergyAmount = 0 ∨ a.g.totalEnergy a.p.week = 0) :=
          fun h => h.elim he hE
        rw [hpd a.p.week t]
        simp only [paysFor, hn, if_false, if_true, hrr]
    · have hlo' : a1.p.week ≤ w := by omega
      have := ih h2 w hlo' (by omega) t
      rw [this, hfr.totalEnergy]
      have he : entryE a1.p w = entryE a.p w := by
        rw [hp, entryE_advanceWeek]; simp [show a.p.week + 1 ≤ w by omega]
      have hpd : a1.c.paid w t = a.c.paid w t := (feesRewards_paid hr).1 w t hw
      rw [he, hpd]

/-- the share of token `t` in a frozen list with distinct tokens -/
theorem amountOf_sharesOf_eq (c : Tok → Nat) (e E : Nat) (t : Tok) :
    ∀ (lst : List (Tok × Nat)), (lst.map Prod.fst).Nodup → (∀ p ∈ lst, p.2 = c p.1) →
      amountOf t (sharesOf lst e E) = if t ∈ lst.map Prod.fst then share (c t) e E else 0 := by
  intro lst
  induction lst with
  | nil => intro _ _; simp [sharesOf]
  | cons p ps ih =>
    intro hnd hc
    simp only [List.map_cons, List.nodup_cons] at hnd
    have ih' := ih hnd.2 (fun q hq => hc q (List.mem_cons_of_mem _ hq))
    have hsplit : sharesOf (p :: ps) e E =
        (if share p.2 e E ≠ 0 then [(p.1, share p.2 e E)] else []) ++ sharesOf ps e E := by
      unfold sharesOf
      simp only [List.map_cons, List.filter_cons]
      by_cases hz : share p.2 e E ≠ 0 <;> simp [hz]
    rw [hsplit, amountOf_append, ih']
    by_cases hpt : p.1 = t
    · have hnot : t ∉ ps.map Prod.fst := by rw [← hpt]; exact hnd.1
      have hp2 : p.2 = c t := by rw [← hpt]; exact hc p (List.mem_cons_self)
      have hmem : t ∈ (p :: ps).map Prod.fst := by simp [hpt]
      rw [if_neg hnot, if_pos hmem, hp2, hpt]
      by_cases hz : share (c t) e E ≠ 0
      · simp [hz, amountOf_cons]
      · have : share (c t) e E = 0 := by omega
        simp [this]
    · have h0 : amountOf t (if share p.2 e E ≠ 0 then [(p.1, share p.2 e E)] else []) = 0 := by
        by_cases hz : share p.2 e E ≠ 0 <;> simp [hz, amountOf_cons, hpt]
      rw [h0, Nat.zero_add]
      have : (t ∈ (p :: ps).map Prod.fst) ↔ (t ∈ ps.map Prod.fst) := by
        simp only [List.map_cons, List.mem_cons]
        constructor
        · rintro (h | h)
          · exact absurd h.symm hpt
          · exact h
        · exact Or.inr
      simp only [this]

theorem amountOf_paysFor (c : Tok → Nat) (e E : Nat) (t : Tok) (lst : List (Tok × Nat))
    (hnd : (lst.map Prod.fst).Nodup) (hc : ∀ p ∈ lst, p.2 = c p.1) :
    amountOf t (paysFor lst e E) = if t ∈ lst.map Prod.fst then share (c t) e E else 0 := by
  unfold paysFor
  split
  · rename_i hz
    rcases hz with hz | hz <;> subst hz <;> simp
  · exact amountOf_sharesOf_eq c e E t lst hnd hc

/-- the loop's start entry carries, for the weeks it walks, the stored entry's energy -/
theorem entryE_loopStart_eq (p : ClaimProgress) (W w : Nat) (h : (loopStart p W).week ≤ w) :
    entryE (loopStart p W) w = entryE p w := by
  unfold loopStart at h ⊢
  split
  · rename_i hb
    simp only [hb, if_true, ClaimProgress.advanceMultipleWeeks_eq] at h
    rw [ClaimProgress.advanceMultipleWeeks_eq]
    unfold entryE
    simp only
    have h' : p.week ≤ w := by omega
    simp only [h, h', if_true, Energy.after_after]
    congr 2; omega
  · rfl

end Mx.Fees
