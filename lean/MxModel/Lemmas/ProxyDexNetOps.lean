/-
  Supply ledger of the proxy-dex model, per operation and per history.

  Callee facts, stated as EXECUTABLE checks on the recorded answers (so that the driver can
  evaluate them on every recorded answer of a correspondence run):
  * `factoryOKb s op` (`FactoryMergeOK`): the locked token the energy factory hands back for a merge
    (`mergeTokens`) or an extension (`extendLockPeriod`) is for exactly the sum of the locked
    amounts the proxy sent in;
  * `farmEqb op` (`FarmExact`): a farm mints as many farm tokens as farming tokens entered /
    claimed / merged, locked tokens go to the base-asset farm and wrapped LP to an LP farm.
  Under these facts `minted = burnB + burnL + RT` is inductive (`NetInv`).
-/
import MxModel.Lemmas.ProxyDexNet

namespace Mx.ProxyDex

/-- **FactoryMergeOK**: "the factory's merge (extend) returns the sum of the merged locked amounts" -/
def FactoryMergeOK (s : St) (op : Op) : Prop := factoryOKb s op = true

/-- **FarmExact**: "farm tokens created = farming tokens entered / claimed / merged" -/
def FarmExact (op : Op) : Prop := farmEqb op = true

instance (s : St) (op : Op) : Decidable (FactoryMergeOK s op) :=
  inferInstanceAs (Decidable (factoryOKb s op = true))

instance (op : Op) : Decidable (FarmExact op) := inferInstanceAs (Decidable (farmEqb op = true))

/-- base asset and locked tokens created through the proxy and not destroyed again are exactly the
    locked tokens reserved by outstanding wrapped tokens -/
structure NetInv (s : St) : Prop where
  sup : s.minted = s.burnB + s.burnL + RT s
  kind : KindInv s

theorem netinv_init (now : Nat) : NetInv (init now) := by
  refine ⟨by simp [init, RT, lkF, WLp.dummy, WFarm.dummy], ?_⟩
  intro a ha
  simp [St.af, init, attrF, WFarm.dummy] at ha
  subst ha
  simp [KindOK, farmIsBase]

/-! ### operations -/

theorem addLiq_net {s s' : St} {k la oa lp ul uo : Nat} {merge : List (Nat × Nat)}
    {mk : Option LkTok} {o : Out} (hi : NetInv s)
    (hk : factoryOKb s (.addLiq k la oa merge lp ul uo mk) = true)
    (h : addLiq s k la oa merge lp ul uo mk = some (s', o)) : NetInv s' := by
  simp only [addLiq, Option.bind_eq_bind, Option.bind_eq_some_iff, req_eq_some, sub?_eq_some,
    Option.pure_def] at h
  obtain ⟨_, _, lb, ⟨hlb, rfl⟩, ob, _, h⟩ := h
  have hsup := hi.sup
  cases merge with
  | nil =>
    simp only [Option.some.injEq, Prod.mk.injEq] at h
    obtain ⟨rfl, _⟩ := h
    obtain ⟨hR, _, _, haf, h1, h2, h3⟩ := newW_net
      { s with minted := s.minted + la, burnB := s.burnB + (la - ul), lp := s.lp + lp } lp k ul true
    refine ⟨?_, hi.kind.of_af haf⟩
    have e : RT { s with minted := s.minted + la, burnB := s.burnB + (la - ul), lp := s.lp + lp }
      = RT s := rfl
    rw [hR, h1, h2, h3, e]; dsimp only; omega
  | cons a l =>
    simp only [Option.bind_eq_bind, Option.bind_eq_some_iff, req_eq_some, Option.pure_def,
      Option.some.injEq, Prod.mk.injEq] at h
    obtain ⟨t, rfl, _, _, ⟨s1, sx⟩, h1, rfl, _⟩ := h
    simp only [factoryOKb, beq_iff_eq] at hk
    obtain ⟨hR1, _, hA, m1, m2, m3⟩ := takeWs_net h1
    obtain ⟨hR, _, _, haf, n1, n2, n3⟩ := newW_net (learn s1 t) (lp + sx) t.k t.amt true
    refine ⟨?_, hi.kind.of_af (haf.trans hA.2)⟩
    have e : RT (learn s1 t) = RT s1 := rfl
    have e0 : ∀ m b q, RT { s with minted := m, burnB := b, lp := q } = RT s := fun _ _ _ => rfl
    have e1 : ∀ m b q, lockedWs { s with minted := m, burnB := b, lp := q } (a :: l)
      = lockedWs s (a :: l) := fun _ _ _ => rfl
    have f1 : (learn s1 t).minted = s1.minted := rfl
    have f2 : (learn s1 t).burnB = s1.burnB := rfl
    have f3 : (learn s1 t).burnL = s1.burnL := rfl
    rw [hR, n1, n2, n3, e, f1, f2, f3, m1, m2, m3]
    rw [e0, e1] at hR1
    dsimp only; omega

theorem removeLiq_net {s s' : St} {w x rb ro : Nat} {o : Out} (hi : NetInv s)
    (h : removeLiq s w x rb ro = some (s', o)) : NetInv s' := by
  simp only [removeLiq, Option.bind_eq_bind, Option.bind_eq_some_iff, sub?_eq_some,
    Option.pure_def] at h
  obtain ⟨⟨s1, r, p⟩, h1, lp, _, h⟩ := h
  obtain ⟨hR, _, _, hA, m1, m2, m3⟩ := takeW_net h1
  have hsup := hi.sup
  have hk1 : KindInv s1 := hi.kind.congr hA
  dsimp only at h
  split at h
  · simp only [Option.some.injEq, Prod.mk.injEq] at h
    obtain ⟨rfl, _⟩ := h
    refine ⟨?_, hk1⟩
    show s1.minted = s1.burnB + p + s1.burnL + RT s1
    omega
  · rename_i hgt
    simp only [Option.some.injEq, Prod.mk.injEq] at h
    obtain ⟨rfl, _⟩ := h
    by_cases he : p - rb = 0
    · simp only [he, if_true]
      refine ⟨?_, hk1⟩
      show s1.minted = s1.burnB + rb + s1.burnL + RT s1
      omega
    · simp only [he, if_false]
      refine ⟨?_, hk1⟩
      show s1.minted = s1.burnB + rb + (s1.burnL + (p - rb)) + RT s1
      omega

theorem enterL_net {s s' : St} {farm k a : Nat} {merge : List (Nat × Nat)} {ft : Nat × Nat}
    {rew : Option LkTok} {m : Option ((Nat × Nat) × LkTok)} {stray : List LkTok} {o : Out}
    (hi : NetInv s) (hf : farmEqb (.enterL farm k a merge ft rew m stray) = true)
    (hk : factoryOKb s (.enterL farm k a merge ft rew m stray) = true)
    (h : enterL s farm k a merge ft rew m stray = some (s', o)) : NetInv s' := by
  simp only [enterL, Option.bind_eq_bind, Option.bind_eq_some_iff, req_eq_some,
    Option.pure_def] at h
  obtain ⟨_, _, h⟩ := h
  have hsup := hi.sup
  obtain ⟨l1, _, l3, l4, l5, l6⟩ := learnOpt_net { s with minted := s.minted + a } rew
  have l1' : RT (learnOpt { s with minted := s.minted + a } rew) = RT s := l1
  have l4' : (learnOpt { s with minted := s.minted + a } rew).minted = s.minted + a := l4
  have l5' : (learnOpt { s with minted := s.minted + a } rew).burnB = s.burnB := l5
  have l6' : (learnOpt { s with minted := s.minted + a } rew).burnL = s.burnL := l6
  have hk0 : KindInv (learnOpt { s with minted := s.minted + a } rew) :=
    hi.kind.of_af (s := s) l3.2
  cases merge with
  | nil =>
    simp only [Option.some.injEq, Prod.mk.injEq] at h
    obtain ⟨rfl, _⟩ := h
    simp only [farmEqb, Bool.and_eq_true, beq_iff_eq] at hf
    obtain ⟨hbase, hft⟩ := hf
    obtain ⟨hR, _, _, _, n1, n2, n3⟩ := newF_net
      { learnOpt { s with minted := s.minted + a } rew with
        lk := (learnOpt { s with minted := s.minted + a } rew).lk.add k a } farm ft.1 ft.2 .locked k a
    refine ⟨?_, ?_⟩
    · rw [hR, n1, n2, n3, if_pos rfl]
      show (learnOpt { s with minted := s.minted + a } rew).minted
        = (learnOpt { s with minted := s.minted + a } rew).burnB
          + (learnOpt { s with minted := s.minted + a } rew).burnL
          + (RT (learnOpt { s with minted := s.minted + a } rew) + a)
      rw [l1', l4', l5', l6']; omega
    · apply KindInv.newF (s := { learnOpt { s with minted := s.minted + a } rew with
        lk := (learnOpt { s with minted := s.minted + a } rew).lk.add k a })
      · exact hk0
      · exact ⟨fun _ => ⟨hft.symm, hbase⟩, fun h' => by cases h'⟩
  | cons b l =>
    simp only [Option.bind_eq_bind, Option.bind_eq_some_iff, Option.pure_def,
      Option.some.injEq, Prod.mk.injEq] at h
    obtain ⟨⟨mf, t⟩, rfl, ⟨s1, sp⟩, h1, rfl, _⟩ := h
    simp only [farmEqb, Bool.and_eq_true, beq_iff_eq] at hf
    obtain ⟨hbase, hmf⟩ := hf
    rw [paySum_eq] at hmf
    simp only [factoryOKb, beq_iff_eq] at hk
    obtain ⟨hR1, _, hA, ⟨m1, m2, m3⟩, hkl⟩ := takeFs_net h1
    obtain ⟨_, hls⟩ := hkl hk0 rfl
    have e1 : lockedFs (learnOpt { s with minted := s.minted + a } rew) (b :: l)
      = lockedFs s (b :: l) := lockedFs_congr l3 (b :: l)
    obtain ⟨hR, _, _, _, n1, n2, n3⟩ := newF_net
      { learn s1 t with lk := s1.lk.add t.k t.amt } farm mf.1 mf.2 .locked t.k t.amt
    obtain ⟨a1, _, a3, a4, a5, a6⟩ := addStray_net
      (newF { learn s1 t with lk := s1.lk.add t.k t.amt } farm mf.1 mf.2 .locked t.k t.amt).1 stray
    refine ⟨?_, ?_⟩
    · rw [a1, a4, a5, a6, hR, n1, n2, n3, if_pos rfl]
      show s1.minted = s1.burnB + s1.burnL + (RT s1 + t.amt)
      rw [m1, m2, m3, l4', l5', l6']
      rw [l1'] at hR1
      omega
    · apply KindInv.congr a3
      apply KindInv.newF (s := { learn s1 t with lk := s1.lk.add t.k t.amt })
      · exact (hk0.congr hA : KindInv s1)
      · refine ⟨fun _ => ⟨?_, hbase⟩, fun h' => by cases h'⟩
        omega

theorem enterW_net {s s' : St} {farm w a : Nat} {merge : List (Nat × Nat)} {ft : Nat × Nat}
    {rew : Option LkTok} {m : Option ((Nat × Nat) × LkTok)} {stray : List LkTok} {o : Out}
    (hi : NetInv s) (hf : farmEqb (.enterW farm w a merge ft rew m stray) = true)
    (hk : factoryOKb s (.enterW farm w a merge ft rew m stray) = true)
    (h : enterW s farm w a merge ft rew m stray = some (s', o)) : NetInv s' := by
  simp only [enterW, Option.bind_eq_bind, Option.bind_eq_some_iff, req_eq_some, sub?_eq_some,
    Option.pure_def] at h
  obtain ⟨r, hr, _, _, c, ⟨hc, rfl⟩, q, _, lp, _, h⟩ := h
  simp only [farmEqb, Bool.not_eq_true', ] at hf
  have hsup := hi.sup
  cases merge with
  | nil =>
    simp only [Option.some.injEq, Prod.mk.injEq] at h
    obtain ⟨rfl, _⟩ := h
    obtain ⟨w1, _, w3, w4, w5, w6⟩ := setW_net (s := s) (r := r)
      (⟨r.total, r.k, r.locked, r.circ - a, r.held + a, r.orph, r.rem⟩ : WLp) hr rfl rfl
    obtain ⟨l1, _, l3, l4, l5, l6⟩ := learnOpt_net
      { setW s w (⟨r.total, r.k, r.locked, r.circ - a, r.held + a, r.orph, r.rem⟩ : WLp) with lp := lp } rew
    obtain ⟨hR, _, _, _, n1, n2, n3⟩ := newF_net
      (learnOpt { setW s w (⟨r.total, r.k, r.locked, r.circ - a, r.held + a, r.orph, r.rem⟩ : WLp) with lp := lp } rew)
      farm ft.1 ft.2 .wlp w a
    have hk0 : KindInv (learnOpt
        { setW s w (⟨r.total, r.k, r.locked, r.circ - a, r.held + a, r.orph, r.rem⟩ : WLp) with lp := lp } rew) :=
      (hi.kind.congr w3).of_af l3.2
    refine ⟨?_, hk0.newF _ _ _ _ _ _ ⟨(fun h' => by cases h'), (fun _ => hf)⟩⟩
    rw [hR, n1, n2, n3, if_neg (by simp), l1, l4, l5, l6]
    show s.minted = s.burnB + s.burnL
      + (RT (setW s w (⟨r.total, r.k, r.locked, r.circ - a, r.held + a, r.orph, r.rem⟩ : WLp)) + 0)
    rw [w1]; omega
  | cons b l =>
    simp only [Option.bind_eq_bind, Option.bind_eq_some_iff, Option.pure_def,
      Option.some.injEq, Prod.mk.injEq] at h
    obtain ⟨⟨mf, t⟩, rfl, ⟨s0, r0, q0⟩, h0, ⟨s1, sp⟩, h1, rfl, _⟩ := h
    simp only [factoryOKb, beq_iff_eq] at hk
    obtain ⟨hR0, _, hq0, hA0, z1, z2, z3⟩ := takeW_net h0
    obtain ⟨l1, _, l3, l4, l5, l6⟩ := learnOpt_net { s0 with lp := lp } rew
    obtain ⟨hR1, _, hA, ⟨m1, m2, m3⟩, _⟩ := takeFs_net h1
    have e1 : lockedFs (learnOpt { s0 with lp := lp } rew) (b :: l) = lockedFs s (b :: l) :=
      (lockedFs_congr l3 (b :: l)).trans (lockedFs_congr (s := s) (s' := { s0 with lp := lp }) hA0 (b :: l))
    obtain ⟨hRw, _, _, hafw, v1, v2, v3⟩ := newW_net (learn s1 t) (a + sp) t.k t.amt false
    obtain ⟨hR, _, _, _, n1, n2, n3⟩ := newF_net (newW (learn s1 t) (a + sp) t.k t.amt false).1
      farm mf.1 mf.2 .wlp (newW (learn s1 t) (a + sp) t.k t.amt false).2 (a + sp)
    obtain ⟨a1, _, a3, a4, a5, a6⟩ := addStray_net
      (newF (newW (learn s1 t) (a + sp) t.k t.amt false).1 farm mf.1 mf.2 .wlp
        (newW (learn s1 t) (a + sp) t.k t.amt false).2 (a + sp)).1 stray
    have hk1 : KindInv s1 := (((hi.kind.congr hA0).of_af (s' := { s0 with lp := lp }) rfl).of_af l3.2).congr hA
    have hkw : KindInv (newW (learn s1 t) (a + sp) t.k t.amt false).1 :=
      hk1.of_af (s := s1) hafw
    refine ⟨?_, KindInv.congr a3 (hkw.newF _ _ _ _ _ _ ⟨(fun h' => by cases h'), (fun _ => hf)⟩)⟩
    rw [a1, a4, a5, a6, hR, n1, n2, n3, if_neg (by simp), hRw, v1, v2, v3]
    show s1.minted = s1.burnB + s1.burnL + (RT s1 + t.amt + 0)
    rw [m1, m2, m3, l4, l5, l6]
    show s0.minted = s0.burnB + s0.burnL + (RT s1 + t.amt + 0)
    have l1' : RT (learnOpt { s0 with lp := lp } rew) = RT s0 := l1
    rw [l1', e1] at hR1
    rw [z1, z2, z3]
    omega

theorem exitFarm_net {s s' : St} {farm f x farming : Nat} {rew : Option LkTok} {o : Out}
    (hi : NetInv s) (h : exitFarm s farm f x farming rew = some (s', o)) : NetInv s' := by
  simp only [exitFarm, Option.bind_eq_bind, Option.bind_eq_some_iff, req_eq_some,
    Option.pure_def] at h
  obtain ⟨_, hle, ⟨s1, t⟩, h1, h⟩ := h
  have hm : (if x = farming then Mode.out else Mode.dissolve true) ≠ .keep := by split <;> simp
  obtain ⟨hR, _, hA, ⟨m1, m2, m3⟩, hr, hp, hql, _, hq0⟩ := takeF_net hm h1
  have hsup := hi.sup
  have hk1 : KindInv s1 := hi.kind.congr hA
  obtain ⟨kl, kw⟩ := hi.kind.of_get hr
  dsimp only at h
  cases hk : t.r.kind with
  | locked =>
    obtain ⟨hpa, hbase⟩ := kl hk
    rw [hpa] at hp
    have hpx := part_self hp
    have hqp := hql hk
    simp only [hbase, if_true, hk] at h
    split at h
    · rename_i hx
      simp only [Option.some.injEq, Prod.mk.injEq] at h
      obtain ⟨rfl, _⟩ := h
      obtain ⟨l1, _, l3, l4, l5, l6⟩ := learnOpt_net { s1 with burnB := s1.burnB + farming } rew
      refine ⟨?_, hk1.of_af (s := s1) l3.2⟩
      rw [l1, l4, l5, l6]
      show s1.minted = s1.burnB + farming + s1.burnL + RT s1
      omega
    · simp only [Option.bind_eq_bind, Option.bind_eq_some_iff, sub?_eq_some, Option.some.injEq,
        Prod.mk.injEq] at h
      obtain ⟨remaining, _, rfl, _⟩ := h
      obtain ⟨l1, _, l3, l4, l5, l6⟩ := learnOpt_net
        (burnLocked { s1 with burnB := s1.burnB + farming } t.r.pn (x - farming)) rew
      refine ⟨?_, hk1.of_af (s := s1) l3.2⟩
      rw [l1, l4, l5, l6]
      show s1.minted = s1.burnB + farming + (s1.burnL + (x - farming)) + RT s1
      omega
  | wlp =>
    have hbase := kw hk
    simp only [hbase, Bool.false_eq_true, if_false, hk] at h
    split at h
    · rename_i hx
      simp only [Option.some.injEq, Prod.mk.injEq] at h
      obtain ⟨rfl, _⟩ := h
      have hq := hq0 (by rw [if_pos hx]) hk
      obtain ⟨l1, _, l3, l4, l5, l6⟩ := learnOpt_net { s1 with lp := s1.lp + farming } rew
      refine ⟨?_, hk1.of_af (s := s1) l3.2⟩
      rw [l1, l4, l5, l6]
      show s1.minted = s1.burnB + s1.burnL + RT s1
      omega
    · simp only [Option.bind_eq_bind, Option.bind_eq_some_iff, sub?_eq_some, Option.some.injEq,
        Prod.mk.injEq] at h
      obtain ⟨remaining, _, rw0, _, qN, _, extra, ⟨hex, rfl⟩, rfl, _⟩ := h
      by_cases he : t.q - qN = 0
      · simp only [he, if_true]
        obtain ⟨hRw, _, _, hafw, v1, v2, v3⟩ := newW_net { s1 with lp := s1.lp + farming }
          remaining rw0.k qN true
        obtain ⟨l1, _, l3, l4, l5, l6⟩ := learnOpt_net
          (newW { s1 with lp := s1.lp + farming } remaining rw0.k qN true).1 rew
        refine ⟨?_, (hk1.of_af (s := s1) hafw).of_af l3.2⟩
        rw [l1, l4, l5, l6, hRw, v1, v2, v3]
        show s1.minted = s1.burnB + s1.burnL + (RT s1 + qN)
        omega
      · simp only [he, if_false]
        obtain ⟨hRw, _, _, hafw, v1, v2, v3⟩ := newW_net
          (burnLocked { s1 with lp := s1.lp + farming } rw0.k (t.q - qN)) remaining rw0.k qN true
        obtain ⟨l1, _, l3, l4, l5, l6⟩ := learnOpt_net
          (newW (burnLocked { s1 with lp := s1.lp + farming } rw0.k (t.q - qN)) remaining rw0.k qN
            true).1 rew
        refine ⟨?_, (hk1.of_af (s := s1) hafw).of_af l3.2⟩
        rw [l1, l4, l5, l6, hRw, v1, v2, v3]
        show s1.minted = s1.burnB + (s1.burnL + (t.q - qN)) + (RT s1 + qN)
        omega

theorem claim_net {s s' : St} {farm f x : Nat} {ft : Nat × Nat} {rew : Option LkTok} {o : Out}
    (hi : NetInv s) (hf : farmEqb (.claim farm f x ft rew) = true)
    (h : claim s farm f x ft rew = some (s', o)) : NetInv s' := by
  simp only [claim, Option.bind_eq_bind, Option.bind_eq_some_iff, Option.pure_def,
    Option.some.injEq, Prod.mk.injEq] at h
  obtain ⟨⟨s1, t⟩, h1, rfl, _⟩ := h
  simp only [farmEqb, beq_iff_eq] at hf
  obtain ⟨hR, _, hA, ⟨m1, m2, m3⟩, hr, hp⟩ := takeF_keep_net h1
  obtain ⟨kl, kw⟩ := hi.kind.of_get hr
  obtain ⟨l1, _, l3, l4, l5, l6⟩ := learnOpt_net s1 rew
  obtain ⟨hRn, _, _, _, n1, n2, n3⟩ := newF_net (learnOpt s1 rew) t.r.farm ft.1 ft.2 t.r.kind t.r.pn t.p
  have hsup := hi.sup
  have hk1 : KindInv (learnOpt s1 rew) := (hi.kind.congr hA).of_af l3.2
  refine ⟨?_, hk1.newF _ _ _ _ _ _ ⟨fun hk => ?_, kw⟩⟩
  · dsimp only
    rw [hRn, n1, n2, n3, l1, l4, l5, l6]; omega
  · obtain ⟨hpa, hbase⟩ := kl hk
    rw [hpa] at hp
    have := part_self hp
    exact ⟨by dsimp only; omega, hbase⟩

theorem mergeLp_net {s s' : St} {l : List (Nat × Nat)} {t : LkTok} {o : Out} (hi : NetInv s)
    (hk : factoryOKb s (.mergeLp l t) = true) (h : mergeLp s l t = some (s', o)) : NetInv s' := by
  simp only [mergeLp, Option.bind_eq_bind, Option.bind_eq_some_iff, req_eq_some,
    Option.pure_def, Option.some.injEq, Prod.mk.injEq] at h
  obtain ⟨_, _, ⟨s1, sx⟩, h1, rfl, _⟩ := h
  simp only [factoryOKb, beq_iff_eq] at hk
  obtain ⟨hR1, _, hA, m1, m2, m3⟩ := takeWs_net h1
  obtain ⟨hR, _, _, haf, n1, n2, n3⟩ := newW_net (learn s1 t) sx t.k t.amt true
  have hsup := hi.sup
  refine ⟨?_, (hi.kind.congr hA).of_af (s := s1) haf⟩
  rw [hR, n1, n2, n3]
  show s1.minted = s1.burnB + s1.burnL + (RT s1 + t.amt)
  omega

theorem mergeFarmCore_net {s s' : St} {farm : Nat} {l : List (Nat × Nat)} {mf : Nat × Nat}
    {t : LkTok} {stray : List LkTok} {o : Out} (hi : NetInv s)
    (hf : mf.2 = sumX l) (hk : t.amt = lockedFs s l)
    (h : mergeFarmCore s farm l mf t stray = some (s', o)) : NetInv s' := by
  simp only [mergeFarmCore, Option.bind_eq_bind, Option.bind_eq_some_iff, req_eq_some,
    Option.pure_def] at h
  obtain ⟨_, _, ⟨f0, x0⟩, _, r0, hr0, ⟨s1, sp⟩, h1, h⟩ := h
  obtain ⟨hR1, _, hA, ⟨m1, m2, m3⟩, hkl⟩ := takeFs_net h1
  obtain ⟨kl, kw⟩ := hi.kind.of_get hr0
  have hsup := hi.sup
  have hk1 : KindInv s1 := hi.kind.congr hA
  dsimp only at h
  cases hkind : r0.kind with
  | locked =>
    simp only [hkind, Option.some.injEq, Prod.mk.injEq] at h
    obtain ⟨rfl, _⟩ := h
    obtain ⟨_, hls⟩ := hkl hi.kind hkind
    obtain ⟨hR, _, _, _, n1, n2, n3⟩ := newF_net
      { learn s1 t with lk := s1.lk.add t.k t.amt } r0.farm mf.1 mf.2 .locked t.k t.amt
    obtain ⟨a1, _, a3, a4, a5, a6⟩ := addStray_net
      (newF { learn s1 t with lk := s1.lk.add t.k t.amt } r0.farm mf.1 mf.2 .locked t.k t.amt).1 stray
    refine ⟨?_, ?_⟩
    · rw [a1, a4, a5, a6, hR, n1, n2, n3, if_pos rfl]
      show s1.minted = s1.burnB + s1.burnL + (RT s1 + t.amt)
      omega
    · apply KindInv.congr a3
      apply KindInv.newF (s := { learn s1 t with lk := s1.lk.add t.k t.amt })
      · exact hk1
      · exact ⟨fun _ => ⟨by omega, (kl hkind).2⟩, fun h' => by cases h'⟩
  | wlp =>
    simp only [hkind, Option.some.injEq, Prod.mk.injEq] at h
    obtain ⟨rfl, _⟩ := h
    obtain ⟨hRw, _, _, hafw, v1, v2, v3⟩ := newW_net (learn s1 t) sp t.k t.amt false
    obtain ⟨hR, _, _, _, n1, n2, n3⟩ := newF_net (newW (learn s1 t) sp t.k t.amt false).1
      r0.farm mf.1 mf.2 .wlp (newW (learn s1 t) sp t.k t.amt false).2 sp
    obtain ⟨a1, _, a3, a4, a5, a6⟩ := addStray_net
      (newF (newW (learn s1 t) sp t.k t.amt false).1 r0.farm mf.1 mf.2 .wlp
        (newW (learn s1 t) sp t.k t.amt false).2 sp).1 stray
    have hkw : KindInv (newW (learn s1 t) sp t.k t.amt false).1 := hk1.of_af (s := s1) hafw
    refine ⟨?_, KindInv.congr a3 (hkw.newF _ _ _ _ _ _ ⟨(fun h' => by cases h'), (fun _ => kw hkind)⟩)⟩
    rw [a1, a4, a5, a6, hR, n1, n2, n3, if_neg (by simp), hRw, v1, v2, v3]
    show s1.minted = s1.burnB + s1.burnL + (RT s1 + t.amt + 0)
    omega

theorem mergeFarm_net {s s' : St} {farm : Nat} {l : List (Nat × Nat)} {mf : Nat × Nat}
    {t : LkTok} {rew : Option LkTok} {stray : List LkTok} {o : Out} (hi : NetInv s)
    (hf : farmEqb (.mergeFarm farm l mf t rew stray) = true)
    (hk : factoryOKb s (.mergeFarm farm l mf t rew stray) = true)
    (h : mergeFarm s farm l mf t rew stray = some (s', o)) : NetInv s' := by
  simp only [mergeFarm, Option.bind_eq_bind, Option.bind_eq_some_iff, Option.pure_def,
    Option.some.injEq, Prod.mk.injEq] at h
  obtain ⟨⟨s1, o1⟩, h1, rfl, _⟩ := h
  simp only [farmEqb, beq_iff_eq] at hf
  simp only [factoryOKb, beq_iff_eq] at hk
  obtain ⟨l1, _, l3, l4, l5, l6⟩ := learnOpt_net s rew
  have hi0 : NetInv (learnOpt s rew) :=
    ⟨by rw [l1, l4, l5, l6]; exact hi.sup, hi.kind.of_af l3.2⟩
  exact mergeFarmCore_net hi0 hf (hk.trans (lockedFs_congr l3 l).symm) h1

theorem incLp_net {s s' : St} {w x : Nat} {t : LkTok} {o : Out} (hi : NetInv s)
    (hk : factoryOKb s (.incLp w x t) = true) (h : incLp s w x t = some (s', o)) : NetInv s' := by
  simp only [incLp, Option.bind_eq_bind, Option.bind_eq_some_iff,
    Option.pure_def, Option.some.injEq, Prod.mk.injEq] at h
  obtain ⟨⟨s1, r, p⟩, h1, rfl, _⟩ := h
  simp only [factoryOKb, beq_iff_eq] at hk
  obtain ⟨hR1, _, hp, hA, m1, m2, m3⟩ := takeW_net h1
  obtain ⟨hR, _, _, haf, n1, n2, n3⟩ := newW_net (learn s1 t) x t.k t.amt true
  have hsup := hi.sup
  refine ⟨?_, (hi.kind.congr hA).of_af (s := s1) haf⟩
  rw [hR, n1, n2, n3]
  show s1.minted = s1.burnB + s1.burnL + (RT s1 + t.amt)
  omega

theorem incFarm_net {s s' : St} {f x : Nat} {t : LkTok} {o : Out} (hi : NetInv s)
    (hk : factoryOKb s (.incFarm f x t) = true) (h : incFarm s f x t = some (s', o)) :
    NetInv s' := by
  simp only [incFarm, Option.bind_eq_bind, Option.bind_eq_some_iff, Option.pure_def] at h
  obtain ⟨⟨s1, tk⟩, h1, h⟩ := h
  simp only [factoryOKb, beq_iff_eq] at hk
  obtain ⟨hR1, _, hA, ⟨m1, m2, m3⟩, hr, hp, hql, hqd, _⟩ := takeF_net (by simp) h1
  have hq := hqd false rfl
  obtain ⟨kl, kw⟩ := hi.kind.of_get hr
  have hsup := hi.sup
  have hk1 : KindInv s1 := hi.kind.congr hA
  dsimp only at h
  cases hkind : tk.r.kind with
  | locked =>
    simp only [hkind, Option.some.injEq, Prod.mk.injEq] at h
    obtain ⟨rfl, _⟩ := h
    obtain ⟨hpa, hbase⟩ := kl hkind
    rw [hpa] at hp
    have hpx := part_self hp
    have hqp := hql hkind
    obtain ⟨hR, _, _, _, n1, n2, n3⟩ := newF_net
      { learn s1 t with lk := s1.lk.add t.k t.amt } tk.r.farm tk.r.fn x .locked t.k t.amt
    refine ⟨?_, ?_⟩
    · rw [hR, n1, n2, n3, if_pos rfl]
      show s1.minted = s1.burnB + s1.burnL + (RT s1 + t.amt)
      omega
    · apply KindInv.newF (s := { learn s1 t with lk := s1.lk.add t.k t.amt })
      · exact hk1
      · exact ⟨fun _ => ⟨by omega, hbase⟩, fun h' => by cases h'⟩
  | wlp =>
    simp only [hkind, Option.some.injEq, Prod.mk.injEq] at h
    obtain ⟨rfl, _⟩ := h
    obtain ⟨hRw, _, _, hafw, v1, v2, v3⟩ := newW_net (learn s1 t) tk.p t.k t.amt false
    obtain ⟨hR, _, _, _, n1, n2, n3⟩ := newF_net (newW (learn s1 t) tk.p t.k t.amt false).1
      tk.r.farm tk.r.fn x .wlp (newW (learn s1 t) tk.p t.k t.amt false).2 tk.p
    have hkw : KindInv (newW (learn s1 t) tk.p t.k t.amt false).1 := hk1.of_af (s := s1) hafw
    refine ⟨?_, hkw.newF _ _ _ _ _ _ ⟨(fun h' => by cases h'), (fun _ => kw hkind)⟩⟩
    rw [hR, n1, n2, n3, if_neg (by simp), hRw, v1, v2, v3]
    show s1.minted = s1.burnB + s1.burnL + (RT s1 + t.amt + 0)
    omega

/-- one transaction preserves the supply ledger, provided the callees' answers are exact -/
theorem step_net {s s' : St} {op : Op} {o : Out} (hi : NetInv s) (hc : calleeOKb s op = true)
    (h : step s op = some (s', o)) : NetInv s' := by
  simp only [calleeOKb, Bool.and_eq_true] at hc
  obtain ⟨hf, hk⟩ := hc
  cases op with
  | lock t =>
    simp only [step, Option.some.injEq, Prod.mk.injEq] at h
    obtain ⟨rfl, _⟩ := h; exact ⟨hi.sup, hi.kind⟩
  | advance e =>
    simp only [step, Option.some.injEq, Prod.mk.injEq] at h
    obtain ⟨rfl, _⟩ := h; exact ⟨hi.sup, hi.kind⟩
  | noop =>
    simp only [step, Option.some.injEq, Prod.mk.injEq] at h
    obtain ⟨rfl, _⟩ := h; exact hi
  | addLiq k la oa merge lp ul uo mk => exact addLiq_net hi hk h
  | removeLiq w x rb ro => exact removeLiq_net hi h
  | enterL farm k a merge ft rew m stray => exact enterL_net hi hf hk h
  | enterW farm w a merge ft rew m stray => exact enterW_net hi hf hk h
  | exitFarm farm f x farming rew => exact exitFarm_net (farm := farm) hi h
  | claim farm f x ft rew => exact claim_net hi hf h
  | mergeLp l t => exact mergeLp_net hi hk h
  | mergeFarm farm l mf t rew stray => exact mergeFarm_net hi hf hk h
  | incLp w x t => exact incLp_net hi hk h
  | incFarm f x t => exact incFarm_net hi hk h

theorem run_net {s : St} (ops : List Op) (hi : NetInv s) (hok : runOKb s ops = true) :
    NetInv (run s ops) := by
  induction ops generalizing s with
  | nil => exact hi
  | cons op ops ih =>
    simp only [runOKb, Bool.and_eq_true] at hok
    obtain ⟨hc, hrest⟩ := hok
    simp only [run, List.foldl_cons]
    cases h : step s op with
    | none => rw [h] at hrest; exact ih hi hrest
    | some r =>
      obtain ⟨s', o⟩ := r
      rw [h] at hrest
      exact ih (step_net hi hc h) hrest

end Mx.ProxyDex
