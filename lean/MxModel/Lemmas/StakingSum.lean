/-
  Sums over the outstanding farm-token SFTs of the staking model.

  `tot hold accts n` = all units of nonce `n` held by the accounts of the world; a weighted sum
  over the nonces `0 … nonce` (`Wsum`) expresses the reported supply (weight: "is a position"),
  the outstanding unbond amounts (weight: "is an unbond token"), ….  The generic lemmas say how
  such a sum moves when a caller's payments are burned, a new nonce is minted, or units are
  transferred between accounts.
-/
import MxModel.Lemmas.StakingFactors

namespace Mx.Staking

open Mx.Weekly

/-- units of nonce `n` held by all accounts -/
def tot (hold : Nat → Nat → Nat) (accts : List Nat) (n : Nat) : Nat := usum accts (fun a => hold a n)

/-- `Σ_{n < N} w n · tot n` -/
def Wsum (hold : Nat → Nat → Nat) (accts : List Nat) (N : Nat) (w : Nat → Nat) : Nat :=
  usum (List.range N) (fun n => w n * tot hold accts n)

/-- what the payments `pays` take of nonce `n` -/
def paidFor : List Pay → Nat → Nat
  | [], _ => 0
  | p :: ps, n => (if p.1 = n then p.2 else 0) + paidFor ps n

/-- `Σ_{p ∈ pays} w p.nonce · p.amount` -/
def paySum (w : Nat → Nat) (pays : List Pay) : Nat := (pays.map fun p => w p.1 * p.2).sum

@[simp] theorem paySum_nil (w : Nat → Nat) : paySum w [] = 0 := rfl
@[simp] theorem paySum_cons (w : Nat → Nat) (p : Pay) (ps : List Pay) :
    paySum w (p :: ps) = w p.1 * p.2 + paySum w ps := by simp [paySum]

theorem debit_spec (c : Nat) : ∀ (pays : List Pay) (hold h0 : Nat → Nat → Nat),
    debit hold c pays = some h0 →
      (∀ n, paidFor pays n ≤ hold c n ∧ h0 c n = hold c n - paidFor pays n) ∧
      (∀ a n, a ≠ c → h0 a n = hold a n) ∧ (∀ p ∈ pays, 0 < p.2)
  | [], hold, h0, h => by
      simp only [debit, Option.some.injEq] at h
      subst h
      exact ⟨fun n => ⟨Nat.zero_le _, rfl⟩, fun _ _ _ => rfl, fun _ hp => by simp at hp⟩
  | p :: ps, hold, h0, h => by
      simp only [debit, Option.bind_eq_bind, Option.bind_eq_some_iff, req_eq_some] at h
      obtain ⟨_, hp0, _, hple, h⟩ := h
      obtain ⟨ih1, ih2, ih3⟩ := debit_spec c ps _ h0 h
      refine ⟨fun n => ?_, fun a n ha => ?_, ?_⟩
      · obtain ⟨i1, i2⟩ := ih1 n
        simp only [paidFor, upd2] at i1 i2 ⊢
        by_cases hn : p.1 = n
        · subst hn
          simp only [and_self, if_true] at i1 i2 ⊢
          omega
        · have : ¬(c = c ∧ n = p.1) := by intro h'; exact hn h'.2.symm
          simp only [this, if_false, hn] at i1 i2 ⊢
          omega
      · rw [ih2 a n ha]
        simp only [upd2]
        have : ¬(a = c ∧ n = p.1) := fun h' => ha h'.1
        simp only [this, if_false]
      · intro q hq
        rcases List.mem_cons.mp hq with rfl | hq
        · exact hp0
        · exact ih3 q hq

/-- burning a caller's payments lowers every per-nonce total by exactly what was paid -/
theorem debit_tot {c : Nat} {pays : List Pay} {hold h0 : Nat → Nat → Nat} {accts : List Nat}
    (h : debit hold c pays = some h0) (hc : c ∈ accts) (hnd : accts.Nodup) (n : Nat) :
    tot h0 accts n + paidFor pays n = tot hold accts n := by
  obtain ⟨h1, h2, _⟩ := debit_spec c pays hold h0 h
  obtain ⟨i1, i2⟩ := h1 n
  have := usum_update hnd hc (f := fun a => hold a n) (g := fun a => h0 a n)
    (fun a _ ha => h2 a n ha)
  simp only [tot] at this ⊢
  omega

theorem usum_single (N k v : Nat) (w : Nat → Nat) (hk : k < N) :
    usum (List.range N) (fun n => w n * (if k = n then v else 0)) = w k * v := by
  induction N with
  | zero => omega
  | succ N ih =>
    rw [List.range_succ, usum_append]
    simp only [usum_cons, usum_nil, Nat.add_zero]
    by_cases hkN : k = N
    · subst hkN
      have : usum (List.range k) (fun n => w n * (if k = n then v else 0)) = 0 := by
        apply usum_zero
        intro u hu
        have : k ≠ u := by have := List.mem_range.mp hu; omega
        simp [this]
      rw [this]; simp
    · have hk' : k < N := by omega
      rw [ih hk']
      simp [hkN]

/-- the weighted amount of the payments, nonce by nonce -/
theorem usum_paidFor (N : Nat) (w : Nat → Nat) : ∀ (pays : List Pay), (∀ p ∈ pays, p.1 < N) →
    usum (List.range N) (fun n => w n * paidFor pays n) = paySum w pays
  | [], _ => by
      simp only [paidFor, Nat.mul_zero, paySum_nil]
      exact usum_zero (fun _ _ => rfl)
  | p :: ps, h => by
      have ih := usum_paidFor N w ps (fun q hq => h q (List.mem_cons_of_mem _ hq))
      have hp := h p (List.mem_cons_self)
      simp only [paidFor, Nat.mul_add, paySum_cons]
      rw [usum_add, ih, usum_single N p.1 p.2 w hp]

/-- burning payments: the weighted sum drops by the weighted amount of the payments -/
theorem Wsum_debit {c : Nat} {pays : List Pay} {hold h0 : Nat → Nat → Nat} {accts : List Nat} {N : Nat}
    (w : Nat → Nat) (h : debit hold c pays = some h0) (hc : c ∈ accts) (hnd : accts.Nodup)
    (hN : ∀ p ∈ pays, p.1 < N) :
    Wsum h0 accts N w + paySum w pays = Wsum hold accts N w := by
  rw [← usum_paidFor N w pays hN]
  simp only [Wsum]
  rw [← usum_add]
  apply usum_congr
  intro n _
  have := debit_tot h hc hnd n
  rw [← this, Nat.mul_add]

/-- minting `A` units of a nonce nobody holds yet, to account `c` -/
theorem tot_mint {h0 : Nat → Nat → Nat} {accts : List Nat} {c N A : Nat} (hc : c ∈ accts)
    (hnd : accts.Nodup) (hfresh : ∀ a, h0 a N = 0) (n : Nat) :
    tot (upd2 h0 c N A) accts n = if n = N then A else tot h0 accts n := by
  by_cases hn : n = N
  · subst hn
    rw [if_pos rfl]
    have := usum_update hnd hc (f := fun _ => 0) (g := fun a => upd2 h0 c n A a n)
      (fun a _ ha => by
        simp only [upd2]
        have : ¬(a = c ∧ n = n) := fun h' => ha h'.1
        simp only [this, if_false]; exact hfresh a)
    have hz : usum accts (fun _ => 0) = 0 := usum_zero (fun _ _ => rfl)
    simp only [tot]
    simp only [upd2, and_self, if_true] at this
    omega
  · rw [if_neg hn]
    simp only [tot]
    apply usum_congr
    intro a _
    simp only [upd2]
    have : ¬(a = c ∧ n = N) := fun h' => hn h'.2
    simp only [this, if_false]

/-- weighted sum after a mint of the fresh nonce `N` (weights may be redefined at `N`) -/
theorem Wsum_mint {h0 : Nat → Nat → Nat} {accts : List Nat} {c N A : Nat} (w w' : Nat → Nat)
    (hc : c ∈ accts) (hnd : accts.Nodup) (hfresh : ∀ a, h0 a N = 0) (hw : ∀ n, n < N → w' n = w n) :
    Wsum (upd2 h0 c N A) accts (N + 1) w' = Wsum h0 accts N w + w' N * A := by
  simp only [Wsum]
  rw [List.range_succ, usum_append]
  simp only [usum_cons, usum_nil, Nat.add_zero]
  rw [tot_mint hc hnd hfresh N, if_pos rfl]
  congr 1
  apply usum_congr
  intro n hn
  have hn' := List.mem_range.mp hn
  rw [tot_mint hc hnd hfresh n, if_neg (by omega), hw n hn']

/-- moving units of one nonce between two accounts leaves every total unchanged -/
theorem tot_transfer {h0 : Nat → Nat → Nat} {accts : List Nat} {dst k v : Nat} (hd : dst ∈ accts)
    (hnd : accts.Nodup) (n : Nat) :
    tot (upd2 h0 dst k (h0 dst k + v)) accts n = tot h0 accts n + (if n = k then v else 0) := by
  have := usum_update hnd hd (f := fun a => h0 a n) (g := fun a => upd2 h0 dst k (h0 dst k + v) a n)
    (fun a _ ha => by
      simp only [upd2]
      have : ¬(a = dst ∧ n = k) := fun h' => ha h'.1
      simp only [this, if_false])
  simp only [tot]
  by_cases hn : n = k
  · subst hn
    simp only [upd2, and_self, if_true] at this ⊢
    omega
  · have hx : ¬(dst = dst ∧ n = k) := fun h' => hn h'.2
    simp only [upd2, hx, if_false, hn] at this ⊢
    omega

end Mx.Staking
