/-
  The weekly-rewards module embedded in the farm keeps its global energy invariant (`Weekly.GInv`)
  and the all-weeks energy bound (`Weekly.EB`) in every reachable farm state:

      totalEnergyForWeek(w) = 0  ∨  Σ_{u : progress(u).week ≤ w} energy of u decayed to w ≤ totalEnergyForWeek(w)

  i.e. the ENERGY half (`Σ e ≤ E`) of the week budget (Lemmas/FarmWeekSafe.lean) holds for every
  week and every reachable state.  The invariants are those of Lemmas/WeeklyInv.lean /
  WeeklyHist.lean; here they are transported through the farm's `step`: only `claimBoostedYields`
  (`claim_multi`), `updateEnergyAndProgress`, `updateEnergyForUser` and `clearUserEnergyIfNeeded` touch `s.w`.
-/
import MxModel.Lemmas.FarmPool
import MxModel.Lemmas.WeeklyHist

namespace Mx.Farm

open Mx.Weekly (upd Energy)

/-- the weekly module's invariants on the embedded state -/
def WInv (s : St) : Prop := Weekly.GInv s.w ∧ Weekly.EB s.w

theorem WInv.of_w {s s' : St} (h : WInv s) (e : s'.w = s.w) : WInv s' := by
  unfold WInv; rw [e]; exact h

theorem week_pos {s : St} {W : Nat} (h : s.week = some W) : 1 ≤ W := by
  have := (week_eq_some.mp h).2
  omega

theorem takePayments_w {l : List (Nat × Nat)} {s s' : St} {c : Nat} (h : takePayments s c l = some s') :
    s'.w = s.w := by obtain ⟨_, rfl⟩ := takePayments_spec l h; rfl
theorem checkAndUpdate_w {l : List (Nat × Nat)} {s s' : St} {c : Nat} (h : checkAndUpdate s c l = some s') :
    s'.w = s.w := by obtain ⟨_, rfl⟩ := checkAndUpdate_spec l h; rfl
theorem setFarmSupplyWeek_w {s s' : St} {v : Nat} (h : setFarmSupplyWeek s v = some s') :
    s'.w = s.w := by obtain ⟨_, _, rfl⟩ := setFarmSupplyWeek_spec h; rfl
theorem createToken_w {s s' : St} {d n : Nat} {a : Attr} (h : createToken s d a = some (s', n)) :
    s'.w = s.w := by obtain ⟨_, _, rfl⟩ := createToken_spec h; rfl
theorem generate_w {s s' : St} {c c' : Cache} (h : generate s c = some (s', c')) :
    s'.w = s.w := by obtain ⟨_, rfl, _⟩ := generate_spec h; rfl
theorem payReward_w {s s' : St} {u b bo : Nat} (h : payReward s u b bo = some s') :
    s'.w = s.w := by obtain ⟨_, _, rfl, _⟩ := payReward_spec h; rfl
theorem payRewardIf_w {s s' : St} {k : Kind} {u b bo : Nat} (h : payRewardIf s k u b bo = some s') :
    s'.w = s.w := by
  unfold payRewardIf at h
  split at h
  · exact payReward_w h
  · simp only [Option.some.injEq] at h; rw [← h]
theorem removeFarming_w {s s' : St} {a p : Nat} (h : removeFarming s a p = some s') : s'.w = s.w := by
  simp only [removeFarming, Option.bind_eq_bind, Option.bind_eq_some_iff, sub?_eq_some, Option.pure_def,
    Option.some.injEq] at h
  obtain ⟨_, _, rfl⟩ := h; rfl
theorem compoundMove_w {s s' : St} {b bo : Nat} (h : compoundMove s b bo = some s') : s'.w = s.w := by
  simp only [compoundMove, Option.bind_eq_bind, Option.bind_eq_some_iff, sub?_eq_some, Option.pure_def,
    Option.some.injEq] at h
  obtain ⟨_, _, rfl⟩ := h; rfl
theorem settle_w {s s' : St} (h : settle s = some s') : s'.w = s.w := by
  simp only [settle, Option.bind_eq_bind, Option.bind_eq_some_iff, Option.pure_def, Option.some.injEq] at h
  obtain ⟨⟨s1, c1⟩, h1, rfl⟩ := h
  exact (generate_w h1 : s1.w = s.w)

/-! ### the four helpers that touch `w` -/

theorem updateEnergyAndProgress_winv {s s' : St} {u : Nat} (hI : WInv s)
    (h : updateEnergyAndProgress s u = some s') : WInv s' := by
  simp only [updateEnergyAndProgress, Option.bind_eq_bind, Option.bind_eq_some_iff, Option.pure_def,
    Option.some.injEq] at h
  obtain ⟨W, hW, g, hg, rfl⟩ := h
  have hp := week_pos hW
  exact ⟨Weekly.updateEnergyAndProgress_GInv hp hI.1 hg, Weekly.updateEnergyAndProgress_EB hp hI.1 hI.2 hg⟩

theorem claimBoostedYields_winv {s s' : St} {u r : Nat} (hI : WInv s)
    (h : claimBoostedYields s u = some (s', r)) : WInv s' := by
  have h0 := h
  unfold claimBoostedYields at h
  split at h
  · rename_i hc
    exact updateEnergyAndProgress_winv hI (claimBoostedYields_none_spec hc h0).2
  · simp only [Option.bind_eq_bind, Option.bind_eq_some_iff, Option.pure_def, Option.some.injEq,
      Prod.mk.injEq] at h
    obtain ⟨W, hW, mem, _, ⟨g', c', rl⟩, hx, rfl, _⟩ := h
    have hp := week_pos hW
    exact ⟨Weekly.claimMulti_GInv (boostedRewards_frame _ _) hp hI.1 hx,
      Weekly.claimMulti_EB (boostedRewards_frame _ _) hp hI.1 hI.2 hx⟩

theorem updateEnergyForUser_winv {s s' : St} {u : Nat} (hI : WInv s)
    (h : updateEnergyForUser s u = some s') : WInv s' := by
  simp only [updateEnergyForUser, Option.bind_eq_bind, Option.bind_eq_some_iff, Option.pure_def,
    Option.some.injEq] at h
  obtain ⟨W, hW, g, hg, rfl⟩ := h
  have hp := week_pos hW
  exact ⟨Weekly.updateEnergyForUser_GInv hp hI.1 hg, Weekly.updateEnergyForUser_EB hp hI.1 hI.2 hg⟩

theorem clearUserEnergyIfNeeded_winv {s s' : St} {u : Nat} (hI : WInv s)
    (h : clearUserEnergyIfNeeded s u = some s') : WInv s' := by
  unfold clearUserEnergyIfNeeded at h
  split at h
  · simp only [Option.some.injEq] at h; subst h; exact hI
  · simp only [Option.bind_eq_bind, Option.bind_eq_some_iff, Option.pure_def, Option.some.injEq] at h
    obtain ⟨W, hW, mem, _, g, hg, rfl⟩ := h
    have hp := week_pos hW
    exact ⟨Weekly.clearUserEnergy_GInv hp hI.1 hg, Weekly.clearUserEnergy_EB hp hI.1 hI.2 hg⟩

theorem claimOnlyBoostedPayment_winv {s s' : St} {u r : Nat} (hI : WInv s)
    (h : claimOnlyBoostedPayment s u = some (s', r)) : WInv s' := by
  simp only [claimOnlyBoostedPayment, Option.bind_eq_bind, Option.bind_eq_some_iff, Option.pure_def] at h
  obtain ⟨⟨s1, r1⟩, h1, h⟩ := h
  have k1 := claimBoostedYields_winv hI h1
  split at h
  · simp only [Option.some.injEq, Prod.mk.injEq] at h
    obtain ⟨rfl, _⟩ := h; exact k1
  · simp only [Option.bind_eq_some_iff, sub?_eq_some, Option.some.injEq, Prod.mk.injEq] at h
    obtain ⟨_, _, rfl, _⟩ := h; exact k1.of_w rfl

theorem claimTail_winv {s s' : St} {c : Bool} {u b bo : Nat} (hI : WInv s)
    (h : claimTail s c u b bo = some s') : WInv s' := by
  unfold claimTail at h
  split at h
  · simp only [Option.bind_eq_some_iff] at h
    obtain ⟨s1, h1, h2⟩ := h
    exact updateEnergyAndProgress_winv (hI.of_w (compoundMove_w h1)) h2
  · exact hI.of_w (payReward_w h)

/-! ### endpoints -/

theorem enterCore_winv {s s' : St} {caller orig tokenTo amt : Nat} {extra : List (Nat × Nat)} {o : Out}
    (hI : WInv s) (h : enterCore s caller orig tokenTo amt extra = some (s', o)) : WInv s' := by
  simp only [enterCore, Option.bind_eq_bind, Option.bind_eq_some_iff, req_eq_some, Option.pure_def,
    Option.some.injEq, Prod.mk.injEq] at h
  obtain ⟨_, _, s0, h0, ⟨s1, boosted⟩, h1, s1', h1', _, hact, s2, h2, ⟨s4, c1⟩, h4, merged, hm,
    ⟨s5, n⟩, h5, s6, h6, s8, h8, s9, h9, rfl, rfl⟩ := h
  have i0 : WInv (addFarming s0 amt) := (hI.of_w (takePayments_w h0)).of_w rfl
  have i1 := claimOnlyBoostedPayment_winv i0 h1
  have i1' := i1.of_w (payRewardIf_w h1')
  have i2 := i1'.of_w (checkAndUpdate_w h2)
  have i4 : WInv s4 := i2.of_w (generate_w (s := increaseUser s2 orig amt) h4)
  have i5 := i4.of_w (createToken_w h5)
  have i6 := i5.of_w (setFarmSupplyWeek_w h6)
  have i8 : WInv s8 := (i6.of_w (s' := Cache.drop s6 _) rfl).of_w (payRewardIf_w h8)
  exact updateEnergyAndProgress_winv i8 h9

theorem claimCore_winv {s s' : St} {caller orig : Nat} {pays : List (Nat × Nat)} {cmp : Bool} {o : Out}
    (hI : WInv s) (h : claimCore s caller orig pays cmp = some (s', o)) : WInv s' := by
  unfold claimCore at h
  replace h := bpeel h; obtain ⟨⟨n1, a1⟩, hhead, h⟩ := h
  replace h := bpeel h; obtain ⟨s0, h0, h⟩ := h
  replace h := bpeel h; obtain ⟨_, _, h⟩ := h
  replace h := bpeel h; obtain ⟨_, _, h⟩ := h
  replace h := bpeel h; obtain ⟨at1, hat, h⟩ := h
  replace h := bpeel h; obtain ⟨⟨s1, c1⟩, h1, h⟩ := h
  replace h := bpeel h; obtain ⟨part, hpart, h⟩ := h
  replace h := bpeel h; obtain ⟨⟨s2, boosted⟩, h2, h⟩ := h
  replace h := bpeel h; obtain ⟨res, _, h⟩ := h
  replace h := bpeel h; obtain ⟨s3, h3, h⟩ := h
  replace h := bpeel h; obtain ⟨merged, hm, h⟩ := h
  replace h := bpeel h; obtain ⟨⟨s5, n⟩, h5, h⟩ := h
  replace h := bpeel h; obtain ⟨s6, h6, h⟩ := h
  replace h := bpeel h; obtain ⟨s8, h8, h⟩ := h
  simp only [Option.pure_def, Option.some.injEq, Prod.mk.injEq] at h
  obtain ⟨rfl, _⟩ := h
  have i0 := hI.of_w (takePayments_w h0)
  have i1 := i0.of_w (generate_w h1)
  have i2 := claimBoostedYields_winv i1 h2
  have i3 := i2.of_w (checkAndUpdate_w h3)
  have i5 : WInv s5 := i3.of_w ((createToken_w h5).trans (by cases cmp <;> rfl))
  have i6 := i5.of_w (setFarmSupplyWeek_w h6)
  exact claimTail_winv (s := Cache.drop s6 _) (i6.of_w rfl) h8

theorem exitFarm_winv {s s' : St} {caller : Nat} {opt : Option Nat} {n a : Nat} {o : Out}
    (hI : WInv s) (h : exitFarm s caller opt n a = some (s', o)) : WInv s' := by
  unfold exitFarm at h
  replace h := bpeel h; obtain ⟨orig, _, h⟩ := h
  replace h := bpeel h; obtain ⟨s0, h0, h⟩ := h
  replace h := bpeel h; obtain ⟨_, _, h⟩ := h
  replace h := bpeel h; obtain ⟨att, hat, h⟩ := h
  replace h := bpeel h; obtain ⟨⟨s1, c1⟩, h1, h⟩ := h
  replace h := bpeel h; obtain ⟨part, hpart, h⟩ := h
  replace h := bpeel h; obtain ⟨⟨s2, boosted⟩, h2, h⟩ := h
  replace h := bpeel h; obtain ⟨res, _, h⟩ := h
  replace h := bpeel h; obtain ⟨sup, hsup, h⟩ := h
  replace h := bpeel h; obtain ⟨s4, h4, h⟩ := h
  replace h := bpeel h; obtain ⟨pen, hpen, h⟩ := h
  replace h := bpeel h; obtain ⟨out, _, h⟩ := h
  replace h := bpeel h; obtain ⟨s6, h6, h⟩ := h
  replace h := bpeel h; obtain ⟨s7, h7, h⟩ := h
  replace h := bpeel h; obtain ⟨s8, h8, h⟩ := h
  simp only [Option.pure_def, Option.some.injEq, Prod.mk.injEq] at h
  obtain ⟨rfl, _⟩ := h
  have i0 := hI.of_w (takePayments_w h0)
  have i1 := i0.of_w (generate_w h1)
  have i2 := claimBoostedYields_winv i1 h2
  have i4 : WInv s4 := i2.of_w (setFarmSupplyWeek_w (s := decreaseOwner s2 att.owner a) h4)
  have i6 : WInv s6 := i4.of_w (removeFarming_w (s := Cache.drop s4 _) h6)
  have i7 := i6.of_w (payReward_w h7)
  exact clearUserEnergyIfNeeded_winv i7 h8

theorem mergeFarmTokens_winv {s s' : St} {caller : Nat} {opt : Option Nat} {pays : List (Nat × Nat)}
    {o : Out} (hI : WInv s) (h : mergeFarmTokens s caller opt pays = some (s', o)) : WInv s' := by
  simp only [mergeFarmTokens, Option.bind_eq_bind, Option.bind_eq_some_iff, req_eq_some, Option.pure_def,
    Option.some.injEq, Prod.mk.injEq] at h
  obtain ⟨_, hact, orig, _, _, _, s0, h0, ⟨s1, boosted⟩, h1, s2, h2, merged, hm, ⟨s3, n⟩, h3, s4, h4, rfl, rfl⟩ := h
  have i1 := claimOnlyBoostedPayment_winv (hI.of_w (takePayments_w h0)) h1
  exact ((i1.of_w (checkAndUpdate_w h2)).of_w (createToken_w h3)).of_w (payReward_w h4)

theorem claimBoostedRewards_winv {s s' : St} {caller : Nat} {optUser : Option Nat} {o : Out}
    (hI : WInv s) (h : claimBoostedRewards s caller optUser = some (s', o)) : WInv s' := by
  simp only [claimBoostedRewards, Option.bind_eq_bind, Option.bind_eq_some_iff, req_eq_some, Option.pure_def,
    Option.some.injEq, Prod.mk.injEq, sub?_eq_some] at h
  obtain ⟨_, _, _, _, _, hact, ⟨s1, c1⟩, h1, ⟨s2, boosted⟩, h2, res, ⟨hle, rfl⟩, s3, h3, s4, h4, rfl, rfl⟩ := h
  have i2 := claimBoostedYields_winv (hI.of_w (generate_w h1)) h2
  exact ((i2.of_w (setFarmSupplyWeek_w h3)).of_w (payReward_w h4)).of_w (s' := Cache.drop s4 _) rfl

theorem init_winv (kind : Kind) (sameTok : Bool) (dsc perBlock : Nat) (produce : Bool)
    (users : List Nat) (e0 : Nat) : WInv (init kind sameTok dsc perBlock produce users e0) :=
  ⟨Weekly.GInv.init, Weekly.EB.init⟩

theorem step_winv {s s' : St} {op : Op} {o : Out} (hI : WInv s) (h : step s op = some (s', o)) :
    WInv s' := by
  cases op <;> simp only [step, known] at h
  case enter c oo a e =>
    split at h <;> [skip; exact absurd h (by simp)]
    simp only [enterFarm, Option.bind_eq_bind, Option.bind_eq_some_iff] at h
    obtain ⟨_, _, h⟩ := h
    exact enterCore_winv hI h
  case enterOB c u a e =>
    split at h <;> [skip; exact absurd h (by simp)]
    simp only [enterFarmOnBehalf, Option.bind_eq_bind, Option.bind_eq_some_iff] at h
    obtain ⟨_, _, _, _, h⟩ := h
    exact enterCore_winv hI h
  case claim c oo p =>
    split at h <;> [skip; exact absurd h (by simp)]
    simp only [claimRewards, Option.bind_eq_bind, Option.bind_eq_some_iff] at h
    obtain ⟨_, _, h⟩ := h
    exact claimCore_winv hI h
  case claimOB c p =>
    split at h <;> [skip; exact absurd h (by simp)]
    simp only [claimRewardsOnBehalf, Option.bind_eq_bind, Option.bind_eq_some_iff] at h
    obtain ⟨_, _, _, _, _, _, h⟩ := h
    exact claimCore_winv hI h
  case compound c oo p =>
    split at h <;> [skip; exact absurd h (by simp)]
    simp only [compoundRewards, Option.bind_eq_bind, Option.bind_eq_some_iff, req_eq_some] at h
    obtain ⟨_, hk, _, _, h⟩ := h
    exact claimCore_winv hI h
  case exit c oo n a =>
    split at h <;> [skip; exact absurd h (by simp)]
    exact exitFarm_winv hI h
  case merge c oo p =>
    split at h <;> [skip; exact absurd h (by simp)]
    exact mergeFarmTokens_winv hI h
  case claimBoosted c u =>
    split at h <;> [skip; exact absurd h (by simp)]
    exact claimBoostedRewards_winv hI h
  case transfer a b n x =>
    split at h <;> [skip; exact absurd h (by simp)]
    split at h <;> [skip; exact absurd h (by simp)]
    simp only [noOut, Option.map_eq_some_iff, Prod.mk.injEq] at h
    obtain ⟨s1, h1, rfl, _⟩ := h
    simp only [transfer, Option.bind_eq_bind, Option.bind_eq_some_iff, req_eq_some, sub?_eq_some,
      Option.pure_def, Option.some.injEq] at h1
    obtain ⟨_, _, _, _, _, _, _, _, rfl⟩ := h1
    exact hI.of_w rfl
  case setEnergy u a l t =>
    simp only [Option.some.injEq, Prod.mk.injEq] at h
    obtain ⟨rfl, _⟩ := h
    exact hI.of_w rfl
  case updateEnergy u =>
    simp only [noOut, Option.map_eq_some_iff, Prod.mk.injEq] at h
    obtain ⟨s1, h1, rfl, _⟩ := h
    exact updateEnergyForUser_winv hI h1
  case setPerBlock c x =>
    simp only [noOut, Option.map_eq_some_iff, Prod.mk.injEq] at h
    obtain ⟨s1, h1, rfl, _⟩ := h
    simp only [setPerBlock, Option.bind_eq_bind, Option.bind_eq_some_iff, Option.pure_def,
      Option.some.injEq] at h1
    obtain ⟨_, _, _, _, s2, h2, rfl⟩ := h1
    exact hI.of_w (settle_w h2 : s2.w = s.w)
  case startProduce c =>
    simp only [noOut, Option.map_eq_some_iff, Prod.mk.injEq] at h
    obtain ⟨s1, h1, rfl, _⟩ := h
    simp only [startProduce, Option.bind_eq_bind, Option.bind_eq_some_iff, Option.pure_def,
      Option.some.injEq] at h1
    obtain ⟨_, _, _, _, _, _, rfl⟩ := h1
    exact hI.of_w rfl
  case endProduce c =>
    simp only [noOut, Option.map_eq_some_iff, Prod.mk.injEq] at h
    obtain ⟨s1, h1, rfl, _⟩ := h
    simp only [endProduce, Option.bind_eq_bind, Option.bind_eq_some_iff, Option.pure_def,
      Option.some.injEq] at h1
    obtain ⟨_, _, s2, h2, rfl⟩ := h1
    exact hI.of_w (settle_w h2 : s2.w = s.w)
  case setPct c p =>
    simp only [noOut, Option.map_eq_some_iff, Prod.mk.injEq] at h
    obtain ⟨s1, h1, rfl, _⟩ := h
    simp only [setPct, Option.bind_eq_bind, Option.bind_eq_some_iff, Option.pure_def,
      Option.some.injEq] at h1
    obtain ⟨_, _, _, _, s2, h2, rfl⟩ := h1
    exact hI.of_w (settle_w h2 : s2.w = s.w)
  case setFactors c f =>
    simp only [noOut, Option.map_eq_some_iff, Prod.mk.injEq] at h
    obtain ⟨s1, h1, rfl, _⟩ := h
    simp only [setFactors, Option.bind_eq_bind, Option.bind_eq_some_iff, Option.pure_def] at h1
    obtain ⟨_, _, _, _, _, _, W, _, h1⟩ := h1
    split at h1
    · simp only [Option.bind_eq_some_iff, Option.some.injEq] at h1
      obtain ⟨_, _, rfl⟩ := h1
      exact hI.of_w rfl
    · simp only [Option.some.injEq] at h1
      subst h1
      exact hI.of_w rfl
  case collect c =>
    simp only [noOut, Option.map_eq_some_iff, Prod.mk.injEq] at h
    obtain ⟨s1, h1, rfl, _⟩ := h
    simp only [collectUndistributed, Option.bind_eq_bind, Option.bind_eq_some_iff, Option.pure_def,
      req_eq_some] at h1
    obtain ⟨_, _, W, _, _, _, h1⟩ := h1
    split at h1 <;> simp only [Option.some.injEq] at h1 <;> subst h1 <;> exact hI.of_w rfl
  case pause c =>
    simp only [noOut, Option.map_eq_some_iff, Prod.mk.injEq] at h
    obtain ⟨s1, h1, rfl, _⟩ := h
    simp only [setActive, Option.bind_eq_bind, Option.bind_eq_some_iff, Option.pure_def,
      Option.some.injEq] at h1
    obtain ⟨_, _, rfl⟩ := h1
    exact hI.of_w rfl
  case resume c =>
    simp only [noOut, Option.map_eq_some_iff, Prod.mk.injEq] at h
    obtain ⟨s1, h1, rfl, _⟩ := h
    simp only [setActive, Option.bind_eq_bind, Option.bind_eq_some_iff, Option.pure_def,
      Option.some.injEq] at h1
    obtain ⟨_, _, rfl⟩ := h1
    exact hI.of_w rfl
  case setPenalty c p =>
    simp only [noOut, Option.map_eq_some_iff, Prod.mk.injEq] at h
    obtain ⟨s1, h1, rfl, _⟩ := h
    simp only [setPenalty, Option.bind_eq_bind, Option.bind_eq_some_iff, Option.pure_def,
      Option.some.injEq] at h1
    obtain ⟨_, _, _, _, rfl⟩ := h1
    exact hI.of_w rfl
  case setMinEpochs c n =>
    simp only [noOut, Option.map_eq_some_iff, Prod.mk.injEq] at h
    obtain ⟨s1, h1, rfl, _⟩ := h
    simp only [setMinEpochs, Option.bind_eq_bind, Option.bind_eq_some_iff, Option.pure_def,
      Option.some.injEq] at h1
    obtain ⟨_, _, _, _, rfl⟩ := h1
    exact hI.of_w rfl
  case hubWhitelist u a =>
    split at h
    · cases h
    · simp only [Option.some.injEq, Prod.mk.injEq] at h; obtain ⟨rfl, _⟩ := h; exact hI.of_w rfl
  case hubRemove u a =>
    split at h
    · simp only [Option.some.injEq, Prod.mk.injEq] at h; obtain ⟨rfl, _⟩ := h; exact hI.of_w rfl
    · cases h
  case hubBlacklist a =>
    simp only [Option.some.injEq, Prod.mk.injEq] at h; obtain ⟨rfl, _⟩ := h; exact hI.of_w rfl
  case scWhitelist a =>
    split at h
    · cases h
    · simp only [Option.some.injEq, Prod.mk.injEq] at h; obtain ⟨rfl, _⟩ := h; exact hI.of_w rfl
  case scUnwhitelist a =>
    split at h
    · simp only [Option.some.injEq, Prod.mk.injEq] at h; obtain ⟨rfl, _⟩ := h; exact hI.of_w rfl
    · cases h
  case advance b e =>
    split at h
    · simp only [Option.some.injEq, Prod.mk.injEq] at h; obtain ⟨rfl, _⟩ := h; exact hI.of_w rfl
    · cases h
  case bad => cases h

theorem run_winv (ops : List Op) {s : St} (hI : WInv s) : WInv (run s ops) := by
  induction ops generalizing s with
  | nil => exact hI
  | cons op rest ih =>
    simp only [run, List.foldl_cons]
    cases hs : step s op with
    | none => exact ih hI
    | some r => exact ih (step_winv hI (show step s op = some (r.1, r.2) from hs))

/-- every reachable farm state: the weekly module's global energy invariant and the all-weeks bound -/
theorem reachable_winv (kind : Kind) (sameTok : Bool) (dsc perBlock : Nat) (produce : Bool)
    (users : List Nat) (e0 : Nat) (ops : List Op) :
    WInv (run (init kind sameTok dsc perBlock produce users e0) ops) :=
  run_winv ops (init_winv kind sameTok dsc perBlock produce users e0)

end Mx.Farm
