/-
  The per-week boosted pool bound `PoolOK` is preserved by every transaction of the staking model;
  what `collectUndistributedBoostedRewards` does.
-/
import MxModel.Lemmas.StakingBoosted

namespace Mx.Staking

open Mx.Weekly

theorem stakeCore_pool {s s' : St} {c orig amount : Nat} {v : Bool} {adds : List Pay} {o : Out}
    (hb : PoolOK s.b) (h : stakeCore s c orig amount v adds = some (s', o)) : PoolOK s'.b := by
  cases v <;>
  · simp only [stakeCore, Option.bind_eq_bind, Option.bind_eq_some_iff, req_eq_some,
      sub?_eq_some, Option.pure_def, Option.some.injEq, Prod.mk.injEq] at h
    obtain ⟨_, _, hold0, _, r, hr, res1, _, _, _, ut1, _, ⟨s3, c3⟩, hg, merged, _, w2, _,
      bal1, _, rfl, _⟩ := h
    obtain ⟨_, _, rfl, rfl⟩ := generate_spec hg
    exact (claimBoostedYields_pool hb hr).of_eq rfl rfl rfl

theorem claimCore_pool {s s' : St} {c orig : Nat} {pays : List Pay} {nv : Option Nat} {o : Out}
    (hb : PoolOK s.b) (h : claimCore s c orig pays nv = some (s', o)) : PoolOK s'.b := by
  simp only [claimCore, Option.bind_eq_bind, Option.bind_eq_some_iff] at h
  obtain ⟨m, hm, h⟩ := h
  obtain ⟨_, _, _, r, _, _, _, hr, _, _, hb1, _⟩ := claimBase_reward hm
  simp only [claimFinish, Option.bind_eq_bind, Option.bind_eq_some_iff, req_eq_some,
    sub?_eq_some, Option.pure_def, Option.some.injEq, Prod.mk.injEq] at h
  obtain ⟨res1, _, sup1, _, ut2, _, _, _, w2, _, bal1, _, rfl, _⟩ := h
  have := claimBoostedYields_pool (genSt_pool hb) hr
  rw [← hb1] at this
  exact this.of_eq rfl rfl rfl

theorem compound_pool {s s' : St} {c : Nat} {pays : List Pay} {o : Out}
    (hb : PoolOK s.b) (h : compound s c pays = some (s', o)) : PoolOK s'.b := by
  simp only [compound, Option.bind_eq_bind, Option.bind_eq_some_iff, req_eq_some,
    sub?_eq_some, Option.pure_def, Option.some.injEq, Prod.mk.injEq] at h
  obtain ⟨hold0, _, _, _, p, _, first, _, ⟨s1, c1⟩, hg, tok, _, r, hr, res1, _, ut1, _,
    merged, _, rfl, _⟩ := h
  obtain ⟨_, _, rfl, rfl⟩ := generate_spec hg
  exact (claimBoostedYields_pool (genSt_pool hb) hr).of_eq rfl rfl rfl

theorem unstakeCore_pool {s s' : St} {c orig : Nat} {pay : Pay} {x : Option Nat} {o : Out}
    (hb : PoolOK s.b) (h : unstakeCore s c orig pay x = some (s', o)) : PoolOK s'.b := by
  cases x <;>
  · simp only [unstakeCore, Option.bind_eq_bind, Option.bind_eq_some_iff, req_eq_some,
      sub?_eq_some, Option.pure_def, Option.some.injEq, Prod.mk.injEq] at h
    obtain ⟨_, _, hold0, _, _, _, attrs, _, ⟨s1, c1⟩, hg, tok, _, r, hr, res1, _,
      sup1, _, w2, _, bal1, _, rfl, _⟩ := h
    obtain ⟨_, _, rfl, rfl⟩ := generate_spec hg
    exact (claimBoostedYields_pool (genSt_pool hb) hr).of_eq rfl rfl rfl

theorem mergeTokens_pool {s s' : St} {c : Nat} {pays : List Pay} {o : Out}
    (hb : PoolOK s.b) (h : mergeTokens s c pays = some (s', o)) : PoolOK s'.b := by
  simp only [mergeTokens, Option.bind_eq_bind, Option.bind_eq_some_iff, req_eq_some,
    sub?_eq_some, Option.pure_def, Option.some.injEq, Prod.mk.injEq] at h
  obtain ⟨hold0, _, _, _, r, hr, res1, _, p, _, ut1, _, first, _, part, _, merged, _,
    bal1, _, rfl, _⟩ := h
  exact claimBoostedYields_pool hb hr

theorem claimBoostedRewards_pool {s s' : St} {c : Nat} {u : Option Nat} {o : Out}
    (hb : PoolOK s.b) (h : claimBoostedRewards s c u = some (s', o)) : PoolOK s'.b := by
  simp only [claimBoostedRewards, Option.bind_eq_bind, Option.bind_eq_some_iff, req_eq_some,
    sub?_eq_some, Option.pure_def, Option.some.injEq, Prod.mk.injEq] at h
  obtain ⟨_, _, _, _, _, _, ⟨s1, c1⟩, hg, r, hr, res1, _, bal1, _, rfl, _⟩ := h
  obtain ⟨_, _, rfl, rfl⟩ := generate_spec hg
  exact (claimBoostedYields_pool (genSt_pool hb) hr).of_eq rfl rfl rfl

/-- `collectUndistributedBoostedRewards`: requires week > 5; moves `remaining(w)` of the weeks
    `lastCollect+1 … week−5` (all outside the four-week claim window) into the undistributed
    total, zeroes them, touches no other week, and records `week−5` as collected -/
theorem collectUndistributed_spec {s s' : St} {o : Out} (h : collectUndistributed s = some (s', o)) :
    5 < s.week ∧
    (s.week - 5 ≤ s.lastCollectWeek ∧ s' = s ∨
     s.lastCollectWeek < s.week - 5 ∧ s'.lastCollectWeek = s.week - 5 ∧
       (∀ k, s'.b.remaining k =
          if s.lastCollectWeek + 1 ≤ k ∧ k ≤ s.week - 5 then 0 else s.b.remaining k) ∧
       s'.undistributed = s.undistributed +
          ((List.range (s.week - 5 - s.lastCollectWeek)).map
             fun i => s.b.remaining (s.lastCollectWeek + 1 + i)).sum ∧
       s'.b.paid = s.b.paid ∧ s'.b.collected = s.b.collected ∧ s'.b.accumulated = s.b.accumulated ∧
       s'.week = s.week) := by
  simp only [collectUndistributed, Option.bind_eq_bind, Option.bind_eq_some_iff, req_eq_some] at h
  obtain ⟨_, hw, h⟩ := h
  have hU : USER_MAX_CLAIM_WEEKS = 4 := rfl
  rw [hU] at hw h
  refine ⟨by omega, ?_⟩
  split at h
  · rename_i hlt
    simp only [Option.pure_def, Option.some.injEq, Prod.mk.injEq] at h
    obtain ⟨rfl, _⟩ := h
    left; exact ⟨by omega, rfl⟩
  · rename_i hlt
    simp only [Option.pure_def, Option.some.injEq, Prod.mk.injEq] at h
    obtain ⟨rfl, _⟩ := h
    right
    obtain ⟨c1, c2⟩ := collectWeeks_spec (s.week - (4 + 1) + 1 - (s.lastCollectWeek + 1))
      (s.lastCollectWeek + 1) s.b.remaining s.undistributed
    have e : s.week - (4 + 1) + 1 - (s.lastCollectWeek + 1) = s.week - 5 - s.lastCollectWeek := by omega
    rw [e] at c1 c2
    refine ⟨by omega, by simp, ?_, ?_, rfl, rfl, rfl, rfl⟩
    · intro k
      simp only []
      rw [e, c1 k]
      by_cases hk : s.lastCollectWeek + 1 ≤ k ∧ k ≤ s.week - 5
      · have : s.lastCollectWeek + 1 ≤ k ∧ k < s.lastCollectWeek + 1 + (s.week - 5 - s.lastCollectWeek) := by omega
        rw [if_pos hk, if_pos this]
      · have : ¬(s.lastCollectWeek + 1 ≤ k ∧ k < s.lastCollectWeek + 1 + (s.week - 5 - s.lastCollectWeek)) := by omega
        rw [if_neg hk, if_neg this]
    · simp only []
      rw [e]
      exact c2

theorem collectUndistributed_pool {s s' : St} {o : Out} (hb : PoolOK s.b)
    (h : collectUndistributed s = some (s', o)) : PoolOK s'.b := by
  obtain ⟨_, ⟨_, rfl⟩ | ⟨_, _, hrem, _, hp, hc, _, _⟩⟩ := collectUndistributed_spec h
  · exact hb
  · intro k
    rw [hrem k, hp, hc]
    have := hb k
    split <;> omega

/-- every transaction keeps the per-week pool bound -/
theorem stepCore_pool {s s' : St} {op : Op} {o : Out} (hb : PoolOK s.b)
    (h : stepCore s op = some (s', o)) : PoolOK s'.b := by
  cases op <;> simp only [stepCore] at h
  case stake c orig a adds =>
    cases orig <;> simp only [stakeFarm, Option.bind_eq_bind, Option.bind_eq_some_iff] at h
    · exact stakeCore_pool hb h
    · obtain ⟨_, _, h⟩ := h; exact stakeCore_pool hb h
  case stakeProxy c orig a adds =>
    simp only [stakeProxy, Option.bind_eq_bind, Option.bind_eq_some_iff] at h
    obtain ⟨_, _, h⟩ := h; exact stakeCore_pool hb h
  case stakeBehalf c u a adds =>
    simp only [stakeOnBehalf, Option.bind_eq_bind, Option.bind_eq_some_iff] at h
    obtain ⟨_, _, _, _, h⟩ := h; exact stakeCore_pool hb h
  case claim c orig p =>
    cases orig <;> simp only [claimRewards, Option.bind_eq_bind, Option.bind_eq_some_iff] at h
    · exact claimCore_pool hb h
    · obtain ⟨_, _, h⟩ := h; exact claimCore_pool hb h
  case claimNew c orig nv p =>
    simp only [claimNewValue, Option.bind_eq_bind, Option.bind_eq_some_iff] at h
    obtain ⟨_, _, h⟩ := h; exact claimCore_pool hb h
  case claimBehalf c ps =>
    simp only [claimOnBehalf, Option.bind_eq_bind, Option.bind_eq_some_iff] at h
    obtain ⟨_, _, _, _, h⟩ := h; exact claimCore_pool hb h
  case compound c ps => exact compound_pool hb h
  case unstake c orig p =>
    cases orig <;> simp only [unstakeFarm, Option.bind_eq_bind, Option.bind_eq_some_iff] at h
    · exact unstakeCore_pool hb h
    · obtain ⟨_, _, h⟩ := h; exact unstakeCore_pool hb h
  case unstakeProxy c orig x p =>
    simp only [unstakeProxy, Option.bind_eq_bind, Option.bind_eq_some_iff] at h
    obtain ⟨_, _, h⟩ := h; exact unstakeCore_pool hb h
  case unbond c p =>
    obtain ⟨_, _, _, _, _, _, rfl⟩ := unbondFarm_iff.1 h
    exact hb
  case merge c ps => exact mergeTokens_pool hb h
  case claimBoosted c u => exact claimBoostedRewards_pool hb h
  case «calc» q a t =>
    simp only [Option.map_eq_some_iff, Prod.mk.injEq] at h
    obtain ⟨_, _, rfl, _⟩ := h
    exact hb
  case transfer a b p =>
    simp only [transfer, Option.bind_eq_bind, Option.bind_eq_some_iff, req_eq_some,
      Option.pure_def, Option.some.injEq, Prod.mk.injEq] at h
    obtain ⟨_, _, hold0, _, rfl, _⟩ := h
    exact hb
  case setEnergy u a l =>
    simp only [Option.some.injEq, Prod.mk.injEq] at h
    obtain ⟨rfl, _⟩ := h
    exact hb
  case updateEnergy u =>
    simp only [updateEnergy, Option.bind_eq_bind, Option.bind_eq_some_iff,
      Option.pure_def, Option.some.injEq, Prod.mk.injEq] at h
    obtain ⟨g, _, rfl, _⟩ := h
    exact hb
  case topUp x =>
    simp only [topUp, Option.bind_eq_bind, Option.bind_eq_some_iff, req_eq_some,
      Option.pure_def, Option.some.injEq, Prod.mk.injEq] at h
    obtain ⟨_, _, rfl, _⟩ := h
    exact hb
  case withdraw x =>
    simp only [withdraw, Option.bind_eq_bind, Option.bind_eq_some_iff, req_eq_some,
      sub?_eq_some, Option.pure_def, Option.some.injEq, Prod.mk.injEq] at h
    obtain ⟨⟨s1, c1⟩, hg, rem, _, _, _, cap, _, bal1, _, rfl, _⟩ := h
    obtain ⟨_, _, rfl, rfl⟩ := generate_spec hg
    exact hb.of_eq rfl rfl rfl
  case setMaxApr x =>
    simp only [setMaxApr, Option.bind_eq_bind, Option.bind_eq_some_iff] at h
    obtain ⟨_, _, h⟩ := h
    rw [(settleThen_eq h).2]; exact hb.of_eq rfl rfl rfl
  case setPerBlock x =>
    simp only [setPerBlock, Option.bind_eq_bind, Option.bind_eq_some_iff] at h
    obtain ⟨_, _, h⟩ := h
    rw [(settleThen_eq h).2]; exact hb.of_eq rfl rfl rfl
  case startProduce =>
    simp only [startProduce, Option.bind_eq_bind, Option.bind_eq_some_iff, req_eq_some,
      Option.pure_def, Option.some.injEq, Prod.mk.injEq] at h
    obtain ⟨_, _, _, _, rfl, _⟩ := h
    exact hb
  case endProduce =>
    rw [(settleThen_eq h).2]; exact hb.of_eq rfl rfl rfl
  case setMinUnbond e =>
    simp only [setMinUnbond, Option.bind_eq_bind, Option.bind_eq_some_iff, req_eq_some,
      Option.pure_def, Option.some.injEq, Prod.mk.injEq] at h
    obtain ⟨_, _, rfl, _⟩ := h
    exact hb
  case setBoostedPct p =>
    simp only [setBoostedPct, Option.bind_eq_bind, Option.bind_eq_some_iff, req_eq_some] at h
    obtain ⟨_, _, h⟩ := h
    rw [(settleThen_eq h).2]; exact hb.of_eq rfl rfl rfl
  case setFactors x =>
    simp only [setFactors, Option.bind_eq_bind, Option.bind_eq_some_iff, req_eq_some,
      Option.pure_def, Option.some.injEq, Prod.mk.injEq] at h
    obtain ⟨_, _, _, _, c, _, rfl, _⟩ := h
    exact hb.of_eq rfl rfl rfl
  case collectUndistributed => exact collectUndistributed_pool hb h
  case pause =>
    simp only [Option.some.injEq, Prod.mk.injEq] at h
    obtain ⟨rfl, _⟩ := h
    exact hb
  case resume =>
    simp only [Option.some.injEq, Prod.mk.injEq] at h
    obtain ⟨rfl, _⟩ := h
    exact hb
  case hubWhitelist u a =>
    simp only [Option.bind_eq_bind, Option.bind_eq_some_iff, req_eq_some,
      Option.pure_def, Option.some.injEq, Prod.mk.injEq] at h
    obtain ⟨_, _, rfl, _⟩ := h
    exact hb
  case hubRemove u a =>
    simp only [Option.bind_eq_bind, Option.bind_eq_some_iff, req_eq_some,
      Option.pure_def, Option.some.injEq, Prod.mk.injEq] at h
    obtain ⟨_, _, rfl, _⟩ := h
    exact hb
  case advance b e =>
    simp only [Option.some.injEq, Prod.mk.injEq] at h
    obtain ⟨rfl, _⟩ := h
    exact hb

theorem step_pool {s s' : St} {op : Op} {o : Out} (hb : PoolOK s.b)
    (h : step s op = some (s', o)) : PoolOK s'.b := by
  simp only [step, Option.bind_eq_bind, Option.bind_eq_some_iff] at h
  obtain ⟨_, _, h⟩ := h
  exact stepCore_pool hb h

theorem run_pool (ops : List Op) {s : St} (hb : PoolOK s.b) : PoolOK (run s ops).b := by
  induction ops generalizing s with
  | nil => simpa [run] using hb
  | cons op ops ih =>
    simp only [run, List.foldl_cons]
    cases hst : step s op with
    | none => exact ih hb
    | some r =>
      obtain ⟨s1, o⟩ := r
      exact ih (step_pool hb hst)

end Mx.Staking
