/-
  Arithmetic facts about the AMM formulas (no contract state here).
-/
import MxModel.Core.Pair
import Mathlib.Tactic.Linarith
import Mathlib.Tactic.Ring
import Mathlib.Tactic.Positivity

namespace Mx.Pair

/-- a no-fee swap never decreases the product of the reserves -/
theorem noFee_k (a rin rout : Nat) (h : amountOutNoFee a rin rout ≤ rout) :
    rin * rout ≤ (rin + a) * (rout - amountOutNoFee a rin rout) := by
  unfold amountOutNoFee at *
  have h1 : (rin + a) * (a * rout / (rin + a)) ≤ a * rout := Nat.mul_div_le _ _
  obtain ⟨t, ht⟩ := Nat.exists_eq_add_of_le h
  generalize a * rout / (rin + a) = out at *
  subst ht
  rw [Nat.add_sub_cancel_left]
  nlinarith

end Mx.Pair

namespace Mx.Pair

/-- pro-rata mint never dilutes: with `L ≤ ⌊o₁S/r₁⌋` and `L ≤ ⌊o₂S/r₂⌋`,
    `r₁r₂/S² ≤ (r₁+o₁)(r₂+o₂)/(S+L)²` (cross-multiplied) -/
theorem addLiq_share (r1 r2 S o1 o2 L : Nat) (h1 : 0 < r1) (h2 : 0 < r2)
    (hL1 : L ≤ o1 * S / r1) (hL2 : L ≤ o2 * S / r2) :
    r1 * r2 * (S + L) ^ 2 ≤ (r1 + o1) * (r2 + o2) * S ^ 2 := by
  have e1 : L * r1 ≤ o1 * S := (Nat.le_div_iff_mul_le h1).mp hL1
  have e2 : L * r2 ≤ o2 * S := (Nat.le_div_iff_mul_le h2).mp hL2
  have f1 : r1 * (S + L) ≤ (r1 + o1) * S := by nlinarith
  have f2 : r2 * (S + L) ≤ (r2 + o2) * S := by nlinarith
  calc r1 * r2 * (S + L) ^ 2 = (r1 * (S + L)) * (r2 * (S + L)) := by ring
    _ ≤ ((r1 + o1) * S) * ((r2 + o2) * S) := Nat.mul_le_mul f1 f2
    _ = (r1 + o1) * (r2 + o2) * S ^ 2 := by ring

/-- floor payout never dilutes the remaining holders -/
theorem removeLiq_share (r1 r2 S lp : Nat) (hS : 0 < S) (hlp : lp ≤ S) :
    r1 * r2 * (S - lp) ^ 2 ≤ (r1 - lp * r1 / S) * (r2 - lp * r2 / S) * S ^ 2 := by
  have e1 : lp * r1 / S * S ≤ lp * r1 := Nat.div_mul_le_self _ _
  have e2 : lp * r2 / S * S ≤ lp * r2 := Nat.div_mul_le_self _ _
  have g1 : lp * r1 / S ≤ r1 := by
    apply Nat.div_le_of_le_mul; nlinarith
  have g2 : lp * r2 / S ≤ r2 := by
    apply Nat.div_le_of_le_mul; nlinarith
  obtain ⟨t, rfl⟩ := Nat.exists_eq_add_of_le hlp
  generalize lp * r1 / (lp + t) = x1 at *
  generalize lp * r2 / (lp + t) = x2 at *
  obtain ⟨y1, rfl⟩ := Nat.exists_eq_add_of_le g1
  obtain ⟨y2, rfl⟩ := Nat.exists_eq_add_of_le g2
  simp only [Nat.add_sub_cancel_left]
  have f1 : (x1 + y1) * t ≤ y1 * (lp + t) := by nlinarith
  have f2 : (x2 + y2) * t ≤ y2 * (lp + t) := by nlinarith
  calc (x1 + y1) * (x2 + y2) * t ^ 2 = ((x1 + y1) * t) * ((x2 + y2) * t) := by ring
    _ ≤ (y1 * (lp + t)) * (y2 * (lp + t)) := Nat.mul_le_mul f1 f2
    _ = y1 * y2 * (lp + t) ^ 2 := by ring

/-- adding then immediately removing the minted LP returns at most the deposit -/
theorem add_remove_le (r S o L : Nat) (hr : 0 < r) (hL : L ≤ o * S / r) :
    L * (r + o) / (S + L) ≤ o := by
  have e : L * r ≤ o * S := (Nat.le_div_iff_mul_le hr).mp hL
  by_cases h0 : S + L = 0
  · simp [h0]
  · apply Nat.div_le_of_le_mul
    nlinarith

/-- the fixed-output charge always buys the requested amount under the fixed-input rule -/
theorem swapOut_sufficient (total out rin rout : Nat) (ht : total < M) (ho : out < rout) :
    out ≤ amountOut total (amountIn total out rin rout) rin rout := by
  unfold amountOut amountIn
  have hd : 0 < (rout - out) * (M - total) := Nat.mul_pos (by omega) (by omega)
  have hlt := Nat.lt_mul_div_succ (rin * out * M) hd
  generalize rin * out * M / ((rout - out) * (M - total)) + 1 = ain at *
  obtain ⟨t, rfl⟩ := Nat.exists_eq_add_of_lt ho
  have e : out + t + 1 - out = t + 1 := by omega
  rw [e] at hlt hd
  generalize M - total = g at *
  have hden : 0 < rin * M + ain * g := by
    rcases Nat.eq_zero_or_pos (ain * g) with h | h
    · have e2 : (t + 1) * g * ain = (t + 1) * (ain * g) := by ring
      rw [e2, h] at hlt
      simp at hlt
    · omega
  rw [Nat.le_div_iff_mul_le hden]
  nlinarith

/-- K never decreases on a fee-charging fixed-input swap: whatever part `fee ≤ a·total/M`
    of the input is kept out of the reserve, the floor output keeps `rIn·rOut` from falling -/
theorem swapIn_k (total a rin rout fee : Nat) (ht : total ≤ M) (hfee : fee * M ≤ a * total)
    (ho : amountOut total a rin rout ≤ rout) :
    rin * rout ≤ (rin + (a - fee)) * (rout - amountOut total a rin rout) := by
  unfold amountOut at *
  obtain ⟨g, hg⟩ : ∃ g, M = total + g := ⟨M - total, by omega⟩
  have e : M - total = g := by omega
  rw [e] at ho ⊢
  have h1 := Nat.div_mul_le_self (a * g * rout) (rin * M + a * g)
  generalize a * g * rout / (rin * M + a * g) = out at *
  obtain ⟨t, rfl⟩ := Nat.exists_eq_add_of_le ho
  rw [Nat.add_sub_cancel_left]
  have hfa : fee ≤ a := by
    by_contra hc
    have : a * M < fee * M := by
      apply Nat.mul_lt_mul_of_pos_right (by omega)
      unfold M; decide
    nlinarith
  obtain ⟨b, rfl⟩ := Nat.exists_eq_add_of_le hfa
  rw [Nat.add_sub_cancel_left]
  -- out * (rin*M + (fee+b)*g) ≤ (fee+b)*g*(out+t)  and  fee*M ≤ (fee+b)*total, M = total+g
  have hM : 0 < M := by unfold M; decide
  have k1 : out * rin * M ≤ (fee + b) * g * t := by nlinarith [h1]
  have k2 : fee * g ≤ b * total := by
    rw [hg] at hfee
    nlinarith [hfee]
  have k3 : (fee + b) * g * t ≤ b * t * M := by
    rw [hg]
    nlinarith [Nat.mul_le_mul_right t k2]
  have key : rin * out * M ≤ (b * t) * M := by
    calc rin * out * M = out * rin * M := by ring
      _ ≤ (fee + b) * g * t := k1
      _ ≤ b * t * M := k3
  have : rin * out ≤ b * t := Nat.le_of_mul_le_mul_right key hM
  nlinarith

end Mx.Pair

namespace Mx.Pair

/-- K never decreases on a fee-charging fixed-output swap: the `+1` in the charge more than
    pays for whatever fee (up to the total fee) is kept out of the reserve -/
theorem swapOut_k (total out rin rout fee : Nat) (ht : total < M) (ho : out < rout)
    (hfee : fee * M ≤ amountIn total out rin rout * total) :
    rin * rout ≤ (rin + (amountIn total out rin rout - fee)) * (rout - out) := by
  unfold amountIn at *
  have hd : 0 < (rout - out) * (M - total) := Nat.mul_pos (by omega) (by omega)
  have hlt := Nat.lt_mul_div_succ (rin * out * M) hd
  generalize rin * out * M / ((rout - out) * (M - total)) + 1 = ain at *
  obtain ⟨t, rfl⟩ := Nat.exists_eq_add_of_lt ho
  have e : out + t + 1 - out = t + 1 := by omega
  rw [e] at hlt hd ⊢
  obtain ⟨g, hg⟩ : ∃ g, M = total + g := ⟨M - total, by omega⟩
  have e2 : M - total = g := by omega
  rw [e2] at hlt hd
  have hM : 0 < M := by unfold M; decide
  have hfa : fee ≤ ain := by
    by_contra hc
    have : ain * M < fee * M := Nat.mul_lt_mul_of_pos_right (by omega) hM
    have : ain * total ≤ ain * M := Nat.mul_le_mul_left _ (by omega)
    omega
  obtain ⟨b, rfl⟩ := Nat.exists_eq_add_of_le hfa
  rw [Nat.add_sub_cancel_left]
  -- fee*g ≤ b*total ; rin*out*M < (t+1)*g*(fee+b)
  have k2 : fee * g ≤ b * total := by
    rw [hg] at hfee
    nlinarith [hfee]
  have k3 : (t + 1) * g * (fee + b) ≤ b * (t + 1) * M := by
    rw [hg]
    nlinarith [Nat.mul_le_mul_right (t + 1) k2]
  have key : rin * out * M ≤ (b * (t + 1)) * M := by
    calc rin * out * M ≤ (t + 1) * g * (fee + b) := Nat.le_of_lt hlt
      _ ≤ b * (t + 1) * M := k3
  have : rin * out ≤ b * (t + 1) := Nat.le_of_mul_le_mul_right key hM
  nlinarith

end Mx.Pair
