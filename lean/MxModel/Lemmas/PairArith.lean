/-
  Arithmetic facts about the AMM formulas (no contract state here).
-/
import MxModel.Core.Pair
import Mathlib.Tactic.Linarith
import Mathlib.Tactic.Ring
import Mathlib.Tactic.Positivity

namespace Mx.Pair

/-- a no-fee swap never decreases the product of the reserves -/
theorem noFee_k (a rin rout : Nat) (h : amountOutNoFee a rin rout ≤ rout) :
    rin * rout ≤ (rin + a) * (rout - amountOutNoFee a rin rout) := by
  unfold amountOutNoFee at *
  have h1 : (rin + a) * (a * rout / (rin + a)) ≤ a * rout := Nat.mul_div_le _ _
  obtain ⟨t, ht⟩ := Nat.exists_eq_add_of_le h
  generalize a * rout / (rin + a) = out at *
  subst ht
  rw [Nat.add_sub_cancel_left]
  nlinarith

end Mx.Pair
