/-
  Price discovery: the inductive invariant (tracked = real + paid out, supply = circulating +
  redeemed, payouts bounded by the pool) and its preservation by every operation.
-/
import MxModel.Lemmas.PdSpec

set_option linter.unusedSimpArgs false

namespace Mx.PD

/-! ### sums over the user accounts `1 … n` -/

def sumU : Nat → (Nat → Nat) → Nat
  | 0, _ => 0
  | n + 1, f => sumU n f + f (n + 1)

theorem sumU_upd_out (n : Nat) (f : Nat → Nat) {c : Nat} (v : Nat) (h : n < c) :
    sumU n (upd f c v) = sumU n f := by
  induction n with
  | zero => rfl
  | succ n ih =>
    simp only [sumU]
    rw [ih (by omega), upd_ne f v (by omega)]

theorem sumU_upd (n : Nat) (f : Nat → Nat) {c : Nat} (v : Nat) (h1 : 1 ≤ c) (h2 : c ≤ n) :
    sumU n (upd f c v) + f c = sumU n f + v := by
  induction n with
  | zero => omega
  | succ n ih =>
    simp only [sumU]
    by_cases hc : c = n + 1
    · subst hc
      rw [sumU_upd_out n f v (by omega), upd_same]
      omega
    · have := ih (by omega)
      rw [upd_ne f v (by omega : n + 1 ≠ c)]
      omega

theorem le_sumU (n : Nat) (f : Nat → Nat) {c : Nat} (h1 : 1 ≤ c) (h2 : c ≤ n) : f c ≤ sumU n f := by
  induction n with
  | zero => omega
  | succ n ih =>
    simp only [sumU]
    by_cases hc : c = n + 1
    · subst hc; omega
    · have := ih (by omega); omega

/-! ### the invariant -/

/-- per side `t` (redeem tokens of nonce `t`, pool of token `t`) -/
structure SideInv (s : St) (t : Tok) : Prop where
  /-- tracked pool = real holdings + what `redeem` paid out of it -/
  real_paid : (s.side t).real + (s.side t).paid = (s.side t).bal
  /-- reported supply = redeem tokens in users' hands + those handed in through `redeem` -/
  sup_eq : sumU s.n (s.side t).h + (s.side t).red = (s.side t).sup
  /-- the opposite token is paid out pro rata to the redeem tokens handed in -/
  paid_prod : (s.side t.other).paid * (s.side t).sup ≤ (s.side t.other).bal * (s.side t).red
  paid_zero : (s.side t).sup = 0 → (s.side t.other).paid = 0
  /-- nothing is redeemed or paid out before the redeem phase -/
  pre_redeem : s.block < s.cfg.e3 → (s.side t).red = 0 ∧ (s.side t).paid = 0

def Inv (s : St) : Prop := ∀ t, SideInv s t

theorem inv_init (cfg : Cfg) (n fL fA : Nat) : Inv (init cfg n fL fA) := by
  have hs : ∀ n : Nat, sumU n (fun _ => 0) = 0 := by
    intro n; induction n with
    | zero => rfl
    | succ n ih => simp [sumU, ih]
  intro t
  cases t <;> constructor <;> simp [init, Side.init, St.side, Tok.other, hs]

theorem phase_eq (s : St) : s.phase = s.cfg.phaseAt s.block := rfl

theorem deposit_inv {s s' : St} {c : Nat} {t : Tok} {amt : Nat} {o : Out} (hi : Inv s)
    (h : deposit s c t amt = some (s', o)) : Inv s' := by
  obtain ⟨p, hu, _, hph, hw, _, _, _, rfl⟩ := deposit_spec h
  rw [phase_eq, depositAllowed_iff] at hph
  have hb : s.block < s.cfg.e3 := by have := e2_le_e3 s.cfg; omega
  have it := hi t
  have io := hi t.other
  obtain ⟨r1, p1⟩ := it.pre_redeem hb
  obtain ⟨r2, p2⟩ := io.pre_redeem hb
  have hsum := sumU_upd s.n (s.side t).h ((s.side t).h c + amt) hu.1 hu.2
  intro t'
  by_cases ht : t' = t
  · subst ht
    constructor <;> simp only [side_setSide, side_setSide_other, setSide_n, setSide_block,
      setSide_cfg, depSide]
    · have := it.real_paid; omega
    · have := it.sup_eq; omega
    · rw [p2]; simp
    · intro _; exact p2
    · intro _; exact ⟨r1, p1⟩
  · have ht' := side_of_ne ht
    subst ht'
    constructor <;> simp only [side_setSide, side_setSide_other, setSide_n, setSide_block,
      setSide_cfg, depSide, other_other]
    · exact io.real_paid
    · exact io.sup_eq
    · rw [p1]; simp
    · intro _; exact p1
    · intro _; exact ⟨r2, p2⟩

theorem withdraw_inv {s s' : St} {c : Nat} {t : Tok} {amt : Nat} {o : Out} (hi : Inv s)
    (h : withdraw s c t amt = some (s', o)) : Inv s' := by
  obtain ⟨p, pen, hu, _, hph, _, hpen, hh, hsup, hbal, hreal, _, _, _, rfl⟩ := withdraw_spec h
  rw [phase_eq, withdrawAllowed_iff] at hph
  have hb : s.block < s.cfg.e3 := hph.2
  have it := hi t
  have io := hi t.other
  obtain ⟨r1, p1⟩ := it.pre_redeem hb
  obtain ⟨r2, p2⟩ := io.pre_redeem hb
  have hsum := sumU_upd s.n (s.side t).h ((s.side t).h c - amt) hu.1 hu.2
  intro t'
  by_cases ht : t' = t
  · subst ht
    constructor <;> simp only [side_setSide, side_setSide_other, setSide_n, setSide_block,
      setSide_cfg, wdSide]
    · have := it.real_paid; omega
    · have := it.sup_eq; omega
    · rw [p2]; simp
    · intro _; exact p2
    · intro _; exact ⟨r1, p1⟩
  · have ht' := side_of_ne ht
    subst ht'
    constructor <;> simp only [side_setSide, side_setSide_other, setSide_n, setSide_block,
      setSide_cfg, wdSide, other_other]
    · exact io.real_paid
    · exact io.sup_eq
    · rw [p1]; simp
    · intro _; exact p1
    · intro _; exact ⟨r2, p2⟩

theorem redeem_inv {s s' : St} {c : Nat} {t : Tok} {amt : Nat} {o : Out} (hi : Inv s)
    (h : redeem s c t amt = some (s', o)) : Inv s' := by
  obtain ⟨bought, hu, _, hph, hh, hsup, hbt, hreal, _, rfl⟩ := redeem_spec h
  rw [phase_eq, redeemAllowed_iff] at hph
  have it := hi t
  have io := hi t.other
  have hsum := sumU_upd s.n (s.side t).h ((s.side t).h c - amt) hu.1 hu.2
  have hdiv : bought * (s.side t).sup ≤ (s.side t.other).bal * amt := by
    rw [hbt]; exact Nat.div_mul_le_self _ _
  intro t'
  by_cases ht : t' = t
  · subst ht
    constructor <;> simp only [side_setSide, side_setSide_other, side_other_setSide, setSide_n,
      setSide_block, setSide_cfg, rdSideX, rdSideY_bal, rdSideY_sup, rdSideY_red, rdSideY_h,
      rdSideY_real, rdSideY_paid]
    · exact it.real_paid
    · have := it.sup_eq; omega
    · have := it.paid_prod
      rw [Nat.add_mul, Nat.mul_add]
      omega
    · intro h0; exact absurd h0 hsup
    · intro hb; omega
  · have ht' := side_of_ne ht
    subst ht'
    constructor <;> simp only [side_setSide, side_setSide_other, side_other_setSide, setSide_n,
      setSide_block, setSide_cfg, rdSideX, rdSideY_bal, rdSideY_sup, rdSideY_red, rdSideY_h,
      rdSideY_real, rdSideY_paid, other_other]
    · have := io.real_paid; omega
    · exact io.sup_eq
    · have := io.paid_prod; simpa using this
    · have := io.paid_zero; simpa using this
    · intro hb; omega

theorem step_inv {s s' : St} {op : Op} {o : Out} (hi : Inv s) (h : step s op = some (s', o)) :
    Inv s' := by
  rcases step_cases h with ⟨c, t, a, _, h⟩ | ⟨c, t, a, _, h⟩ | ⟨c, t, a, _, h⟩ |
      ⟨b, _, hb, rfl, _⟩ | ⟨e, _, _, rfl, _⟩
  · exact deposit_inv hi h
  · exact withdraw_inv hi h
  · exact redeem_inv hi h
  · intro t
    have := hi t
    exact ⟨this.real_paid, this.sup_eq, this.paid_prod, this.paid_zero,
      fun hlt => this.pre_redeem (by show s.block < s.cfg.e3; have : b < s.cfg.e3 := hlt; omega)⟩
  · intro t
    have := hi t
    exact ⟨this.real_paid, this.sup_eq, this.paid_prod, this.paid_zero, this.pre_redeem⟩

theorem run_inv (ops : List Op) {s : St} (hi : Inv s) : Inv (run s ops) := by
  induction ops generalizing s with
  | nil => simpa [run] using hi
  | cons op ops ih =>
    simp only [run, List.foldl_cons]
    cases hst : step s op with
    | none => exact ih hi
    | some r =>
      obtain ⟨s1, o⟩ := r
      exact ih (step_inv hi hst)

theorem run_cons (s : St) (op : Op) (ops : List Op) :
    run s (op :: ops) = run (match step s op with | some (s', _) => s' | none => s) ops := rfl

theorem run_append (s : St) (a b : List Op) : run s (a ++ b) = run (run s a) b := by
  simp [run, List.foldl_append]

/-- payouts never exceed the pool they are taken from -/
theorem Inv.paid_le_bal {s : St} (hi : Inv s) (t : Tok) : (s.side t).paid ≤ (s.side t).bal := by
  have i := hi t.other
  have pz := i.paid_zero
  have pp := i.paid_prod
  simp only [other_other] at pz pp
  by_cases h0 : (s.side t.other).sup = 0
  · have := pz h0; omega
  · have h1 : (s.side t.other).red ≤ (s.side t.other).sup := by have := i.sup_eq; omega
    have h2 : (s.side t).bal * (s.side t.other).red ≤ (s.side t).bal * (s.side t.other).sup :=
      Nat.mul_le_mul_left _ h1
    exact Nat.le_of_mul_le_mul_right (Nat.le_trans pp h2) (by omega)

/-! ### things no operation changes -/

theorem step_cfg {s s' : St} {op : Op} {o : Out} (h : step s op = some (s', o)) :
    s'.cfg = s.cfg ∧ s'.n = s.n ∧ s.block ≤ s'.block ∧ s.epoch ≤ s'.epoch := by
  rcases step_cases h with ⟨c, t, a, _, h⟩ | ⟨c, t, a, _, h⟩ | ⟨c, t, a, _, h⟩ |
      ⟨b, _, hb, rfl, _⟩ | ⟨e, _, he, rfl, _⟩
  · obtain ⟨_, _, _, _, _, _, _, _, rfl⟩ := deposit_spec h; simp
  · obtain ⟨_, _, _, _, _, _, _, _, _, _, _, _, _, _, rfl⟩ := withdraw_spec h; simp
  · obtain ⟨_, _, _, _, _, _, _, _, _, rfl⟩ := redeem_spec h; simp
  · exact ⟨rfl, rfl, hb, Nat.le_refl _⟩
  · exact ⟨rfl, rfl, Nat.le_refl _, he⟩

theorem run_cfg (ops : List Op) (s : St) :
    (run s ops).cfg = s.cfg ∧ (run s ops).n = s.n ∧ s.block ≤ (run s ops).block := by
  induction ops generalizing s with
  | nil => simp [run]
  | cons op ops ih =>
    rw [run_cons]
    cases hst : step s op with
    | none => exact ih s
    | some r =>
      obtain ⟨s1, o⟩ := r
      have h1 := step_cfg hst
      have h2 := ih s1
      simp only
      exact ⟨h2.1.trans h1.1, h2.2.1.trans h1.2.1, Nat.le_trans h1.2.2.1 h2.2.2⟩

/-! ### the redemption ledger -/

/-- what operation `op` with result `o` paid out of pool `t` through `redeem` -/
def payoutOf (t : Tok) (op : Op) (o : Out) : Nat :=
  match op with
  | .redeem _ t' _ => if t'.other = t then o.v1 else 0
  | _ => 0

/-- total paid out of pool `t` by the successful `redeem` calls of a history -/
def payouts (t : Tok) : St → List Op → Nat
  | _, [] => 0
  | s, op :: ops =>
    match step s op with
    | some (s', o) => payoutOf t op o + payouts t s' ops
    | none => payouts t s ops

theorem step_paid {s s' : St} {op : Op} {o : Out} (h : step s op = some (s', o)) (t : Tok) :
    (s'.side t).paid = (s.side t).paid + payoutOf t op o := by
  rcases step_cases h with ⟨c, t1, a, rfl, h⟩ | ⟨c, t1, a, rfl, h⟩ | ⟨c, t1, a, rfl, h⟩ |
      ⟨b, rfl, hb, rfl, _⟩ | ⟨e, rfl, he, rfl, _⟩
  · obtain ⟨_, _, _, _, _, _, _, _, rfl⟩ := deposit_spec h
    simp only [payoutOf, Nat.add_zero]
    by_cases ht : t = t1
    · subst ht; simp [depSide]
    · rw [side_of_ne ht]; simp
  · obtain ⟨_, _, _, _, _, _, _, _, _, _, _, _, _, _, rfl⟩ := withdraw_spec h
    simp only [payoutOf, Nat.add_zero]
    by_cases ht : t = t1
    · subst ht; simp [wdSide]
    · rw [side_of_ne ht]; simp
  · obtain ⟨bought, _, _, _, _, _, _, _, rfl, rfl⟩ := redeem_spec h
    simp only [payoutOf]
    by_cases ht : t = t1
    · subst ht; simp [rdSideX]
    · have := side_of_ne ht; subst this; simp
  · simp [payoutOf, St.side]
  · simp [payoutOf, St.side]

theorem paid_eq_payouts (t : Tok) (ops : List Op) (s : St) :
    ((run s ops).side t).paid = (s.side t).paid + payouts t s ops := by
  induction ops generalizing s with
  | nil => simp [run, payouts]
  | cons op ops ih =>
    rw [run_cons]
    simp only [payouts]
    cases hst : step s op with
    | none => exact ih s
    | some r =>
      obtain ⟨s1, o⟩ := r
      simp only
      rw [ih s1, step_paid hst t]
      omega

end Mx.PD
