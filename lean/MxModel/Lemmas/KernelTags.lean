/-
  Variant indices of the Rust enums that `bin/gen-kernels` translates to (tag, payload) pairs,
  as functions on the model's inductive types.  Used only to STATE the Props/K*.lean theorems.
-/
import MxModel.Core.Governance

namespace Mx.Gov

/-- index of the `GovernanceProposalStatus` variant (proposal.rs: `None, Pending, Active, Defeated,
    DefeatedWithVeto, Succeeded`) -/
def Status.tag : Status → Nat
  | .none => 0
  | .pending => 1
  | .active => 2
  | .defeated => 3
  | .vetoed => 4
  | .succeeded => 5

theorem Status.tag_injective {a b : Status} (h : a.tag = b.tag) : a = b := by
  cases a <;> cases b <;> first | rfl | (simp [Status.tag] at h)

end Mx.Gov
